(* Lemmas about Model/Workers.v (C18): invariants of every reachable state of the interleaving semantics. *)
From TV Require Import Common.Prelude Model.Workers.
From Coq Require Import Permutation.

Arguments nj : simpl never.
Arguments bsz : simpl never.
Arguments remaining : simpl never.

(* ------------------------------------------------------------------------------------------------ *)
(** * lists *)

Lemma upd_length {A} (l : list A) i v : length (upd l i v) = length l.
Proof. revert i; induction l as [|a r IH]; intros [|i]; cbn; auto. Qed.

Lemma nth_error_upd {A} (l : list A) i j v w :
  nth_error (upd l i v) j = Some w ->
  (i = j /\ w = v /\ i < length l) \/ (i <> j /\ nth_error l j = Some w).
Proof.
  revert i j; induction l as [|a r IH]; intros [|i] [|j]; cbn; intros H; try discriminate.
  - left; inversion H; repeat split; auto; lia.
  - right; split; auto.
  - right; split; auto.
  - destruct (IH _ _ H) as [[-> [-> Hl]]|[Hn H']]; [left; repeat split; auto; lia | right; split; auto].
Qed.

Lemma nth_error_upd_eq {A} (l : list A) i v : i < length l -> nth_error (upd l i v) i = Some v.
Proof. revert i; induction l as [|a r IH]; intros [|i] H; cbn in *; try lia; auto. apply IH; lia. Qed.

Lemma nth_error_upd_neq {A} (l : list A) i j v : i <> j -> nth_error (upd l i v) j = nth_error l j.
Proof. revert i j; induction l as [|a r IH]; intros [|i] [|j] H; cbn; auto; try lia. Qed.

Lemma nth_error_lt {A} (l : list A) i w : nth_error l i = Some w -> i < length l.
Proof. intros H; apply nth_error_Some; congruence. Qed.

Lemma memb_In p l : memb p l = true <-> In p l.
Proof.
  induction l as [|q r IH]; cbn; [split; [discriminate|tauto]|].
  destruct (Nat.eqb_spec p q); [subst; tauto|]. rewrite IH; split; [tauto|intros [?|?]; [congruence|auto]].
Qed.

Lemma memb_false p l : memb p l = false <-> ~ In p l.
Proof. rewrite <- memb_In. destruct (memb p l); split; congruence. Qed.

Lemma nodupb_NoDup l : nodupb l = true <-> NoDup l.
Proof.
  induction l as [|p r IH]; cbn; [split; [constructor|auto]|].
  destruct (memb p r) eqn:E.
  - split; [discriminate|]. intros H; inversion H; subst. apply memb_In in E; tauto.
  - rewrite IH. apply memb_false in E. split; [intros; constructor; auto|intros H; inversion H; auto].
Qed.

Lemma remove_one_In q p l : In q (remove_one p l) -> In q l.
Proof.
  induction l as [|a r IH]; cbn; auto. destruct (Nat.eqb_spec p a); cbn; [auto|]. intros [?|?]; auto.
Qed.

Lemma remove_one_In_neq q p l : q <> p -> In q l -> In q (remove_one p l).
Proof.
  intros Hn; induction l as [|a r IH]; cbn; auto. destruct (Nat.eqb_spec p a); cbn.
  - intros [?|?]; [congruence|auto].
  - intros [?|?]; auto.
Qed.

Lemma remove_one_NoDup p l : NoDup l -> NoDup (remove_one p l).
Proof.
  induction 1 as [|a r Hn Hd IH]; cbn; [constructor|]. destruct (Nat.eqb_spec p a); auto.
  constructor; auto. intros H; apply remove_one_In in H; auto.
Qed.

Lemma remove_one_NoDup_notin p l : NoDup l -> ~ In p (remove_one p l).
Proof.
  induction 1 as [|a r Hn Hd IH]; cbn; auto. destruct (Nat.eqb_spec p a); [subst; auto|].
  intros [?|?]; [congruence|auto].
Qed.

Lemma remove_all_In q ps l : In q (remove_all ps l) -> In q l.
Proof.
  unfold remove_all; revert l; induction ps as [|p r IH]; cbn; auto. intros l H. apply IH in H. eapply remove_one_In; eauto.
Qed.

Lemma remove_all_In_notin q ps l : ~ In q ps -> In q l -> In q (remove_all ps l).
Proof.
  unfold remove_all; revert l; induction ps as [|p r IH]; cbn; auto. intros l Hn H. apply IH; [tauto|].
  apply remove_one_In_neq; auto.
Qed.

Lemma remove_all_NoDup ps l : NoDup l -> NoDup (remove_all ps l).
Proof. unfold remove_all; revert l; induction ps as [|p r IH]; cbn; auto. intros l H. apply IH, remove_one_NoDup; auto. Qed.

Lemma remove_all_NoDup_notin q ps l : NoDup l -> In q ps -> ~ In q (remove_all ps l).
Proof.
  unfold remove_all; revert l; induction ps as [|p r IH]; cbn; [tauto|]. intros l Hd [->|Hq].
  - intros H. apply (remove_all_In q r) in H. revert H. apply remove_one_NoDup_notin; auto.
  - apply IH; auto. apply remove_one_NoDup; auto.
Qed.

(* ------------------------------------------------------------------------------------------------ *)
(** * take_free / the manager *)

Lemma take_free_length n cs st : length (fst (take_free n cs st)) <= n.
Proof.
  revert n st; induction cs as [|c cs IH]; intros [|n] st; cbn; try lia.
  destruct st as [|s0 st]; cbn; [lia|].
  destruct s0.
  - specialize (IH n st). destruct (take_free n cs st); cbn in *; lia.
  - specialize (IH (S n) st). destruct (take_free (S n) cs st); cbn in *; lia.
  - specialize (IH (S n) st). destruct (take_free (S n) cs st); cbn in *; lia.
Qed.

Lemma take_free_status_length n cs st : length (snd (take_free n cs st)) = length st.
Proof.
  revert n st; induction cs as [|c cs IH]; intros [|n] st; cbn; auto.
  destruct st as [|s0 st]; cbn; auto.
  destruct s0.
  - specialize (IH n st). destruct (take_free n cs st); cbn in *; lia.
  - specialize (IH (S n) st). destruct (take_free (S n) cs st); cbn in *; lia.
  - specialize (IH (S n) st). destruct (take_free (S n) cs st); cbn in *; lia.
Qed.

Lemma m_next_length b m rem : length (fst (m_next b m rem)) <= Nat.max 1 (Nat.min rem b).
Proof.
  unfold m_next. pose proof (take_free_length (Nat.max 1 (Nat.min rem b)) (cands m) (cstatus m)) as H.
  destruct (take_free _ _ _); cbn in *; auto.
Qed.

Lemma m_next_nrun b m rem : nrun (snd (m_next b m rem)) = nrun m + length (fst (m_next b m rem)).
Proof. unfold m_next. destruct (take_free _ _ _); cbn; auto. Qed.

(* ------------------------------------------------------------------------------------------------ *)
(** * sums over the workers *)

Fixpoint sumf (f : worker -> nat) (l : list worker) : nat :=
  match l with [] => 0 | w :: r => f w + sumf f r end.

Lemma sumf_upd f l i w v : nth_error l i = Some w -> sumf f (upd l i v) + f w = sumf f l + f v.
Proof.
  revert i; induction l as [|a r IH]; intros [|i]; cbn; intros H; try discriminate.
  - inversion H; subst; lia.
  - specialize (IH _ H). lia.
Qed.

Lemma sumf_ge f l i w : nth_error l i = Some w -> f w <= sumf f l.
Proof.
  revert i; induction l as [|a r IH]; intros [|i]; cbn; intros H; try discriminate.
  - inversion H; subst; lia.
  - specialize (IH _ H). lia.
Qed.

Lemma sumf_ext f g l : (forall w, In w l -> f w = g w) -> sumf f l = sumf g l.
Proof. induction l as [|a r IH]; cbn; intros H; auto. Qed.

Lemma sumf_zero f l : (forall w, In w l -> f w = 0) <-> sumf f l = 0.
Proof.
  induction l as [|a r IH]; cbn; [tauto|]. split.
  - intros H. rewrite (H a), (proj1 IH); auto.
  - intros H w [<-|Hw]; [lia|]. apply IH; auto; lia.
Qed.

Lemma sumf_map f g l : sumf f (map g l) = sumf (fun w => f (g w)) l.
Proof. induction l as [|a r IH]; cbn; auto. Qed.

Lemma sumf_repeat f w n : sumf f (repeat w n) = n * f w.
Proof. induction n; cbn; auto; lia. Qed.

Lemma count_flag_done_sumf l : count_flag_done l = sumf (fun w => if wdone w then 1 else 0) l.
Proof. induction l as [|a r IH]; cbn; auto. Qed.

Lemma nth_error_repeat {A} (a : A) n i w : nth_error (repeat a n) i = Some w -> w = a.
Proof. intros H. apply nth_error_In, repeat_spec in H. auto. Qed.

(* ------------------------------------------------------------------------------------------------ *)
(** * Invariant 1: program counters, flags, sizes, the running counter *)

Definition pristine : worker := mkW FDone WIdle [] [].

Definition notify_pending (m : mpcT) : bool := match m with MCollect _ | MNotify => true | _ => false end.
Definition late (m : mpcT) : bool := match m with MFlush | MJoin | MExit => true | _ => false end.
Definition actx (w : worker) : nat := if wactive w then length (wx w) else 0.

Definition wok (cfg : config) (m : mpcT) (id : nat) (w : worker) : Prop :=
  (ninit cfg m <= id -> w = pristine) /\
  (id < ninit cfg m ->
     match wpc w with
     | WIdle => wflag w = FShutdown
     | WModel | WInModel | WPost => wflag w = FComputing
     | WNotify | WLock => True
     | WSleep => wflag w <> FDone -> notify_pending m = true
     | WFinished => wflag w = FShutdown
     end) /\
  (late m = true -> wflag w = FShutdown) /\
  (m = MExit -> wstopped w = true) /\
  (forall k, m = MCollect k -> id < k -> wflag w <> FDone) /\
  (wpc w = WPost \/ wflag w = FDone -> length (wy w) = length (wx w)) /\
  (id < ninit cfg m -> wactive w = true -> wx w <> []).

Definition mpc_ok (cfg : config) (m : mpcT) : Prop :=
  match m with MInit k | MCollect k => k <= nj cfg | _ => True end.

Record Inv1 (cfg : config) (s : state) : Prop := {
  i1_len : length (ws s) = nj cfg;
  i1_mpc : mpc_ok cfg (mpc s);
  i1_w : forall id w, nth_error (ws s) id = Some w -> wok cfg (mpc s) id w;
  i1_nrun : nrun (mgr s) = sumf actx (ws s);
  i1_run : mpc s = MLock \/ mpc s = MSleep -> 0 < nrun (mgr s)
}.

Lemma wok_mono cfg m m' id w :
  wok cfg m id w ->
  ninit cfg m' = ninit cfg m ->
  (notify_pending m = true -> notify_pending m' = true) ->
  (late m' = true -> late m = true) ->
  (m' = MExit -> m = MExit) ->
  (forall k', m' = MCollect k' -> id < k' -> wflag w <> FDone) ->
  wok cfg m' id w.
Proof.
  intros (H1 & H2 & H3 & H4 & H5 & H6 & H7) En Hp Hl He Hc. unfold wok. rewrite En.
  repeat split; auto.
  intros Hid. specialize (H2 Hid). destruct (wpc w); auto.
Qed.

Lemma wok_pristine cfg m id : ninit cfg m <= id -> late m = false -> (forall k, m = MCollect k -> False) -> wok cfg m id pristine.
Proof.
  intros Hid Hl Hc. unfold wok, pristine; cbn. repeat split; auto; try lia; try congruence;
    try (intros E; subst; discriminate); try (intros k E; exfalso; eauto).
Qed.

Lemma wok_started cfg m id w : wok cfg m id w -> wpc w <> WIdle -> id < ninit cfg m.
Proof.
  intros (H1 & _) Hp. destruct (Nat.lt_ge_cases id (ninit cfg m)); auto. rewrite (H1 H) in Hp. cbn in Hp. congruence.
Qed.

Lemma init_Inv1 cfg L0 n0 : Inv1 cfg (init cfg L0 n0).
Proof.
  constructor; cbn.
  - apply repeat_length.
  - exact I.
  - intros id w H. apply nth_error_repeat in H. subst. apply wok_pristine; cbn; auto; try lia; discriminate.
  - rewrite sumf_repeat. cbn. lia.
  - intros [?|?]; discriminate.
Qed.

Ltac inv_some := match goal with H : Some _ = Some _ |- _ => inversion H; subst; clear H end.

(* ------------------------------------------------------------------------------------------------ *)
(** * what one collect body does (all five exits of step_mcollect) *)

Lemma do_refresh_nrun hc m st ld c m' st' ld' : do_refresh hc m st ld c = Some (m', st', ld') -> nrun m' = nrun m.
Proof. unfold do_refresh, do_load. destruct (negb hc || cand_okb (ld ++ st) c); intros H; inversion H; subst; reflexivity. Qed.

Lemma do_refresh_mem hc m st ld c m' st' ld' :
  do_refresh hc m st ld c = Some (m', st', ld') -> forall pv, In pv (st' ++ ld') <-> In pv (st ++ ld).
Proof.
  unfold do_refresh, do_load. destruct (negb hc || cand_okb (ld ++ st) c); intros H; inversion H; subst.
  intros pv; cbn; rewrite !in_app_iff; tauto.
Qed.

Lemma step_mcollect_spec hc cfg s ldc c1 c2 s' :
  step_mcollect hc cfg s ldc c1 c2 = Some s' ->
  exists k w f' x' m' la' st' ld' h',
    mpc s = MCollect k /\ nth_error (ws s) k = Some w /\ wflag w = FDone /\
    s' = mkS (upd (ws s) k (mkW f' (wpc w) x' (wy w))) (count_done s) m' la' st' ld' (MCollect (S k)) h' (calls s) /\
    ((f' = FComputing /\ x' <> [] /\ launched s < maxpts cfg /\ la' = launched s + length x' /\
      length x' <= Nat.max 1 (Nat.min (remaining cfg (launched s)) (bsz cfg)) /\
      nrun m' = nrun (mgr s) - length (wx w) + length x' /\ h' = handed s ++ x')
     \/ (f' = FShutdown /\ la' = launched s /\ nrun m' = nrun (mgr s) - length (wx w) /\ h' = handed s)) /\
    (forall pv, In pv (st' ++ ld') <-> In pv (store s ++ loaded s) \/ In pv (combine (wx w) (wy w))).
Proof.
  unfold step_mcollect. destruct (mpc s) eqn:Em; try discriminate.
  destruct (nth_error (ws s) k) as [w|] eqn:Ek; try discriminate.
  destruct (wflag w) eqn:Ef; try discriminate.
  destruct (if ldc then do_load _ _ else _) as [st2 ld2] eqn:Eld.
  assert (Hs2 : forall pv, In pv (st2 ++ ld2) <-> In pv (store s ++ loaded s) \/ In pv (combine (wx w) (wy w))).
  { intros pv. destruct ldc; inversion Eld; subst; cbn; rewrite ?in_app_iff; tauto. }
  destruct (launched s <? maxpts cfg) eqn:Ela.
  - apply Nat.ltb_lt in Ela.
    destruct (if rule20 _ then _ else _) as [[[m2 st3] ld3]|] eqn:Er; try discriminate.
    assert (Hn2 : nrun m2 = nrun (mgr s) - length (wx w) /\ forall pv, In pv (st3 ++ ld3) <-> In pv (st2 ++ ld2)).
    { destruct (rule20 _).
      - split; [apply do_refresh_nrun in Er; rewrite Er; reflexivity | eapply do_refresh_mem; eauto].
      - inversion Er; subst; split; [reflexivity | tauto]. }
    destruct Hn2 as [Hn2 Hs3].
    destruct (m_next (bsz cfg) m2 _) as [x1 m3] eqn:En1.
    pose proof (m_next_length (bsz cfg) m2 (remaining cfg (launched s))) as Hl1.
    pose proof (m_next_nrun (bsz cfg) m2 (remaining cfg (launched s))) as Hr1. rewrite En1 in Hl1, Hr1; cbn in Hl1, Hr1.
    destruct x1 as [|p1 x1].
    + destruct (do_refresh hc m3 st3 ld3 c2) as [[[m4 st4] ld4]|] eqn:Er2; try discriminate.
      pose proof (do_refresh_mem _ _ _ _ _ _ _ _ Er2) as Hs4.
      apply do_refresh_nrun in Er2.
      destruct (m_next (bsz cfg) m4 _) as [x2 m5] eqn:En2.
      pose proof (m_next_length (bsz cfg) m4 (remaining cfg (launched s))) as Hl2.
      pose proof (m_next_nrun (bsz cfg) m4 (remaining cfg (launched s))) as Hr2. rewrite En2 in Hl2, Hr2; cbn in Hl2, Hr2.
      cbn in Hr1.
      assert (Hs : forall pv, In pv (st4 ++ ld4) <-> In pv (store s ++ loaded s) \/ In pv (combine (wx w) (wy w))).
      { intros pv. rewrite Hs4, Hs3. apply Hs2. }
      destruct x2 as [|p2 x2]; intros H; inversion H; subst; clear H.
      * exists k, w, FShutdown, [], m5, (launched s), st4, ld4, (handed s). repeat split; auto; try apply Hs.
        right. repeat split; auto. cbn in Hr2. lia.
      * exists k, w, FComputing, (p2 :: x2), m5, (launched s + length (p2 :: x2)), st4, ld4, (handed s ++ p2 :: x2).
        repeat split; auto; try apply Hs. left. repeat split; auto; try discriminate. lia.
    + intros H; inversion H; subst; clear H.
      assert (Hs : forall pv, In pv (st3 ++ ld3) <-> In pv (store s ++ loaded s) \/ In pv (combine (wx w) (wy w))).
      { intros pv. rewrite Hs3. apply Hs2. }
      exists k, w, FComputing, (p1 :: x1), m3, (launched s + length (p1 :: x1)), st3, ld3, (handed s ++ p1 :: x1).
      repeat split; auto; try apply Hs. left. repeat split; auto; try discriminate. lia.
  - intros H; inversion H; subst; clear H.
    exists k, w, FShutdown, (wx w), (m_complete (mgr s) (wx w)), (launched s), st2, ld2, (handed s).
    repeat split; auto; try apply Hs2.
Qed.


(* ------------------------------------------------------------------------------------------------ *)
(** * preservation of Invariant 1 *)

Lemma Inv1_frame cfg s k w w' m' mg' :
  Inv1 cfg s -> nth_error (ws s) k = Some w -> mpc_ok cfg m' ->
  (forall id w0, id <> k -> nth_error (ws s) id = Some w0 -> wok cfg m' id w0) ->
  wok cfg m' k w' ->
  nrun mg' + actx w = nrun (mgr s) + actx w' ->
  (m' = MLock \/ m' = MSleep -> 0 < nrun mg') ->
  forall c la st ld h cl, Inv1 cfg (mkS (upd (ws s) k w') c mg' la st ld m' h cl).
Proof.
  intros [Hl Hm Hw Hn Hr] Ek Hm' Hother Hk Hnr Hrun c la st ld h cl. constructor; cbn.
  - rewrite upd_length; auto.
  - auto.
  - intros id w0 H. destruct (nth_error_upd _ _ _ _ _ H) as [(<- & -> & Hlt)|(Hne & H')]; auto.
  - pose proof (sumf_upd actx _ _ _ w' Ek). lia.
  - auto.
Qed.

(* the main pc moves, the workers stay *)
Lemma Inv1_mpc cfg s m' :
  Inv1 cfg s -> mpc_ok cfg m' ->
  (forall id w0, nth_error (ws s) id = Some w0 -> wok cfg m' id w0) ->
  (m' = MLock \/ m' = MSleep -> 0 < nrun (mgr s)) ->
  forall c la st ld h cl, Inv1 cfg (mkS (ws s) c (mgr s) la st ld m' h cl).
Proof. intros [Hl Hm Hw Hn Hr] Hm' Hall Hrun c la st ld h cl. constructor; cbn; auto. Qed.

Ltac wunf HS w Ew Epc :=
  match type of HS with
  | (match nth_error ?l ?i with _ => _ end) = _ =>
    destruct (nth_error l i) as [w|] eqn:Ew; [|discriminate]; destruct (wpc w) eqn:Epc; try discriminate
  end.

Lemma wok_same_worker_step cfg s id w w' :
  (* a worker step that keeps the main pc: the other workers are unaffected *)
  Inv1 cfg s -> nth_error (ws s) id = Some w ->
  wok cfg (mpc s) id w' -> actx w' = actx w ->
  forall c la st ld h cl, Inv1 cfg (mkS (upd (ws s) id w') c (mgr s) la st ld (mpc s) h cl).
Proof.
  intros I Ew Hk Ha c la st ld h cl. eapply Inv1_frame; eauto; try lia; try (apply I; fail).
  intros j w0 _ H0. apply I; auto.
Qed.

Ltac wcase W1 W4 W6 Epc :=
  unfold wok; cbn; try rewrite Epc in *; repeat split; auto; try discriminate; try lia;
  try (let Hid := fresh in intros Hid; rewrite (W1 Hid) in Epc; cbn in Epc; discriminate Epc);
  try (let E := fresh in intros E; specialize (W4 E); unfold wstopped in W4; rewrite Epc in W4; discriminate W4);
  try (let Hf := fresh in intros [?|Hf]; [discriminate| apply W6; auto]).

Lemma Inv1_step hc cfg s l s' : Inv1 cfg s -> step hc cfg s l = Some s' -> Inv1 cfg s'.
Proof.
  intros I HS. pose proof I as [Hl Hm Hw Hn Hr].
  destruct l; cbn in HS.
  - (* LStart *)
    unfold step_start in HS. destruct (mpc s) eqn:Em; try discriminate.
    destruct (do_refresh _ _ _ _ _) as [[[m st] ld]|] eqn:Er; try discriminate. inv_some.
    apply do_refresh_nrun in Er.
    constructor; cbn; auto; try lia.
    + intros id w H. specialize (Hw _ _ H). try rewrite Em in Hw.
      eapply wok_mono; eauto; cbn; try congruence.
    + intros [?|?]; discriminate.
  - (* LInitJob *)
    unfold step_initjob in HS. destruct (mpc s) eqn:Em; try discriminate.
    destruct (nth_error (ws s) k) as [w|] eqn:Ek; try discriminate.
    pose proof (nth_error_lt _ _ _ Ek) as Hk.
    assert (Hprist : w = pristine). { specialize (Hw _ _ Ek). try rewrite Em in Hw. apply Hw; cbn; lia. }
    assert (Hoth : forall id w0, id <> k -> nth_error (ws s) id = Some w0 -> wok cfg (MInit (S k)) id w0).
    { intros id w0 Hne H0. pose proof (Hw _ _ H0) as W. try rewrite Em in W. destruct (Nat.lt_ge_cases id k) as [Hlt|Hge].
      - destruct W as (W1 & W2 & W3 & W4 & W5 & W6 & W7). unfold wok; cbn in *. repeat split; auto; try lia; try congruence.
        intros Hid. specialize (W2 Hlt). destruct (wpc w0); auto.
      - assert (w0 = pristine) by (apply W; cbn; lia). subst w0. apply wok_pristine; cbn; auto; try lia; discriminate. }
    destruct (if (if guarded cfg then launched s <? maxpts cfg else true)
              then m_next (bsz cfg) (mgr s) (remaining cfg (launched s)) else ([], mgr s)) as [x m] eqn:Ex.
    assert (Hnx : nrun m = nrun (mgr s) + length x).
    { destruct (if guarded cfg then launched s <? maxpts cfg else true).
      - pose proof (m_next_nrun (bsz cfg) (mgr s) (remaining cfg (launched s))) as Hq. rewrite Ex in Hq; auto.
      - inversion Ex; subst; cbn; lia. }
    destruct x as [|p x]; inv_some.
    + eapply Inv1_frame with (w := pristine); [exact I | exact Ek | cbn in *; lia | exact Hoth | | | ].
      * unfold wok, pristine; cbn. repeat split; auto; try lia; try congruence; try discriminate;
          try (intros [?|?]; discriminate).
      * unfold actx, pristine; cbn in *. lia.
      * intros [?|?]; discriminate.
    + eapply Inv1_frame with (w := pristine); [exact I | exact Ek | cbn in *; lia | exact Hoth | | | ].
      * unfold wok, pristine; cbn. repeat split; auto; try lia; try congruence; try discriminate;
          try (intros [?|?]; discriminate).
      * unfold actx, pristine; cbn in *. lia.
      * intros [?|?]; discriminate.
  - (* LInitEnd *)
    unfold step_initend, with_mpc in HS. destruct (mpc s) eqn:Em; try discriminate.
    destruct (Nat.eqb_spec k (nj cfg)); try discriminate. inv_some.
    apply Inv1_mpc; cbn; auto.
    + intros id w H. specialize (Hw _ _ H). try rewrite Em in Hw. eapply wok_mono; eauto; cbn; try congruence.
    + intros [?|?]; discriminate.
  - (* LMTest *)
    unfold step_mtest, with_mpc in HS. destruct (mpc s) eqn:Em; try discriminate. inv_some.
    destruct (Nat.ltb_spec 0 (nrun (mgr s))) as [Hpos|Hz].
    + apply Inv1_mpc; cbn; auto.
      intros id w H. specialize (Hw _ _ H). try rewrite Em in Hw. eapply wok_mono; eauto; cbn; try congruence.
    + apply Inv1_mpc; cbn; auto.
      * intros id w H. pose proof (Hw _ _ H) as W. try rewrite Em in W.
        assert (Hsh : wflag w = FShutdown).
        { assert (Hz' : sumf actx (ws s) = 0) by lia. apply sumf_zero with (w := w) in Hz'; [|eapply nth_error_In; eauto].
          destruct W as (W1 & W2 & W3 & W4 & W5 & W6 & W7). cbn in W1, W7.
          pose proof (nth_error_lt _ _ _ H) as Hlt. rewrite Hl in Hlt.
          unfold actx in Hz'. destruct (wactive w) eqn:Ea.
          - exfalso. apply (W7 Hlt eq_refl). destruct (wx w); [reflexivity|discriminate].
          - unfold wactive in Ea. destruct (wflag w); congruence. }
        destruct W as (W1 & W2 & W3 & W4 & W5 & W6 & W7). unfold wok; cbn in *. repeat split; auto; try congruence;
          try (intros Hid; specialize (W2 Hid); destruct (wpc w); auto).
      * intros [?|?]; discriminate.
  - (* LMLock *)
    unfold step_mlock, with_mpc in HS. destruct (mpc s) eqn:Em; try discriminate.
    destruct (0 <? count_done s); inv_some.
    + apply Inv1_mpc; cbn; auto; try lia; try (intros [?|?]; discriminate).
      intros id w H. specialize (Hw _ _ H). eapply wok_mono; eauto; cbn; try congruence.
      intros k' E; inversion E; lia.
    + apply Inv1_mpc; cbn; auto.
      intros id w H. specialize (Hw _ _ H). eapply wok_mono; eauto; cbn; try congruence.
  - (* LMSkip *)
    unfold step_mskip, with_mpc in HS. destruct (mpc s) eqn:Em; try discriminate.
    destruct (nth_error (ws s) k) as [w|] eqn:Ek; try discriminate.
    pose proof (nth_error_lt _ _ _ Ek) as Hk.
    assert (Hgoal : wflag w <> FDone -> Inv1 cfg (mkS (ws s) (count_done s) (mgr s) (launched s) (store s) (loaded s) (MCollect (S k)) (handed s) (calls s))).
    { intros Hnd. apply Inv1_mpc; cbn in *; auto; try lia; try (intros [?|?]; discriminate).
      intros id w0 H. pose proof (Hw _ _ H) as W. eapply wok_mono; eauto; cbn; try congruence.
      intros k' E Hlt; inversion E; subst. destruct (Nat.eq_dec id k) as [->|Hne].
      - rewrite Ek in H; inversion H; subst; auto.
      - destruct W as (_ & _ & _ & _ & W5 & _). apply (W5 k); auto; lia. }
    destruct (wflag w) eqn:Ef; try discriminate; inv_some; apply Hgoal; discriminate.
  - (* LMCollect *)
    apply step_mcollect_spec in HS.
    destruct HS as (k & w & f' & x' & m' & la' & st' & ld' & h' & Em & Ek & Ef & -> & Hcase & Hst).
    pose proof (nth_error_lt _ _ _ Ek) as Hk. rewrite Hl in Hk.
    pose proof (Hw _ _ Ek) as W. try rewrite Em in W.
    destruct W as (W1 & W2 & W3 & W4 & W5 & W6 & W7). cbn in W1, W2, W7.
    specialize (W2 Hk). specialize (W7 Hk).
    assert (Hact : actx w = length (wx w)) by (unfold actx, wactive; rewrite Ef; reflexivity).
    assert (Hge : length (wx w) <= nrun (mgr s)).
    { rewrite Hn, <- Hact. eapply sumf_ge; eauto. }
    eapply Inv1_frame with (w := w); [exact I | exact Ek | cbn in *; lia | | | | ].
    + intros id w0 Hne H0. pose proof (Hw _ _ H0) as W0. rewrite Em in W0.
      eapply wok_mono; eauto; cbn; try congruence.
      intros k' E Hlt; inversion E; subst. destruct W0 as (_ & _ & _ & _ & W05 & _). apply (W05 k); auto; lia.
    + assert (Hf' : f' <> FDone) by (destruct Hcase as [(-> & _)|(-> & _)]; discriminate).
      unfold wok; cbn. repeat split; try lia; try discriminate; auto.
      * intros _. destruct (wpc w) eqn:Epc; auto; try congruence.
      * intros [Hp|Hf]; [rewrite Hp in W2; congruence|congruence].
      * intros _ Ha. destruct Hcase as [(-> & Hx & _)|(-> & _)]; auto. discriminate.
    + destruct Hcase as [(-> & Hx & _ & _ & _ & Hnr & _)|(-> & _ & Hnr & _)]; unfold actx at 2; cbn; lia.
    + intros [?|?]; discriminate.
  - (* LMCsExit *)
    unfold step_mcsexit, with_mpc in HS. destruct (mpc s) eqn:Em; try discriminate.
    destruct (Nat.eqb_spec k (nj cfg)); try discriminate. inv_some.
    apply Inv1_mpc; cbn; auto.
    + intros id w H. specialize (Hw _ _ H). try rewrite Em in Hw. eapply wok_mono; eauto; cbn; try congruence.
    + intros [?|?]; discriminate.
  - (* LMNotifyAll *)
    unfold step_mnotify in HS. destruct (mpc s) eqn:Em; try discriminate. inv_some.
    constructor; cbn; auto.
    + rewrite map_length; auto.
    + intros id w' H. rewrite nth_error_map in H. destruct (nth_error (ws s) id) as [w|] eqn:Ew; try discriminate.
      cbn in H; inversion H; subst; clear H. specialize (Hw _ _ Ew). try rewrite Em in Hw.
      destruct Hw as (W1 & W2 & W3 & W4 & W5 & W6 & W7). cbn in *.
      unfold wake. destruct (wpc w) eqn:Epc; unfold wok; cbn; rewrite ?Epc; repeat split; auto; try congruence.
      * intros Hid. specialize (W1 Hid). subst w. discriminate.
      * intros [?|Hf]; [discriminate|]. apply W6; auto.
    + rewrite sumf_map. rewrite Hn. apply sumf_ext. intros w _. unfold wake, actx, wactive. destruct (wpc w); reflexivity.
    + intros [?|?]; discriminate.
  - (* LMFlush *)
    unfold step_mflush, with_mpc in HS. destruct (mpc s) eqn:Em; try discriminate. cbn in HS. inv_some.
    apply Inv1_mpc; cbn; auto.
    + intros id w H. specialize (Hw _ _ H). try rewrite Em in Hw. eapply wok_mono; eauto; cbn; try congruence.
    + intros [?|?]; discriminate.
  - (* LMJoin *)
    unfold step_mjoin, with_mpc in HS. destruct (mpc s) eqn:Em; try discriminate.
    destruct (forallb wstopped (ws s)) eqn:Eall; try discriminate. inv_some.
    apply Inv1_mpc; cbn; auto; try (intros [?|?]; discriminate).
    intros id w H. pose proof (Hw _ _ H) as W.
    destruct W as (W1 & W2 & W3 & W4 & W5 & W6 & W7). unfold wok; cbn in *.
    split; [auto|]. split; [intros Hid; specialize (W2 Hid); destruct (wpc w); auto|].
    split; [auto|]. split; [|repeat split; auto; congruence].
    intros _. rewrite forallb_forall in Eall. apply Eall. eapply nth_error_In; eauto.
  - (* LWEnter *)
    unfold step_wenter, with_w, set_w in HS. wunf HS w Ew Epc. inv_some.
    apply wok_same_worker_step with (w := w); auto.
    pose proof (Hw _ _ Ew) as (W1 & W2 & W3 & W4 & W5 & W6 & W7).
    wcase W1 W4 W6 Epc.
  - (* LWExit *)
    unfold step_wexit, set_w in HS. wunf HS w Ew Epc.
    destruct (Nat.eqb_spec (length vals) (length (wx w))); try discriminate. inv_some.
    apply wok_same_worker_step with (w := w); auto.
    pose proof (Hw _ _ Ew) as (W1 & W2 & W3 & W4 & W5 & W6 & W7).
    wcase W1 W4 W6 Epc.
  - (* LWDone *)
    unfold step_wdone, set_w in HS. wunf HS w Ew Epc.
    destruct (lock_free s) eqn:Elf; try discriminate. inv_some.
    pose proof (Hw _ _ Ew) as W. pose proof (wok_started _ _ _ _ W ltac:(congruence)) as Hid.
    destruct W as (W1 & W2 & W3 & W4 & W5 & W6 & W7). specialize (W2 Hid). rewrite Epc in W2.
    apply wok_same_worker_step with (w := w); auto.
    + unfold wok; cbn.
      split; [intros; lia|]. split; [auto|].
      split; [intros Hlate; specialize (W3 Hlate); congruence|].
      split; [intros E; specialize (W4 E); unfold wstopped in W4; rewrite Epc in W4; discriminate W4|].
      split; [intros k E; unfold lock_free in Elf; rewrite E in Elf; discriminate Elf|].
      split; [intros _; apply W6; left; auto|].
      intros _ _. apply W7; auto. unfold wactive; rewrite W2; reflexivity.
    + unfold actx, wactive; cbn. rewrite W2. reflexivity.
  - (* LWNotify *)
    unfold step_wnotify, set_w in HS. wunf HS w Ew Epc. inv_some.
    pose proof (Hw _ _ Ew) as W. pose proof (wok_started _ _ _ _ W ltac:(congruence)) as Hid.
    assert (Hmono : forall j w0, wok cfg (mpc s) j w0 -> wok cfg (match mpc s with MSleep => MLock | m => m end) j w0).
    { intros j w0 W0. destruct (mpc s) eqn:Em; auto. eapply wok_mono; eauto; cbn; try congruence. }
    eapply Inv1_frame with (w := w); [exact I | exact Ew | destruct (mpc s); auto | | | | ].
    + intros j w0 _ H0. apply Hmono, Hw; auto.
    + apply Hmono. destruct W as (W1 & W2 & W3 & W4 & W5 & W6 & W7). wcase W1 W4 W6 Epc.
    + unfold actx, wactive; cbn. lia.
    + intros Hm'. apply Hr. destruct (mpc s); auto; destruct Hm'; discriminate.
  - (* LWLock *)
    unfold step_wlock, with_w, set_w in HS. wunf HS w Ew Epc.
    destruct (lock_free s) eqn:Elf; try discriminate. inv_some.
    pose proof (Hw _ _ Ew) as W. pose proof (wok_started _ _ _ _ W ltac:(congruence)) as Hid.
    destruct W as (W1 & W2 & W3 & W4 & W5 & W6 & W7).
    apply wok_same_worker_step with (w := w); auto.
    + unfold wok; cbn.
      split; [intros; lia|]. split; [intros _; destruct (wflag w) eqn:Ef; auto; congruence|].
      split; [auto|].
      split; [intros E; specialize (W4 E); unfold wstopped in W4; rewrite Epc in W4; discriminate W4|].
      split; [auto|]. split; [|auto].
      intros [Hp|Hf]; [destruct (wflag w); discriminate Hp|apply W6; auto].
  - (* LSpurM *)
    unfold step_spurm, with_mpc in HS. destruct (mpc s) eqn:Em; try discriminate. inv_some.
    apply Inv1_mpc; cbn; auto.
    intros id w H. specialize (Hw _ _ H). eapply wok_mono; eauto; cbn; try congruence.
  - (* LSpurW *)
    unfold step_spurw, with_w, set_w in HS. wunf HS w Ew Epc. inv_some.
    pose proof (Hw _ _ Ew) as W.
    destruct W as (W1 & W2 & W3 & W4 & W5 & W6 & W7).
    apply wok_same_worker_step with (w := w); auto.
    wcase W1 W4 W6 Epc.
Qed.

(* ------------------------------------------------------------------------------------------------ *)
(** * Invariant 2: count_done = number of published, not yet collected flag_done; no lost wake-up of the main thread *)

Definition in_cs (m : mpcT) : bool := match m with MCollect _ => true | _ => false end.

Record Inv2 (s : state) : Prop := {
  i2_out : in_cs (mpc s) = false -> count_done s = count_flag_done (ws s);
  i2_in : in_cs (mpc s) = true -> count_done s = 0;
  i2_sleep : mpc s = MSleep -> 0 < count_done s -> exists id w, nth_error (ws s) id = Some w /\ wpc w = WNotify
}.

Lemma init_Inv2 cfg L0 n0 : Inv2 (init cfg L0 n0).
Proof.
  constructor; cbn; try discriminate.
  intros _. rewrite count_flag_done_sumf, sumf_repeat. cbn. lia.
Qed.

Definition wd (w : worker) : nat := if wdone w then 1 else 0.

Lemma cfd_upd l i w v : nth_error l i = Some w -> count_flag_done (upd l i v) + wd w = count_flag_done l + wd v.
Proof. rewrite !count_flag_done_sumf. apply sumf_upd. Qed.

Lemma cfd_zero l : (forall w, In w l -> wdone w = false) -> count_flag_done l = 0.
Proof.
  intros H. rewrite count_flag_done_sumf. apply sumf_zero. intros w Hw. rewrite (H w Hw). reflexivity.
Qed.

Ltac dmatch HS :=
  repeat match type of HS with
         | (match ?t with _ => _ end) = Some _ => destruct t eqn:?; try discriminate
         | (if ?t then _ else _) = Some _ => destruct t eqn:?; try discriminate
         | (let (_, _) := ?t in _) = Some _ => destruct t eqn:?
         end.

(* a worker step that does not touch flag, Idle-ness of the pc, count_done or the main pc *)
Lemma Inv2_wframe s id w w' :
  Inv2 s -> nth_error (ws s) id = Some w -> wdone w' = wdone w -> wpc w <> WNotify ->
  forall mg la st ld h cl, Inv2 (mkS (upd (ws s) id w') (count_done s) mg la st ld (mpc s) h cl).
Proof.
  intros [Ho Hi Hs] Ew Hd Hn mg la st ld h cl. constructor; cbn; auto.
  - intros E. rewrite (Ho E). pose proof (cfd_upd _ _ _ w' Ew). unfold wd in *. rewrite Hd in *. lia.
  - intros E Hc. destruct (Hs E Hc) as (j & wj & Ej & Epj).
    assert (j <> id) by (intros ->; rewrite Ew in Ej; inversion Ej; subst; congruence).
    exists j, wj. split; auto. rewrite nth_error_upd_neq; auto.
Qed.

Lemma Inv2_step hc cfg s l s' : Inv1 cfg s -> Inv2 s -> step hc cfg s l = Some s' -> Inv2 s'.
Proof.
  intros I1 I HS. pose proof I as [Ho Hi Hs]. pose proof I1 as [Hl Hm Hw Hn Hr].
  destruct l; cbn in HS.
  - unfold step_start in HS. dmatch HS. inv_some. constructor; cbn in *; try discriminate; auto.
  - (* LInitJob *)
    unfold step_initjob, set_w in HS. destruct (mpc s) eqn:Em; try discriminate.
    destruct (nth_error (ws s) k) as [w|] eqn:Ek; try discriminate.
    assert (Hprist : w = pristine). { specialize (Hw _ _ Ek). apply Hw; cbn; lia. }
    destruct (if (if guarded cfg then launched s <? maxpts cfg else true) then _ else _) as [x m].
    destruct x; inv_some; constructor; cbn in *; try discriminate; intros _;
      rewrite (Ho eq_refl); match goal with |- _ = count_flag_done (upd _ _ ?v) => pose proof (cfd_upd _ _ _ v Ek) as Hq end;
      unfold wd, wdone, pristine in Hq; cbn in Hq; lia.
  - unfold step_initend, with_mpc in HS. dmatch HS. inv_some. constructor; cbn in *; try discriminate; auto.
  - unfold step_mtest, with_mpc in HS. dmatch HS. destruct (0 <? nrun (mgr s)); inv_some; constructor; cbn in *; try discriminate; auto.
  - unfold step_mlock, with_mpc in HS. dmatch HS; inv_some; constructor; cbn in *; try discriminate; auto.
    intros _ Hc. destruct (count_done s); [lia|discriminate].
  - unfold step_mskip, with_mpc in HS. dmatch HS; inv_some; constructor; cbn in *; try discriminate; auto.
  - apply step_mcollect_spec in HS.
    destruct HS as (k & w & f' & x' & m' & la' & st' & ld' & h' & Em & Ek & Ef & -> & Hcase & Hst).
    constructor; cbn; try discriminate. intros _. apply Hi. rewrite Em. reflexivity.
  - (* LMCsExit: every flag_done has been collected *)
    unfold step_mcsexit, with_mpc in HS. destruct (mpc s) eqn:Em; try discriminate.
    destruct (Nat.eqb_spec k (nj cfg)); try discriminate. inv_some.
    constructor; cbn; try discriminate. intros _. rewrite (Hi eq_refl). symmetry. apply cfd_zero.
    intros w Hin. apply In_nth_error in Hin. destruct Hin as [id Hid].
    pose proof (Hw _ _ Hid) as (W1 & W2 & W3 & W4 & W5 & W6 & W7).
    pose proof (nth_error_lt _ _ _ Hid) as Hlt. rewrite Hl in Hlt.
    unfold wdone. destruct (wflag w) eqn:Ef; auto. exfalso. apply (W5 (nj cfg)); auto.
  - (* LMNotifyAll *)
    unfold step_mnotify in HS. destruct (mpc s) eqn:Em; try discriminate. inv_some.
    constructor; cbn; try discriminate. intros _. rewrite (Ho eq_refl).
    rewrite !count_flag_done_sumf, sumf_map. apply sumf_ext. intros w _. unfold wake, wdone. destruct (wpc w) eqn:E; cbn; rewrite ?E; destruct (wflag w); reflexivity.
  - unfold step_mflush, with_mpc in HS. dmatch HS. cbn in HS. inv_some. constructor; cbn in *; try discriminate; auto.
  - unfold step_mjoin, with_mpc in HS. dmatch HS. inv_some. constructor; cbn in *; try discriminate; auto.
  - (* LWEnter *)
    unfold step_wenter, with_w, set_w in HS. wunf HS w Ew Epc. inv_some.
    apply Inv2_wframe with (w := w); auto; try congruence. unfold wdone; cbn. rewrite Epc. reflexivity.
  - (* LWExit *)
    unfold step_wexit, set_w in HS. wunf HS w Ew Epc. dmatch HS. inv_some.
    apply Inv2_wframe with (w := w); auto; try congruence. unfold wdone; cbn. rewrite Epc. reflexivity.
  - (* LWDone *)
    unfold step_wdone, set_w in HS. wunf HS w Ew Epc. destruct (lock_free s) eqn:Elf; try discriminate. inv_some.
    pose proof (Hw _ _ Ew) as W. pose proof (wok_started _ _ _ _ W ltac:(congruence)) as Hid.
    destruct W as (W1 & W2 & W3 & W4 & W5 & W6 & W7). specialize (W2 Hid). rewrite Epc in W2.
    assert (Hcs : in_cs (mpc s) = false) by (unfold lock_free in Elf; unfold in_cs; destruct (mpc s); congruence).
    constructor; cbn.
    + intros _. rewrite (Ho Hcs).
      match goal with |- _ = count_flag_done (upd _ _ ?v) => pose proof (cfd_upd _ _ _ v Ew) as Hq end.
      unfold wd, wdone in Hq; cbn in Hq. rewrite W2 in Hq. lia.
    + congruence.
    + intros _ _. exists id. eexists. split; [apply nth_error_upd_eq; eapply nth_error_lt; eauto|reflexivity].
  - (* LWNotify *)
    unfold step_wnotify, set_w in HS. wunf HS w Ew Epc. inv_some.
    constructor; cbn.
    + intros E. assert (Hcs : in_cs (mpc s) = false) by (destruct (mpc s); auto).
      rewrite (Ho Hcs).
      match goal with |- _ = count_flag_done (upd _ _ ?v) => pose proof (cfd_upd _ _ _ v Ew) as Hq end.
      unfold wd, wdone in Hq; cbn in Hq. rewrite Epc in Hq. destruct (wflag w); lia.
    + intros E. apply Hi. destruct (mpc s); auto.
    + intros E. destruct (mpc s); discriminate.
  - (* LWLock *)
    unfold step_wlock, with_w, set_w in HS. wunf HS w Ew Epc. destruct (lock_free s) eqn:Elf; try discriminate. inv_some.
    apply Inv2_wframe with (w := w); auto; try congruence. unfold wdone; cbn. rewrite Epc. destruct (wflag w); reflexivity.
  - unfold step_spurm, with_mpc in HS. dmatch HS. inv_some. constructor; cbn in *; try discriminate; auto.
  - (* LSpurW *)
    unfold step_spurw, with_w, set_w in HS. wunf HS w Ew Epc. inv_some.
    apply Inv2_wframe with (w := w); auto; try congruence. unfold wdone; cbn. rewrite Epc. reflexivity.
Qed.

(* ------------------------------------------------------------------------------------------------ *)
(** * reachable states satisfy Invariants 1 and 2 *)

Lemma reach_Inv12 hc cfg L0 n0 s : reachable hc cfg L0 n0 s -> Inv1 cfg s /\ Inv2 s.
Proof.
  induction 1 as [|s l s' R [I1 I2] HS].
  - split; [apply init_Inv1 | apply init_Inv2].
  - split; [eapply Inv1_step; eauto | eapply Inv2_step; eauto].
Qed.

(* ------------------------------------------------------------------------------------------------ *)
(** * budget *)

Definition bound (cfg : config) (n0 : nat) (s : state) : nat :=
  Nat.max (maxpts cfg) n0 + (if guarded cfg then 0 else ninit cfg (mpc s) * bsz cfg).

Lemma bsz_pos cfg : 1 <= bsz cfg.
Proof. unfold bsz; lia. Qed.

Lemma budget_step hc cfg n0 s l s' :
  Inv1 cfg s -> launched s <= bound cfg n0 s -> step hc cfg s l = Some s' -> launched s' <= bound cfg n0 s'.
Proof.
  intros I1 HB HS. pose proof I1 as [Hl Hm Hw Hn Hr]. pose proof (bsz_pos cfg) as Hb. unfold bound in *.
  destruct l; cbn in HS.
  - unfold step_start in HS. dmatch HS. inv_some. cbn -[Nat.max Nat.min Nat.mul] in *. cbn -[Nat.max Nat.min Nat.mul] in HB. lia.
  - (* LInitJob *)
    unfold step_initjob, set_w in HS. destruct (mpc s) eqn:Em; try discriminate.
    destruct (nth_error (ws s) k) as [w|] eqn:Ek; try discriminate. cbn -[Nat.max Nat.min Nat.mul] in HB.
    destruct (guarded cfg) eqn:Eg.
    + destruct (launched s <? maxpts cfg) eqn:Ela.
      * apply Nat.ltb_lt in Ela.
        pose proof (m_next_length (bsz cfg) (mgr s) (remaining cfg (launched s))) as Hlen.
        destruct (m_next _ _ _) as [x m]. cbn -[Nat.max Nat.min] in Hlen.
        assert (Hrem : remaining cfg (launched s) = maxpts cfg - launched s).
        { unfold remaining. destruct (Nat.leb_spec (launched s) (maxpts cfg)); lia. }
        rewrite Hrem in Hlen. destruct x; inv_some; cbn -[Nat.max Nat.min Nat.mul] in *; lia.
      * inv_some. cbn. lia.
    + pose proof (m_next_length (bsz cfg) (mgr s) (remaining cfg (launched s))) as Hlen.
      destruct (m_next _ _ _) as [x m]. cbn -[Nat.max Nat.min] in Hlen. destruct x; inv_some; cbn -[Nat.max Nat.min Nat.mul] in *; lia.
  - unfold step_initend, with_mpc in HS. dmatch HS. inv_some. cbn -[Nat.max Nat.min Nat.mul] in *. cbn -[Nat.max Nat.min Nat.mul] in HB.
    apply Nat.eqb_eq in Heqb. subst. lia.
  - unfold step_mtest, with_mpc in HS. dmatch HS. destruct (0 <? nrun (mgr s)); inv_some; cbn -[Nat.max Nat.min Nat.mul] in *; lia.
  - unfold step_mlock, with_mpc in HS. dmatch HS; inv_some; cbn -[Nat.max Nat.min Nat.mul] in *; lia.
  - unfold step_mskip, with_mpc in HS. dmatch HS; inv_some; cbn -[Nat.max Nat.min Nat.mul] in *; lia.
  - apply step_mcollect_spec in HS.
    destruct HS as (k & w & f' & x' & m' & la' & st' & ld' & h' & Em & Ek & Ef & -> & Hcase & Hst).
    rewrite Em in HB. cbn -[Nat.max Nat.min Nat.mul] in *.
    destruct Hcase as [(-> & Hx & Hlt & -> & Hlen & _)|(-> & -> & _)]; [|lia].
    assert (Hrem : remaining cfg (launched s) = maxpts cfg - launched s).
    { unfold remaining. destruct (Nat.leb_spec (launched s) (maxpts cfg)); lia. }
    rewrite Hrem in Hlen. lia.
  - unfold step_mcsexit, with_mpc in HS. dmatch HS; inv_some; cbn -[Nat.max Nat.min Nat.mul] in *; lia.
  - unfold step_mnotify in HS. dmatch HS; inv_some; cbn -[Nat.max Nat.min Nat.mul] in *; lia.
  - unfold step_mflush, with_mpc in HS. dmatch HS. cbn in HS. inv_some; cbn -[Nat.max Nat.min Nat.mul] in *; lia.
  - unfold step_mjoin, with_mpc in HS. dmatch HS; inv_some; cbn -[Nat.max Nat.min Nat.mul] in *; lia.
  - unfold step_wenter, with_w, set_w in HS. dmatch HS. inv_some. cbn. lia.
  - unfold step_wexit, set_w in HS. dmatch HS. inv_some. cbn. lia.
  - unfold step_wdone, set_w in HS. dmatch HS. inv_some. cbn. lia.
  - unfold step_wnotify, set_w in HS. dmatch HS. inv_some. cbn. destruct (mpc s); cbn -[Nat.max Nat.min Nat.mul] in *; lia.
  - unfold step_wlock, with_w, set_w in HS. dmatch HS; inv_some; cbn; lia.
  - unfold step_spurm, with_mpc in HS. dmatch HS; inv_some; cbn -[Nat.max Nat.min Nat.mul] in *; lia.
  - unfold step_spurw, with_w, set_w in HS. dmatch HS. inv_some. cbn. lia.
Qed.

Lemma reach_budget hc cfg L0 n0 s : reachable hc cfg L0 n0 s -> launched s <= bound cfg n0 s.
Proof.
  induction 1 as [|s l s' R IH HS].
  - unfold bound; cbn. lia.
  - eapply budget_step; eauto. apply (reach_Inv12 _ _ _ _ _ R).
Qed.

Lemma ninit_le cfg m : mpc_ok cfg m -> ninit cfg m <= nj cfg.
Proof. destruct m; cbn; lia. Qed.

(* ------------------------------------------------------------------------------------------------ *)
(** * deadlock freedom: in every state satisfying the invariants some thread can take a non-spurious step *)

Lemma sumf_pos f l : 0 < sumf f l -> exists i w, nth_error l i = Some w /\ 0 < f w.
Proof.
  induction l as [|a r IH]; cbn; [lia|]. intros H.
  destruct (Nat.eq_dec (f a) 0) as [E|E].
  - destruct IH as (i & w & Hi & Hw); [lia|]. exists (S i), w; auto.
  - exists 0, a; cbn; split; auto; lia.
Qed.

Lemma forallb_false_ex {A} (f : A -> bool) l : forallb f l = false -> exists i w, nth_error l i = Some w /\ f w = false.
Proof.
  induction l as [|a r IH]; cbn; [discriminate|]. destruct (f a) eqn:E; cbn.
  - intros H. destruct (IH H) as (i & w & Hi & Hw). exists (S i), w; auto.
  - intros _. exists 0, a; auto.
Qed.

Lemma cand_okb_nil ld : cand_okb ld [] = true.
Proof. reflexivity. Qed.

Lemma do_refresh_nil hc m st ld : exists r, do_refresh hc m st ld [] = Some r.
Proof. unfold do_refresh, do_load. rewrite cand_okb_nil, orb_true_r. eauto. Qed.

Lemma step_mcollect_enabled hc cfg s k w :
  mpc s = MCollect k -> nth_error (ws s) k = Some w -> wflag w = FDone -> step_mcollect hc cfg s false [] [] <> None.
Proof.
  intros Em Ek Ef. unfold step_mcollect. rewrite Em, Ek, Ef.
  destruct (launched s <? maxpts cfg); [|discriminate].
  destruct (rule20 _).
  - destruct (do_refresh_nil hc (m_complete (mgr s) (wx w)) (store s ++ combine (wx w) (wy w)) (loaded s)) as [[[m2 st3] ld3] ->].
    destruct (m_next _ _ _) as [x1 m3]. destruct x1; [|discriminate].
    destruct (do_refresh_nil hc m3 st3 ld3) as [[[m4 st4] ld4] ->].
    destruct (m_next _ _ _) as [x2 m5]. destruct x2; discriminate.
  - destruct (m_next _ _ _) as [x1 m3]. destruct x1; [|discriminate].
    destruct (do_refresh_nil hc m3 (store s ++ combine (wx w) (wy w)) (loaded s)) as [[[m4 st4] ld4] ->].
    destruct (m_next _ _ _) as [x2 m5]. destruct x2; discriminate.
Qed.

(* a worker that is neither parked in cv.wait nor stopped can move (its critical sections need the mutex) *)
Lemma worker_can_move hc cfg s id w :
  nth_error (ws s) id = Some w -> lock_free s = true ->
  wpc w = WModel \/ wpc w = WInModel \/ wpc w = WPost \/ wpc w = WNotify \/ wpc w = WLock ->
  exists l, spurious l = false /\ step hc cfg s l <> None.
Proof.
  intros Ew Hlf Hpc. destruct Hpc as [E|[E|[E|[E|E]]]].
  - exists (LWEnter id). split; auto. cbn. unfold step_wenter. rewrite Ew, E. discriminate.
  - exists (LWExit id (repeat 0 (length (wx w)))). split; auto. cbn. unfold step_wexit. rewrite Ew, E.
    rewrite repeat_length, Nat.eqb_refl. discriminate.
  - exists (LWDone id). split; auto. cbn. unfold step_wdone. rewrite Ew, E, Hlf. discriminate.
  - exists (LWNotify id). split; auto. cbn. unfold step_wnotify. rewrite Ew, E. discriminate.
  - exists (LWLock id). split; auto. cbn. unfold step_wlock. rewrite Ew, E, Hlf. discriminate.
Qed.

Lemma no_stuck hc cfg s :
  Inv1 cfg s -> Inv2 s -> final s = true \/ exists l, spurious l = false /\ step hc cfg s l <> None.
Proof.
  intros [Hl Hm Hw Hn Hr] [Ho Hi Hs].
  destruct (mpc s) eqn:Em.
  - (* MStart *) right. exists (LStart []). split; auto. cbn. unfold step_start. rewrite Em.
    destruct (do_refresh_nil hc (mgr s) (store s) (loaded s)) as [[[m st] ld] ->]. discriminate.
  - (* MInit k *) right. cbn in Hm. destruct (Nat.eq_dec k (nj cfg)) as [->|Hne].
    + exists LInitEnd. split; auto. cbn. unfold step_initend. rewrite Em, Nat.eqb_refl. discriminate.
    + exists LInitJob. split; auto. cbn. unfold step_initjob. rewrite Em.
      destruct (nth_error (ws s) k) as [w|] eqn:Ek; [|apply nth_error_None in Ek; lia].
      match goal with |- (let (_, _) := ?t in _) <> None => destruct t as [x m] end. destruct x; discriminate.
  - right. exists LMTest. split; auto. cbn. unfold step_mtest. rewrite Em. discriminate.
  - right. exists LMLock. split; auto. cbn. unfold step_mlock. rewrite Em. destruct (0 <? count_done s); discriminate.
  - (* MSleep *) right.
    destruct (Nat.eq_dec (count_done s) 0) as [Ec|Ec].
    + (* no published result: some worker owns a job and is not parked *)
      assert (Hpos : 0 < sumf actx (ws s)) by (rewrite <- Hn; apply Hr; auto).
      destruct (sumf_pos _ _ Hpos) as (id & w & Ew & Ha).
      pose proof (Hw _ _ Ew) as (W1 & W2 & W3 & W4 & W5 & W6 & W7). cbn in W1, W2, W7.
      unfold actx in Ha. destruct (wactive w) eqn:Eact; [|lia].
      assert (Hid : id < nj cfg).
      { destruct (Nat.lt_ge_cases id (nj cfg)); auto. rewrite (W1 H) in Ha. cbn in Ha. lia. }
      specialize (W2 Hid).
      assert (Hnd : wdone w = false).
      { destruct (wdone w) eqn:Ed; auto. exfalso.
        pose proof (sumf_ge (fun w => if wdone w then 1 else 0) _ _ _ Ew) as Hge. cbn in Hge. rewrite Ed in Hge.
        rewrite <- count_flag_done_sumf, <- (Ho eq_refl) in Hge. lia. }
      apply worker_can_move with (id := id) (w := w); auto; [unfold lock_free; rewrite Em; reflexivity|].
      unfold wactive in Eact. unfold wdone in Hnd.
      destruct (wpc w) eqn:Epc; auto; destruct (wflag w) eqn:Ef; try discriminate; try congruence.
      all: exfalso; assert (Hq : false = true) by (apply W2; discriminate); discriminate.
    + destruct (Hs eq_refl ltac:(lia)) as (id & w & Ew & Epc).
      apply worker_can_move with (id := id) (w := w); auto. unfold lock_free; rewrite Em; reflexivity.
  - (* MCollect k *) right. cbn in Hm. destruct (Nat.eq_dec k (nj cfg)) as [->|Hne].
    + exists LMCsExit. split; auto. cbn. unfold step_mcsexit. rewrite Em, Nat.eqb_refl. discriminate.
    + destruct (nth_error (ws s) k) as [w|] eqn:Ek; [|apply nth_error_None in Ek; lia].
      destruct (wflag w) eqn:Ef.
      * exists (LMCollect false [] []). split; auto. cbn. eapply step_mcollect_enabled; eauto.
      * exists LMSkip. split; auto. cbn. unfold step_mskip. rewrite Em, Ek, Ef. discriminate.
      * exists LMSkip. split; auto. cbn. unfold step_mskip. rewrite Em, Ek, Ef. discriminate.
  - right. exists LMNotifyAll. split; auto. cbn. unfold step_mnotify. rewrite Em. discriminate.
  - right. exists LMFlush. split; auto. cbn. unfold step_mflush. rewrite Em. discriminate.
  - (* MJoin *) right. destruct (forallb wstopped (ws s)) eqn:Eall.
    + exists LMJoin. split; auto. cbn. unfold step_mjoin. rewrite Em, Eall. discriminate.
    + destruct (forallb_false_ex _ _ Eall) as (id & w & Ew & Est).
      pose proof (Hw _ _ Ew) as (W1 & W2 & W3 & W4 & W5 & W6 & W7). cbn in W1, W2, W3.
      assert (Hid : id < nj cfg).
      { destruct (Nat.lt_ge_cases id (nj cfg)); auto. rewrite (W1 H) in Est. discriminate. }
      specialize (W2 Hid). specialize (W3 eq_refl).
      apply worker_can_move with (id := id) (w := w); auto; [unfold lock_free; rewrite Em; reflexivity|].
      unfold wstopped in Est. destruct (wpc w) eqn:Epc; auto; try discriminate; try congruence.
      exfalso. assert (Hq : false = true) by (apply W2; congruence). discriminate.
  - (* MExit *) left. unfold final. rewrite Em. apply forallb_forall. intros w Hin.
    apply In_nth_error in Hin. destruct Hin as [id Ew]. apply (Hw _ _ Ew). reflexivity.
Qed.

(* ------------------------------------------------------------------------------------------------ *)
(** * values: every stored / loaded sample is a (point, value) pair returned by a model call for that very point *)

Record InvV (L0 : list (nat * nat)) (s : state) : Prop := {
  v_st : forall p v, In (p, v) (store s ++ loaded s) -> In (p, v) L0 \/ exists id, In (id, p, v) (calls s);
  v_w : forall id w, nth_error (ws s) id = Some w -> wpc w = WPost \/ wflag w = FDone ->
        forall p v, In (p, v) (combine (wx w) (wy w)) -> In (id, p, v) (calls s)
}.

Lemma init_InvV cfg L0 n0 : InvV L0 (init cfg L0 n0).
Proof.
  constructor; cbn; auto.
  intros id w H _ p v Hin. apply nth_error_repeat in H. subst. cbn in Hin. tauto.
Qed.

(* one worker record changes; the pair list it exposes (when exposed) was exposed before *)
Lemma InvV_wframe L0 s id w w' :
  InvV L0 s -> nth_error (ws s) id = Some w ->
  (wpc w' = WPost \/ wflag w' = FDone -> (wpc w = WPost \/ wflag w = FDone) /\ wx w' = wx w /\ wy w' = wy w) ->
  forall c mg la m h, InvV L0 (mkS (upd (ws s) id w') c mg la (store s) (loaded s) m h (calls s)).
Proof.
  intros [Hst Hw] Ew Himp c mg la m h. constructor; cbn; auto.
  intros j wj Hj Hp p v Hin. destruct (nth_error_upd _ _ _ _ _ Hj) as [(<- & -> & _)|(Hne & Hj')].
  - destruct (Himp Hp) as (Hp0 & Ex & Ey). rewrite Ex, Ey in Hin. eapply Hw; eauto.
  - eapply Hw; eauto.
Qed.

Lemma InvV_step hc cfg L0 s l s' : Inv1 cfg s -> InvV L0 s -> step hc cfg s l = Some s' -> InvV L0 s'.
Proof.
  intros I1 I HS. pose proof I as [Hst Hvw]. pose proof I1 as [Hl Hm Hw Hn Hr].
  destruct l; cbn in HS.
  - unfold step_start in HS. destruct (mpc s); try discriminate.
    destruct (do_refresh _ _ _ _ _) as [[[m st] ld]|] eqn:Er; try discriminate. inv_some.
    pose proof (do_refresh_mem _ _ _ _ _ _ _ _ Er) as Hmem.
    constructor; cbn; auto. intros p v Hin. apply Hst. apply Hmem; auto.
  - (* LInitJob *)
    unfold step_initjob, set_w in HS. destruct (mpc s) eqn:Em; try discriminate.
    destruct (nth_error (ws s) k) as [w|] eqn:Ek; try discriminate.
    assert (Hprist : w = pristine). { specialize (Hw _ _ Ek). apply Hw; cbn; lia. }
    subst w.
    match type of HS with (let (_, _) := ?t in _) = _ => destruct t as [x m] end.
    destruct x; inv_some; eapply InvV_wframe; eauto; cbn; intros [?|?]; discriminate.
  - unfold step_initend, with_mpc in HS. dmatch HS. inv_some. constructor; cbn; auto.
  - unfold step_mtest, with_mpc in HS. dmatch HS. inv_some. constructor; cbn; auto.
  - unfold step_mlock, with_mpc in HS. dmatch HS; inv_some; constructor; cbn; auto.
  - unfold step_mskip, with_mpc in HS. dmatch HS; inv_some; constructor; cbn; auto.
  - (* LMCollect *)
    apply step_mcollect_spec in HS.
    destruct HS as (k & w & f' & x' & m' & la' & st' & ld' & h' & Em & Ek & Ef & -> & Hcase & Hmem).
    pose proof (Hw _ _ Ek) as W. pose proof (nth_error_lt _ _ _ Ek) as Hk. rewrite Hl in Hk.
    rewrite Em in W. destruct W as (W1 & W2 & W3 & W4 & W5 & W6 & W7). cbn in W2. specialize (W2 Hk).
    constructor; cbn.
    + intros p v Hin. apply Hmem in Hin. destruct Hin as [Hin|Hin]; auto.
      right. exists k. eapply Hvw; eauto.
    + intros j wj Hj Hp p v Hin. destruct (nth_error_upd _ _ _ _ _ Hj) as [(<- & -> & _)|(Hne & Hj')].
      * exfalso. cbn in Hp. destruct Hp as [Hp|Hp].
        -- rewrite Hp in W2. congruence.
        -- destruct Hcase as [(-> & _)|(-> & _)]; discriminate.
      * eapply Hvw; eauto.
  - unfold step_mcsexit, with_mpc in HS. dmatch HS; inv_some; constructor; cbn; auto.
  - (* LMNotifyAll *)
    unfold step_mnotify in HS. destruct (mpc s); try discriminate. inv_some. constructor; cbn; auto.
    intros j wj Hj Hp p v Hin. rewrite nth_error_map in Hj. destruct (nth_error (ws s) j) as [w|] eqn:Ew; try discriminate.
    cbn in Hj. inversion Hj; subst; clear Hj. apply (Hvw _ _ Ew).
    + unfold wake in Hp. destruct (wpc w) eqn:Epc; cbn in Hp; rewrite ?Epc in Hp; auto. destruct Hp as [?|?]; [discriminate|auto].
    + unfold wake in Hin. destruct (wpc w); auto.
  - (* LMFlush *)
    unfold step_mflush in HS. destruct (mpc s); try discriminate. cbn in HS. inv_some. constructor; cbn; auto.
    intros p v Hin. apply Hst. rewrite in_app_iff in *. tauto.
  - unfold step_mjoin, with_mpc in HS. dmatch HS; inv_some; constructor; cbn; auto.
  - (* LWEnter *)
    unfold step_wenter, with_w, set_w in HS. wunf HS w Ew Epc. inv_some.
    eapply InvV_wframe; eauto; cbn. intros [?|Hf]; [discriminate|auto].
  - (* LWExit *)
    unfold step_wexit, set_w in HS. wunf HS w Ew Epc. dmatch HS. inv_some.
    constructor; cbn.
    + intros p v Hin. destruct (Hst _ _ Hin) as [?|[j Hj]]; auto. right. exists j. apply in_or_app; auto.
    + intros j wj Hj Hp p v Hin. destruct (nth_error_upd _ _ _ _ _ Hj) as [(<- & -> & _)|(Hne & Hj')].
      * cbn in Hin. apply in_or_app. right. apply in_map_iff. exists (p, v). auto.
      * apply in_or_app. left. eapply Hvw; eauto.
  - (* LWDone *)
    unfold step_wdone, set_w in HS. wunf HS w Ew Epc. dmatch HS. inv_some.
    eapply InvV_wframe; eauto; cbn.
  - (* LWNotify *)
    unfold step_wnotify, set_w in HS. wunf HS w Ew Epc. inv_some.
    eapply InvV_wframe; eauto; cbn. intros [?|Hf]; [discriminate|auto].
  - (* LWLock *)
    unfold step_wlock, with_w, set_w in HS. wunf HS w Ew Epc. dmatch HS. inv_some.
    eapply InvV_wframe; eauto; cbn. intros [Hp|Hf]; [destruct (wflag w); discriminate|auto].
  - unfold step_spurm, with_mpc in HS. dmatch HS; inv_some; constructor; cbn; auto.
  - (* LSpurW *)
    unfold step_spurw, with_w, set_w in HS. wunf HS w Ew Epc. inv_some.
    eapply InvV_wframe; eauto; cbn. intros [?|Hf]; [discriminate|auto].
Qed.

Lemma reach_InvV hc cfg L0 n0 s : reachable hc cfg L0 n0 s -> InvV L0 s.
Proof.
  induction 1 as [|s l s' R IH HS]; [apply init_InvV|].
  eapply InvV_step; eauto. apply (reach_Inv12 _ _ _ _ _ R).
Qed.

(* ------------------------------------------------------------------------------------------------ *)
(** * at most once: lemmas about the CandidateManager *)

Definition SL (st ld : list (nat * nat)) (p : nat) : Prop := In p (pts st) \/ In p (pts ld).

Record MI (m : manager) (st ld : list (nat * nat)) : Prop := {
  mi_nd : NoDup (cands m);
  mi_len : length (cstatus m) = length (cands m);
  mi_run : forall p c, In (p, c) (combine (cands m) (cstatus m)) -> In p (rjobs m) -> c = SRunning;
  mi_done : forall p c, In (p, c) (combine (cands m) (cstatus m)) -> SL st ld p -> c = SDone;
  mi_ndr : NoDup (rjobs m)
}.

Lemma pts_app a b : pts (a ++ b) = pts a ++ pts b.
Proof. unfold pts. apply map_app. Qed.

Lemma pts_combine (x y : list nat) : length x = length y -> pts (combine x y) = x.
Proof.
  unfold pts. revert y; induction x as [|a r IH]; intros [|b y]; cbn; intros H; try discriminate; auto.
  f_equal. apply IH. lia.
Qed.

Lemma In_combine_map {A B} (f : A -> B) c p s : In (p, s) (combine c (map f c)) -> s = f p.
Proof. induction c as [|a r IH]; cbn; [tauto|]. intros [H|H]; [inversion H; auto|auto]. Qed.

Lemma In_combine_map2 (g : nat -> cstat -> cstat) cs st p s' :
  In (p, s') (combine cs (map2 g cs st)) -> exists s0, In (p, s0) (combine cs st) /\ s' = g p s0.
Proof.
  revert st; induction cs as [|a r IH]; intros [|b st]; cbn; try tauto.
  intros [H|H]; [inversion H; subst; eauto|]. destruct (IH _ H) as (s0 & H0 & E). eauto.
Qed.

Lemma NoDup_app_intro {A} (a b : list A) : NoDup a -> NoDup b -> (forall x, In x a -> ~ In x b) -> NoDup (a ++ b).
Proof.
  induction 1 as [|x a Hn Hd IH]; cbn; auto. intros Hb Hdis. constructor.
  - rewrite in_app_iff. intros [?|?]; [auto|]. apply (Hdis x); cbn; auto.
  - apply IH; auto; intros y Hy; apply Hdis; cbn; auto.
Qed.

Lemma NoDup_rev {A} (l : list A) : NoDup l -> NoDup (rev l).
Proof. intros H. eapply Permutation_NoDup; [apply Permutation_rev|auto]. Qed.

Lemma MI_SL_ext m st ld st' ld' : MI m st ld -> (forall p, SL st' ld' p -> SL st ld p) -> MI m st' ld'.
Proof. intros [H1 H2 H3 H4 H5] E. constructor; auto. intros p c Hc Hs. apply (H4 p c); auto. Qed.

Lemma MI_assign m st ld c st' ld' :
  MI m st ld -> NoDup c -> (forall p, In p c -> ~ SL st' ld' p) -> MI (m_assign m c) st' ld'.
Proof.
  intros [H1 H2 H3 H4 H5] Hc Hdis. constructor; cbn; auto.
  - rewrite map_length. reflexivity.
  - intros p s Hin Hr. apply In_combine_map in Hin. subst. apply memb_In in Hr. rewrite Hr. reflexivity.
  - intros p s Hin Hs. exfalso. apply (Hdis p); auto. apply in_combine_l in Hin. auto.
Qed.

Lemma MI_complete m st ld x st' ld' :
  MI m st ld -> (forall p, SL st' ld' p -> SL st ld p \/ In p x) -> MI (m_complete m x) st' ld'.
Proof.
  intros [H1 H2 H3 H4 H5] Hsl. constructor; cbn; auto.
  - rewrite map2_length. lia.
  - intros p s Hin Hr. apply In_combine_map2 in Hin. destruct Hin as (s0 & H0 & ->).
    destruct (memb p x) eqn:E.
    + exfalso. apply memb_In in E. revert Hr. apply remove_all_NoDup_notin; auto.
    + apply (H3 p); auto. eapply remove_all_In; eauto.
  - intros p s Hin Hs. apply In_combine_map2 in Hin. destruct Hin as (s0 & H0 & ->).
    destruct (memb p x) eqn:E; auto. apply memb_false in E. destruct (Hsl _ Hs) as [?|?]; [|tauto]. apply (H4 p); auto.
  - apply remove_all_NoDup; auto.
Qed.

(* take_free *)
Lemma tf_in_free n cs st p : In p (fst (take_free n cs st)) -> In (p, SFree) (combine cs st).
Proof.
  revert n st; induction cs as [|c cs IH]; intros [|n] st; cbn; try tauto.
  destruct st as [|s0 st]; cbn; [tauto|]. destruct s0.
  - specialize (IH n st). destruct (take_free n cs st); cbn in *. intros [->|H]; auto.
  - specialize (IH (S n) st). destruct (take_free (S n) cs st); cbn in *. auto.
  - specialize (IH (S n) st). destruct (take_free (S n) cs st); cbn in *. auto.
Qed.

Lemma tf_status n cs st p s' :
  In (p, s') (combine cs (snd (take_free n cs st))) ->
  In (p, s') (combine cs st) \/ (s' = SRunning /\ In p (fst (take_free n cs st))).
Proof.
  revert n st; induction cs as [|c cs IH]; intros [|n] st; cbn; try tauto.
  destruct st as [|s0 st]; cbn; [tauto|]. destruct s0.
  - specialize (IH n st). destruct (take_free n cs st); cbn in *.
    intros [H|H]; [inversion H; subst; right; auto|]. destruct (IH H) as [?|[? ?]]; auto.
  - specialize (IH (S n) st). destruct (take_free (S n) cs st); cbn in *.
    intros [H|H]; auto. destruct (IH H) as [?|[? ?]]; auto.
  - specialize (IH (S n) st). destruct (take_free (S n) cs st); cbn in *.
    intros [H|H]; auto. destruct (IH H) as [?|[? ?]]; auto.
Qed.

Lemma tf_taken_running n cs st p s' :
  NoDup cs -> In p (fst (take_free n cs st)) -> In (p, s') (combine cs (snd (take_free n cs st))) -> s' = SRunning.
Proof.
  revert n st; induction cs as [|c cs IH]; intros [|n] st Hnd; cbn; try tauto.
  - inversion Hnd as [|? ? Hnotin Hnd']; subst.
    destruct st as [|s0 st]; cbn; [tauto|]. destruct s0.
    + pose proof (tf_in_free n cs st p) as Hfree. specialize (IH n st Hnd').
      destruct (take_free n cs st) as [r st'']; cbn in *.
      intros Hr [H|H]; [inversion H; subst; auto|].
      destruct Hr as [->|Hr]; [apply in_combine_l in H; tauto | auto].
    + pose proof (tf_in_free (S n) cs st p) as Hfree. specialize (IH (S n) st Hnd').
      destruct (take_free (S n) cs st) as [r st'']; cbn in *.
      intros Hr [H|H]; auto. inversion H; subst. apply Hfree, in_combine_l in Hr. tauto.
    + pose proof (tf_in_free (S n) cs st p) as Hfree. specialize (IH (S n) st Hnd').
      destruct (take_free (S n) cs st) as [r st'']; cbn in *.
      intros Hr [H|H]; auto. inversion H; subst. apply Hfree, in_combine_l in Hr. tauto.
Qed.

Lemma tf_nodup n cs st : NoDup cs -> NoDup (fst (take_free n cs st)).
Proof.
  revert n st; induction cs as [|c cs IH]; intros [|n] st Hnd; cbn; try (constructor; fail).
  - inversion Hnd as [|? ? Hnotin Hnd']; subst.
    destruct st as [|s0 st]; cbn; [constructor|]. destruct s0.
    + pose proof (tf_in_free n cs st c) as Hfree. specialize (IH n st Hnd').
      destruct (take_free n cs st) as [r st'']; cbn in *. constructor; auto.
      intros Hr. apply Hfree, in_combine_l in Hr. tauto.
    + specialize (IH (S n) st Hnd'). destruct (take_free (S n) cs st); cbn in *; auto.
    + specialize (IH (S n) st Hnd'). destruct (take_free (S n) cs st); cbn in *; auto.
Qed.

Lemma MI_next b m st ld rem r m' :
  MI m st ld -> m_next b m rem = (r, m') ->
  MI m' st ld /\ NoDup r /\ rjobs m' = rev r ++ rjobs m /\
  (forall p, In p r -> ~ In p (rjobs m) /\ ~ SL st ld p).
Proof.
  intros [H1 H2 H3 H4 H5] E. unfold m_next in E.
  pose proof (tf_in_free (Nat.max 1 (Nat.min rem b)) (cands m) (cstatus m)) as Hfree.
  pose proof (tf_status (Nat.max 1 (Nat.min rem b)) (cands m) (cstatus m)) as Hstat.
  pose proof (tf_taken_running (Nat.max 1 (Nat.min rem b)) (cands m) (cstatus m)) as Htaken.
  pose proof (tf_nodup (Nat.max 1 (Nat.min rem b)) (cands m) (cstatus m) H1) as Hnd.
  pose proof (take_free_status_length (Nat.max 1 (Nat.min rem b)) (cands m) (cstatus m)) as Hlen.
  destruct (take_free _ _ _) as [r0 st0]. cbn in *. inversion E; subst; clear E.
  assert (Hfresh : forall p, In p r -> ~ In p (rjobs m) /\ ~ SL st ld p).
  { intros p Hp. specialize (Hfree _ Hp). split; intros Hc.
    - specialize (H3 _ _ Hfree Hc). discriminate.
    - specialize (H4 _ _ Hfree Hc). discriminate. }
  split; [|split; [auto|split; [reflexivity|exact Hfresh]]].
  constructor; cbn; auto; try lia.
  - intros p c Hin Hr. rewrite in_app_iff in Hr. destruct Hr as [Hr|Hr].
    + apply in_rev in Hr. eapply Htaken; eauto.
    + destruct (Hstat _ _ Hin) as [Hold|[-> _]]; auto. eapply H3; eauto.
  - intros p c Hin Hs. destruct (Hstat _ _ Hin) as [Hold|[-> Hr]]; [eapply H4; eauto|].
    exfalso. apply (Hfresh _ Hr); auto.
  - apply NoDup_app_intro; auto; [apply NoDup_rev; auto|]. intros p Hp. apply in_rev in Hp. apply Hfresh; auto.
Qed.

(* ------------------------------------------------------------------------------------------------ *)
(** * at most once: the invariant (needs H-CAND, i.e. hc = true) *)

Definition covered (P : nat -> Prop) (wsl : list worker) (m : manager) (h : list nat) : Prop :=
  forall j wj, P j -> nth_error wsl j = Some wj -> wactive wj = true ->
               forall p, In p (wx wj) -> In p (rjobs m) /\ In p h.

Record Q (P : nat -> Prop) (wsl : list worker) (m : manager) (st ld : list (nat * nat)) (h : list nat) : Prop := {
  q_mi : MI m st ld;
  q_hand : forall p, In p h -> In p (rjobs m) \/ SL st ld p;
  q_ndh : NoDup h;
  q_cov : covered P wsl m h
}.

Lemma cand_okb_spec ld c : cand_okb ld c = true -> NoDup c /\ forall p, In p c -> ~ In p (pts ld).
Proof.
  unfold cand_okb. rewrite andb_true_iff, forallb_forall. intros [H1 H2]. split; [apply nodupb_NoDup; auto|].
  intros p Hp. specialize (H2 _ Hp). apply negb_true_iff, memb_false in H2. auto.
Qed.

Lemma SL_load st ld p : SL [] (ld ++ st) p <-> SL st ld p.
Proof. unfold SL. rewrite pts_app, in_app_iff. cbn. tauto. Qed.

Lemma Q_load P wsl m st ld h : Q P wsl m st ld h -> Q P wsl m [] (ld ++ st) h.
Proof.
  intros [H1 H2 H3 H4]. constructor; auto.
  - eapply MI_SL_ext; eauto. intros p. apply SL_load.
  - intros p Hp. destruct (H2 _ Hp); auto. right. apply SL_load; auto.
Qed.

Lemma Q_refresh P wsl m st ld h c m' st' ld' :
  do_refresh true m st ld c = Some (m', st', ld') -> Q P wsl m st ld h -> Q P wsl m' st' ld' h.
Proof.
  unfold do_refresh, do_load. cbn. destruct (cand_okb (ld ++ st) c) eqn:E; intros H; inversion H; subst; clear H.
  intros HQ. apply Q_load in HQ. destruct HQ as [H1 H2 H3 H4]. apply cand_okb_spec in E. destruct E as [Hnd Hdis].
  constructor; auto.
  eapply MI_assign; eauto. intros p Hp [Hs|Hs]; [cbn in Hs; auto|]. apply (Hdis p); auto.
Qed.

Lemma Q_next P wsl m st ld h b rem r m' :
  Q P wsl m st ld h -> m_next b m rem = (r, m') ->
  Q P wsl m' st ld (h ++ r) /\ NoDup r /\
  (forall p, In p r -> In p (rjobs m') /\ In p (h ++ r)) /\
  (forall j wj, P j -> nth_error wsl j = Some wj -> wactive wj = true -> forall p, In p r -> ~ In p (wx wj)).
Proof.
  intros [H1 H2 H3 H4] E. destruct (MI_next _ _ _ _ _ _ _ H1 E) as (M' & Hnd & Hrj & Hfresh).
  split; [|split; [auto|split]].
  - constructor; auto.
    + intros p Hp. rewrite in_app_iff in Hp. rewrite Hrj, in_app_iff. destruct Hp as [Hp|Hp].
      * destruct (H2 _ Hp); auto.
      * left. left. apply in_rev. rewrite rev_involutive. auto.
    + apply NoDup_app_intro; auto. intros p Hp Hr. destruct (Hfresh _ Hr) as [F1 F2]. destruct (H2 _ Hp); auto.
    + intros j wj Pj Hj Ha p Hp. destruct (H4 _ _ Pj Hj Ha _ Hp) as [A B]. rewrite Hrj, !in_app_iff. auto.
  - intros p Hp. rewrite Hrj, !in_app_iff. split; auto. left. apply in_rev. rewrite rev_involutive. auto.
  - intros j wj Pj Hj Ha p Hp Hin. destruct (H4 _ _ Pj Hj Ha _ Hin) as [A B]. destruct (Hfresh _ Hp) as [F1 F2]. auto.
Qed.

Record InvO (s : state) : Prop := {
  o_q : Q (fun _ => True) (ws s) (mgr s) (store s) (loaded s) (handed s);
  o_nd : forall id w, nth_error (ws s) id = Some w -> wactive w = true -> NoDup (wx w);
  o_a2 : forall i j wi wj, i <> j -> nth_error (ws s) i = Some wi -> nth_error (ws s) j = Some wj ->
         wactive wi = true -> wactive wj = true -> forall p, In p (wx wi) -> ~ In p (wx wj)
}.

Lemma init_InvO cfg L0 n0 : InvO (init cfg L0 n0).
Proof.
  assert (Hrep : forall j wj, nth_error (repeat (mkW FDone WIdle [] []) (nj cfg)) j = Some wj -> wx wj = []).
  { intros j wj Hj. apply nth_error_repeat in Hj. subst. reflexivity. }
  constructor; cbn.
  - constructor; cbn.
    + constructor; cbn; try constructor; try tauto.
    + tauto.
    + constructor.
    + intros j wj _ Hj _ p Hp. rewrite (Hrep _ _ Hj) in Hp. destruct Hp.
  - intros id w H _. rewrite (Hrep _ _ H). constructor.
  - intros i j wi wj _ Hi _ _ _ p Hp. rewrite (Hrep _ _ Hi) in Hp. destruct Hp.
Qed.

(* worker [k] gets the record [w']; everything about the other workers is in Q *)
Lemma InvO_assemble s k w' m' st' ld' h' :
  InvO s -> k < length (ws s) ->
  Q (fun j => j <> k) (ws s) m' st' ld' h' ->
  (wactive w' = true ->
     NoDup (wx w') /\ (forall p, In p (wx w') -> In p (rjobs m') /\ In p h') /\
     (forall j wj, j <> k -> nth_error (ws s) j = Some wj -> wactive wj = true -> forall p, In p (wx w') -> ~ In p (wx wj))) ->
  forall c la mp cl, InvO (mkS (upd (ws s) k w') c m' la st' ld' mp h' cl).
Proof.
  intros [_ Hnd Ha2] Hk [Q1 Q2 Q3 Q4] Hnew c la mp cl. constructor; cbn.
  - constructor; auto. intros j wj _ Hj Ha p Hp.
    destruct (nth_error_upd _ _ _ _ _ Hj) as [(<- & -> & _)|(Hne & Hj')].
    + apply Hnew; auto.
    + eapply Q4; eauto.
  - intros id w Hid Ha. destruct (nth_error_upd _ _ _ _ _ Hid) as [(<- & -> & _)|(Hne & Hj')].
    + apply Hnew; auto.
    + eapply Hnd; eauto.
  - intros i j wi wj Hij Hi Hj Hai Haj p Hp Hq.
    destruct (nth_error_upd _ _ _ _ _ Hi) as [(<- & -> & _)|(Hni & Hi')];
      destruct (nth_error_upd _ _ _ _ _ Hj) as [(<- & -> & _)|(Hnj & Hj')]; try congruence.
    + destruct (Hnew Hai) as (_ & _ & Hd). eapply Hd; eauto.
    + destruct (Hnew Haj) as (_ & _ & Hd). eapply (Hd i wi); eauto.
    + eapply Ha2 with (i := i) (j := j); eauto.
Qed.

(* a step that keeps [wactive] and [wx] of the only worker it changes, and nothing else of this invariant *)
Lemma InvO_wframe s id w w' :
  InvO s -> nth_error (ws s) id = Some w -> wactive w' = wactive w -> wx w' = wx w ->
  forall c la mp cl, InvO (mkS (upd (ws s) id w') c (mgr s) la (store s) (loaded s) mp (handed s) cl).
Proof.
  intros I Ew Ea Ex c la mp cl. pose proof I as [[Q1 Q2 Q3 Q4] Hnd Ha2].
  apply InvO_assemble; auto.
  - eapply nth_error_lt; eauto.
  - constructor; auto. intros j wj _ Hj Ha p Hp. eapply Q4; eauto.
  - rewrite Ea, Ex. intros Ha. split; [eapply Hnd; eauto|]. split.
    + intros p Hp. eapply Q4; eauto.
    + intros j wj Hne Hj Haj p Hp. eapply Ha2 with (i := id) (j := j); eauto.
Qed.

Lemma InvO_main s m' : InvO s -> forall c la cl, InvO (mkS (ws s) c (mgr s) la (store s) (loaded s) m' (handed s) cl).
Proof. intros [H1 H2 H3] c la cl. constructor; cbn; auto. Qed.

Lemma Q_weaken (P P' : nat -> Prop) wsl m st ld h : (forall j, P' j -> P j) -> Q P wsl m st ld h -> Q P' wsl m st ld h.
Proof. intros Himp [H1 H2 H3 H4]. constructor; auto. intros j wj Pj. apply H4; auto. Qed.

Lemma Q_complete s k w :
  InvO s -> nth_error (ws s) k = Some w -> wactive w = true -> length (wy w) = length (wx w) ->
  Q (fun j => j <> k) (ws s) (m_complete (mgr s) (wx w)) (store s ++ combine (wx w) (wy w)) (loaded s) (handed s).
Proof.
  intros [[Q1 Q2 Q3 Q4] Hnd Ha2] Ek Ha Hlen.
  assert (Hsl : forall p, SL (store s ++ combine (wx w) (wy w)) (loaded s) p <-> SL (store s) (loaded s) p \/ In p (wx w)).
  { intros p. unfold SL. rewrite pts_app, in_app_iff, pts_combine by auto. tauto. }
  constructor; auto.
  - eapply MI_complete; eauto. intros p Hp. apply Hsl; auto.
  - intros p Hp. cbn. destruct (in_dec Nat.eq_dec p (wx w)) as [Hin|Hnin].
    + right. apply Hsl. auto.
    + destruct (Q2 _ Hp) as [Hr|Hs].
      * left. apply remove_all_In_notin; auto.
      * right. apply Hsl. auto.
  - intros j wj Hne Hj Haj p Hp. destruct (Q4 _ _ I Hj Haj _ Hp) as [A B]. split; auto. cbn.
    apply remove_all_In_notin; auto. eapply Ha2 with (i := j) (j := k); eauto.
Qed.

Lemma InvO_collect cfg s ldc c1 c2 s' :
  Inv1 cfg s -> InvO s -> step_mcollect true cfg s ldc c1 c2 = Some s' -> InvO s'.
Proof.
  intros I1 IO. unfold step_mcollect. destruct (mpc s) eqn:Em; try discriminate.
  destruct (nth_error (ws s) k) as [w|] eqn:Ek; try discriminate.
  destruct (wflag w) eqn:Ef; try discriminate.
  pose proof (nth_error_lt _ _ _ Ek) as Hk.
  assert (Hact : wactive w = true) by (unfold wactive; rewrite Ef; reflexivity).
  assert (Hlen : length (wy w) = length (wx w)) by (apply (i1_w _ _ I1 _ _ Ek); auto).
  pose proof (Q_complete _ _ _ IO Ek Hact Hlen) as Q0.
  set (m1 := m_complete (mgr s) (wx w)) in *. set (st1 := store s ++ combine (wx w) (wy w)) in *.
  destruct (if ldc then do_load st1 (loaded s) else (st1, loaded s)) as [st2 ld2] eqn:Eld.
  assert (Q1 : Q (fun j => j <> k) (ws s) m1 st2 ld2 (handed s)).
  { destruct ldc; inversion Eld; subst; auto. apply Q_load; auto. }
  clear Q0.
  destruct (launched s <? maxpts cfg).
  - destruct (if rule20 m1 then do_refresh true m1 st2 ld2 c1 else Some (m1, st2, ld2)) as [[[m2 st3] ld3]|] eqn:Er; try discriminate.
    assert (Q2 : Q (fun j => j <> k) (ws s) m2 st3 ld3 (handed s)).
    { destruct (rule20 m1); [eapply Q_refresh; eauto | inversion Er; subst; auto]. }
    destruct (m_next (bsz cfg) m2 (remaining cfg (launched s))) as [x1 m3] eqn:En1.
    destruct (Q_next _ _ _ _ _ _ _ _ _ _ Q2 En1) as (Q3 & Hnd1 & Hin1 & Hdis1).
    destruct x1 as [|p1 x1].
    + rewrite app_nil_r in Q3.
      destruct (do_refresh true m3 st3 ld3 c2) as [[[m4 st4] ld4]|] eqn:Er2; try discriminate.
      pose proof (Q_refresh _ _ _ _ _ _ _ _ _ _ Er2 Q3) as Q4.
      destruct (m_next (bsz cfg) m4 (remaining cfg (launched s))) as [x2 m5] eqn:En2.
      destruct (Q_next _ _ _ _ _ _ _ _ _ _ Q4 En2) as (Q5 & Hnd2 & Hin2 & Hdis2).
      destruct x2 as [|p2 x2]; intros H; inversion H; subst; clear H.
      * rewrite app_nil_r in Q5. apply InvO_assemble; auto; cbn; discriminate.
      * apply InvO_assemble; auto; cbn; intros _; (split; [auto|]); (split; [auto|]);
          intros j wj Hne Hj Haj p Hp; eapply Hdis2; eauto.
    + intros H; inversion H; subst; clear H.
      apply InvO_assemble; auto; cbn; intros _; (split; [auto|]); (split; [auto|]);
        intros j wj Hne Hj Haj p Hp; eapply Hdis1; eauto.
  - intros H; inversion H; subst; clear H. apply InvO_assemble; auto; cbn; discriminate.
Qed.

Lemma InvO_map s : InvO s ->
  forall c la mp cl, InvO (mkS (map wake (ws s)) c (mgr s) la (store s) (loaded s) mp (handed s) cl).
Proof.
  intros [[Q1 Q2 Q3 Q4] Hnd Ha2] c la mp cl.
  assert (Hw : forall j wj, nth_error (map wake (ws s)) j = Some wj ->
                            exists w, nth_error (ws s) j = Some w /\ wactive wj = wactive w /\ wx wj = wx w).
  { intros j wj Hj. rewrite nth_error_map in Hj. destruct (nth_error (ws s) j) as [w|]; try discriminate.
    cbn in Hj. inversion Hj; subst. exists w. unfold wake. destruct (wpc w); auto. }
  constructor; cbn.
  - constructor; auto. intros j wj _ Hj Ha p Hp. destruct (Hw _ _ Hj) as (w & Ew & Ea & Ex).
    rewrite Ea in Ha. rewrite Ex in Hp. eapply Q4; eauto.
  - intros id wj Hj Ha. destruct (Hw _ _ Hj) as (w & Ew & Ea & Ex). rewrite Ea in Ha. rewrite Ex. eapply Hnd; eauto.
  - intros i j wi wj Hij Hi Hj Hai Haj p Hp.
    destruct (Hw _ _ Hi) as (w1 & E1 & Ea1 & Ex1). destruct (Hw _ _ Hj) as (w2 & E2 & Ea2 & Ex2).
    rewrite Ea1 in Hai. rewrite Ea2 in Haj. rewrite Ex1 in Hp. rewrite Ex2. eapply Ha2 with (i := i) (j := j); eauto.
Qed.

Lemma InvO_step cfg s l s' : Inv1 cfg s -> InvO s -> step true cfg s l = Some s' -> InvO s'.
Proof.
  intros I1 IO HS. pose proof I1 as [Hl Hm Hw Hn Hr].
  destruct l; cbn in HS.
  - (* LStart *)
    unfold step_start in HS. destruct (mpc s); try discriminate.
    destruct (do_refresh _ _ _ _ _) as [[[m st] ld]|] eqn:Er; try discriminate. inv_some.
    destruct IO as [Q0 Hnd Ha2]. constructor; cbn; auto. eapply Q_refresh; eauto.
  - (* LInitJob *)
    unfold step_initjob, set_w in HS. destruct (mpc s) eqn:Em; try discriminate.
    destruct (nth_error (ws s) k) as [w|] eqn:Ek; try discriminate.
    pose proof (nth_error_lt _ _ _ Ek) as Hk.
    assert (Q0 : Q (fun j => j <> k) (ws s) (mgr s) (store s) (loaded s) (handed s)).
    { apply Q_weaken with (P := fun _ => True); [auto | apply IO]. }
    destruct (if guarded cfg then launched s <? maxpts cfg else true).
    + destruct (m_next (bsz cfg) (mgr s) (remaining cfg (launched s))) as [x m] eqn:En.
      destruct (Q_next _ _ _ _ _ _ _ _ _ _ Q0 En) as (Q1 & Hnd1 & Hin1 & Hdis1).
      destruct x as [|p x]; inv_some.
      * rewrite app_nil_r in Q1. apply InvO_assemble; auto; cbn; discriminate.
      * apply InvO_assemble; auto; cbn; intros _; (split; [auto|]); (split; [auto|]);
          intros j wj Hne Hj Haj q Hq; eapply Hdis1; eauto.
    + inv_some. apply InvO_assemble; auto; cbn; discriminate.
  - unfold step_initend, with_mpc in HS. dmatch HS. inv_some. apply InvO_main; auto.
  - unfold step_mtest, with_mpc in HS. dmatch HS. inv_some. apply InvO_main; auto.
  - unfold step_mlock, with_mpc in HS. dmatch HS; inv_some; apply InvO_main; auto.
  - unfold step_mskip, with_mpc in HS. dmatch HS; inv_some; apply InvO_main; auto.
  - eapply InvO_collect; eauto.
  - unfold step_mcsexit, with_mpc in HS. dmatch HS; inv_some; apply InvO_main; auto.
  - unfold step_mnotify in HS. dmatch HS; inv_some. apply InvO_map; auto.
  - (* LMFlush *)
    unfold step_mflush in HS. destruct (mpc s); try discriminate. cbn in HS. inv_some.
    destruct IO as [Q0 Hnd Ha2]. constructor; cbn; auto. apply Q_load; auto.
  - unfold step_mjoin, with_mpc in HS. dmatch HS; inv_some; apply InvO_main; auto.
  - unfold step_wenter, with_w, set_w in HS. wunf HS w Ew Epc. inv_some. apply InvO_wframe with (w := w); auto.
  - unfold step_wexit, set_w in HS. wunf HS w Ew Epc. dmatch HS. inv_some. apply InvO_wframe with (w := w); auto.
  - (* LWDone *)
    unfold step_wdone, set_w in HS. wunf HS w Ew Epc. dmatch HS. inv_some.
    pose proof (Hw _ _ Ew) as W. pose proof (wok_started _ _ _ _ W ltac:(congruence)) as Hid.
    destruct W as (W1 & W2 & W3 & W4 & W5 & W6 & W7). specialize (W2 Hid). rewrite Epc in W2.
    apply InvO_wframe with (w := w); auto. unfold wactive; cbn. rewrite W2. reflexivity.
  - unfold step_wnotify, set_w in HS. wunf HS w Ew Epc. inv_some. apply InvO_wframe with (w := w); auto.
  - unfold step_wlock, with_w, set_w in HS. wunf HS w Ew Epc. dmatch HS. inv_some. apply InvO_wframe with (w := w); auto.
  - unfold step_spurm, with_mpc in HS. dmatch HS; inv_some; apply InvO_main; auto.
  - unfold step_spurw, with_w, set_w in HS. wunf HS w Ew Epc. inv_some. apply InvO_wframe with (w := w); auto.
Qed.

Lemma reach_InvO cfg L0 n0 s : reachable true cfg L0 n0 s -> InvO s.
Proof.
  induction 1 as [|s l s' R IH HS]; [apply init_InvO|].
  eapply InvO_step; eauto. apply (reach_Inv12 _ _ _ _ _ R).
Qed.

(* ------------------------------------------------------------------------------------------------ *)
(** * a worker inside the model call is left alone by every other thread *)

Lemma in_model_stable hc cfg s l s' id w :
  Inv1 cfg s -> step hc cfg s l = Some s' -> nth_error (ws s) id = Some w -> wpc w = WInModel ->
  (exists vals, l = LWExit id vals) \/ nth_error (ws s') id = Some w.
Proof.
  intros I1 HS Ew Epc. pose proof I1 as [Hl Hm Hw Hn Hr].
  pose proof (Hw _ _ Ew) as W. pose proof (wok_started _ _ _ _ W ltac:(congruence)) as Hid.
  destruct W as (W1 & W2 & W3 & W4 & W5 & W6 & W7). specialize (W2 Hid). rewrite Epc in W2.
  assert (Hoth : forall k wk w', nth_error (ws s) k = Some wk -> wpc wk <> WInModel -> nth_error (upd (ws s) k w') id = Some w).
  { intros k wk w' Ek Hne. rewrite nth_error_upd_neq; auto. intros ->. rewrite Ew in Ek. inversion Ek; subst. congruence. }
  destruct l; cbn in HS.
  - unfold step_start in HS. dmatch HS. inv_some. auto.
  - unfold step_initjob, set_w in HS. destruct (mpc s) eqn:Em; try discriminate.
    destruct (nth_error (ws s) k) as [wk|] eqn:Ek; try discriminate.
    assert (Hprist : wk = pristine). { specialize (Hw _ _ Ek). apply Hw; cbn; lia. }
    match type of HS with (let (_, _) := ?t in _) = _ => destruct t as [x m] end.
    right. destruct x; inv_some; cbn; eapply Hoth; eauto; subst; cbn; discriminate.
  - unfold step_initend, with_mpc in HS. dmatch HS. inv_some. auto.
  - unfold step_mtest, with_mpc in HS. dmatch HS. inv_some. auto.
  - unfold step_mlock, with_mpc in HS. dmatch HS; inv_some; auto.
  - unfold step_mskip, with_mpc in HS. dmatch HS; inv_some; auto.
  - apply step_mcollect_spec in HS.
    destruct HS as (k & wk & f' & x' & m' & la' & st' & ld' & h' & Em & Ek & Ef & -> & Hcase & Hst).
    right. cbn. eapply Hoth; eauto. intros E.
    pose proof (Hw _ _ Ek) as Wk. pose proof (wok_started _ _ _ _ Wk ltac:(congruence)) as Hk.
    destruct Wk as (_ & Wk2 & _). specialize (Wk2 Hk). rewrite E in Wk2. congruence.
  - unfold step_mcsexit, with_mpc in HS. dmatch HS; inv_some; auto.
  - unfold step_mnotify in HS. dmatch HS; inv_some. right. cbn. rewrite nth_error_map, Ew. cbn. unfold wake. rewrite Epc. reflexivity.
  - unfold step_mflush in HS. dmatch HS. cbn in HS. inv_some. auto.
  - unfold step_mjoin, with_mpc in HS. dmatch HS; inv_some; auto.
  - unfold step_wenter, with_w, set_w in HS. wunf HS wk Ek Epk. inv_some. right. cbn. eapply Hoth; eauto. congruence.
  - unfold step_wexit, set_w in HS. wunf HS wk Ek Epk. dmatch HS. inv_some.
    destruct (Nat.eq_dec id0 id) as [->|Hne]; [left; eauto|]. right. cbn. rewrite nth_error_upd_neq; auto.
  - unfold step_wdone, set_w in HS. wunf HS wk Ek Epk. dmatch HS. inv_some. right. cbn. eapply Hoth; eauto. congruence.
  - unfold step_wnotify, set_w in HS. wunf HS wk Ek Epk. inv_some. right. cbn. eapply Hoth; eauto. congruence.
  - unfold step_wlock, with_w, set_w in HS. wunf HS wk Ek Epk. dmatch HS. inv_some. right. cbn. eapply Hoth; eauto. congruence.
  - unfold step_spurm, with_mpc in HS. dmatch HS; inv_some; auto.
  - unfold step_spurw, with_w, set_w in HS. wunf HS wk Ek Epk. inv_some. right. cbn. eapply Hoth; eauto. congruence.
Qed.

(* ------------------------------------------------------------------------------------------------ *)
(** * the work queue of loadNeededValues *)

Lemma qscan_spec fuel s ch :
  let s' := qscan fuel s ch in
  s <= s' /\ (forall i, s <= i -> i < s' -> nth_error ch i = Some true) /\ (nth_error ch s' <> Some true \/ s' = s + fuel).
Proof.
  revert s; induction fuel as [|f IH]; intros s; cbn.
  - split; [lia|]. split; [intros; lia|]. right; lia.
  - destruct (nth_error ch s) as [[|]|] eqn:E.
    + destruct (IH (S s)) as (H1 & H2 & H3). split; [lia|]. split.
      * intros i Hi Hlt. destruct (Nat.eq_dec i s) as [->|]; auto. apply H2; lia.
      * destruct H3; auto. right. lia.
    + split; [lia|]. split; [intros; lia|]. left. congruence.
    + split; [lia|]. split; [intros; lia|]. left. congruence.
Qed.

Record QInv (n nt : nat) (q : qstate) : Prop := {
  qi_len : length (checked q) = n;
  qi_tl : length (qthreads q) = nt;
  qi_log : forall i, In i (map snd (qlog q)) <-> nth_error (checked q) i = Some true;
  qi_nd : NoDup (map snd (qlog q));
  qi_thr : forall t s pc, nth_error (qthreads q) t = Some (s, pc) ->
           (forall i, i < s -> i < n -> nth_error (checked q) i = Some true) /\ (pc = QDone -> n <= s)
}.

Lemma nth_error_repeat_false n i : nth_error (repeat false n) i <> Some true.
Proof. intros H. apply nth_error_In, repeat_spec in H. discriminate. Qed.

Lemma qinit_QInv n nt : QInv n nt (qinit n nt).
Proof.
  constructor; cbn; try apply repeat_length.
  - intros i. split; [tauto|]. intros H. exfalso. eapply nth_error_repeat_false; eauto.
  - constructor.
  - intros t s pc H. apply nth_error_In, repeat_spec in H. inversion H; subst. split; [lia|discriminate].
Qed.

Lemma nth_error_upd_true ch j i : nth_error ch i = Some true -> nth_error (upd ch j true) i = Some true.
Proof.
  intros H. destruct (Nat.eq_dec j i) as [->|Hne]; [apply nth_error_upd_eq; eapply nth_error_lt; eauto|].
  rewrite nth_error_upd_neq; auto.
Qed.

Lemma QInv_step n nt q l q' : QInv n nt q -> qstep q l = Some q' -> QInv n nt q'.
Proof.
  intros [Hlen Htl Hlog Hnd Hthr] HS. destruct l as [t|t]; unfold qstep in HS.
  - destruct (nth_error (qthreads q) t) as [[s pc]|] eqn:Et; try discriminate. destruct pc; try discriminate.
    pose proof (qscan_spec (length (checked q)) s (checked q)) as (S1 & S2 & S3). cbn in S1, S2, S3.
    set (s' := qscan (length (checked q)) s (checked q)) in *.
    destruct (Hthr _ _ _ Et) as [Hbelow _].
    revert HS. destruct (Nat.ltb_spec s' (length (checked q))) as [Hlt|Hge]; intros HS; inv_some.
    + (* checkout of s' *)
      assert (Hnot : nth_error (checked q) s' <> Some true).
      { destruct S3 as [?|E]; auto. lia. }
      constructor; cbn.
      * rewrite upd_length; auto.
      * rewrite upd_length; auto.
      * intros i. rewrite map_app, in_app_iff. cbn. split.
        -- intros [H|[<-|[]]]; [apply nth_error_upd_true, Hlog; auto | apply nth_error_upd_eq; auto].
        -- intros H. destruct (Nat.eq_dec s' i) as [->|Hne]; auto. rewrite nth_error_upd_neq in H; auto. left. apply Hlog; auto.
      * rewrite map_app. cbn. apply NoDup_app_intro; auto; [constructor; [tauto|constructor]|].
        intros i Hi [<-|[]]. apply Hnot, Hlog; auto.
      * intros t0 s0 pc0 H0. destruct (nth_error_upd _ _ _ _ _ H0) as [(<- & E & _)|(Hne & H0')].
        -- inversion E; subst. split; [|discriminate]. intros i Hi Hin. apply nth_error_upd_true.
           destruct (Nat.lt_ge_cases i s); [apply Hbelow; auto | apply S2; auto].
        -- destruct (Hthr _ _ _ H0') as [A B]. split; auto. intros i Hi Hin. apply nth_error_upd_true; auto.
    + constructor; cbn; auto.
      * rewrite upd_length; auto.
      * intros t0 s0 pc0 H0. destruct (nth_error_upd _ _ _ _ _ H0) as [(<- & E & _)|(Hne & H0')]; [|eapply Hthr; eauto].
        inversion E; subst. split; [|lia]. intros i Hi Hin.
        destruct (Nat.lt_ge_cases i s); [apply Hbelow; auto | apply S2; auto].
  - destruct (nth_error (qthreads q) t) as [[s pc]|] eqn:Et; try discriminate. destruct pc; try discriminate. inv_some.
    constructor; cbn; auto.
    + rewrite upd_length; auto.
    + intros t0 s0 pc0 H0. destruct (nth_error_upd _ _ _ _ _ H0) as [(<- & E & _)|(Hne & H0')]; [|eapply Hthr; eauto].
      inversion E; subst. destruct (Hthr _ _ _ Et) as [A _]. split; [auto|discriminate].
Qed.

Lemma reach_QInv n nt q : qreachable n nt q -> QInv n nt q.
Proof. induction 1; [apply qinit_QInv | eapply QInv_step; eauto]. Qed.

Lemma queue_all_checked n nt q : QInv n nt q -> 0 < nt -> qfinished q = true -> forall i, i < n -> In i (map snd (qlog q)).
Proof.
  intros [Hlen Htl Hlog Hnd Hthr] Hnt Hfin i Hi.
  destruct (qthreads q) as [|[s pc] r] eqn:E; [cbn in Htl; lia|].
  unfold qfinished in Hfin. rewrite ?E in Hfin. cbn in Hfin. apply andb_true_iff in Hfin. destruct Hfin as [Hpc _].
  destruct pc; try discriminate.
  destruct (Hthr 0 s QDone) as [A B]; [rewrite ?E; reflexivity|].
  apply Hlog, A; auto. specialize (B eq_refl). lia.
Qed.

Lemma queue_in_range n nt q : QInv n nt q -> forall i, In i (map snd (qlog q)) -> i < n.
Proof. intros [Hlen Htl Hlog Hnd Hthr] i Hi. apply Hlog, nth_error_lt in Hi. lia. Qed.

(* ------------------------------------------------------------------------------------------------ *)
(** * statements in the form used by Props/Properties_C18.v *)

Lemma run_reachable hc cfg L0 n0 ls s s' :
  reachable hc cfg L0 n0 s -> run hc cfg s ls = Some s' -> reachable hc cfg L0 n0 s'.
Proof.
  revert s; induction ls as [|l r IH]; cbn; intros s R H.
  - inversion H; subst; auto.
  - destruct (step hc cfg s l) as [s1|] eqn:E; try discriminate. eapply IH; [|eauto]. eapply reach_step; eauto.
Qed.

Lemma qrun_reachable n nt ls q q' : qreachable n nt q -> qrun q ls = Some q' -> qreachable n nt q'.
Proof.
  revert q; induction ls as [|l r IH]; cbn; intros q R H.
  - inversion H; subst; auto.
  - destruct (qstep q l) as [q1|] eqn:E; try discriminate. eapply IH; [|eauto]. eapply qreach_step; eauto.
Qed.

Lemma at_most_once_stmt cfg L0 n0 s :
  reachable true cfg L0 n0 s ->
  NoDup (handed s) /\
  (forall p, In p (handed s) -> In p (rjobs (mgr s)) \/ In p (pts (store s)) \/ In p (pts (loaded s))) /\
  (forall id w, nth_error (ws s) id = Some w -> wactive w = true ->
     NoDup (wx w) /\ forall p, In p (wx w) -> In p (rjobs (mgr s)) /\ In p (handed s)) /\
  (forall i j wi wj, i <> j -> nth_error (ws s) i = Some wi -> nth_error (ws s) j = Some wj ->
     wactive wi = true -> wactive wj = true -> forall p, In p (wx wi) -> ~ In p (wx wj)).
Proof.
  intros R. destruct (reach_InvO _ _ _ _ R) as [[Q1 Q2 Q3 Q4] Hnd Ha2].
  split; [auto|]. split; [intros p Hp; destruct (Q2 _ Hp) as [?|[?|?]]; auto|]. split; [|exact Ha2].
  intros id w Ew Ha. split; [eapply Hnd; eauto|]. intros p Hp. eapply Q4; eauto.
Qed.

Lemma budget_guarded hc cfg L0 n0 s :
  guarded cfg = true -> reachable hc cfg L0 n0 s -> launched s <= Nat.max (maxpts cfg) n0.
Proof. intros Hg R. pose proof (reach_budget _ _ _ _ _ R) as H. unfold bound in H. rewrite Hg in H. lia. Qed.

Lemma budget_as_coded hc cfg L0 n0 s :
  reachable hc cfg L0 n0 s -> launched s <= Nat.max (maxpts cfg) n0 + nj cfg * bsz cfg.
Proof.
  intros R. pose proof (reach_budget _ _ _ _ _ R) as H. unfold bound in H.
  pose proof (ninit_le cfg (mpc s) (i1_mpc _ _ (proj1 (reach_Inv12 _ _ _ _ _ R)))) as Hle.
  destruct (guarded cfg); [lia|]. assert (ninit cfg (mpc s) * bsz cfg <= nj cfg * bsz cfg) by (apply Nat.mul_le_mono_r; auto). lia.
Qed.

Lemma flag_count_sync hc cfg L0 n0 s :
  reachable hc cfg L0 n0 s ->
  (lock_free s = true -> count_done s = count_flag_done (ws s)) /\
  (lock_free s = false -> count_done s = 0) /\
  (forall k id w, mpc s = MCollect k -> id < k -> nth_error (ws s) id = Some w -> wflag w <> FDone).
Proof.
  intros R. destruct (reach_Inv12 _ _ _ _ _ R) as [I1 I2]. repeat split.
  - intros H. apply I2. unfold lock_free in H. unfold in_cs. destruct (mpc s); congruence.
  - intros H. apply I2. unfold lock_free in H. unfold in_cs. destruct (mpc s); congruence.
  - intros k id w Em Hlt Ew. apply (i1_w _ _ I1 _ _ Ew) with (k := k); auto.
Qed.

Lemma values_stmt hc cfg L0 n0 s :
  reachable hc cfg L0 n0 s ->
  (forall p v, In (p, v) (store s ++ loaded s) -> In (p, v) L0 \/ exists id, In (id, p, v) (calls s)) /\
  (forall id w, nth_error (ws s) id = Some w -> wpc w = WPost \/ wflag w = FDone ->
     length (wy w) = length (wx w) /\ forall p v, In (p, v) (combine (wx w) (wy w)) -> In (id, p, v) (calls s)).
Proof.
  intros R. destruct (reach_InvV _ _ _ _ _ R) as [V1 V2]. destruct (reach_Inv12 _ _ _ _ _ R) as [I1 _].
  split; auto. intros id w Ew Hp. split; [apply (i1_w _ _ I1 _ _ Ew); auto | eapply V2; eauto].
Qed.

Lemma same_id_stmt hc cfg L0 n0 s :
  reachable hc cfg L0 n0 s ->
  (forall id w, nth_error (ws s) id = Some w -> wpc w = WInModel ->
     wflag w = FComputing /\
     forall l s', step hc cfg s l = Some s' -> (exists vals, l = LWExit id vals) \/ nth_error (ws s') id = Some w) /\
  (forall k w, mpc s = MInit k -> nth_error (ws s) k = Some w -> wpc w = WIdle).
Proof.
  intros R. destruct (reach_Inv12 _ _ _ _ _ R) as [I1 _]. split.
  - intros id w Ew Epc. split.
    + pose proof (i1_w _ _ I1 _ _ Ew) as W. pose proof (wok_started _ _ _ _ W ltac:(congruence)) as Hid.
      destruct W as (_ & W2 & _). specialize (W2 Hid). rewrite Epc in W2. auto.
    + intros l s' HS. eapply in_model_stable; eauto.
  - intros k w Em Ew. pose proof (i1_w _ _ I1 _ _ Ew) as (W1 & _). rewrite Em in W1. rewrite W1; cbn; auto.
Qed.

Lemma no_stuck_stmt hc cfg L0 n0 s :
  reachable hc cfg L0 n0 s -> final s = true \/ exists l, spurious l = false /\ step hc cfg s l <> None.
Proof. intros R. destruct (reach_Inv12 _ _ _ _ _ R) as [I1 I2]. apply no_stuck; auto. Qed.

(* the two "no lost wake-up" facts, and: running jobs imply a computing worker or a published result *)
Lemma no_lost_wakeup hc cfg L0 n0 s :
  reachable hc cfg L0 n0 s ->
  (forall id w, nth_error (ws s) id = Some w -> wpc w = WSleep -> wflag w <> FDone ->
     (exists k, mpc s = MCollect k) \/ mpc s = MNotify) /\
  (mpc s = MSleep -> 0 < count_done s -> exists id w, nth_error (ws s) id = Some w /\ wpc w = WNotify) /\
  (ninit cfg (mpc s) = nj cfg -> lock_free s = true -> 0 < nrun (mgr s) ->
     0 < count_done s \/ exists id w, nth_error (ws s) id = Some w /\ wflag w = FComputing).
Proof.
  intros R. destruct (reach_Inv12 _ _ _ _ _ R) as [I1 I2]. split; [|split].
  - intros id w Ew Epc Hf. pose proof (i1_w _ _ I1 _ _ Ew) as W. pose proof (wok_started _ _ _ _ W ltac:(congruence)) as Hid.
    destruct W as (_ & W2 & _). specialize (W2 Hid). rewrite Epc in W2. specialize (W2 Hf).
    unfold notify_pending in W2. destruct (mpc s); try discriminate; eauto.
  - apply I2.
  - intros Hn Hlf Hpos. rewrite (i1_nrun _ _ I1) in Hpos. destruct (sumf_pos _ _ Hpos) as (id & w & Ew & Ha).
    pose proof (i1_w _ _ I1 _ _ Ew) as (W1 & W2 & _).
    unfold actx in Ha. destruct (wactive w) eqn:Eact; [|lia].
    assert (Hid : id < ninit cfg (mpc s)).
    { destruct (Nat.lt_ge_cases id (ninit cfg (mpc s))); auto. rewrite (W1 H) in Ha. cbn in Ha. lia. }
    specialize (W2 Hid). unfold wactive in Eact. destruct (wflag w) eqn:Ef; try discriminate.
    + left. assert (Hd : wdone w = true).
      { unfold wdone. rewrite Ef. destruct (wpc w); auto. congruence. }
      assert (Hcs : in_cs (mpc s) = false) by (unfold lock_free in Hlf; unfold in_cs; destruct (mpc s); congruence).
      rewrite (i2_out _ I2 Hcs), count_flag_done_sumf.
      pose proof (sumf_ge (fun w => if wdone w then 1 else 0) _ _ _ Ew) as Hge. cbn in Hge. rewrite Hd in Hge. lia.
    + right. eauto.
Qed.

Lemma shutdown_all hc cfg L0 n0 s :
  reachable hc cfg L0 n0 s ->
  (mpc s = MFlush \/ mpc s = MJoin \/ mpc s = MExit -> forall id w, nth_error (ws s) id = Some w -> wflag w = FShutdown) /\
  (mpc s = MExit -> forall id w, nth_error (ws s) id = Some w -> wpc w = WIdle \/ wpc w = WFinished).
Proof.
  intros R. destruct (reach_Inv12 _ _ _ _ _ R) as [I1 _]. split.
  - intros Hm id w Ew. apply (i1_w _ _ I1 _ _ Ew). destruct Hm as [-> | [-> | ->]]; reflexivity.
  - intros Hm id w Ew. pose proof (i1_w _ _ I1 _ _ Ew) as (_ & _ & _ & W4 & _). specialize (W4 Hm).
    unfold wstopped in W4. destruct (wpc w); auto; discriminate.
Qed.

Lemma queue_stmt n nt q :
  qreachable n nt q ->
  NoDup (map snd (qlog q)) /\ (forall i, In i (map snd (qlog q)) -> i < n) /\
  (0 < nt -> qfinished q = true -> forall i, i < n -> In i (map snd (qlog q))).
Proof.
  intros R. pose proof (reach_QInv _ _ _ R) as I. split; [apply I|]. split.
  - eapply queue_in_range; eauto.
  - intros Hnt Hfin. eapply queue_all_checked; eauto.
Qed.

(* ------------------------------------------------------------------------------------------------ *)
(** * witnesses: H-CAND is necessary; the unguarded launch loop exceeds the budget *)

(* 1 worker, budget 5; after point 1 is loaded the candidate oracle returns it again (violating H-CAND) *)
Definition cfg1 : config := mkCfg 1 1 5 true.
Definition trace_twice : list label :=
  [LStart [1]; LInitJob; LInitEnd; LWEnter 0; LWExit 0 [10]; LWDone 0; LMTest; LMLock; LMCollect true [1] []].
Lemma needs_hcand_witness :
  exists cfg L0 n0 s, reachable false cfg L0 n0 s /\ handed s = [1; 1].
Proof.
  exists cfg1, [], 0.
  destruct (run false cfg1 (init cfg1 [] 0) trace_twice) as [s|] eqn:E; [|vm_compute in E; discriminate].
  exists s. split; [eapply run_reachable; [apply reach_init | exact E]|].
  vm_compute in E. inversion E. reflexivity.
Qed.


(* 3 workers, budget 1, no test in the launch loop *)
Definition cfg_unguarded : config := mkCfg 3 1 1 false.
Lemma budget_refuted_witness :
  exists cfg L0 n0 s, guarded cfg = false /\ reachable true cfg L0 n0 s /\ Nat.max (maxpts cfg) n0 < launched s.
Proof.
  exists cfg_unguarded, [], 0.
  destruct (run true cfg_unguarded (init cfg_unguarded [] 0) [LStart [1; 2; 3]; LInitJob; LInitJob; LInitJob]) as [s|] eqn:E;
    [|vm_compute in E; discriminate].
  exists s. split; [reflexivity|]. split; [eapply run_reachable; [apply reach_init | exact E]|].
  vm_compute in E. inversion E. cbn. lia.
Qed.

