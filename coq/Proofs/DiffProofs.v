(* C05: the derivative functions of the RuleLocal model are the formal derivatives of its evaluation functions
   (exact Taylor identities with explicit polynomial remainders, over Q, no analysis library), the left/right-product
   algorithm of diffPWPower is the formal derivative of the Lagrange product for ANY node list, chain rule through the
   scaled coordinate and through the affine domain transform, product rule across dimensions (unbounded d),
   linearity over the hierarchical sum. *)
From TV Require Import Common.Prelude Model.RuleLocal Model.Diff Proofs.RuleLocalProofs.
From Coq Require Import QArith Qabs Lqa Field.
Local Open Scope Q_scope.

(* ------------------------------------------------------------------------------------------------------------ *)
(* 1. quadratic and cubic pieces: all rules, all point classes, no side condition *)

Lemma quadratic_taylor r p x h :
  evalPWQuadratic r p (x + h) == evalPWQuadratic r p x + h * diffPWQuadratic r p x + h * h * rem_quadratic r p x h.
Proof.
  destruct r; unfold evalPWQuadratic, diffPWQuadratic, rem_quadratic, pw_quadratic_interior;
    repeat match goal with |- context [if ?c then _ else _] => destruct c end; ring.
Qed.

Lemma cubic_generic_taylor p x h :
  cubic_generic p (x + h) == cubic_generic p x + h * dcubic_generic p x + h * h * rem_cubic_generic p x h.
Proof.
  unfold cubic_generic, dcubic_generic, rem_cubic_generic, pw_cubic_even, pw_cubic_odd.
  destruct (Z.rem p 2 =? 0)%Z; field.
Qed.

Lemma cubic_taylor r p x h :
  evalPWCubic r p (x + h) == evalPWCubic r p x + h * diffPWCubic r p x + h * h * rem_cubic r p x h.
Proof.
  destruct r; unfold evalPWCubic, diffPWCubic, rem_cubic, pw_quadratic_interior;
    repeat match goal with |- context [if ?c then _ else _] => destruct c end;
    try apply cubic_generic_taylor; ring.
Qed.

(* ------------------------------------------------------------------------------------------------------------ *)
(* 2. the generic Lagrange product *)

Lemma prodl_taylor ns x h : prodl (x + h) ns == prodl x ns + h * dprodl x ns + h * h * rprodl x h ns.
Proof.
  induction ns as [|n r IH]; cbn [prodl dprodl rprodl]; [ring|]. rewrite IH. ring.
Qed.

Lemma Qinv_opp' n : / (- n) == - / n.
Proof. destruct n as [[|p|p] d]; reflexivity. Qed.

Lemma factor_form x n : - (x - n) / n == (x - n) * (1 / - n).
Proof. unfold Qdiv. rewrite Qinv_opp'. ring. Qed.

Lemma lagcoef_fold ns c : fold_left (fun c n => c * (1 / (- n))) ns c == c * lagc ns.
Proof.
  revert c; induction ns as [|n r IH]; intros c; cbn [fold_left lagc]; [ring|]. rewrite IH. ring.
Qed.

Lemma lagcoef_lagc ns : lagcoef ns == lagc ns.
Proof. unfold lagcoef. rewrite lagcoef_fold. ring. Qed.

Lemma power_fold ns x v :
  fold_left (fun value node => value * (- (x - node) / node)) ns v == v * prodl x ns * lagc ns.
Proof.
  revert v; induction ns as [|n r IH]; intros v; cbn [fold_left prodl lagc]; [ring|].
  rewrite IH, factor_form. ring.
Qed.

Lemma power_eval_formal ns x : power_eval ns x == (1 - x) * (1 + x) * prodl x ns * lagc ns.
Proof. unfold power_eval. apply power_fold. Qed.

(* the formal derivative satisfies the Taylor identity, for every node list (no condition on the nodes) *)
Lemma power_formal_taylor ns x h :
  power_eval ns (x + h) == power_eval ns x + h * power_diff_formal ns x + h * h * rem_power_nodes ns x h.
Proof.
  rewrite !power_eval_formal. unfold power_diff_formal, rem_power_nodes. rewrite prodl_taylor. ring.
Qed.

(* ---- the left/right-product algorithm computes the formal derivative ---- *)
Lemma left_prods_length x ns acc : length (left_prods x ns acc) = length ns.
Proof. revert acc; induction ns as [|n r IH]; intros acc; cbn; [reflexivity|]. rewrite IH. reflexivity. Qed.

Lemma diff_accum_app x a b a' b' rp d : length a = length b ->
  diff_accum x (a ++ a') (b ++ b') rp d =
  diff_accum x a' b' (fst (diff_accum x a b rp d)) (snd (diff_accum x a b rp d)).
Proof.
  revert b rp d; induction a as [|n a IH]; intros [|l b] rp d L; cbn in L; try discriminate.
  - cbn. destruct a', b'; reflexivity.
  - cbn [app diff_accum]. apply IH. congruence.
Qed.

Lemma diff_accum_wd x rn : forall rl rp rp' d d', rp == rp' -> d == d' ->
  fst (diff_accum x rn rl rp d) == fst (diff_accum x rn rl rp' d') /\
  snd (diff_accum x rn rl rp d) == snd (diff_accum x rn rl rp' d').
Proof.
  induction rn as [|n rn IH]; intros [|l rl] rp rp' d d' E1 E2; cbn; try (split; assumption).
  apply IH; [rewrite E1; reflexivity | rewrite E1, E2; reflexivity].
Qed.

Lemma tl_app_nonempty {A} (l m : list A) : l <> [] -> tl (l ++ m) = tl l ++ m.
Proof. destruct l; [congruence|reflexivity]. Qed.

Lemma power_alg_core x : forall nodes acc, nodes <> [] ->
  let lp := left_prods x nodes acc in
  let res := diff_accum x (removelast (rev nodes)) (tl (rev lp)) 1 (last lp 1) in
  fst res == prodl x (tl nodes) /\ snd res == acc * dprodl x nodes.
Proof.
  induction nodes as [|n r IH]; intros acc NE; [congruence|].
  destruct r as [|n2 r2].
  - cbn. split; ring.
  - assert (NE2 : n2 :: r2 <> []) by discriminate.
    specialize (IH (acc * (x - n)) NE2). cbn zeta in IH |- *.
    set (r := n2 :: r2) in *.
    set (lpr := left_prods x r (acc * (x - n))) in *.
    assert (Hlpr : lpr <> []).
    { intro E. apply (f_equal (@length Q)) in E. unfold lpr in E. rewrite left_prods_length in E. discriminate. }
    change (left_prods x (n :: r) acc) with (acc :: lpr).
    rewrite last_cons_default. rewrite (last_nonempty_default lpr acc 1 Hlpr).
    change (rev (n :: r)) with (rev r ++ [n]). rewrite removelast_last.
    change (rev (acc :: lpr)) with (rev lpr ++ [acc]).
    rewrite tl_app_nonempty.
    2:{ intro E. apply (f_equal (@rev Q)) in E. rewrite rev_involutive in E. cbn in E. contradiction. }
    assert (Hr : rev r = rev r2 ++ [n2]) by reflexivity.
    assert (Hrl : removelast (rev r) = rev r2) by (rewrite Hr; apply removelast_last).
    rewrite Hrl in IH. rewrite Hr.
    rewrite diff_accum_app.
    2:{ rewrite rev_length. destruct (rev lpr) eqn:E.
        - exfalso. apply (f_equal (@rev Q)) in E. rewrite rev_involutive in E. cbn in E. contradiction.
        - apply (f_equal (@length Q)) in E. rewrite rev_length in E. unfold lpr in E. rewrite left_prods_length in E.
          cbn in E |- *. lia. }
    destruct IH as [I1 I2].
    set (F := fst (diff_accum x (rev r2) (tl (rev lpr)) 1 (last lpr 1))) in *.
    set (S := snd (diff_accum x (rev r2) (tl (rev lpr)) 1 (last lpr 1))) in *.
    cbn [diff_accum fst snd tl]. change (tl r) with r2 in I1.
    change (prodl x r) with ((x - n2) * prodl x r2).
    change (dprodl x (n :: r)) with (prodl x r + (x - n) * dprodl x r).
    change (prodl x r) with ((x - n2) * prodl x r2).
    split.
    + rewrite I1. ring.
    + rewrite I1, I2. ring.
Qed.

Lemma power_alg_formal ns x : ns <> [] -> power_diff_alg ns x == power_diff_formal ns x.
Proof.
  intros NE. unfold power_diff_alg, power_diff_formal.
  destruct (rev ns) as [|ln rr] eqn:Er.
  { exfalso. apply (f_equal (@rev Q)) in Er. rewrite rev_involutive in Er. cbn in Er. contradiction. }
  rewrite <- Er.
  pose proof (power_alg_core x ns 1 NE) as H. cbn zeta in H.
  destruct (diff_accum x (removelast (rev ns)) (tl (rev (left_prods x ns 1))) 1 (last (left_prods x ns 1) 1)) as [rp dv].
  cbn [fst snd] in H. destruct H as [H1 H2].
  rewrite lagcoef_fold, H1, H2.
  destruct ns as [|n0 r]; [congruence|]. cbn [hd tl prodl]. ring.
Qed.

(* c05_power_product_rule: the algorithm of diffPWPower, on ANY non-empty node list, is the derivative of evalPWPower's product *)
Theorem power_product_rule ns x h : ns <> [] ->
  power_eval ns (x + h) == power_eval ns x + h * power_diff_alg ns x + h * h * rem_power_nodes ns x h.
Proof. intros NE. rewrite (power_alg_formal ns x NE). apply power_formal_taylor. Qed.

(* the model's evalPWPower / diffPWPower are these functions on the phantom node list *)
Lemma evalPWPower_nodes r o p x :
  evalPWPower r o p x = if uses_cubic r p then evalPWCubic r p x else power_eval (power_nodes r o p) x.
Proof. reflexivity. Qed.
Lemma diffPWPower_nodes r o p x :
  diffPWPower r o p x = if uses_cubic r p then diffPWCubic r p x else power_diff_alg (power_nodes r o p) x.
Proof. reflexivity. Qed.

Lemma phantom_nodes_nonempty r p n mt pd : (0 < n)%nat -> phantom_nodes r p n mt pd <> [].
Proof. destruct n; [lia|]. cbn. discriminate. Qed.

Theorem power_taylor r o p x h : (uses_cubic r p = true \/ (1 <= max_ancestors r o p)%Z) ->
  evalPWPower r o p (x + h) == evalPWPower r o p x + h * diffPWPower r o p x + h * h * rem_power r o p x h.
Proof.
  intros H. rewrite !evalPWPower_nodes, diffPWPower_nodes. unfold rem_power.
  destruct (uses_cubic r p) eqn:U; [apply cubic_taylor|].
  destruct H as [H|H]; [discriminate|].
  apply power_product_rule. apply phantom_nodes_nonempty. lia.
Qed.

(* for every point that reaches the generic product and every admissible order there is at least one ancestor *)
Lemma log2_ge k n : (0 < k)%Z -> (2 ^ k <= n)%Z -> (k <= Z.log2 n)%Z.
Proof.
  intros Hk H. apply Z.log2_le_pow2; lia.
Qed.

Lemma max_ancestors_pos r o p : r <> Pwc -> uses_cubic r p = false -> (4 <= o \/ o <= 0)%Z ->
  (1 <= max_ancestors r o p)%Z.
Proof.
  intros Hr U Ho. unfold max_ancestors, getLevel, intlog2.
  destruct r; try congruence; cbn [uses_cubic] in U.
  - assert (8 < p)%Z by lia.
    assert (p =? 0 = false)%Z as -> by lia. assert (p =? 1 = false)%Z as -> by lia. assert (p - 1 <=? 0 = false)%Z as -> by lia.
    pose proof (log2_ge 3 (p - 1) ltac:(lia) ltac:(cbn; lia)).
    destruct (0 <? o)%Z eqn:E; lia.
  - assert (4 < p)%Z by lia.
    assert (p =? 0 = false)%Z as -> by lia. assert (p =? 1 = false)%Z as -> by lia. assert (p - 1 <=? 0 = false)%Z as -> by lia.
    pose proof (log2_ge 2 (p - 1) ltac:(lia) ltac:(cbn; lia)).
    destruct (0 <? o)%Z eqn:E; lia.
  - assert (2 < p)%Z by lia.
    assert (p + 1 <=? 0 = false)%Z as -> by lia.
    pose proof (log2_ge 2 (p + 1) ltac:(lia) ltac:(cbn; lia)).
    destruct (0 <? o)%Z eqn:E; lia.
  - assert (4 < p)%Z by lia.
    assert (p <=? 1 = false)%Z as -> by lia. assert (p - 1 <=? 0 = false)%Z as -> by lia.
    pose proof (log2_ge 2 (p - 1) ltac:(lia) ltac:(cbn; lia)).
    destruct (0 <? o)%Z eqn:E; lia.
Qed.

(* ------------------------------------------------------------------------------------------------------------ *)
(* 3. the basis function in the scaled coordinate, all orders *)

Definition power_ok (r : erule) (o p : Z) : Prop := uses_cubic r p = true \/ (1 <= max_ancestors r o p)%Z.

Lemma power_ok_admissible r o p : r <> Pwc -> (4 <= o \/ o <= 0)%Z -> power_ok r o p.
Proof.
  intros Hr Ho. unfold power_ok. destruct (uses_cubic r p) eqn:U; [left; reflexivity|right].
  apply max_ancestors_pos; assumption.
Qed.

Lemma scaled_taylor r o p xn k :
  (o = 1%Z -> same_side xn (xn + k)) ->
  ((o <> 1 /\ o <> 2 /\ o <> 3)%Z -> power_ok r o p) ->
  eval_scaled r o p (xn + k) == eval_scaled r o p xn + k * diff_scaled r o p xn 1 + k * k * rem_scaled r o p xn k.
Proof.
  intros H1 HP. unfold eval_scaled, diff_scaled, rem_scaled.
  destruct (o =? 1)%Z eqn:E1.
  { assert (o = 1%Z) as Ho by lia. specialize (H1 Ho). destruct H1 as [[A B]|[A B]].
    - rewrite (Qabs_pos xn A), (Qabs_pos (xn + k) B).
      assert (Qle_bool 0 xn = true) as -> by (apply Qle_bool_iff; exact A). ring.
    - rewrite (Qabs_neg xn) by lra. rewrite (Qabs_neg (xn + k) B).
      assert (Qle_bool 0 xn = false) as ->.
      { destruct (Qle_bool 0 xn) eqn:E; [|reflexivity]. apply Qle_bool_iff in E. lra. }
      ring. }
  destruct (o =? 2)%Z eqn:E2; [rewrite quadratic_taylor; ring|].
  destruct (o =? 3)%Z eqn:E3; [rewrite cubic_taylor; ring|].
  rewrite power_taylor; [ring|]. apply HP. lia.
Qed.

Lemma diff_scaled_an r o p xn an : diff_scaled r o p xn an == an * diff_scaled r o p xn 1.
Proof. unfold diff_scaled. repeat match goal with |- context [if ?c then _ else _] => destruct c end; ring. Qed.

(* the evaluation functions respect equality of rationals *)
Lemma fold_power_wd ns : forall x y v w, x == y -> v == w ->
  fold_left (fun value node => value * (- (x - node) / node)) ns v ==
  fold_left (fun value node => value * (- (y - node) / node)) ns w.
Proof.
  induction ns as [|n r IH]; intros x y v w E1 E2; cbn [fold_left]; [exact E2|].
  apply IH; [exact E1|]. rewrite E1, E2. reflexivity.
Qed.

Lemma eval_scaled_wd r o p x y : x == y -> eval_scaled r o p x == eval_scaled r o p y.
Proof.
  intros E. unfold eval_scaled.
  destruct (o =? 1)%Z; [rewrite E; reflexivity|].
  destruct (o =? 2)%Z.
  { destruct r; unfold evalPWQuadratic, pw_quadratic_interior;
      repeat match goal with |- context [if ?c then _ else _] => destruct c end; rewrite E; reflexivity. }
  assert (C : evalPWCubic r p x == evalPWCubic r p y).
  { destruct r; unfold evalPWCubic, cubic_generic, pw_cubic_even, pw_cubic_odd, pw_quadratic_interior;
      repeat match goal with |- context [if ?c then _ else _] => destruct c end; rewrite ?E; reflexivity. }
  destruct (o =? 3)%Z; [exact C|].
  unfold evalPWPower. destruct (uses_cubic r p); [exact C|].
  apply fold_power_wd; [exact E|]. rewrite E. reflexivity.
Qed.

(* ------------------------------------------------------------------------------------------------------------ *)
(* 4. chain rule through the scaled coordinate *)

Ltac qsimp := cbn -[Qplus Qmult Qminus Qdiv Qeq Qopp Qinv]; unfold zq, inject_Z.

Lemma chain_scale r p x h : scaled_point r p -> scaleX r p (x + h) == scaleX r p x + h * scaleDiffX r p.
Proof.
  destruct r; cbn [scaled_point]; intros Hp; try contradiction; unfold scaleX, scaleDiffX.
  - destruct (Z.eq_dec p 1) as [->|N1]; [qsimp; ring|]. destruct (Z.eq_dec p 2) as [->|N2]; [qsimp; ring|].
    assert (p =? 0 = false)%Z as -> by lia. assert (p =? 1 = false)%Z as -> by lia. assert (p =? 2 = false)%Z as -> by lia.
    assert (p <=? 2 = false)%Z as -> by lia. ring.
  - ring.
  - destruct (Z.eq_dec p 0) as [->|N0]; [qsimp; ring|].
    assert (p =? 0 = false)%Z as -> by lia. ring.
  - destruct (Z.eq_dec p 0) as [->|N0]; [qsimp; field|]. destruct (Z.eq_dec p 1) as [->|N1]; [qsimp; field|].
    destruct (Z.eq_dec p 2) as [->|N2]; [qsimp; ring|].
    assert (p =? 0 = false)%Z as -> by lia. assert (p =? 1 = false)%Z as -> by lia. assert (p =? 2 = false)%Z as -> by lia.
    assert (p <=? 1 = false)%Z as -> by lia. ring.
Qed.

(* the factor of the chain rule is the reciprocal of the support radius *)
Lemma scaleDiffX_support r p : scaled_point r p -> scaleDiffX r p == 1 / getSupport r p.
Proof.
  intros Hs. pose proof (getSupport_pos r p Hs) as Hp.
  pose proof (chain_scale r p 0 1 Hs) as C. rewrite !(scaleX_affine r p _ Hs) in C.
  assert (E : scaleDiffX r p == (0 + 1 - getNode r p) / getSupport r p - (0 - getNode r p) / getSupport r p) by (rewrite C; ring).
  rewrite E. field. lra.
Qed.

(* the basis function phi(x) = eval_scaled (scaleX x) and the value diffSupport returns, as functions of the grid coordinate *)
Theorem basis_taylor r o p x h : scaled_point r p ->
  (o = 1%Z -> same_side (scaleX r p x) (scaleX r p (x + h))) ->
  ((o <> 1 /\ o <> 2 /\ o <> 3)%Z -> power_ok r o p) ->
  eval_scaled r o p (scaleX r p (x + h)) ==
  eval_scaled r o p (scaleX r p x) + h * diff_scaled r o p (scaleX r p x) (scaleDiffX r p) + h * h * basis_rem r o p x h.
Proof.
  intros Hs H1 HP. pose proof (chain_scale r p x h Hs) as C.
  rewrite (eval_scaled_wd r o p _ _ C).
  rewrite scaled_taylor; [| |exact HP].
  - rewrite (diff_scaled_an r o p _ (scaleDiffX r p)). unfold basis_rem. ring.
  - intros Ho. specialize (H1 Ho). unfold same_side in *. rewrite <- C. exact H1.
Qed.

(* ... and on the model's evalRaw / diffSupport themselves (the functions tied to the C++ by correspondence):
   x and x+h inside the support, x not the right end of the domain (interior point) *)
Lemma evalRaw_inside r o p x : scaled_point r p -> Qabs_le_1 (scaleX r p x) = true ->
  evalRaw r o p x = eval_scaled r o p (scaleX r p x).
Proof.
  destruct r; cbn [scaled_point]; intros Hp Hin; try contradiction; unfold evalRaw.
  - assert (p =? 0 = false)%Z as -> by lia. rewrite Hin. reflexivity.
  - assert (p =? 0 = false)%Z as -> by lia. assert (p =? 1 = false)%Z as -> by lia. assert (p =? 2 = false)%Z as -> by lia.
    rewrite Hin. reflexivity.
  - rewrite Hin. reflexivity.
  - rewrite Hin. reflexivity.
Qed.

Lemma diffSupport_inside r o p x : scaled_point r p -> order_ok r o -> ~ x == 1 ->
  diff_supported x (scaleX r p x) = true ->
  diffSupport r o p x = (diff_scaled r o p (scaleX r p x) (scaleDiffX r p), true).
Proof.
  intros Hs Ho Hx Hin.
  assert (Qeq_bool x 1 = false) as Hq.
  { destruct (Qeq_bool x 1) eqn:E; [|reflexivity]. apply Qeq_bool_iff in E. contradiction. }
  destruct r; cbn [scaled_point order_ok] in Hs, Ho; try contradiction; unfold diffSupport.
  - assert (p =? 0 = false)%Z as -> by lia. rewrite Hin, Hq. rewrite andb_false_r. reflexivity.
  - assert (p =? 0 = false)%Z as -> by lia. assert (p =? 1 = false)%Z as -> by lia. assert (p =? 2 = false)%Z as -> by lia.
    rewrite Hin. unfold diff_scaled. assert (o =? 1 = false)%Z as -> by lia. reflexivity.
  - rewrite Hin, Hq. rewrite andb_false_r. reflexivity.
  - rewrite Hin. reflexivity.
Qed.

Theorem local_1d r o p x h : scaled_point r p -> order_ok r o -> ~ x == 1 ->
  Qabs_le_1 (scaleX r p x) = true -> Qabs_le_1 (scaleX r p (x + h)) = true ->
  diff_supported x (scaleX r p x) = true ->
  (o = 1%Z -> same_side (scaleX r p x) (scaleX r p (x + h))) ->
  snd (diffSupport r o p x) = true /\
  evalRaw r o p (x + h) == evalRaw r o p x + h * fst (diffSupport r o p x) + h * h * basis_rem r o p x h.
Proof.
  intros Hs Ho Hx Hi1 Hi2 Hd H1.
  rewrite (diffSupport_inside r o p x Hs Ho Hx Hd). cbn [fst snd]. split; [reflexivity|].
  rewrite (evalRaw_inside r o p x Hs Hi1), (evalRaw_inside r o p (x + h) Hs Hi2).
  apply basis_taylor; [exact Hs|exact H1|].
  intros [N1 [N2 N3]]. apply power_ok_admissible; [destruct r; cbn in Hs; try contradiction; discriminate|lia].
Qed.

(* the points that are not evaluated through the scaled coordinate: the constant and the two global quadratics of the
   semi-local rule *)
Lemma local_1d_special r o p x h :
  ((r = Localp \/ r = Semilocalp) /\ p = 0%Z) \/ (r = Semilocalp /\ (p = 1 \/ p = 2)%Z) ->
  snd (diffSupport r o p x) = true /\
  evalRaw r o p (x + h) == evalRaw r o p x + h * fst (diffSupport r o p x) + h * h * (if (p =? 0)%Z then 0 else 1 # 2).
Proof.
  intros [[[-> | ->] ->] | [-> [-> | ->]]]; cbn; (split; [reflexivity|ring]).
Qed.

(* ------------------------------------------------------------------------------------------------------------ *)
(* 5. product rule across dimensions: diffBasisSupported, unbounded number of dimensions *)

Lemma mul_except_length k f dv j : length (mul_except k f dv j) = length dv.
Proof. revert j; induction dv as [|v r IH]; intros j; cbn; [reflexivity|]. rewrite IH. reflexivity. Qed.

Lemma nth_mul_except k f : forall dv o j, (j < length dv)%nat ->
  nth j (mul_except k f dv o) 0 = if Nat.eqb (o + j) k then nth j dv 0 else nth j dv 0 * f.
Proof.
  induction dv as [|v r IH]; intros o j L; cbn in L; [lia|].
  destruct j as [|j]; cbn [mul_except nth].
  - rewrite Nat.add_0_r. reflexivity.
  - rewrite IH by lia. replace (S o + j)%nat with (o + S j)%nat by lia. reflexivity.
Qed.

Fixpoint skipprod (fs : list Q) (k j : nat) : Q :=
  match fs with [] => 1 | f :: r => (if Nat.eqb k j then 1 else f) * skipprod r (S k) j end.

Lemma grad_pass1_length fs : forall k dv, length (grad_pass1 fs k dv) = length dv.
Proof. induction fs as [|f r IH]; intros k dv; cbn; [reflexivity|]. rewrite IH. apply mul_except_length. Qed.

Lemma nth_grad_pass1 fs : forall k dv j, (j < length dv)%nat ->
  nth j (grad_pass1 fs k dv) 0 == nth j dv 0 * skipprod fs k j.
Proof.
  induction fs as [|f r IH]; intros k dv j L; cbn [grad_pass1 skipprod]; [ring|].
  rewrite IH by (rewrite mul_except_length; exact L).
  rewrite nth_mul_except by exact L. cbn [Nat.add]. rewrite (Nat.eqb_sym j k).
  destruct (Nat.eqb k j); ring.
Qed.

Lemma skipprod_past fs : forall k j, (j < k)%nat -> skipprod fs k j == prodQ fs.
Proof.
  induction fs as [|f r IH]; intros k j L; cbn [skipprod prodQ]; [reflexivity|].
  assert (Nat.eqb k j = false) as -> by (apply Nat.eqb_neq; lia). rewrite IH by lia. reflexivity.
Qed.

Lemma skipprod_set fs : forall k j, (k <= j < k + length fs)%nat -> skipprod fs k j == prodQ (set_nth (j - k) fs 1).
Proof.
  induction fs as [|f r IH]; intros k j L; cbn in L; [lia|]. cbn [skipprod].
  destruct (Nat.eqb k j) eqn:E.
  - apply Nat.eqb_eq in E. subst j. rewrite Nat.sub_diag. cbn [set_nth prodQ]. rewrite skipprod_past by lia. reflexivity.
  - apply Nat.eqb_neq in E. replace (j - k)%nat with (S (j - S k)) by lia. cbn [set_nth prodQ]. rewrite IH by lia. reflexivity.
Qed.

Lemma nth_map2_mult : forall (a b : list Q) j, (j < length a)%nat -> (j < length b)%nat ->
  nth j (map2 Qmult a b) 0 = nth j a 0 * nth j b 0.
Proof.
  induction a as [|x a IH]; intros [|y b] j La Lb; cbn in La, Lb; try lia.
  destruct j; cbn; [reflexivity|]. apply IH; lia.
Qed.

Lemma nth_repeat_one n j : (j < n)%nat -> nth j (repeat 1 n) 0 = 1.
Proof. revert j; induction n; intros j L; [lia|]. destruct j; cbn; [reflexivity|]. apply IHn. lia. Qed.

(* what diffBasisSupported leaves in diff_values[k]: the derivative of factor k times the product of the other factors *)
Lemma grad_accum_nth fs dfs k : length dfs = length fs -> (k < length fs)%nat ->
  nth k (grad_accum fs dfs) 0 == prodQ (set_nth k fs 1) * nth k dfs 0.
Proof.
  intros L Hk. unfold grad_accum.
  rewrite nth_map2_mult; [|rewrite grad_pass1_length, repeat_length; exact Hk|lia].
  rewrite nth_grad_pass1 by (rewrite repeat_length; exact Hk).
  rewrite nth_repeat_one by exact Hk. rewrite skipprod_set by lia. rewrite Nat.sub_0_r. ring.
Qed.

Lemma prodQ_set fs : forall k v, (k < length fs)%nat -> prodQ (set_nth k fs v) == prodQ (set_nth k fs 1) * v.
Proof.
  induction fs as [|f r IH]; intros k v L; cbn in L; [lia|].
  destruct k; cbn [set_nth prodQ]; [ring|]. rewrite IH by lia. ring.
Qed.

Lemma set_nth_same fs : forall k, set_nth k fs (nth k fs 0) = fs.
Proof.
  induction fs as [|f r IH]; intros k; [destruct k; reflexivity|].
  destruct k; cbn; [reflexivity|]. rewrite IH. reflexivity.
Qed.

(* moving the k-th coordinate by h changes only factor k; if that factor obeys its Taylor identity with derivative
   dfs[k] then the tensor product obeys the Taylor identity with the k-th entry of diff_values *)
Theorem product_rule fs dfs k h fk' ck : length dfs = length fs -> (k < length fs)%nat ->
  fk' == nth k fs 0 + h * nth k dfs 0 + h * h * ck ->
  prodQ (set_nth k fs fk') == prodQ fs + h * nth k (grad_accum fs dfs) 0 + h * h * (ck * prodQ (set_nth k fs 1)).
Proof.
  intros L Hk T. rewrite grad_accum_nth by assumption.
  rewrite (prodQ_set fs k fk' Hk).
  assert (E : prodQ fs == prodQ (set_nth k fs 1) * nth k fs 0).
  { rewrite <- (prodQ_set fs k (nth k fs 0) Hk). rewrite set_nth_same. reflexivity. }
  rewrite E, T. ring.
Qed.

(* ------------------------------------------------------------------------------------------------------------ *)
(* 6. linearity over the hierarchical sum (walkTree mode 0 vs mode 3) *)

Lemma hsum_fold terms : forall y, fold_left (fun y sb => y + snd sb * fst sb) terms y ==
  y + fold_right (fun sb acc => snd sb * fst sb + acc) 0 terms.
Proof.
  induction terms as [|t r IH]; intros y; cbn [fold_left fold_right]; [ring|]. rewrite IH. ring.
Qed.

(* terms: (surplus, basis at x, basis at x+h, basis derivative, remainder) *)
Theorem hier_linear (terms : list (Q * (Q * Q * Q * Q))) h :
  Forall (fun t => let '(s, (b, b', d, c)) := t in b' == b + h * d + h * h * c) terms ->
  hsum (map (fun t => let '(s, (b, b', d, c)) := t in (s, b')) terms) ==
  hsum (map (fun t => let '(s, (b, b', d, c)) := t in (s, b)) terms)
  + h * hsum (map (fun t => let '(s, (b, b', d, c)) := t in (s, d)) terms)
  + h * h * hsum (map (fun t => let '(s, (b, b', d, c)) := t in (s, c)) terms).
Proof.
  unfold hsum. rewrite !hsum_fold.
  induction 1 as [|t r Ht Hr IH]; cbn [map fold_right]; [ring|].
  destruct t as [s [[[b b'] d] c]]. cbn [fst snd] in *.
  assert (E : forall A B C D A' B' C' D' : Q, 0 + A' == 0 + B' + h * (0 + C') + h * h * (0 + D') -> A == B + h * C + h * h * D ->
              0 + (A * s + A') == 0 + (B * s + B') + h * (0 + (C * s + C')) + h * h * (0 + (D * s + D'))).
  { intros A B C D A' B' C' D' E1 E2.
    assert (E1' : A' == B' + h * C' + h * h * D') by (rewrite <- (Qplus_0_l A'), E1; ring).
    rewrite E1', E2. ring. }
  apply E; [exact IH|exact Ht].
Qed.

(* ------------------------------------------------------------------------------------------------------------ *)
(* 7. chain rule through the affine domain transform *)

Theorem transform_chain (F F' : Q -> Q) (R : Q -> Q -> Q) rate shift :
  (forall u v, u == v -> F u == F v) ->
  (forall u k, F (u + k) == F u + k * F' u + k * k * R u k) ->
  forall y h, F (canon rate shift (y + h)) ==
              F (canon rate shift y) + h * (F' (canon rate shift y) * rate)
              + h * h * (rate * rate * R (canon rate shift y) (h * rate)).
Proof.
  intros WD T y h.
  assert (E : canon rate shift (y + h) == canon rate shift y + h * rate) by (unfold canon; ring).
  rewrite (WD _ _ E), T. ring.
Qed.

(* the code's rate/shift and Jacobian factor: same number, and the map sends [a,b] onto [-1,1] *)
Lemma linear_transform_facts a b : ~ b - a == 0 ->
  linear_jac a b == linear_rate a b /\
  canon (linear_rate a b) (linear_shift a b) a == -1 /\ canon (linear_rate a b) (linear_shift a b) b == 1.
Proof.
  intros N. unfold linear_jac, linear_rate, linear_shift, canon. split; [reflexivity|]. split; field; exact N.
Qed.

Lemma fourier_transform_facts a b y : ~ b - a == 0 ->
  fourier_canon a b y == canon (fourier_jac a b) (a / (b - a)) y /\ fourier_canon a b a == 0 /\ fourier_canon a b b == 1.
Proof.
  intros N. unfold fourier_canon, fourier_jac, canon. split; [field; exact N|]. split; field; exact N.
Qed.

(* ------------------------------------------------------------------------------------------------------------ *)
(* 8. from the Taylor identity to the epsilon-delta derivative (over Q): a remainder that is bounded for |h| <= 1 makes
      f' THE derivative of f at x *)

Lemma bdd_const c : bdd (fun _ => c).
Proof. exists (Qabs c). split; [apply Qabs_nonneg|]. intros. apply Qle_refl. Qed.

Lemma bdd_id : bdd (fun h => h).
Proof. exists 1. split; [lra|]. intros h H. exact H. Qed.

Lemma bdd_ext g1 g2 : (forall h, g1 h == g2 h) -> bdd g1 -> bdd g2.
Proof. intros E [B [HB H]]. exists B. split; [exact HB|]. intros h Hh. rewrite <- (E h). apply H. exact Hh. Qed.

Lemma bdd_add g1 g2 : bdd g1 -> bdd g2 -> bdd (fun h => g1 h + g2 h).
Proof.
  intros [B1 [P1 H1]] [B2 [P2 H2]]. exists (B1 + B2). split; [lra|]. intros h Hh.
  eapply Qle_trans; [apply Qabs_triangle|]. specialize (H1 h Hh). specialize (H2 h Hh). lra.
Qed.

Lemma bdd_mul g1 g2 : bdd g1 -> bdd g2 -> bdd (fun h => g1 h * g2 h).
Proof.
  intros [B1 [P1 H1]] [B2 [P2 H2]]. exists (B1 * B2). split; [apply Qmult_le_0_compat; assumption|]. intros h Hh.
  rewrite Qabs_Qmult. specialize (H1 h Hh). specialize (H2 h Hh).
  pose proof (Qabs_nonneg (g1 h)). pose proof (Qabs_nonneg (g2 h)).
  eapply Qle_trans; [apply Qmult_le_compat_r; [exact H1|assumption]|].
  rewrite (Qmult_comm B1 (Qabs (g2 h))), (Qmult_comm B1 B2). apply Qmult_le_compat_r; assumption.
Qed.

Lemma bdd_rprodl x ns : bdd (fun h => rprodl x h ns).
Proof.
  induction ns as [|n r IH]; cbn [rprodl]; [apply bdd_const|].
  apply bdd_add; [apply bdd_add; [apply bdd_mul; [apply bdd_const|exact IH]|apply bdd_const]|apply bdd_mul; [apply bdd_id|exact IH]].
Qed.

Lemma bdd_rem_power_nodes ns x : bdd (rem_power_nodes ns x).
Proof.
  pose proof (bdd_rprodl x ns) as R.
  apply (bdd_ext (fun h => lagc ns * (((1 - x) * (1 + x) * rprodl x h ns + (- (2 * x * dprodl x ns) + - prodl x ns))
                                   + (- h * (2 * x * rprodl x h ns + dprodl x ns) + - (h * h) * rprodl x h ns)))).
  { intros h. unfold rem_power_nodes. ring. }
  apply bdd_mul; [apply bdd_const|]. apply bdd_add.
  - apply bdd_add; [apply bdd_mul; [apply bdd_const|exact R]|apply bdd_const].
  - apply bdd_add.
    + apply bdd_mul.
      * apply (bdd_ext (fun h => (-1) * h)); [intros; ring|]. apply bdd_mul; [apply bdd_const|apply bdd_id].
      * apply bdd_add; [apply bdd_mul; [apply bdd_const|exact R]|apply bdd_const].
    + apply bdd_mul; [|exact R].
      apply (bdd_ext (fun h => (-1) * (h * h))); [intros; ring|]. apply bdd_mul; [apply bdd_const|apply bdd_mul; apply bdd_id].
Qed.

Lemma bdd_rem_cubic_generic p x : bdd (rem_cubic_generic p x).
Proof.
  unfold rem_cubic_generic. destruct (Z.rem p 2 =? 0)%Z;
    (apply bdd_add; [apply bdd_const|apply bdd_mul; [apply bdd_id|apply bdd_const]]).
Qed.

Lemma bdd_rem_cubic r p x : bdd (rem_cubic r p x).
Proof.
  destruct r; unfold rem_cubic; repeat match goal with |- context [if ?c then _ else _] => destruct c end;
    try apply bdd_rem_cubic_generic; apply bdd_const.
Qed.

Lemma bdd_rem_scaled r o p x : bdd (rem_scaled r o p x).
Proof.
  unfold rem_scaled. destruct (o =? 1)%Z; [apply bdd_const|].
  destruct (o =? 2)%Z.
  { destruct r; unfold rem_quadratic; repeat match goal with |- context [if ?c then _ else _] => destruct c end; apply bdd_const. }
  destruct (o =? 3)%Z; [apply bdd_rem_cubic|].
  unfold rem_power. destruct (uses_cubic r p); [apply bdd_rem_cubic|apply bdd_rem_power_nodes].
Qed.

(* generic: Taylor identity + remainder bounded near 0  ==>  epsilon-delta derivative *)
Theorem taylor_is_derivative (f : Q -> Q) (x f' : Q) (rem : Q -> Q) :
  bdd rem -> (forall h, f (x + h) == f x + h * f' + h * h * rem h) ->
  forall eps, 0 < eps -> exists delta, 0 < delta /\
    forall h, Qabs h < delta -> Qabs (f (x + h) - f x - h * f') <= eps * Qabs h.
Proof.
  intros [B [HB Hrem]] T eps He.
  assert (HB1 : 0 < B + 1) by lra.
  set (d0 := eps / (B + 1)).
  assert (Hd0 : 0 < d0) by (unfold d0; apply Qlt_shift_div_l; lra).
  set (delta := if Qlt_le_dec d0 1 then d0 else 1).
  assert (Hdpos : 0 < delta) by (unfold delta; destruct (Qlt_le_dec d0 1); lra).
  assert (Hd1 : delta <= 1) by (unfold delta; destruct (Qlt_le_dec d0 1); lra).
  assert (Hd2 : delta <= d0) by (unfold delta; destruct (Qlt_le_dec d0 1); lra).
  exists delta. split; [exact Hdpos|]. intros h Hh.
  assert (E : f (x + h) - f x - h * f' == h * (h * rem h)) by (rewrite T; ring).
  rewrite E, Qabs_Qmult, Qabs_Qmult.
  pose proof (Qabs_nonneg h) as A0. pose proof (Qabs_nonneg (rem h)) as A1.
  assert (Hr : Qabs (rem h) <= B) by (apply Hrem; lra).
  assert (K : Qabs h * Qabs (rem h) <= eps).
  { assert (K1 : Qabs h * Qabs (rem h) <= d0 * B).
    { eapply Qle_trans; [apply Qmult_le_compat_r; [apply Qlt_le_weak; eapply Qlt_le_trans; [exact Hh|exact Hd2]|exact A1]|].
      rewrite (Qmult_comm d0 (Qabs (rem h))), (Qmult_comm d0 B). apply Qmult_le_compat_r; [exact Hr|lra]. }
    assert (K2 : d0 * B <= eps).
    { unfold d0. assert (E2 : eps / (B + 1) * B == eps * (B / (B + 1))) by (field; lra). rewrite E2.
      assert (B / (B + 1) <= 1) by (apply Qle_shift_div_r; lra).
      rewrite <- (Qmult_1_r eps) at 2. rewrite (Qmult_comm eps (B / (B + 1))), (Qmult_comm eps 1).
      apply Qmult_le_compat_r; lra. }
    lra. }
  rewrite (Qmult_comm (Qabs h) (Qabs h * Qabs (rem h))). apply Qmult_le_compat_r; assumption.
Qed.

(* every piece of order <> 1, in the scaled coordinate: diff_scaled IS the derivative of eval_scaled at every point *)
Theorem scaled_is_derivative r o p xn : o <> 1%Z ->
  ((o <> 1 /\ o <> 2 /\ o <> 3)%Z -> power_ok r o p) ->
  forall eps, 0 < eps -> exists delta, 0 < delta /\
    forall k, Qabs k < delta ->
      Qabs (eval_scaled r o p (xn + k) - eval_scaled r o p xn - k * diff_scaled r o p xn 1) <= eps * Qabs k.
Proof.
  intros Ho HP. apply (taylor_is_derivative (eval_scaled r o p) xn (diff_scaled r o p xn 1) (rem_scaled r o p xn)).
  - apply bdd_rem_scaled.
  - intros k. apply scaled_taylor; [intros; contradiction|exact HP].
Qed.
