(* The standard local-polynomial grid of makeLocalPolynomialGrid (Model/StdGrid.v), in ANY dimension and for ANY depth:
   it is exactly the set of multi-indexes with level sum <= depth, it is wellformed and closed under parents, hence
   (LocalComplete.v) the interpolant built by the surplus recurrence reproduces the supplied values at every point. *)
From TV Require Import Common.Prelude Model.IndexSets Model.RuleLocal Model.Selection Model.Hier Model.LocalGrid Model.StdGrid.
From TV Require Import Proofs.SelectionProofs Proofs.LocalGridProofs Proofs.LocalTreeSpec Proofs.LocalClosure Proofs.LocalComplete.
From Coq Require Import QArith Qcanon.
Local Open Scope Z_scope.

(* ------------------------------------------------------------------------------------------------------------ *)
(* one dimension: the points of level <= depth are the first getNumPoints(depth) points *)

Lemma log2_succ_le_iff n L : 1 <= n -> 0 <= L -> (Z.log2 n + 1 <= L <-> n < 2 ^ L).
Proof.
  intros Hn HL. pose proof (Z.log2_lt_pow2 n L) as H. assert (H0 : 0 < n) by lia. specialize (H H0).
  split; intros G; [apply H; lia|apply H in G; lia].
Qed.

Lemma intlog2_pos n : 1 <= n -> intlog2 n = Z.log2 n.
Proof. intros H. unfold intlog2. destruct (Z.leb_spec n 0); [lia|reflexivity]. Qed.

Lemma lp_level_numpoints a depth : 0 <= a -> 0 <= depth ->
  ((if a =? 0 then 0 else if a =? 1 then 1 else intlog2 (a - 1) + 1) <= depth <->
   a < (if depth =? 0 then 1 else 2 ^ depth + 1)).
Proof.
  intros Ha Hd. assert (Hp : 0 < 2 ^ depth) by (apply Z.pow_pos_nonneg; lia).
  destruct (Z.eqb_spec a 0) as [E0|N0]; [destruct (Z.eqb_spec depth 0); lia|].
  destruct (Z.eqb_spec a 1) as [E1|N1].
  { destruct (Z.eqb_spec depth 0) as [D0|D0]; [lia|]. assert (H2 : 2 ^ 1 <= 2 ^ depth) by (apply Z.pow_le_mono_r; lia).
    change (2 ^ 1) with 2 in H2. lia. }
  rewrite intlog2_pos by lia. pose proof (log2_succ_le_iff (a - 1) depth) as H.
  assert (H1 : 1 <= a - 1) by lia. specialize (H H1 Hd). pose proof (Z.log2_nonneg (a - 1)) as Hl.
  destruct (Z.eqb_spec depth 0) as [D0|D0]; [lia|]. lia.
Qed.

Lemma level_numpoints r a depth : binary r -> 0 <= a -> 0 <= depth ->
  (getLevel r a <= depth <-> a < getNumPoints r depth).
Proof.
  intros [-> | [-> | [-> | ->]]] Ha Hd; unfold getLevel, getNumPoints.
  - apply lp_level_numpoints; assumption.
  - apply lp_level_numpoints; assumption.
  - rewrite intlog2_pos by lia. pose proof (log2_succ_le_iff (a + 1) (depth + 1)) as H.
    assert (H1 : 1 <= a + 1) by lia. assert (H2 : 0 <= depth + 1) by lia. specialize (H H1 H2). lia.
  - assert (Hp : 0 < 2 ^ depth) by (apply Z.pow_pos_nonneg; lia).
    destruct (Z.leb_spec a 1) as [L1|L1]; [lia|].
    rewrite intlog2_pos by lia. pose proof (log2_succ_le_iff (a - 1) depth) as H.
    assert (H1 : 1 <= a - 1) by lia. specialize (H H1 Hd). lia.
Qed.

Lemma level_nonneg r a : binary r -> 0 <= a -> 0 <= getLevel r a.
Proof. intros Hb. exact (tf_level_nonneg _ _ (binary_tree1d_facts r 1 Hb) a). Qed.

Lemma level_root r : binary r -> getLevel r 0 = 0.
Proof. intros [-> | [-> | [-> | ->]]]; reflexivity. Qed.

Lemma levelsum_nonneg r p : binary r -> Forall (fun a => 0 <= a) p -> 0 <= levelsum r p.
Proof.
  intros Hb H. induction H as [|a p Ha Hp IH]; [cbn; lia|].
  rewrite levelsum_cons. pose proof (level_nonneg r a Hb Ha). lia.
Qed.

Lemma pts1d_In r depth a : In a (pts1d r depth) <-> 0 <= a < getNumPoints r depth.
Proof.
  unfold pts1d. rewrite in_map_iff. split.
  - intros [n [<- Hn]]. apply in_seq in Hn. lia.
  - intros [H0 H1]. exists (Z.to_nat a). split; [lia|]. apply in_seq. lia.
Qed.

Lemma pts1d_NoDup r depth : NoDup (pts1d r depth).
Proof.
  unfold pts1d. generalize (seq_NoDup (Z.to_nat (getNumPoints r depth)) 0).
  generalize (seq 0 (Z.to_nat (getNumPoints r depth))). intros l H.
  induction H as [|x l Hx Hl IH]; cbn [map]; constructor; [|exact IH].
  rewrite in_map_iff. intros [y [E Hy]]. apply Nat2Z.inj in E. subst y. contradiction.
Qed.

(* the filter in [std_grid] keeps every point: getNumPoints(depth) counts exactly the points of level <= depth *)
Lemma pts1d_filter_id r depth : binary r -> 0 <= depth ->
  filter (fun a => getLevel r a <=? depth) (pts1d r depth) = pts1d r depth.
Proof.
  intros Hb Hd. assert (H : forall a, In a (pts1d r depth) -> (getLevel r a <=? depth) = true).
  { intros a Ha. apply pts1d_In in Ha. apply Z.leb_le. apply level_numpoints; [assumption|lia|assumption|lia]. }
  induction (pts1d r depth) as [|x l IH]; [reflexivity|]. cbn [filter].
  rewrite (H x) by (left; reflexivity). f_equal. apply IH. intros a Ha. apply H. right. exact Ha.
Qed.

Lemma heads_In r depth a : binary r -> 0 <= depth ->
  (In a (filter (fun a => getLevel r a <=? depth) (pts1d r depth)) <-> 0 <= a /\ getLevel r a <= depth).
Proof.
  intros Hb Hd. rewrite filter_In, pts1d_In, Z.leb_le. split.
  - intros [[H0 _] H1]. split; assumption.
  - intros [H0 H1]. split; [|exact H1]. split; [exact H0|]. apply level_numpoints; assumption.
Qed.

(* ------------------------------------------------------------------------------------------------------------ *)
(* lists without repetition *)

Lemma NoDup_app_intro {A} (l1 l2 : list A) :
  NoDup l1 -> NoDup l2 -> (forall x, In x l1 -> ~ In x l2) -> NoDup (l1 ++ l2).
Proof.
  intros H1 H2 Hd. induction H1 as [|x l1 Hx Hl IH]; cbn [app]; [exact H2|]. constructor.
  - rewrite in_app_iff. intros [H|H]; [contradiction|]. apply (Hd x); [left; reflexivity|exact H].
  - apply IH. intros y Hy. apply Hd. right. exact Hy.
Qed.

Lemma NoDup_map_cons {A} (a : A) (l : list (list A)) : NoDup l -> NoDup (map (cons a) l).
Proof.
  intros H. induction H as [|x l Hx Hl IH]; cbn [map]; constructor; [|exact IH].
  rewrite in_map_iff. intros [y [E Hy]]. injection E as E. subst y. contradiction.
Qed.

Lemma NoDup_flat_map_cons {A} (f : A -> list (list A)) (l : list A) :
  NoDup l -> (forall a, In a l -> NoDup (f a)) -> NoDup (flat_map (fun a => map (cons a) (f a)) l).
Proof.
  intros H Hf. induction H as [|x l Hx Hl IH]; cbn [flat_map]; [constructor|].
  apply NoDup_app_intro.
  - apply NoDup_map_cons. apply Hf. left. reflexivity.
  - apply IH. intros a Ha. apply Hf. right. exact Ha.
  - intros p Hp Hq. apply in_map_iff in Hp. destruct Hp as [t [<- _]].
    apply in_flat_map in Hq. destruct Hq as [b [Hb Hq]]. apply in_map_iff in Hq.
    destruct Hq as [t' [E _]]. injection E as E1 E2. subst b. contradiction.
Qed.

Lemma set_nth_nonneg (p : idx) : forall dir q, 0 <= q -> Forall (fun a => 0 <= a) p ->
  Forall (fun a => 0 <= a) (set_nth p dir q).
Proof.
  induction p as [|a p IH]; intros dir q Hq H; [destruct dir; constructor|].
  inversion H as [|? ? Ha Hp]; subst. destruct dir as [|dir]; cbn [set_nth]; constructor; auto.
Qed.

(* ------------------------------------------------------------------------------------------------------------ *)
(* the standard grid *)

(* the grid is exactly the set of multi-indexes of d non-negative point numbers whose levels sum to at most depth *)
Theorem std_grid_spec r d : binary r -> forall depth p, 0 <= depth ->
  (In p (std_grid r d depth) <-> length p = d /\ Forall (fun a => 0 <= a) p /\ levelsum r p <= depth).
Proof.
  intros Hb. induction d as [|d IH]; intros depth p Hd.
  - cbn [std_grid]. split.
    + intros [<-|[]]. split; [reflexivity|]. split; [constructor|]. cbn. lia.
    + intros [Hl _]. destruct p; [left; reflexivity|discriminate].
  - cbn [std_grid]. rewrite in_flat_map. split.
    + intros [a [Ha Hp]]. apply heads_In in Ha; [|assumption|assumption]. destruct Ha as [Ha0 Hal].
      apply in_map_iff in Hp. destruct Hp as [t [<- Ht]].
      apply IH in Ht; [|lia]. destruct Ht as [Hlen [Hnn Hls]].
      split; [cbn [length]; lia|]. split; [constructor; assumption|]. rewrite levelsum_cons. lia.
    + intros [Hlen [Hnn Hls]]. destruct p as [|a t]; [discriminate|].
      inversion Hnn as [|? ? Ha Ht]; subst. rewrite levelsum_cons in Hls.
      pose proof (levelsum_nonneg r t Hb Ht) as Hs. exists a. split.
      * apply heads_In; [assumption|assumption|]. split; [exact Ha|lia].
      * apply in_map. apply IH; [lia|]. cbn [length] in Hlen. split; [lia|]. split; [exact Ht|lia].
Qed.

Lemma std_grid_NoDup r d : forall depth, NoDup (std_grid r d depth).
Proof.
  induction d as [|d IH]; intros depth; cbn [std_grid]; [repeat constructor; intros []|].
  apply (NoDup_flat_map_cons (fun a => std_grid r d (depth - getLevel r a))).
  - apply NoDup_filter. apply pts1d_NoDup.
  - intros a _. apply IH.
Qed.

Lemma levelsum_roots r d : binary r -> levelsum r (repeat 0 d) = 0.
Proof. intros Hb. induction d as [|d IH]; [reflexivity|]. cbn [repeat]. rewrite levelsum_cons, IH, level_root by exact Hb. lia. Qed.

Lemma std_grid_root r d depth : binary r -> 0 <= depth -> In (repeat 0 d) (std_grid r d depth).
Proof.
  intros Hb Hd. apply std_grid_spec; [assumption|assumption|]. split; [apply repeat_length|]. split.
  - apply Forall_forall. intros a Ha. apply repeat_spec in Ha. lia.
  - rewrite levelsum_roots by exact Hb. exact Hd.
Qed.

Theorem std_grid_wellformed r d depth : binary r -> 0 <= depth -> wellformed d (std_grid r d depth).
Proof.
  intros Hb Hd. split; [|split].
  - intros E. pose proof (std_grid_root r d depth Hb Hd) as H. rewrite E in H. contradiction.
  - apply std_grid_NoDup.
  - intros i Hi. apply std_grid_spec in Hi; [|assumption|assumption]. destruct Hi as [Hl [Hn _]]. split; assumption.
Qed.

(* every parent and step-parent of every coordinate of every point is in the grid *)
Theorem std_grid_complete r d depth : binary r -> 0 <= depth -> parent_complete r (std_grid r d depth) = true.
Proof.
  intros Hb Hd. unfold parent_complete. apply forallb_forall. intros i Hi.
  apply forallb_forall. intros dir Hdir. apply forallb_forall. intros q Hq. apply memb_In.
  apply in_seq in Hdir. assert (Hlt : (dir < length i)%nat) by lia.
  apply std_grid_spec in Hi; [|assumption|assumption]. destruct Hi as [Hl [Hn Hs]].
  pose proof (tf_level _ _ (binary_tree1d_facts r 1 Hb) (nth dir i 0) q (nth_nonneg i dir Hn) Hq) as [Hq0 Hql].
  apply std_grid_spec; [assumption|assumption|]. split; [rewrite set_nth_length; exact Hl|]. split.
  - apply set_nth_nonneg; assumption.
  - rewrite levelsum_set_nth by exact Hlt. lia.
Qed.

(* C01 for the grid of makeLocalPolynomialGrid, any dimension, any depth, any order: the interpolant equals the
   supplied value at every grid point *)
Theorem std_grid_reproduces r d depth : binary r -> 0 <= depth ->
  forall order (vals : list (idx * Qc)) i, In i (std_grid r d depth) ->
  evalAt r order (std_grid r d depth) vals (node_of r i) = assoc vals i.
Proof.
  intros Hb Hd order vals i Hi.
  exact (localpoly_complete_reproduces r order d (std_grid r d depth) vals Hb
           (std_grid_wellformed r d depth Hb Hd) (std_grid_complete r d depth Hb Hd) i Hi).
Qed.

(* non-vacuity / tie to the concrete grids *)
Example std_grid_localp_2_2 :
  std_grid Localp 2 2 = [[0;0];[0;1];[0;2];[0;3];[0;4];[1;0];[1;1];[1;2];[2;0];[2;1];[2;2];[3;0];[4;0]].
Proof. vm_compute. reflexivity. Qed.
Example std_grid_sizes :
  (length (std_grid Localp0 2 1), std_grid Localpb 1 1, length (std_grid Semilocalp 3 2)) = (5%nat, [[0];[1];[2]], 25%nat).
Proof. vm_compute. reflexivity. Qed.

Print Assumptions std_grid_spec.
Print Assumptions std_grid_wellformed.
Print Assumptions std_grid_complete.
Print Assumptions std_grid_reproduces.
