(* The links of computeDAGup (Model/LocalGridUp.v: nearest PRESENT ancestor of every direction) against the direct
   parents of Model/LocalGrid.v:
   (a) on every parent-complete point set with non-negative coordinates the two strips are the same LISTS, hence
       reach_up = reach, surpluses_up = surpluses, evalAt_up = evalAt, hier_cert_up = hier_cert  (all five rules);
   (b) the theorems of LocalComplete.v / StdGridProofs.v transported to the _up functions;
   (c) the certified theorem for ARBITRARY point sets (holes included): hier_cert_up = true gives reproduction of the
       nodal values and uniqueness of the coefficients;
   (d) a set with a hole where the two models differ;
   and the fuel of the walk (the point number) is enough. *)
From TV Require Import Common.Prelude Model.IndexSets Model.RuleLocal Model.Selection Model.Hier Model.LocalGrid
  Model.StdGrid Model.LocalGridUp.
From TV Require Import Proofs.IndexSetsProofs Proofs.HierProofs Proofs.LocalGridProofs Proofs.LocalTreeSpec
  Proofs.LocalClosure Proofs.LocalComplete Proofs.StdGridProofs.
From Coq Require Import QArith Qcanon Lia.
Local Open Scope Z_scope.

Local Ltac Zify.zify_post_hook ::= Z.to_euclidean_division_equations.

(* ---- extensionality in the links ---- *)
Lemma lgu_forallb_ext {A} (f g : A -> bool) l : (forall x, In x l -> f x = g x) -> forallb f l = forallb g l.
Proof.
  induction l as [|a l IH]; intros H; cbn [forallb]; [reflexivity|].
  rewrite (H a) by (left; reflexivity). rewrite IH; [reflexivity|]. intros x Hx. apply H. right. exact Hx.
Qed.

Lemma lgu_flat_map_ext {A B} (f g : A -> list B) l : (forall x, In x l -> f x = g x) -> flat_map f l = flat_map g l.
Proof.
  induction l as [|a l IH]; intros H; cbn [flat_map]; [reflexivity|].
  rewrite (H a) by (left; reflexivity). rewrite IH; [reflexivity|]. intros x Hx. apply H. right. exact Hx.
Qed.

Lemma lgu_andb_eq a a' b b' : a = a' -> b = b' -> a && b = a' && b'.
Proof. intros -> ->. reflexivity. Qed.

Lemma forward_reach_ext (B : idx -> idx -> Qc) (v : idx -> Qc) (rc1 rc2 : idx -> list idx) :
  forall todo acc, (forall i, In i todo -> rc1 i = rc2 i) ->
  forward Qc 0%Qc Qcplus Qcmult Qcminus idx idx_eqb B rc1 v acc todo =
  forward Qc 0%Qc Qcplus Qcmult Qcminus idx idx_eqb B rc2 v acc todo.
Proof.
  induction todo as [|i todo IH]; intros acc H; cbn [forward]; [reflexivity|].
  unfold surp1. rewrite (H i) by (left; reflexivity). apply IH. intros j Hj. apply H. right. exact Hj.
Qed.

Lemma topob_reach_ext (rc1 rc2 : idx -> list idx) :
  forall rest pre, (forall i, In i rest -> rc1 i = rc2 i) -> topob rc1 pre rest = topob rc2 pre rest.
Proof.
  induction rest as [|i rest IH]; intros pre H; cbn [topob]; [reflexivity|].
  rewrite (H i) by (left; reflexivity). rewrite (IH (pre ++ [i])); [reflexivity|]. intros j Hj. apply H. right. exact Hj.
Qed.

(* ---- one-dimensional facts about the level-zero test of computeDAGup (all five rules) ---- *)
Lemma level0_no_parents r p : 0 <= p -> above0 r p = false -> parents1d r p = [].
Proof.
  intros Hp H. assert (E : p = 0 \/ p = 1 /\ r = Localpb).
  { destruct r; unfold above0, multi_parent in H; cbn in H; try (left; lia).
    assert (E : p = 0 \/ p = 1) by lia. destruct E as [E|E]; [left; exact E|right; split; [exact E|reflexivity]]. }
  destruct E as [-> | [-> ->]]; [destruct r|]; reflexivity.
Qed.

Lemma above0_parent r p : 0 <= p -> above0 r p = true -> 0 <= getParent r p < p.
Proof.
  intros Hp H. destruct r; unfold above0, multi_parent in H; cbn in H; unfold getParent.
  - destruct (Z.eqb_spec p 0); lia.
  - cbv zeta. destruct (Z.ltb_spec p 4); lia.
  - cbv zeta. destruct (Z.ltb_spec p 4); lia.
  - destruct (Z.eqb_spec p 0); lia.
  - destruct (Z.ltb_spec p 2); lia.
Qed.

Lemma single_no_step r p : multi_parent r = false -> getStepParent r p = -1.
Proof. destruct r; intros H; try discriminate H; reflexivity. Qed.

(* the fuel of the walk: every iteration moves to a smaller point number, so the point number is enough *)
Lemma walk_up_fuel r pts i dir : forall f1 f2 c, 0 <= c -> above0 r c = true ->
  (Z.to_nat c <= f1)%nat -> (Z.to_nat c <= f2)%nat -> walk_up r f1 pts i dir c = walk_up r f2 pts i dir c.
Proof.
  induction f1 as [|f1 IH]; intros f2 c Hc Ha H1 H2; pose proof (above0_parent r c Hc Ha) as Hg; [lia|].
  destruct f2 as [|f2]; [lia|]. cbn [walk_up]. cbv zeta.
  destruct (above0 r (getParent r c) && negb (memb (set_nth i dir (getParent r c)) pts)) eqn:E; [|reflexivity].
  apply andb_true_iff in E. destruct E as [E _]. apply IH; [lia|exact E|lia|lia].
Qed.

Lemma walk_up_stop r pts f i dir c :
  memb (set_nth i dir (getParent r c)) pts = true -> walk_up r f pts i dir c = (c, getParent r c).
Proof. intros H. destruct f; cbn [walk_up]; cbv zeta; [reflexivity|]. rewrite H. rewrite andb_false_r. reflexivity. Qed.

(* ------------------------------------------------------------------------------------------------------------ *)
(* (a) parent-complete sets: the two models coincide *)
Section Complete.
  Variable r : erule.
  Variable pts : list idx.
  Hypothesis Hnn : forall i, In i pts -> Forall (fun p => 0 <= p) i.
  Hypothesis Hpc : parent_complete r pts = true.

  Lemma pc_in i dir q : In i pts -> (dir < length i)%nat -> In q (parents1d r (nth dir i 0)) ->
    memb (set_nth i dir q) pts = true.
  Proof.
    intros Hi Hd Hq. pose proof Hpc as H. unfold parent_complete in H. rewrite forallb_forall in H.
    specialize (H i Hi). rewrite forallb_forall in H.
    assert (Hs : In dir (seq 0 (length i))) by (apply in_seq; lia).
    specialize (H dir Hs). rewrite forallb_forall in H. apply H. exact Hq.
  Qed.

  Lemma up_dir_complete i dir : In i pts -> (dir < length i)%nat ->
    up_dir r pts i dir = flat_map (slot_entry pts i dir) (parents1d r (nth dir i 0)).
  Proof.
    intros Hi Hd. pose proof (nth_nonneg i dir (Hnn i Hi)) as Hp. unfold up_dir. cbv zeta.
    destruct (above0 r (nth dir i 0)) eqn:E.
    2:{ rewrite (level0_no_parents r _ Hp E). reflexivity. }
    pose proof (above0_parent r _ Hp E) as Hg.
    assert (Hin : In (getParent r (nth dir i 0)) (parents1d r (nth dir i 0))).
    { unfold parents1d. cbn [filter]. destruct (Z.eqb_spec (getParent r (nth dir i 0)) (-1)) as [e|_]; [lia|]. left; reflexivity. }
    rewrite (walk_up_stop r pts _ i dir _ (pc_in i dir _ Hi Hd Hin)).
    unfold parents1d. cbn [filter]. destruct (Z.eqb_spec (getParent r (nth dir i 0)) (-1)) as [e|_]; [lia|].
    cbn [negb flat_map]. f_equal.
    destruct (multi_parent r) eqn:M.
    - cbv zeta. destruct (getStepParent r (nth dir i 0) =? -1); cbn [negb flat_map]; [reflexivity|rewrite app_nil_r; reflexivity].
    - rewrite (single_no_step r _ M). reflexivity.
  Qed.

  Theorem parents_up_complete i : In i pts -> parents_up r pts i = parents r pts i.
  Proof.
    intros Hi. unfold parents_up, parents. apply lgu_flat_map_ext. intros dir Hd. apply in_seq in Hd.
    rewrite up_dir_complete by (assumption || lia). reflexivity.
  Qed.

  Lemma parents_incl i : incl (parents r pts i) pts.
  Proof. intros j Hj. apply parents_In in Hj. destruct Hj as [dir [q [_ [_ [_ H]]]]]. exact H. Qed.

  Lemma closure_up_complete : forall f fr acc, incl fr pts -> closure_up r f pts fr acc = closure r f pts fr acc.
  Proof.
    induction f as [|f IH]; intros fr acc Hfr; [reflexivity|]. destruct fr as [|x fr]; [reflexivity|].
    cbn [closure_up closure].
    assert (Hx : In x pts) by (apply Hfr; left; reflexivity).
    assert (Hfr' : incl fr pts) by (intros y Hy; apply Hfr; right; exact Hy).
    destruct (memb x acc); [apply IH; exact Hfr'|]. rewrite parents_up_complete by exact Hx.
    apply IH. apply incl_app; [apply parents_incl|exact Hfr'].
  Qed.

  Theorem reach_up_complete i : In i pts -> reach_up r pts i = reach r pts i.
  Proof.
    intros Hi. unfold reach_up, reach. rewrite parents_up_complete by exact Hi.
    apply closure_up_complete. apply parents_incl.
  Qed.

  Lemma reach_up_nodes i : In i (by_level r pts) -> reach_up r pts i = reach r pts i.
  Proof. intros Hi. apply reach_up_complete. apply by_level_In in Hi. exact Hi. Qed.

  Theorem surpluses_up_complete order vals : surpluses_up r order pts vals = surpluses r order pts vals.
  Proof. unfold surpluses_up, surpluses, coef. apply forward_reach_ext. exact reach_up_nodes. Qed.

  Theorem evalAt_up_complete order vals x : evalAt_up r order pts vals x = evalAt r order pts vals x.
  Proof.
    pose proof (surpluses_up_complete order vals) as E. unfold surpluses_up, surpluses in E.
    unfold evalAt_up, evalAt, interp. cbv zeta. rewrite E. reflexivity.
  Qed.

  Theorem hier_cert_up_complete order : hier_cert_up r order pts = hier_cert r order pts.
  Proof.
    unfold hier_cert_up, hier_cert. cbv zeta.
    apply lgu_andb_eq; [|apply topob_reach_ext; exact reach_up_nodes].
    apply lgu_andb_eq; [|apply lgu_forallb_ext; intros i Hi; rewrite (reach_up_nodes i Hi); reflexivity].
    apply lgu_andb_eq; [|apply lgu_forallb_ext; intros i Hi; rewrite (reach_up_nodes i Hi); reflexivity].
    apply lgu_andb_eq; [|apply lgu_forallb_ext; intros i Hi; rewrite (reach_up_nodes i Hi); reflexivity].
    reflexivity.
  Qed.
End Complete.

(* (a) in one statement *)
Theorem up_agrees_on_complete r pts :
  (forall i, In i pts -> Forall (fun p => 0 <= p) i) -> parent_complete r pts = true ->
  (forall i, In i pts -> parents_up r pts i = parents r pts i) /\
  (forall i, In i pts -> reach_up r pts i = reach r pts i) /\
  (forall order vals, surpluses_up r order pts vals = surpluses r order pts vals) /\
  (forall order vals x, evalAt_up r order pts vals x = evalAt r order pts vals x) /\
  (forall order, hier_cert_up r order pts = hier_cert r order pts).
Proof.
  intros Hnn Hpc. split; [exact (parents_up_complete r pts Hnn Hpc)|]. split; [exact (reach_up_complete r pts Hnn Hpc)|].
  split; [exact (surpluses_up_complete r pts Hnn Hpc)|]. split; [exact (evalAt_up_complete r pts Hnn Hpc)|].
  exact (hier_cert_up_complete r pts Hnn Hpc).
Qed.

(* ------------------------------------------------------------------------------------------------------------ *)
(* (c) arbitrary point sets: a set that passes the certificate over the computeDAGup links *)
Section CertUp.
  Variable r : erule.
  Variable order : Z.
  Variable pts : list idx.
  Variable vals : list (idx * Qc).
  Hypothesis Hcert : hier_cert_up r order pts = true.

  Notation nodes := (by_level r pts).
  Notation B := (Bc r order).
  Notation rch := (reach_up r pts).
  Notation v := (assoc vals).

  Lemma cert_parts_up :
    NoDup nodes /\
    (forall i, In i nodes -> B i i = 1%Qc) /\
    (forall i, In i nodes -> NoDup (rch i)) /\
    (forall i j, In i nodes -> In j (rch i) -> In j nodes /\ j <> i) /\
    (forall i j, In i nodes -> In j nodes -> j <> i -> ~ In j (rch i) -> B i j = 0%Qc) /\
    (forall pre i post, nodes = pre ++ i :: post -> forall j, In j (rch i) -> In j pre).
  Proof.
    pose proof Hcert as Hc. unfold hier_cert_up in Hc.
    apply andb_true_iff in Hc; destruct Hc as [Hc Htop].
    apply andb_true_iff in Hc; destruct Hc as [Hc Hg2].
    apply andb_true_iff in Hc; destruct Hc as [Hc Hrin].
    apply andb_true_iff in Hc; destruct Hc as [Hc Hrnd].
    apply andb_true_iff in Hc; destruct Hc as [Hc Hg1].
    apply andb_true_iff in Hc; destruct Hc as [Hlen Hnd].
    rewrite forallb_forall in Hg1, Hrnd, Hrin, Hg2.
    split; [apply nodupb_NoDup; exact Hnd|].
    split; [intros i Hi; apply Qc_eq_bool_correct; apply Hg1; exact Hi|].
    split; [intros i Hi; apply nodupb_NoDup; apply Hrnd; exact Hi|].
    split.
    { intros i j Hi Hj. specialize (Hrin i Hi). rewrite forallb_forall in Hrin. specialize (Hrin j Hj).
      apply andb_true_iff in Hrin. destruct Hrin as [Ha Hb]. split; [apply memb_In; exact Ha|].
      destruct (idx_eqb_spec j i); [discriminate|assumption]. }
    split.
    { intros i j Hi Hj Hne Hnr. specialize (Hg2 i Hi). cbv zeta in Hg2. rewrite forallb_forall in Hg2. specialize (Hg2 j Hj).
      apply orb_true_iff in Hg2. destruct Hg2 as [Hg2|Hg2]; [|apply Qc_eq_bool_correct; exact Hg2].
      apply orb_true_iff in Hg2. destruct Hg2 as [Hg2|Hg2].
      - destruct (idx_eqb_spec j i); [contradiction|discriminate].
      - apply memb_In in Hg2. contradiction. }
    intros pre i post E j Hj. exact (topob_spec _ _ _ Htop pre i post E j Hj).
  Qed.

  (* C01 (Local Polynomial, any point set, the links of the code): the interpolant equals the supplied value at every node *)
  Theorem localgrid_reproduces_up : forall i, In i nodes -> evalAt_up r order pts vals (node_of r i) = v i.
  Proof.
    destruct cert_parts_up as [Hnd [G1 [Hrn [Hri [G2 Htopo]]]]]. intros i Hi. unfold evalAt_up.
    change (fun j : idx => Q2Qc (basisQ r order j (node_of r i))) with (fun j : idx => B i j).
    apply (interp_at_node Qc 0%Qc 1%Qc Qcplus Qcmult Qcminus Qcopp Qcrt idx idx_eqb idx_eqb_spec B rch v nodes Hnd G1 Hrn Hri G2 Htopo i Hi).
  Qed.

  Theorem localgrid_unique_up : forall c1 c2 : idx -> Qc,
    (forall i, In i nodes -> Hier.sum Qc 0%Qc Qcplus idx nodes (fun j => (B i j * c1 j)%Qc) = v i) ->
    (forall i, In i nodes -> Hier.sum Qc 0%Qc Qcplus idx nodes (fun j => (B i j * c2 j)%Qc) = v i) ->
    forall i, In i nodes -> c1 i = c2 i.
  Proof.
    destruct cert_parts_up as [Hnd [G1 [Hrn [Hri [G2 Htopo]]]]].
    exact (hier_unique Qc 0%Qc 1%Qc Qcplus Qcmult Qcminus Qcopp Qcrt idx idx_eqb idx_eqb_spec B rch v nodes Hnd G1 Hrn Hri G2 Htopo).
  Qed.

  (* the surpluses the code computes are the ONLY coefficients that reproduce the values *)
  Theorem localgrid_surpluses_up_unique : forall c : idx -> Qc,
    (forall i, In i nodes -> Hier.sum Qc 0%Qc Qcplus idx nodes (fun j => (B i j * c j)%Qc) = v i) ->
    forall i, In i nodes -> c i = Hier.lookup Qc 0%Qc idx idx_eqb i (surpluses_up r order pts vals).
  Proof.
    intros c Hc. apply (localgrid_unique_up c _ Hc).
    destruct cert_parts_up as [Hnd [G1 [Hrn [Hri [G2 Htopo]]]]]. unfold surpluses_up.
    exact (hier_reproduces Qc 0%Qc 1%Qc Qcplus Qcmult Qcminus Qcopp Qcrt idx idx_eqb idx_eqb_spec B rch v nodes Hnd G1 Hrn Hri G2 Htopo).
  Qed.
End CertUp.

(* ------------------------------------------------------------------------------------------------------------ *)
(* (b) the theorems about complete hierarchies, for the links of the code *)
Lemma wellformed_nonneg d pts : wellformed d pts -> forall i, In i pts -> Forall (fun p => 0 <= p) i.
Proof. intros [_ [_ H]] i Hi. apply (H i Hi). Qed.

Theorem localpoly_complete_cert_up r order d pts :
  binary r -> wellformed d pts -> parent_complete r pts = true -> hier_cert_up r order pts = true.
Proof.
  intros Hb Hw Hpc. rewrite (hier_cert_up_complete r pts (wellformed_nonneg d pts Hw) Hpc order).
  exact (localpoly_complete_cert r order d pts Hb Hw Hpc).
Qed.

Theorem localpoly_complete_reproduces_up r order d pts (vals : list (idx * Qc)) :
  binary r -> wellformed d pts -> parent_complete r pts = true ->
  forall i, In i pts -> evalAt_up r order pts vals (node_of r i) = assoc vals i.
Proof.
  intros Hb Hw Hpc i Hi. rewrite (evalAt_up_complete r pts (wellformed_nonneg d pts Hw) Hpc order vals).
  exact (localpoly_complete_reproduces r order d pts vals Hb Hw Hpc i Hi).
Qed.

(* any coefficients that reproduce the values are the surpluses computed over the links of the code *)
Theorem localpoly_complete_unique_up r order d pts (vals : list (idx * Qc)) :
  binary r -> wellformed d pts -> parent_complete r pts = true ->
  forall c : idx -> Qc,
  (forall i, In i (by_level r pts) ->
     Hier.sum Qc 0%Qc Qcplus idx (by_level r pts) (fun j => (Bc r order i j * c j)%Qc) = assoc vals i) ->
  forall i, In i (by_level r pts) -> c i = Hier.lookup Qc 0%Qc idx idx_eqb i (surpluses_up r order pts vals).
Proof.
  intros Hb Hw Hpc.
  exact (localgrid_surpluses_up_unique r order pts vals (localpoly_complete_cert_up r order d pts Hb Hw Hpc)).
Qed.

Theorem std_grid_reproduces_up r d depth : binary r -> 0 <= depth ->
  forall order (vals : list (idx * Qc)) i, In i (std_grid r d depth) ->
  evalAt_up r order (std_grid r d depth) vals (node_of r i) = assoc vals i.
Proof.
  intros Hb Hd order vals i Hi.
  exact (localpoly_complete_reproduces_up r order d (std_grid r d depth) vals Hb
           (std_grid_wellformed r d depth Hb Hd) (std_grid_complete r d depth Hb Hd) i Hi).
Qed.

(* ------------------------------------------------------------------------------------------------------------ *)
(* (d) a set with a hole: one-dimensional localp {0,1,2,5}; the parent 3 of point 5 is missing, the code links 5 to
   its nearest present ancestor 1, the direct-parent model links it to nothing.  Values 1, 2, 5, 7, linear basis:
   the node of 5 is -3/4 where the basis function of point 1 is 3/4, so the code's surplus is 7 - 1 - 3/4 = 21/4. *)
Definition hole_pts : list idx := [[0]; [1]; [2]; [5]].
Definition hole_vals : list (idx * Qc) := [([0], Q2Qc 1); ([1], Q2Qc 2); ([2], Q2Qc 5); ([5], Q2Qc 7)].

Example hole_parents_differ :
  parents_up Localp hole_pts [5] = [[1]] /\ parents Localp hole_pts [5] = [] /\
  reach_up Localp hole_pts [5] = [[0]; [1]] /\ reach Localp hole_pts [5] = [] /\
  parent_complete Localp hole_pts = false.
Proof. vm_compute. repeat split; reflexivity. Qed.

Example hole_surpluses_differ :
  map (fun p => (fst p, this (snd p))) (surpluses_up Localp 1 hole_pts hole_vals) = [([5], 21 # 4); ([1], 1%Q); ([2], 4%Q); ([0], 1%Q)] /\
  map (fun p => (fst p, this (snd p))) (surpluses Localp 1 hole_pts hole_vals) = [([5], 7%Q); ([1], 1%Q); ([2], 4%Q); ([0], 1%Q)].
Proof. vm_compute. split; reflexivity. Qed.

(* the certificate over the code's links holds for this set (so localgrid_reproduces_up applies: the interpolant of
   the code reproduces the four values), the certificate over the direct parents does not *)
Example hole_cert : hier_cert_up Localp 1 hole_pts = true /\ hier_cert Localp 1 hole_pts = false.
Proof. vm_compute. split; reflexivity. Qed.

(* the two-parent branch: semilocalp {0,1,2,7}: 7 -> 4 (missing) -> 2, and the step-parent of the LAST current (4) is 1 *)
Example hole_semilocalp :
  parents_up Semilocalp [[0]; [1]; [2]; [7]] [7] = [[2]; [1]] /\ parents Semilocalp [[0]; [1]; [2]; [7]] [7] = [].
Proof. vm_compute. split; reflexivity. Qed.

(* ------------------------------------------------------------------------------------------------------------ *)
(* the fuel of the depth-first walk [closure_up] inside [reach_up] is enough on EVERY point set of uniform dimension:
   [reach_up] is the complete set of points reachable through the links (what the `used` flags of updateSurpluses mark) *)
Section Fuel.
  Variable r : erule.
  Variable d : nat.
  Variable pts : list idx.
  Hypothesis Hlen : forall i, In i pts -> length i = d.

  Lemma slot_entry_incl i dir q : incl (slot_entry pts i dir q) pts.
  Proof. unfold slot_entry. cbv zeta. destruct (memb (set_nth i dir q) pts) eqn:E; intros x Hx; [|contradiction]. destruct Hx as [<-|[]]. apply memb_In. exact E. Qed.
  Lemma slot_entry_length i dir q : (length (slot_entry pts i dir q) <= 1)%nat.
  Proof. unfold slot_entry. cbv zeta. destruct (memb (set_nth i dir q) pts); cbn [length]; lia. Qed.

  Lemma up_dir_incl i dir : incl (up_dir r pts i dir) pts.
  Proof.
    unfold up_dir. cbv zeta. destruct (above0 r (nth dir i 0)); [|intros x []].
    destruct (walk_up r (Z.to_nat (nth dir i 0)) pts i dir (nth dir i 0)) as [cur dad].
    apply incl_app; [apply slot_entry_incl|].
    destruct (multi_parent r); [|intros x []]. destruct (getStepParent r cur =? -1); [intros x []|apply slot_entry_incl].
  Qed.
  Lemma up_dir_length i dir : (length (up_dir r pts i dir) <= 2)%nat.
  Proof.
    unfold up_dir. cbv zeta. destruct (above0 r (nth dir i 0)); [|cbn; lia].
    destruct (walk_up r (Z.to_nat (nth dir i 0)) pts i dir (nth dir i 0)) as [cur dad].
    rewrite app_length. pose proof (slot_entry_length i dir dad).
    destruct (multi_parent r); [|cbn [length]; lia]. destruct (getStepParent r cur =? -1); [cbn [length]; lia|].
    pose proof (slot_entry_length i dir (getStepParent r cur)). lia.
  Qed.

  Lemma parents_up_incl i : incl (parents_up r pts i) pts.
  Proof. intros x Hx. unfold parents_up in Hx. apply in_flat_map in Hx. destruct Hx as [dir [_ Hx]]. exact (up_dir_incl i dir x Hx). Qed.
  Lemma parents_up_length i : (length (parents_up r pts i) <= length i * 2)%nat.
  Proof.
    unfold parents_up. rewrite <- (seq_length (length i) 0) at 2. apply flat_map_length_le. intros dir _. apply up_dir_length.
  Qed.

  (* every step of the walk lowers  |frontier| + 2d * (number of points not yet visited) *)
  Lemma closure_up_fuel : forall f fr acc, NoDup acc -> incl acc pts -> incl fr pts ->
    (length fr + (d * 2) * (length pts - length acc) <= f)%nat ->
    forall k, closure_up r (f + k) pts fr acc = closure_up r f pts fr acc.
  Proof.
    induction f as [|f IH]; intros fr acc Hnd Ha Hfr Hm k.
    - destruct fr as [|x fr]; [destruct k; reflexivity|]. cbn [length] in Hm. exfalso. revert Hm. generalize (d * 2 * (length pts - length acc))%nat. intros. lia.
    - destruct fr as [|x fr]; [reflexivity|]. cbn [Nat.add closure_up].
      assert (Hx : In x pts) by (apply Hfr; left; reflexivity).
      assert (Hfr' : incl fr pts) by (intros y Hy; apply Hfr; right; exact Hy).
      cbn [length] in Hm.
      destruct (memb x acc) eqn:E.
      + apply IH; [assumption|assumption|assumption|lia].
      + assert (Hxa : ~ In x acc) by (intro Hc; apply memb_In in Hc; congruence).
        assert (Hnd' : NoDup (x :: acc)) by (constructor; assumption).
        assert (Ha' : incl (x :: acc) pts) by (intros y [<-|Hy]; [exact Hx|apply Ha; exact Hy]).
        pose proof (NoDup_incl_length Hnd' Ha') as Hl. cbn [length] in Hl.
        pose proof (parents_up_length x) as Hp. rewrite (Hlen x Hx) in Hp.
        apply IH; [assumption|assumption|apply incl_app; [apply parents_up_incl|exact Hfr']|].
        rewrite app_length. cbn [length].
        assert (Hs : (d * 2 * (length pts - S (length acc)) + d * 2 = d * 2 * (length pts - length acc))%nat).
        { replace (length pts - length acc)%nat with (S (length pts - S (length acc))) by lia. rewrite (Nat.mul_succ_r (d * 2) (length pts - S (length acc))). reflexivity. }
        revert Hm Hs Hp. generalize (d * 2 * (length pts - S (length acc)))%nat (d * 2 * (length pts - length acc))%nat (d * 2)%nat. intros.
        lia.
  Qed.

  (* the fuel of reach_up is enough: more fuel visits nothing new *)
  Theorem reach_up_fuel i : In i pts -> forall k,
    closure_up r (S (length pts) * (2 * length i + 2) + k) pts (parents_up r pts i) [] = reach_up r pts i.
  Proof.
    intros Hi k. unfold reach_up. apply closure_up_fuel; [constructor|intros x []|apply parents_up_incl|].
    pose proof (parents_up_length i) as Hp. rewrite (Hlen i Hi) in *. cbn [length]. rewrite Nat.sub_0_r.
    nia.
  Qed.
End Fuel.

Print Assumptions parents_up_complete.
Print Assumptions localgrid_reproduces_up.
Print Assumptions localpoly_complete_unique_up.
Print Assumptions std_grid_reproduces_up.
Print Assumptions walk_up_fuel.
Print Assumptions reach_up_fuel.
