(* Sparse (combination-technique) polynomial interpolation is exact on the declared polynomial space, unconditionally:
   `comb_exact` (CombinationProofs.v) instantiated with the field Qc, where the one-dimensional exactness premise
   `exact` is discharged by `lagrange_exact_monomial` (LagrangeExact.v).  No axioms.                                        *)
From TV Require Import Common.Prelude Proofs.CombinationProofs Proofs.LagrangeExact.
From Coq Require Import QArith Qcanon Ring.
Local Open Scope nat_scope.

Section SparseInterp.
  (* nodes j l : the one-dimensional nodes of dimension j at level l *)
  Variable nodes : nat -> nat -> list Qc.
  (* m l : degree of exactness of level l = (number of nodes) - 1, the same in every dimension *)
  Variable m : nat -> nat.
  Hypothesis nodes_nodup : forall j l, NoDup (nodes j l).
  Hypothesis nodes_len : forall j l, length (nodes j l) = S (m l).
  Hypothesis m_mono : forall l, m l <= m (S l).
  (* the evaluation point, x j = coordinate j *)
  Variable x : nat -> Qc.

  (* the level-l interpolant in dimension j of the monomial t^k, evaluated at x_j *)
  Definition interp_u (j l k : nat) : Qc := lagrange (nodes j l) (fun t => Qcpower t k) (x j).
  (* the monomial itself *)
  Definition interp_I (j k : nat) : Qc := Qcpower (x j) k.

  Lemma interp_exact1d : forall j l k, k <= m l -> interp_u j l k = interp_I j k.
  Proof.
    intros j l k Hk. unfold interp_u, interp_I.
    apply lagrange_exact_monomial; [apply nodes_nodup|]. rewrite nodes_len. lia.
  Qed.

  Theorem sparse_interpolation_exact : forall d Theta, NoDup Theta -> (forall t, In t Theta -> length t = d) -> lower Theta ->
    forall k s, In s Theta -> length k = d -> Forall2 (fun kj sj => kj <= m sj) k s ->
      sumf Qc (Q2Qc 0) Qcplus Theta (fun t => dprod Qc (Q2Qc 1) Qcmult Qcminus interp_u 0 t k)
      = iprod Qc (Q2Qc 1) Qcmult interp_I 0 k.
  Proof.
    intros d Theta ND Hlen Hlow.
    exact (comb_exact Qc (Q2Qc 0) (Q2Qc 1) Qcplus Qcmult Qcminus Qcopp Qcrt interp_u interp_I m m_mono interp_exact1d
                      d Theta ND Hlen Hlow).
  Qed.
End SparseInterp.

(* ---------- non-vacuity: nested Clenshaw-Curtis-like levels with 1, 3, 5 nodes, d = 2 ---------- *)
Definition ex_nodes (j l : nat) : list Qc :=
  match l with
  | 0 => [qc 0 1]
  | 1 => [qc 0 1; qc (-1) 1; qc 1 1]
  | _ => [qc 0 1; qc (-1) 1; qc 1 1; qc (-7) 10; qc 7 10]
  end.
Definition ex_m (l : nat) : nat := match l with 0 => 0 | 1 => 2 | _ => 4 end.
Definition ex_x (j : nat) : Qc := match j with 0 => qc 1 3 | _ => qc 2 5 end.
Definition ex_Theta : list (list nat) := [[0;0];[1;0];[0;1]].

Ltac qc_neq := let H := fresh in intro H; apply (f_equal this) in H; vm_compute in H; discriminate H.
Ltac qc_notin := cbn [In]; let H := fresh in intro H; repeat (destruct H as [H|H]; [revert H; qc_neq|]); exact H.
Ltac qc_nodup := repeat (constructor; [qc_notin|]); constructor.

Lemma ex_nodes_nodup : forall j l, NoDup (ex_nodes j l).
Proof. intros j [|[|l]]; cbn [ex_nodes]; qc_nodup. Qed.
Lemma ex_nodes_len : forall j l, length (ex_nodes j l) = S (ex_m l).
Proof. intros j [|[|l]]; reflexivity. Qed.
Lemma ex_m_mono : forall l, ex_m l <= ex_m (S l).
Proof. intros [|[|l]]; cbn; lia. Qed.
Lemma ex_Theta_nodup : NoDup ex_Theta.
Proof. unfold ex_Theta. repeat (constructor; [cbn; intuition discriminate|]). constructor. Qed.
Lemma ex_Theta_len : forall t, In t ex_Theta -> length t = 2.
Proof. intros t [<-|[<-|[<-|[]]]]; reflexivity. Qed.
Lemma ex_Theta_lower : lower ex_Theta.
Proof.
  intros t s [<-|[<-|[<-|[]]]] Hl Hle; destruct s as [|a [|b [|c s]]]; try discriminate;
    destruct a as [|[|a]], b as [|[|b]]; try discriminate; cbn; auto.
Qed.

(* x^2 (degree (2,0), covered by the level (1,0)) is reproduced - by the theorem *)
Example sparse_example_by_theorem :
  sumf Qc (Q2Qc 0) Qcplus ex_Theta (fun t => dprod Qc (Q2Qc 1) Qcmult Qcminus (interp_u ex_nodes ex_x) 0 t [2;0])
  = iprod Qc (Q2Qc 1) Qcmult (interp_I ex_x) 0 [2;0].
Proof.
  apply (sparse_interpolation_exact ex_nodes ex_m ex_nodes_nodup ex_nodes_len ex_m_mono ex_x 2 ex_Theta
           ex_Theta_nodup ex_Theta_len ex_Theta_lower [2;0] [1;0]).
  - right; left; reflexivity.
  - reflexivity.
  - repeat constructor.
Qed.

(* the same by computation, with the concrete value (1/3)^2 = 1/9 *)
Example sparse_example_by_computation :
  sumf Qc (Q2Qc 0) Qcplus ex_Theta (fun t => dprod Qc (Q2Qc 1) Qcmult Qcminus (interp_u ex_nodes ex_x) 0 t [2;0]) = qc 1 9.
Proof. apply Qc_is_canon. vm_compute. reflexivity. Qed.

(* y^2 (degree (0,2), covered by the level (0,1)): value (2/5)^2 = 4/25 *)
Example sparse_example_y2 :
  sumf Qc (Q2Qc 0) Qcplus ex_Theta (fun t => dprod Qc (Q2Qc 1) Qcmult Qcminus (interp_u ex_nodes ex_x) 0 t [0;2]) = qc 4 25.
Proof. apply Qc_is_canon. vm_compute. reflexivity. Qed.

(* the space restriction is not vacuous: x*y (degree (1,1)) is outside the declared space of this Theta and is NOT reproduced *)
Example sparse_example_outside_space :
  sumf Qc (Q2Qc 0) Qcplus ex_Theta (fun t => dprod Qc (Q2Qc 1) Qcmult Qcminus (interp_u ex_nodes ex_x) 0 t [1;1])
  <> iprod Qc (Q2Qc 1) Qcmult (interp_I ex_x) 0 [1;1].
Proof. qc_neq. Qed.

Print Assumptions sparse_interpolation_exact.
Print Assumptions sparse_example_by_theorem.
