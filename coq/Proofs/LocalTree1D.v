(* One-dimensional tree facts of the RuleLocal model (the record tree1d_facts of Proofs/LocalTreeSpec.v), unbounded in
   the point number.  The regular points of every local-polynomial rule form a dyadic heap: with the heap index
   n = p + 1 (localp0) or n = p - 1 (localp, semi-localp, localpb) and L = floor(log2 n),
       node p + 3 = (2 n + 1) / 2^L,   support p = 1 / 2^L,   parent: n / 2.
   A basis function that does not vanish at a node x_p has |x_p - x_q| < h_q strictly (it vanishes at the ends of the
   closed support), which in integers says  m 2^k <= n < (m + 1) 2^k  with k = L_n - L_m >= 1, i.e. m = n / 2^k is
   reached from n by k parent steps.  The finitely many special points of each rule are handled one by one. *)
From TV Require Import Common.Prelude Model.RuleLocal Model.LocalGrid Proofs.RuleLocalProofs Proofs.DiffProofs Proofs.LocalTreeSpec.
From Coq Require Import QArith Qabs Lqa.
Local Open Scope Z_scope.

(* ------------------------------------------------------------------------------------------------------------ *)
(* 1. integer arithmetic of the heap *)

Lemma heap_sep n m a b :
  0 <= a -> 0 <= b -> n <> m ->
  - 2 ^ a < 2 ^ b * (2 * n + 1) - (2 * m + 1) * 2 ^ a < 2 ^ a ->
  b < a /\ m = n / 2 ^ (a - b).
Proof.
  intros Ha Hb Hne H.
  destruct (Z_lt_le_dec b a) as [Hlt|Hge].
  - split; [exact Hlt|].
    assert (E : 2 ^ a = 2 ^ b * 2 ^ (a - b)) by (rewrite <- Z.pow_add_r by lia; f_equal; lia).
    assert (HP : 0 < 2 ^ b) by (apply Z.pow_pos_nonneg; lia).
    assert (HK : 0 < 2 ^ (a - b)) by (apply Z.pow_pos_nonneg; lia).
    rewrite E in H. set (P := 2 ^ b) in *. set (K := 2 ^ (a - b)) in *.
    assert (H1 : - K < (2 * n + 1) - (2 * m + 1) * K < K) by nia.
    apply (Z.div_unique n K m (n - K * m)); [left; nia|ring].
  - exfalso.
    assert (E : 2 ^ b = 2 ^ a * 2 ^ (b - a)) by (rewrite <- Z.pow_add_r by lia; f_equal; lia).
    assert (HP : 0 < 2 ^ a) by (apply Z.pow_pos_nonneg; lia).
    rewrite E in H.
    destruct (Z.eq_dec b a) as [Eb|Nb].
    + replace (b - a) with 0 in H by lia. change (2 ^ 0) with 1 in H. set (P := 2 ^ a) in *.
      assert (n < m \/ m < n) as [Hc|Hc] by lia; nia.
    + assert (E2 : 2 ^ (b - a) = 2 * 2 ^ (b - a - 1)) by (rewrite <- Z.pow_succ_r by lia; f_equal; lia).
      rewrite E2 in H. set (P := 2 ^ a) in *. set (K := 2 ^ (b - a - 1)) in *.
      remember (K * (2 * n + 1)) as T eqn:ET.
      assert (H1 : P * (-1) < P * (2 * T - (2 * m + 1)) < P * 1) by (subst T; lia).
      destruct H1 as [H1 H2]. apply Z.mul_lt_mono_pos_l in H1, H2; [lia|exact HP|exact HP].
Qed.

(* ------------------------------------------------------------------------------------------------------------ *)
(* 2. chains of parents *)

Lemma anc1_snoc r p m q : anc1 r p m -> In q (parents1d r m) -> anc1 r p q.
Proof.
  induction 1 as [p m Hm|p m' m Hm' _ IH]; intros Hq.
  - eapply anc1_more; [exact Hm|apply anc1_one; exact Hq].
  - eapply anc1_more; [exact Hm'|apply IH; exact Hq].
Qed.

Lemma anc_shift r (emb : Z -> Z) lo : 1 <= lo ->
  (forall n, lo <= n / 2 -> In (emb (n / 2)) (parents1d r (emb n))) ->
  forall k, 0 <= k -> forall n, lo <= n / 2 ^ (k + 1) -> anc1 r (emb n) (emb (n / 2 ^ (k + 1))).
Proof.
  intros Hlo Hpar k Hk. pattern k. apply natlike_ind; [| |exact Hk].
  - intros n Hn. change (2 ^ (0 + 1)) with 2 in *. apply anc1_one. apply Hpar. exact Hn.
  - intros j Hj IH n Hn.
    assert (HK : 0 < 2 ^ (j + 1)) by (apply Z.pow_pos_nonneg; lia).
    assert (E : n / 2 ^ (Z.succ j + 1) = n / 2 / 2 ^ (j + 1)).
    { rewrite Z.div_div by lia. f_equal. replace (Z.succ j + 1) with (Z.succ (j + 1)) by lia.
      rewrite Z.pow_succ_r by lia. reflexivity. }
    rewrite E in *.
    assert (Hh : lo <= n / 2).
    { destruct (Z_lt_le_dec (n / 2) 0) as [Hneg|Hpos].
      - assert (n / 2 / 2 ^ (j + 1) < 0) by (apply Z.div_lt_upper_bound; lia). lia.
      - assert (n / 2 / 2 ^ (j + 1) <= n / 2) by (apply Z.div_le_upper_bound; nia). lia. }
    eapply anc1_more; [apply Hpar; exact Hh|apply IH; exact Hn].
Qed.

(* ------------------------------------------------------------------------------------------------------------ *)
(* 3. the regular points of a rule and their heap index *)

Definition hidx (r : erule) (p : Z) : Z := match r with Localp0 => p + 1 | _ => p - 1 end.
Definition hemb (r : erule) (n : Z) : Z := match r with Localp0 => n - 1 | _ => n + 1 end.
Definition hlo (r : erule) : Z := match r with Localp0 | Localpb => 1 | _ => 2 end.
Definition regular (r : erule) (p : Z) : Prop := r <> Pwc /\ hlo r <= hidx r p.

Lemma hemb_hidx r p : hemb r (hidx r p) = p.
Proof. destruct r; unfold hemb, hidx; lia. Qed.

Lemma regular_scaled r p : regular r p -> scaled_point r p.
Proof. intros [Hr H]. destruct r; cbn in *; try lia. congruence. Qed.

Lemma regular_idx r p : regular r p -> 1 <= hidx r p.
Proof. intros [Hr H]. destruct r; cbn in *; lia. Qed.

Lemma int2log2_idx n : 1 <= n -> int2log2 n = 2 ^ Z.log2 n.
Proof. intros H. unfold int2log2. assert (n <=? 0 = false) as -> by lia. reflexivity. Qed.

Lemma pow_log2_pos n : 0 < 2 ^ Z.log2 n.
Proof. apply Z.pow_pos_nonneg; [lia|apply Z.log2_nonneg]. Qed.

Local Open Scope Q_scope.

Lemma node_reg r p : regular r p ->
  getNode r p == zq (2 * hidx r p + 1) / zq (2 ^ Z.log2 (hidx r p)) - 3.
Proof.
  intros [Hr H]. destruct r; cbn [hlo hidx] in *; try congruence; unfold getNode.
  - assert (p =? 0 = false)%Z as -> by lia. assert (p =? 1 = false)%Z as -> by lia. assert (p =? 2 = false)%Z as -> by lia.
    rewrite int2log2_idx by lia. replace (2 * (p - 1) + 1)%Z with (2 * p - 1)%Z by lia. reflexivity.
  - assert (p =? 0 = false)%Z as -> by lia. assert (p =? 1 = false)%Z as -> by lia. assert (p =? 2 = false)%Z as -> by lia.
    rewrite int2log2_idx by lia. replace (2 * (p - 1) + 1)%Z with (2 * p - 1)%Z by lia. reflexivity.
  - rewrite int2log2_idx by lia. replace (2 * (p + 1) + 1)%Z with (2 * p + 3)%Z by lia. reflexivity.
  - assert (p =? 0 = false)%Z as -> by lia. assert (p =? 1 = false)%Z as -> by lia.
    destruct (Z.eq_dec p 2) as [->|N2]; [reflexivity|]. assert (p =? 2 = false)%Z as -> by lia.
    rewrite int2log2_idx by lia. replace (2 * (p - 1) + 1)%Z with (2 * p - 1)%Z by lia. reflexivity.
Qed.

Lemma scaleX_reg r q x : regular r q ->
  scaleX r q x == zq (2 ^ Z.log2 (hidx r q)) * (x + 3) - zq (2 * hidx r q + 1).
Proof.
  intros [Hr H]. destruct r; cbn [hlo hidx] in *; try congruence; unfold scaleX.
  - assert (q =? 0 = false)%Z as -> by lia. assert (q =? 1 = false)%Z as -> by lia. assert (q =? 2 = false)%Z as -> by lia.
    rewrite int2log2_idx by lia. replace (2 * (q - 1) + 1)%Z with (2 * q - 1)%Z by lia.
    rewrite zq_sub. change (zq 1) with 1. ring.
  - rewrite int2log2_idx by lia. replace (2 * (q - 1) + 1)%Z with (2 * q - 1)%Z by lia.
    rewrite zq_sub. change (zq 1) with 1. ring.
  - rewrite int2log2_idx by lia. replace (2 * (q + 1) + 1)%Z with (2 * q + 3)%Z by lia.
    rewrite zq_add. change (zq 3) with 3. ring.
  - assert (q =? 0 = false)%Z as -> by lia. assert (q =? 1 = false)%Z as -> by lia.
    destruct (Z.eq_dec q 2) as [->|N2].
    { change (2 =? 2)%Z with true. cbv iota. change (2 ^ Z.log2 (2 - 1))%Z with 1%Z. change (2 * (2 - 1) + 1)%Z with 3%Z.
      change (zq 1) with 1. change (zq 3) with 3. ring. }
    assert (q =? 2 = false)%Z as -> by lia.
    rewrite int2log2_idx by lia. replace (2 * (q - 1) + 1)%Z with (2 * q - 1)%Z by lia.
    rewrite zq_sub. change (zq 1) with 1. ring.
Qed.

(* the scaled coordinate of the node of one regular point seen from another, as an integer fraction *)
Lemma scaleX_reg_node r p q : regular r p -> regular r q ->
  scaleX r q (getNode r p) ==
  zq (2 ^ Z.log2 (hidx r q) * (2 * hidx r p + 1) - (2 * hidx r q + 1) * 2 ^ Z.log2 (hidx r p)) / zq (2 ^ Z.log2 (hidx r p)).
Proof.
  intros Hp Hq. rewrite (scaleX_reg r q _ Hq), (node_reg r p Hp).
  pose proof (zq_pos _ (pow_log2_pos (hidx r p))) as HD.
  rewrite zq_sub, !zq_mult. field. lra.
Qed.

Lemma frac_bounds (N D : Z) (xn : Q) : (0 < D)%Z -> xn == zq N / zq D -> -1 < xn < 1 -> (- D < N < D)%Z.
Proof.
  intros HD E [H1 H2]. pose proof (zq_pos _ HD) as HDq.
  assert (EN : zq N == xn * zq D) by (rewrite E; field; lra).
  assert (A1 : -1 * zq D < xn * zq D) by (apply Qmult_lt_compat_r; assumption).
  assert (A2 : xn * zq D < 1 * zq D) by (apply Qmult_lt_compat_r; assumption).
  rewrite <- EN in A1, A2.
  assert (B1 : zq (- D) < zq N) by (unfold zq in *; rewrite inject_Z_opp; lra).
  assert (B2 : zq N < zq D) by lra.
  unfold zq in B1, B2. rewrite <- Zlt_Qlt in B1, B2. lia.
Qed.

(* ------------------------------------------------------------------------------------------------------------ *)
(* 4. the basis function of a regular point vanishes at both ends of its closed support (every order) *)

Lemma fold_power_zero x ns v : v == 0 ->
  fold_left (fun value node => value * (- (x - node) / node)) ns v == 0.
Proof.
  revert v. induction ns as [|n ns IH]; intros v Hv; cbn [fold_left]; [exact Hv|].
  apply IH. rewrite Hv. ring.
Qed.

Lemma quad_vanish x : x == 1 \/ x == -1 -> pw_quadratic_interior x == 0.
Proof. unfold pw_quadratic_interior. intros [E|E]; rewrite E; ring. Qed.

Lemma cubic_generic_vanish q x : x == 1 \/ x == -1 -> cubic_generic q x == 0.
Proof.
  unfold cubic_generic, pw_cubic_even, pw_cubic_odd. intros [E|E]; destruct (Z.rem q 2 =? 0)%Z; rewrite E; field.
Qed.

Lemma reg_quadratic_vanish r q x : regular r q -> x == 1 \/ x == -1 -> evalPWQuadratic r q x == 0.
Proof.
  intros [Hr H] E. destruct r; cbn [hlo hidx] in *; try congruence; unfold evalPWQuadratic; try (apply quad_vanish; exact E).
  - assert (q =? 1 = false)%Z as -> by lia. assert (q =? 2 = false)%Z as -> by lia. apply quad_vanish; exact E.
  - assert (q =? 0 = false)%Z as -> by lia. assert (q =? 1 = false)%Z as -> by lia. apply quad_vanish; exact E.
Qed.

Lemma reg_cubic_vanish r q x : regular r q -> x == 1 \/ x == -1 -> evalPWCubic r q x == 0.
Proof.
  intros [Hr H] E. destruct r; cbn [hlo hidx] in *; try congruence; unfold evalPWCubic.
  - assert (q =? 0 = false)%Z as -> by lia. assert (q =? 1 = false)%Z as -> by lia. assert (q =? 2 = false)%Z as -> by lia.
    destruct ((q =? 3)%Z || (q =? 4)%Z); [apply quad_vanish|apply cubic_generic_vanish]; exact E.
  - apply cubic_generic_vanish; exact E.
  - destruct (q =? 0)%Z; [apply quad_vanish|apply cubic_generic_vanish]; exact E.
  - assert (q =? 0 = false)%Z as -> by lia. assert (q =? 1 = false)%Z as -> by lia.
    destruct (q =? 2)%Z; [apply quad_vanish|apply cubic_generic_vanish]; exact E.
Qed.

Lemma reg_vanish r order q x : regular r q -> x == 1 \/ x == -1 -> eval_scaled r order q x == 0.
Proof.
  intros Hq E. unfold eval_scaled.
  destruct (order =? 1)%Z.
  { destruct E as [E|E]; rewrite E; reflexivity. }
  destruct (order =? 2)%Z; [apply reg_quadratic_vanish; assumption|].
  destruct (order =? 3)%Z; [apply reg_cubic_vanish; assumption|].
  unfold evalPWPower. destruct (uses_cubic r q); [apply reg_cubic_vanish; assumption|].
  apply fold_power_zero. destruct E as [E|E]; rewrite E; ring.
Qed.

Lemma evalRaw_outside r o p x : scaled_point r p -> Qabs_le_1 (scaleX r p x) = false -> evalRaw r o p x = 0.
Proof.
  destruct r; cbn [scaled_point]; intros Hp Hin; try contradiction; unfold evalRaw.
  - assert (p =? 0 = false)%Z as -> by lia. rewrite Hin. reflexivity.
  - assert (p =? 0 = false)%Z as -> by lia. assert (p =? 1 = false)%Z as -> by lia. assert (p =? 2 = false)%Z as -> by lia.
    rewrite Hin. reflexivity.
  - rewrite Hin. reflexivity.
  - rewrite Hin. reflexivity.
Qed.

Lemma nonzero_inside r o q x : scaled_point r q -> ~ evalRaw r o q x == 0 ->
  -1 <= scaleX r q x <= 1 /\ ~ eval_scaled r o q (scaleX r q x) == 0.
Proof.
  intros Hs Hnz. destruct (Qabs_le_1 (scaleX r q x)) eqn:E.
  - rewrite (evalRaw_inside r o q x Hs E) in Hnz. split; [|exact Hnz].
    unfold Qabs_le_1 in E. apply Qle_bool_iff in E. apply Qabs_Qle_condition in E. exact E.
  - exfalso. apply Hnz. rewrite (evalRaw_outside r o q x Hs E). reflexivity.
Qed.

Lemma reg_strict r o q x : regular r q -> ~ evalRaw r o q x == 0 -> -1 < scaleX r q x < 1.
Proof.
  intros Hq Hnz. destruct (nonzero_inside r o q x (regular_scaled r q Hq) Hnz) as [[H1 H2] H3].
  split.
  - destruct (Qle_lt_or_eq _ _ H1) as [Hlt|Heq]; [exact Hlt|]. exfalso. apply H3. apply reg_vanish; [exact Hq|right; symmetry; exact Heq].
  - destruct (Qle_lt_or_eq _ _ H2) as [Hlt|Heq]; [exact Hlt|]. exfalso. apply H3. apply reg_vanish; [exact Hq|left; exact Heq].
Qed.

Local Open Scope Z_scope.

(* two regular points: a basis function that does not vanish at the node of the other point sits on a shift of it *)
Lemma reg_close r order p q : regular r p -> regular r q -> q <> p ->
  ~ (evalRaw r order q (getNode r p) == 0)%Q ->
  Z.log2 (hidx r q) < Z.log2 (hidx r p) /\ hidx r q = hidx r p / 2 ^ (Z.log2 (hidx r p) - Z.log2 (hidx r q)).
Proof.
  intros Hp Hq Hne Hnz.
  pose proof (reg_strict r order q _ Hq Hnz) as Hs.
  pose proof (frac_bounds _ _ _ (pow_log2_pos (hidx r p)) (scaleX_reg_node r p q Hp Hq) Hs) as Hb.
  apply heap_sep; [apply Z.log2_nonneg|apply Z.log2_nonneg| |exact Hb].
  intros E. apply Hne. rewrite <- (hemb_hidx r q), <- (hemb_hidx r p), E. reflexivity.
Qed.

(* ------------------------------------------------------------------------------------------------------------ *)
(* 5. the parent of a regular point is the half of its heap index; regular ancestors *)

Lemma parent_reg r : r <> Pwc -> forall n, hlo r <= n / 2 -> In (hemb r (n / 2)) (parents1d r (hemb r n)).
Proof.
  intros Hr n Hn. unfold parents1d. apply filter_In. split.
  - left. destruct r; try congruence; cbn [hlo hemb] in *; unfold getParent.
    + cbv zeta. destruct (n + 1 <? 4) eqn:E; lia.
    + cbv zeta. destruct (n + 1 <? 4) eqn:E; lia.
    + destruct (n - 1 =? 0) eqn:E; lia.
    + destruct (n + 1 <? 2) eqn:E; lia.
  - destruct r; try congruence; cbn [hlo hemb] in *; lia.
Qed.

Lemma hlo_pos r : 1 <= hlo r.
Proof. destruct r; cbn; lia. Qed.

Lemma reg_anc_shift r p k : regular r p -> 1 <= k -> hlo r <= hidx r p / 2 ^ k ->
  anc1 r p (hemb r (hidx r p / 2 ^ k)).
Proof.
  intros [Hr Hp] Hk Hlo.
  pose proof (anc_shift r (hemb r) (hlo r) (hlo_pos r) (parent_reg r Hr) (k - 1) ltac:(lia) (hidx r p)) as A.
  replace (k - 1 + 1) with k in A by lia. rewrite hemb_hidx in A. apply A. exact Hlo.
Qed.

Theorem reg_anc r order p q : regular r p -> regular r q -> q <> p ->
  ~ (evalRaw r order q (getNode r p) == 0)%Q -> anc1 r p q.
Proof.
  intros Hp Hq Hne Hnz. destruct (reg_close r order p q Hp Hq Hne Hnz) as [Hlt E].
  pose proof (reg_anc_shift r p (Z.log2 (hidx r p) - Z.log2 (hidx r q)) Hp ltac:(lia)) as A.
  rewrite <- E in A. rewrite hemb_hidx in A. apply A. exact (proj2 Hq).
Qed.

(* ------------------------------------------------------------------------------------------------------------ *)
(* 6. value one at the own node, every order: the phantom nodes of evalPWPower are odd integers, hence not zero *)

Local Open Scope Q_scope.

Definition odd_q (x : Q) : Prop := exists k : Z, x == zq (2 * k + 1).

Lemma odd_q_nonzero x : odd_q x -> ~ x == 0.
Proof. intros [k E] H. rewrite E in H. unfold zq, inject_Z, Qeq, Qnum, Qden in H. lia. Qed.

Lemma zq_opp a : zq (- a) == - zq a.
Proof. unfold zq. rewrite inject_Z_opp. reflexivity. Qed.

Ltac zq_push := repeat (rewrite ?zq_add, ?zq_mult, ?zq_sub, ?zq_opp); change (zq 2) with 2; change (zq 1) with 1.

Lemma phantom_node_odd r point mt pd : odd_q pd -> odd_q (phantom_node r point mt pd).
Proof.
  intros [k E]. unfold phantom_node. cbv zeta.
  match goal with |- context [if ?c then _ else _] => destruct c end.
  - match goal with |- odd_q (_ - 2 * zq ?t) => exists (k - t)%Z end.
    rewrite E. zq_push. ring.
  - match goal with |- odd_q (_ + 2 * zq ?t) => exists (- k - 1 + t)%Z end.
    rewrite E. zq_push. ring.
Qed.

Lemma phantom_nodes_odd r point n : forall mt pd, odd_q pd -> Forall odd_q (phantom_nodes r point n mt pd).
Proof.
  induction n as [|n IH]; intros mt pd Hpd; cbn [phantom_nodes]; [constructor|].
  assert (H2 : odd_q (2 * pd + 1)).
  { destruct Hpd as [k E]. exists (2 * k + 1)%Z. rewrite E. zq_push. ring. }
  cbv zeta. constructor; [apply phantom_node_odd; exact H2|apply IH; exact H2].
Qed.

Lemma fold_power_at0 ns : Forall odd_q ns -> forall v,
  fold_left (fun value node => value * (- (0 - node) / node)) ns v == v.
Proof.
  induction 1 as [|n ns Hn _ IH]; intros v; cbn [fold_left]; [reflexivity|].
  rewrite IH. pose proof (odd_q_nonzero n Hn). field. assumption.
Qed.

Lemma cubic_at0 r p : evalPWCubic r p 0 == 1.
Proof.
  destruct r; unfold evalPWCubic, cubic_generic, pw_cubic_even, pw_cubic_odd, pw_quadratic_interior;
    repeat match goal with |- context [if ?c then _ else _] => destruct c end; reflexivity.
Qed.

Lemma eval_scaled_at0 r order p : eval_scaled r order p 0 == 1.
Proof.
  unfold eval_scaled.
  destruct (order =? 1)%Z; [reflexivity|].
  destruct (order =? 2)%Z.
  { destruct r; unfold evalPWQuadratic, pw_quadratic_interior;
      repeat match goal with |- context [if ?c then _ else _] => destruct c end; reflexivity. }
  destruct (order =? 3)%Z; [apply cubic_at0|].
  unfold evalPWPower. destruct (uses_cubic r p); [apply cubic_at0|].
  rewrite fold_power_at0; [reflexivity|]. apply phantom_nodes_odd. exists 0%Z. reflexivity.
Qed.

Lemma unit_scaled r order p : scaled_point r p -> evalRaw r order p (getNode r p) == 1.
Proof.
  intros Hs. pose proof (scaleX_node r p Hs) as E0.
  assert (Hin : Qabs_le_1 (scaleX r p (getNode r p)) = true).
  { unfold Qabs_le_1. apply Qle_bool_iff. rewrite E0. discriminate. }
  rewrite (evalRaw_inside r order p _ Hs Hin). rewrite (eval_scaled_wd r order p _ _ E0).
  apply eval_scaled_at0.
Qed.

Local Open Scope Z_scope.

(* closed evaluations at special points, for a symbolic order: split on the order tests, then compute *)
Ltac order_compute order :=
  unfold evalRaw, eval_scaled, evalPWPower;
  destruct (order =? 1); [vm_compute; reflexivity|];
  destruct (order =? 2); [vm_compute; reflexivity|];
  destruct (order =? 3); vm_compute; reflexivity.

(* ------------------------------------------------------------------------------------------------------------ *)
(* 7. levels *)

Lemma log2_half_lt a b : 1 <= b -> (a = 2 * b \/ a = 2 * b + 1) -> Z.log2 b < Z.log2 a.
Proof.
  intros Hb [-> | ->]; [rewrite Z.log2_double by lia|rewrite Z.log2_succ_double by lia]; lia.
Qed.

(* ------------------------------------------------------------------------------------------------------------ *)
(* 8. localp0: a perfect binary heap, every point is regular *)

Lemma regular_localp0 p : 0 <= p -> regular Localp0 p.
Proof. intros H. split; [discriminate|cbn; lia]. Qed.

Theorem tree1d_facts_localp0_any : forall order, tree1d_facts Localp0 order.
Proof.
  intros order. constructor.
  - intros p Hp. apply unit_scaled. exact Hp.
  - intros p q Hp Hq Hne Hnz. apply (reg_anc Localp0 order p q); auto using regular_localp0.
  - intros p q Hp Hin. unfold parents1d in Hin. apply filter_In in Hin. destruct Hin as [Hin Hq].
    unfold getParent, getStepParent in Hin. destruct Hin as [E|[E|[]]]; [|subst q; discriminate].
    destruct (p =? 0) eqn:E0; [subst q; discriminate|].
    split; [lia|]. unfold getLevel, intlog2.
    assert (q + 1 <=? 0 = false) as -> by lia. assert (p + 1 <=? 0 = false) as -> by lia.
    apply log2_half_lt; lia.
  - intros p Hp. unfold getLevel, intlog2. destruct (p + 1 <=? 0); [lia|apply Z.log2_nonneg].
Qed.

(* ------------------------------------------------------------------------------------------------------------ *)
(* 9. tools for the special points: integer nodes seen from a regular point, the top of the heap, node signs *)

Lemma int_node_zero r order q x c : regular r q -> (x == zq c)%Q ->
  2 ^ Z.log2 (hidx r q) * (c + 3) - (2 * hidx r q + 1) <> 0 -> (evalRaw r order q x == 0)%Q.
Proof.
  intros Hq Hx HN. destruct (Qeq_dec (evalRaw r order q x) 0) as [E|Hnz]; [exact E|exfalso].
  pose proof (reg_strict r order q x Hq Hnz) as Hs.
  assert (E : (scaleX r q x == zq (2 ^ Z.log2 (hidx r q) * (c + 3) - (2 * hidx r q + 1)) / zq 1)%Q).
  { rewrite (scaleX_reg r q x Hq), Hx, zq_sub, zq_mult, (zq_add c 3). change (zq 3) with 3%Q. change (zq 1) with 1%Q. field. }
  pose proof (frac_bounds _ 1 _ ltac:(lia) E Hs). lia.
Qed.

Lemma pow_log2_even m : 2 <= m -> exists K, 2 ^ Z.log2 m = 2 * K.
Proof.
  intros H. assert (1 <= Z.log2 m) by (change 1 with (Z.log2 2); apply Z.log2_le_mono; lia).
  exists (2 ^ (Z.log2 m - 1)). rewrite <- Z.pow_succ_r by lia. f_equal. lia.
Qed.

Lemma log2_ge1 n : 2 <= n -> 1 <= Z.log2 n.
Proof. intros H. change 1 with (Z.log2 2). apply Z.log2_le_mono; lia. Qed.

(* n >= 2: the ancestor of n on the second row of the heap is 2 (left half) or 3 (right half) *)
Lemma top2 n : 2 <= n ->
  let L := Z.log2 n in let t := n / 2 ^ (L - 1) in
  (t = 2 \/ t = 3) /\ (2 * n + 1 < 3 * 2 ^ L -> t = 2) /\ (3 * 2 ^ L < 2 * n + 1 -> t = 3).
Proof.
  intros Hn L t. pose proof (log2_ge1 n Hn) as HL. fold L in HL.
  destruct (Z.log2_spec n ltac:(lia)) as [S1 S2]. fold L in S1, S2.
  assert (E1 : 2 ^ L = 2 * 2 ^ (L - 1)) by (rewrite <- Z.pow_succ_r by lia; f_equal; lia).
  assert (E2 : 2 ^ Z.succ L = 2 * 2 ^ L) by (rewrite Z.pow_succ_r by lia; reflexivity).
  assert (HK : 0 < 2 ^ (L - 1)) by (apply Z.pow_pos_nonneg; lia).
  rewrite E2 in S2. rewrite E1 in *. subst t. set (K := 2 ^ (L - 1)) in *.
  assert (C : 2 * K <= n < 3 * K \/ 3 * K <= n < 4 * K) by lia.
  assert (D2 : 2 * K <= n < 3 * K -> n / K = 2).
  { intros Hc. symmetry. apply (Z.div_unique n K 2 (n - 2 * K)); lia. }
  assert (D3 : 3 * K <= n < 4 * K -> n / K = 3).
  { intros Hc. symmetry. apply (Z.div_unique n K 3 (n - 3 * K)); lia. }
  split; [|split].
  - destruct C as [C|C]; [left; apply D2; exact C|right; apply D3; exact C].
  - intros Hlt. apply D2. lia.
  - intros Hlt. apply D3. lia.
Qed.

(* n >= 1: the root of the heap *)
Lemma top1 n : 1 <= n -> n / 2 ^ Z.log2 n = 1.
Proof.
  intros Hn. destruct (Z.log2_spec n ltac:(lia)) as [S1 S2].
  rewrite Z.pow_succ_r in S2 by apply Z.log2_nonneg.
  symmetry. apply (Z.div_unique n _ 1 (n - 2 ^ Z.log2 n)); lia.
Qed.

Local Open Scope Q_scope.
Lemma node_sign r p : regular r p ->
  (getNode r p < 0 -> (2 * hidx r p + 1 < 3 * 2 ^ Z.log2 (hidx r p))%Z) /\
  (0 < getNode r p -> (3 * 2 ^ Z.log2 (hidx r p) < 2 * hidx r p + 1)%Z).
Proof.
  intros Hp. pose proof (node_reg r p Hp) as E.
  pose proof (zq_pos _ (pow_log2_pos (hidx r p))) as HD.
  set (N := (2 * hidx r p + 1)%Z) in *. set (D := (2 ^ Z.log2 (hidx r p))%Z) in *.
  assert (EN : zq N == (getNode r p + 3) * zq D) by (rewrite E; field; lra).
  assert (E3 : zq (3 * D) == 3 * zq D) by (rewrite zq_mult; reflexivity).
  split; intros Hs.
  - assert (A : (getNode r p + 3) * zq D < 3 * zq D) by (apply Qmult_lt_compat_r; lra).
    rewrite <- EN, <- E3 in A. unfold zq in A. rewrite <- Zlt_Qlt in A. exact A.
  - assert (A : 3 * zq D < (getNode r p + 3) * zq D) by (apply Qmult_lt_compat_r; lra).
    rewrite <- EN, <- E3 in A. unfold zq in A. rewrite <- Zlt_Qlt in A. exact A.
Qed.
Local Open Scope Z_scope.

(* ------------------------------------------------------------------------------------------------------------ *)
(* 10. localp and semi-localp share the tree: root 0, points 1 and 2 below it, two heaps below 3 and 4 *)

Definition lp_rule (r : erule) : Prop := r = Localp \/ r = Semilocalp.

Lemma regular_lp r p : lp_rule r -> 3 <= p -> regular r p.
Proof. intros [-> | ->] H; (split; [discriminate|cbn; lia]). Qed.

Lemma hidx_lp r p : lp_rule r -> hidx r p = p - 1.
Proof. intros [-> | ->]; reflexivity. Qed.

Lemma lp_top r p : lp_rule r -> 3 <= p ->
  exists t, (t = 2 \/ t = 3) /\
    (2 * (p - 1) + 1 < 3 * 2 ^ Z.log2 (p - 1) -> t = 2) /\ (3 * 2 ^ Z.log2 (p - 1) < 2 * (p - 1) + 1 -> t = 3) /\
    (p = t + 1 \/ anc1 r p (t + 1)).
Proof.
  intros Hr Hp. destruct (top2 (p - 1) ltac:(lia)) as [T1 [T2 T3]]. cbv zeta in *.
  exists ((p - 1) / 2 ^ (Z.log2 (p - 1) - 1)). repeat split; try assumption.
  pose proof (log2_ge1 (p - 1) ltac:(lia)) as HL.
  destruct (Z.eq_dec (Z.log2 (p - 1)) 1) as [E1|N1].
  - left. rewrite E1. change (2 ^ (1 - 1)) with 1. rewrite Z.div_1_r. lia.
  - right. pose proof (reg_anc_shift r p (Z.log2 (p - 1) - 1) (regular_lp r p Hr Hp) ltac:(lia)) as A.
    rewrite (hidx_lp r p Hr) in A.
    assert (Eh : hemb r ((p - 1) / 2 ^ (Z.log2 (p - 1) - 1)) = (p - 1) / 2 ^ (Z.log2 (p - 1) - 1) + 1)
      by (destruct Hr as [-> | ->]; reflexivity).
    rewrite Eh in A. apply A. destruct Hr as [-> | ->]; cbn [hlo]; lia.
Qed.

Lemma lp_special_node_zero r order p q : lp_rule r -> (p = 0 \/ p = 1 \/ p = 2) -> 3 <= q ->
  (evalRaw r order q (getNode r p) == 0)%Q.
Proof.
  intros Hr Hp Hq. destruct (pow_log2_even (q - 1) ltac:(lia)) as [K EK].
  pose proof (regular_lp r q Hr Hq) as Rq. pose proof (hidx_lp r q Hr) as Eh.
  destruct Hp as [-> | [-> | ->]].
  - apply (int_node_zero r order q _ 0 Rq); [destruct Hr as [-> | ->]; reflexivity|]. rewrite Eh, EK. lia.
  - apply (int_node_zero r order q _ (-1) Rq); [destruct Hr as [-> | ->]; reflexivity|]. rewrite Eh, EK. lia.
  - apply (int_node_zero r order q _ 1 Rq); [destruct Hr as [-> | ->]; reflexivity|]. rewrite Eh, EK. lia.
Qed.

Lemma lp_level r p q : lp_rule r -> 0 <= p -> In q (parents1d r p) -> 0 <= q /\ getLevel r q < getLevel r p.
Proof.
  intros Hr Hp Hin.
  assert (C : p <= 4 \/ 5 <= p) by lia. destruct C as [C|C].
  - assert (p = 0 \/ p = 1 \/ p = 2 \/ p = 3 \/ p = 4) as [-> | [-> | [-> | [-> | ->]]]] by lia;
      destruct Hr as [-> | ->]; vm_compute in Hin;
      repeat (destruct Hin as [Hin|Hin]); try contradiction; subst q; (split; [lia|vm_compute; reflexivity]).
  - unfold parents1d in Hin. apply filter_In in Hin. destruct Hin as [Hin Hq].
    assert (E : q = Z.quot (p + 1) 2).
    { destruct Hr as [-> | ->]; unfold getParent, getStepParent in Hin; cbv zeta in Hin.
      - destruct Hin as [E|[E|[]]]; [|subst q; discriminate]. destruct (p <? 4) eqn:E4; lia.
      - assert (p =? 3 = false) as E3 by lia. assert (p =? 4 = false) as E4 by lia. rewrite E3, E4 in Hin.
        destruct Hin as [E|[E|[]]]; [|subst q; discriminate]. destruct (p <? 4) eqn:E5; lia. }
    split; [lia|].
    assert (EL : forall x, 2 <= x -> getLevel r x = Z.log2 (x - 1) + 1).
    { intros x Hx. destruct Hr as [-> | ->]; unfold getLevel, intlog2;
        assert (x =? 0 = false) as -> by lia; assert (x =? 1 = false) as -> by lia;
        assert (x - 1 <=? 0 = false) as -> by lia; reflexivity. }
    rewrite !EL by lia.
    assert (Z.log2 (q - 1) < Z.log2 (p - 1)) by (apply log2_half_lt; lia). lia.
Qed.

Lemma lp_level_nonneg r p : lp_rule r -> 0 <= p -> 0 <= getLevel r p.
Proof.
  intros Hr Hp. destruct Hr as [-> | ->]; unfold getLevel, intlog2;
    (destruct (p =? 0); [lia|]; destruct (p =? 1); [lia|]; destruct (p - 1 <=? 0); [lia|];
     pose proof (Z.log2_nonneg (p - 1)); lia).
Qed.

(* ---- localp ---- *)

Lemma localp_anc0 p : 1 <= p -> anc1 Localp p 0.
Proof.
  intros Hp.
  assert (A1 : anc1 Localp 1 0) by (apply anc1_one; vm_compute; auto).
  assert (A2 : anc1 Localp 2 0) by (apply anc1_one; vm_compute; auto).
  assert (p = 1 \/ p = 2 \/ 3 <= p) as [-> | [-> | H3]] by lia; [exact A1|exact A2|].
  assert (A3 : anc1 Localp 3 0) by (eapply anc1_more; [|exact A1]; vm_compute; auto).
  assert (A4 : anc1 Localp 4 0) by (eapply anc1_more; [|exact A2]; vm_compute; auto).
  destruct (lp_top Localp p (or_introl eq_refl) H3) as [t [[-> | ->] [_ [_ [-> | HA]]]]]; try assumption.
  - apply (anc1_snoc _ _ 1); [apply (anc1_snoc _ _ (2 + 1)); [exact HA|]|]; vm_compute; auto.
  - apply (anc1_snoc _ _ 2); [apply (anc1_snoc _ _ (3 + 1)); [exact HA|]|]; vm_compute; auto.
Qed.

Lemma localp_anc1 p : 3 <= p -> (getNode Localp p < 0)%Q -> anc1 Localp p 1.
Proof.
  intros Hp Hneg. destruct (node_sign Localp p (regular_lp _ p (or_introl eq_refl) Hp)) as [S _]. specialize (S Hneg).
  change (hidx Localp p) with (p - 1) in S.
  destruct (lp_top Localp p (or_introl eq_refl) Hp) as [t [_ [T2 [_ HA]]]]. rewrite (T2 S) in HA.
  destruct HA as [-> | HA].
  - apply anc1_one; vm_compute; auto.
  - apply (anc1_snoc _ _ (2 + 1)); [exact HA|]; vm_compute; auto.
Qed.

Lemma localp_anc2 p : 3 <= p -> (0 < getNode Localp p)%Q -> anc1 Localp p 2.
Proof.
  intros Hp Hpos. destruct (node_sign Localp p (regular_lp _ p (or_introl eq_refl) Hp)) as [_ S]. specialize (S Hpos).
  change (hidx Localp p) with (p - 1) in S.
  destruct (lp_top Localp p (or_introl eq_refl) Hp) as [t [_ [_ [T3 HA]]]]. rewrite (T3 S) in HA.
  destruct HA as [-> | HA].
  - apply anc1_one; vm_compute; auto.
  - apply (anc1_snoc _ _ (3 + 1)); [exact HA|]; vm_compute; auto.
Qed.

(* the basis functions of the two boundary points: hat or linear, zero at the far end *)
Lemma localp_q1_end order : (eval_scaled Localp order 1 1 == 0)%Q.
Proof. order_compute order. Qed.
Lemma localp_q2_end order : (eval_scaled Localp order 2 (-1) == 0)%Q.
Proof. order_compute order. Qed.

Lemma localp_q1_neg order x : ~ (evalRaw Localp order 1 x == 0)%Q -> (x < 0)%Q.
Proof.
  intros Hnz. destruct (nonzero_inside Localp order 1 x ltac:(cbn; lia) Hnz) as [[H1 H2] H3].
  change (scaleX Localp 1 x) with (x + 1)%Q in *.
  destruct (Qlt_le_dec x 0) as [Hlt|Hge]; [exact Hlt|exfalso].
  assert (E : (x + 1 == 1)%Q) by lra. apply H3. rewrite (eval_scaled_wd _ _ _ _ _ E). apply localp_q1_end.
Qed.

Lemma localp_q2_pos order x : ~ (evalRaw Localp order 2 x == 0)%Q -> (0 < x)%Q.
Proof.
  intros Hnz. destruct (nonzero_inside Localp order 2 x ltac:(cbn; lia) Hnz) as [[H1 H2] H3].
  change (scaleX Localp 2 x) with (x - 1)%Q in *.
  destruct (Qlt_le_dec 0 x) as [Hlt|Hge]; [exact Hlt|exfalso].
  assert (E : (x - 1 == -1)%Q) by lra. apply H3. rewrite (eval_scaled_wd _ _ _ _ _ E). apply localp_q2_end.
Qed.

Theorem tree1d_facts_localp_any : forall order, tree1d_facts Localp order.
Proof.
  intros order. pose proof (or_introl eq_refl : lp_rule Localp) as Hr. constructor.
  - intros p Hp. destruct (Z.eq_dec p 0) as [-> | N0]; [reflexivity|].
    apply unit_scaled. cbn; lia.
  - intros p q Hp Hq Hne Hnz.
    assert (Cq : q = 0 \/ q = 1 \/ q = 2 \/ 3 <= q) by lia.
    assert (Cp : (p = 0 \/ p = 1 \/ p = 2) \/ 3 <= p) by lia.
    destruct Cp as [Cp|Cp].
    + destruct Cq as [-> | [-> | [-> | Cq]]].
      * apply localp_anc0. lia.
      * exfalso. apply Hnz. destruct Cp as [-> | [-> | ->]]; try lia; order_compute order.
      * exfalso. apply Hnz. destruct Cp as [-> | [-> | ->]]; try lia; order_compute order.
      * exfalso. apply Hnz. apply lp_special_node_zero; assumption.
    + destruct Cq as [-> | [-> | [-> | Cq]]].
      * apply localp_anc0. lia.
      * apply localp_anc1; [exact Cp|]. apply (localp_q1_neg order _ Hnz).
      * apply localp_anc2; [exact Cp|]. apply (localp_q2_pos order _ Hnz).
      * apply (reg_anc Localp order p q); auto using regular_lp.
  - intros p q. apply lp_level. exact Hr.
  - intros p. apply lp_level_nonneg. exact Hr.
Qed.

(* ---- semi-localp: points 1 and 2 carry global quadratics; 3 and 4 have both of them as (step-)parents ---- *)

Lemma semilocalp_anc012 p q : 3 <= p -> (q = 0 \/ q = 1 \/ q = 2) -> anc1 Semilocalp p q.
Proof.
  intros Hp Hq. pose proof (or_intror eq_refl : lp_rule Semilocalp) as Hr.
  assert (A3 : anc1 Semilocalp 3 q).
  { destruct Hq as [-> | [-> | ->]]; [eapply (anc1_more _ _ 1); [|apply anc1_one]| |]; try apply anc1_one; vm_compute; auto. }
  assert (A4 : anc1 Semilocalp 4 q).
  { destruct Hq as [-> | [-> | ->]]; [eapply (anc1_more _ _ 2); [|apply anc1_one]| |]; try apply anc1_one; vm_compute; auto. }
  destruct (lp_top Semilocalp p Hr Hp) as [t [[-> | ->] [_ [_ [-> | HA]]]]]; try assumption.
  - destruct Hq as [-> | [-> | ->]].
    + apply (anc1_snoc _ _ 1); [apply (anc1_snoc _ _ (2 + 1)); [exact HA|]|]; vm_compute; auto.
    + apply (anc1_snoc _ _ (2 + 1)); [exact HA|]; vm_compute; auto.
    + apply (anc1_snoc _ _ (2 + 1)); [exact HA|]; vm_compute; auto.
  - destruct Hq as [-> | [-> | ->]].
    + apply (anc1_snoc _ _ 2); [apply (anc1_snoc _ _ (3 + 1)); [exact HA|]|]; vm_compute; auto.
    + apply (anc1_snoc _ _ (3 + 1)); [exact HA|]; vm_compute; auto.
    + apply (anc1_snoc _ _ (3 + 1)); [exact HA|]; vm_compute; auto.
Qed.

Theorem tree1d_facts_semilocalp_any : forall order, tree1d_facts Semilocalp order.
Proof.
  intros order. pose proof (or_intror eq_refl : lp_rule Semilocalp) as Hr. constructor.
  - intros p Hp.
    assert (p = 0 \/ p = 1 \/ p = 2 \/ 3 <= p) as [-> | [-> | [-> | H3]]] by lia;
      [vm_compute; reflexivity|vm_compute; reflexivity|vm_compute; reflexivity|].
    apply unit_scaled. exact H3.
  - intros p q Hp Hq Hne Hnz.
    assert (Cq : (q = 0 \/ q = 1 \/ q = 2) \/ 3 <= q) by lia.
    assert (Cp : (p = 0 \/ p = 1 \/ p = 2) \/ 3 <= p) by lia.
    destruct Cp as [Cp|Cp]; destruct Cq as [Cq|Cq].
    + destruct Cq as [-> | [-> | ->]].
      * destruct Cp as [-> | [-> | ->]]; try lia; apply anc1_one; vm_compute; auto.
      * exfalso. apply Hnz. destruct Cp as [-> | [-> | ->]]; try lia; vm_compute; reflexivity.
      * exfalso. apply Hnz. destruct Cp as [-> | [-> | ->]]; try lia; vm_compute; reflexivity.
    + exfalso. apply Hnz. apply lp_special_node_zero; assumption.
    + apply semilocalp_anc012; assumption.
    + apply (reg_anc Semilocalp order p q); auto using regular_lp.
  - intros p q. apply lp_level. exact Hr.
  - intros p. apply lp_level_nonneg. exact Hr.
Qed.

(* ------------------------------------------------------------------------------------------------------------ *)
(* 11. localpb: two boundary points 0 and 1 (level 0, support radius 2), one heap below the centre point 2 *)

Lemma regular_localpb p : 2 <= p -> regular Localpb p.
Proof. intros H. split; [discriminate|cbn; lia]. Qed.

Lemma localpb_anc2 p : 3 <= p -> anc1 Localpb p 2.
Proof.
  intros Hp. pose proof (top1 (p - 1) ltac:(lia)) as T. pose proof (log2_ge1 (p - 1) ltac:(lia)) as HL.
  pose proof (reg_anc_shift Localpb p (Z.log2 (p - 1)) (regular_localpb p ltac:(lia)) HL) as A.
  change (hidx Localpb p) with (p - 1) in A. rewrite T in A. apply A. cbn. lia.
Qed.

Lemma localpb_anc01 p q : 2 <= p -> (q = 0 \/ q = 1) -> anc1 Localpb p q.
Proof.
  intros Hp Hq.
  assert (In q (parents1d Localpb 2)) by (destruct Hq as [-> | ->]; vm_compute; auto).
  destruct (Z.eq_dec p 2) as [-> | N2]; [apply anc1_one; assumption|].
  apply (anc1_snoc _ _ 2); [apply localpb_anc2; lia|assumption].
Qed.

Lemma localpb_special_node_zero order p q : (p = 0 \/ p = 1) -> 2 <= q ->
  (evalRaw Localpb order q (getNode Localpb p) == 0)%Q.
Proof.
  intros Hp Hq. destruct Hp as [-> | ->].
  - apply (int_node_zero Localpb order q _ (-1) (regular_localpb q Hq)); [reflexivity|].
    change (hidx Localpb q) with (q - 1). lia.
  - apply (int_node_zero Localpb order q _ 1 (regular_localpb q Hq)); [reflexivity|].
    change (hidx Localpb q) with (q - 1). lia.
Qed.

Theorem tree1d_facts_localpb_any : forall order, tree1d_facts Localpb order.
Proof.
  intros order. constructor.
  - intros p Hp. apply unit_scaled. exact Hp.
  - intros p q Hp Hq Hne Hnz.
    assert (Cq : (q = 0 \/ q = 1) \/ 2 <= q) by lia.
    assert (Cp : (p = 0 \/ p = 1) \/ 2 <= p) by lia.
    destruct Cp as [Cp|Cp]; destruct Cq as [Cq|Cq].
    + exfalso. apply Hnz.
      destruct Cp as [-> | ->]; destruct Cq as [-> | ->]; try lia; order_compute order.
    + exfalso. apply Hnz. apply localpb_special_node_zero; assumption.
    + apply localpb_anc01; assumption.
    + apply (reg_anc Localpb order p q); auto using regular_localpb.
  - intros p q Hp Hin. unfold parents1d in Hin. apply filter_In in Hin. destruct Hin as [Hin Hq].
    unfold getParent, getStepParent in Hin.
    destruct (p <? 2) eqn:E2.
    { destruct Hin as [E|[E|[]]]; subst q; [discriminate|]. destruct (p =? 2) eqn:E; [lia|discriminate]. }
    destruct (Z.eq_dec p 2) as [-> | N2].
    { destruct Hin as [E|[E|[]]]; subst q; vm_compute; split; congruence. }
    destruct Hin as [E|[E|[]]]; [|subst q; assert (p =? 2 = false) as E by lia; rewrite E in Hq; discriminate].
    split; [lia|]. unfold getLevel, intlog2.
    assert (q <=? 1 = false) as -> by lia. assert (p <=? 1 = false) as -> by lia.
    assert (q - 1 <=? 0 = false) as -> by lia. assert (p - 1 <=? 0 = false) as -> by lia.
    assert (Z.log2 (q - 1) < Z.log2 (p - 1)) by (apply log2_half_lt; lia). lia.
  - intros p Hp. unfold getLevel, intlog2.
    destruct (p <=? 1); [lia|]. destruct (p - 1 <=? 0); [lia|].
    pose proof (Z.log2_nonneg (p - 1)). lia.
Qed.

(* ------------------------------------------------------------------------------------------------------------ *)
(* 12. the statements asked for by the closure argument (orders 1, 2, 3), as instances *)

Theorem tree1d_facts_localp0 : forall order, (order = 1 \/ order = 2 \/ order = 3)%Z -> tree1d_facts Localp0 order.
Proof. intros order _. apply tree1d_facts_localp0_any. Qed.

Theorem tree1d_facts_localp : forall order, (order = 1 \/ order = 2 \/ order = 3)%Z -> tree1d_facts Localp order.
Proof. intros order _. apply tree1d_facts_localp_any. Qed.

Theorem tree1d_facts_localpb : forall order, (order = 1 \/ order = 2 \/ order = 3)%Z -> tree1d_facts Localpb order.
Proof. intros order _. apply tree1d_facts_localpb_any. Qed.

Theorem tree1d_facts_semilocalp : forall order, (order = 1 \/ order = 2 \/ order = 3)%Z -> tree1d_facts Semilocalp order.
Proof. intros order _. apply tree1d_facts_semilocalp_any. Qed.

Print Assumptions tree1d_facts_localp0.
Print Assumptions tree1d_facts_localp.
Print Assumptions tree1d_facts_localpb.
Print Assumptions tree1d_facts_semilocalp.
Print Assumptions tree1d_facts_localp0_any.
Print Assumptions tree1d_facts_localp_any.
Print Assumptions tree1d_facts_localpb_any.
Print Assumptions tree1d_facts_semilocalp_any.
