(* C12 — proofs about Model/Footprint.v *)
From TV Require Import Common.Prelude Model.Footprint.
From Coq Require String.

(* ------------------------------------------------------------------------------------------------------------ *)
(* syntactic footprint: the excused members only matter for methods that touch them *)
Lemma touch_ok_nil_of_except exc u t :
  touch_ok exc u t = true ->
  (forall c f w g, t = TMutable c f w g -> existsb (str_pair_eqb (c, f)) exc = false) ->
  touch_ok [] u t = true.
Proof.
  destruct t as [c f w g| |callee]; cbn; intros H Hx; try discriminate.
  rewrite (Hx c f w g eq_refl) in H. rewrite orb_false_r in H. rewrite orb_false_r. exact H.
Qed.

Lemma read_only_except_strict exc m :
  read_only_except exc m = true ->
  (forall c f w g, In (TMutable c f w g) (m_touches m) -> existsb (str_pair_eqb (c, f)) exc = false) ->
  read_only_by_syntax m = true.
Proof.
  unfold read_only_by_syntax, read_only_except. rewrite !forallb_forall. intros H Hx t Ht.
  apply (touch_ok_nil_of_except exc); [apply H; exact Ht|]. intros c f w g ->. eapply Hx; eauto.
Qed.

Lemma footprints_strict exc ms :
  forallb (read_only_except exc) ms = true ->
  forall m, In m ms ->
    (forall c f w g, In (TMutable c f w g) (m_touches m) -> existsb (str_pair_eqb (c, f)) exc = false) ->
    read_only_by_syntax m = true.
Proof.
  intros H m Hm Hx. apply (read_only_except_strict exc); [|exact Hx]. rewrite forallb_forall in H. apply H. exact Hm.
Qed.

(* ------------------------------------------------------------------------------------------------------------ *)
Section InterleaveProofs.
  Variables Sh Lo : Type.
  Notation thread := (thread Sh Lo).

  Lemma nth_error_set_nth (l : list thread) : forall i j x,
    nth_error (set_nth i x l) j = if Nat.eqb i j then (match nth_error l j with Some _ => Some x | None => None end) else nth_error l j.
  Proof.
    induction l as [|y r IH]; intros i j x.
    - destruct i, j; cbn; try reflexivity; destruct (Nat.eqb i j); reflexivity.
    - destruct i as [|i], j as [|j]; cbn; try reflexivity. apply IH.
  Qed.

  Lemma map_set_nth {B} (f : thread -> B) (l : list thread) : forall i x th,
    nth_error l i = Some th -> f x = f th -> map f (set_nth i x l) = map f l.
  Proof.
    induction l as [|y r IH]; intros [|i] x th H E; cbn in *; try discriminate.
    - inversion H; subst. rewrite E. reflexivity.
    - f_equal. eapply IH; eauto.
  Qed.

  Lemma Forall_set_nth (P : thread -> Prop) (l : list thread) : forall i x,
    Forall P l -> P x -> Forall P (set_nth i x l).
  Proof.
    induction l as [|y r IH]; intros [|i] x H Px; cbn; auto; inversion H; subst; constructor; auto.
  Qed.

  (* one atomic step of one reader: the shared state, the read-only-ness of every thread and the result every call is
     going to produce are all unchanged *)
  Lemma exec_one_readers (s : Sh) (ths : list thread) (i : nat) :
    Forall read_only_thread ths ->
    fst (exec_one (s, ths) i) = s /\ Forall read_only_thread (snd (exec_one (s, ths) i)) /\
    map (alone s) (snd (exec_one (s, ths) i)) = map (alone s) ths.
  Proof.
    intros Hro. unfold exec_one. cbn [fst snd]. destruct (nth_error ths i) as [th|] eqn:Hn; [|auto].
    destruct (todo th) as [|st rest] eqn:Ht; [auto|].
    assert (Hth : read_only_thread th) by (rewrite Forall_forall in Hro; apply Hro; eapply nth_error_In; eauto).
    unfold read_only_thread in Hth. rewrite Ht in Hth. inversion Hth as [|? ? Hst Hrest]; subst.
    cbn [fst snd]. split; [apply Hst|]. split.
    - apply Forall_set_nth; [exact Hro|exact Hrest].
    - eapply map_set_nth; [exact Hn|]. unfold alone. cbn [todo scratch]. rewrite Ht. cbn [fold_left]. reflexivity.
  Qed.

  Lemma run_readers (sched : list nat) : forall (s : Sh) (ths : list thread),
    Forall read_only_thread ths ->
    fst (run sched (s, ths)) = s /\ Forall read_only_thread (snd (run sched (s, ths))) /\
    map (alone s) (snd (run sched (s, ths))) = map (alone s) ths.
  Proof.
    induction sched as [|i sched IH]; intros s ths Hro; [cbn; auto|].
    unfold run. cbn [fold_left]. destruct (exec_one_readers s ths i Hro) as [H1 [H2 H3]].
    destruct (exec_one (s, ths) i) as [s1 ths1] eqn:E. cbn [fst snd] in *. subst s1.
    destruct (IH s ths1 H2) as [K1 [K2 K3]]. unfold run in *. rewrite K1, K3, H3. auto.
  Qed.

  (* main theorem: ANY interleaving of the atomic steps of ANY finite family of read-only operations leaves the
     shared state unchanged, and every call that has finished holds exactly the result of running it alone *)
  Theorem readers_commute (s : Sh) (ths : list thread) (sched : list nat) :
    Forall read_only_thread ths ->
    fst (run sched (s, ths)) = s /\
    length (snd (run sched (s, ths))) = length ths /\
    forall i th', nth_error (snd (run sched (s, ths))) i = Some th' ->
      exists th, nth_error ths i = Some th /\ alone s th' = alone s th /\ (finished th' -> scratch th' = alone s th).
  Proof.
    intros Hro. destruct (run_readers sched s ths Hro) as [H1 [_ H3]]. split; [exact H1|]. split.
    - rewrite <- (map_length (alone s)), H3, map_length. reflexivity.
    - intros i th' Hn. pose proof (map_nth_error (alone s) i _ Hn) as Hm. rewrite H3 in Hm.
      destruct (nth_error ths i) as [th|] eqn:Ht.
      + rewrite (map_nth_error (alone s) i _ Ht) in Hm. injection Hm as Ha. exists th. split; [reflexivity|]. split; [symmetry; exact Ha|].
        intros Hf. unfold finished in Hf. rewrite Ha. unfold alone. rewrite Hf. reflexivity.
      + exfalso. apply nth_error_None in Ht. assert (i < length (map (alone s) ths)) by (apply nth_error_Some; congruence).
        rewrite map_length in H. lia.
  Qed.

  (* progress: thread i has executed exactly min(its length, number of times it was scheduled) steps; so every
     schedule that names each thread often enough finishes every call *)
  Lemma exec_one_remaining (c : Sh * list thread) (k i : nat) th' :
    nth_error (snd (exec_one c k)) i = Some th' ->
    exists th, nth_error (snd c) i = Some th /\
      length (todo th') = if Nat.eqb k i then Nat.pred (length (todo th)) else length (todo th).
  Proof.
    unfold exec_one. destruct (nth_error (snd c) k) as [th|] eqn:Hk.
    - destruct (todo th) as [|st rest] eqn:Ht.
      + intros H. exists th'. split; [exact H|]. destruct (Nat.eqb_spec k i); [subst; rewrite H in Hk; inversion Hk; subst; rewrite Ht; reflexivity|reflexivity].
      + cbn [snd]. rewrite nth_error_set_nth. destruct (Nat.eqb_spec k i).
        * subst. rewrite Hk. intros H. inversion H; subst. exists th. split; [reflexivity|]. cbn. rewrite Ht. reflexivity.
        * intros H. exists th'. auto.
    - intros H. exists th'. split; [exact H|]. destruct (Nat.eqb_spec k i); [subst; congruence|reflexivity].
  Qed.

  Lemma run_remaining (sched : list nat) : forall (c : Sh * list thread) i th',
    nth_error (snd (run sched c)) i = Some th' ->
    exists th, nth_error (snd c) i = Some th /\ length (todo th') = length (todo th) - count_occ Nat.eq_dec sched i.
  Proof.
    induction sched as [|k sched IH]; intros c i th' H.
    - exists th'. cbn in *. split; [exact H|lia].
    - unfold run in *. cbn [fold_left] in H. destruct (IH _ _ _ H) as [th1 [H1 L1]].
      destruct (exec_one_remaining c k i th1 H1) as [th [H0 L0]]. exists th. split; [exact H0|].
      rewrite L1, L0. cbn [count_occ]. destruct (Nat.eq_dec k i) as [->|Hne].
      + rewrite Nat.eqb_refl. lia.
      + destruct (Nat.eqb_spec k i); [contradiction|lia].
  Qed.

  Theorem readers_finish (s : Sh) (ths : list thread) (sched : list nat) i th th' :
    nth_error ths i = Some th -> nth_error (snd (run sched (s, ths))) i = Some th' ->
    length (todo th) <= count_occ Nat.eq_dec sched i -> finished th'.
  Proof.
    intros H0 H1 Hc. destruct (run_remaining sched (s, ths) i th' H1) as [th2 [H2 L2]]. cbn [snd] in H2.
    rewrite H0 in H2. inversion H2; subst th2. unfold finished. destruct (todo th'); [reflexivity|cbn in L2; lia].
  Qed.
End InterleaveProofs.

(* ------------------------------------------------------------------------------------------------------------ *)
Section LazyCacheProofs.
  Variables D M X R : Type.
  Variable build : D -> M.
  Variable solve : M -> X -> R.
  Variable dflt : R.
  Notation lazy_step := (lazy_step D M X R build solve dflt).
  Notation locked_step := (locked_step D M X R build solve dflt).
  Notation lazy_access := (lazy_access D M X R).
  Notation locked_access := (locked_access D M X R).
  Notation crun := (crun D M X R).
  Notation cexec := (cexec D M X R).
  Notation race := (race D M X R).
  Notation fresh := (fresh D M X R).
  Notation local := (local X R).

  (* the code as it is: two threads asking for weights on a freshly loaded grid.  After thread 0 has tested the cache
     and before it has stored the rebuilt matrix, thread 0's next access is the WRITE of inter_matrix and thread 1's
     next access is a READ of inter_matrix: a data race.  One more step of each and the write of thread 1 conflicts
     with the read thread 0 makes while SOLVING with the matrix (use while it is being move-assigned). *)
  Theorem lazy_cache_race (d : D) (x0 x1 : X) :
    (exists sched, race lazy_access (crun lazy_step sched (fresh d [x0; x1]))) /\
    (exists sched l0 l1, let c := crun lazy_step sched (fresh d [x0; x1]) in
        nth_error (snd c) 0 = Some l0 /\ nth_error (snd c) 1 = Some l1 /\
        at_pc l0 = Solve /\ at_pc l1 = Build /\ race lazy_access c).
  Proof.
    split.
    - exists [0]. cbn. unfold race. exists 0, 1. do 2 eexists. exists (Wr false), (Rd false). cbn.
      repeat split; try reflexivity. discriminate.
    - exists [0; 1; 0]. do 2 eexists. cbn. repeat split; try reflexivity.
      unfold race. exists 0, 1. do 2 eexists. exists (Rd false), (Wr false). cbn. repeat split; try reflexivity. discriminate.
  Qed.

  (* ---- the repaired query: invariant ---- *)
  Definition linv (d : D) (s : shared D M) (x : X) (l : local) : Prop :=
    arg l = x /\ at_pc l <> Build /\ (at_pc l = Check \/ cache s = Some (build d)) /\
    (at_pc l = Done -> res l = Some (solve (build d) x)).
  Definition Inv (d : D) (args : list X) (c : cfg D M X R) : Prop :=
    data (fst c) = d /\ (cache (fst c) = None \/ cache (fst c) = Some (build d)) /\ Forall2 (linv d (fst c)) args (snd c).

  Lemma linv_mono d s s' x l : cache s' = Some (build d) -> linv d s x l -> linv d s' x l.
  Proof. intros Hs [A [B [_ E]]]. repeat split; auto. Qed.

  Lemma Forall2_set_local (P : X -> local -> Prop) : forall (xs : list X) (ls : list local) i l',
    Forall2 P xs ls -> (forall x, nth_error xs i = Some x -> P x l') -> Forall2 P xs (set_local X R i l' ls).
  Proof.
    intros xs ls i l' H. revert i. induction H as [|x l xs ls Hx Hr IH]; intros [|i] Hp; cbn; constructor; auto.
  Qed.

  Lemma Forall2_mono {A B} (P Q : A -> B -> Prop) xs ls : (forall a b, P a b -> Q a b) -> Forall2 P xs ls -> Forall2 Q xs ls.
  Proof. intros HPQ H. induction H; constructor; auto. Qed.

  Lemma Forall2_nth {A B} (P : A -> B -> Prop) : forall xs ls i l, Forall2 P xs ls -> nth_error ls i = Some l ->
    exists x, nth_error xs i = Some x /\ P x l.
  Proof.
    intros xs ls i l H. revert i. induction H as [|x0 l0 xs ls Hx Hr IH]; intros [|i] Hn; cbn in *; try discriminate.
    - inversion Hn; subst. eauto.
    - apply IH. exact Hn.
  Qed.

  Lemma locked_step_inv d args c i : Inv d args c -> Inv d args (cexec locked_step c i).
  Proof.
    intros [Hd [Hc Hf]]. unfold cexec. destruct c as [s ls]. cbn [fst snd] in *.
    destruct (nth_error ls i) as [l|] eqn:Hn; [|repeat split; auto].
    destruct (Forall2_nth _ _ _ _ _ Hf Hn) as [x [Hx [A [B [C E]]]]].
    unfold locked_step. destruct (at_pc l) eqn:Hpc; cbn [fst snd].
    - (* Check: the critical section *)
      assert (Hs' : cache (match cache s with Some _ => s | None => mkShared (data s) (Some (build (data s))) end) = Some (build d)).
      { destruct (cache s) eqn:Hcs; [destruct Hc as [Hc|Hc]; congruence|cbn; rewrite Hd; reflexivity]. }
      split; [destruct (cache s); cbn; auto|]. split; [right; exact Hs'|].
      apply Forall2_set_local.
      + eapply Forall2_mono; [|exact Hf]. intros a b Hab. eapply linv_mono; eauto.
      + intros x' Hx'. rewrite Hx in Hx'. inversion Hx'; subst x'. repeat split; cbn; auto; try discriminate.
    - congruence.
    - (* Solve *)
      destruct C as [C|C]; [congruence|]. split; [exact Hd|]. split; [exact Hc|].
      apply Forall2_set_local; [exact Hf|]. intros x' Hx'. rewrite Hx in Hx'. inversion Hx'; subst x'.
      repeat split; cbn; auto; try discriminate. intros _. rewrite C, A. reflexivity.
    - (* Done *)
      split; [exact Hd|]. split; [exact Hc|]. apply Forall2_set_local; [exact Hf|].
      intros x' Hx'. rewrite Hx in Hx'. inversion Hx'; subst x'. repeat split; auto; try congruence.
      destruct C as [C|C]; [discriminate|right; exact C].
  Qed.

  Lemma locked_run_inv d args sched : forall c, Inv d args c -> Inv d args (crun locked_step sched c).
  Proof.
    induction sched as [|i sched IH]; intros c H; [exact H|]. unfold crun in *. cbn [fold_left]. apply IH.
    apply locked_step_inv. exact H.
  Qed.

  Lemma fresh_inv d args : Inv d args (fresh d args).
  Proof.
    unfold fresh, Inv. cbn [fst snd data cache]. repeat split; auto.
    induction args as [|x r IH]; cbn; constructor; auto. repeat split; cbn; auto; discriminate.
  Qed.

  (* with the test-and-rebuild under one lock: NO schedule of ANY number of concurrent queries reaches a data race, the
     grid data is never changed, the cache only ever holds the matrix built from that data, and every finished
     query returns the result of solving with that matrix, i.e. what it returns alone *)
  Theorem locked_cache_safe (d : D) (args : list X) (sched : list nat) :
    let c := crun locked_step sched (fresh d args) in
    ~ race locked_access c /\ data (fst c) = d /\
    (cache (fst c) = None \/ cache (fst c) = Some (build d)) /\
    forall i l, nth_error (snd c) i = Some l -> at_pc l = Done ->
      exists x, nth_error args i = Some x /\ res l = Some (solve (build d) x).
  Proof.
    cbn zeta. pose proof (locked_run_inv d args sched _ (fresh_inv d args)) as [Hd [Hc Hf]].
    remember (crun locked_step sched (fresh d args)) as c eqn:Ec. clear Ec. split; [|split; [exact Hd|split; [exact Hc|]]].
    - intros [i [j [li [lj [a [b [Hij [Hi [Hj [Ha [Hb Hcf]]]]]]]]]]].
      destruct (Forall2_nth _ _ _ _ _ Hf Hi) as [xi [_ [_ [Bi [Ci _]]]]].
      destruct (Forall2_nth _ _ _ _ _ Hf Hj) as [xj [_ [_ [Bj [Cj _]]]]].
      unfold locked_access in Ha, Hb.
      destruct (at_pc li) eqn:Pi; destruct (at_pc lj) eqn:Pj; try discriminate; try congruence;
        destruct (cache (fst c)) eqn:Hcc; inversion Ha; inversion Hb; subst; cbn in Hcf; try discriminate;
        try (destruct Ci as [Ci|Ci]; congruence); try (destruct Cj as [Cj|Cj]; congruence).
    - intros i l Hn Hp. destruct (Forall2_nth _ _ _ _ _ Hf Hn) as [x [Hx [_ [_ [_ E]]]]]. exists x. split; [exact Hx|]. apply E. exact Hp.
  Qed.
End LazyCacheProofs.
