(* C14 — lemmas about Model/ApiGuards.v and the facts about the regenerated tables gen/ApiGuards.v, gen/DocThrows.v. *)
From Coq Require Import String List Bool Arith Lia.
From TV Require Import Model.ApiGuards.
From TV Require gen.ApiGuards gen.DocThrows.
Import ListNotations.
Local Open Scope string_scope.

(* ------------------------------------------------------------------ small facts about the string sets *)
Lemma mem_In (x : string) (l : list string) : mem x l = true <-> In x l.
Proof.
  unfold mem. rewrite existsb_exists. split.
  - intros [y [Hy He]]. apply String.eqb_eq in He. now subst.
  - intros H. exists x. split; [assumption|apply String.eqb_refl].
Qed.

Lemma mem_false_not_In (x : string) (l : list string) : mem x l = false <-> ~ In x l.
Proof.
  split.
  - intros H Hin. apply mem_In in Hin. congruence.
  - intros H. destruct (mem x l) eqn:E; [|reflexivity]. apply mem_In in E. contradiction.
Qed.

Lemma In_add (x y : string) (l : list string) : In y (add x l) <-> y = x \/ In y l.
Proof.
  unfold add. destruct (mem x l) eqn:E.
  - apply mem_In in E. split; [tauto|]. intros [->|H]; assumption.
  - rewrite in_app_iff. cbn. split; [intros [H|[H|[]]]; auto|intros [H|H]; auto].
Qed.

Lemma subset_spec (a b : list string) : subset a b = true <-> (forall x, In x a -> In x b).
Proof.
  unfold subset. rewrite forallb_forall. split; intros H x Hx.
  - apply mem_In. now apply H.
  - apply mem_In. now apply H.
Qed.

Lemma subset_mem_false (a b : list string) (f : string) :
  subset a b = true -> mem f b = false -> mem f a = false.
Proof.
  intros Hs Hf. apply mem_false_not_In. intros Hin. apply mem_false_not_In in Hf. apply Hf.
  rewrite subset_spec in Hs. now apply Hs.
Qed.

(* ------------------------------------------------------------------ sets of abstract states *)
Lemma amem_exists (a : astate) (l : list astate) :
  amem a l = true -> exists b, In b l /\ astate_eqb a b = true.
Proof. unfold amem. rewrite existsb_exists. intros [b [Hb He]]. now exists b. Qed.

Lemma astate_eqb_refl (a : astate) : astate_eqb a a = true.
Proof.
  unfold astate_eqb. rewrite Bool.eqb_reflx.
  assert (subset (muts a) (muts a) = true) as -> by (apply subset_spec; auto). reflexivity.
Qed.

Lemma aadd_keeps (a x : astate) (l : list astate) : In x l -> In x (aadd a l).
Proof. unfold aadd. destruct (amem a l); [auto|]. intros H. apply in_or_app. now left. Qed.

Lemma aadd_has (a : astate) (l : list astate) : exists b, In b (aadd a l) /\ astate_eqb a b = true.
Proof.
  unfold aadd. destruct (amem a l) eqn:E.
  - now apply amem_exists.
  - exists a. split; [apply in_or_app; right; now left|apply astate_eqb_refl].
Qed.

Lemma fold_aadd_keeps (g : astate -> astate) (S0 acc : list astate) (x : astate) :
  In x acc -> In x (fold_left (fun acc a => aadd (g a) acc) S0 acc).
Proof.
  revert acc. induction S0 as [|s r IH]; intros acc H; cbn; [assumption|].
  apply IH. now apply aadd_keeps.
Qed.

Lemma fold_aadd_has (g : astate -> astate) (S0 acc : list astate) (a : astate) :
  In a S0 -> exists b, In b (fold_left (fun acc a => aadd (g a) acc) S0 acc) /\ astate_eqb (g a) b = true.
Proof.
  revert acc. induction S0 as [|s r IH]; intros acc H; [destruct H|].
  cbn. destruct H as [->|H].
  - destruct (aadd_has (g a) acc) as [b [Hb He]]. exists b. split; [|assumption].
    now apply fold_aadd_keeps.
  - now apply IH.
Qed.

Lemma aunion_l (X Y : list astate) (x : astate) : In x X -> In x (aunion X Y).
Proof. unfold aunion. apply (fold_aadd_keeps (fun a => a)). Qed.

Lemma aunion_r (X Y : list astate) (y : astate) :
  In y Y -> exists b, In b (aunion X Y) /\ astate_eqb y b = true.
Proof. unfold aunion. apply (fold_aadd_has (fun a => a)). Qed.

(* ------------------------------------------------------------------ soundness of the analysis *)
Section Sound.
  Variable V : Type.
  Variable empty_store : store V.
  Notation describes := (describes V empty_store).
  Notation exec := (exec V empty_store).

  Definition covers (L : list astate) (st0 st : store V) : Prop := exists a, In a L /\ describes st0 a st.

  Lemma describes_eqb (st0 st : store V) (a b : astate) :
    astate_eqb a b = true -> describes st0 a st -> describes st0 b st.
  Proof.
    unfold astate_eqb. intros H D f Hf.
    apply andb_true_iff in H. destruct H as [H Hba]. apply andb_true_iff in H. destruct H as [Hc Hab].
    apply Bool.eqb_prop in Hc. rewrite <- Hc. apply D. eapply subset_mem_false; eassumption.
  Qed.

  Lemma covers_aunion_l X Y st0 st : covers X st0 st -> covers (aunion X Y) st0 st.
  Proof. intros [a [Ha D]]. exists a. split; [now apply aunion_l|assumption]. Qed.

  Lemma covers_aunion_r X Y st0 st : covers Y st0 st -> covers (aunion X Y) st0 st.
  Proof.
    intros [a [Ha D]]. destruct (aunion_r X Y a Ha) as [b [Hb He]].
    exists b. split; [assumption|]. eapply describes_eqb; eassumption.
  Qed.

  Lemma covers_subset X Y st0 st : asubset X Y = true -> covers X st0 st -> covers Y st0 st.
  Proof.
    unfold asubset. rewrite forallb_forall. intros H [a [Ha D]].
    destruct (amem_exists a Y (H a Ha)) as [b [Hb He]]. exists b. split; [assumption|].
    eapply describes_eqb; eassumption.
  Qed.

  Lemma describes_step_mut st0 st a f v : describes st0 a st -> describes st0 (step_mut f a) (upd V st f v).
  Proof.
    intros D g Hg. cbn in Hg. unfold upd.
    assert (Hn : ~ In g (add f (muts a))) by now apply mem_false_not_In.
    rewrite In_add in Hn.
    destruct (String.eqb g f) eqn:E.
    - apply String.eqb_eq in E. subst. exfalso. apply Hn. now left.
    - cbn. apply D. apply mem_false_not_In. intros Hin. apply Hn. now right.
  Qed.

  Lemma covers_step_mut S0 st0 st f v :
    covers S0 st0 st ->
    covers (fold_left (fun acc a => aadd (step_mut f a) acc) S0 []) st0 (upd V st f v).
  Proof.
    intros [a [Ha D]].
    destruct (fold_aadd_has (step_mut f) S0 [] a Ha) as [b [Hb He]].
    exists b. split; [assumption|]. eapply describes_eqb; [eassumption|]. now apply describes_step_mut.
  Qed.

  Lemma describes_cleared st0 : describes st0 cleared_state empty_store.
  Proof. intros f _. reflexivity. Qed.

  Definition sound_for (r : res) (st0 : store V) (o : outcome V) : Prop :=
    match o with
    | Fell _ st' _ => covers (falls r) st0 st'
    | Returned _ st' _ => covers (rets r) st0 st'
    | Threw _ st' => covers (throws r) st0 st'
    | Stuck _ => True
    end.

  Lemma run_eff_sound e S0 st0 st os :
    covers S0 st0 st -> unk (run_eff e S0) = false -> sound_for (run_eff e S0) st0 (exec_eff V empty_store e st os).
  Proof.
    intros C U. unfold run_eff, exec_eff in *. destruct (classify e) as [| |f| |[f|]|]; cbn in *.
    - assumption.
    - assumption.
    - destruct os as [|o r]; cbn; [exact I|]. now apply covers_step_mut.
    - destruct C as [a [Ha _]]. destruct S0 as [|s0 r0]; [destruct Ha|].
      exists cleared_state. split; [now left|apply describes_cleared].
    - destruct os as [|o r]; cbn; [exact I|]. destruct (o_bool V o); cbn; [assumption|now apply covers_step_mut].
    - destruct os as [|o r]; cbn; [exact I|]. destruct (o_bool V o); cbn; assumption.
    - discriminate.
  Qed.

  Lemma run_sound fuel : forall s S0 st0 st os,
    covers S0 st0 st -> unk (run s S0) = false -> sound_for (run s S0) st0 (exec fuel s st os).
  Proof.
    induction s as [| |e|a IHa b IHb|c t IHt e IHe|b IHb|b IHb|b IHb h IHh]; intros S0 st0 st os C U; cbn in *.
    - assumption.
    - assumption.
    - now apply run_eff_sound.
    - apply orb_false_iff in U. destruct U as [Ua Ub].
      specialize (IHa S0 st0 st os C Ua).
      destruct (exec fuel a st os) as [st' os'| st' os' | st' |]; cbn in *.
      + specialize (IHb (falls (run a S0)) st0 st' os' IHa Ub).
        destruct (exec fuel b st' os') as [st2 os2| st2 os2 | st2 |]; cbn in *.
        * assumption.
        * now apply covers_aunion_r.
        * now apply covers_aunion_r.
        * exact I.
      + now apply covers_aunion_l.
      + now apply covers_aunion_l.
      + exact I.
    - apply orb_false_iff in U. destruct U as [Ut Ue].
      destruct os as [|o r]; cbn; [exact I|].
      destruct (o_bool V o).
      + specialize (IHt S0 st0 st r C Ut).
        destruct (exec fuel t st r); cbn in *; try exact I; now apply covers_aunion_l.
      + specialize (IHe S0 st0 st r C Ue).
        destruct (exec fuel e st r); cbn in *; try exact I; now apply covers_aunion_r.
    - apply orb_false_iff in U. destruct U as [Ub Usub]. apply negb_false_iff in Usub.
      (* the loop: induction on the iteration counter *)
      generalize fuel at 2. intros n. revert st os C.
      induction n as [|n IHn]; intros st os C; cbn; [exact I|].
      destruct os as [|o r]; [exact I|].
      destruct (o_bool V o); cbn; [|assumption].
      specialize (IHb S0 st0 st r C Ub).
      destruct (exec fuel b st r) as [st' os'| st' os' | st' |]; cbn in *.
      + apply IHn. eapply covers_subset; eassumption.
      + assumption.
      + assumption.
      + exact I.
    - specialize (IHb S0 st0 st os C U).
      destruct (exec fuel b st os) as [st' os'| st' os' | st' |]; cbn in *.
      + now apply covers_aunion_l.
      + now apply covers_aunion_r.
      + assumption.
      + exact I.
    - apply orb_false_iff in U. destruct U as [Ub Uh].
      destruct os as [|o r]; [exact I|].
      specialize (IHb S0 st0 st r C Ub).
      destruct (exec fuel b st r) as [st' os'| st' os' | st' |]; cbn in *.
      + now apply covers_aunion_l.
      + now apply covers_aunion_l.
      + destruct (o_bool V o); cbn.
        * specialize (IHh (throws (run b S0)) st0 st' r IHb Uh).
          destruct (exec fuel h st' r); cbn in *; try exact I; now apply covers_aunion_r.
        * now apply covers_aunion_l.
      + exact I.
  Qed.

  Lemma start_covers st : covers start st st.
  Proof. exists {| cleared := false; muts := [] |}. split; [now left|]. intros f _. reflexivity. Qed.

  (* what the three shapes of throw sets mean for the concrete object *)
  Definition is_nil (l : list string) : bool := match l with [] => true | _ => false end.

  Definition r_only (F : list string) (r : res) : bool :=
    negb (unk r) && forallb (fun a => negb (cleared a) && subset (muts a) F) (throws r).
  (* explicit throw statements only: all of them while nothing has been modified (the guards of a make* method) *)
  Definition r_guards_first (r : res) : bool :=
    forallb (fun a => negb (cleared a) && is_nil (muts a)) (xthrows r).
  Definition r_clear_then (F : list string) (r : res) : bool :=
    negb (unk r) && forallb (fun a => if cleared a then subset (muts a) F else is_nil (muts a)) (throws r).

  Lemma only_sound F s fuel st os st' :
    r_only F (run s start) = true -> exec fuel s st os = Threw V st' ->
    forall f, mem f F = false -> st' f = st f.
  Proof.
    unfold r_only. intros H E f Hf. apply andb_true_iff in H. destruct H as [Hu Hall].
    apply negb_true_iff in Hu.
    pose proof (run_sound fuel s start st st os (start_covers st) Hu) as Snd. rewrite E in Snd. cbn in Snd.
    destruct Snd as [a [Ha D]]. rewrite forallb_forall in Hall. specialize (Hall a Ha).
    apply andb_true_iff in Hall. destruct Hall as [Hc Hs]. apply negb_true_iff in Hc.
    specialize (D f (subset_mem_false _ _ _ Hs Hf)). now rewrite Hc in D.
  Qed.

  Lemma clear_then_sound F s fuel st os st' :
    r_clear_then F (run s start) = true -> exec fuel s st os = Threw V st' ->
    (forall f, st' f = st f) \/ (forall f, mem f F = false -> st' f = empty_store f).
  Proof.
    unfold r_clear_then. intros H E. apply andb_true_iff in H. destruct H as [Hu Hall].
    apply negb_true_iff in Hu.
    pose proof (run_sound fuel s start st st os (start_covers st) Hu) as Snd. rewrite E in Snd. cbn in Snd.
    destruct Snd as [a [Ha D]]. rewrite forallb_forall in Hall. specialize (Hall a Ha).
    destruct (cleared a) eqn:Ec.
    - right. intros f Hf. specialize (D f (subset_mem_false _ _ _ Hall Hf)). now rewrite Ec in D.
    - left. intros f. destruct (muts a) eqn:Em; [|discriminate].
      specialize (D f). rewrite Em, Ec in D. now apply D.
  Qed.
End Sound.

(* ------------------------------------------------------------------ abstract guarded call *)
Lemma guarded_call_throw_unchanged (St Arg : Type) guards body (s : St) (a : Arg) :
  snd (guarded_call St Arg guards body s a) = Throw -> fst (guarded_call St Arg guards body s a) = s.
Proof. unfold guarded_call. destruct (existsb _ guards); cbn; [reflexivity|discriminate]. Qed.

Lemma guarded_call_fires (St Arg : Type) guards body (s : St) (a : Arg) g :
  In g guards -> g s a = true -> guarded_call St Arg guards body s a = (s, Throw).
Proof.
  intros Hin Hg. unfold guarded_call.
  assert (existsb (fun g0 => g0 s a) guards = true) as -> by (apply existsb_exists; now exists g).
  reflexivity.
Qed.

Lemma guarded_call_ok (St Arg : Type) guards body (s : St) (a : Arg) :
  (forall g, In g guards -> g s a = false) -> guarded_call St Arg guards body s a = (body s a, Ok).
Proof.
  intros H. unfold guarded_call.
  assert (existsb (fun g0 => g0 s a) guards = false) as ->; [|reflexivity].
  destruct (existsb (fun g0 => g0 s a) guards) eqn:E; [|reflexivity].
  apply existsb_exists in E. destruct E as [g [Hin Hg]]. rewrite (H g Hin) in Hg. discriminate.
Qed.

(* ------------------------------------------------------------------ abstract reader *)
Section ReaderProofs.
  Variables Obj Tmp Tok : Type.
  Variable empty_obj : Obj.
  Variable tmp0 : Tmp.
  Variable header_ok : Tok -> bool.
  Variable parse : Tmp -> Tok -> option Tmp.
  Variable commit : Tmp -> Obj.
  Notation body_run := (body_run Obj Tmp Tok empty_obj parse commit).
  Notation parse_all := (parse_all Tmp Tok parse).
  Notation first_failure := (first_failure Tmp Tok parse).
  Notation read_model := (read_model Obj Tmp Tok empty_obj tmp0 header_ok parse commit).

  Lemma body_run_failure : forall toks t n, first_failure t toks = Some n ->
    fst (body_run t toks) = (empty_obj, RThrow) /\ Forall (fun x => x = empty_obj) (snd (body_run t toks)).
  Proof.
    induction toks as [|k r IH]; intros t n H; cbn in *; [discriminate|].
    destruct (parse t k) as [t'|] eqn:E.
    - destruct (first_failure t' r) as [m|] eqn:F; [|discriminate].
      destruct (IH t' m F) as [H1 H2]. destruct (body_run t' r) as [[o s] tr]. cbn in *.
      split; [assumption|]. constructor; [reflexivity|assumption].
    - cbn. split; [reflexivity|]. constructor; [reflexivity|constructor].
  Qed.

  Lemma body_run_success : forall toks t, first_failure t toks = None ->
    exists t', parse_all t toks = Some t' /\ fst (body_run t toks) = (commit t', ROk) /\
               exists pre, snd (body_run t toks) = (pre ++ [commit t'])%list /\ Forall (fun x => x = empty_obj) pre.
  Proof.
    induction toks as [|k r IH]; intros t H; cbn in *.
    - exists t. split; [reflexivity|]. split; [reflexivity|]. exists []. split; [reflexivity|constructor].
    - destruct (parse t k) as [t'|] eqn:E; [|discriminate].
      destruct (first_failure t' r) as [m|] eqn:F; [discriminate|].
      destruct (IH t' F) as [t2 [P [B [pre [Tr Fa]]]]]. exists t2. split; [assumption|].
      destruct (body_run t' r) as [[o s] tr]. cbn in *. split; [assumption|].
      exists (empty_obj :: pre). rewrite Tr. split; [reflexivity|]. constructor; [reflexivity|assumption].
  Qed.

  (* a rejected header leaves the object untouched *)
  Lemma read_header_failure obj header body :
    forallb header_ok header = false ->
    fst (read_model obj header body) = (obj, RThrow) /\ Forall (fun x => x = obj) (snd (read_model obj header body)).
  Proof.
    intros H. unfold ApiGuards.read_model. rewrite H. cbn. split; [reflexivity|].
    induction header; cbn; constructor; [reflexivity|]. apply Forall_forall. intros x Hx.
    apply in_map_iff in Hx. destruct Hx as [? [Hx _]]. now subst.
  Qed.

  (* a failure at ANY body position n leaves the cleared object, and the object was never anything but the
     original (while the header was read) or the cleared one *)
  Lemma read_body_failure obj header body n :
    forallb header_ok header = true -> first_failure tmp0 body = Some n ->
    fst (read_model obj header body) = (empty_obj, RThrow) /\
    Forall (fun x => x = obj \/ x = empty_obj) (snd (read_model obj header body)).
  Proof.
    intros H F. unfold ApiGuards.read_model. rewrite H.
    destruct (body_run_failure body tmp0 n F) as [H1 H2].
    destruct (body_run tmp0 body) as [[o s] tr]. cbn in *. split; [assumption|].
    apply Forall_app. split.
    - apply Forall_forall. intros x Hx. apply in_map_iff in Hx. destruct Hx as [? [Hx _]]. left. now subst.
    - constructor; [now right|]. eapply Forall_impl; [|exact H2]. intros x Hx. now right.
  Qed.

  Lemma read_success obj header body :
    forallb header_ok header = true -> first_failure tmp0 body = None ->
    exists t, parse_all tmp0 body = Some t /\ fst (read_model obj header body) = (commit t, ROk) /\
      exists pre, snd (read_model obj header body) = (pre ++ [commit t])%list /\
                  Forall (fun x => x = obj \/ x = empty_obj) pre.
  Proof.
    intros H F. unfold ApiGuards.read_model. rewrite H.
    destruct (body_run_success body tmp0 F) as [t [P [B [pre [Tr Fa]]]]]. exists t. split; [assumption|].
    destruct (body_run tmp0 body) as [[o s] tr]. cbn in *. split; [assumption|].
    exists (map (fun _ => obj) header ++ empty_obj :: pre)%list. split.
    - rewrite Tr. rewrite <- app_assoc. reflexivity.
    - apply Forall_app. split.
      + apply Forall_forall. intros x Hx. apply in_map_iff in Hx. destruct Hx as [? [Hx _]]. left. now subst.
      + constructor; [now right|]. eapply Forall_impl; [|exact Fa]. intros x Hx. now right.
  Qed.

  (* every outcome of the reader is one of the three: untouched, cleared, fully assigned *)
  Lemma read_never_partial obj header body :
    let '(o, s, tr) := read_model obj header body in
    (s = RThrow /\ (o = obj \/ o = empty_obj) /\ Forall (fun x => x = obj \/ x = empty_obj) tr) \/
    (s = ROk /\ exists t, parse_all tmp0 body = Some t /\ o = commit t).
  Proof.
    destruct (forallb header_ok header) eqn:H.
    - destruct (first_failure tmp0 body) as [n|] eqn:F.
      + destruct (read_body_failure obj header body n H F) as [H1 H2].
        destruct (read_model obj header body) as [[o s] tr]. cbn in *. inversion H1; subst.
        left. split; [reflexivity|]. split; [now right|assumption].
      + destruct (read_success obj header body H F) as [t [P [B _]]].
        destruct (read_model obj header body) as [[o s] tr]. cbn in *. inversion B; subst.
        right. split; [reflexivity|]. now exists t.
    - destruct (read_header_failure obj header body H) as [H1 H2].
      destruct (read_model obj header body) as [[o s] tr]. cbn in *. inversion H1; subst.
      left. split; [reflexivity|]. split; [now left|].
      eapply Forall_impl; [|exact H2]. intros x Hx. now left.
  Qed.
End ReaderProofs.

(* ------------------------------------------------------------------ facts about the regenerated tables *)
Definition tbl := TV.gen.ApiGuards.api_methods.

(* the named lists: every reachable (public or protected) method whose exceptions can leave the object in a state
   other than the one at entry *)
Definition make_methods : list string :=
  ["makeGlobalGrid#0"; "makeGlobalGrid#1"; "makeGlobalGrid#2"; "makeGlobalGrid#3"; "makeSequenceGrid#0"; "makeSequenceGrid#1";
   "makeLocalPolynomialGrid#0"; "makeLocalPolynomialGrid#1"; "makeWaveletGrid#0"; "makeWaveletGrid#1";
   "makeFourierGrid#0"; "makeFourierGrid#1"].
Definition read_methods : list string := ["read#0"; "read#1"; "read#2"; "readAscii#0"; "readBinary#0"].
(* copy: clear(), then the family copy constructor, then setDomainTransform (whose guards cannot fire for a
   source that satisfies the class invariant) — a failure leaves the target cleared or with the new family object *)
Definition copy_methods : list string := ["TasmanianSparseGrid#1"; "operator=#0"; "copyGrid#0"; "copyGrid#1"].
(* the level limits are stored before the family call (or a later guard of the overload delegated to) can throw.
   Limits are not "points, values or surrogate": recorded, observed at run time. *)
Definition limits_first_methods : list string :=
  ["updateGlobalGrid#0"; "updateGlobalGrid#1"; "updateSequenceGrid#0"; "updateSequenceGrid#1"; "updateFourierGrid#0";
   "updateFourierGrid#1"; "updateGrid#0"; "updateGrid#1"; "setAnisotropicRefinement#0"; "setAnisotropicRefinement#1";
   "getAnisotropicRefinement#0"; "setSurplusRefinement#0"; "setSurplusRefinement#1"; "getSurplusRefinement#0";
   "setSurplusRefinement#2"; "setSurplusRefinement#3"; "getSurplusRefinement#1";
   "getCandidateConstructionPoints#0"; "getCandidateConstructionPoints#1"; "getCandidateConstructionPoints#2"].
(* beginConstruction: clearRefinement(), flag, then the family call that allocates the construction data *)
Definition flag_first_methods : list string := ["beginConstruction#0"].

Definition class_check (m : method) : bool :=
  negb (reachable_api m) ||
  (let r := analyse tbl m in
   let k := m_key m in
   if mem k make_methods then r_clear_then ["llimits"] r && r_guards_first r
   else if mem k read_methods then r_clear_then [] r
   else if mem k copy_methods then r_clear_then ["base"] r
   else if mem k limits_first_methods then r_only ["llimits"] r
   else if mem k flag_first_methods then r_only ["base*"; "using_dynamic_construction"] r
   else r_only [] r).

Definition listed : list string :=
  (make_methods ++ read_methods ++ copy_methods ++ limits_first_methods ++ flag_first_methods)%list.

Lemma class_check_all : forallb class_check tbl = true.
Proof. vm_compute. reflexivity. Qed.

(* the lists are tight: every listed method really is one whose throw points are not all "unchanged", and nothing else is *)
Lemma listed_exact :
  subset listed (map fst (exceptions_of tbl)) = true /\ subset (map fst (exceptions_of tbl)) listed = true.
Proof. split; vm_compute; reflexivity. Qed.

Lemma exception_types_all : forallb exception_types_ok tbl = true.
Proof. vm_compute. reflexivity. Qed.

Lemma fields_partition :
  let names := map (fun x => fst (fst x)) TV.gen.ApiGuards.api_fields in
  subset names (state_fields ++ non_state_fields)%list = true /\ subset (state_fields ++ non_state_fields)%list names = true.
Proof. split; vm_compute; reflexivity. Qed.

Lemma documented_types_ok :
  forallb (fun c => match c_kind c with Tagged => exc_ok (c_exc c) | Prose => true end) TV.gen.DocThrows.doc_throws = true.
Proof. vm_compute. reflexivity. Qed.

(* lifting to "for every method of the table" *)
Lemma class_check_forall : forall m, In m tbl -> class_check m = true.
Proof. apply forallb_forall. exact class_check_all. Qed.

Lemma unlisted_unchanged : forall m, In m tbl -> reachable_api m = true -> mem (m_key m) listed = false ->
  r_only [] (analyse tbl m) = true.
Proof.
  intros m Hin Hr Hl. pose proof (class_check_forall m Hin) as H. unfold class_check in H.
  rewrite Hr in H. cbn [negb orb] in H.
  unfold listed in Hl.
  assert (forall a b, mem (m_key m) (a ++ b)%list = false -> mem (m_key m) a = false /\ mem (m_key m) b = false) as Sp.
  { intros a b Hab. unfold mem in *. rewrite existsb_app in Hab. now apply orb_false_iff in Hab. }
  apply Sp in Hl. destruct Hl as [H1 Hl]. apply Sp in Hl. destruct Hl as [H2 Hl].
  apply Sp in Hl. destruct Hl as [H3 Hl]. apply Sp in Hl. destruct Hl as [H4 H5].
  rewrite H1, H2, H3, H4, H5 in H. exact H.
Qed.

Lemma method_body_semantics_unchanged (V : Type) (empty_store : store V) :
  forall m, In m tbl -> reachable_api m = true -> mem (m_key m) listed = false ->
  forall fuel st os st',
    exec V empty_store fuel (Scope (inline tbl inline_depth (m_key m) (m_const m))) st os = Threw V st' ->
    forall f, st' f = st f.
Proof.
  intros m Hin Hr Hl fuel st os st' E f.
  eapply (only_sound V empty_store [] _ fuel st os st'); [|exact E|reflexivity].
  now apply unlisted_unchanged.
Qed.

Lemma listed_semantics (V : Type) (empty_store : store V) :
  forall m, In m tbl -> reachable_api m = true ->
  forall fuel st os st',
    exec V empty_store fuel (Scope (inline tbl inline_depth (m_key m) (m_const m))) st os = Threw V st' ->
    let k := m_key m in
    (mem k make_methods = true -> (forall f, st' f = st f) \/ (forall f, f <> "llimits" -> st' f = empty_store f)) /\
    (mem k read_methods = true -> (forall f, st' f = st f) \/ (forall f, st' f = empty_store f)) /\
    (mem k make_methods = false -> mem k read_methods = false -> mem k copy_methods = false ->
     mem k limits_first_methods = true -> forall f, f <> "llimits" -> st' f = st f).
Proof.
  intros m Hin Hr fuel st os st' E k.
  pose proof (class_check_forall m Hin) as H. unfold class_check in H. rewrite Hr in H. cbn [negb orb] in H.
  fold k in H. repeat split.
  - intros Hk. rewrite Hk in H. apply andb_true_iff in H. destruct H as [H _].
    destruct (clear_then_sound V empty_store ["llimits"] _ fuel st os st' H E) as [A|A]; [now left|right].
    intros f Hf. apply A. cbn. destruct (String.eqb f "llimits") eqn:Eq; [|reflexivity].
    apply String.eqb_eq in Eq. contradiction.
  - intros Hk. destruct (mem k make_methods) eqn:Hm.
    + (* no key is in both lists *)
      exfalso. revert Hm Hk. unfold k. clear. intros Hm Hk.
      apply mem_In in Hm. apply mem_In in Hk.
      cbn in Hm, Hk. repeat (destruct Hm as [Hm|Hm]; [rewrite <- Hm in Hk; cbn in Hk;
        repeat (destruct Hk as [Hk|Hk]; [discriminate|]); destruct Hk|]). destruct Hm.
    + rewrite Hk in H.
      destruct (clear_then_sound V empty_store [] _ fuel st os st' H E) as [A|A]; [now left|right].
      intros f. now apply A.
  - intros H1 H2 H3 H4 f Hf. rewrite H1, H2, H3, H4 in H.
    eapply (only_sound V empty_store ["llimits"] _ fuel st os st' H E).
    cbn. destruct (String.eqb f "llimits") eqn:Eq; [|reflexivity].
    apply String.eqb_eq in Eq. contradiction.
Qed.

(* the throw statements of the other SparseGrids sources: construction of one-dimensional rules (custom table,
   Gauss-Patterson table), GPU-only paths and the dense solvers — none in a const query of a grid family *)
Lemma family_throw_inventory :
  map (fun x => fst (fst x)) TV.gen.ApiGuards.family_throw_sites =
  ["tsgAcceleratedDataStructures.hpp"; "tsgAcceleratedDataStructures.hpp"; "tsgAcceleratedDataStructures.hpp";
   "tsgAcceleratedDataStructures.hpp"; "tsgCoreOneDimensional.cpp"; "tsgCoreOneDimensional.cpp"; "tsgCoreOneDimensional.cpp";
   "tsgCoreOneDimensional.hpp"; "tsgGridLocalPolynomial.cpp"; "tsgGridWavelet.cpp";
   "tsgIOHelpers.hpp"; "tsgIOHelpers.hpp"; "tsgIOHelpers.hpp";   (* binary readers: truncated stream (read paths only, never a const query) *)
   "tsgLinearSolvers.cpp";
   "tsgLinearSolvers.cpp"; "tsgLinearSolvers.cpp"; "tsgLinearSolvers.cpp"; "tsgOneDimensionalWrapper.hpp";
   "tsgOneDimensionalWrapper.hpp"].
Proof. vm_compute. reflexivity. Qed.
