(* Proofs about the ParticleSwarm model (C20). *)
From TV Require Import Common.Prelude Model.Swarm.

(* ---------- list helpers ---------- *)
Lemma Forall2_transfer {A B} (Rel : A -> B -> Prop) (P : A -> Prop) (Q : B -> Prop) l l' :
  Forall2 Rel l l' -> (forall a b, In a l -> Rel a b -> P a -> Q b) -> Forall P l -> Forall Q l'.
Proof.
  induction 1 as [|a b l l' Hab _ IH]; intros Himp HP; [constructor|].
  inversion HP; subst. constructor.
  - eapply Himp; eauto. left; reflexivity.
  - apply IH; [|assumption]. intros; eapply Himp; eauto. right; assumption.
Qed.

Lemma Forall2_map_eq {A B C} (Rel : A -> B -> Prop) (g : A -> C) (h : B -> C) l l' :
  Forall2 Rel l l' -> (forall a b, Rel a b -> h b = g a) -> map h l' = map g l.
Proof. induction 1; intros Hh; cbn; [reflexivity|]. f_equal; auto. Qed.

Lemma Forall2_length' {A B} (Rel : A -> B -> Prop) l l' : Forall2 Rel l l' -> length l' = length l.
Proof. induction 1; cbn; congruence. Qed.

Lemma map2_Forall2 {A B} (g : A -> B -> A) (Rel : A -> A -> Prop) l l2 :
  (forall a b, Rel a (g a b)) -> length l <= length l2 -> Forall2 Rel l (map2 g l l2).
Proof.
  intros Hg. revert l2; induction l as [|a l IH]; intros [|b l2] Hlen; cbn in *; try constructor; try lia.
  - apply Hg.
  - apply IH; lia.
Qed.

Lemma flat_map_map {A B C} (g : A -> B) (h : B -> list C) l : flat_map h (map g l) = flat_map (fun a => h (g a)) l.
Proof. induction l; cbn; congruence. Qed.

Lemma flat_map_via_map {A B} (h : A -> list B) l : flat_map h l = concat (map h l).
Proof. induction l; cbn; congruence. Qed.

Section Generic.
  Variable R : Type.
  Variables (zero two maxval rdef : R) (add sub mul : R -> R -> R) (fabs : R -> R).
  Variable ltb : R -> R -> bool.
  Variable f : list R -> R.
  Variable inside : list R -> bool.

  Notation particle := (particle R).
  Notation swarm := (swarm R).
  Notation rstream := (rstream R).
  Notation fresh := (fresh R zero maxval).
  Notation block := (block R inside).
  Notation eval_pos := (eval_pos R zero f inside).
  Notation eval_best := (eval_best R zero f inside).
  Notation fc_positions := (fc_positions R zero f inside).
  Notation fc_bests := (fc_bests R zero f inside).
  Notation upd1 := (upd1 R ltb).
  Notation upd_all := (upd_all R ltb).
  Notation update := (update R ltb).
  Notation setup := (setup R zero ltb f inside).
  Notation velocities := (velocities R rdef add sub mul).
  Notation vels_sw := (vels_sw R rdef add sub mul).
  Notation vels_nosw := (vels_nosw R rdef add sub mul).
  Notation move := (move R add).
  Notation move_p := (move_p R add).
  Notation step := (step R zero rdef add sub mul ltb f inside).
  Notation iterate := (iterate R zero rdef add sub mul ltb f inside).
  Notation run := (run R zero rdef add sub mul ltb f inside).
  Notation apply_op := (apply_op R zero two rdef add sub mul fabs ltb f inside).
  Notation exec := (exec R zero two rdef add sub mul fabs ltb f inside).
  Notation init_box := (init_box R two rdef add sub mul fabs).
  Notation init_parts := (init_parts R two rdef add sub mul fabs).
  Notation init_strip := (init_strip R two rdef add sub mul fabs).
  Notation clear_cache := (clear_cache R zero).
  Notation clear_best := (clear_best R zero).
  Notation clear_best_orig := (clear_best_orig R zero).
  Notation clear_cache_p := (clear_cache_p R zero).
  Notation clear_best_p := (clear_best_p R zero).
  Notation fpoints := (fpoints R).
  Notation seenl := (seenl R).
  Notation le := (le R ltb).

  (* ================================================================================================ *)
  (* Part 1: the callback trace                                                                       *)
  (* ================================================================================================ *)

  (* tr' extends tr by whole f_constrained blocks *)
  Definition ext (tr tr' : list (call R)) : Prop := exists ptss, tr' = tr ++ flat_map block ptss.

  Lemma ext_refl tr : ext tr tr.
  Proof. exists []; cbn; rewrite app_nil_r; reflexivity. Qed.
  Lemma ext_trans a b c : ext a b -> ext b c -> ext a c.
  Proof. intros [p1 ->] [p2 ->]. exists (p1 ++ p2). rewrite flat_map_app, app_assoc. reflexivity. Qed.
  Lemma ext_block tr pts : ext tr (tr ++ block pts).
  Proof. exists [pts]; cbn; rewrite app_nil_r; reflexivity. Qed.

  Lemma fpoints_app a b : fpoints (a ++ b) = fpoints a ++ fpoints b.
  Proof.
    induction a as [|c a IH]; cbn; [reflexivity|]. destruct c; [assumption|]. rewrite IH, app_assoc; reflexivity.
  Qed.
  Lemma fpoints_mapI pts : fpoints (map CallI pts) = [].
  Proof. induction pts; cbn; auto. Qed.
  Lemma fpoints_block pts : fpoints (block pts) = filter inside pts.
  Proof.
    unfold Swarm.block. rewrite fpoints_app, fpoints_mapI. cbn.
    destruct (filter inside pts); cbn; [reflexivity|]. rewrite app_nil_r; reflexivity.
  Qed.
  Lemma fpoints_blocks ptss : fpoints (flat_map block ptss) = flat_map (filter inside) ptss.
  Proof. induction ptss; cbn; [reflexivity|]. rewrite fpoints_app, fpoints_block, IHptss; reflexivity. Qed.

  Lemma ext_fpoints tr tr' : ext tr tr' -> forall p, In p (fpoints tr') -> In p (fpoints tr) \/ inside p = true.
  Proof.
    intros [ptss ->] p. rewrite fpoints_app, in_app_iff, fpoints_blocks. intros [H|H]; [left; exact H|right].
    apply in_flat_map in H as [pts [_ H]]. apply filter_In in H. tauto.
  Qed.
  Lemma ext_fpoints_mono tr tr' : ext tr tr' -> forall p, In p (fpoints tr) -> In p (fpoints tr').
  Proof. intros [ptss ->] p H. rewrite fpoints_app, in_app_iff. left; exact H. Qed.

  (* trace of every primitive *)
  Lemma trace_update st : trace R (update st) = trace R st.
  Proof. unfold Swarm.update. destruct (upd_all _ _) as [ps [[sp sf] sb]]. reflexivity. Qed.
  Lemma trace_velocities w c1 c2 st s : trace R (fst (velocities w c1 c2 st s)) = trace R st.
  Proof. unfold Swarm.velocities. destruct (sbin R st); destruct (Swarm.draw_n _ _ _ _); reflexivity. Qed.

  Lemma ext_setup st : ext (trace R st) (trace R (setup st)).
  Proof.
    unfold Swarm.setup. cbn [trace Swarm.set_binit]. rewrite trace_update.
    destruct (cinit R st); [apply ext_refl|].
    cbn [Swarm.set_cinit trace]. destruct (binit R (fc_positions st)).
    - eapply ext_trans; apply ext_block.
    - apply ext_block.
  Qed.
  Lemma ext_step w c1 c2 x : ext (trace R (fst x)) (trace R (fst (step w c1 c2 x))).
  Proof.
    unfold Swarm.step. pose proof (trace_velocities w c1 c2 (fst x) (snd x)) as Hv.
    destruct (velocities w c1 c2 (fst x) (snd x)) as [st1 s1]. cbn [fst] in *.
    rewrite trace_update. cbn [Swarm.fc_positions trace Swarm.move Swarm.set_parts]. rewrite Hv. apply ext_block.
  Qed.
  Lemma ext_iterate w c1 c2 k : forall x, ext (trace R (fst x)) (trace R (fst (iterate w c1 c2 k x))).
  Proof.
    induction k as [|k IH]; intros x; cbn; [apply ext_refl|].
    eapply ext_trans; [apply ext_step|apply IH].
  Qed.
  Lemma ext_run n w c1 c2 st s : ext (trace R st) (trace R (fst (run n w c1 c2 st s))).
  Proof.
    unfold Swarm.run. destruct (pinit R st && vinit R st); [|apply ext_refl].
    eapply ext_trans; [apply ext_setup|]. apply (ext_iterate w c1 c2 _ (setup st, s)).
  Qed.

  Lemma trace_set_positions fl st : trace R (set_positions R fl st) = trace R st.
  Proof. unfold set_positions. destruct (_ =? _); reflexivity. Qed.
  Lemma trace_set_velocities fl st : trace R (set_velocities R fl st) = trace R st.
  Proof. unfold set_velocities. destruct (_ =? _); reflexivity. Qed.
  Lemma trace_set_bests fl st : trace R (set_bests R fl st) = trace R st.
  Proof. unfold set_bests. destruct (_ =? _); reflexivity. Qed.
  Lemma trace_init_box lo up st s : trace R (fst (init_box lo up st s)) = trace R st.
  Proof. unfold Swarm.init_box. destruct (_ && _); [|reflexivity]. destruct (init_parts _ _ _ _); reflexivity. Qed.

  Lemma ext_apply_op rep o x : ext (trace R (fst x)) (trace R (fst (apply_op rep o x))).
  Proof.
    destruct o; cbn [Swarm.apply_op fst].
    - rewrite trace_init_box; apply ext_refl.
    - rewrite trace_set_positions; apply ext_refl.
    - rewrite trace_set_velocities; apply ext_refl.
    - rewrite trace_set_bests; apply ext_refl.
    - apply ext_refl.
    - destruct rep; apply ext_refl.
    - apply ext_run.
  Qed.
  Lemma ext_exec rep h : forall x, ext (trace R (fst x)) (trace R (fst (exec rep h x))).
  Proof.
    induction h as [|o h IH]; intros x; cbn; [apply ext_refl|].
    eapply ext_trans; [apply ext_apply_op|apply IH].
  Qed.

  (* every history, from every state: the trace grows by whole blocks, hence only in-domain points reach f *)
  Theorem exec_trace_structure rep h st s :
    exists ptss, trace R (fst (exec rep h (st, s))) = trace R st ++ flat_map block ptss.
  Proof. exact (ext_exec rep h (st, s)). Qed.

  Theorem exec_only_inside rep h st s p :
    In p (fpoints (trace R (fst (exec rep h (st, s))))) -> In p (fpoints (trace R st)) \/ inside p = true.
  Proof. apply ext_fpoints. exact (ext_exec rep h (st, s)). Qed.

  Theorem exec_fresh_only_inside rep h d np s p :
    In p (fpoints (trace R (fst (exec rep h (fresh d np, s))))) -> inside p = true.
  Proof. intros H. apply exec_only_inside in H as [H|H]; [destruct H|exact H]. Qed.

  (* ================================================================================================ *)
  (* Part 2: cache coherence                                                                          *)
  (* ================================================================================================ *)

  (* --- specification --- *)
  (* particle cache: the flag is inside(position); when set, the value is f(position) and the position was recorded *)
  Definition PA (p : particle) : Prop :=
    cin R p = inside (pos R p) /\ (cin R p = true -> cf R p = f (pos R p) /\ In (pos R p) (vis R p)).
  (* best cache: when set, the best position is inside, the value is f there, and the point was recorded for this particle *)
  Definition PB (p : particle) : Prop :=
    bin R p = true -> inside (bpos R p) = true /\ bf R p = f (bpos R p) /\ In (bpos R p) (seenl p).
  (* a particle with cleared caches *)
  Definition PD (p : particle) : Prop := cin R p = false /\ bin R p = false /\ vis R p = [] /\ given R p = [].
  (* recorded points are in-domain points that were passed to f *)
  Definition PE (tr : list (call R)) (p : particle) : Prop :=
    forall q, In q (seenl p) -> inside q = true /\ In q (fpoints tr).
  Definition allseen (st : swarm) : list (list R) := sgiven R st ++ flat_map seenl (parts R st).

  Record Inv (st : swarm) : Prop := mkInv {
    inv_A : cinit R st = true -> Forall PA (parts R st);
    inv_B : Forall PB (parts R st);
    inv_C : sbin R st = true ->
            inside (sbpos R st) = true /\ sbf R st = f (sbpos R st) /\ In (sbpos R st) (allseen st);
    inv_D : cinit R st = false -> Forall PD (parts R st) /\ sbin R st = false /\ sgiven R st = [];
    inv_E : Forall (PE (trace R st)) (parts R st) /\
            (forall q, In q (sgiven R st) -> inside q = true /\ In q (fpoints (trace R st)))
  }.

  (* the edits that need clean caches (the state must not have been run since construction / the last clearCache) *)
  Definition supported (st : swarm) (o : op R) : Prop :=
    match o with
    | OInit _ _ | OSetPos _ | OSetBest _ => cinit R st = false
    | _ => True
    end.
  Fixpoint supported_h (h : list (op R)) (x : swarm * rstream) : Prop :=
    match h with
    | [] => True
    | o :: h' => supported (fst x) o /\ supported_h h' (apply_op true o x)
    end.

  (* --- update() --- *)
  Definition cond (p : particle) : bool := cin R p && (negb (bin R p) || ltb (cf R p) (bf R p)).
  Definition promote (p : particle) : particle :=
    mkP (pos R p) (vel R p) (pos R p) (cf R p) (cin R p) (cf R p) true (vis R p) (given R p).
  Definition urel (p p' : particle) : Prop := (cond p = false /\ p' = p) \/ (cond p = true /\ p' = promote p).

  Lemma upd1_fst acc p : urel p (fst (upd1 acc p)).
  Proof.
    destruct acc as [[sp sf] sb]. unfold Swarm.upd1, urel, cond.
    destruct (cin R p && _); [right|left; cbn; auto].
    destruct (negb sb || _); cbn; auto.
  Qed.
  Lemma upd1_snd acc p :
    snd (upd1 acc p) = acc \/ (cond p = true /\ snd (upd1 acc p) = (pos R p, cf R p, true)).
  Proof.
    destruct acc as [[sp sf] sb]. unfold Swarm.upd1, cond.
    destruct (cin R p && _); [|left; reflexivity].
    destruct (negb sb || _); cbn; auto.
  Qed.
  Lemma upd_all_rel ps : forall acc, Forall2 urel ps (fst (upd_all ps acc)).
  Proof.
    induction ps as [|p r IH]; intros acc; cbn; [constructor|].
    pose proof (upd1_fst acc p) as H1. destruct (upd1 acc p) as [p' a1]. specialize (IH a1).
    destruct (upd_all r a1) as [r' a2]. cbn in *. constructor; assumption.
  Qed.
  Lemma upd_all_acc (P : sbest R -> Prop) ps : forall acc,
    P acc -> (forall p, In p ps -> cond p = true -> P (pos R p, cf R p, true)) -> P (snd (upd_all ps acc)).
  Proof.
    induction ps as [|p r IH]; intros acc Ha Hp; cbn; [exact Ha|].
    pose proof (upd1_snd acc p) as H1. destruct (upd1 acc p) as [p' a1]. specialize (IH a1).
    destruct (upd_all r a1) as [r' a2]. cbn in *. apply IH.
    - destruct H1 as [->|[Hc ->]]; [exact Ha|]. apply Hp; [left; reflexivity|exact Hc].
    - intros q Hq. apply Hp. right; exact Hq.
  Qed.

  Lemma update_parts st : parts R (update st) = fst (upd_all (parts R st) (sbpos R st, sbf R st, sbin R st)).
  Proof. unfold Swarm.update. destruct (upd_all _ _) as [ps [[sp sf] sb]]. reflexivity. Qed.
  Lemma update_sb st :
    (sbpos R (update st), sbf R (update st), sbin R (update st)) = snd (upd_all (parts R st) (sbpos R st, sbf R st, sbin R st)).
  Proof. unfold Swarm.update. destruct (upd_all _ _) as [ps [[sp sf] sb]]. reflexivity. Qed.
  Lemma update_frame st :
    nd R (update st) = nd R st /\ sgiven R (update st) = sgiven R st /\ pinit R (update st) = pinit R st /\
    vinit R (update st) = vinit R st /\ binit R (update st) = binit R st /\ cinit R (update st) = cinit R st.
  Proof. unfold Swarm.update. destruct (upd_all _ _) as [ps [[sp sf] sb]]. cbn. tauto. Qed.

  Lemma urel_seenl p p' : urel p p' -> seenl p' = seenl p.
  Proof. intros [[_ ->]|[_ ->]]; reflexivity. Qed.
  Lemma update_seenl st : map seenl (parts R (update st)) = map seenl (parts R st).
  Proof. rewrite update_parts. eapply Forall2_map_eq; [apply upd_all_rel|]. intros a b; apply urel_seenl. Qed.
  Lemma allseen_eq st st' :
    sgiven R st' = sgiven R st -> map seenl (parts R st') = map seenl (parts R st) -> allseen st' = allseen st.
  Proof. unfold allseen. intros -> H. rewrite !flat_map_via_map, H. reflexivity. Qed.

  Lemma cond_true p : cond p = true -> cin R p = true.
  Proof. unfold cond. intros H; apply andb_prop in H; tauto. Qed.

  Lemma PA_urel p p' : urel p p' -> PA p -> PA p'.
  Proof. intros [[_ ->]|[_ ->]]; auto. Qed.
  Lemma PB_urel p p' : urel p p' -> PA p -> PB p -> PB p'.
  Proof.
    intros [[_ ->]|[Hc ->]] HA HB; [exact HB|]. intros _. cbn.
    destruct HA as [Hi Hv]. pose proof (cond_true p Hc) as Hcin. destruct (Hv Hcin) as [Hf Hin].
    repeat split; [congruence|exact Hf|]. unfold Swarm.seenl. cbn. apply in_or_app; left; exact Hin.
  Qed.
  Lemma PE_seenl tr p p' : seenl p' = seenl p -> PE tr p -> PE tr p'.
  Proof. unfold PE. intros ->; auto. Qed.

  Lemma in_flat_seenl (ps : list particle) p q : In p ps -> In q (seenl p) -> In q (flat_map seenl ps).
  Proof. intros; apply in_flat_map; eauto. Qed.

  (* update() preserves coherence of a state whose particle cache is coherent *)
  Lemma update_Inv st : cinit R st = true -> Inv st -> Inv (update st).
  Proof.
    intros Hci [HA HB HC HD HE]. specialize (HA Hci).
    destruct (update_frame st) as (_ & Hsg & _ & _ & _ & Hc').
    pose proof (upd_all_rel (parts R st) (sbpos R st, sbf R st, sbin R st)) as Hrel. rewrite <- update_parts in Hrel.
    assert (Hall : allseen (update st) = allseen st) by (apply allseen_eq; [exact Hsg|apply update_seenl]).
    constructor.
    - intros _. eapply Forall2_transfer; [exact Hrel| |exact HA]. intros a b _ Hab; apply PA_urel; exact Hab.
    - rewrite Forall_forall in HA. eapply Forall2_transfer; [exact Hrel| |exact HB].
      intros a b Ha Hab; apply PB_urel; auto.
    - pose proof (update_sb st) as Hsb.
      set (P := fun a : sbest R => let '(sp, sf, sb) := a in
                 sb = true -> inside sp = true /\ sf = f sp /\ In sp (allseen st)).
      assert (HP : P (snd (upd_all (parts R st) (sbpos R st, sbf R st, sbin R st)))).
      { apply upd_all_acc; [exact HC|]. intros p Hp Hcp _. rewrite Forall_forall in HA.
        destruct (HA p Hp) as [Hi Hv]. destruct (Hv (cond_true p Hcp)) as [Hf Hin].
        repeat split; [rewrite <- Hi; apply cond_true; exact Hcp|exact Hf|].
        unfold allseen. apply in_or_app; right. eapply in_flat_seenl; [exact Hp|].
        unfold Swarm.seenl; apply in_or_app; left; exact Hin. }
      rewrite <- Hsb in HP. cbn in HP. rewrite Hall. exact HP.
    - rewrite Hc', Hci. discriminate.
    - rewrite trace_update, Hsg. split; [|apply HE].
      destruct HE as [HE _]. eapply Forall2_transfer; [exact Hrel| |exact HE].
      intros a b _ Hab. apply PE_seenl. apply urel_seenl; exact Hab.
  Qed.

  (* --- the part of the invariant that does not mention positions / the particle cache --- *)
  Record Core (st : swarm) : Prop := mkCore {
    core_B : Forall PB (parts R st);
    core_C : sbin R st = true ->
             inside (sbpos R st) = true /\ sbf R st = f (sbpos R st) /\ In (sbpos R st) (allseen st);
    core_E : Forall (PE (trace R st)) (parts R st) /\
             (forall q, In q (sgiven R st) -> inside q = true /\ In q (fpoints (trace R st)))
  }.
  Lemma Inv_Core st : Inv st -> Core st.
  Proof. intros [HA HB HC HD HE]; constructor; assumption. Qed.

  (* particles that differ only in position, velocity and particle cache *)
  Definition brel (p p' : particle) : Prop :=
    bpos R p' = bpos R p /\ bf R p' = bf R p /\ bin R p' = bin R p /\ vis R p' = vis R p /\ given R p' = given R p.
  Lemma brel_seenl p p' : brel p p' -> seenl p' = seenl p.
  Proof. intros (_ & _ & _ & Hv & Hg). unfold Swarm.seenl. rewrite Hv, Hg; reflexivity. Qed.
  Lemma PB_brel p p' : brel p p' -> PB p -> PB p'.
  Proof.
    intros Hb HB. pose proof (brel_seenl _ _ Hb) as Hs. destruct Hb as (H1 & H2 & H3 & _ & _).
    unfold PB. rewrite H1, H2, H3, Hs. exact HB.
  Qed.
  Lemma brel_set_vel p v : brel p (set_vel R p v).
  Proof. repeat split. Qed.
  Lemma brel_set_pos p x : brel p (set_pos R p x).
  Proof. repeat split. Qed.

  Lemma Core_frame st st' :
    Forall2 brel (parts R st) (parts R st') ->
    sbpos R st' = sbpos R st -> sbf R st' = sbf R st -> sbin R st' = sbin R st -> sgiven R st' = sgiven R st ->
    trace R st' = trace R st -> Core st -> Core st'.
  Proof.
    intros Hrel H1 H2 H3 H4 H5 [HB HC HE].
    assert (Hall : allseen st' = allseen st).
    { apply allseen_eq; [exact H4|]. eapply Forall2_map_eq; [exact Hrel|]. intros a b; apply brel_seenl. }
    constructor.
    - eapply Forall2_transfer; [exact Hrel| |exact HB]. intros a b _ Hab; apply PB_brel; exact Hab.
    - rewrite H1, H2, H3, Hall. exact HC.
    - rewrite H4, H5. split; [|apply HE]. destruct HE as [HE _].
      eapply Forall2_transfer; [exact Hrel| |exact HE]. intros a b _ Hab. apply PE_seenl, brel_seenl; exact Hab.
  Qed.

  (* --- velocities and positions --- *)
  Lemma vels_sw_brel w c1 c2 sb ps : forall rs, Forall2 brel ps (vels_sw w c1 c2 sb ps rs).
  Proof. induction ps as [|p r IH]; intros rs; cbn; constructor; [apply brel_set_vel|apply IH]. Qed.
  Lemma vels_nosw_brel w c1 ps : forall rs, Forall2 brel ps (vels_nosw w c1 ps rs).
  Proof. induction ps as [|p r IH]; intros rs; cbn; constructor; [apply brel_set_vel|apply IH]. Qed.
  Lemma map_brel (g : particle -> particle) ps : (forall p, brel p (g p)) -> Forall2 brel ps (map g ps).
  Proof. intros Hg. induction ps; cbn; constructor; auto. Qed.

  Lemma velocities_frame w c1 c2 st s :
    let st' := fst (velocities w c1 c2 st s) in
    Forall2 brel (parts R st) (parts R st') /\ sbpos R st' = sbpos R st /\ sbf R st' = sbf R st /\
    sbin R st' = sbin R st /\ sgiven R st' = sgiven R st /\ trace R st' = trace R st /\
    pinit R st' = pinit R st /\ vinit R st' = vinit R st /\ binit R st' = binit R st /\ cinit R st' = cinit R st /\
    nd R st' = nd R st.
  Proof.
    unfold Swarm.velocities. destruct (sbin R st) eqn:Hsb; destruct (Swarm.draw_n _ _ _ _) as [rs s']; cbn;
      rewrite ?Hsb; repeat split; [apply vels_sw_brel|apply vels_nosw_brel].
  Qed.
  Lemma velocities_Core w c1 c2 st s : Core st -> Core (fst (velocities w c1 c2 st s)).
  Proof. destruct (velocities_frame w c1 c2 st s) as (H0 & H1 & H2 & H3 & H4 & H5 & _). apply Core_frame; assumption. Qed.
  Lemma move_Core st : Core st -> Core (move st).
  Proof. apply Core_frame; try reflexivity. cbn. apply map_brel. intros p; apply brel_set_pos. Qed.

  (* --- f_constrained on the positions --- *)
  Lemma seenl_eval_pos p q : In q (seenl p) -> In q (seenl (eval_pos p)).
  Proof.
    unfold Swarm.eval_pos, Swarm.seenl. destruct (inside (pos R p)); cbn; [|auto].
    rewrite !in_app_iff. cbn. tauto.
  Qed.
  Lemma PA_eval_pos p : PA (eval_pos p).
  Proof.
    unfold Swarm.eval_pos, PA. destruct (inside (pos R p)) eqn:Hi; cbn; rewrite ?Hi; split; auto; try discriminate.
    intros _. split; [reflexivity|]. apply in_or_app; right; left; reflexivity.
  Qed.
  Lemma PB_eval_pos p : PB p -> PB (eval_pos p).
  Proof.
    intros HB Hb. assert (Hb' : bin R p = true) by (revert Hb; unfold Swarm.eval_pos; destruct (inside _); auto).
    destruct (HB Hb') as (H1 & H2 & H3). apply seenl_eval_pos in H3.
    revert H3; unfold Swarm.eval_pos; destruct (inside (pos R p)); cbn; auto.
  Qed.
  Lemma PE_eval_pos tr pts p : In (pos R p) pts -> PE tr p -> PE (tr ++ block pts) (eval_pos p).
  Proof.
    intros Hin HE q Hq. rewrite fpoints_app, fpoints_block, in_app_iff.
    assert (Hcase : In q (seenl p) \/ (q = pos R p /\ inside (pos R p) = true)).
    { revert Hq. unfold Swarm.eval_pos, Swarm.seenl. destruct (inside (pos R p)); cbn; [|auto].
      rewrite !in_app_iff. cbn. intros [[H|[H|[]]]|H]; auto. }
    destruct Hcase as [H|[-> Hi]].
    - destruct (HE q H); auto.
    - split; [exact Hi|right]. apply filter_In; auto.
  Qed.
  Lemma PE_mono tr tr' p : (forall q, In q (fpoints tr) -> In q (fpoints tr')) -> PE tr p -> PE tr' p.
  Proof. intros Hm HE q Hq. destruct (HE q Hq); auto. Qed.

  Lemma eval_pos_frame p :
    bpos R (eval_pos p) = bpos R p /\ bf R (eval_pos p) = bf R p /\ bin R (eval_pos p) = bin R p /\
    given R (eval_pos p) = given R p /\ pos R (eval_pos p) = pos R p /\ vel R (eval_pos p) = vel R p.
  Proof. unfold Swarm.eval_pos. destruct (inside _); cbn; repeat split. Qed.

  Lemma fc_positions_Core st : Core st -> Core (fc_positions st) /\ Forall PA (parts R (fc_positions st)).
  Proof.
    intros [HB HC HE]. split; [constructor|]; cbn [Swarm.fc_positions parts sbin sbpos sbf sgiven trace].
    - rewrite Forall_map. eapply Forall_impl; [|exact HB]. intros a; apply PB_eval_pos.
    - intros Hs. destruct (HC Hs) as (H1 & H2 & H3). repeat split; auto.
      unfold allseen in *. cbn. rewrite in_app_iff in *. destruct H3 as [H3|H3]; [left; exact H3|right].
      rewrite flat_map_map. apply in_flat_map in H3 as [p [Hp Hq]]. apply in_flat_map. exists p; split; [exact Hp|].
      apply seenl_eval_pos; exact Hq.
    - destruct HE as [HE1 HE2]. split.
      + rewrite Forall_map. rewrite Forall_forall in *. intros p Hp. apply PE_eval_pos; [apply in_map; exact Hp|auto].
      + intros q Hq. destruct (HE2 q Hq). split; [assumption|]. rewrite fpoints_app, in_app_iff; auto.
    - rewrite Forall_map. apply Forall_forall. intros p _; apply PA_eval_pos.
  Qed.

  (* --- f_constrained on the best positions --- *)
  Lemma PA_eval_best p : PA p -> PA (eval_best p).
  Proof. unfold Swarm.eval_best, PA. destruct (inside (bpos R p)); cbn; auto. Qed.
  Lemma PB_eval_best p : PB (eval_best p).
  Proof.
    unfold Swarm.eval_best, PB, Swarm.seenl. destruct (inside (bpos R p)) eqn:Hi; cbn; [|discriminate].
    intros _. repeat split; auto. rewrite !in_app_iff; cbn; auto.
  Qed.
  Lemma PE_eval_best tr pts p : In (bpos R p) pts -> PE tr p -> PE (tr ++ block pts) (eval_best p).
  Proof.
    intros Hin HE q Hq. rewrite fpoints_app, fpoints_block, in_app_iff.
    assert (Hcase : In q (seenl p) \/ (q = bpos R p /\ inside (bpos R p) = true)).
    { revert Hq. unfold Swarm.eval_best, Swarm.seenl. destruct (inside (bpos R p)); cbn; [|auto].
      rewrite !in_app_iff. cbn. intros [H|[H|[H|[]]]]; auto. }
    destruct Hcase as [H|[-> Hi]].
    - destruct (HE q H); auto.
    - split; [exact Hi|right]. apply filter_In; auto.
  Qed.

  Lemma fc_bests_Core st :
    Forall (PE (trace R st)) (parts R st) /\ (forall q, In q (sgiven R st) -> inside q = true /\ In q (fpoints (trace R st))) ->
    Core (fc_bests st) /\ (Forall PA (parts R st) -> Forall PA (parts R (fc_bests st))).
  Proof.
    intros [HE1 HE2]. split; [constructor|]; cbn [Swarm.fc_bests parts sbin sbpos sbf sgiven trace].
    - rewrite Forall_map. apply Forall_forall. intros p _; apply PB_eval_best.
    - intros Hs. rewrite Hs. repeat split; auto. unfold allseen. cbn. rewrite Hs. rewrite !in_app_iff; cbn; auto.
    - split.
      + rewrite Forall_map. rewrite Forall_forall in *. intros p Hp. apply PE_eval_best; [|auto].
        apply in_or_app; left. apply in_map; exact Hp.
      + intros q Hq. rewrite fpoints_app, fpoints_block, in_app_iff.
        destruct (inside (sbpos R st)) eqn:Hi.
        * apply in_app_or in Hq as [Hq|[<-|[]]].
          -- destruct (HE2 q Hq); auto.
          -- split; [exact Hi|right]. apply filter_In; split; [|exact Hi]. apply in_or_app; right; left; reflexivity.
        * destruct (HE2 q Hq); auto.
    - intros HA. rewrite Forall_map. eapply Forall_impl; [|exact HA]. intros a; apply PA_eval_best.
  Qed.

  (* --- ParticleSwarm() preserves coherence --- *)
  Lemma Core_Inv st : cinit R st = true -> Forall PA (parts R st) -> Core st -> Inv st.
  Proof. intros Hc HA [HB HC HE]. constructor; auto. rewrite Hc; discriminate. Qed.
  Lemma Inv_set_binit st b : Inv st -> Inv (set_binit R st b).
  Proof. intros [HA HB HC HD HE]. constructor; assumption. Qed.
  Lemma Core_set_cinit st b : Core st -> Core (set_cinit R st b).
  Proof. intros [HB HC HE]. constructor; assumption. Qed.

  Lemma setup_Inv st : Inv st -> Inv (setup st) /\ cinit R (setup st) = true.
  Proof.
    intros HI. unfold Swarm.setup. destruct (cinit R st) eqn:Hci.
    - split; [apply Inv_set_binit, update_Inv; assumption|].
      cbn. destruct (update_frame st) as (_ & _ & _ & _ & _ & ->). exact Hci.
    - apply Inv_Core in HI. destruct (fc_positions_Core st HI) as [Ha HAa].
      set (a := fc_positions st) in *.
      assert (Hb : Core (if binit R a then fc_bests a else a) /\ Forall PA (parts R (if binit R a then fc_bests a else a))).
      { destruct (binit R a); [|auto]. destruct (fc_bests_Core a (core_E _ Ha)) as [H1 H2]. auto. }
      destruct Hb as [Hb HAb]. set (b := if binit R a then fc_bests a else a) in *.
      assert (Hi1 : Inv (set_cinit R b true)) by (apply Core_Inv; [reflexivity|exact HAb|apply Core_set_cinit; exact Hb]).
      split; [apply Inv_set_binit, update_Inv; [reflexivity|exact Hi1]|].
      cbn. destruct (update_frame (set_cinit R b true)) as (_ & _ & _ & _ & _ & ->). reflexivity.
  Qed.

  Lemma step_Inv w c1 c2 x :
    Inv (fst x) -> cinit R (fst x) = true -> Inv (fst (step w c1 c2 x)) /\ cinit R (fst (step w c1 c2 x)) = true.
  Proof.
    intros HI Hci. unfold Swarm.step.
    pose proof (velocities_Core w c1 c2 (fst x) (snd x) (Inv_Core _ HI)) as Hv.
    destruct (velocities_frame w c1 c2 (fst x) (snd x)) as (_ & _ & _ & _ & _ & _ & _ & _ & _ & Hc1 & _).
    destruct (velocities w c1 c2 (fst x) (snd x)) as [st1 s1]. cbn [fst] in *.
    destruct (fc_positions_Core _ (move_Core _ Hv)) as [Hc HA].
    assert (Hci2 : cinit R (fc_positions (move st1)) = true) by (cbn; congruence).
    split.
    - apply update_Inv; [exact Hci2|]. apply Core_Inv; assumption.
    - destruct (update_frame (fc_positions (move st1))) as (_ & _ & _ & _ & _ & ->). exact Hci2.
  Qed.
  Lemma iterate_Inv w c1 c2 k : forall x,
    Inv (fst x) -> cinit R (fst x) = true ->
    Inv (fst (iterate w c1 c2 k x)) /\ cinit R (fst (iterate w c1 c2 k x)) = true.
  Proof.
    induction k as [|k IH]; intros x HI Hc; cbn; [auto|].
    destruct (step_Inv w c1 c2 x HI Hc). apply IH; assumption.
  Qed.
  Lemma run_Inv n w c1 c2 st s : Inv st -> Inv (fst (run n w c1 c2 st s)).
  Proof.
    intros HI. unfold Swarm.run. destruct (pinit R st && vinit R st); [|exact HI].
    destruct (setup_Inv st HI) as [H1 H2]. apply (iterate_Inv w c1 c2 _ (setup st, s)); assumption.
  Qed.

  (* --- the state edits --- *)
  Lemma chunk_length n k : forall l : list R, length (chunk R n k l) = k.
  Proof. induction k as [|k IH]; intros l; cbn; [reflexivity|]. rewrite IH; reflexivity. Qed.

  Lemma Forall2_weaken {A B} (R1 R2 : A -> B -> Prop) l l' :
    (forall a b, R1 a b -> R2 a b) -> Forall2 R1 l l' -> Forall2 R2 l l'.
  Proof. intros H; induction 1; constructor; auto. Qed.

  Definition pvrel (p p' : particle) : Prop := exists x v, p' = set_vel R (set_pos R p x) v.
  Lemma pvrel_brel p p' : pvrel p p' -> brel p p'.
  Proof. intros (x & v & ->). repeat split. Qed.
  Lemma PD_pvrel p p' : pvrel p p' -> PD p -> PD p'.
  Proof. intros (x & v & ->). auto. Qed.

  (* new positions and velocities on a state with clean caches *)
  Lemma Inv_frame_clean st st' :
    cinit R st = false -> Forall2 pvrel (parts R st) (parts R st') ->
    sbpos R st' = sbpos R st -> sbf R st' = sbf R st -> sbin R st' = sbin R st -> sgiven R st' = sgiven R st ->
    cinit R st' = cinit R st -> trace R st' = trace R st -> Inv st -> Inv st'.
  Proof.
    intros Hci Hrel H1 H2 H3 H4 H5 H6 HI.
    assert (Hc : Core st').
    { apply (Core_frame st st'); auto; [|apply Inv_Core; exact HI].
      eapply Forall2_weaken; [|exact Hrel]. apply pvrel_brel. }
    destruct Hc as [HB HC HE]. destruct (inv_D _ HI Hci) as (HD1 & HD2 & HD3).
    constructor; auto.
    - rewrite H5, Hci; discriminate.
    - intros _. rewrite H3, H4. repeat split; auto.
      eapply Forall2_transfer; [exact Hrel| |exact HD1]. intros a b _ Hab; apply PD_pvrel; exact Hab.
  Qed.

  (* new velocities only *)
  Definition vrel (p p' : particle) : Prop := exists v, p' = set_vel R p v.
  Lemma Inv_frame_vel st st' :
    Forall2 vrel (parts R st) (parts R st') ->
    sbpos R st' = sbpos R st -> sbf R st' = sbf R st -> sbin R st' = sbin R st -> sgiven R st' = sgiven R st ->
    cinit R st' = cinit R st -> trace R st' = trace R st -> Inv st -> Inv st'.
  Proof.
    intros Hrel H1 H2 H3 H4 H5 H6 HI.
    assert (Hc : Core st').
    { apply (Core_frame st st'); auto; [|apply Inv_Core; exact HI].
      eapply Forall2_weaken; [|exact Hrel]. intros a b [v ->]. apply brel_set_vel. }
    destruct Hc as [HB HC HE]. constructor; auto.
    - rewrite H5. intros Hci. eapply Forall2_transfer; [exact Hrel| |exact (inv_A _ HI Hci)].
      intros a b _ [v ->] Ha. exact Ha.
    - rewrite H5. intros Hci. destruct (inv_D _ HI Hci) as (HD1 & HD2 & HD3). rewrite H3, H4. repeat split; auto.
      eapply Forall2_transfer; [exact Hrel| |exact HD1]. intros a b _ [v ->] Ha. exact Ha.
  Qed.

  Lemma set_positions_Inv fl st : cinit R st = false -> Inv st -> Inv (set_positions R fl st).
  Proof.
    intros Hci HI. unfold set_positions. destruct (_ =? _); [|exact HI].
    apply (Inv_frame_clean st); auto; try reflexivity. cbn.
    apply map2_Forall2; [|rewrite chunk_length; lia]. intros a b. exists b, (vel R a). reflexivity.
  Qed.
  Lemma set_velocities_Inv fl st : Inv st -> Inv (set_velocities R fl st).
  Proof.
    intros HI. unfold set_velocities. destruct (_ =? _); [|exact HI].
    apply (Inv_frame_vel st); auto; try reflexivity. cbn.
    apply map2_Forall2; [|rewrite chunk_length; lia]. intros a b. exists b. reflexivity.
  Qed.

  Lemma init_parts_rel lo up ps : forall s, Forall2 pvrel ps (fst (init_parts lo up ps s)).
  Proof.
    induction ps as [|p r IH]; intros s; cbn; [constructor|].
    destruct (init_strip lo up s) as [[x v] s1]. specialize (IH s1). destruct (init_parts lo up r s1) as [r' s2].
    cbn in *. constructor; [exists x, v; reflexivity|exact IH].
  Qed.
  Lemma init_box_Inv lo up st s : cinit R st = false -> Inv st -> Inv (fst (init_box lo up st s)).
  Proof.
    intros Hci HI. unfold Swarm.init_box. destruct (_ && _); [|exact HI].
    pose proof (init_parts_rel lo up (parts R st) s) as Hrel. destruct (init_parts lo up (parts R st) s) as [ps s'].
    cbn [fst] in *. apply (Inv_frame_clean st); auto.
  Qed.

  Lemma set_bests_Inv fl st : cinit R st = false -> Inv st -> Inv (set_bests R fl st).
  Proof.
    intros Hci HI. unfold set_bests. destruct (_ =? _); [|exact HI].
    destruct (inv_D _ HI Hci) as (HD1 & HD2 & HD3). destruct (inv_E _ HI) as [HE1 HE2].
    assert (Hrel : Forall2 (fun p p' => exists b, p' = set_bpos R p b) (parts R st)
                     (map2 (set_bpos R) (parts R st) (chunk R (nd R st) (length (parts R st)) fl))).
    { apply map2_Forall2; [|rewrite chunk_length; lia]. intros a b; exists b; reflexivity. }
    constructor; cbn [parts sbin sbpos sbf sgiven cinit trace].
    - rewrite Hci; discriminate.
    - eapply Forall2_transfer; [exact Hrel| |exact HD1]. intros a b _ [c ->] (_ & Hb & _) Hb'. cbn in Hb'. congruence.
    - rewrite HD2; discriminate.
    - intros _. repeat split; auto.
      eapply Forall2_transfer; [exact Hrel| |exact HD1]. intros a b _ [c ->] Ha. exact Ha.
    - split; [|exact HE2]. eapply Forall2_transfer; [exact Hrel| |exact HE1]. intros a b _ [c ->] Ha. exact Ha.
  Qed.

  Lemma clear_cache_Inv st : Inv st -> Inv (clear_cache st).
  Proof.
    intros _. constructor; cbn [Swarm.clear_cache parts sbin sbpos sbf sgiven cinit trace]; try discriminate.
    - rewrite Forall_map. apply Forall_forall. intros p _ Hb. discriminate Hb.
    - intros _. repeat split. rewrite Forall_map. apply Forall_forall. intros p _. repeat split.
    - split; [|intros q []]. rewrite Forall_map. apply Forall_forall. intros p _ q []. 
  Qed.

  Lemma clear_best_Inv st : Inv st -> Inv (clear_best st).
  Proof.
    intros [HA HB HC HD HE].
    constructor; cbn [Swarm.clear_best parts sbin sbpos sbf sgiven cinit trace]; try discriminate.
    - intros Hci. rewrite Forall_map. eapply Forall_impl; [|exact (HA Hci)].
      intros p [H1 H2]. split; [exact H1|]. cbn. intros Hc. destruct (H2 Hc) as [H3 _]. split; [exact H3|].
      rewrite Hc. left; reflexivity.
    - rewrite Forall_map. apply Forall_forall. intros p _ Hb. discriminate Hb.
    - intros Hci. destruct (HD Hci) as (HD1 & _ & _). repeat split.
      rewrite Forall_map. eapply Forall_impl; [|exact HD1]. intros p (H1 & H2 & H3 & H4). unfold PD. cbn. rewrite H1. repeat split.
    - split; [|intros q []]. rewrite Forall_map. destruct HE as [HE _]. rewrite Forall_forall in HE. apply Forall_forall. intros p Hp q.
      unfold Swarm.seenl. cbn. rewrite app_nil_r. destruct (cin R p) eqn:Hc; [|intros []]. intros [<-|[]].
      destruct (cinit R st) eqn:Hci.
      + specialize (HA eq_refl). rewrite Forall_forall in HA. destruct (HA p Hp) as [H1 H2].
        destruct (H2 Hc) as [_ Hin]. apply (HE p Hp). unfold Swarm.seenl. apply in_or_app; left; exact Hin.
      + destruct (HD eq_refl) as (HD1 & _ & _). rewrite Forall_forall in HD1. destruct (HD1 p Hp) as (H1 & _). congruence.
  Qed.

  (* --- histories --- *)
  Lemma fresh_Inv d np : Inv (fresh d np).
  Proof.
    constructor; cbn [Swarm.fresh parts sbin sbpos sbf sgiven cinit trace]; try discriminate.
    - apply Forall_forall. intros p Hp. apply repeat_spec in Hp. subst p. intros Hb; discriminate Hb.
    - intros _. repeat split. apply Forall_forall. intros p Hp. apply repeat_spec in Hp. subst p. repeat split.
    - split; [|intros q []]. apply Forall_forall. intros p Hp. apply repeat_spec in Hp. subst p. intros q [].
  Qed.

  Lemma apply_op_Inv o x : supported (fst x) o -> Inv (fst x) -> Inv (fst (apply_op true o x)).
  Proof.
    destruct o; cbn [Swarm.apply_op fst supported]; intros Hs HI.
    - apply init_box_Inv; assumption.
    - apply set_positions_Inv; assumption.
    - apply set_velocities_Inv; assumption.
    - apply set_bests_Inv; assumption.
    - apply clear_cache_Inv; assumption.
    - apply clear_best_Inv; assumption.
    - apply run_Inv; assumption.
  Qed.
  Theorem exec_Inv h : forall x, supported_h h x -> Inv (fst x) -> Inv (fst (exec true h x)).
  Proof.
    induction h as [|o h IH]; intros x Hs HI; cbn; [exact HI|].
    destruct Hs as [H1 H2]. apply IH; [exact H2|]. apply apply_op_Inv; assumption.
  Qed.



  (* the invariant written out *)
  Lemma Inv_explicit st : Inv st ->
    (cinit R st = true -> forall p, In p (parts R st) ->
       cin R p = inside (pos R p) /\
       (cin R p = true -> cf R p = f (pos R p) /\ In (pos R p) (fpoints (trace R st)))) /\
    (forall p, In p (parts R st) -> bin R p = true ->
       inside (bpos R p) = true /\ bf R p = f (bpos R p) /\
       In (bpos R p) (vis R p ++ given R p) /\ In (bpos R p) (fpoints (trace R st))) /\
    (sbin R st = true ->
       inside (sbpos R st) = true /\ sbf R st = f (sbpos R st) /\ In (sbpos R st) (fpoints (trace R st)) /\
       In (sbpos R st) (sgiven R st ++ flat_map seenl (parts R st))) /\
    (cinit R st = false -> sbin R st = false /\ forall p, In p (parts R st) -> cin R p = false /\ bin R p = false).
  Proof.
    intros [HA HB HC HD [HE1 HE2]]. rewrite Forall_forall in HB, HE1. repeat split.
    - specialize (HA H). rewrite Forall_forall in HA. apply (HA p H0).
    - specialize (HA H). rewrite Forall_forall in HA. destruct (HA p H0) as [_ Hv]. apply (Hv H1).
    - specialize (HA H). rewrite Forall_forall in HA. destruct (HA p H0) as [_ Hv]. destruct (Hv H1) as [_ Hin].
      apply (HE1 p H0). unfold Swarm.seenl. apply in_or_app; left; exact Hin.
    - apply (HB p H H0).
    - apply (HB p H H0).
    - apply (HB p H H0).
    - apply (HE1 p H). apply (HB p H H0).
    - apply (HC H).
    - apply (HC H).
    - destruct (HC H) as (_ & _ & Hin). unfold allseen in Hin. apply in_app_or in Hin as [Hin|Hin].
      + apply (HE2 _ Hin).
      + apply in_flat_map in Hin as [p [Hp Hq]]. apply (HE1 p Hp _ Hq).
    - apply (HC H).
    - apply (HD H).
    - destruct (HD H) as (HD1 & _). rewrite Forall_forall in HD1. apply (HD1 p H0).
    - destruct (HD H) as (HD1 & _). rewrite Forall_forall in HD1. apply (HD1 p H0).
  Qed.


  Theorem exec_fresh_coherent h d np s : supported_h h (fresh d np, s) ->
    let st := fst (exec true h (fresh d np, s)) in
    (cinit R st = true -> forall p, In p (parts R st) ->
       cin R p = inside (pos R p) /\
       (cin R p = true -> cf R p = f (pos R p) /\ In (pos R p) (fpoints (trace R st)))) /\
    (forall p, In p (parts R st) -> bin R p = true ->
       inside (bpos R p) = true /\ bf R p = f (bpos R p) /\
       In (bpos R p) (vis R p ++ given R p) /\ In (bpos R p) (fpoints (trace R st))) /\
    (sbin R st = true ->
       inside (sbpos R st) = true /\ sbf R st = f (sbpos R st) /\ In (sbpos R st) (fpoints (trace R st)) /\
       In (sbpos R st) (sgiven R st ++ flat_map seenl (parts R st))) /\
    (cinit R st = false -> sbin R st = false /\ forall p, In p (parts R st) -> cin R p = false /\ bin R p = false).
  Proof. intros H. apply Inv_explicit. apply exec_Inv; [exact H|apply fresh_Inv]. Qed.

  (* --- the ghost record is complete: without clearCache/clearBestParticles every point passed to f stays recorded --- *)
  Definition grows (st st' : swarm) : Prop :=
    (forall q, In q (allseen st) -> In q (allseen st')) /\
    (forall q, In q (fpoints (trace R st')) -> In q (fpoints (trace R st)) \/ In q (allseen st')).
  Lemma grows_refl st : grows st st.
  Proof. split; auto. Qed.
  Lemma grows_trans a b c : grows a b -> grows b c -> grows a c.
  Proof.
    intros [A1 A2] [B1 B2]. split; [auto|]. intros q Hq. destruct (B2 q Hq) as [H|H]; [|auto].
    destruct (A2 q H) as [H'|H']; auto.
  Qed.
  Lemma grows_same st st' : allseen st' = allseen st -> trace R st' = trace R st -> grows st st'.
  Proof. intros H1 H2. unfold grows. rewrite H1, H2. auto. Qed.
  Lemma grows_frame st st' :
    Forall2 brel (parts R st) (parts R st') -> sgiven R st' = sgiven R st -> trace R st' = trace R st -> grows st st'.
  Proof.
    intros Hrel H1 H2. apply grows_same; [|exact H2]. apply allseen_eq; [exact H1|].
    eapply Forall2_map_eq; [exact Hrel|]. intros a b; apply brel_seenl.
  Qed.

  Lemma grows_update st : grows st (update st).
  Proof.
    apply grows_same; [|apply trace_update]. destruct (update_frame st) as (_ & Hsg & _).
    apply allseen_eq; [exact Hsg|apply update_seenl].
  Qed.
  Lemma grows_fc_positions st : grows st (fc_positions st).
  Proof.
    split.
    - intros q. unfold allseen. cbn. rewrite !in_app_iff. intros [H|H]; [left; exact H|right].
      rewrite flat_map_map. apply in_flat_map in H as [p [Hp Hq]]. apply in_flat_map. exists p; split; [exact Hp|].
      apply seenl_eval_pos; exact Hq.
    - intros q. cbn. rewrite fpoints_app, fpoints_block, in_app_iff. intros [H|H]; [left; exact H|right].
      apply filter_In in H as [H Hi]. apply in_map_iff in H as [p [<- Hp]].
      unfold allseen. cbn. apply in_or_app; right. rewrite flat_map_map. apply in_flat_map. exists p; split; [exact Hp|].
      unfold Swarm.eval_pos, Swarm.seenl. rewrite Hi. cbn. rewrite !in_app_iff. cbn. auto.
  Qed.
  Lemma seenl_eval_best p q : In q (seenl p) -> In q (seenl (eval_best p)).
  Proof.
    unfold Swarm.eval_best, Swarm.seenl. destruct (inside (bpos R p)); cbn; [|auto].
    rewrite !in_app_iff. cbn. tauto.
  Qed.
  Lemma grows_fc_bests st : grows st (fc_bests st).
  Proof.
    split.
    - intros q. unfold allseen. cbn. rewrite !in_app_iff. intros [H|H].
      + left. destruct (inside (sbpos R st)); [apply in_or_app; left|]; exact H.
      + right. rewrite flat_map_map. apply in_flat_map in H as [p [Hp Hq]]. apply in_flat_map. exists p; split; [exact Hp|].
        apply seenl_eval_best; exact Hq.
    - intros q. cbn. rewrite fpoints_app, fpoints_block, in_app_iff. intros [H|H]; [left; exact H|right].
      apply filter_In in H as [H Hi]. unfold allseen. cbn. apply in_app_or in H as [H|[<-|[]]].
      + apply in_map_iff in H as [p [<- Hp]]. apply in_or_app; right. rewrite flat_map_map. apply in_flat_map.
        exists p; split; [exact Hp|]. unfold Swarm.eval_best, Swarm.seenl. rewrite Hi. cbn. rewrite !in_app_iff. cbn. auto.
      + rewrite Hi. rewrite !in_app_iff. cbn. auto.
  Qed.
  Lemma grows_setup st : grows st (setup st).
  Proof.
    unfold Swarm.setup.
    assert (H : forall s, grows s (set_binit R (update s) true)).
    { intros s. eapply grows_trans; [apply grows_update|]. apply grows_same; reflexivity. }
    destruct (cinit R st); [apply H|]. eapply grows_trans; [|apply H].
    eapply grows_trans; [apply grows_fc_positions|]. destruct (binit R (fc_positions st)).
    - eapply grows_trans; [apply grows_fc_bests|]. apply grows_same; reflexivity.
    - apply grows_same; reflexivity.
  Qed.
  Lemma grows_step w c1 c2 x : grows (fst x) (fst (step w c1 c2 x)).
  Proof.
    unfold Swarm.step. destruct (velocities_frame w c1 c2 (fst x) (snd x)) as (F0 & _ & _ & _ & F4 & F5 & _).
    destruct (velocities w c1 c2 (fst x) (snd x)) as [st1 s1]. cbn [fst] in *.
    eapply grows_trans; [apply (grows_frame _ st1); assumption|].
    eapply grows_trans; [apply (grows_frame st1 (move st1)); try reflexivity; cbn; apply map_brel; intros p; apply brel_set_pos|].
    eapply grows_trans; [apply grows_fc_positions|apply grows_update].
  Qed.
  Lemma grows_iterate w c1 c2 k : forall x, grows (fst x) (fst (iterate w c1 c2 k x)).
  Proof. induction k as [|k IH]; intros x; cbn; [apply grows_refl|]. eapply grows_trans; [apply grows_step|apply IH]. Qed.
  Lemma grows_run n w c1 c2 st s : grows st (fst (run n w c1 c2 st s)).
  Proof.
    unfold Swarm.run. destruct (pinit R st && vinit R st); [|apply grows_refl].
    eapply grows_trans; [apply grows_setup|]. apply (grows_iterate w c1 c2 _ (setup st, s)).
  Qed.

  Lemma pvrel_refl p : pvrel p p.
  Proof. exists (pos R p), (vel R p). destruct p; reflexivity. Qed.
  Lemma Forall2_refl {A} (Rel : A -> A -> Prop) l : (forall a, Rel a a) -> Forall2 Rel l l.
  Proof. intros H; induction l; constructor; auto. Qed.

  Lemma grows_set_positions fl st : grows st (set_positions R fl st).
  Proof.
    unfold set_positions. destruct (_ =? _); [|apply grows_refl]. apply grows_frame; try reflexivity. cbn.
    apply map2_Forall2; [|rewrite chunk_length; lia]. intros a b. apply brel_set_pos.
  Qed.
  Lemma grows_set_velocities fl st : grows st (set_velocities R fl st).
  Proof.
    unfold set_velocities. destruct (_ =? _); [|apply grows_refl]. apply grows_frame; try reflexivity. cbn.
    apply map2_Forall2; [|rewrite chunk_length; lia]. intros a b. apply brel_set_vel.
  Qed.
  Lemma grows_set_bests fl st : grows st (set_bests R fl st).
  Proof.
    unfold set_bests. destruct (_ =? _); [|apply grows_refl]. apply grows_same; [|reflexivity].
    apply allseen_eq; [reflexivity|]. cbn.
    eapply (Forall2_map_eq (fun p p' => exists b, p' = set_bpos R p b)).
    - apply map2_Forall2; [|rewrite chunk_length; lia]. intros a b; exists b; reflexivity.
    - intros a b [c ->]. reflexivity.
  Qed.
  Lemma grows_init_box lo up st s : grows st (fst (init_box lo up st s)).
  Proof.
    unfold Swarm.init_box. destruct (_ && _); [|apply grows_refl].
    pose proof (init_parts_rel lo up (parts R st) s) as Hrel. destruct (init_parts lo up (parts R st) s) as [ps s'].
    cbn [fst] in *. apply grows_frame; try reflexivity. cbn.
    eapply Forall2_weaken; [|exact Hrel]. apply pvrel_brel.
  Qed.

  Definition no_clear (h : list (op R)) : Prop :=
    Forall (fun o => match o with OClearCache | OClearBest => False | _ => True end) h.
  Lemma grows_apply_op rep o x :
    match o with OClearCache | OClearBest => False | _ => True end -> grows (fst x) (fst (apply_op rep o x)).
  Proof.
    destruct o; cbn [Swarm.apply_op fst]; intros H; try destruct H.
    - apply grows_init_box.
    - apply grows_set_positions.
    - apply grows_set_velocities.
    - apply grows_set_bests.
    - apply grows_run.
  Qed.
  Theorem grows_exec rep h : forall x, no_clear h -> grows (fst x) (fst (exec rep h x)).
  Proof.
    induction h as [|o h IH]; intros x H; cbn; [apply grows_refl|]. inversion H as [|? ? Ho Hh]; subst.
    eapply grows_trans; [apply grows_apply_op; exact Ho|apply IH; exact Hh].
  Qed.

  (* ================================================================================================ *)
  (* Part 3: resumability (run n; run m = run (n+m)) — needs only irreflexivity of the comparison      *)
  (* ================================================================================================ *)
  Section Irreflexive.
    Hypothesis ltb_irrefl : forall x, ltb x x = false.

    Definition stable (p : particle) : Prop := cond p = false.
    Definition settled (st : swarm) : Prop :=
      cinit R st = true /\ binit R st = true /\ Forall stable (parts R st).

    Lemma urel_stable p p' : urel p p' -> stable p'.
    Proof.
      intros [[H ->]|[H ->]]; [exact H|]. unfold stable, cond. cbn. rewrite ltb_irrefl. apply andb_false_r.
    Qed.
    Lemma update_stable st : Forall stable (parts R (update st)).
    Proof.
      rewrite update_parts. eapply (Forall2_transfer urel (fun _ => True)); [apply upd_all_rel| |].
      - intros a b _ Hab _. eapply urel_stable; exact Hab.
      - apply Forall_forall; auto.
    Qed.
    Lemma upd_all_stable ps : forall acc, Forall stable ps -> upd_all ps acc = (ps, acc).
    Proof.
      induction ps as [|p r IH]; intros acc H; cbn; [reflexivity|]. inversion H as [|? ? Hp Hr]; subst.
      assert (H1 : upd1 acc p = (p, acc)).
      { destruct acc as [[sp sf] sb]. unfold Swarm.upd1. unfold stable, cond in Hp. rewrite Hp. reflexivity. }
      rewrite H1, (IH acc Hr). reflexivity.
    Qed.
    Lemma update_settled_id st : Forall stable (parts R st) -> update st = st.
    Proof. intros H. unfold Swarm.update. rewrite (upd_all_stable _ _ H). destruct st; reflexivity. Qed.
    Lemma setup_of_settled st : settled st -> setup st = st.
    Proof.
      intros (Hc & Hb & Hs). unfold Swarm.setup. rewrite Hc, (update_settled_id st Hs).
      destruct st; cbn in *; subst; reflexivity.
    Qed.

    Lemma setup_flags st :
      pinit R (setup st) = pinit R st /\ vinit R (setup st) = vinit R st /\ cinit R (setup st) = true /\ binit R (setup st) = true.
    Proof.
      unfold Swarm.setup. cbn [Swarm.set_binit pinit vinit cinit binit].
      match goal with |- context [update ?s] => destruct (update_frame s) as (_ & _ & -> & -> & _ & ->) end.
      destruct (cinit R st) eqn:Hc; [auto|]. cbn. destruct (binit R st); cbn; auto.
    Qed.
    Lemma setup_settled st : settled (setup st).
    Proof.
      destruct (setup_flags st) as (_ & _ & Hc & Hb). repeat split; auto.
      unfold Swarm.setup. cbn [Swarm.set_binit parts]. apply update_stable.
    Qed.
    Lemma step_flags w c1 c2 x :
      let st' := fst (step w c1 c2 x) in
      pinit R st' = pinit R (fst x) /\ vinit R st' = vinit R (fst x) /\ cinit R st' = cinit R (fst x) /\ binit R st' = binit R (fst x).
    Proof.
      unfold Swarm.step.
      destruct (velocities_frame w c1 c2 (fst x) (snd x)) as (_ & _ & _ & _ & _ & _ & H1 & H2 & H3 & H4 & _).
      destruct (velocities w c1 c2 (fst x) (snd x)) as [st1 s1]. cbn [fst] in *.
      match goal with |- context [update ?s] => destruct (update_frame s) as (_ & _ & -> & -> & -> & ->) end.
      cbn. auto.
    Qed.
    Lemma step_settled w c1 c2 x : settled (fst x) -> settled (fst (step w c1 c2 x)).
    Proof.
      intros (Hc & Hb & _). destruct (step_flags w c1 c2 x) as (_ & _ & H3 & H4). repeat split; try congruence.
      unfold Swarm.step. destruct (velocities w c1 c2 (fst x) (snd x)) as [st1 s1]. cbn [fst]. apply update_stable.
    Qed.
    Lemma iterate_settled w c1 c2 k : forall x,
      settled (fst x) -> settled (fst (iterate w c1 c2 k x)) /\
      pinit R (fst (iterate w c1 c2 k x)) = pinit R (fst x) /\ vinit R (fst (iterate w c1 c2 k x)) = vinit R (fst x).
    Proof.
      induction k as [|k IH]; intros x Hs; cbn; [auto|].
      destruct (IH _ (step_settled w c1 c2 x Hs)) as (H1 & H2 & H3).
      destruct (step_flags w c1 c2 x) as (H4 & H5 & _). cbv zeta in H4, H5. split; [exact H1|split; congruence].
    Qed.
    Lemma iterate_add w c1 c2 a : forall b x, iterate w c1 c2 (a + b) x = iterate w c1 c2 b (iterate w c1 c2 a x).
    Proof. induction a as [|a IH]; intros b x; cbn; [reflexivity|]. apply IH. Qed.

    Theorem run_split n m w c1 c2 st s : (0 <= n)%Z -> (0 <= m)%Z ->
      run (n + m) w c1 c2 st s = run m w c1 c2 (fst (run n w c1 c2 st s)) (snd (run n w c1 c2 st s)).
    Proof.
      intros Hn Hm. unfold Swarm.run at 1 3 4. destruct (pinit R st && vinit R st) eqn:Hf.
      - rewrite Z2Nat.inj_add by assumption. rewrite iterate_add.
        set (x1 := iterate w c1 c2 (Z.to_nat n) (setup st, s)).
        destruct (iterate_settled w c1 c2 (Z.to_nat n) (setup st, s) (setup_settled st)) as (Hs & Hp & Hv).
        fold x1 in Hs, Hp, Hv. cbn [fst] in Hp, Hv. destruct (setup_flags st) as (Hp' & Hv' & _).
        unfold Swarm.run. rewrite Hp, Hv, Hp', Hv', Hf. rewrite (setup_of_settled _ Hs).
        rewrite <- surjective_pairing. reflexivity.
      - cbn [fst snd]. unfold Swarm.run. rewrite Hf. reflexivity.
    Qed.
  End Irreflexive.

  (* ================================================================================================ *)
  (* Part 4: the swarm best is the minimum — needs the comparison to be a strict weak order            *)
  (* ================================================================================================ *)
  Section WeakOrder.
    Hypothesis ltb_irrefl : forall x, ltb x x = false.
    Hypothesis ltb_trans : forall x y z, ltb x y = true -> ltb y z = true -> ltb x z = true.
    Hypothesis ltb_negtrans : forall x y z, ltb x y = false -> ltb y z = false -> ltb x z = false.

    Lemma le_refl a : le a a = true.
    Proof. unfold Swarm.le. rewrite ltb_irrefl; reflexivity. Qed.
    Lemma lt_le a b : ltb a b = true -> le a b = true.
    Proof.
      intros H. unfold Swarm.le. destruct (ltb b a) eqn:E; [|reflexivity].
      pose proof (ltb_trans _ _ _ H E) as H2. rewrite ltb_irrefl in H2. discriminate.
    Qed.
    Lemma le_trans a b c : le a b = true -> le b c = true -> le a c = true.
    Proof.
      unfold Swarm.le. rewrite !negb_true_iff. intros H1 H2. exact (ltb_negtrans _ _ _ H2 H1).
    Qed.
    Lemma nlt_le a b : ltb a b = false -> le b a = true.
    Proof. unfold Swarm.le. intros ->; reflexivity. Qed.

    (* --- specification --- *)
    (* no best-position strip was evaluated through the "user provided best positions" branch *)
    Definition NG (st : swarm) : Prop := Forall (fun p => given R p = []) (parts R st) /\ sgiven R st = [].
    (* the swarm best is not above any particle best *)
    Definition M1p (sf : R) (sb : bool) (p : particle) : Prop := bin R p = true -> sb = true /\ le sf (bf R p) = true.
    Definition M1 (st : swarm) : Prop := Forall (M1p (sbf R st) (sbin R st)) (parts R st).
    (* every recorded position of the particle is accounted for by its best, or is the current position, still to be
       considered by update() *)
    Definition M2 (p : particle) : Prop :=
      forall q, In q (vis R p) -> (bin R p = true /\ le (bf R p) (f q) = true) \/ (q = pos R p /\ cin R p = true).
    Definition M2post (p : particle) : Prop :=
      forall q, In q (vis R p) -> bin R p = true /\ le (bf R p) (f q) = true.

    Record InvN (st : swarm) : Prop := mkInvN {
      n_inv : Inv st; n_ng : NG st; n_m1 : M1 st; n_m2 : Forall M2 (parts R st) }.
    Record Post (st : swarm) : Prop := mkPost {
      p_inv : Inv st; p_ng : NG st; p_m1 : M1 st; p_m2 : Forall M2post (parts R st); p_ci : cinit R st = true }.

    (* class N: the supported histories in which the "user provided best positions" branch is never taken *)
    Definition supportedN (st : swarm) (o : op R) : Prop :=
      supported st o /\ match o with ORun _ _ _ _ => cinit R st = false -> binit R st = false | _ => True end.
    Fixpoint supportedN_h (h : list (op R)) (x : swarm * rstream) : Prop :=
      match h with
      | [] => True
      | o :: h' => supportedN (fst x) o /\ supportedN_h h' (apply_op true o x)
      end.

    Lemma M2post_M2 p : M2post p -> M2 p.
    Proof. intros H q Hq. left. apply H; exact Hq. Qed.
    Lemma Post_InvN st : Post st -> InvN st.
    Proof. intros [H1 H2 H3 H4 _]. constructor; auto. eapply Forall_impl; [|exact H4]. apply M2post_M2. Qed.

    (* --- update() --- *)
    Definition acc_le (a' a : sbest R) : Prop :=
      let '(_, sf', sb') := a' in let '(_, sf, sb) := a in sb = true -> sb' = true /\ le sf' sf = true.
    Lemma acc_le_refl a : acc_le a a.
    Proof. destruct a as [[sp sf] sb]. cbn. intros ->. split; [reflexivity|apply le_refl]. Qed.
    Lemma acc_le_trans a b c : acc_le a b -> acc_le b c -> acc_le a c.
    Proof.
      destruct a as [[? fa] ba], b as [[? fb] bb], c as [[? fc] bc]. cbn. intros H1 H2 Hc.
      destruct (H2 Hc) as [Hb Hl]. destruct (H1 Hb) as [Ha Hl']. split; [exact Ha|]. eapply le_trans; eassumption.
    Qed.
    Lemma upd1_acc_le acc p : acc_le (snd (upd1 acc p)) acc.
    Proof.
      destruct acc as [[sp sf] sb]. unfold Swarm.upd1. destruct (cin R p && _); [|apply acc_le_refl].
      destruct (negb sb || ltb (cf R p) sf) eqn:E; [|apply acc_le_refl]. cbn. intros ->. cbn in E.
      split; [reflexivity|apply lt_le; exact E].
    Qed.
    Lemma upd_all_acc_le ps : forall acc, acc_le (snd (upd_all ps acc)) acc.
    Proof.
      induction ps as [|p r IH]; intros acc; cbn; [apply acc_le_refl|].
      pose proof (upd1_acc_le acc p) as H1. destruct (upd1 acc p) as [p' a1]. specialize (IH a1).
      destruct (upd_all r a1) as [r' a2]. cbn in *. eapply acc_le_trans; eassumption.
    Qed.

    Definition sbok (acc : sbest R) (p : particle) : Prop := let '(_, sf, sb) := acc in M1p sf sb p.
    Lemma sbok_mono a' a p : acc_le a' a -> sbok a p -> sbok a' p.
    Proof.
      destruct a' as [[? f'] b'], a as [[? fa] ba]. cbn. unfold M1p. intros H1 H2 Hb.
      destruct (H2 Hb) as [H3 H4]. destruct (H1 H3) as [H5 H6]. split; [exact H5|]. eapply le_trans; eassumption.
    Qed.
    Lemma upd1_sbok acc p : sbok acc p -> sbok (snd (upd1 acc p)) (fst (upd1 acc p)).
    Proof.
      destruct acc as [[sp sf] sb]. unfold Swarm.upd1. destruct (cin R p && _); [|auto].
      destruct (negb sb || ltb (cf R p) sf) eqn:E; cbn; unfold M1p; cbn; intros _ _.
      - split; [reflexivity|apply le_refl].
      - apply orb_false_iff in E as [E1 E2]. apply negb_false_iff in E1. split; [exact E1|apply nlt_le; exact E2].
    Qed.
    Lemma upd_all_sbok ps : forall acc,
      Forall (sbok acc) ps -> Forall (sbok (snd (upd_all ps acc))) (fst (upd_all ps acc)).
    Proof.
      induction ps as [|p r IH]; intros acc H; cbn; [constructor|]. inversion H as [|? ? Hp Hr]; subst.
      pose proof (upd1_acc_le acc p) as Hle. pose proof (upd1_sbok acc p Hp) as Hok.
      destruct (upd1 acc p) as [p' a1]. cbn [fst snd] in *.
      assert (Hr1 : Forall (sbok a1) r) by (eapply Forall_impl; [|exact Hr]; intros q; apply sbok_mono; exact Hle).
      specialize (IH a1 Hr1). pose proof (upd_all_acc_le r a1) as Hle2.
      destruct (upd_all r a1) as [r' a2]. cbn [fst snd] in *. constructor; [|exact IH].
      eapply sbok_mono; eassumption.
    Qed.

    Lemma M2post_urel p p' : urel p p' -> PA p -> M2 p -> M2post p'.
    Proof.
      intros Hu [Hi Hv] HM. destruct Hu as [[Hc ->]|[Hc ->]]; intros q Hq.
      - destruct (HM q Hq) as [H|[-> Hcin]]; [exact H|]. unfold cond in Hc. rewrite Hcin in Hc. cbn in Hc.
        apply orb_false_iff in Hc as [E1 E2]. apply negb_false_iff in E1. split; [exact E1|].
        destruct (Hv Hcin) as [<- _]. apply nlt_le; exact E2.
      - cbn in Hq |- *. split; [reflexivity|]. pose proof (cond_true p Hc) as Hcin. destruct (Hv Hcin) as [Hf _].
        destruct (HM q Hq) as [[Hb Hl]|[-> _]].
        + unfold cond in Hc. rewrite Hcin, Hb in Hc. cbn in Hc. eapply le_trans; [apply lt_le; exact Hc|exact Hl].
        + rewrite <- Hf. apply le_refl.
    Qed.

    Lemma update_N st :
      cinit R st = true -> Inv st -> NG st -> M1 st -> Forall M2 (parts R st) ->
      NG (update st) /\ M1 (update st) /\ Forall M2post (parts R (update st)).
    Proof.
      intros Hci HI [HG1 HG2] HM1 HM2. pose proof (inv_A _ HI Hci) as HA.
      pose proof (upd_all_rel (parts R st) (sbpos R st, sbf R st, sbin R st)) as Hrel. rewrite <- update_parts in Hrel.
      destruct (update_frame st) as (_ & Hsg & _). repeat split.
      - eapply Forall2_transfer; [exact Hrel| |exact HG1]. intros a b _ [[_ ->]|[_ ->]] Ha; exact Ha.
      - congruence.
      - pose proof (upd_all_sbok (parts R st) (sbpos R st, sbf R st, sbin R st) HM1) as H.
        rewrite <- update_parts, <- update_sb in H. exact H.
      - rewrite Forall_forall in HA, HM2. eapply (Forall2_transfer urel (fun _ => True)); [exact Hrel| |apply Forall_forall; auto].
        intros a b Ha Hab _. apply (M2post_urel a b Hab); auto.
    Qed.

    (* --- frames --- *)
    Lemma N_frame st st' :
      Forall2 brel (parts R st) (parts R st') -> sbf R st' = sbf R st -> sbin R st' = sbin R st -> sgiven R st' = sgiven R st ->
      NG st -> M1 st -> Forall M2post (parts R st) -> NG st' /\ M1 st' /\ Forall M2post (parts R st').
    Proof.
      intros Hrel H2 H3 H4 [HG1 HG2] HM1 HM2. repeat split.
      - eapply Forall2_transfer; [exact Hrel| |exact HG1]. intros a b _ (_ & _ & _ & _ & Hg) Ha. congruence.
      - congruence.
      - unfold M1. rewrite H2, H3. eapply Forall2_transfer; [exact Hrel| |exact HM1].
        intros a b _ (_ & Hf & Hb & _) Ha. unfold M1p. rewrite Hf, Hb. exact Ha.
      - eapply Forall2_transfer; [exact Hrel| |exact HM2].
        intros a b _ (_ & Hf & Hb & Hv & _) Ha. unfold M2post. rewrite Hf, Hb, Hv. exact Ha.
    Qed.

    Lemma M2_eval_pos p : M2post p -> M2 (eval_pos p).
    Proof.
      intros HM q. unfold Swarm.eval_pos. destruct (inside (pos R p)); cbn.
      - rewrite in_app_iff. intros [Hq|[<-|[]]]; [left; apply HM; exact Hq|right; auto].
      - intros Hq. left; apply HM; exact Hq.
    Qed.
    Lemma fc_positions_N st :
      NG st -> M1 st -> Forall M2post (parts R st) ->
      NG (fc_positions st) /\ M1 (fc_positions st) /\ Forall M2 (parts R (fc_positions st)).
    Proof.
      intros [HG1 HG2] HM1 HM2. unfold NG, M1, Swarm.fc_positions. cbn [parts sgiven sbf sbin]. repeat split; auto.
      - rewrite Forall_map. eapply Forall_impl; [|exact HG1]. intros p Hp.
        destruct (eval_pos_frame p) as (_ & _ & _ & -> & _). exact Hp.
      - rewrite Forall_map. eapply Forall_impl; [|exact HM1]. intros p Hp. unfold M1p.
        destruct (eval_pos_frame p) as (_ & -> & -> & _). exact Hp.
      - rewrite Forall_map. eapply Forall_impl; [|exact HM2]. intros p; apply M2_eval_pos.
    Qed.

    (* --- ParticleSwarm() --- *)
    Lemma PD_M2post p : PD p -> M2post p.
    Proof. intros (_ & _ & Hv & _) q. rewrite Hv. intros []. Qed.
    Lemma PD_M1p sf sb p : PD p -> M1p sf sb p.
    Proof. intros (_ & Hb & _) H. congruence. Qed.

    Lemma setup_Post st : InvN st -> (cinit R st = false -> binit R st = false) -> Post (setup st).
    Proof.
      intros [HI HG HM1 HM2] Hpre. destruct (setup_Inv st HI) as [HI' Hci'].
      assert (H : NG (setup st) /\ M1 (setup st) /\ Forall M2post (parts R (setup st))).
      { unfold Swarm.setup. destruct (cinit R st) eqn:Hci.
        - exact (update_N st Hci HI HG HM1 HM2).
        - replace (binit R (fc_positions st)) with false by (symmetry; exact (Hpre eq_refl)).
          destruct (inv_D _ HI Hci) as (HD1 & HD2 & HD3).
          assert (Hm2 : Forall M2post (parts R st)) by (eapply Forall_impl; [|exact HD1]; apply PD_M2post).
          destruct (fc_positions_N st HG HM1 Hm2) as (Hg & Hm1 & Hm2').
          destruct (fc_positions_Core st (Inv_Core _ HI)) as [Hc HA].
          apply (update_N (set_cinit R (fc_positions st) true)); auto.
          apply Core_Inv; [reflexivity|exact HA|apply Core_set_cinit; exact Hc]. }
      destruct H as (H1 & H2 & H3). constructor; auto.
    Qed.

    Lemma step_Post w c1 c2 x : Post (fst x) -> Post (fst (step w c1 c2 x)).
    Proof.
      intros [HI HG HM1 HM2 Hci]. destruct (step_Inv w c1 c2 x HI Hci) as [HI' Hci'].
      assert (H : NG (fst (step w c1 c2 x)) /\ M1 (fst (step w c1 c2 x)) /\ Forall M2post (parts R (fst (step w c1 c2 x)))).
      { unfold Swarm.step.
        pose proof (velocities_Core w c1 c2 (fst x) (snd x) (Inv_Core _ HI)) as Hv.
        destruct (velocities_frame w c1 c2 (fst x) (snd x)) as (F0 & F1 & F2 & F3 & F4 & F5 & _ & _ & _ & F9 & _).
        destruct (velocities w c1 c2 (fst x) (snd x)) as [st1 s1]. cbn [fst] in *.
        destruct (N_frame (fst x) st1 F0 F2 F3 F4 HG HM1 HM2) as (G1 & G2 & G3).
        assert (Fm : Forall2 brel (parts R st1) (parts R (move st1))) by (cbn; apply map_brel; intros p; apply brel_set_pos).
        destruct (N_frame st1 (move st1) Fm eq_refl eq_refl eq_refl G1 G2 G3) as (K1 & K2 & K3).
        destruct (fc_positions_N _ K1 K2 K3) as (L1 & L2 & L3).
        destruct (fc_positions_Core _ (move_Core _ Hv)) as [Hc HA].
        apply update_N; auto; [cbn; congruence|]. apply Core_Inv; [cbn; congruence|exact HA|exact Hc]. }
      destruct H as (H1 & H2 & H3). constructor; auto.
    Qed.
    Lemma iterate_Post w c1 c2 k : forall x, Post (fst x) -> Post (fst (iterate w c1 c2 k x)).
    Proof. induction k as [|k IH]; intros x H; cbn; [exact H|]. apply IH, step_Post, H. Qed.

    (* after a run that does not take the user-provided-bests branch, on an initialised state *)
    Theorem run_Post n w c1 c2 st s :
      InvN st -> (cinit R st = false -> binit R st = false) -> pinit R st && vinit R st = true ->
      Post (fst (run n w c1 c2 st s)).
    Proof.
      intros HI Hpre Hf. unfold Swarm.run. rewrite Hf.
      apply (iterate_Post w c1 c2 _ (setup st, s)). apply setup_Post; assumption.
    Qed.
    Lemma run_InvN n w c1 c2 st s :
      InvN st -> (cinit R st = false -> binit R st = false) -> InvN (fst (run n w c1 c2 st s)).
    Proof.
      intros HI Hpre. destruct (pinit R st && vinit R st) eqn:Hf.
      - apply Post_InvN, run_Post; assumption.
      - unfold Swarm.run. rewrite Hf. exact HI.
    Qed.

    (* what Post says: the swarm best is below the objective at every recorded position, and is one of them *)
    Theorem Post_min st : Post st ->
      (forall p q, In p (parts R st) -> In q (vis R p) -> sbin R st = true /\ le (sbf R st) (f q) = true) /\
      (sbin R st = true -> inside (sbpos R st) = true /\ sbf R st = f (sbpos R st) /\
                           In (sbpos R st) (flat_map (vis R) (parts R st))).
    Proof.
      intros [HI [HG1 HG2] HM1 HM2 Hci]. split.
      - intros p q Hp Hq. unfold M1 in HM1. rewrite Forall_forall in HM1, HM2.
        destruct (HM2 p Hp q Hq) as [Hb Hl]. destruct (HM1 p Hp Hb) as [Hs Hl2].
        split; [exact Hs|]. eapply le_trans; eassumption.
      - intros Hs. destruct (inv_C _ HI Hs) as (H1 & H2 & H3). repeat split; auto.
        unfold allseen in H3. rewrite HG2 in H3. cbn in H3.
        apply in_flat_map in H3 as [p [Hp Hq]]. apply in_flat_map. exists p; split; [exact Hp|].
        rewrite Forall_forall in HG1. unfold Swarm.seenl in Hq. rewrite (HG1 p Hp), app_nil_r in Hq. exact Hq.
    Qed.
    (* the same for every particle *)
    Theorem Post_particle_min st : Post st ->
      forall p, In p (parts R st) ->
        (forall q, In q (vis R p) -> bin R p = true /\ le (bf R p) (f q) = true) /\
        (bin R p = true -> inside (bpos R p) = true /\ bf R p = f (bpos R p) /\ In (bpos R p) (vis R p)).
    Proof.
      intros [HI [HG1 HG2] HM1 HM2 Hci] p Hp. rewrite Forall_forall in HM2, HG1. split; [apply HM2; exact Hp|].
      intros Hb. pose proof (inv_B _ HI) as HB. rewrite Forall_forall in HB. destruct (HB p Hp Hb) as (H1 & H2 & H3).
      repeat split; auto. unfold Swarm.seenl in H3. rewrite (HG1 p Hp), app_nil_r in H3. exact H3.
    Qed.
    Theorem InvN_visited st : InvN st ->
      forall p, In p (parts R st) -> bin R p = true ->
        inside (bpos R p) = true /\ bf R p = f (bpos R p) /\ In (bpos R p) (vis R p).
    Proof.
      intros [HI [HG1 HG2] _ _] p Hp Hb. rewrite Forall_forall in HG1.
      pose proof (inv_B _ HI) as HB. rewrite Forall_forall in HB. destruct (HB p Hp Hb) as (H1 & H2 & H3).
      repeat split; auto. unfold Swarm.seenl in H3. rewrite (HG1 p Hp), app_nil_r in H3. exact H3.
    Qed.

    (* --- the edits preserve InvN --- *)
    Lemma Inv_clean_InvN st : Inv st -> cinit R st = false -> InvN st.
    Proof.
      intros HI Hci. destruct (inv_D _ HI Hci) as (HD1 & HD2 & HD3). constructor; auto.
      - split; [|exact HD3]. eapply Forall_impl; [|exact HD1]. intros p (_ & _ & _ & Hg); exact Hg.
      - eapply Forall_impl; [|exact HD1]. intros p; apply PD_M1p.
      - eapply Forall_impl; [|exact HD1]. intros p Hp. apply M2post_M2, PD_M2post, Hp.
    Qed.
    Lemma cinit_set_positions fl st : cinit R (set_positions R fl st) = cinit R st.
    Proof. unfold set_positions. destruct (_ =? _); reflexivity. Qed.
    Lemma cinit_set_bests fl st : cinit R (set_bests R fl st) = cinit R st.
    Proof. unfold set_bests. destruct (_ =? _); reflexivity. Qed.
    Lemma cinit_init_box lo up st s : cinit R (fst (init_box lo up st s)) = cinit R st.
    Proof. unfold Swarm.init_box. destruct (_ && _); [|reflexivity]. destruct (init_parts _ _ _ _); reflexivity. Qed.

    Lemma set_velocities_InvN fl st : InvN st -> InvN (set_velocities R fl st).
    Proof.
      intros HN. pose proof (set_velocities_Inv fl st (n_inv _ HN)) as HI'. destruct HN as [HI [HG1 HG2] HM1 HM2].
      revert HI'. unfold set_velocities. destruct (_ =? _); intros HI'; [|constructor; [exact HI'|split| |]; assumption].
      assert (Hrel : Forall2 vrel (parts R st) (map2 (set_vel R) (parts R st) (chunk R (nd R st) (length (parts R st)) fl))).
      { apply (map2_Forall2 (set_vel R) vrel); [intros a b; exists b; reflexivity|rewrite chunk_length; lia]. }
      constructor; [exact HI'| | |]; unfold NG, M1; cbn [parts sgiven sbf sbin].
      - split; [|exact HG2]. eapply Forall2_transfer; [exact Hrel| |exact HG1]. intros a b _ [v ->] Ha. exact Ha.
      - eapply Forall2_transfer; [exact Hrel| |exact HM1]. intros a b _ [v ->] Ha. exact Ha.
      - eapply Forall2_transfer; [exact Hrel| |exact HM2]. intros a b _ [v ->] Ha. exact Ha.
    Qed.
    Lemma clear_best_InvN st : InvN st -> InvN (clear_best st).
    Proof.
      intros [HI _ _ _]. constructor; [apply clear_best_Inv; exact HI| | |];
        unfold NG, M1, Swarm.clear_best; cbn [parts sgiven sbf sbin].
      - split; [|reflexivity]. rewrite Forall_map. apply Forall_forall. intros p _. reflexivity.
      - rewrite Forall_map. apply Forall_forall. intros p _ Hb. discriminate Hb.
      - rewrite Forall_map. apply Forall_forall. intros p _ q. cbn. destruct (cin R p) eqn:Hc; [|intros []].
        intros [<-|[]]. right; auto.
    Qed.

    Lemma fresh_InvN d np : InvN (fresh d np).
    Proof. apply Inv_clean_InvN; [apply fresh_Inv|reflexivity]. Qed.

    Lemma apply_op_InvN o x : supportedN (fst x) o -> InvN (fst x) -> InvN (fst (apply_op true o x)).
    Proof.
      destruct o; cbn [Swarm.apply_op fst supportedN supported]; intros [Hs Hr] HI.
      - apply Inv_clean_InvN; [apply init_box_Inv; [exact Hs|apply HI]|rewrite cinit_init_box; exact Hs].
      - apply Inv_clean_InvN; [apply set_positions_Inv; [exact Hs|apply HI]|rewrite cinit_set_positions; exact Hs].
      - apply set_velocities_InvN; exact HI.
      - apply Inv_clean_InvN; [apply set_bests_Inv; [exact Hs|apply HI]|rewrite cinit_set_bests; exact Hs].
      - apply Inv_clean_InvN; [apply clear_cache_Inv; apply HI|reflexivity].
      - apply clear_best_InvN; exact HI.
      - apply run_InvN; assumption.
    Qed.
    Theorem exec_InvN h : forall x, supportedN_h h x -> InvN (fst x) -> InvN (fst (exec true h x)).
    Proof.
      induction h as [|o h IH]; intros x Hs HI; cbn; [exact HI|].
      destruct Hs as [H1 H2]. apply IH; [exact H2|]. apply apply_op_InvN; assumption.
    Qed.

    (* --- the swarm best never increases --- *)
    Definition sw_le (st' st : swarm) : Prop := sbin R st = true -> sbin R st' = true /\ le (sbf R st') (sbf R st) = true.
    Lemma sw_le_refl st : sw_le st st.
    Proof. intros H; split; [exact H|apply le_refl]. Qed.
    Lemma sw_le_trans a b c : sw_le a b -> sw_le b c -> sw_le a c.
    Proof. intros H1 H2 Hc. destruct (H2 Hc) as [Hb Hl]. destruct (H1 Hb) as [Ha Hl']. split; [exact Ha|]. eapply le_trans; eassumption. Qed.
    Lemma update_sw_le st : sw_le (update st) st.
    Proof.
      pose proof (upd_all_acc_le (parts R st) (sbpos R st, sbf R st, sbin R st)) as H. rewrite <- update_sb in H. exact H.
    Qed.
    Lemma step_sw_le w c1 c2 x : sw_le (fst (step w c1 c2 x)) (fst x).
    Proof.
      unfold Swarm.step. destruct (velocities_frame w c1 c2 (fst x) (snd x)) as (_ & _ & F2 & F3 & _).
      destruct (velocities w c1 c2 (fst x) (snd x)) as [st1 s1]. cbn [fst] in *.
      eapply sw_le_trans; [apply update_sw_le|]. unfold sw_le. cbn. rewrite F2, F3. intros H; split; [exact H|apply le_refl].
    Qed.
    Lemma iterate_sw_le w c1 c2 k : forall x, sw_le (fst (iterate w c1 c2 k x)) (fst x).
    Proof.
      induction k as [|k IH]; intros x; cbn; [apply sw_le_refl|]. eapply sw_le_trans; [apply IH|apply step_sw_le].
    Qed.
    Theorem run_monotone n w c1 c2 st s :
      cinit R st = true -> sbin R st = true ->
      sbin R (fst (run n w c1 c2 st s)) = true /\ le (sbf R (fst (run n w c1 c2 st s))) (sbf R st) = true.
    Proof.
      intros Hci Hs. unfold Swarm.run. destruct (pinit R st && vinit R st); [|split; [exact Hs|apply le_refl]].
      assert (H : sw_le (setup st) st).
      { unfold Swarm.setup. rewrite Hci. intros H. exact (update_sw_le st H). }
      exact (sw_le_trans _ _ _ (iterate_sw_le w c1 c2 _ (setup st, s)) H Hs).
    Qed.

    (* the swarm best is below EVERY in-domain evaluation made since an arbitrary coherent state st, for histories
       without clearCache/clearBestParticles that never take the user-provided-bests branch *)
    Theorem min_since st s h n w c1 c2 :
      InvN st -> no_clear h -> supportedN_h h (st, s) ->
      let x := exec true h (st, s) in
      (cinit R (fst x) = false -> binit R (fst x) = false) -> pinit R (fst x) && vinit R (fst x) = true ->
      let st' := fst (run n w c1 c2 (fst x) (snd x)) in
      forall q, In q (fpoints (trace R st')) ->
        In q (fpoints (trace R st)) \/ (sbin R st' = true /\ le (sbf R st') (f q) = true).
    Proof.
      intros HI Hnc Hs x Hpre Hf st' q Hq.
      pose proof (exec_InvN h (st, s) Hs HI) as HIx. fold x in HIx.
      pose proof (run_Post n w c1 c2 (fst x) (snd x) HIx Hpre Hf) as HP. fold st' in HP.
      assert (Hg : grows st st').
      { eapply grows_trans; [exact (grows_exec true h (st, s) Hnc)|]. apply grows_run. }
      destruct Hg as [_ Hg]. destruct (Hg q Hq) as [H|H]; [left; exact H|right].
      destruct (p_ng _ HP) as [HG1 HG2]. unfold allseen in H. rewrite HG2 in H. cbn in H.
      apply in_flat_map in H as [p [Hp Hqp]]. rewrite Forall_forall in HG1.
      unfold Swarm.seenl in Hqp. rewrite (HG1 p Hp), app_nil_r in Hqp.
      exact (proj1 (Post_min st' HP) p q Hp Hqp).
    Qed.

    Theorem exec_fresh_visited h d np s : supportedN_h h (fresh d np, s) ->
      let st := fst (exec true h (fresh d np, s)) in
      forall p, In p (parts R st) -> bin R p = true ->
        inside (bpos R p) = true /\ bf R p = f (bpos R p) /\ In (bpos R p) (vis R p).
    Proof. intros H. apply InvN_visited. apply exec_InvN; [exact H|apply fresh_InvN]. Qed.

    Theorem exec_fresh_min h d np s n w c1 c2 : supportedN_h h (fresh d np, s) ->
      let x := exec true h (fresh d np, s) in
      (cinit R (fst x) = false -> binit R (fst x) = false) -> pinit R (fst x) && vinit R (fst x) = true ->
      let st := fst (run n w c1 c2 (fst x) (snd x)) in
      (forall p q, In p (parts R st) -> In q (vis R p) -> sbin R st = true /\ le (sbf R st) (f q) = true) /\
      (sbin R st = true -> inside (sbpos R st) = true /\ sbf R st = f (sbpos R st) /\
                           In (sbpos R st) (flat_map (vis R) (parts R st))) /\
      (forall p, In p (parts R st) ->
         (forall q, In q (vis R p) -> bin R p = true /\ le (bf R p) (f q) = true) /\
         (bin R p = true -> inside (bpos R p) = true /\ bf R p = f (bpos R p) /\ In (bpos R p) (vis R p))).
    Proof.
      intros H x Hpre Hf st.
      assert (HP : Post st).
      { apply run_Post; [|exact Hpre|exact Hf]. apply exec_InvN; [exact H|apply fresh_InvN]. }
      destruct (Post_min st HP) as [H1 H2]. split; [exact H1|]. split; [exact H2|].
      intros p Hp. exact (Post_particle_min st HP p Hp).
    Qed.

    Theorem exec_fresh_min_all h d np s n w c1 c2 : no_clear h -> supportedN_h h (fresh d np, s) ->
      let x := exec true h (fresh d np, s) in
      (cinit R (fst x) = false -> binit R (fst x) = false) -> pinit R (fst x) && vinit R (fst x) = true ->
      let st := fst (run n w c1 c2 (fst x) (snd x)) in
      forall q, In q (fpoints (trace R st)) -> sbin R st = true /\ le (sbf R st) (f q) = true.
    Proof.
      intros Hnc H x Hpre Hf st q Hq.
      destruct (min_since (fresh d np) s h n w c1 c2 (fresh_InvN d np) Hnc H Hpre Hf q Hq) as [[]|G]. exact G.
    Qed.
  End WeakOrder.

End Generic.

(* ================================================================================================== *)
(* The order hypotheses are satisfiable: exact rationals                                              *)
(* ================================================================================================== *)
From Coq Require Import QArith.
Definition qltb (a b : Q) : bool := negb (Qle_bool b a).
Lemma qltb_spec a b : qltb a b = true <-> (a < b)%Q.
Proof.
  unfold qltb. rewrite negb_true_iff. split.
  - intros H. apply Qnot_le_lt. intros Hle. apply Qle_bool_iff in Hle. congruence.
  - intros H. destruct (Qle_bool b a) eqn:E; [|reflexivity]. apply Qle_bool_iff in E. exfalso. exact (Qlt_not_le _ _ H E).
Qed.
Lemma qltb_false a b : qltb a b = false <-> (b <= a)%Q.
Proof. unfold qltb. rewrite negb_false_iff. apply Qle_bool_iff. Qed.
Lemma qltb_irrefl x : qltb x x = false.
Proof. apply qltb_false. apply Qle_refl. Qed.
Lemma qltb_trans x y z : qltb x y = true -> qltb y z = true -> qltb x z = true.
Proof. rewrite !qltb_spec. apply Qlt_trans. Qed.
Lemma qltb_negtrans x y z : qltb x y = false -> qltb y z = false -> qltb x z = false.
Proof. rewrite !qltb_false. intros H1 H2. eapply Qle_trans; eassumption. Qed.
Local Close Scope Q_scope.

(* ================================================================================================== *)
(* Witnesses (integer arithmetic, one dimension, two particles, f x = x^2)                            *)
(* ================================================================================================== *)
Module Witness.
  Local Open Scope Z_scope.
  Definition wf (x : list Z) : Z := match x with [a] => a * a | _ => 0 end.
  Definition all (x : list Z) : bool := true.
  Definition unit_box (x : list Z) : bool := match x with [a] => (-1 <=? a) && (a <=? 1) | _ => false end.
  Definition wexec (ins : list Z -> bool) (repaired : bool) (h : list (op Z)) : swarm Z :=
    fst (exec Z 0 2 0 Z.add Z.sub Z.mul Z.abs Z.ltb wf ins repaired h (fresh Z 0 (2 ^ 62) 1 2, ([], O))).
  Definition wsupported (ins : list Z -> bool) (h : list (op Z)) : Prop :=
    supported_h Z 0 2 0 Z.add Z.sub Z.mul Z.abs Z.ltb wf ins h (fresh Z 0 (2 ^ 62) 1 2, ([], O)).
  Definition start : list (op Z) := [OSetPos [1; 2]; OSetVel [0; 0]; ORun 0 1 1 1].

  (* F8: run; clearBestParticles(); run 0 *)
  Definition h_clearbest : list (op Z) := start ++ [OClearBest; ORun 0 1 1 1].
  (* run; setParticlePositions; clearBestParticles; run 0   (no clearCache) *)
  Definition h_setpos : list (op Z) := start ++ [OSetPos [5; 6]; OClearBest; ORun 0 1 1 1].
  (* run; setBestParticlePositions; run 0   (no clearCache) *)
  Definition h_setbest : list (op Z) := start ++ [OSetBest [7; 8; 9]; ORun 0 1 1 1].
  (* run; clearCache; run 0 with a particle that never was inside the domain [-1,1] *)
  Definition h_clearcache : list (op Z) := start ++ [OClearCache; ORun 0 1 1 1].
  (* user-provided best positions whose swarm slot is not the best of them *)
  Definition h_userbest : list (op Z) := [OSetPos [3; 4]; OSetVel [0; 0]; OSetBest [1; 4; 2]; ORun 0 1 1 1].

  (* "some particle reports a best position with a cached value that is not the objective there, at a point that was
     never passed to the objective" *)
  Definition stale_best (st : swarm Z) : Prop :=
    exists p, In p (parts Z st) /\ bin Z p = true /\ bf Z p <> wf (bpos Z p) /\ ~ In (bpos Z p) (fpoints Z (trace Z st)).

  Lemma clearbest_original_stale : wsupported all h_clearbest /\ stale_best (wexec all false h_clearbest).
  Proof.
    split; [vm_compute; tauto|]. vm_compute.
    eexists; split; [left; reflexivity|]. cbn. repeat split; [discriminate|]. intros [H|[H|[]]]; discriminate H.
  Qed.
  Lemma clearbest_repaired_example :
    map (bpos Z) (parts Z (wexec all true h_clearbest)) = [[1]; [2]] /\ sbpos Z (wexec all true h_clearbest) = [1].
  Proof. vm_compute. split; reflexivity. Qed.
  Lemma setpos_after_run_stale : stale_best (wexec all true h_setpos).
  Proof.
    vm_compute. eexists; split; [left; reflexivity|]. cbn. repeat split; [discriminate|]. intros [H|[H|[]]]; discriminate H.
  Qed.
  Lemma setbest_after_run_stale : stale_best (wexec all true h_setbest).
  Proof.
    vm_compute. eexists; split; [left; reflexivity|]. cbn. repeat split; [discriminate|]. intros [H|[H|[]]]; discriminate H.
  Qed.
  (* clearCache with a particle that has no best yet: the zero strip is evaluated as its best position — a point no
     particle ever visited — and the swarm best is no longer the minimum of the evaluations *)
  Lemma clearcache_unset_best :
    let st := wexec unit_box true h_clearcache in
    wsupported unit_box h_clearcache /\
    (exists p, In p (parts Z st) /\ bin Z p = true /\ ~ In (bpos Z p) (flat_map (vis Z) (parts Z st))) /\
    (exists q, In q (fpoints Z (trace Z st)) /\ sbin Z st = true /\ Z.ltb (wf q) (sbf Z st) = true).
  Proof.
    split; [vm_compute; tauto|]. vm_compute. split.
    - eexists; split; [right; left; reflexivity|]. cbn. split; [reflexivity|]. intros [H|[]]; discriminate H.
    - exists [0]. repeat split. right; right; right; left; reflexivity.
  Qed.
  Lemma userbest_inconsistent :
    let st := wexec all true h_userbest in
    wsupported all h_userbest /\
    (exists q, In q (fpoints Z (trace Z st)) /\ sbin Z st = true /\ Z.ltb (wf q) (sbf Z st) = true).
  Proof.
    split; [vm_compute; tauto|]. vm_compute. exists [1]. repeat split. right; right; left; reflexivity.
  Qed.

  (* non-vacuity: a supported history in class N on which the theorems apply and something happens *)
  Definition h_demo : list (op Z) :=
    [OSetPos [3; -4]; OSetVel [-1; 1]; ORun 2 1 1 1; OClearBest; ORun 1 1 0 1; OClearCache; OClearBest; OSetPos [2; 2]; ORun 1 0 0 0].
End Witness.
