(* The rational-valued functions getNode / getSupport / scaleDiffX of namespace RuleLocal REGENERATED from the current C++ header
   (gen/RuleLocalQGen.v, translator/rulelocalq.py; doubles read as exact rationals) are equal (Qeq) to the hand-written model
   Model/RuleLocal.v for every point >= 0 and every effective rule, and the facts the C04/C05 theorems use (positive support radius,
   chain-rule factor = 1 / support radius, node range) are transported to the generated functions.  When the header changes,
   either these proofs still go through (the change is neutral on the domain) or the build fails and props/rulelocalqgen.py
   reports the first point on which generated function, model and compiled header differ. *)
From Coq Require Import QArith Qabs Lqa.
From TV Require Import Common.Prelude Model.RuleLocal gen.RuleLocalGen gen.RuleLocalQGen.
From TV Require Import Proofs.RuleLocalProofs Proofs.RuleLocalGenProofs Proofs.DiffProofs.
Local Open Scope Z_scope.

(* unfold the generated and the model function, split on every test, rewrite the generated integer helpers into the model's
   (RuleLocalGenProofs), then the two sides are the same rational expression *)
Ltac q_unfold := cbv beta iota zeta delta [gq_getNode gq_getSupport gq_scaleDiffX
    gen_node_pwc gen_node_localp gen_node_semilocalp gen_node_localp0 gen_node_localpb
    gen_support_pwc gen_support_localp gen_support_semilocalp gen_support_localp0 gen_support_localpb
    gen_scalediffx_pwc gen_scalediffx_localp gen_scalediffx_semilocalp gen_scalediffx_localp0 gen_scalediffx_localpb
    getNode getSupport scaleDiffX zq].
Ltac q_ints := rewrite ?g_int2log2_eq, ?g_int3log3_eq by lia.
Ltac q_same := q_unfold; split_ifs; try (exfalso; lia); q_ints;
  first [ reflexivity | ring | field; intros HZ; apply (Qlt_irrefl 0); rewrite <- HZ at 2; apply (zq_pos _ (int2log2_pos _)) ].

Theorem gq_getNode_eq r p : 0 <= p -> (gq_getNode r p == getNode r p)%Q.
Proof. intros H. destruct r; q_same. Qed.

Theorem gq_getSupport_eq r p : 0 <= p -> (gq_getSupport r p == getSupport r p)%Q.
Proof. intros H. destruct r; q_same. Qed.

(* scaleDiffX<semilocalp>(0) calls int2log2(-1), whose shift loop does not end in C++ (R5): outside the domain *)
Theorem gq_scaleDiffX_eq r p : 0 <= p -> (r = Semilocalp -> 1 <= p) -> (gq_scaleDiffX r p == scaleDiffX r p)%Q.
Proof.
  intros H Hs. destruct r; try (assert (1 <= p) by (apply Hs; reflexivity)); clear Hs; q_same.
Qed.

(* the per-rule functions are the arms of the gq_ functions (by definition) *)
Lemma gq_arms p :
  (gq_getNode Pwc p, gq_getNode Localp p, gq_getNode Semilocalp p, gq_getNode Localp0 p, gq_getNode Localpb p,
   (gq_getSupport Pwc p, gq_getSupport Localp p, gq_getSupport Semilocalp p, gq_getSupport Localp0 p, gq_getSupport Localpb p),
   (gq_scaleDiffX Pwc p, gq_scaleDiffX Localp p, gq_scaleDiffX Semilocalp p, gq_scaleDiffX Localp0 p, gq_scaleDiffX Localpb p)) =
  (gen_node_pwc p, gen_node_localp p, gen_node_semilocalp p, gen_node_localp0 p, gen_node_localpb p,
   (gen_support_pwc p, gen_support_localp p, gen_support_semilocalp p, gen_support_localp0 p, gen_support_localpb p),
   (gen_scalediffx_pwc p, gen_scalediffx_localp p, gen_scalediffx_semilocalp p, gen_scalediffx_localp0 p, gen_scalediffx_localpb p)).
Proof. reflexivity. Qed.

(* ---- facts of the model, stated purely over the generated functions ---- *)
Lemma int3log3_f_pos f : forall i, 0 < int3log3_f f i.
Proof. induction f as [|f IH]; intros i; cbn [int3log3_f]; [lia|]. destruct (1 <=? i); [specialize (IH (Z.quot i 3)); lia|lia]. Qed.

Lemma getSupport_pos_all r p : 0 <= p -> (0 < getSupport r p)%Q.
Proof.
  intros H. destruct r; unfold getSupport; split_ifs; try reflexivity;
    apply Qlt_shift_div_l; rewrite ?Qmult_0_l; try reflexivity; apply zq_pos;
    first [ apply int2log2_pos | apply int3log3_f_pos ].
Qed.

(* the support radius is positive: every rule, every point *)
Theorem gq_support_pos r p : 0 <= p -> (0 < gq_getSupport r p)%Q.
Proof. intros H. rewrite (gq_getSupport_eq r p H). apply getSupport_pos_all. exact H. Qed.

Lemma scaled_point_nonneg r p : scaled_point r p -> 0 <= p /\ (r = Semilocalp -> 1 <= p).
Proof. destruct r; cbn [scaled_point]; intros Hs; try contradiction; split; try lia; intros E; try discriminate E; lia. Qed.

(* the chain-rule factor is the reciprocal of the support radius (the fact C05's chain-rule theorems rest on) *)
Theorem gq_scaleDiffX_support r p : scaled_point r p -> (gq_scaleDiffX r p == 1 / gq_getSupport r p)%Q.
Proof.
  intros Hs. destruct (scaled_point_nonneg r p Hs) as [H0 H1].
  rewrite (gq_scaleDiffX_eq r p H0 H1), (gq_getSupport_eq r p H0). apply scaleDiffX_support. exact Hs.
Qed.

Theorem gq_scaleDiffX_pos r p : scaled_point r p -> (0 < gq_scaleDiffX r p)%Q.
Proof.
  intros Hs. rewrite (gq_scaleDiffX_support r p Hs). destruct (scaled_point_nonneg r p Hs) as [H0 _].
  apply Qlt_shift_div_l; [apply gq_support_pos; exact H0|]. rewrite Qmult_0_l. reflexivity.
Qed.

(* ---- range of the nodes: every node of the four binary rules lies in the canonical interval [-1, 1] ---- *)
Lemma int2log2_bounds a : 1 <= a -> int2log2 a <= a < 2 * int2log2 a.
Proof.
  intros H. unfold int2log2. assert (a <=? 0 = false) as -> by lia.
  pose proof (Z.log2_spec a ltac:(lia)) as S. rewrite Z.pow_succ_r in S by apply Z.log2_nonneg. lia.
Qed.

Lemma zq_le a b : a <= b -> (zq a <= zq b)%Q.
Proof. intros H. unfold zq, Qle. cbn. lia. Qed.

Lemma frac_range a b : 0 < b -> 2 * b <= a <= 4 * b -> (-1 <= zq a / zq b - 3 <= 1)%Q.
Proof.
  intros Hb [H2 H4]. pose proof (zq_pos b Hb) as HB.
  assert (L : (2 <= zq a / zq b)%Q).
  { apply Qle_shift_div_l; [exact HB|]. change 2%Q with (zq 2). rewrite <- zq_mult. apply zq_le. exact H2. }
  assert (U : (zq a / zq b <= 4)%Q).
  { apply Qle_shift_div_r; [exact HB|]. change 4%Q with (zq 4). rewrite <- zq_mult. apply zq_le. exact H4. }
  split; lra.
Qed.

Lemma getNode_range r p : r <> Pwc -> 0 <= p -> (-1 <= getNode r p <= 1)%Q.
Proof.
  intros Hr H. destruct r; try (exfalso; apply Hr; reflexivity); unfold getNode; split_ifs; try (split; lra).
  - pose proof (int2log2_bounds (p - 1) ltac:(lia)). apply frac_range; [apply int2log2_pos|lia].
  - pose proof (int2log2_bounds (p - 1) ltac:(lia)). apply frac_range; [apply int2log2_pos|lia].
  - pose proof (int2log2_bounds (p + 1) ltac:(lia)). apply frac_range; [apply int2log2_pos|lia].
  - pose proof (int2log2_bounds (p - 1) ltac:(lia)). apply frac_range; [apply int2log2_pos|lia].
Qed.

Theorem gq_node_range r p : r <> Pwc -> 0 <= p -> (-1 <= gq_getNode r p <= 1)%Q.
Proof. intros Hr H. rewrite (gq_getNode_eq r p H). apply getNode_range; assumption. Qed.

(* rule pwc: int3log3 p is the least power of 3 above p (within the fuel 42 of the model: p < 3^42, far beyond int) *)
Lemma int3log3_f_bounds f : forall i, 1 <= i < 3 ^ Z.of_nat f -> i < int3log3_f f i <= 3 * i.
Proof.
  induction f as [|f IH]; intros i Hi; [cbn in Hi; lia|].
  rewrite Nat2Z.inj_succ, Z.pow_succ_r in Hi by lia.
  cbn [int3log3_f]. assert (1 <=? i = true) as -> by lia.
  destruct (Z.le_gt_cases 3 i) as [H3|H3].
  - specialize (IH (Z.quot i 3) ltac:(lia)). lia.
  - assert (E : Z.quot i 3 = 0) by lia. rewrite E. assert (int3log3_f f 0 = 1) as -> by (destruct f; reflexivity). lia.
Qed.

Lemma getNode_range_pwc p : 0 <= p < 3 ^ 42 -> (-1 <= getNode Pwc p <= 1)%Q.
Proof.
  intros H. unfold getNode. destruct (Z.eq_dec p 0) as [->|N0]; [vm_compute; split; discriminate|].
  pose proof (int3log3_f_bounds 42 p ltac:(change (Z.of_nat 42) with 42; lia)) as B. fold (int3log3 p) in B.
  set (T := int3log3 p) in *. set (m := 3 * p + 2 - Z.rem p 2).
  assert (HT : 0 < T) by lia. pose proof (zq_pos T HT) as HB.
  assert (L : (1 <= zq m / zq T)%Q).
  { apply Qle_shift_div_l; [exact HB|]. rewrite Qmult_1_l. apply zq_le. unfold m. lia. }
  assert (U : (zq m / zq T <= 3)%Q).
  { apply Qle_shift_div_r; [exact HB|]. change 3%Q with (zq 3). rewrite <- zq_mult. apply zq_le. unfold m. lia. }
  assert (E : (-2 + 1 / zq T * zq m == zq m / zq T - 2)%Q) by (field; lra).
  rewrite E. split; lra.
Qed.

Theorem gq_node_range_pwc p : 0 <= p < 3 ^ 42 -> (-1 <= gq_getNode Pwc p <= 1)%Q.
Proof. intros H. rewrite (gq_getNode_eq Pwc p ltac:(lia)). apply getNode_range_pwc. exact H. Qed.
