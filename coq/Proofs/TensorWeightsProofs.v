(* Proofs about the tensor weights of the combination technique (Model/TensorWeights.v).
   (a) the in-place backward sweep on a line gives b_i = a_i - a_{i+1};
   (b) on every lower, lexicographically sorted set the weights of tw_lines are the inclusion-exclusion values;
   (c) they sum to 1; inactive tensors have weight 0; sum_t w(t) V(t) = sum_t (mixed backward difference of V)(t) for every family V
       (summation by parts in every direction);
   (a, by position) the in-place sweep of tw_cpp over the positions of a line is the sweep of its values.
   NOT proved: tw_cpp = tw_lines (the sorted position maps and runs of resortIndexes compute the lines of tw_lines); both are compared with
   the implementation on every case of the tie.   No axioms. *)
From TV Require Import Common.Prelude Model.IndexSets Model.TensorWeights.
From TV Require Import Proofs.IndexSetsProofs Proofs.CombinationProofs Proofs.TensorSelectProofs.
From Coq Require Import Sorting.Sorted.
Local Open Scope Z_scope.

(* ================================================================ equality test, keys *)
Lemma idx_eqb_true a b : idx_eqb a b = true <-> a = b.
Proof. unfold idx_eqb. destruct (list_eq_dec Z.eq_dec a b); split; intros; auto; discriminate. Qed.
Lemma idx_eqb_refl a : idx_eqb a a = true.
Proof. apply idx_eqb_true. reflexivity. Qed.
Lemma idx_eqb_neq a b : a <> b -> idx_eqb a b = false.
Proof. intros H. destruct (idx_eqb a b) eqn:E; [apply idx_eqb_true in E; contradiction|reflexivity]. Qed.
Lemma match_outside_iff d a b : match_outside d a b = true <-> outkey d a = outkey d b.
Proof. apply idx_eqb_true. Qed.

Lemma outkey_cons0 x a : outkey 0 (x :: a) = a.
Proof. reflexivity. Qed.
Lemma outkey_consS d x a : outkey (S d) (x :: a) = x :: outkey d a.
Proof. reflexivity. Qed.

(* ================================================================ (a) the sweep on one line *)
Lemma zsum_sweep_vals a : zsum (sweep_vals a) = hd 0 a.
Proof.
  induction a as [|x r IH]; [reflexivity|]. cbn [sweep_vals]. destruct r as [|y r']; [cbn; lia|].
  cbn [zsum fold_right hd]. fold (zsum (sweep_vals (y :: r'))). lia.
Qed.

Lemma sweep_vals_length a : length (sweep_vals a) = length a.
Proof.
  induction a as [|x r IH]; [reflexivity|]. cbn [sweep_vals]. destruct r as [|y r']; [reflexivity|].
  cbn [length] in *. rewrite IH. reflexivity.
Qed.

Lemma sweep_vals_spec a : forall i, (i < length a)%nat -> nth i (sweep_vals a) 0 = nth i a 0 - nth (S i) a 0.
Proof.
  induction a as [|x r IH]; intros i Hi; [cbn in Hi; lia|].
  cbn [sweep_vals]. destruct r as [|y r'].
  - cbn in Hi. assert (i = 0%nat) by lia. subst. cbn. lia.
  - destruct i as [|i'].
    + cbn [nth]. rewrite zsum_sweep_vals. cbn. reflexivity.
    + cbn [nth]. apply IH. cbn [length] in *. lia.
Qed.

(* ================================================================ the weight store *)
Lemma setw_keys W t v : map fst (setw W t v) = map fst W.
Proof. induction W as [|[k x] W IH]; [reflexivity|]. cbn. destruct (idx_eqb k t); cbn; [reflexivity|f_equal; exact IH]. Qed.

Lemma getw_setw_same W t v : In t (map fst W) -> getw (setw W t v) t = v.
Proof.
  induction W as [|[k x] W IH]; intros H; [destruct H|]. cbn. destruct (idx_eqb k t) eqn:E; cbn; rewrite E; [reflexivity|].
  apply IH. cbn in H. destruct H as [H|H]; [|exact H]. subst. rewrite idx_eqb_refl in E. discriminate.
Qed.

Lemma getw_setw_other W t v s : s <> t -> getw (setw W t v) s = getw W s.
Proof.
  intros Hn. induction W as [|[k x] W IH]; [reflexivity|]. cbn. destruct (idx_eqb k t) eqn:E; cbn.
  - apply idx_eqb_true in E. subst k. rewrite (idx_eqb_neq t s) by congruence. reflexivity.
  - rewrite IH. reflexivity.
Qed.

Lemma sumw_ext W W' l : (forall s, In s l -> getw W s = getw W' s) -> sumw W l = sumw W' l.
Proof.
  unfold sumw. induction l as [|a l IH]; intros H; [reflexivity|]. cbn. rewrite (H a) by (left; reflexivity).
  f_equal. apply IH. intros s Hs. apply H. right. exact Hs.
Qed.

Lemma sweep_dim_keys d l : forall W, map fst (sweep_dim d l W) = map fst W.
Proof. induction l as [|t rest IH]; intros W; [reflexivity|]. cbn [sweep_dim]. rewrite setw_keys. apply IH. Qed.

Lemma sweep_dim_untouched d l : forall W s, ~ In s l -> getw (sweep_dim d l W) s = getw W s.
Proof.
  induction l as [|t rest IH]; intros W s H; [reflexivity|]. cbn [sweep_dim].
  rewrite getw_setw_other by (intro E; apply H; left; congruence). apply IH. intro Hs. apply H. right. exact Hs.
Qed.

(* the value found at the next member of the line of t among l (0 when there is none) *)
Definition next_val (d : nat) (W : wstate) (t : idx) (l : list idx) : Z :=
  match filter (match_outside d t) l with [] => 0 | s :: _ => getw W s end.

Lemma filter_same_line d t t0 l : match_outside d t t0 = true -> filter (match_outside d t0) l = filter (match_outside d t) l.
Proof.
  intros E. apply match_outside_iff in E. apply filter_ext. intros s. unfold match_outside. rewrite E. reflexivity.
Qed.

(* after the sweeps of direction d over l, the weights of the members of any line that lie in l sum to the OLD weight of the first one:
   the sweep lemma for all the lines at once; no assumption on the shape of the set *)
Lemma sweep_dim_sum d : forall l W, NoDup l -> incl l (map fst W) -> forall t,
  sumw (sweep_dim d l W) (filter (match_outside d t) l) = next_val d W t l.
Proof.
  induction l as [|t0 rest IH]; intros W Hnd Hin t; [reflexivity|].
  inversion Hnd as [|? ? Hnot Hnd']; subst.
  assert (Hin' : incl rest (map fst W)) by (intros s Hs; apply Hin; right; exact Hs).
  cbn [sweep_dim]. set (W' := sweep_dim d rest W).
  assert (H0 : getw W' t0 = getw W t0) by (apply sweep_dim_untouched; exact Hnot).
  assert (Hk : In t0 (map fst W')) by (unfold W'; rewrite sweep_dim_keys; apply Hin; left; reflexivity).
  assert (Hext : forall F v, sumw (setw W' t0 v) (filter F rest) = sumw W' (filter F rest)).
  { intros F v. apply sumw_ext. intros s Hs. apply filter_In in Hs. apply getw_setw_other. intro E. subst. tauto. }
  unfold next_val. cbn [filter]. destruct (match_outside d t t0) eqn:E.
  - unfold sumw at 1. cbn [map zsum fold_right]. fold (zsum (map (getw (setw W' t0 (getw W' t0 - sumw W' (filter (match_outside d t0) rest)))) (filter (match_outside d t) rest))).
    change (zsum (map (getw ?X) ?l)) with (sumw X l). rewrite Hext. rewrite getw_setw_same by exact Hk.
    rewrite (filter_same_line d t t0 rest E). lia.
  - rewrite Hext. apply IH; assumption.
Qed.

Lemma sweep_dim_at d : forall l pre t0 rest W, l = pre ++ t0 :: rest -> NoDup l -> incl l (map fst W) ->
  getw (sweep_dim d l W) t0 = getw W t0 - next_val d W t0 rest.
Proof.
  intros l pre. revert l. induction pre as [|a pre IH]; intros l t0 rest W -> Hnd Hin.
  - cbn [app] in *. inversion Hnd as [|? ? Hnot Hnd']; subst. cbn [sweep_dim].
    rewrite getw_setw_same by (rewrite sweep_dim_keys; apply Hin; left; reflexivity).
    rewrite sweep_dim_untouched by exact Hnot.
    pose proof (sweep_dim_sum d rest W Hnd' (fun s Hs => Hin s (or_intror Hs)) t0) as Hs. rewrite Hs. reflexivity.
  - cbn [app] in *. inversion Hnd as [|? ? Hnot Hnd']; subst. cbn [sweep_dim].
    rewrite getw_setw_other by (intro E; subst; apply Hnot; apply in_elt).
    apply (IH _ t0 rest W eq_refl Hnd'). intros s Hs. apply Hin. right. exact Hs.
Qed.

(* ================================================================ multi-indexes: bump, outkey, order *)
Lemma bump_length d : forall t, length (bump d t) = length t.
Proof. induction d as [|d IH]; intros [|x r]; cbn; try reflexivity. rewrite IH. reflexivity. Qed.

Lemma outkey_bump d : forall t, outkey d (bump d t) = outkey d t.
Proof.
  induction d as [|d IH]; intros [|x r]; try reflexivity.
  cbn [bump]. rewrite !outkey_consS. f_equal. apply IH.
Qed.

Lemma nth_bump d : forall t, (d < length t)%nat -> nth d (bump d t) 0 = nth d t 0 + 1.
Proof.
  induction d as [|d IH]; intros [|x r] H; cbn in H; try lia; cbn [bump nth]; [reflexivity|]. apply IH. lia.
Qed.

Lemma nonneg_bump d : forall t, nonneg t -> nonneg (bump d t).
Proof.
  induction d as [|d IH]; intros [|x r] H; cbn [bump]; try exact H; inversion H; subst; constructor; auto; try lia.
  apply IH. assumption.
Qed.

Lemma le_bump d : forall t, nonneg t -> le_idx t (bump d t).
Proof.
  induction d as [|d IH]; intros [|x r] H; cbn [bump]; try constructor; inversion H; subst; try lia.
  - apply le_idx_refl. assumption.
  - apply IH. assumption.
Qed.

Lemma cmp_bump d : forall t, (d < length t)%nat -> cmp t (bump d t) = ABeforeB.
Proof.
  induction d as [|d IH]; intros [|x r] H; cbn in H; try lia; cbn [bump cmp].
  - assert (x <? x + 1 = true) as -> by lia. reflexivity.
  - rewrite Z.ltb_irrefl. apply IH. lia.
Qed.

Lemma outkey_nth_eq d : forall a b, length a = length b -> outkey d a = outkey d b -> nth d a 0 = nth d b 0 -> a = b.
Proof.
  induction d as [|d IH]; intros [|x a] [|y b] Hl Hk Hn; cbn in Hl; try discriminate; try reflexivity.
  - rewrite !outkey_cons0 in Hk. cbn in Hn. subst. reflexivity.
  - rewrite !outkey_consS in Hk. injection Hk as Hx Hk. cbn [nth] in Hn. f_equal; [exact Hx|]. apply IH; auto.
Qed.

Lemma cmp_outkey_lt d : forall a b, length a = length b -> cmp a b = ABeforeB -> outkey d a = outkey d b -> nth d a 0 < nth d b 0.
Proof.
  induction d as [|d IH]; intros [|x a] [|y b] Hl Hc Hk; cbn in Hl, Hc; try discriminate.
  - rewrite !outkey_cons0 in Hk. cbn [nth]. destruct (x <? y) eqn:E1; [lia|]. destruct (y <? x); [discriminate|].
    subst. rewrite cmp_refl in Hc. discriminate.
  - rewrite !outkey_consS in Hk. injection Hk as Hx Hk. subst. rewrite Z.ltb_irrefl in Hc. cbn [nth]. apply IH; auto.
Qed.

Lemma bump_le d : forall a b, length a = length b -> nonneg a -> outkey d a = outkey d b -> nth d a 0 < nth d b 0 -> le_idx (bump d a) b.
Proof.
  induction d as [|d IH]; intros [|x a] [|y b] Hl Hn Hk Hlt; cbn in Hl; try discriminate; cbn [nth] in Hlt; try lia.
  - rewrite !outkey_cons0 in Hk. subst. inversion Hn; subst. cbn [bump]. constructor; [lia|]. apply le_idx_refl. assumption.
  - rewrite !outkey_consS in Hk. injection Hk as Hx Hk. subst. inversion Hn; subst. cbn [bump]. constructor; [lia|]. apply IH; auto.
Qed.

Lemma sorted_app_r pre : forall l, sorted (pre ++ l) -> sorted l.
Proof. induction pre as [|a pre IH]; intros l H; [exact H|]. cbn in H. apply sorted_cons_inv in H. apply IH. tauto. Qed.

Lemma sorted_app_before pre : forall t0 rest p, sorted (pre ++ t0 :: rest) -> In p pre -> lt_idx p t0.
Proof.
  induction pre as [|a pre IH]; intros t0 rest p H Hp; [destruct Hp|]. cbn in H. apply sorted_cons_inv in H. destruct H as [Hs Hf].
  destruct Hp as [<-|Hp]; [|apply (IH t0 rest p Hs Hp)]. rewrite Forall_forall in Hf. apply Hf. apply in_elt.
Qed.

Lemma filter_head_min (P : idx -> bool) : forall l s L, sorted l -> filter P l = s :: L -> forall u, In u L -> lt_idx s u.
Proof.
  induction l as [|x l IH]; intros s L Hs Hf u Hu; [discriminate|]. apply sorted_cons_inv in Hs. destruct Hs as [Hs Hx].
  cbn in Hf. destruct (P x).
  - injection Hf as -> <-. apply filter_In in Hu. rewrite Forall_forall in Hx. apply Hx. tauto.
  - apply (IH s L Hs Hf u Hu).
Qed.

Lemma existsb_filter {A} (f : A -> bool) l : existsb f l = match filter f l with [] => false | _ => true end.
Proof. induction l as [|a l IH]; [reflexivity|]. cbn. destruct (f a); [reflexivity|exact IH]. Qed.

Lemma chi_in s t : In t s -> chi s t = 1.
Proof.
  intros H. unfold chi. assert (existsb (idx_eqb t) s = true) as ->; [|reflexivity].
  apply existsb_exists. exists t. split; [exact H|apply idx_eqb_refl].
Qed.
Lemma chi_notin s t : ~ In t s -> chi s t = 0.
Proof.
  intros H. unfold chi. destruct (existsb (idx_eqb t) s) eqn:E; [|reflexivity].
  apply existsb_exists in E. destruct E as [x [Hx E]]. apply idx_eqb_true in E. subst. contradiction.
Qed.

Lemma dim_of_wf D l : wf D l -> l <> [] -> dim_of l = D.
Proof. intros H Hne. destruct l as [|t r]; [congruence|]. inversion H; subst. reflexivity. Qed.

(* ================================================================ (b) lower sets *)
Section Lower.
  Variable D : nat.
  Variable Theta : list idx.
  Hypothesis Hsorted : sorted Theta.
  Hypothesis Hwf : wf D Theta.
  Hypothesis Hnonneg : forall t, In t Theta -> nonneg t.
  Hypothesis Hlower : lowerZ Theta.

  Lemma Theta_len t : In t Theta -> length t = D.
  Proof. intros H. unfold wf in Hwf. rewrite Forall_forall in Hwf. apply Hwf. exact H. Qed.

  (* on a lower sorted set the next member of the line of t0 in direction d is t0 + e_d, when it belongs to the set *)
  Lemma line_next d pre t0 rest : Theta = pre ++ t0 :: rest -> (d < D)%nat ->
    (In (bump d t0) Theta -> exists L, filter (match_outside d t0) rest = bump d t0 :: L) /\
    (~ In (bump d t0) Theta -> filter (match_outside d t0) rest = []).
  Proof.
    intros E Hd.
    assert (Ht0 : In t0 Theta) by (rewrite E; apply in_elt).
    pose proof (Theta_len t0 Ht0) as Hl0.
    assert (Hs' : sorted (t0 :: rest)) by (apply (sorted_app_r pre); rewrite <- E; exact Hsorted).
    apply sorted_cons_inv in Hs'. destruct Hs' as [Hsr Hlt].
    assert (Hrest : forall s, In s rest -> In s Theta) by (intros s Hs; rewrite E; apply in_or_app; right; right; exact Hs).
    assert (Hup : forall s, In s (filter (match_outside d t0) rest) -> nth d t0 0 < nth d s 0).
    { intros s Hs. apply filter_In in Hs. destruct Hs as [Hs Hm]. apply match_outside_iff in Hm.
      rewrite Forall_forall in Hlt. apply cmp_outkey_lt; [rewrite (Theta_len s (Hrest s Hs)); exact Hl0|apply Hlt; exact Hs|exact Hm]. }
    split.
    - intros Hb.
      assert (Hbr : In (bump d t0) rest).
      { rewrite E in Hb. apply in_app_or in Hb. destruct Hb as [Hb|[Hb|Hb]]; [| |exact Hb].
        - exfalso. pose proof (sorted_app_before pre t0 rest _ (eq_ind _ sorted Hsorted _ E) Hb) as H1.
          pose proof (cmp_bump d t0 ltac:(lia)) as H2.
          apply (lt_idx_irrefl t0). apply (lt_idx_trans t0 (bump d t0) t0); [rewrite bump_length; reflexivity|apply bump_length|exact H2|exact H1].
        - exfalso. pose proof (nth_bump d t0 ltac:(lia)) as H. rewrite <- Hb in H. lia. }
      assert (Hbf : In (bump d t0) (filter (match_outside d t0) rest)).
      { apply filter_In. split; [exact Hbr|]. apply match_outside_iff. symmetry. apply outkey_bump. }
      destruct (filter (match_outside d t0) rest) as [|s L] eqn:EF; [destruct Hbf|].
      exists L. f_equal.
      destruct Hbf as [Hbf|Hbf]; [exact Hbf|]. exfalso.
      pose proof (filter_head_min _ rest s L Hsr EF _ Hbf) as H1.
      assert (Hsf : In s (filter (match_outside d t0) rest)) by (rewrite EF; left; reflexivity).
      pose proof (Hup s (or_introl eq_refl)) as H2. apply filter_In in Hsf. destruct Hsf as [Hsr' Hm]. apply match_outside_iff in Hm.
      assert (H3 : nth d s 0 < nth d (bump d t0) 0).
      { apply cmp_outkey_lt; [rewrite bump_length, (Theta_len s (Hrest s Hsr')); symmetry; exact Hl0|exact H1|].
        rewrite outkey_bump. symmetry. exact Hm. }
      rewrite nth_bump in H3 by lia. lia.
    - intros Hb. destruct (filter (match_outside d t0) rest) as [|s L] eqn:EF; [reflexivity|]. exfalso. apply Hb.
      assert (Hsf : In s (filter (match_outside d t0) rest)) by (rewrite EF; left; reflexivity).
      pose proof (Hup s (or_introl eq_refl)) as H2. apply filter_In in Hsf. destruct Hsf as [Hsr' Hm]. apply match_outside_iff in Hm.
      apply (Hlower s (bump d t0) (Hrest s Hsr')).
      apply bump_le; [rewrite (Theta_len s (Hrest s Hsr')); exact Hl0|apply Hnonneg; exact Ht0|exact Hm|exact H2].
  Qed.

  Definition chiT : idx -> Z := chi Theta.

  Lemma notin_bump d u : nonneg u -> ~ In u Theta -> ~ In (bump d u) Theta.
  Proof. intros Hn Hu Hb. apply Hu. apply (Hlower (bump d u) u Hb). apply le_bump. exact Hn. Qed.

  Lemma iter_diff_zero_outside ds : forall u, nonneg u -> ~ In u Theta -> iter_diff chiT ds u = 0.
  Proof.
    induction ds as [|d r IH]; intros u Hn Hu; cbn [iter_diff].
    - apply chi_notin. exact Hu.
    - rewrite (IH u Hn Hu). rewrite (IH (bump d u)); [reflexivity|apply nonneg_bump; exact Hn|apply notin_bump; assumption].
  Qed.

  Lemma next_val_lower d (g : idx -> Z) W pre t0 rest : Theta = pre ++ t0 :: rest -> (d < D)%nat ->
    (forall u, nonneg u -> ~ In u Theta -> g u = 0) -> (forall t, In t Theta -> getw W t = g t) ->
    next_val d W t0 rest = g (bump d t0).
  Proof.
    intros E Hd Hz HW. destruct (line_next d pre t0 rest E Hd) as [H1 H2]. unfold next_val.
    assert (Ht0 : In t0 Theta) by (rewrite E; apply in_elt).
    destruct (in_dec (list_eq_dec Z.eq_dec) (bump d t0) Theta) as [Hb|Hb].
    - destruct (H1 Hb) as [L ->]. apply HW. exact Hb.
    - rewrite (H2 Hb). symmetry. apply Hz; [apply nonneg_bump; apply Hnonneg; exact Ht0|exact Hb].
  Qed.

  Definition Inv (n : nat) (W : wstate) : Prop :=
    map fst W = Theta /\ forall t, In t Theta -> getw W t = iter_diff chiT (seq n (D - n)) t.

  Lemma sweep_dim_inv d W : (d < D)%nat -> Inv (S d) W -> Inv d (sweep_dim d Theta W).
  Proof.
    intros Hd [Hk HW]. split; [rewrite sweep_dim_keys; exact Hk|].
    intros t Ht. destruct (in_split t Theta Ht) as [pre [rest E]].
    rewrite (sweep_dim_at d Theta pre t rest W E (sorted_nodup _ Hsorted)) by (rewrite Hk; apply incl_refl).
    rewrite (next_val_lower d (iter_diff chiT (seq (S d) (D - S d))) W pre t rest E Hd (iter_diff_zero_outside _) HW).
    rewrite (HW t Ht). replace (D - d)%nat with (S (D - S d)) by lia. reflexivity.
  Qed.

  Lemma sweep_down_inv : forall n W, (n < D)%nat -> Inv n W -> Inv 0 (sweep_down Theta n W).
  Proof.
    induction n as [|d IH]; intros W Hn HI; [exact HI|]. cbn [sweep_down]. apply IH; [lia|]. apply sweep_dim_inv; [lia|exact HI].
  Qed.

  Lemma init_lines_keys d : forall l, map fst (init_lines d l) = l.
  Proof. induction l as [|t rest IH]; [reflexivity|]. cbn. f_equal. exact IH. Qed.

  Lemma init_lines_at d : forall pre t0 rest, NoDup (pre ++ t0 :: rest) ->
    getw (init_lines d (pre ++ t0 :: rest)) t0 = if existsb (match_outside d t0) rest then 0 else 1.
  Proof.
    induction pre as [|a pre IH]; intros t0 rest Hnd; cbn [app init_lines getw].
    - rewrite idx_eqb_refl. reflexivity.
    - inversion Hnd as [|? ? Hnot Hnd']; subst. rewrite idx_eqb_neq by (intro E; subst; apply Hnot; apply in_elt). apply IH. exact Hnd'.
  Qed.

  Lemma first_diff d t0 pre rest : Theta = pre ++ t0 :: rest -> (d < D)%nat ->
    (if existsb (match_outside d t0) rest then 0 else 1) = iter_diff chiT [d] t0.
  Proof.
    intros E Hd. destruct (line_next d pre t0 rest E Hd) as [H1 H2].
    assert (Ht0 : In t0 Theta) by (rewrite E; apply in_elt).
    cbn [iter_diff]. unfold chiT. rewrite (chi_in Theta t0 Ht0). rewrite existsb_filter.
    destruct (in_dec (list_eq_dec Z.eq_dec) (bump d t0) Theta) as [Hb|Hb].
    - destruct (H1 Hb) as [L ->]. rewrite (chi_in _ _ Hb). reflexivity.
    - rewrite (H2 Hb). rewrite (chi_notin _ _ Hb). reflexivity.
  Qed.

  Lemma init_inv : (1 <= D)%nat -> Inv (D - 1) (init_lines (D - 1) Theta).
  Proof.
    intros HD. split; [apply init_lines_keys|]. intros t Ht. destruct (in_split t Theta Ht) as [pre [rest E]].
    replace (D - (D - 1))%nat with 1%nat by lia. cbn [seq].
    rewrite <- (first_diff (D - 1) t pre rest E) by lia.
    rewrite E at 1. apply init_lines_at. rewrite <- E. apply sorted_nodup. exact Hsorted.
  Qed.

  Lemma store_values (F : idx -> Z) : forall W, NoDup (map fst W) -> (forall t, In t (map fst W) -> getw W t = F t) ->
    map snd W = map F (map fst W).
  Proof.
    induction W as [|[k x] W IH]; intros Hnd H; [reflexivity|]. cbn [map fst snd] in *. inversion Hnd as [|? ? Hnot Hnd']; subst. f_equal.
    - rewrite <- (H k) by (left; reflexivity). cbn. rewrite idx_eqb_refl. reflexivity.
    - apply IH; [exact Hnd'|]. intros t Ht. rewrite <- (H t) by (right; exact Ht). cbn.
      rewrite idx_eqb_neq by (intro E; subst; contradiction). reflexivity.
  Qed.

  (* the special case D = 1 of the C++ *)
  Lemma one_dim_suffix : D = 1%nat -> forall l pre, Theta = pre ++ l -> l <> [] ->
    map (iter_diff chiT [0%nat]) l = repeat 0 (length l - 1) ++ [1].
  Proof.
    intros HD. induction l as [|t0 rest IH]; intros pre E Hne; [congruence|].
    cbn [map]. rewrite <- (first_diff 0 t0 pre rest E) by lia. rewrite existsb_filter.
    destruct rest as [|r1 rest'].
    - reflexivity.
    - assert (Hm : match_outside 0 t0 r1 = true).
      { apply match_outside_iff.
        assert (H0 : length t0 = 1%nat) by (rewrite <- HD; apply Theta_len; rewrite E; apply in_elt).
        assert (H1 : length r1 = 1%nat) by (rewrite <- HD; apply Theta_len; rewrite E; apply in_or_app; right; right; left; reflexivity).
        destruct t0 as [|x [|? ?]]; try discriminate. destruct r1 as [|y [|? ?]]; try discriminate. reflexivity. }
      cbn [filter]. rewrite Hm. cbn [length]. replace (S (S (length rest')) - 1)%nat with (S (length (r1 :: rest') - 1)) by (cbn; lia).
      cbn [repeat app]. f_equal. apply (IH (pre ++ [t0])); [rewrite <- app_assoc; exact E|discriminate].
  Qed.

  (* (b) with the inclusion-exclusion value written as the iterated difference over all the directions *)
  Theorem tw_lines_iter_diff : (1 <= D)%nat -> Theta <> [] ->
    tw_lines Theta = map (iter_diff chiT (seq 0 D)) Theta.
  Proof.
    intros HD Hne. unfold tw_lines.
    assert (Hdim : dim_of Theta = D) by (apply dim_of_wf; assumption).
    rewrite Hdim. destruct (D =? 1)%nat eqn:E1.
    - apply Nat.eqb_eq in E1. rewrite E1. cbn [seq]. symmetry. apply (one_dim_suffix E1 Theta []); [reflexivity|exact Hne].
    - apply Nat.eqb_neq in E1.
      destruct (sweep_down_inv (D - 1) (init_lines (D - 1) Theta) ltac:(lia) (init_inv HD)) as [Hk HW].
      rewrite (store_values (iter_diff chiT (seq 0 D))).
      + rewrite Hk. reflexivity.
      + rewrite Hk. apply sorted_nodup. exact Hsorted.
      + rewrite Hk. intros t Ht. rewrite (HW t Ht). rewrite Nat.sub_0_r. reflexivity.
  Qed.
End Lower.

(* ================================================================ the iterated difference is the sum over the cube {0,1}^D *)
Lemma bump_app p : forall x q, bump (length p) (p ++ x :: q) = p ++ (x + 1) :: q.
Proof. induction p as [|a p IH]; intros x q; cbn; [reflexivity|]. rewrite IH. reflexivity. Qed.

Lemma zsum_app a b : zsum (a ++ b) = zsum a + zsum b.
Proof. unfold zsum. induction a as [|x a IH]; cbn; [reflexivity|]. rewrite IH. lia. Qed.

Lemma zsum_flat_map {A B} (h : B -> Z) (k : A -> list B) l : zsum (map h (flat_map k l)) = zsum (map (fun x => zsum (map h (k x))) l).
Proof.
  induction l as [|x l IH]; [reflexivity|]. cbn [flat_map map]. rewrite map_app, zsum_app, IH. reflexivity.
Qed.

Lemma zsum_map_sub {A} (a b : A -> Z) l : zsum (map a l) - zsum (map b l) = zsum (map (fun x => a x - b x) l).
Proof. unfold zsum. induction l as [|x l IH]; cbn; lia. Qed.

Lemma iter_diff_cube f : forall n p q, length q = n ->
  iter_diff f (seq (length p) n) (p ++ q) = zsum (map (fun ez => snd ez * f (p ++ map2 Z.add q (fst ez))) (cube n)).
Proof.
  induction n as [|n IH]; intros p q Hq.
  - destruct q; [|discriminate]. cbn [seq iter_diff cube map fst snd map2 zsum fold_right]. ring.
  - destruct q as [|x q']; [discriminate|]. cbn [seq iter_diff]. rewrite bump_app.
    replace (p ++ x :: q') with ((p ++ [x]) ++ q') by (rewrite <- app_assoc; reflexivity).
    replace (p ++ (x + 1) :: q') with ((p ++ [x + 1]) ++ q') by (rewrite <- app_assoc; reflexivity).
    assert (HL : forall y, S (length p) = length (p ++ [y])) by (intros; rewrite app_length; cbn; lia).
    rewrite (HL x) at 1. rewrite IH by (cbn in Hq; lia). rewrite (HL (x + 1)). rewrite IH by (cbn in Hq; lia).
    rewrite zsum_map_sub. cbn [cube]. rewrite zsum_flat_map. f_equal. apply map_ext. intros [e z].
    cbn [fst snd map zsum fold_right map2]. rewrite <- !app_assoc. cbn [app]. rewrite Z.add_0_r. ring.
Qed.

Lemma incl_excl_iter_diff s t : incl_excl s t = iter_diff (chi s) (seq 0 (length t)) t.
Proof. unfold incl_excl. symmetry. exact (iter_diff_cube (chi s) (length t) [] t eq_refl). Qed.

Lemma zsum_map_zero {A} (g : A -> Z) l : (forall x, g x = 0) -> zsum (map g l) = 0.
Proof. intros H. unfold zsum. induction l as [|x l IH]; cbn; [reflexivity|]. rewrite H, IH. reflexivity. Qed.

Lemma cube_sum_zero n : zsum (map snd (cube (S n))) = 0.
Proof. cbn [cube]. rewrite zsum_flat_map. apply zsum_map_zero. intros [e z]. cbn. lia. Qed.

Lemma cube_01 n : forall e z, In (e, z) (cube n) -> length e = n /\ Forall (fun x => 0 <= x <= 1) e.
Proof.
  induction n as [|n IH]; intros e z H.
  - cbn in H. destruct H as [H|[]]. injection H as <- _. split; [reflexivity|constructor].
  - cbn [cube] in H. apply in_flat_map in H. destruct H as [[e' z'] [H' H]]. destruct (IH e' z' H') as [Hl Hf].
    cbn in H. destruct H as [H|[H|[]]]; injection H as <- _; split; cbn; try lia; constructor; auto; lia.
Qed.

Lemma le_idx_add_cube t : forall e, nonneg t -> length e = length t -> Forall (fun x => 0 <= x <= 1) e ->
  le_idx (map2 Z.add t e) (map (fun x => x + 1) t).
Proof.
  induction t as [|x t IH]; intros [|y e] Hn Hl Hf; cbn in Hl; try discriminate; cbn; [constructor|].
  inversion Hn; subst. inversion Hf; subst. constructor; [lia|]. apply IH; auto.
Qed.

(* (b) in the form of the statement: the weights of tw_lines are the inclusion-exclusion values *)
Theorem tw_lines_incl_excl D Theta : sorted Theta -> wf D Theta -> (forall t, In t Theta -> nonneg t) -> lowerZ Theta ->
  (1 <= D)%nat -> Theta <> [] -> tw_lines Theta = map (incl_excl Theta) Theta.
Proof.
  intros Hs Hw Hn Hl HD Hne. rewrite (tw_lines_iter_diff D Theta Hs Hw Hn Hl HD Hne).
  apply map_ext_in. intros t Ht. rewrite incl_excl_iter_diff. unfold wf in Hw. rewrite Forall_forall in Hw. rewrite (Hw t Ht). reflexivity.
Qed.

(* (c) inactive tensors: t + (1,...,1) in the set -> weight 0 *)
Lemma incl_excl_inactive Theta t : lowerZ Theta -> nonneg t -> (1 <= length t)%nat -> In (map (fun x => x + 1) t) Theta ->
  incl_excl Theta t = 0.
Proof.
  intros Hl Hn HD Hin. unfold incl_excl. destruct (length t) as [|n] eqn:En; [lia|].
  rewrite <- (cube_sum_zero n). f_equal. apply map_ext_in. intros [e z] He. cbn [fst snd].
  destruct (cube_01 (S n) e z He) as [Hlen Hf].
  rewrite chi_in; [lia|]. apply (Hl _ _ Hin). apply le_idx_add_cube; auto. lia.
Qed.

Lemma tw_lines_inactive D Theta : sorted Theta -> wf D Theta -> (forall t, In t Theta -> nonneg t) -> lowerZ Theta -> (1 <= D)%nat ->
  forall i, (i < length Theta)%nat -> In (map (fun x => x + 1) (nth i Theta [])) Theta -> nth i (tw_lines Theta) 0 = 0.
Proof.
  intros Hs Hw Hn Hl HD i Hi Hin.
  assert (Hne : Theta <> []) by (destruct Theta; [cbn in Hi; lia|discriminate]).
  rewrite (tw_lines_incl_excl D Theta Hs Hw Hn Hl HD Hne).
  rewrite (nth_indep _ 0 (incl_excl Theta [])) by (rewrite map_length; exact Hi). rewrite map_nth.
  pose proof (nth_In Theta [] Hi) as Ht. unfold wf in Hw. rewrite Forall_forall in Hw.
  apply incl_excl_inactive; [exact Hl|apply Hn; exact Ht|rewrite (Hw _ Ht); exact HD|exact Hin].
Qed.

From Coq Require Import Permutation.
(* ================================================================ (c) the weights of a lower set sum to 1 *)
Lemma bump_unbump d : forall t, bump d (unbump d t) = t.
Proof. induction d as [|d IH]; intros [|x r]; cbn; try reflexivity; [f_equal; lia|rewrite IH; reflexivity]. Qed.

Lemma bump_inj d : forall a b, bump d a = bump d b -> a = b.
Proof.
  induction d as [|d IH]; intros [|x a] [|y b] H; cbn in H; try discriminate; try reflexivity.
  - injection H as H1 H2. f_equal; [lia|exact H2].
  - injection H as H1 H2. f_equal; [exact H1|apply IH; exact H2].
Qed.

Lemma nth_bump_other d : forall t j, j <> d -> nth j (bump d t) 0 = nth j t 0.
Proof.
  induction d as [|d IH]; intros [|x r] j Hj; cbn [bump]; try reflexivity.
  - destruct j; [congruence|reflexivity].
  - destruct j; [reflexivity|]. cbn [nth]. apply IH. congruence.
Qed.

Lemma le_unbump d : forall t, nonneg t -> 1 <= nth d t 0 -> le_idx (unbump d t) t.
Proof.
  induction d as [|d IH]; intros [|x r] Hn H1; cbn [unbump]; try constructor; inversion Hn; subst; cbn [nth] in H1; try lia.
  - apply le_idx_refl. assumption.
  - apply IH; assumption.
Qed.

Lemma zsum_filter_split {A} (g : A -> Z) (p : A -> bool) l :
  zsum (map g l) = zsum (map g (filter p l)) + zsum (map g (filter (fun x => negb (p x)) l)).
Proof. unfold zsum. induction l as [|x l IH]; [reflexivity|]. cbn. destruct (p x); cbn; lia. Qed.

Lemma zsum_perm {A} (g : A -> Z) l l' : Permutation l l' -> zsum (map g l) = zsum (map g l').
Proof. unfold zsum. induction 1; cbn; lia. Qed.

Lemma zsum_map_zero_in {A} (g : A -> Z) l : (forall x, In x l -> g x = 0) -> zsum (map g l) = 0.
Proof.
  unfold zsum. induction l as [|x l IH]; intros H; [reflexivity|]. cbn. rewrite (H x) by (left; reflexivity).
  rewrite IH; [reflexivity|]. intros y Hy. apply H. right. exact Hy.
Qed.

Lemma filter_filter {A} (p q : A -> bool) l : filter q (filter p l) = filter (fun x => p x && q x) l.
Proof. induction l as [|x l IH]; [reflexivity|]. cbn. destruct (p x); cbn; [destruct (q x); rewrite IH; reflexivity|exact IH]. Qed.

Definition zp (k : nat) (t : idx) : bool := forallb (fun j => nth j t 0 =? 0) (seq 0 k).

Lemma zp_S k t : zp (S k) t = zp k t && (nth k t 0 =? 0).
Proof. unfold zp. rewrite seq_S, forallb_app. cbn. rewrite andb_true_r. reflexivity. Qed.

Lemma forallb_ext_in' {A} (f g : A -> bool) l : (forall x, In x l -> f x = g x) -> forallb f l = forallb g l.
Proof.
  induction l as [|x l IH]; intros H; [reflexivity|]. cbn. rewrite (H x) by (left; reflexivity). f_equal. apply IH.
  intros y Hy. apply H. right. exact Hy.
Qed.

Lemma zp_bump k t : zp k (bump k t) = zp k t.
Proof.
  unfold zp. apply forallb_ext_in'. intros j Hj. apply in_seq in Hj. rewrite nth_bump_other by lia. reflexivity.
Qed.

Section Sum.
  Variable D : nat.
  Variable Theta : list idx.
  Hypothesis Hsorted : sorted Theta.
  Hypothesis Hwf : wf D Theta.
  Hypothesis Hnonneg : forall t, In t Theta -> nonneg t.
  Hypothesis Hlower : lowerZ Theta.

  Definition inb (u : idx) : bool := if in_dec (list_eq_dec Z.eq_dec) u Theta then true else false.
  Lemma inb_true u : inb u = true <-> In u Theta.
  Proof. unfold inb. destruct (in_dec (list_eq_dec Z.eq_dec) u Theta); split; intros; auto; discriminate. Qed.

  Definition A (k : nat) : list idx := filter (zp k) Theta.
  Definition F (k : nat) : idx -> Z := iter_diff (chi Theta) (seq k (D - k)).

  Lemma shift_perm k : (k < D)%nat ->
    Permutation (map (bump k) (filter (fun t => inb (bump k t)) (A k))) (filter (fun s => negb (nth k s 0 =? 0)) (A k)).
  Proof.
    intros Hk. pose proof (sorted_nodup _ Hsorted) as Hnd. apply NoDup_Permutation.
    - apply FinFun.Injective_map_NoDup; [intros a b; apply bump_inj|]. apply NoDup_filter. apply NoDup_filter. exact Hnd.
    - apply NoDup_filter. apply NoDup_filter. exact Hnd.
    - intros s. rewrite in_map_iff. unfold A. rewrite !filter_In. split.
      + intros [t [<- Ht]]. apply filter_In in Ht. destruct Ht as [Ht Hb]. apply filter_In in Ht. destruct Ht as [Ht Hz].
        apply inb_true in Hb. rewrite zp_bump.
        repeat split; [exact Hb|exact Hz|]. rewrite nth_bump by (rewrite (Theta_len D Theta Hwf t Ht); exact Hk).
        pose proof (Hnonneg t Ht) as Hn. unfold nonneg in Hn. rewrite Forall_forall in Hn.
        assert (0 <= nth k t 0) by (apply Hn; apply nth_In; rewrite (Theta_len D Theta Hwf t Ht); exact Hk). lia.
      + intros [[Hs Hz] Hq]. exists (unbump k s).
        assert (Hu : In (unbump k s) Theta).
        { apply (Hlower s _ Hs). apply le_unbump; [apply Hnonneg; exact Hs|].
          pose proof (Hnonneg s Hs) as Hn. unfold nonneg in Hn. rewrite Forall_forall in Hn.
          assert (0 <= nth k s 0) by (apply Hn; apply nth_In; rewrite (Theta_len D Theta Hwf s Hs); exact Hk). lia. }
        split; [apply bump_unbump|]. apply filter_In. split; [|rewrite bump_unbump; apply inb_true; exact Hs].
        apply filter_In. split; [exact Hu|]. rewrite <- zp_bump, bump_unbump. exact Hz.
  Qed.

  Lemma sum_step k : (k < D)%nat -> zsum (map (F k) (A k)) = zsum (map (F (S k)) (A (S k))).
  Proof.
    intros Hk. unfold F at 1. replace (D - k)%nat with (S (D - S k)) by lia. cbn [seq iter_diff]. fold (F (S k)).
    rewrite <- (zsum_map_sub (F (S k)) (fun t => F (S k) (bump k t))).
    rewrite (zsum_filter_split (F (S k)) (fun s => nth k s 0 =? 0) (A k)).
    rewrite (zsum_filter_split (fun t => F (S k) (bump k t)) (fun t => inb (bump k t)) (A k)).
    rewrite (zsum_map_zero_in _ (filter (fun x => negb (inb (bump k x))) (A k))).
    2:{ intros t Ht. apply filter_In in Ht. destruct Ht as [Ht Hb]. unfold A in Ht. apply filter_In in Ht.
        apply (iter_diff_zero_outside Theta Hlower); [apply nonneg_bump; apply Hnonneg; tauto|].
        intro Hin. apply inb_true in Hin. rewrite Hin in Hb. discriminate. }
    rewrite <- (map_map (bump k) (F (S k))). rewrite (zsum_perm _ _ _ (shift_perm k Hk)).
    unfold A at 1. rewrite filter_filter. rewrite (filter_ext _ (zp (S k))) by (intros t; rewrite zp_S; reflexivity).
    fold (A (S k)). match goal with |- ?a + ?b - (?c + 0) = _ => change c with b end. lia.
  Qed.

  Lemma sum_steps : forall k, (k <= D)%nat -> zsum (map (F 0) (A 0)) = zsum (map (F k) (A k)).
  Proof. induction k as [|k IH]; intros Hk; [reflexivity|]. rewrite IH by lia. apply sum_step. lia. Qed.

  Lemma zp_all t : length t = D -> zp D t = true -> t = repeat 0 D.
  Proof.
    intros Hl Hz. apply (nth_ext _ _ 0 0); [rewrite repeat_length; exact Hl|]. intros j Hj.
    unfold zp in Hz. rewrite forallb_forall in Hz. assert (Hj' : In j (seq 0 D)) by (apply in_seq; lia).
    apply Hz in Hj'. rewrite nth_repeat. lia.
  Qed.

  Theorem weights_sum_one : (1 <= D)%nat -> Theta <> [] -> zsum (tw_lines Theta) = 1.
  Proof.
    intros HD Hne. rewrite (tw_lines_iter_diff D Theta Hsorted Hwf Hnonneg Hlower HD Hne).
    assert (HA0 : A 0 = Theta).
    { unfold A. clear. induction Theta as [|t l IH]; [reflexivity|]. cbn. f_equal. exact IH. }
    change (iter_diff (chiT Theta) (seq 0 D)) with (iter_diff (chi Theta) (seq 0 (D - 0))) || idtac.
    replace (map (iter_diff (chiT Theta) (seq 0 D)) Theta) with (map (F 0) (A 0)) by (rewrite HA0; unfold F, chiT; rewrite Nat.sub_0_r; reflexivity).
    rewrite (sum_steps D) by lia.
    assert (HZ : In (repeat 0 D) Theta).
    { destruct Theta as [|t r] eqn:E; [congruence|]. rewrite <- E in *.
      assert (Ht : In t Theta) by (rewrite E; left; reflexivity).
      rewrite <- (Theta_len D Theta Hwf t Ht). apply (Hlower t _ Ht). apply le_idx_zeros. apply Hnonneg. exact Ht. }
    assert (HP : Permutation (A D) [repeat 0 D]).
    { apply NoDup_Permutation; [apply NoDup_filter; apply sorted_nodup; exact Hsorted|repeat constructor; intros []|].
      intros t. unfold A. rewrite filter_In. split.
      - intros [Ht Hz]. left. symmetry. apply zp_all; [apply (Theta_len D Theta Hwf t Ht)|exact Hz].
      - intros [<-|[]]. split; [exact HZ|]. unfold zp. apply forallb_forall. intros j _. rewrite nth_repeat. reflexivity. }
    rewrite (zsum_perm _ _ _ HP). cbn [map zsum fold_right]. unfold F. rewrite Nat.sub_diag. cbn [seq iter_diff].
    rewrite (chi_in _ _ HZ). reflexivity.
  Qed.
End Sum.

(* ================================================================ (a) for the sweep by position of tw_cpp *)
Lemma set_pos_length w : forall p v, length (set_pos w p v) = length w.
Proof. induction w as [|x w IH]; intros [|p] v; cbn; try reflexivity. rewrite IH. reflexivity. Qed.

Lemma nth_set_pos_same w : forall p v, (p < length w)%nat -> nth p (set_pos w p v) 0 = v.
Proof. induction w as [|x w IH]; intros p v H; [cbn in H; lia|]. destruct p as [|p]; cbn; [reflexivity|]. apply IH. cbn in H. lia. Qed.

Lemma nth_set_pos_other w : forall p q v, q <> p -> nth q (set_pos w p v) 0 = nth q w 0.
Proof.
  induction w as [|x w IH]; intros [|p] [|q] v H; cbn; try reflexivity; try congruence. apply IH. congruence.
Qed.

Lemma sweep_line_length ps : forall w, length (sweep_line ps w) = length w.
Proof.
  induction ps as [|p rest IH]; intros w; [reflexivity|]. cbn [sweep_line]. destruct rest as [|q r]; [apply IH|].
  rewrite set_pos_length. apply IH.
Qed.

Lemma sweep_line_untouched ps : forall w q, ~ In q ps -> nth q (sweep_line ps w) 0 = nth q w 0.
Proof.
  induction ps as [|p rest IH]; intros w q H; [reflexivity|]. cbn [sweep_line].
  assert (Hr : ~ In q rest) by (intro Hq; apply H; right; exact Hq).
  destruct rest as [|q' r]; [apply IH; exact Hr|].
  rewrite nth_set_pos_other by (intro E; apply H; left; congruence). apply IH. exact Hr.
Qed.

(* the in-place sweep over the positions ps of one line of the weight vector w is the sweep of the values of the line *)
Lemma sweep_line_vals ps : forall w, NoDup ps -> (forall p, In p ps -> (p < length w)%nat) ->
  map (fun p => nth p (sweep_line ps w) 0) ps = sweep_vals (map (fun p => nth p w 0) ps).
Proof.
  induction ps as [|p rest IH]; intros w Hnd Hin; [reflexivity|].
  inversion Hnd as [|? ? Hnot Hnd']; subst.
  assert (Hin' : forall q, In q rest -> (q < length w)%nat) by (intros q Hq; apply Hin; right; exact Hq).
  specialize (IH w Hnd' Hin').
  cbn [sweep_line map sweep_vals]. destruct rest as [|q r].
  - reflexivity.
  - set (rest := q :: r) in *. set (w' := sweep_line rest w) in *.
    assert (Hmap : map (fun p0 => nth p0 (set_pos w' p (nth p w' 0 - zsum (map (fun q0 => nth q0 w' 0) rest))) 0) rest
                   = map (fun p0 => nth p0 w' 0) rest).
    { apply map_ext_in. intros a Ha. apply nth_set_pos_other. intro E. subst. contradiction. }
    change (map (fun p0 => nth p0 w 0) rest) with (map (fun p0 => nth p0 w 0) (q :: r)) in *.
    destruct (map (fun p0 => nth p0 w 0) (q :: r)) as [|y ys] eqn:EM; [discriminate|].
    cbn [map]. rewrite Hmap. rewrite nth_set_pos_same by (unfold w'; rewrite sweep_line_length; apply Hin; left; reflexivity).
    unfold w' at 1. rewrite sweep_line_untouched by exact Hnot. rewrite IH. reflexivity.
Qed.

Lemma sweep_line_spec ps w : NoDup ps -> (forall p, In p ps -> (p < length w)%nat) ->
  length (sweep_line ps w) = length w /\
  map (fun p => nth p (sweep_line ps w) 0) ps = sweep_vals (map (fun p => nth p w 0) ps) /\
  (forall q, ~ In q ps -> nth q (sweep_line ps w) 0 = nth q w 0).
Proof.
  intros Hnd Hin. split; [apply sweep_line_length|]. split; [apply sweep_line_vals; assumption|]. intros q Hq. apply sweep_line_untouched. exact Hq.
Qed.

(* ================================================================ (c') combination technique = sum of the mixed backward differences *)
Lemma unbump_bump d : forall t, unbump d (bump d t) = t.
Proof. induction d as [|d IH]; intros [|x r]; cbn; try reflexivity; [f_equal; lia|rewrite IH; reflexivity]. Qed.

Lemma map2_map_mul {A} (f g : A -> Z) l : map2 Z.mul (map f l) (map g l) = map (fun t => f t * g t) l.
Proof. induction l as [|x l IH]; [reflexivity|]. cbn. rewrite IH. reflexivity. Qed.

Section Parts.
  Variable D : nat.
  Variable Theta : list idx.
  Hypothesis Hsorted : sorted Theta.
  Hypothesis Hwf : wf D Theta.
  Hypothesis Hnonneg : forall t, In t Theta -> nonneg t.
  Hypothesis Hlower : lowerZ Theta.

  Let inb := inb Theta.

  Lemma shift_perm_all k : (k < D)%nat ->
    Permutation (map (bump k) (filter (fun t => inb (bump k t)) Theta)) (filter (fun s => negb (nth k s 0 =? 0)) Theta).
  Proof.
    intros Hk. pose proof (sorted_nodup _ Hsorted) as Hnd. apply NoDup_Permutation.
    - apply FinFun.Injective_map_NoDup; [intros a b; apply bump_inj|]. apply NoDup_filter. exact Hnd.
    - apply NoDup_filter. exact Hnd.
    - intros s. rewrite in_map_iff. rewrite filter_In. split.
      + intros [t [<- Ht]]. apply filter_In in Ht. destruct Ht as [Ht Hb]. apply inb_true in Hb.
        split; [exact Hb|]. rewrite nth_bump by (rewrite (Theta_len D Theta Hwf t Ht); exact Hk).
        pose proof (Hnonneg t Ht) as Hn. unfold nonneg in Hn. rewrite Forall_forall in Hn.
        assert (0 <= nth k t 0) by (apply Hn; apply nth_In; rewrite (Theta_len D Theta Hwf t Ht); exact Hk). lia.
      + intros [Hs Hq]. exists (unbump k s).
        assert (Hu : In (unbump k s) Theta).
        { apply (Hlower s _ Hs). apply le_unbump; [apply Hnonneg; exact Hs|].
          pose proof (Hnonneg s Hs) as Hn. unfold nonneg in Hn. rewrite Forall_forall in Hn.
          assert (0 <= nth k s 0) by (apply Hn; apply nth_In; rewrite (Theta_len D Theta Hwf s Hs); exact Hk). lia. }
        split; [apply bump_unbump|]. apply filter_In. split; [exact Hu|]. rewrite bump_unbump. apply inb_true. exact Hs.
  Qed.

  (* summation by parts in direction k *)
  Lemma parts_step k (G V : idx -> Z) : (k < D)%nat -> (forall u, nonneg u -> ~ In u Theta -> G u = 0) ->
    zsum (map (fun t => (G t - G (bump k t)) * V t) Theta) = zsum (map (fun t => G t * back_diff k V t) Theta).
  Proof.
    intros Hk Hz.
    assert (E1 : zsum (map (fun t => (G t - G (bump k t)) * V t) Theta)
                 = zsum (map (fun t => G t * V t) Theta) - zsum (map (fun t => G (bump k t) * V t) Theta)).
    { rewrite zsum_map_sub. f_equal. apply map_ext. intros t. ring. }
    assert (E2 : zsum (map (fun t => G t * back_diff k V t) Theta)
                 = zsum (map (fun t => G t * V t) Theta) - zsum (map (fun t => G t * (if nth k t 0 =? 0 then 0 else V (unbump k t))) Theta)).
    { rewrite zsum_map_sub. f_equal. apply map_ext. intros t. unfold back_diff. ring. }
    rewrite E1, E2. f_equal.
    rewrite (zsum_filter_split (fun t => G (bump k t) * V t) (fun t => inb (bump k t)) Theta).
    rewrite (zsum_map_zero_in _ (filter (fun x => negb (inb (bump k x))) Theta)).
    2:{ intros t Ht. apply filter_In in Ht. destruct Ht as [Ht Hb].
        rewrite Hz; [ring|apply nonneg_bump; apply Hnonneg; exact Ht|].
        intro Hin. apply inb_true in Hin. unfold inb in Hb. rewrite Hin in Hb. discriminate. }
    rewrite (zsum_filter_split (fun t => G t * (if nth k t 0 =? 0 then 0 else V (unbump k t))) (fun t => negb (nth k t 0 =? 0)) Theta).
    rewrite (zsum_map_zero_in _ (filter (fun x => negb (negb (nth k x 0 =? 0))) Theta)).
    2:{ intros t Ht. apply filter_In in Ht. destruct Ht as [_ Hb]. destruct (nth k t 0 =? 0); [ring|discriminate]. }
    f_equal.
    transitivity (zsum (map (fun s => G s * (if nth k s 0 =? 0 then 0 else V (unbump k s))) (map (bump k) (filter (fun t => inb (bump k t)) Theta)))).
    2:{ apply zsum_perm. apply shift_perm_all. exact Hk. }
    rewrite map_map. f_equal. apply map_ext_in. intros t Ht. apply filter_In in Ht. destruct Ht as [Ht Hb].
    rewrite unbump_bump. rewrite nth_bump by (rewrite (Theta_len D Theta Hwf t Ht); exact Hk).
    pose proof (Hnonneg t Ht) as Hn. unfold nonneg in Hn. rewrite Forall_forall in Hn.
    assert (0 <= nth k t 0) by (apply Hn; apply nth_In; rewrite (Theta_len D Theta Hwf t Ht); exact Hk).
    assert (nth k t 0 + 1 =? 0 = false) as -> by lia. reflexivity.
  Qed.

  Lemma parts_all : forall n k V, (k + n = D)%nat ->
    zsum (map (fun t => iter_diff (chi Theta) (seq k n) t * V t) Theta) = zsum (map (iter_back V (seq k n)) Theta).
  Proof.
    induction n as [|n IH]; intros k V Hkn.
    - cbn [seq iter_diff iter_back]. f_equal. apply map_ext_in. intros t Ht. rewrite (chi_in _ _ Ht). ring.
    - cbn [seq iter_diff iter_back]. rewrite <- (IH (S k) (back_diff k V)) by lia.
      apply (parts_step k (iter_diff (chi Theta) (seq (S k) n)) V); [lia|].
      intros u Hu Hnot. apply (iter_diff_zero_outside Theta Hlower); assumption.
  Qed.

  Theorem weights_mixed_differences (V : idx -> Z) : (1 <= D)%nat -> Theta <> [] ->
    zsum (map2 Z.mul (tw_lines Theta) (map V Theta)) = zsum (map (iter_back V (seq 0 D)) Theta).
  Proof.
    intros HD Hne. rewrite (tw_lines_iter_diff D Theta Hsorted Hwf Hnonneg Hlower HD Hne).
    rewrite map2_map_mul. unfold chiT. apply (parts_all D 0 V). lia.
  Qed.
End Parts.
