From TV Require Import Common.Prelude Model.RuleLocal Model.LocalGrid Proofs.RuleLocalProofs Proofs.DiffProofs Proofs.LocalTreeSpec.
From Coq Require Import QArith Qabs Lqa.
Local Open Scope Z_scope.
Check Z.div_div. Check Z.div_unique. Check Zlt_Qlt. Check Qabs_Qle_condition. Check Qle_lt_or_eq. Check Qmult_lt_compat_r.
Check Z.div_le_upper_bound. Check Z.div_lt_upper_bound. Check Qabs_wd. Search (Qabs _ == _)%Q.
