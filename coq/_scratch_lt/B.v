From TV Require Import Common.Prelude Model.RuleLocal Model.LocalGrid Proofs.RuleLocalProofs Proofs.DiffProofs Proofs.LocalTreeSpec.
From Coq Require Import QArith Qabs Lqa.
Local Open Scope Q_scope.
Definition odd_q (x : Q) : Prop := exists k : Z, x == zq (2 * k + 1).
Lemma odd_q_nonzero x : odd_q x -> ~ x == 0.
Proof. intros [k E] H. rewrite E in H. unfold zq in H. change 0%Q with (inject_Z 0) in H. apply inject_Z_injective in H. Show. lia. Qed.
