From TV Require Import Common.Prelude Model.RuleLocal Model.LocalGrid Proofs.LocalTreeSpec.
From Coq Require Import QArith Qabs.
Local Open Scope Z_scope.

Fixpoint ancb (fuel : nat) (r : erule) (p q : Z) : bool :=
  match fuel with O => false | S f =>
    existsb (fun m => (m =? q) || ancb f r m q) (parents1d r p) end.

Definition qz (x : Q) : bool := Qeq_bool x 0.
Definition rng (n : nat) : list Z := map Z.of_nat (seq 0 n).

Definition bad_unit r order n := filter (fun p => negb (Qeq_bool (evalRaw r order p (getNode r p)) 1)) (rng n).
Definition bad_anc r order n :=
  flat_map (fun p => flat_map (fun q => if (q =? p) then [] else
       if qz (evalRaw r order q (getNode r p)) then [] else if ancb 64 r p q then [] else [(p,q)]) (rng n)) (rng n).
Definition bad_level r n :=
  flat_map (fun p => flat_map (fun q => if (0 <=? q) && (getLevel r q <? getLevel r p) then [] else [(p,q)]) (parents1d r p)) (rng n).
Definition bad_nonneg r n := filter (fun p => negb (0 <=? getLevel r p)) (rng n).

Definition all r order n := (bad_unit r order n, bad_anc r order n, bad_level r n, bad_nonneg r n).
Definition empty4 (x : list Z * list (Z * Z) * list (Z * Z) * list Z) : bool :=
  match x with (a,b,c,d) => match a,b,c,d with [],[],[],[] => true | _,_,_,_ => false end end.
Definition orders := [-3;-1;0;1;2;3;4;5;6;7;9]%Z.
Time Eval vm_compute in map (fun r => map (fun o => empty4 (all r o 140)) orders) [Localp0; Localp; Localpb; Semilocalp].
