(* C16 — the tasgrid command-line tool is equivalent to the library API.
   Only statements, each closed by [exact] of a lemma from Proofs/CliProofs.v (finite facts about the tables that
   gen/CliTable.v REGENERATES from the source: by [vm_compute]).  These are theorems about the MODEL (tables of the
   current source + the documented plan of every command); the equivalence "tool = library call sequence" itself is
   decided by translation validation (props/C16.py: real tool vs. the plan executed through the API). *)
From TV Require Import Common.Prelude gen.CliTable Model.Cli Proofs.CliProofs.
From Coq Require Import String.
Local Open Scope Z_scope.

(* --- the switch table ---------------------------------------------------------------------------- *)
(* no switch string is bound to two different commands — provided the computed list of clashes is empty; *)
Theorem c16_switch_table_functional :
  ambiguous_switches = [] -> forall s c1 c2, In (s, c1) switch_table -> In (s, c2) switch_table -> c1 = c2.
Proof. exact switch_table_functional_if_unambiguous. Qed.

(* ... in general every clash is listed in [ambiguous_switches] (the std::map keeps the first binding, the later
   one is dead), and for the current source the clashes are at most the documented double use of "-sc" *)
Theorem c16_switch_table_functional_partial : forall s c1 c2,
  In (s, c1) switch_table -> In (s, c2) switch_table -> c1 <> c2 -> In s ambiguous_switches.
Proof. exact switch_conflict_listed. Qed.

Theorem c16_switch_clashes_known : incl ambiguous_switches ["-sc"%string].
Proof. exact switch_clashes_known. Qed.

(* the command the tool runs is the table's (first) binding of the first argument *)
Theorem c16_parse_selects_table_command : forall s rest r,
  parse (s :: rest) = Some r -> lookup_switch s = Some (r_cmd r) /\ In (s, r_cmd r) switch_table.
Proof. exact parse_selects_table_command. Qed.

(* every command of enum TypeCommand can be reached by at least one switch *)
Theorem c16_every_command_reachable : forall c, exists s, lookup_switch s = Some c.
Proof. exact every_command_reachable. Qed.

(* the generic help text: every documented switch/shorthand pair resolves to one command, except the listed rows *)
Theorem c16_help_rows_resolve : forall row, In row help_table -> ~ In (fst row) help_deviations -> help_row_ok row = true.
Proof. exact help_rows_resolve. Qed.

Theorem c16_help_deviations_known : incl help_deviations ["-getneededpoints"%string; "-setcoefficients"%string].
Proof. exact help_deviations_known. Qed.

(* every rule name of the library (except "none") belongs to exactly one grid family of the model *)
Theorem c16_rule_strings_classified :
  forallb (fun s => String.eqb s "none" ||
                    (Nat.eqb (List.length (filter (fun b : bool => b)
                       [rule_is_global s; rule_is_localp s; rule_is_wavelet s; rule_is_fourier s])) 1))
          rule_strings = true.
Proof. exact rule_strings_classified. Qed.

(* --- checkSane ------------------------------------------------------------------------------------- *)
Theorem c16_sane_enforces_required : forall r q cs,
  In (q, cs) required -> In (r_cmd r) cs -> sane r = true -> holds q r = true.
Proof. exact sane_enforces. Qed.

(* --- plans ------------------------------------------------------------------------------------------ *)
Theorem c16_plan_total : forall r g, plan r g <> [].
Proof. exact plan_total. Qed.

Theorem c16_plan_reads_grid_first : forall r g,
  is_make (r_cmd r) = false -> r_cmd r <> command_makeexoquad -> exists tl, plan r g = ReadGrid (gridfile r) :: tl.
Proof. exact plan_reads_first. Qed.

(* the dispatch switch of executeCommand (regenerated from the source) selects, for every command, the handler whose
   library call the documented plan of that command contains; and no command is missing from the switch *)
Theorem c16_dispatch_matches_plan : forall c h,
  In (c, h) dispatch -> forall r g, r_cmd r = c -> existsb (handler_matches h) (body r g) = true.
Proof. exact dispatch_matches_plan. Qed.

Theorem c16_dispatch_covers_commands :
  forallb (fun c => is_make c || command_beq c command_makeexoquad || handled_outside_switch c ||
                    existsb (fun ch => command_beq c (fst ch)) dispatch) all_commands = true.
Proof. exact dispatch_covers_commands. Qed.

(* const commands: no mutating library call and no write; every other command ends with the write of the grid file *)
Theorem c16_const_commands_do_not_write : forall r g,
  In (r_cmd r) const_commands -> ~ In (r_cmd r) const_list_deviations ->
  forallb (fun a => negb (mutating a) && negb (is_write a)) (plan r g) = true.
Proof. exact const_commands_quiet. Qed.

Theorem c16_documented_queries_do_not_write : forall r g,
  doc_readonly (r_cmd r) = true -> forallb (fun a => negb (mutating a) && negb (is_write a)) (plan r g) = true.
Proof. exact readonly_plan_quiet. Qed.

Theorem c16_other_commands_end_with_write : forall r g d,
  doc_readonly (r_cmd r) = false -> r_cmd r <> command_makeexoquad -> opt_nonempty setGridFilename r = true ->
  last (plan r g) d = WriteGrid (gridfile r) (asciif r).
Proof. exact mutating_plan_writes_last. Qed.

(* the source's const list is the documented set of queries, up to the listed deviations *)
Theorem c16_const_list_matches_doc :
  const_list_deviations = [] -> forall c, In c const_commands <-> doc_readonly c = true.
Proof. exact const_list_matches_doc_if_no_deviation. Qed.

Theorem c16_const_list_deviations_known : incl const_list_deviations [command_using_construct].
Proof. exact const_list_deviations_known. Qed.

(* --- the binary matrix file ------------------------------------------------------------------------- *)
Theorem c16_matrix_bin_roundtrip : forall m, wf_matrix m -> readMatrix (writeMatrix m) = Some m.
Proof. exact matrix_bin_roundtrip. Qed.

Theorem c16_matrix_bin_length : forall m, Forall (fun b => List.length b = 8%nat) (m_data m) ->
  List.length (writeMatrix m) = (11 + 8 * List.length (m_data m))%nat.
Proof. exact writeMatrix_length. Qed.

(* --- non-vacuity ------------------------------------------------------------------------------------- *)
Local Open Scope string_scope.
Definition ex_args := ["-mg"; "-dim"; "2"; "-out"; "1"; "-depth"; "3"; "-type"; "level"; "-1d"; "clenshaw-curtis";
                       "-gf"; "g.tsg"; "-of"; "p.mat"; "-ascii"].
Definition ex_g := mkGinfo KGlobal 2 1 true false.
Example c16_example_parse_plan :
  option_map (fun r => (sane r, plan r ex_g)) (parse ex_args) =
  Some (true, [MakeGlobal 2 1 3 "level" "clenshaw-curtis" INone "0" "0" "" INone;
               OutPoints (mkSink "p.mat" true false); WriteGrid "g.tsg" true]).
Proof. vm_compute. reflexivity. Qed.

Example c16_example_query_plan :
  option_map (fun r => (sane r, sane_post r ex_g, plan r ex_g)) (parse ["-e"; "-gf"; "g.tsg"; "-xf"; "x"; "-of"; "y"]) =
  Some (true, true, [ReadGrid "g.tsg"; EvaluateBatch "x" (mkSink "y" false false)]).
Proof. vm_compute. reflexivity. Qed.

Example c16_example_rejected : option_map sane (parse ["-e"; "-gf"; "g.tsg"; "-of"; "y"]) = Some false.
Proof. vm_compute. reflexivity. Qed.

Example c16_example_matrix :
  let m := mkMatrix 1 2 [[0;0;0;0;0;0;240;63]; [0;0;0;0;0;0;0;64]]%Z in
  writeMatrix m = [84;83;71; 1;0;0;0; 2;0;0;0; 0;0;0;0;0;0;240;63; 0;0;0;0;0;0;0;64]%Z /\ readMatrix (writeMatrix m) = Some m.
Proof. vm_compute. split; reflexivity. Qed.

(* the tables are not empty: 36 commands *)
Example c16_table_sizes : (List.length all_commands >= 30 /\ List.length switch_table >= 60 /\ List.length option_table >= 50)%nat.
Proof. vm_compute. repeat split; repeat constructor. Qed.

Print Assumptions c16_switch_table_functional.
Print Assumptions c16_switch_table_functional_partial.
Print Assumptions c16_switch_clashes_known.
Print Assumptions c16_parse_selects_table_command.
Print Assumptions c16_every_command_reachable.
Print Assumptions c16_help_rows_resolve.
Print Assumptions c16_help_deviations_known.
Print Assumptions c16_rule_strings_classified.
Print Assumptions c16_sane_enforces_required.
Print Assumptions c16_plan_total.
Print Assumptions c16_plan_reads_grid_first.
Print Assumptions c16_dispatch_matches_plan.
Print Assumptions c16_dispatch_covers_commands.
Print Assumptions c16_const_commands_do_not_write.
Print Assumptions c16_documented_queries_do_not_write.
Print Assumptions c16_other_commands_end_with_write.
Print Assumptions c16_const_list_matches_doc.
Print Assumptions c16_const_list_deviations_known.
Print Assumptions c16_matrix_bin_roundtrip.
Print Assumptions c16_matrix_bin_length.
