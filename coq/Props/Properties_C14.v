(* C14 — misuse is reported by the documented exceptions and never corrupts a grid.
   Statements only; proofs are in Proofs/ApiGuardsProofs.v.  The tables gen/ApiGuards.v and gen/DocThrows.v are
   regenerated from /repo's current TasmanianSparseGrid.{hpp,cpp} before this file is compiled, so every theorem
   that mentions `tbl` is re-proved against the current source.

   What the theorems say (and what they do not): they are about the *structure* of the methods of class
   TasmanianSparseGrid (which data members can have been modified at each point where an exception can leave a
   method), under assumptions A1/A2 of Model/ApiGuards.v about the grid-family code behind `base`.  That the real
   calls behave accordingly (exception type, state digest, memory safety afterwards) is decided at run time by
   props/C14.py for every documented clause. *)
From Coq Require Import String List Bool.
From TV Require Import Model.ApiGuards Proofs.ApiGuardsProofs.
From TV Require gen.ApiGuards gen.DocThrows.
Import ListNotations.
Local Open Scope string_scope.

(* 1. Every public or protected method of the regenerated table: at every point where an exception can leave the method
      (explicit throw, family call, constructor, external call; calls of other methods of the class inlined), no data
      member of the grid has been modified — except for the named lists, where exactly the stated members can have been:
        make*            all guards (every explicit throw statement) while nothing is modified, then clear(), then
                         construction that may still throw: cleared, at most `llimits` assigned
        read*            header guards, then clear(), body into temporaries, commit last: cleared, nothing assigned
        copy             cleared, at most `base` assigned
        limits first     only `llimits`
        beginConstruction  the refinement is cleared and the flag set before the family call. *)
Theorem c14_guards_before_mutation : forall m, In m tbl -> class_check m = true.
Proof. exact class_check_forall. Qed.
Print Assumptions c14_guards_before_mutation.

(* 2. The named lists are exact: a method is listed iff some throw point of it is not "object unchanged". *)
Theorem c14_exception_lists_exact :
  subset listed (map fst (exceptions_of tbl)) = true /\ subset (map fst (exceptions_of tbl)) listed = true.
Proof. exact listed_exact. Qed.
Print Assumptions c14_exception_lists_exact.

(* 3. Every throw statement of the class throws std::invalid_argument or std::runtime_error, and every tagged
      \throws clause of the header documents one of the two. *)
Theorem c14_exception_types : forall m, In m tbl -> exception_types_ok m = true.
Proof. apply forallb_forall. exact exception_types_all. Qed.
Print Assumptions c14_exception_types.

Theorem c14_documented_types :
  forall c, In c TV.gen.DocThrows.doc_throws -> c_kind c = Tagged -> exc_ok (c_exc c) = true.
Proof.
  intros c Hc Hk. pose proof documented_types_ok as H. rewrite forallb_forall in H.
  specialize (H c Hc). now rewrite Hk in H.
Qed.
Print Assumptions c14_documented_types.

(* 4. The data members of the class are exactly the grid state (what clear() resets) plus the acceleration members. *)
Theorem c14_fields_partition :
  let names := map (fun x => fst (fst x)) TV.gen.ApiGuards.api_fields in
  subset names (state_fields ++ non_state_fields)%list = true /\ subset (state_fields ++ non_state_fields)%list names = true.
Proof. exact fields_partition. Qed.
Print Assumptions c14_fields_partition.

(* 5. Soundness of the analysis behind 1. for ANY value type, any behaviour of the conditions, of the values written
      and of which calls throw (oracle stream), any loop bounds: whatever the execution of a statement tree does, the
      resulting object is described by one of the abstract states the analysis computed for that kind of exit. *)
Theorem c14_analysis_sound : forall (V : Type) (empty_store : store V) fuel s S0 st0 st os,
  covers V empty_store S0 st0 st -> unk (run s S0) = false ->
  sound_for V empty_store (run s S0) st0 (exec V empty_store fuel s st os).
Proof. intros. now apply run_sound. Qed.
Print Assumptions c14_analysis_sound.

(* 6. Consequence for the table: an exception that leaves a method outside the named lists leaves EVERY data member as
      it was at entry (in the semantics of Model/ApiGuards.v, i.e. under A1/A2). *)
Theorem c14_unlisted_methods_preserve_state : forall (V : Type) (empty_store : store V) m,
  In m tbl -> reachable_api m = true -> mem (m_key m) listed = false ->
  forall fuel st os st',
    exec V empty_store fuel (Scope (inline tbl inline_depth (m_key m) (m_const m))) st os = Threw V st' ->
    forall f, st' f = st f.
Proof. exact method_body_semantics_unchanged. Qed.
Print Assumptions c14_unlisted_methods_preserve_state.

(* 7. ... and for the listed ones: a failed make* leaves the object as it was or cleared (apart from `llimits`);
      a failed read leaves it as it was or cleared; a limits-first method changes at most `llimits`. *)
Theorem c14_listed_methods : forall (V : Type) (empty_store : store V) m,
  In m tbl -> reachable_api m = true ->
  forall fuel st os st',
    exec V empty_store fuel (Scope (inline tbl inline_depth (m_key m) (m_const m))) st os = Threw V st' ->
    let k := m_key m in
    (mem k make_methods = true -> (forall f, st' f = st f) \/ (forall f, f <> "llimits" -> st' f = empty_store f)) /\
    (mem k read_methods = true -> (forall f, st' f = st f) \/ (forall f, st' f = empty_store f)) /\
    (mem k make_methods = false -> mem k read_methods = false -> mem k copy_methods = false ->
     mem k limits_first_methods = true -> forall f, f <> "llimits" -> st' f = st f).
Proof. exact listed_semantics. Qed.
Print Assumptions c14_listed_methods.

(* 8. The abstract reason the structural fact matters: guards, then body.  If any guard fires the state is unchanged. *)
Theorem c14_guarded_call_preserves_state : forall (St Arg : Type) guards body (s : St) (a : Arg),
  (forall g, In g guards -> g s a = true -> guarded_call St Arg guards body s a = (s, Throw)) /\
  (snd (guarded_call St Arg guards body s a) = Throw -> fst (guarded_call St Arg guards body s a) = s) /\
  ((forall g, In g guards -> g s a = false) -> guarded_call St Arg guards body s a = (body s a, Ok)).
Proof.
  intros. split; [|split].
  - intros g Hin Hg. now apply guarded_call_fires with g.
  - apply guarded_call_throw_unchanged.
  - apply guarded_call_ok.
Qed.
Print Assumptions c14_guarded_call_preserves_state.

(* 9. The read pattern with a failure injected at ANY token position, for any token type, parser and commit function:
      a rejected header leaves the object untouched; a failure at body position n leaves the cleared object; the
      object is never anything but {original, cleared} before the single assignment after the last token. *)
Theorem c14_read_failure_any_position : forall (Obj Tmp Tok : Type) (empty_obj : Obj) (tmp0 : Tmp) header_ok parse commit
    (obj : Obj) (header body : list Tok) (n : nat),
  forallb header_ok header = true -> first_failure Tmp Tok parse tmp0 body = Some n ->
  fst (read_model Obj Tmp Tok empty_obj tmp0 header_ok parse commit obj header body) = (empty_obj, RThrow) /\
  Forall (fun x => x = obj \/ x = empty_obj) (snd (read_model Obj Tmp Tok empty_obj tmp0 header_ok parse commit obj header body)).
Proof. intros. eapply read_body_failure; eassumption. Qed.
Print Assumptions c14_read_failure_any_position.

Theorem c14_read_header_failure : forall (Obj Tmp Tok : Type) (empty_obj : Obj) (tmp0 : Tmp) header_ok parse commit
    (obj : Obj) (header body : list Tok),
  forallb header_ok header = false ->
  fst (read_model Obj Tmp Tok empty_obj tmp0 header_ok parse commit obj header body) = (obj, RThrow) /\
  Forall (fun x => x = obj) (snd (read_model Obj Tmp Tok empty_obj tmp0 header_ok parse commit obj header body)).
Proof. intros. now apply read_header_failure. Qed.
Print Assumptions c14_read_header_failure.

Theorem c14_read_commit : forall (Obj Tmp Tok : Type) (empty_obj : Obj) (tmp0 : Tmp) header_ok parse commit
    (obj : Obj) (header body : list Tok),
  let '(o, s, tr) := read_model Obj Tmp Tok empty_obj tmp0 header_ok parse commit obj header body in
  (s = RThrow /\ (o = obj \/ o = empty_obj) /\ Forall (fun x => x = obj \/ x = empty_obj) tr) \/
  (s = ROk /\ exists t, parse_all Tmp Tok parse tmp0 body = Some t /\ o = commit t).
Proof. intros. apply read_never_partial. Qed.
Print Assumptions c14_read_commit.

(* 10. Inventory of the throw statements of the other SparseGrids sources (supports assumption A1: none of them is in
       a const query of a grid family). *)
Theorem c14_family_throw_inventory :
  map (fun x => fst (fst x)) TV.gen.ApiGuards.family_throw_sites =
  ["tsgAcceleratedDataStructures.hpp"; "tsgAcceleratedDataStructures.hpp"; "tsgAcceleratedDataStructures.hpp";
   "tsgAcceleratedDataStructures.hpp"; "tsgCoreOneDimensional.cpp"; "tsgCoreOneDimensional.cpp"; "tsgCoreOneDimensional.cpp";
   "tsgCoreOneDimensional.hpp"; "tsgGridLocalPolynomial.cpp"; "tsgGridWavelet.cpp";
   "tsgIOHelpers.hpp"; "tsgIOHelpers.hpp"; "tsgIOHelpers.hpp";   (* binary readers: truncated stream (read paths only, never a const query) *)
   "tsgLinearSolvers.cpp";
   "tsgLinearSolvers.cpp"; "tsgLinearSolvers.cpp"; "tsgLinearSolvers.cpp"; "tsgOneDimensionalWrapper.hpp";
   "tsgOneDimensionalWrapper.hpp"].
Proof. exact family_throw_inventory. Qed.
Print Assumptions c14_family_throw_inventory.

(* ---------------------------------------------------------------- non-vacuity *)
(* the table is not empty, has explicit throws, and the analysis distinguishes the patterns *)
Example c14_table_size : Nat.leb 150 (List.length tbl) = true /\
  Nat.leb 100 (fold_right (fun m acc => match m_body m with Some b => count_throws b + acc | None => acc end) 0 tbl) = true.
Proof. split; vm_compute; reflexivity. Qed.

Example c14_tagged_clauses : Nat.leb 40 (List.length (filter (fun c => match c_kind c with Tagged => true | Prose => false end)
                                            TV.gen.DocThrows.doc_throws)) = true.
Proof. vm_compute. reflexivity. Qed.

(* a method that assigns a member before a guard is rejected by the check (the mutant "setDomainTransform assigns
   before the size check") *)
Example c14_check_rejects_late_guard :
  let bad := block [Do (EMut "domain_transform_a"); If "a.size() != dims" (Do (EThrow InvalidArgument)) Skip] in
  r_only [] (run (Scope bad) start) = false /\
  r_only [] (run (Scope (block [If "a.size() != dims" (Do (EThrow InvalidArgument)) Skip; Do (EMut "domain_transform_a")])) start) = true.
Proof. split; vm_compute; reflexivity. Qed.

(* clear() before the guards (the mutant "makeGlobalGrid clears before validating") is not the make pattern *)
Example c14_check_rejects_early_clear :
  r_guards_first (run (Scope (block [Do EClear; If "dimensions < 1" (Do (EThrow InvalidArgument)) Skip;
                                     Do (EMut "llimits"); Do (ECtor "make_unique<GridGlobal>"); Do (EMut "base")])) start) = false /\
  r_guards_first (run (Scope (block [If "dimensions < 1" (Do (EThrow InvalidArgument)) Skip; Do EClear;
                                     Do (EMut "llimits"); Do (ECtor "make_unique<GridGlobal>"); Do (EMut "base")])) start) = true.
Proof. split; vm_compute; reflexivity. Qed.

(* the semantics can throw after a mutation: the soundness theorem is not vacuous *)
Example c14_semantics_nonvacuous :
  exec nat (fun _ => 0) 3 (block [Do (EMut "llimits"); Do (EThrow RuntimeError)]) (fun _ => 7)
       [{| o_bool := true; o_val := 5 |}] =
  Threw nat (upd nat (fun _ => 7) "llimits" 5).
Proof. reflexivity. Qed.

(* the reader model: failure at position 1 of 3 body tokens *)
Example c14_reader_nonvacuous :
  fst (read_model nat (list nat) nat 0 [] (fun k => Nat.eqb k 9) (fun t k => if Nat.eqb k 0 then None else Some (k :: t))
                  (fun t => List.length t) 42 [9; 9] [1; 0; 2]) = (0, RThrow) /\
  fst (read_model nat (list nat) nat 0 [] (fun k => Nat.eqb k 9) (fun t k => if Nat.eqb k 0 then None else Some (k :: t))
                  (fun t => List.length t) 42 [9; 9] [1; 5; 2]) = (3, ROk) /\
  fst (read_model nat (list nat) nat 0 [] (fun k => Nat.eqb k 9) (fun t k => if Nat.eqb k 0 then None else Some (k :: t))
                  (fun t => List.length t) 42 [9; 8] [1; 5; 2]) = (42, RThrow).
Proof. repeat split; vm_compute; reflexivity. Qed.
