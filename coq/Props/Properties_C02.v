(* C02 — quadrature is exact on the polynomial space the grid declares.  Statements only. *)
From TV Require Import Common.Prelude Proofs.CombinationProofs Proofs.LagrangeExact Proofs.InterpQuadExact Proofs.SparseQuadExact.
From Coq Require Import QArith Qcanon.
Local Close Scope Qc_scope.
Local Close Scope Q_scope.
From Coq Require Import Ring ZArith.

Section AnyRing.
  Variable R : Type.
  Variables (rO rI : R) (radd rmul rsub : R -> R -> R) (ropp : R -> R).
  Hypothesis Rth : ring_theory rO rI radd rmul rsub ropp eq.
  (* one-dimensional quadrature rules: u j l k = rule of dimension j, level l, applied to the monomial x^k;
     I j k = the exact moment; m l = the degree up to which level l is exact (getQExact), monotone in l *)
  Variable u : nat -> nat -> nat -> R.
  Variable I : nat -> nat -> R.
  Variable m : nat -> nat.
  Hypothesis m_mono : forall l, m l <= m (S l).
  Hypothesis exact1d : forall j l k, k <= m l -> u j l k = I j k.
  (* a lower set of level multi-indexes in d dimensions (the tensors of the grid) *)
  Variable d : nat.
  Variable Theta : list (list nat).
  Hypothesis Theta_nodup : NoDup Theta.
  Hypothesis Theta_len : forall t, In t Theta -> length t = d.
  Hypothesis Theta_lower : lower Theta.

  (* the sparse quadrature  sum_{t in Theta} tensor_j (U_{t_j} - U_{t_j - 1})  integrates exactly every monomial x^k of the
     declared space  { k : exists s in Theta, forall j, k_j <= m (s_j) } : the result is the product of the exact moments *)
  Theorem c02_combination_exact : forall k s, In s Theta -> length k = d -> Forall2 (fun kj sj => kj <= m sj) k s ->
    sumf R rO radd Theta (fun t => dprod R rI rmul rsub u 0 t k) = iprod R rI rmul I 0 k.
  Proof. exact (comb_exact R rO rI radd rmul rsub ropp Rth u I m m_mono exact1d d Theta Theta_nodup Theta_len Theta_lower). Qed.

  (* in particular the weights sum to the measure of the domain (k = 0, any non-empty lower set) *)
  Theorem c02_weights_sum_to_measure : forall s, In s Theta ->
    sumf R rO radd Theta (fun t => dprod R rI rmul rsub u 0 t (repeat 0 d)) = iprod R rI rmul I 0 (repeat 0 d).
  Proof.
    intros s Hs. apply (c02_combination_exact (repeat 0 d) s Hs); [apply repeat_length|].
    rewrite <- (Theta_len s Hs). clear. induction s as [|a s IH]; cbn; constructor; [lia|exact IH].
  Qed.
End AnyRing.

(* non-vacuity: integers, m l = l, u j l k = 1 when k <= l and 7 otherwise, exact value 1; Theta = a 2-d lower set *)
Definition ex_u (j l k : nat) : Z := if Nat.leb k l then 1%Z else 7%Z.
Definition ex_Theta : list (list nat) := [[0;0];[0;1];[0;2];[1;0];[1;1];[2;0]].
Example c02_example :
  lower ex_Theta /\ NoDup ex_Theta /\
  sumf Z 0%Z Z.add ex_Theta (fun t => dprod Z 1%Z Z.mul Z.sub ex_u 0 t [1;1]) = 1%Z /\
  sumf Z 0%Z Z.add ex_Theta (fun t => dprod Z 1%Z Z.mul Z.sub ex_u 0 t [2;0]) = 1%Z /\
  sumf Z 0%Z Z.add ex_Theta (fun t => dprod Z 1%Z Z.mul Z.sub ex_u 0 t [2;1]) <> 1%Z.   (* [2;1] is outside the declared space *)
Proof.
  split.
  { intros t s Ht Hl Hle. unfold ex_Theta in *. cbn in Ht.
    destruct Ht as [<-|[<-|[<-|[<-|[<-|[<-|[]]]]]]]; destruct s as [|a [|b [|c s]]]; try discriminate;
      cbn in Hle; apply andb_true_iff in Hle; destruct Hle as [H1 H2]; apply andb_true_iff in H2; destruct H2 as [H2 _];
      apply Nat.leb_le in H1; apply Nat.leb_le in H2;
      repeat (destruct a as [|a]; try lia); repeat (destruct b as [|b]; try lia); cbn; tauto. }
  split; [repeat constructor; cbn; intuition discriminate|].
  vm_compute. repeat split; try reflexivity. discriminate.
Qed.

(* UNCONDITIONAL for INTERPOLATORY rules (Clenshaw-Curtis, Fejer, Leja and R-Leja sequences, Chebyshev, ...: weights = moments of
   the Lagrange basis polynomials of the nodes) and ANY moment functional mu (any weight function): the one-dimensional rule with
   n pairwise distinct nodes integrates every polynomial of degree < n exactly (coefficient-level uniqueness of polynomials), hence
   the sparse rule over any lower set integrates every monomial of the declared space exactly.  (Gauss rules, exact to degree
   2n-1, are NOT covered by this theorem: for them the one-dimensional exactness stays the hypothesis of c02_combination_exact.) *)
Theorem c02_interpolatory_rule_exact_1d : forall (mu : nat -> Qc) (nodes : list Qc), NoDup nodes -> forall k, (k < length nodes)%nat ->
  qsum (map (fun i => Qcmult (nth i (weights mu nodes) (Q2Qc 0)) (Qcpower (nth i nodes (Q2Qc 0)) k)) (seq 0 (length nodes))) = mu k.
Proof. exact interp_quad_exact. Qed.

Theorem c02_sparse_interpolatory_quadrature_exact_unbounded :
  forall (nodes : nat -> nat -> list Qc) (m : nat -> nat),
    (forall j l, NoDup (nodes j l)) -> (forall j l, length (nodes j l) = S (m l)) -> (forall l, m l <= m (S l)) ->
  forall (mu : nat -> nat -> Qc) d Theta, NoDup Theta -> (forall t, In t Theta -> length t = d) -> lower Theta ->
  forall k s, In s Theta -> length k = d -> Forall2 (fun kj sj => kj <= m sj) k s ->
    sumf Qc (Q2Qc 0) Qcplus Theta (fun t => dprod Qc (Q2Qc 1) Qcmult Qcminus (quad_u nodes mu) 0 t k)
    = iprod Qc (Q2Qc 1) Qcmult (quad_I mu) 0 k.
Proof. exact sparse_interp_quadrature_exact. Qed.

Print Assumptions c02_combination_exact.
Print Assumptions c02_weights_sum_to_measure.
Print Assumptions c02_interpolatory_rule_exact_1d.
Print Assumptions c02_sparse_interpolatory_quadrature_exact_unbounded.
