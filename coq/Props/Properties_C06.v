(* C06 — write() then read() restores the complete observable state of a grid.
   Statements only; proofs are in Proofs/IOFormatProofs.v, the model in Model/IOFormat.v.

   What is proved here (for ALL sizes, dimensions, numbers of outputs, point counts): the version-5 BINARY grammar
   written by writeBinary() and the five per-family writers (with every optional section: loaded points, needed points,
   values, surpluses/coefficients, parents, the roots/pntr/indx tree, updated tensors, custom tabulated rule, domain
   transform, conformal map, level limits, construction data of both kinds) is inverted by the grammar of readBinary()
   and the GridReaderVersion5 readers, on every file that satisfies the size relations [wf] the readers rely on.
   That the library writes this grammar and reads it back is the correspondence check of props/C06.py; the ASCII
   format is NOT modelled (it is covered by the direct checks of props/C06.py only). *)
From TV Require Import Common.Prelude Model.IOFormat Proofs.IOFormatProofs.
Local Open Scope Z_scope.

(* primitives and length-prefixed / flag-prefixed building blocks *)
Theorem c06_dec_enc_prim :
  (forall z r, i32 z -> p_i32 (enc_i32 z ++ r) = Some (z, r)) /\
  (forall c r, p_byte (enc_char c ++ r) = Some (c, r)) /\
  (forall x r, p_f64 (enc_f64 x ++ r) = Some (x, r)) /\
  (forall b r, p_flag (enc_flag b ++ r) = Some (b, r)) /\
  (forall n l r, lenZ l n -> i32s l -> p_i32s n (enc_i32s l ++ r) = Some (l, r)) /\
  (forall n l r, lenZ l n -> p_f64s n (enc_f64s l ++ r) = Some (l, r)) /\
  (forall m r, wf_mset m -> p_mset (enc_mset m ++ r) = Some (m, r)) /\
  (forall s r, wf_storage s -> p_storage (enc_storage s ++ r) = Some (s, r)) /\
  (forall d o l r, i32 (zlen l) -> Forall (wf_node d o) l -> p_nodes d o (enc_nodes l ++ r) = Some (l, r)) /\
  (forall c r, wf_custom c -> p_custom (enc_custom c ++ r) = Some (c, r)).
Proof.
  exact (conj rt_i32 (conj rt_byte (conj rt_f64 (conj rt_flag (conj rt_i32s (conj rt_f64s
        (conj rt_mset (conj rt_storage (conj rt_nodes rt_custom))))))))).
Qed.

(* the five family bodies *)
Theorem c06_families :
  (forall g r, wf_local g -> p_local (enc_local g ++ r) = Some (g, r)) /\
  (forall g r, wf_seq g -> p_seq (enc_seq g ++ r) = Some (g, r)) /\
  (forall g r, wf_global g -> p_global (enc_global g ++ r) = Some (g, r)) /\
  (forall g r, wf_wave g -> p_wave (enc_wave g ++ r) = Some (g, r)) /\
  (forall g r, wf_fourier g -> p_fourier (enc_fourier g ++ r) = Some (g, r)).
Proof. exact (conj rt_local (conj rt_seq (conj rt_global (conj rt_wave rt_fourier)))). Qed.

(* THE round trip for the whole grammar: whatever follows the file in the stream is left untouched *)
Theorem c06_decode_encode : forall g rest, wf g -> decode (encode g ++ rest) = Some (g, rest).
Proof. exact decode_encode. Qed.

(* two different well-formed files never have the same bytes *)
Theorem c06_encode_inj : forall g1 g2, wf g1 -> wf g2 -> encode g1 = encode g2 -> g1 = g2.
Proof. exact encode_inj. Qed.

(* ... not even as prefixes of longer streams (several grids in one stream, as the MPI/checkpoint code does) *)
Theorem c06_decode_unique : forall g1 g2 r1 r2, wf g1 -> wf g2 -> encode g1 ++ r1 = encode g2 ++ r2 -> g1 = g2 /\ r1 = r2.
Proof. exact decode_unique. Qed.

(* a strict prefix of a file (a torn write) is never accepted by the reader grammar *)
Theorem c06_prefix_rejected : forall g pre t, wf g -> encode g = pre ++ t -> t <> [] -> decode pre = None.
Proof. exact prefix_rejected. Qed.

(* ---------------------------------------------------------------------------------------------------------
   non-vacuity: one concrete file per family with EVERY optional section present; each satisfies wf and
   round-trips by computation *)
Definition d0 := F64 0 0 0 0 0 0 0 0.            (* 0.0 *)
Definition d1 := F64 0 0 0 0 0 0 240 63.         (* 1.0 *)
Definition dm := F64 0 0 0 0 0 0 224 191.        (* -0.5 *)

Ltac wf_by_computation :=
  cbv [wf wf_body wf_local wf_seq wf_global wf_wave wf_fourier wf_sec wf_cdata wf_values wf_storage wf_omset wf_mset wf_of64s wf_oi32s
       wf_tree wf_custom wf_updated wf_oupdated wf_node wf_tensor i32s lenZ];
  repeat first [ split | exact I | reflexivity | discriminate | (unfold i32; cbn; lia) | apply Forall_nil | apply Forall_cons
               | apply Forall2_nil | apply Forall2_cons | progress cbn ].

Definition ex_local : gfile :=
  GFile (BLocal (LocalG 1 1 1 1 37
           (Some (MSet 1 3 [0; 1; 2])) (Some (MSet 1 2 [3; 4]))
           (Some [d1; dm; d0]) (Some [-1; 0; 0]) [0] [0; 2; 2; 2] [1; 2]
           (Some (Storage 1 3 (Some [d1; d1; dm])))))
        (Some ([d0], [d1])) (Some [4]) (Some [3])
        (Some (CSimple (MSet 1 1 [5]) [([3], [d1]); ([6], [dm])])).

Definition ex_sequence : gfile :=
  GFile (BSequence (SeqG 2 2 8
           (Some (MSet 2 2 [0; 0; 0; 1])) (Some (MSet 2 1 [1; 0]))
           (Some [d1; dm; d0; d1])
           (Some (Storage 2 2 (Some [d1; d1; dm; d0])))))
        (Some ([d0; dm], [d1; d1])) (Some [4; 0]) (Some [3; -1])
        (Some (CSimple (MSet 2 1 [1; 1]) [([1; 0], [d1; d0])])).

Definition ex_custom : custom := Custom [99; 117; 115] [1; 2] [1; 3] [([d1], [d0]); ([d1; d1], [dm; d1])].

Definition ex_global : gfile :=
  GFile (BGlobal (GlobalG 2 1 d0 dm 36 (Some ex_custom)
           (MSet 2 2 [0; 0; 0; 1]) (MSet 2 1 [0; 1]) [1]
           (Some (MSet 2 1 [0; 0])) (Some (MSet 2 1 [0; 1])) [0; 1]
           (Some (Storage 1 1 (Some [d1])))
           (Some (Updated (MSet 2 3 [0; 0; 0; 1; 1; 0]) (MSet 2 2 [0; 1; 1; 0]) [1; 1]))))
        (Some ([d0; d0], [d1; d1])) (Some [1; 2]) (Some [2; 2])
        (Some (CGlobal [(dm, [0; 2]); (d1, [1; 1])] [([0; 2], [d1])])).

Definition ex_wavelet : gfile :=
  GFile (BWavelet (WaveG 1 1 3
           (Some (MSet 1 2 [0; 1])) (Some (MSet 1 1 [2]))
           (Some [d1; dm])
           (Some (Storage 1 2 (Some [d1; d0])))))
        (Some ([dm], [d1])) (Some [2]) (Some [5])
        (Some (CSimple (MSet 0 0 []) [([2], [d1])])).

Definition ex_fourier : gfile :=
  GFile (BFourier (FourierG 1 1
           (MSet 1 2 [0; 1]) (MSet 1 1 [1]) [1]
           (Some (MSet 1 3 [0; 1; 2])) (Some (MSet 1 2 [3; 4])) [1]
           (Some (Storage 1 3 (Some [d1; d0; dm]), Some [d1; d0; d0; d0; dm; d1]))
           (Some (Updated (MSet 1 3 [0; 1; 2]) (MSet 1 1 [2]) [1]))))
        (Some ([d0], [d1])) (Some [1]) (Some [4])
        (Some (CGlobal [(d1, [2])] [([3], [dm]); ([4], [d0])])).

Definition ex_empty : gfile := GFile BEmpty None None None None.

Example c06_example_local : wf ex_local /\ decode (encode ex_local ++ [1; 2]) = Some (ex_local, [1; 2]).
Proof. split; [wf_by_computation|vm_compute; reflexivity]. Qed.
Example c06_example_sequence : wf ex_sequence /\ decode (encode ex_sequence ++ [1; 2]) = Some (ex_sequence, [1; 2]).
Proof. split; [wf_by_computation|vm_compute; reflexivity]. Qed.
Example c06_example_global : wf ex_global /\ decode (encode ex_global ++ [1; 2]) = Some (ex_global, [1; 2]).
Proof. split; [wf_by_computation|vm_compute; reflexivity]. Qed.
Example c06_example_wavelet : wf ex_wavelet /\ decode (encode ex_wavelet ++ [1; 2]) = Some (ex_wavelet, [1; 2]).
Proof. split; [wf_by_computation|vm_compute; reflexivity]. Qed.
Example c06_example_fourier : wf ex_fourier /\ decode (encode ex_fourier ++ [1; 2]) = Some (ex_fourier, [1; 2]).
Proof. split; [wf_by_computation|vm_compute; reflexivity]. Qed.
Example c06_example_empty : wf ex_empty /\ encode ex_empty = [84; 83; 71; 53; 101; 110; 110; 110; 115; 101].
Proof. split; [wf_by_computation|vm_compute; reflexivity]. Qed.
(* wf is not vacuous the other way either: a file whose surplus block is one entry short is not well formed and
   the reader grammar does not return it *)
Example c06_example_short_block :
  let bad := GFile (BWavelet (WaveG 1 1 1 (Some (MSet 1 2 [0; 1])) None (Some [d1]) (Some (Storage 1 2 None)))) None None None None in
  ~ wf bad /\ decode (encode bad) <> Some (bad, []).
Proof.
  split; [|vm_compute; discriminate].
  cbv [wf wf_body wf_wave wf_of64s lenZ]. cbn. intros H. decompose [and] H. discriminate.
Qed.

Print Assumptions c06_dec_enc_prim.
Print Assumptions c06_families.
Print Assumptions c06_decode_encode.
Print Assumptions c06_encode_inj.
Print Assumptions c06_decode_unique.
Print Assumptions c06_prefix_rejected.
