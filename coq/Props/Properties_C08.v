(* C08 — level limits bound every point a grid ever contains or proposes.  Statements only. *)
From TV Require Import Common.Prelude Model.IndexSets Model.RuleLocal Model.Selection Model.LowerSets.
From TV Require Import Proofs.IndexSetsProofs Proofs.SelectionProofs Proofs.LowerSetsProofs Proofs.RuleLocalProofs.
Local Open Scope Z_scope.

(* the breadth-first generation used by every tensor selection only produces indexes that satisfy its criterion *)
Theorem c08_generated_indexes_satisfy_criterion : forall fuel d (inside : idx -> bool) t,
  In t (grow fuel d inside) -> (inside t = true \/ t = zero_index d) /\ length t = d.
Proof. exact grow_inside. Qed.

(* level-type tensor selection (any weights, any depth, any dimension): no selected index exceeds a non-negative limit *)
Theorem c08_select_within_limits : forall d w off limits t,
  forallb (fun l => (l =? -1) || (0 <=? l)) limits = true ->
  In t (select_level d w off limits) -> within_limits limits t = true.
Proof. exact select_level_within_limits. Qed.

Theorem c08_within_limits_pointwise : forall limits t k, within_limits limits t = true ->
  (k < length limits)%nat -> (k < length t)%nat -> nth k limits (-1) = -1 \/ nth k t 0 <= nth k limits (-1).
Proof. exact within_limits_nth. Qed.

(* a limit of -1 leaves the dimension unrestricted *)
Theorem c08_minus_one_unrestricted : forall t, within_limits (map (fun _ => -1) t) t = true.
Proof. exact minus_one_unrestricted. Qed.

(* Local Polynomial surplus refinement (classic criterion): every proposed point is a child, in one direction, of a loaded
   point and its one-dimensional level in that direction does not exceed the limit (or the limit is -1) *)
Theorem c08_children_within_limits : forall d r limits pts (flag : idx -> bool) p, wf d pts -> limits <> [] ->
  In p (classic_candidates r limits pts flag) ->
  exists q dir, In q pts /\ (dir < length q)%nat /\ (forall m, m <> dir -> nth m p 0 = nth m q 0) /\
                (nth dir limits (-1) = -1 \/ getLevel r (nth dir p 0) <= nth dir limits (-1)).
Proof. exact classic_within_limits. Qed.

(* refinement descends exactly one level per step in the refined direction (all binary local rules, every point):
   so a point that respects the limits can only produce children at most one level above, which the limit test filters *)
Theorem c08_child_is_one_level_down : forall r p k, binary_rule r -> 0 <= p -> (k = 0 \/ k = 1) ->
  getKid r p k <> -1 -> getLevel r (getKid r p k) = getLevel r p + 1.
Proof. exact kid_level. Qed.

(* the growth loop of anisotropic refinement returns as soon as all indexes allowed by the limits are present:
   if at some depth K the box is full, the loop started at any depth k <= K terminates within K - k + 1 rounds *)
Theorem c08_saturated_terminates : forall (select : nat -> list idx) pts limits min_growth K,
  limits_box_full limits (merge pts (needed_at select pts K)) = true ->
  forall k, (k <= K)%nat -> exists r, growth_loop select pts limits min_growth (S (K - k)) k = Some r.
Proof. exact growth_loop_terminates. Qed.

Theorem c08_growth_loop_result : forall (select : nat -> list idx) pts limits min_growth fuel k r,
  growth_loop select pts limits min_growth fuel k = Some r ->
  snd r = needed_at select pts (fst r) /\
  ((min_growth <= length (snd r))%nat \/ limits_box_full limits (merge pts (snd r)) = true).
Proof. exact growth_loop_result. Qed.

(* non-vacuity: a saturated 2-d sequence-like grid with limits {1,1}: the loop returns zero needed points *)
Example c08_example_saturated :
  let sel := fun k => select_level 2 [1;1] (Z.of_nat k) [1;1] in
  growth_loop sel [[0;0];[0;1];[1;0];[1;1]] [1;1] 1 5 1 = Some (1%nat, []) /\
  growth_loop sel [[0;0];[0;1];[1;0]] [1;1] 3 5 1 = Some (2%nat, [[1;1]]) /\
  select_level 2 [1;2] 4 [-1;1] = [[0;0];[0;1];[1;0];[1;1];[2;0];[2;1];[3;0];[4;0]].
Proof. vm_compute. repeat split. Qed.

Print Assumptions c08_generated_indexes_satisfy_criterion.
Print Assumptions c08_select_within_limits.
Print Assumptions c08_within_limits_pointwise.
Print Assumptions c08_minus_one_unrestricted.
Print Assumptions c08_children_within_limits.
Print Assumptions c08_child_is_one_level_down.
Print Assumptions c08_saturated_terminates.
Print Assumptions c08_growth_loop_result.
