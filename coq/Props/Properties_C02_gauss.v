(* C02, Gauss rules — quadrature with n nodes whose node polynomial is orthogonal to all lower degrees is exact to degree 2n-1.
   Statements only.  This discharges, for Gauss rules, the one-dimensional premise `exact1d` of
   Properties_C02.c02_combination_exact that DESIGN.md left as a hypothesis ("needs orthogonal polynomials").
   SCOPE: the development is over Qc, so every instance speaks about RATIONAL nodes.  The algebra is field-generic
   (only field axioms and decidable equality of Qc are used), but irrational Gauss nodes (Gauss-Legendre for n >= 2,
   Gauss-Chebyshev, ...) are outside the instance; the Gauss rules of the implementation are still checked by direct
   evaluation in props/C02.py.  What the theorems establish is the mathematical reason for the table value
   getQExact = 2n-1 of the gauss-* rules: orthogonality of the node polynomial (which defines the Gauss nodes) is
   sufficient AND necessary for exactness to degree 2n-1, and degree 2n is impossible for any n-point rule.            *)
From TV Require Import Common.Prelude Proofs.CombinationProofs Proofs.LagrangeExact Proofs.InterpQuadExact
                       Proofs.SparseInterpExact Proofs.SparseQuadExact Proofs.GaussQuadExact Proofs.SparseGaussExact.
From Coq Require Import List Arith Lia QArith Qcanon.
Import ListNotations.
Local Open Scope Qc_scope.

(* ---------- polynomial product on coefficient lists (lowest degree first) ---------- *)
Theorem c02g_pmul_eval : forall (a b : list Qc) (x : Qc), peval (pmul a b) x = peval a x * peval b x.
Proof. exact pmul_eval. Qed.

Theorem c02g_pmul_length : forall (a b : list Qc), (1 <= length b)%nat -> (S (length (pmul a b)) <= length a + length b)%nat.
Proof. exact pmul_length. Qed.

(* the moment functional sees a coefficient list only through its polynomial function (trailing zeros are ignored) *)
Theorem c02g_L_extensional : forall (mu : nat -> Qc) (c1 c2 : list Qc), (forall x, peval c1 x = peval c2 x) -> L mu c1 = L mu c2.
Proof. exact L_peval_ext. Qed.

(* the node polynomial: n+1 coefficients, monic, vanishing at every node, = prod (x - x_i) *)
Theorem c02g_omega : forall (nodes : list Qc),
  length (omega nodes) = S (length nodes) /\ nth (length nodes) (omega nodes) 0 = 1 /\
  (forall a, In a nodes -> peval (omega nodes) a = 0) /\
  (forall x, peval (omega nodes) x = qprod (map (fun xi => x - xi) nodes)).
Proof. exact omega_spec. Qed.

(* division by the node polynomial: c = s * omega + r, pointwise, under every moment functional, and coefficient by
   coefficient (the difference has only zero coefficients); degree r < n, degree s <= degree c - n *)
Theorem c02g_division_by_omega : forall (nodes c : list Qc), exists s r,
  (length r <= length nodes)%nat /\ (length s <= length c - length nodes)%nat /\
  (forall x, peval c x = peval s x * peval (omega nodes) x + peval r x) /\
  (forall mu, L mu c = L mu (pmul s (omega nodes)) + L mu r) /\
  pzero (padd c (map (Qcmult (- (1))) (padd (pmul s (omega nodes)) r))).
Proof. exact omega_division_L. Qed.

(* ---------- MAIN: Gauss exactness, degree <= 2n-1 ---------- *)
Theorem c02g_gauss_quad_exact : forall (mu : nat -> Qc) (nodes : list Qc), NoDup nodes ->
  (forall k, (k < length nodes)%nat -> L mu (pmul (pmono k) (omega nodes)) = 0) ->
  forall c, (length c <= 2 * length nodes)%nat ->
  L mu c = qsum (map (fun i => nth i (weights mu nodes) 0 * peval c (nth i nodes 0)) (seq 0 (length nodes))).
Proof. exact gauss_quad_exact. Qed.

Theorem c02g_gauss_quad_exact_monomial : forall (mu : nat -> Qc) (nodes : list Qc), NoDup nodes ->
  (forall k, (k < length nodes)%nat -> L mu (pmul (pmono k) (omega nodes)) = 0) ->
  forall k, (k < 2 * length nodes)%nat ->
  qsum (map (fun i => nth i (weights mu nodes) 0 * (nth i nodes 0) ^ k) (seq 0 (length nodes))) = mu k.
Proof. exact gauss_quad_exact_monomial. Qed.

(* the hypothesis written with the moments: sum_j omega_j * mu (k + j) *)
Theorem c02g_orthogonality_in_moments : forall (mu : nat -> Qc) (nodes : list Qc) (k : nat),
  L mu (pmul (pmono k) (omega nodes)) = L (fun j => mu (k + j)%nat) (omega nodes).
Proof. exact orthogonality_moments. Qed.

(* ---------- the hypothesis is exactly right: ANY weights exact to degree 2n-1 force the orthogonality ---------- *)
Theorem c02g_gauss_needs_orthogonality : forall (mu : nat -> Qc) (nodes w : list Qc),
  (forall c, (length c <= 2 * length nodes)%nat ->
     L mu c = qsum (map (fun i => nth i w 0 * peval c (nth i nodes 0)) (seq 0 (length nodes)))) ->
  forall k, (k < length nodes)%nat -> L mu (pmul (pmono k) (omega nodes)) = 0.
Proof. exact gauss_needs_orthogonality. Qed.

Theorem c02g_gauss_exact_iff_orthogonal : forall (mu : nat -> Qc) (nodes : list Qc), NoDup nodes ->
  ((forall k, (k < length nodes)%nat -> L mu (pmul (pmono k) (omega nodes)) = 0) <->
   (forall c, (length c <= 2 * length nodes)%nat ->
      L mu c = qsum (map (fun i => nth i (weights mu nodes) 0 * peval c (nth i nodes 0)) (seq 0 (length nodes))))).
Proof. exact gauss_exact_iff_orthogonal. Qed.

(* ---------- 2n-1 is optimal: no n-point rule, whatever its weights, is exact to degree 2n when L(omega^2) <> 0 ---------- *)
Theorem c02g_gauss_degree_optimal : forall (mu : nat -> Qc) (nodes w : list Qc),
  L mu (pmul (omega nodes) (omega nodes)) <> 0 ->
  ~ (forall c, (length c <= 2 * length nodes + 1)%nat ->
       L mu c = qsum (map (fun i => nth i w 0 * peval c (nth i nodes 0)) (seq 0 (length nodes)))).
Proof. exact gauss_degree_optimal. Qed.

(* ---------- sparse grids of Gauss rules: exact on the space declared with m(l) = 2 n(l) - 1 ---------- *)
Theorem c02g_sparse_gauss_quadrature_exact :
  forall (nodes : nat -> nat -> list Qc) (n : nat -> nat),
    (forall j l, NoDup (nodes j l)) -> (forall j l, length (nodes j l) = n l) -> (forall l, (1 <= n l)%nat) ->
    (forall l, (n l <= n (S l))%nat) ->
  forall (mu : nat -> nat -> Qc),
    (forall j l k, (k < length (nodes j l))%nat -> L (mu j) (pmul (pmono k) (omega (nodes j l))) = Q2Qc 0) ->
  forall d Theta, NoDup Theta -> (forall t, In t Theta -> length t = d) -> lower Theta ->
  forall k s, In s Theta -> length k = d -> Forall2 (fun kj sj => (kj <= 2 * n sj - 1)%nat) k s ->
    sumf Qc (Q2Qc 0) Qcplus Theta (fun t => dprod Qc (Q2Qc 1) Qcmult Qcminus (quad_u nodes mu) 0 t k)
    = iprod Qc (Q2Qc 1) Qcmult (quad_I mu) 0 k.
Proof. exact sparse_gauss_quadrature_exact. Qed.

(* ======================= non-vacuity ======================= *)
Ltac qc_eq := apply Qc_is_canon; vm_compute; reflexivity.
Ltac orth_by_computation k Hk := cbn [length] in Hk; repeat (destruct k as [|k]; [qc_eq|]); lia.

(* the rule value  sum_i w_i x_i^k  with the interpolatory weights *)
Definition grule (mu : nat -> Qc) (nodes : list Qc) (k : nat) : Qc :=
  qsum (map (fun i => nth i (weights mu nodes) 0 * (nth i nodes 0) ^ k) (seq 0 (length nodes))).

(* (a) Legendre weight on [-1,1], n = 1, node 0 (the midpoint rule = 1-point Gauss-Legendre): hypothesis holds,
       exact for degree 0 and 1, NOT for degree 2 = 2n *)
Example legendre_1_orth : forall k, (k < length [qc 0 1])%nat -> L legendre_mu (pmul (pmono k) (omega [qc 0 1])) = 0.
Proof. intros k Hk. orth_by_computation k Hk. Qed.

Example legendre_1_by_theorem : grule legendre_mu [qc 0 1] 1 = legendre_mu 1.
Proof.
  apply (c02g_gauss_quad_exact_monomial legendre_mu [qc 0 1]); [qc_nodup|exact legendre_1_orth|cbn; lia].
Qed.

Example legendre_1_sharp :
  grule legendre_mu [qc 0 1] 0 = qc 2 1 /\ grule legendre_mu [qc 0 1] 1 = qc 0 1 /\ grule legendre_mu [qc 0 1] 2 <> legendre_mu 2.
Proof. split; [qc_eq|split; [qc_eq|qc_neq]]. Qed.

(* (b) uniform weight on [0,1], n = 1, node 1/2: a non-symmetric instance *)
Example unit_1_orth : forall k, (k < length [qc 1 2])%nat -> L unit_mu (pmul (pmono k) (omega [qc 1 2])) = 0.
Proof. intros k Hk. orth_by_computation k Hk. Qed.

Example unit_1_sharp :
  grule unit_mu [qc 1 2] 0 = unit_mu 0 /\ grule unit_mu [qc 1 2] 1 = unit_mu 1 /\ grule unit_mu [qc 1 2] 2 <> unit_mu 2.
Proof. split; [qc_eq|split; [qc_eq|qc_neq]]. Qed.

(* (c) a positive measure with 5 atoms (-1, -1/2, 0, 1/2, 1 with masses 5, 28, 30, 28, 5; `disc5_mu`), whose Gauss nodes
       are rational for n = 1, 2, 3.   n = 2: nodes -1/2, 1/2, omega = t^2 - 1/4 *)
Example disc5_omega_2 :
  let om := omega [qc (-1) 2; qc 1 2] in
  length om = 3%nat /\ nth 0 om 0 = qc (-1) 4 /\ nth 1 om 0 = qc 0 1 /\ nth 2 om 0 = qc 1 1.
Proof. cbv zeta. split; [reflexivity|]. repeat split; qc_eq. Qed.

Example disc5_2_orth : forall k, (k < length [qc (-1) 2; qc 1 2])%nat ->
  L disc5_mu (pmul (pmono k) (omega [qc (-1) 2; qc 1 2])) = 0.
Proof. intros k Hk. orth_by_computation k Hk. Qed.

Example disc5_2_weights : weights disc5_mu [qc (-1) 2; qc 1 2] = [qc 48 1; qc 48 1].
Proof. repeat (f_equal; [qc_eq|]). reflexivity. Qed.

(* exact for the degrees 0..3 = 2n-1 (by the theorem for every k < 4, and the values by computation) ... *)
Example disc5_2_by_theorem : forall k, (k < 4)%nat -> grule disc5_mu [qc (-1) 2; qc 1 2] k = disc5_mu k.
Proof.
  intros k Hk. apply (c02g_gauss_quad_exact_monomial disc5_mu [qc (-1) 2; qc 1 2]); [qc_nodup|exact disc5_2_orth|cbn; lia].
Qed.

Example disc5_2_values :
  grule disc5_mu [qc (-1) 2; qc 1 2] 0 = qc 96 1 /\ grule disc5_mu [qc (-1) 2; qc 1 2] 1 = qc 0 1 /\
  grule disc5_mu [qc (-1) 2; qc 1 2] 2 = qc 24 1 /\ grule disc5_mu [qc (-1) 2; qc 1 2] 3 = qc 0 1.
Proof. repeat split; qc_eq. Qed.

(* ... and NOT for degree 4 = 2n: the rule returns 6, the moment is 27/2; the bound of the theorem is sharp *)
Example disc5_2_sharp : grule disc5_mu [qc (-1) 2; qc 1 2] 4 = qc 6 1 /\ disc5_mu 4 = qc 27 2.
Proof. split; qc_eq. Qed.

(* consistent with the optimality theorem: L (omega^2) = 15/2 > 0 *)
Example disc5_2_omega_sq : L disc5_mu (pmul (omega [qc (-1) 2; qc 1 2]) (omega [qc (-1) 2; qc 1 2])) = qc 15 2.
Proof. qc_eq. Qed.

(* the interpolatory rule on two OTHER nodes (-1, 1) violates the hypothesis and is not exact for degree 2 *)
Example disc5_wrong_nodes :
  L disc5_mu (pmul (pmono 0) (omega [qc (-1) 1; qc 1 1])) <> 0 /\ grule disc5_mu [qc (-1) 1; qc 1 1] 2 <> disc5_mu 2.
Proof. split; qc_neq. Qed.

(* n = 3: nodes -3/4, 0, 3/4, omega = t^3 - 9/16 t; exact to degree 5, not for degree 6 *)
Example disc5_3_orth : forall k, (k < length [qc (-3) 4; qc 0 1; qc 3 4])%nat ->
  L disc5_mu (pmul (pmono k) (omega [qc (-3) 4; qc 0 1; qc 3 4])) = 0.
Proof. intros k Hk. orth_by_computation k Hk. Qed.

Example disc5_3_by_theorem : forall k, (k < 6)%nat -> grule disc5_mu [qc (-3) 4; qc 0 1; qc 3 4] k = disc5_mu k.
Proof.
  intros k Hk. apply (c02g_gauss_quad_exact_monomial disc5_mu [qc (-3) 4; qc 0 1; qc 3 4]); [qc_nodup|exact disc5_3_orth|cbn; lia].
Qed.

Example disc5_3_values :
  weights disc5_mu [qc (-3) 4; qc 0 1; qc 3 4] = [qc 64 3; qc 160 3; qc 64 3] /\
  grule disc5_mu [qc (-3) 4; qc 0 1; qc 3 4] 4 = qc 27 2 /\ grule disc5_mu [qc (-3) 4; qc 0 1; qc 3 4] 5 = qc 0 1 /\
  grule disc5_mu [qc (-3) 4; qc 0 1; qc 3 4] 6 <> disc5_mu 6.
Proof.
  split; [repeat (f_equal; [qc_eq|]); reflexivity|]. split; [qc_eq|]. split; [qc_eq|qc_neq].
Qed.

(* a polynomial that is not a monomial, length 4 = 2n, two-point rule: 3 - t + 5 t^2 + 7 t^3 *)
Example disc5_2_poly :
  L disc5_mu [qc 3 1; qc (-1) 1; qc 5 1; qc 7 1]
  = qsum (map (fun i => nth i (weights disc5_mu [qc (-1) 2; qc 1 2]) 0 * peval [qc 3 1; qc (-1) 1; qc 5 1; qc 7 1] (nth i [qc (-1) 2; qc 1 2] 0))
              (seq 0 2)).
Proof.
  apply (c02g_gauss_quad_exact disc5_mu [qc (-1) 2; qc 1 2]); [qc_nodup|exact disc5_2_orth|cbn; lia].
Qed.

(* the sparse theorem is instantiated in SparseGaussExact.v: sparse_gauss_by_theorem, sparse_gauss_x2, sparse_gauss_outside_space *)
Example sparse_gauss_instance :
  sumf Qc (Q2Qc 0) Qcplus ex_Theta (fun t => dprod Qc (Q2Qc 1) Qcmult Qcminus (quad_u gex_nodes gex_mu) 0 t [3;1]%nat)
  = iprod Qc (Q2Qc 1) Qcmult (quad_I gex_mu) 0 [3;1]%nat.
Proof. exact sparse_gauss_by_theorem. Qed.

Print Assumptions c02g_pmul_eval.
Print Assumptions c02g_pmul_length.
Print Assumptions c02g_L_extensional.
Print Assumptions c02g_omega.
Print Assumptions c02g_division_by_omega.
Print Assumptions c02g_gauss_quad_exact.
Print Assumptions c02g_gauss_quad_exact_monomial.
Print Assumptions c02g_orthogonality_in_moments.
Print Assumptions c02g_gauss_needs_orthogonality.
Print Assumptions c02g_gauss_exact_iff_orthogonal.
Print Assumptions c02g_gauss_degree_optimal.
Print Assumptions c02g_sparse_gauss_quadrature_exact.
