(* C09 - dynamic construction does not depend on arrival order or batching of samples.
   Statements only; the model is Model/Construct.v, the proofs are in Proofs/ConstructProofs.v (and, for the surrogate,
   Proofs/HierProofs.v / Proofs/LocalGridProofs.v).

   Model: state = (loaded samples, parked samples); a sample = (multi-index, value block of all outputs).
   [run V adm1 admB st hist] executes a delivery history (a list of batches): a batch of one sample goes through the
   single-point entry (admissibility test adm1, then the completion pass), any other batch through the batch entry
   (park everything, completion pass with the sweep test admB), as TasmanianSparseGrid::loadConstructedPoints does. *)
From TV Require Import Common.Prelude Model.IndexSets Model.RuleLocal Model.Selection Model.Hier Model.LocalGrid Model.Construct.
From TV Require Import Proofs.IndexSetsProofs Proofs.HierProofs Proofs.LocalGridProofs Proofs.ConstructProofs Proofs.LocalComplete.
From Coq Require Import Permutation QArith Qcanon Ring.
Local Open Scope Z_scope.

(* ---- no sample is dropped, values stay attached: every family, every history, any admissibility tests ---- *)

(* loaded + parked is, as a multiset of (index, value) pairs, what was there plus everything delivered *)
Theorem c09_nothing_dropped : forall (V : Type) (adm1 admB : list idx -> idx -> bool) (hist : list (list (sample V))) (st : cstate V),
  Permutation (loaded (run V adm1 admB st hist) ++ parked (run V adm1 admB st hist)) (loaded st ++ parked st ++ concat hist).
Proof. exact run_perm. Qed.

(* a loaded point carries exactly the value block that was supplied for it *)
Theorem c09_values_as_supplied : forall (V : Type) (adm1 admB : list idx -> idx -> bool) (hist : list (list (sample V))) (st : cstate V) p v v',
  NoDup (keys (loaded st ++ parked st ++ concat hist)) ->
  In (p, v) (loaded (run V adm1 admB st hist)) -> In (p, v') (loaded st ++ parked st ++ concat hist) -> v = v'.
Proof. exact run_value_is_supplied. Qed.

Theorem c09_loaded_were_supplied : forall (V : Type) (adm1 admB : list idx -> idx -> bool) (hist : list (list (sample V))) (st : cstate V) p v,
  In (p, v) (loaded (run V adm1 admB st hist)) -> In (p, v) (loaded st ++ parked st ++ concat hist).
Proof. exact run_values. Qed.

(* ---- one monotone admissibility test for both entry points (Sequence; Wavelet; tensors of Global/Fourier) ---- *)

(* after ANY history the loaded set is the least set that contains the start set and is closed under adding admissible
   delivered points *)
Theorem c09_final_is_least_closed : forall (V : Type) (adm : list idx -> idx -> bool), mono adm ->
  forall (hist : list (list (sample V))) (st : cstate V), stable V adm st ->
  least_closed adm (keys (loaded st)) (keys (parked st) ++ keys (concat hist)) (keys (loaded (run V adm adm st hist))).
Proof. exact run_least_closed. Qed.

(* hence: ANY two histories - any permutation, any batch partition, single-point or batch entry - that deliver the same
   set of indexes end with the same loaded set *)
Theorem c09_order_independent : forall (V : Type) (adm : list idx -> idx -> bool), mono adm ->
  forall (h1 h2 : list (list (sample V))) (st : cstate V), stable V adm st ->
  (forall x, In x (keys (concat h1)) <-> In x (keys (concat h2))) ->
  forall x, In x (keys (loaded (run V adm adm st h1))) <-> In x (keys (loaded (run V adm adm st h2))).
Proof. exact order_independent. Qed.

(* and that set is the LARGEST admissible extension: every chain of admissible additions of delivered points is inside it *)
Theorem c09_largest_admissible : forall (V : Type) (adm : list idx -> idx -> bool), mono adm ->
  forall (hist : list (list (sample V))) (st : cstate V) chain, stable V adm st ->
  adm_chain adm (keys (loaded st)) (keys (parked st) ++ keys (concat hist)) chain ->
  incl chain (keys (loaded (run V adm adm st hist))).
Proof. exact chain_within_final. Qed.

(* Sequence grids (points) - lower completeness; no further hypothesis *)
Theorem c09_sequence_order_independent : forall (V : Type) (h1 h2 : list (list (sample V))) (st : cstate V),
  stable V lower_adm st -> (forall x, In x (keys (concat h1)) <-> In x (keys (concat h2))) ->
  forall x, In x (keys (loaded (run V lower_adm lower_adm st h1))) <-> In x (keys (loaded (run V lower_adm lower_adm st h2))).
Proof. intros V. exact (order_independent V lower_adm lower_adm_mono). Qed.

(* Wavelet grids - the single-point entry forwards to the batch entry, one sweep test *)
Theorem c09_wavelet_order_independent : forall (V : Type) (order : Z) (h1 h2 : list (list (sample V))) (st : cstate V),
  let a := conn_admB (wave_rel order) (wave_root order) in
  stable V a st -> (forall x, In x (keys (concat h1)) <-> In x (keys (concat h2))) ->
  forall x, In x (keys (loaded (run V a a st h1))) <-> In x (keys (loaded (run V a a st h2))).
Proof. intros V order. exact (order_independent V _ (conn_admB_mono (wave_rel order) (wave_root order))). Qed.

(* ---- two different tests (Local Polynomial: touchAllImmediateRelatives vs the sweep of getLargestConnected) ---- *)

(* whatever the order: the final loaded set is closed under every test [lo] below both, and inside every set closed under a
   monotone test [hi] above both *)
Theorem c09_final_between_bounds : forall (V : Type) (adm1 admB lo hi : list idx -> idx -> bool), mono hi ->
  (forall S p, lo S p = true -> adm1 S p = true) -> (forall S p, lo S p = true -> admB S p = true) ->
  (forall S p, adm1 S p = true -> hi S p = true) -> (forall S p, admB S p = true -> hi S p = true) ->
  forall (hist : list (list (sample V))) (st : cstate V), stable V lo st ->
  (incl (keys (loaded st)) (keys (loaded (run V adm1 admB st hist))) /\
   closed lo (keys (parked st) ++ keys (concat hist)) (keys (loaded (run V adm1 admB st hist)))) /\
  (forall S, incl (keys (loaded st)) S -> closed hi (keys (parked st) ++ keys (concat hist)) S ->
             incl (keys (loaded (run V adm1 admB st hist))) S).
Proof.
  intros V adm1 admB lo hi Hm l1 lB h1 hB hist st Hst. split.
  - exact (final_closed_lo V adm1 admB lo l1 lB hist st Hst).
  - exact (final_below_hi V adm1 admB hi Hm h1 hB hist st).
Qed.

(* a target that is completely admissible under a test below both entry points is loaded completely by every history *)
Theorem c09_complete_target_all_loaded : forall (V : Type) (adm1 admB lo : list idx -> idx -> bool),
  (forall S p, lo S p = true -> adm1 S p = true) -> (forall S p, lo S p = true -> admB S p = true) ->
  forall (hist : list (list (sample V))) (st : cstate V), stable V lo st ->
  (forall S, incl (keys (loaded st)) S -> closed lo (keys (parked st) ++ keys (concat hist)) S ->
             incl (keys (parked st) ++ keys (concat hist)) S) ->
  forall x, In x (keys (loaded (run V adm1 admB st hist))) <-> In x (keys (loaded st) ++ keys (parked st) ++ keys (concat hist)).
Proof. exact complete_target_all_loaded. Qed.

(* Local Polynomial grids: exact order independence when the relatives relation of the rule is symmetric on the points
   0..n-1 that occur (all indexes have d coordinates in that range) *)
Theorem c09_localpoly_order_independent : forall (V : Type) (r : erule) (n d : nat),
  rel_sym_upto (local_rel r) n = true ->
  forall (h1 h2 : list (list (sample V))) (st : cstate V),
  stable V (lo_conn (local_rel r) (local_root r)) st ->
  (forall x, In x (keys (loaded st) ++ keys (parked st) ++ keys (concat h1)) -> bounded_idx n d x) ->
  (forall x, In x (keys (concat h1)) <-> In x (keys (concat h2))) ->
  forall x, In x (keys (loaded (run V (conn_adm1 (local_rel r) (local_root r)) (conn_admB (local_rel r) (local_root r)) st h1))) <->
            In x (keys (loaded (run V (conn_adm1 (local_rel r) (local_root r)) (conn_admB (local_rel r) (local_root r)) st h2))).
Proof. intros V r n d. exact (local_order_independent V (local_rel r) (local_root r) n d). Qed.

(* the symmetry holds for localp, localp-zero, localp-boundary and the order-0 rule (points below 4096 = 12 levels) ... *)
Example c09_relatives_symmetric :
  rel_sym_upto (local_rel Localp) 4096 = true /\ rel_sym_upto (local_rel Localp0) 4096 = true /\
  rel_sym_upto (local_rel Localpb) 4096 = true /\ rel_sym_upto (local_rel Pwc) 4096 = true.
Proof. vm_compute. repeat split. Qed.

(* ... and NOT for semi-localp (point 3 has step-parent 2, point 2 does not have kid 3): there the two entry points use
   different connectivity tests and the outcome of a delivery depends on the batching - the faithful model shows it *)
Theorem c09_semilocalp_batching_dependent_refuted :
  let a1 := conn_adm1 (local_rel Semilocalp) (local_root Semilocalp) in
  let aB := conn_admB (local_rel Semilocalp) (local_root Semilocalp) in
  exists (st : cstate Z) (h1 h2 : list (list (sample Z))),
    stable Z aB st /\ Permutation (concat h1) (concat h2) /\
    keys (loaded (run Z a1 aB st h1)) <> keys (loaded (run Z a1 aB st h2)) /\
    rel_sym_upto (local_rel Semilocalp) 8 = false.
Proof.
  cbv zeta. exists (mkcs [([0], 10); ([2], 12)] []), [[([3], 13)]; [([6], 16)]], [[([3], 13); ([6], 16)]].
  split; [intros s []|]. split; [apply Permutation_refl|]. split; [vm_compute; discriminate|vm_compute; reflexivity].
Qed.

(* ---- candidate lists never contain a loaded point ---- *)
Theorem c09_candidates_fresh_sequence : forall pts initial limits p,
  (forall x, In x initial -> ~ In x pts) -> In p (seq_candidates pts initial limits) -> ~ In p pts.
Proof. exact seq_candidates_fresh. Qed.

Theorem c09_candidates_fresh_local : forall rc initial pts p,
  (forall x, In x initial -> ~ In x pts) -> (forall x, In x rc -> ~ In x pts) -> In p (local_candidates rc initial) -> ~ In p pts.
Proof. exact local_candidates_fresh. Qed.

(* the remaining initial points are disjoint from the loaded points after every history *)
Theorem c09_initial_points_fresh : forall (V : Type) (adm1 admB : list idx -> idx -> bool) init (hist : list (list (sample V))) (st : cstate V) p,
  (forall x, In x init -> ~ In x (keys (loaded st ++ parked st))) ->
  In p (initial_after V init hist) -> ~ In p (keys (loaded (run V adm1 admB st hist))).
Proof. exact initial_after_fresh. Qed.

(* ---- Global / Fourier grids: samples wait until the surplus points of a whole tensor are present ---- *)
Theorem c09_global_nothing_dropped : forall (V : Type) (npts : Z -> Z) (maxlevel : nat) (flag keep : bool) (ops : list (gop V)) (st : gstate V),
  Permutation (gpoints (g_run V npts maxlevel flag keep st ops) ++ gdata (g_run V npts maxlevel flag keep st ops))
              (gpoints st ++ gdata st ++ flat_map (fun o => match o with GDeliver b => b | GCand _ => [] end) ops).
Proof. exact g_run_perm. Qed.

(* one ejection loads exactly the least lower-complete extension by registered tensors whose points have all arrived *)
Theorem c09_global_eject_least_closed : forall (V : Type) (npts : Z -> Z) (maxlevel : nat) (st : gstate V),
  let cands := filter (tcomplete V npts (gdata st)) (ginit st ++ greg st) in
  incl (gtensors st) (gtensors (eject V npts maxlevel st)) /\
  closed lower_adm cands (gtensors (eject V npts maxlevel st)) /\
  (forall S, incl (gtensors st) S -> closed lower_adm cands S -> incl (gtensors (eject V npts maxlevel st)) S).
Proof. exact eject_least_closed. Qed.

(* The code AS IT STANDS (flag = false): the single-point entry registers an unknown tensor but does not try to eject it.
   With a rule that adds one point per level (leja ...) the outcome depends on the batching: delivering indexes 2 and 3 one
   at a time leaves 3 parked, delivering them together loads both. *)
Definition leja_npts (l : Z) : Z := l + 1.
Definition g_ex_start : gstate Z := mkg [[0]; [1]] [([0], 100); ([1], 101)] [] [] [].
Theorem c09_global_single_point_refuted :
  exists (h1 h2 : list (gop Z)),
    Permutation (flat_map (fun o => match o with GDeliver b => b | GCand _ => [] end) h1)
                (flat_map (fun o => match o with GDeliver b => b | GCand _ => [] end) h2) /\
    gtensors (g_run Z leja_npts 8 false false g_ex_start h1) <> gtensors (g_run Z leja_npts 8 false false g_ex_start h2).
Proof.
  exists [GDeliver [([2], 102)]; GDeliver [([3], 103)]], [GDeliver [([2], 102); ([3], 103)]].
  split; [apply Permutation_refl|vm_compute; discriminate].
Qed.

(* with the proposed repair (flag = true) the same two histories agree *)
Example c09_global_single_point_repaired :
  gtensors (g_run Z leja_npts 8 true true g_ex_start [GDeliver [([2], 102)]; GDeliver [([3], 103)]]) = [[0]; [1]; [2]; [3]] /\
  gtensors (g_run Z leja_npts 8 true true g_ex_start [GDeliver [([2], 102); ([3], 103)]]) = [[0]; [1]; [2]; [3]] /\
  gtensors (g_run Z leja_npts 8 true true g_ex_start [GDeliver [([3], 103)]; GDeliver [([2], 102)]]) = [[0]; [1]; [2]; [3]].
Proof. vm_compute. repeat split. Qed.

(* The code AS IT STANDS (keep = false), even with the first repair: a candidate request un-registers a tensor whose samples are
   parked; if no further sample of that tensor arrives it is never loaded.  2-d, one point per level: tensor (1,1) arrives first,
   a candidate request follows, then (1,0) and (0,1): (1,1) stays parked, while without the request (or in one batch) it is loaded. *)
Definition g_ex2_start : gstate Z := mkg [[0;0]] [([0;0], 100)] [] [] [].
Theorem c09_global_candidate_request_refuted :
  exists (h1 h2 : list (gop Z)),
    Permutation (flat_map (fun o => match o with GDeliver b => b | GCand _ => [] end) h1)
                (flat_map (fun o => match o with GDeliver b => b | GCand _ => [] end) h2) /\
    gtensors (g_run Z leja_npts 8 true false g_ex2_start h1) <> gtensors (g_run Z leja_npts 8 true false g_ex2_start h2).
Proof.
  exists [GDeliver [([1;1], 111)]; GCand []; GDeliver [([1;0], 110)]; GDeliver [([0;1], 101)]],
         [GDeliver [([1;1], 111)]; GDeliver [([1;0], 110)]; GDeliver [([0;1], 101)]].
  split; [apply Permutation_refl|vm_compute; discriminate].
Qed.

Example c09_global_candidate_request_repaired :
  sort_unique (gtensors (g_run Z leja_npts 8 true true g_ex2_start [GDeliver [([1;1], 111)]; GCand []; GDeliver [([1;0], 110)]; GDeliver [([0;1], 101)]]))
    = [[0;0]; [0;1]; [1;0]; [1;1]] /\
  sort_unique (gtensors (g_run Z leja_npts 8 true true g_ex2_start [GDeliver [([1;1], 111)]; GDeliver [([1;0], 110)]; GDeliver [([0;1], 101)]]))
    = [[0;0]; [0;1]; [1;0]; [1;1]].
Proof. vm_compute. repeat split. Qed.

(* ---- equal point sets with equal values give equal surrogates ---- *)
Section Surrogate.
  Variable R : Type.
  Variables (rO rI : R) (radd rmul rsub : R -> R -> R) (ropp : R -> R).
  Hypothesis Rth : ring_theory rO rI radd rmul rsub ropp eq.
  Variable I : Type.
  Variable ieqb : I -> I -> bool.
  Hypothesis ieqb_spec : forall a b, reflect (a = b) (ieqb a b).
  Variable B : I -> I -> R.
  Variable reach : I -> list I.
  Variable v : I -> R.
  Variable nodes : list I.
  Hypothesis nodes_nodup : NoDup nodes.
  Hypothesis G1 : forall i, In i nodes -> B i i = rI.
  Hypothesis reach_nodup : forall i, In i nodes -> NoDup (reach i).
  Hypothesis reach_in : forall i j, In i nodes -> In j (reach i) -> In j nodes /\ j <> i.
  Hypothesis G2 : forall i j, In i nodes -> In j nodes -> j <> i -> ~ In j (reach i) -> B i j = rO.
  Hypothesis topo : forall pre i post, nodes = pre ++ i :: post -> forall j, In j (reach i) -> In j pre.

  (* Sequence grids (and every triangular hierarchical basis): two coefficient vectors that reproduce the same values on the
     same nodes - e.g. the one built point by point in some arrival order and the one of a one-batch load - are equal, and
     so are the surrogates at every point (phi j = value of basis function j there) *)
  Theorem c09_surrogate_unique : forall c1 c2 : I -> R,
    (forall i, In i nodes -> Hier.sum R rO radd I nodes (fun j => rmul (B i j) (c1 j)) = v i) ->
    (forall i, In i nodes -> Hier.sum R rO radd I nodes (fun j => rmul (B i j) (c2 j)) = v i) ->
    (forall i, In i nodes -> c1 i = c2 i) /\
    (forall phi : I -> R, Hier.sum R rO radd I nodes (fun j => rmul (phi j) (c1 j)) = Hier.sum R rO radd I nodes (fun j => rmul (phi j) (c2 j))).
  Proof.
    intros c1 c2 H1 H2.
    pose proof (hier_unique R rO rI radd rmul rsub ropp Rth I ieqb ieqb_spec B reach v nodes nodes_nodup G1 reach_nodup reach_in G2 topo c1 c2 H1 H2) as Hu.
    split; [exact Hu|]. intros phi. apply sum_ext. intros j Hj. rewrite (Hu j Hj). reflexivity.
  Qed.
End Surrogate.

(* the single-point path (surplus = value - current interpolant over the visited ancestors) is one more step of the forward
   pass that a batch load performs: appending p last gives exactly that surplus and leaves the other coefficients alone *)
Theorem c09_single_point_is_forward_step : forall R rO radd rmul rsub I ieqb B reach v nodes p,
  coef R rO radd rmul rsub I ieqb B reach v (nodes ++ [p]) =
  (p, surp1 R rO radd rmul rsub I ieqb B reach v (coef R rO radd rmul rsub I ieqb B reach v nodes) p)
    :: coef R rO radd rmul rsub I ieqb B reach v nodes.
Proof. exact coef_snoc. Qed.

(* Local Polynomial grids: the same, for every final point set that passes the certificate (in particular the
   parent-complete ones); evaluated by the extracted model on every final set the check visits *)
Theorem c09_surrogate_unique_localpoly : forall r order pts (vals : list (idx * Qc)), hier_cert r order pts = true ->
  forall c1 c2 : idx -> Qc,
  (forall i, In i (by_level r pts) -> Hier.sum Qc 0%Qc Qcplus idx (by_level r pts) (fun j => (Bc r order i j * c1 j)%Qc) = assoc vals i) ->
  (forall i, In i (by_level r pts) -> Hier.sum Qc 0%Qc Qcplus idx (by_level r pts) (fun j => (Bc r order i j * c2 j)%Qc) = assoc vals i) ->
  forall i, In i (by_level r pts) -> c1 i = c2 i.
Proof. exact localgrid_unique. Qed.

(* ... unbounded: EVERY well-formed final point set with a complete hierarchy (four binary rules, every order and dimension) has
   only one coefficient vector that reproduces the delivered values, so every delivery order and batching that ends with that set
   and reproduces its values ends with the same surrogate - no certificate needed (Proofs/LocalComplete.v) *)
Theorem c09_surrogate_unique_localpoly_complete_unbounded : forall r order d pts (vals : list (idx * Qc)),
  binary r -> wellformed d pts -> parent_complete r pts = true ->
  forall c1 c2 : idx -> Qc,
  (forall i, In i (by_level r pts) -> Hier.sum Qc 0%Qc Qcplus idx (by_level r pts) (fun j => (Bc r order i j * c1 j)%Qc) = assoc vals i) ->
  (forall i, In i (by_level r pts) -> Hier.sum Qc 0%Qc Qcplus idx (by_level r pts) (fun j => (Bc r order i j * c2 j)%Qc) = assoc vals i) ->
  forall i, In i (by_level r pts) -> c1 i = c2 i.
Proof. exact localpoly_complete_unique. Qed.

(* ---- non-vacuity: concrete histories ---- *)
Example c09_example_sequence :   (* target {0,1,2}x{0,1} delivered in two orders / batchings: same final set, nothing lost on the way *)
  let st0 : cstate Z := mkcs [] [] in
  let a := lower_adm in
  sort_unique (keys (loaded (run Z a a st0 [[([1;1], 11)]; [([0;1], 1)]; [([1;0], 10); ([2;1], 21)]; [([0;0], 0)]; [([2;0], 20)]]))) = [[0;0]; [0;1]; [1;0]; [1;1]; [2;0]; [2;1]] /\
  sort_unique (keys (loaded (run Z a a st0 [[([0;0], 0); ([0;1], 1); ([1;0], 10); ([1;1], 11); ([2;0], 20); ([2;1], 21)]]))) = [[0;0]; [0;1]; [1;0]; [1;1]; [2;0]; [2;1]] /\
  keys (parked (run Z a a st0 [[([1;1], 11)]; [([0;1], 1)]; [([1;0], 10); ([2;1], 21)]])) = [[2;1]; [1;0]; [0;1]; [1;1]] /\
  seq_candidates [[0;0]; [1;0]] [] [] = [[0;1]; [2;0]] /\ seq_candidates [[0;0]; [1;0]] [] [2; 0] = [[2;0]] /\ seq_candidates [] [[0;0];[0;1]] [] = [[0;0];[0;1]].
Proof. vm_compute. repeat split. Qed.

Example c09_example_local :   (* localp, 1-d: 3 arrives before its parent 1 and waits; 0 is a root *)
  let a1 := conn_adm1 (local_rel Localp) (local_root Localp) in
  let aB := conn_admB (local_rel Localp) (local_root Localp) in
  keys (loaded (run Z a1 aB (mkcs [] []) [[([3], 3)]; [([0], 0)]])) = [[0]] /\
  keys (loaded (run Z a1 aB (mkcs [] []) [[([3], 3)]; [([0], 0)]; [([1], 1)]])) = [[0]; [1]; [3]] /\
  keys (loaded (run Z a1 aB (mkcs [] []) [[([3], 3); ([0], 0); ([1], 1)]])) = [[0]; [1]; [3]] /\
  let w := conn_admB (wave_rel 1) (wave_root 1) in
  keys (loaded (run Z w w (mkcs [] []) [[([5], 5)]; [([1], 1)]; [([3], 3)]])) = [[1]; [3]; [5]].
Proof. vm_compute. repeat split. Qed.

Print Assumptions c09_nothing_dropped.
Print Assumptions c09_values_as_supplied.
Print Assumptions c09_loaded_were_supplied.
Print Assumptions c09_final_is_least_closed.
Print Assumptions c09_order_independent.
Print Assumptions c09_largest_admissible.
Print Assumptions c09_sequence_order_independent.
Print Assumptions c09_wavelet_order_independent.
Print Assumptions c09_final_between_bounds.
Print Assumptions c09_complete_target_all_loaded.
Print Assumptions c09_localpoly_order_independent.
Print Assumptions c09_semilocalp_batching_dependent_refuted.
Print Assumptions c09_candidates_fresh_sequence.
Print Assumptions c09_candidates_fresh_local.
Print Assumptions c09_initial_points_fresh.
Print Assumptions c09_global_nothing_dropped.
Print Assumptions c09_global_eject_least_closed.
Print Assumptions c09_global_single_point_refuted.
Print Assumptions c09_global_candidate_request_refuted.
Print Assumptions c09_surrogate_unique.
Print Assumptions c09_single_point_is_forward_step.
Print Assumptions c09_surrogate_unique_localpoly.
Print Assumptions c09_surrogate_unique_localpoly_complete_unbounded.
