(* C05, the derivative modes of the evaluation-tree walk of Local Polynomial grids: closed statements about
   Model/TreeWalkDiff.v (GridLocalPolynomial::diffBasisSupported, walkTree modes 3 and 4, differentiate,
   getDifferentiationWeights before applyTransformationTransposed).

   Same premises as Props/Properties_C04_treewalk.v: EVERY point set [pts] (holes allowed; the positions of the list are the
   point numbers), multi-indexes non-negative, set non-empty, four binary rules, every order, every dimension, every x.

   RESULT.  The isSupported flag of diffBasisSupported is NOT the flag of evalBasisSupported: the C++ ORs the per-direction
   flags (isSupported = isDimSupported or isSupported, starting from false) where evalBasisSupported stops at the first
   unsupported direction (an AND).  The two agree in one dimension; in d >= 2 the derivative walk visits exactly the points
   with AT LEAST ONE supported direction - a superset of the points of the value walk (c05tw_flag_is_value_flag_refuted,
   ex_diff_walk_visits_more).  The result of differentiate() is not affected: the gradient vector computed for a point that is
   unsupported in some direction is the zero vector (the value factor of that direction is 0.0 and so is its derivative), OR
   is still nested along the edges of computeDAGDown, so (b) and (c) hold without exception:
   (a) the derivative walk records every point with some supported direction exactly once, in depth-first order; the value walk
       is its sub-sequence of points with every direction supported; the extra points carry zero vectors;
   (b) differentiate through the walk (mode 3) = sum over ALL points of surplus times dense gradient entry; the sparse gradient
       row (mode 4) = the dense gradient row, entry by entry;
   (c) entry k of a recorded vector = (product of the evalRaw values of the other directions) * (value of diffSupport in
       direction k), the first-order coefficient of Props/Properties_C05.v c05_product_rule.
   At a closed support boundary the statement is about the one-sided value diffSupport returns there (0 at the right end of a
   support, except x = 1): (b)/(c) are exact identities of the model, no exception; what "derivative" means at a kink is the
   side condition of c05_local_1d, not of the walk. *)
From TV Require Import Common.Prelude Model.IndexSets Model.RuleLocal Model.Selection Model.LocalGrid Model.TreeWalk Model.Diff Model.TreeWalkDiff.
From TV Require Import Proofs.RuleLocalProofs Proofs.TreeWalkProofs Proofs.DiffProofs Proofs.TreeWalkDiffProofs.
From Coq Require Import QArith.

(* one dimension: isSupported of diffSupport implies isSupported of evalSupport (all five rules) ... *)
Theorem c05tw_diff_flag_implies_eval_flag : forall (r : erule) (o p : Z) (x : Q),
  snd (diffSupport r o p x) = true -> snd (evalSupport r o p x) = true.
Proof. exact diff_flag_eval_flag. Qed.
Print Assumptions c05tw_diff_flag_implies_eval_flag.

(* ... and outside the closed support both returned values are exactly 0 *)
Theorem c05tw_unsupported_1d_zero : forall (r : erule) (o p : Z) (x : Q), binary_rule r ->
  snd (evalSupport r o p x) = false -> fst (diffSupport r o p x) = 0%Q /\ evalRaw r o p x = 0%Q.
Proof. intros r o p x Hr H. split; [exact (diff_unsupported_zero r o p x H)|exact (unsupported_value_zero r o p x Hr H)]. Qed.
Print Assumptions c05tw_unsupported_1d_zero.

(* (a) diffBasisSupported: the flag is "SOME direction supported", the vector is the dense gradient (independent of the flags),
   and it is the zero vector as soon as one direction is not supported *)
Theorem c05tw_diff_basis_supported_meaning : forall (r : erule) (o : Z) (pt : idx) (x : list Q),
  snd (diff_basis_supported r o pt x) = supp_any r o pt x /\
  fst (diff_basis_supported r o pt x) = grad_dense r o pt x /\
  (binary_rule r -> supp_all r o pt x = false -> forall k : nat, (nth k (grad_dense r o pt x) 0 == 0)%Q).
Proof. exact diff_basis_supported_meaning. Qed.
Print Assumptions c05tw_diff_basis_supported_meaning.

(* (a) the two flags: equal in one dimension; in general only AND => OR *)
Theorem c05tw_flags_relation : forall (r : erule) (o : Z) (pt : idx) (x : list Q),
  (forall (p : Z) (t : Q), pt = [p] -> x = [t] -> supp_any r o pt x = supp_all r o pt x) /\
  (pt <> [] -> x <> [] -> supp_all r o pt x = true -> supp_any r o pt x = true).
Proof. exact flags_relation. Qed.
Print Assumptions c05tw_flags_relation.

(* (a) "the derivative flag equals the value flag" is FALSE of the faithful model in two dimensions: localp, order 1,
   point (1,2), x = (1/2,1/2): direction 0 is not supported, direction 1 is; flag true, vector (0,0) *)
Theorem c05tw_flag_is_value_flag_refuted : exists (r : erule) (o : Z) (pt : idx) (x : list Q),
  binary_rule r /\ Forall (fun p => (0 <= p)%Z) pt /\
  snd (diff_basis_supported r o pt x) = true /\ snd (basis_supported r o pt x) = false /\
  length (fst (diff_basis_supported r o pt x)) = 2%nat /\
  forallb (fun v => Qeq_bool v 0) (fst (diff_basis_supported r o pt x)) = true.
Proof. exact flags_differ_witness. Qed.
Print Assumptions c05tw_flag_is_value_flag_refuted.

(* the OR flag is nested along a DAG edge (needed for the pruning of the walk to be sound) *)
Theorem c05tw_any_support_nesting_edge : forall (r : erule) (o : Z) (pt : list Z) (dir : nat) (k : Z) (x : list Q),
  binary_rule r -> Forall (fun p => (0 <= p)%Z) pt -> (dir < length pt)%nat -> (k = 0 \/ k = 1)%Z ->
  getKid r (nth dir pt 0%Z) k <> (-1)%Z ->
  supp_any r o (Selection.set_nth pt dir (getKid r (nth dir pt 0%Z) k)) x = true -> supp_any r o pt x = true.
Proof. exact nest_edge_any. Qed.
Print Assumptions c05tw_any_support_nesting_edge.

(* (a) MAIN: the derivative walk (modes 3 and 4) records every point at most once, records exactly the points with some
   supported direction, in the depth-first order of the forest *)
Theorem c05tw_visits_exactly_any_supported : forall (r : erule) (o : Z) (pts : list idx) (x : list Q),
  binary_rule r -> nonneg_pts pts -> forall (forest : list tree) (ok : bool), pts <> [] -> build_forest r pts = (forest, ok) ->
  NoDup (map fst (walk_diff r o pts forest x)) /\
  (forall i : nat, In i (map fst (walk_diff r o pts forest x)) <-> (i < length pts)%nat /\ supp_any r o (nth i pts []) x = true) /\
  map fst (walk_diff r o pts forest x) = filter (fun i => supp_any r o (nth i pts []) x) (flat_map nodes forest).
Proof. exact walk_diff_exactly_any. Qed.
Print Assumptions c05tw_visits_exactly_any_supported.

(* (a) the value walk (mode 1) is the sub-sequence of the derivative walk made of the points with every direction supported *)
Theorem c05tw_value_walk_is_subsequence : forall (r : erule) (o : Z) (pts : list idx) (x : list Q),
  binary_rule r -> nonneg_pts pts -> forall (forest : list tree) (ok : bool), pts <> [] -> build_forest r pts = (forest, ok) ->
  Forall (fun pt => pt <> []) pts -> x <> [] ->
  map fst (walk r o pts forest x) = filter (fun i => supp_all r o (nth i pts []) x) (map fst (walk_diff r o pts forest x)).
Proof. exact value_walk_subsequence. Qed.
Print Assumptions c05tw_value_walk_is_subsequence.

(* (a) every point the derivative walk visits in addition carries the zero vector *)
Theorem c05tw_extra_visits_are_zero : forall (r : erule) (o : Z) (pts : list idx) (x : list Q),
  binary_rule r -> nonneg_pts pts -> forall (forest : list tree) (ok : bool), pts <> [] -> build_forest r pts = (forest, ok) ->
  forall (i : nat) (g : list Q) (k : nat), In (i, g) (walk_diff r o pts forest x) ->
  supp_all r o (nth i pts []) x = false -> (nth k g 0 == 0)%Q.
Proof. exact walk_diff_extra_zero. Qed.
Print Assumptions c05tw_extra_visits_are_zero.

(* (c) the vector recorded for a visited point is the dense gradient, and entry k is the product-rule expression:
   product of the evalRaw values of the other directions times the value of diffSupport in direction k
   (= nth k (grad_accum fs dfs), the first-order coefficient in c05_product_rule) *)
Theorem c05tw_entry_is_product_rule : forall (r : erule) (o : Z) (pts : list idx) (x : list Q),
  binary_rule r -> nonneg_pts pts -> forall (forest : list tree) (ok : bool), pts <> [] -> build_forest r pts = (forest, ok) ->
  forall (i : nat) (g : list Q) (k : nat), In (i, g) (walk_diff r o pts forest x) ->
  (k < length (nth i pts []))%nat -> (k < length x)%nat ->
  (nth k g 0 == prodQ (Diff.set_nth k (raw_vals r o (nth i pts []) x) 1)
                * fst (diffSupport r o (nth k (nth i pts []) 0%Z) (nth k x 0%Q)))%Q.
Proof. exact walk_diff_entry. Qed.
Print Assumptions c05tw_entry_is_product_rule.

Theorem c05tw_values : forall (r : erule) (o : Z) (pts : list idx) (x : list Q),
  binary_rule r -> nonneg_pts pts -> forall (forest : list tree) (ok : bool), pts <> [] -> build_forest r pts = (forest, ok) ->
  forall (i : nat) (g : list Q), In (i, g) (walk_diff r o pts forest x) ->
  g = grad_accum (map (fun px => evalRaw r o (fst px) (snd px)) (combine (nth i pts []) x))
                 (map (fun px => fst (diffSupport r o (fst px) (snd px))) (combine (nth i pts []) x)).
Proof. exact walk_diff_values. Qed.
Print Assumptions c05tw_values.

(* (b) the sparse gradient row of getDifferentiationWeights (mode 4, zero where absent) = the dense gradient row *)
Theorem c05tw_sparse_eq_dense : forall (r : erule) (o : Z) (pts : list idx) (x : list Q),
  binary_rule r -> nonneg_pts pts -> forall (forest : list tree) (ok : bool), pts <> [] -> build_forest r pts = (forest, ok) ->
  forall i d : nat, (i < length pts)%nat ->
  (sparse_grad_entry (walk_diff r o pts forest x) i d == nth d (grad_dense r o (nth i pts []) x) 0)%Q.
Proof. exact sparse_grad_eq_dense. Qed.
Print Assumptions c05tw_sparse_eq_dense.

(* (b) differentiate through the walk (mode 3), entry d of one output = sum over ALL points of dense gradient entry d times
   surplus, for any surpluses *)
Theorem c05tw_differentiate_eq_dense_sum : forall (r : erule) (o : Z) (pts : list idx) (x : list Q),
  binary_rule r -> nonneg_pts pts -> forall (forest : list tree) (ok : bool), pts <> [] -> build_forest r pts = (forest, ok) ->
  forall (surp : nat -> Q) (d : nat), (diff_walk r o pts forest surp x d == diff_full r o pts surp x d)%Q.
Proof. exact diff_walk_eq_full. Qed.
Print Assumptions c05tw_differentiate_eq_dense_sum.

(* ---- non-vacuity and bounded computations ---- *)
(* complete 2-d localp grid of 29 points, x = (1/3, -3/5): the value walk records 10 points, the derivative walk 26 *)
Example ex_diff_walk_visits_more :
  let g := tw_grid Localp 2 9 3 in let f := fst (build_forest Localp g) in let x := [(1 # 3)%Q; (-3 # 5)%Q] in
  (length g, length (walk Localp 1 g f x), length (walk_diff Localp 1 g f x)) = (29, 10, 26)%nat.
Proof. vm_compute. reflexivity. Qed.
(* a non-zero gradient: localp0, order 2 *)
Example ex_walk_diff_head :
  let g := tw_grid Localp0 2 7 2 in
  hd (O, []) (walk_diff Localp0 2 g (fst (build_forest Localp0 g)) [(1 # 3)%Q; (-3 # 5)%Q]) = (O, [(-32 # 75)%Q; (48 # 45)%Q]).
Proof. vm_compute. reflexivity. Qed.
(* 1-d, localp order 1, x = -1/2: x is the node of point 3 (the hat's kink: diffSupport returns the right-hand slope -2) and the
   closed right boundary of the support of point 5, which is visited (closed test of evalSupport) with the derivative value 0
   that diffSupport returns at the right end of a support *)
Example ex_diff_walk_on_boundary :
  walk_diff Localp 1 [[0]; [1]; [3]; [5]]%Z (fst (build_forest Localp [[0]; [1]; [3]; [5]]%Z)) [(-1 # 2)%Q]
  = [(0, [0%Q]); (1, [(-1)%Q]); (2, [(-2)%Q]); (3, [0%Q])]%nat.
Proof. vm_compute. reflexivity. Qed.
(* statements (a)-(c) decided by computation on complete 2-d grids and on grids with holes, 81 points x (inside, nodes, support
   boundaries, outside the domain), orders 1, 2, 3 and unbounded, four binary rules *)
Example ex_walk_diff_bounded :
  forallb (fun r => forallb (twd_check r 1 (tw_grid r 2 9 3)) tw_xs2 && forallb (twd_check r 3 (tw_holes (tw_grid r 2 9 3))) tw_xs2
                    && forallb (twd_sparse_check r 2 (tw_holes (tw_grid r 2 9 3))) tw_xs2
                    && forallb (twd_check r 2 (tw_holes (tw_holes (tw_grid r 2 17 4)))) tw_xs2
                    && forallb (twd_check r (-1) (tw_holes (tw_grid r 2 17 4))) tw_xs2) [Localp; Semilocalp; Localp0; Localpb] = true.
Proof. vm_cast_no_check (@eq_refl bool true). Qed.   (* the computation is done (once) by the kernel at Qed *)
