(* C18 (under construction) *)
From TV Require Import Common.Prelude Model.Workers Proofs.WorkersProofs.
