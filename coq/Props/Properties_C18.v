(* C18 — parallel constructSurrogate and threaded loadNeededValues: exactly-once, bounded, synchronised, deadlock free.

   Statements only; each is closed by [exact] of a lemma of Proofs/WorkersProofs.v.  All theorems are about
   [reachable hc cfg L0 n0 s]: the reflexive-transitive closure of the executable [step] of Model/Workers.v from
   [init cfg L0 n0], for ANY configuration [cfg] (number of workers, batch size, budget), ANY initially loaded samples
   [L0], ANY initial value [n0] of total_num_launched, ANY interleaving and ANY payloads (model values, candidate lists).
   [hc = true] restricts the candidate oracle to H-CAND (duplicate-free lists without loaded samples);
   only c18_at_most_once needs it.

   NOT proved here: termination under a fair scheduler (deadlock freedom is an invariant: some non-spurious step is
   always enabled), anything about the C++ memory model (the model is the sequentially consistent interleaving of the
   mutex-protected steps), data-race freedom of the real code (ThreadSanitizer runs in props/C18.py). *)
From TV Require Import Common.Prelude Model.Workers Proofs.WorkersProofs.

(* ------------------------------------------------------------------------------------------------------------- *)
(* a point is handed out at most once over the whole run; while it is running it belongs to exactly one worker;
   a handed-out point is either still a running job of the manager or its sample is stored / loaded (so, by H-CAND,
   it can never be a free candidate again).  The scenario documented in CandidateManager::complete() (the point is no
   longer in the candidate list when it completes, so no status entry is set to done) is covered: the sample is in
   the store and is loaded before the next candidate list is requested. *)
Theorem c18_at_most_once : forall cfg L0 n0 s,
  reachable true cfg L0 n0 s ->
  NoDup (handed s) /\
  (forall p, In p (handed s) -> In p (rjobs (mgr s)) \/ In p (pts (store s)) \/ In p (pts (loaded s))) /\
  (forall id w, nth_error (ws s) id = Some w -> wactive w = true ->
     NoDup (wx w) /\ forall p, In p (wx w) -> In p (rjobs (mgr s)) /\ In p (handed s)) /\
  (forall i j wi wj, i <> j -> nth_error (ws s) i = Some wi -> nth_error (ws s) j = Some wj ->
     wactive wi = true -> wactive wj = true -> forall p, In p (wx wi) -> ~ In p (wx wj)).
Proof. exact at_most_once_stmt. Qed.

(* H-CAND is necessary: if the grid returned an already loaded sample as a candidate the algorithm evaluates it again
   (after a refresh every status is reset to free; only running_jobs are re-marked). *)
Theorem c18_at_most_once_needs_hcand :
  exists cfg L0 n0 s, reachable false cfg L0 n0 s /\ handed s = [1; 1].
Proof. exact needs_hcand_witness. Qed.

(* ------------------------------------------------------------------------------------------------------------- *)
(* budget: with the launch loop guarded by total_num_launched < max_num_points (the proposed repair) *)
Theorem c18_budget : forall hc cfg L0 n0 s,
  guarded cfg = true -> reachable hc cfg L0 n0 s -> launched s <= Nat.max (maxpts cfg) n0.
Proof. exact budget_guarded. Qed.

(* as coded (no test in the launch loop): only this weaker bound holds ... *)
Theorem c18_budget_as_coded_partial : forall hc cfg L0 n0 s,
  reachable hc cfg L0 n0 s -> launched s <= Nat.max (maxpts cfg) n0 + nj cfg * bsz cfg.
Proof. exact budget_as_coded. Qed.

(* ... and the documented budget is exceeded: 3 workers, budget 1 *)
Theorem c18_budget_as_coded_refuted :
  exists cfg L0 n0 s, guarded cfg = false /\ reachable true cfg L0 n0 s /\ Nat.max (maxpts cfg) n0 < launched s.
Proof. exact budget_refuted_witness. Qed.

(* ------------------------------------------------------------------------------------------------------------- *)
(* count_done = number of published flag_done of started workers that the main thread has not collected; inside the
   main thread's critical section it is 0 and every id below the cursor has been processed *)
Theorem c18_flag_count_sync : forall hc cfg L0 n0 s,
  reachable hc cfg L0 n0 s ->
  (lock_free s = true -> count_done s = count_flag_done (ws s)) /\
  (lock_free s = false -> count_done s = 0) /\
  (forall k id w, mpc s = MCollect k -> id < k -> nth_error (ws s) id = Some w -> wflag w <> FDone).
Proof. exact flag_count_sync. Qed.

(* every stored / loaded sample is the (point, value) pair of a model call made for that very point, and the pair
   list a worker exposes while its flag is done is what its own model call returned for its own x[id] *)
Theorem c18_values_at_right_point : forall hc cfg L0 n0 s,
  reachable hc cfg L0 n0 s ->
  (forall p v, In (p, v) (store s ++ loaded s) -> In (p, v) L0 \/ exists id, In (id, p, v) (calls s)) /\
  (forall id w, nth_error (ws s) id = Some w -> wpc w = WPost \/ wflag w = FDone ->
     length (wy w) = length (wx w) /\ forall p v, In (p, v) (combine (wx w) (wy w)) -> In (id, p, v) (calls s)).
Proof. exact values_stmt. Qed.

(* while worker [id] is inside the model call its flag is computing and no step of any thread other than its own
   return changes its record (flag, pc, x[id], y[id]): no second call with that id can start, the main thread does not
   hand it a new job; the std::thread for an id is created only for a worker that never ran *)
Theorem c18_no_same_id_concurrency : forall hc cfg L0 n0 s,
  reachable hc cfg L0 n0 s ->
  (forall id w, nth_error (ws s) id = Some w -> wpc w = WInModel ->
     wflag w = FComputing /\
     forall l s', step hc cfg s l = Some s' -> (exists vals, l = LWExit id vals) \/ nth_error (ws s') id = Some w) /\
  (forall k w, mpc s = MInit k -> nth_error (ws s) k = Some w -> wpc w = WIdle).
Proof. exact same_id_stmt. Qed.

(* deadlock freedom as an invariant: unless the run is over, some thread can take a step that is not a spurious
   wake-up (so progress never depends on spurious wake-ups).  Fair termination is NOT proved. *)
Theorem c18_no_stuck_state : forall hc cfg L0 n0 s,
  reachable hc cfg L0 n0 s -> final s = true \/ exists l, spurious l = false /\ step hc cfg s l <> None.
Proof. exact no_stuck_stmt. Qed.

(* no lost wake-up: a worker parked with a flag other than done has a notify_all pending; the main thread parked
   with count_done > 0 has a notify_one pending; running jobs imply a computing worker or a published result *)
Theorem c18_no_lost_wakeup : forall hc cfg L0 n0 s,
  reachable hc cfg L0 n0 s ->
  (forall id w, nth_error (ws s) id = Some w -> wpc w = WSleep -> wflag w <> FDone ->
     (exists k, mpc s = MCollect k) \/ mpc s = MNotify) /\
  (mpc s = MSleep -> 0 < count_done s -> exists id w, nth_error (ws s) id = Some w /\ wpc w = WNotify) /\
  (ninit cfg (mpc s) = nj cfg -> lock_free s = true -> 0 < nrun (mgr s) ->
     0 < count_done s \/ exists id w, nth_error (ws s) id = Some w /\ wflag w = FComputing).
Proof. exact no_lost_wakeup. Qed.

(* after the main loop every flag is shutdown; at exit every thread that was started has returned *)
Theorem c18_shutdown_all : forall hc cfg L0 n0 s,
  reachable hc cfg L0 n0 s ->
  (mpc s = MFlush \/ mpc s = MJoin \/ mpc s = MExit -> forall id w, nth_error (ws s) id = Some w -> wflag w = FShutdown) /\
  (mpc s = MExit -> forall id w, nth_error (ws s) id = Some w -> wpc w = WIdle \/ wpc w = WFinished).
Proof. exact shutdown_all. Qed.

(* loadNeededValues: every sample index is checked out at most once, only valid indices, and when the threads have
   returned (at least one thread) every index has been checked out: exactly once *)
Theorem c18_queue_exactly_once : forall n nt q,
  qreachable n nt q ->
  NoDup (map snd (qlog q)) /\ (forall i, In i (map snd (qlog q)) -> i < n) /\
  (0 < nt -> qfinished q = true -> forall i, i < n -> In i (map snd (qlog q))).
Proof. exact queue_stmt. Qed.

(* ------------------------------------------------------------------------------------------------------------- *)
(* non-vacuity: a complete run of 2 workers, budget 3, with a refresh, a sleeping main thread woken by notify_one,
   workers parked and woken by notify_all, reaching the final state *)
Definition cfg2 : config := mkCfg 2 1 3 true.
Definition trace_full : list label :=
  [LStart [1; 2; 3]; LInitJob; LInitJob; LInitEnd;
   LWEnter 0; LWEnter 1; LWExit 0 [10]; LWDone 0; LWNotify 0; LWLock 0; LMTest; LMLock;
   LMCollect true [2; 3] []; LMSkip; LMCsExit; LMNotifyAll; LWLock 0;
   LMTest; LMLock; LWExit 1 [20]; LWDone 1; LWNotify 1; LMLock; LMSkip; LMCollect true [] []; LMCsExit; LMNotifyAll;
   LWLock 1; LWEnter 0; LWExit 0 [30]; LWDone 0; LWNotify 0; LMTest; LMLock; LMCollect true [] []; LMSkip; LMCsExit;
   LWLock 0; LMNotifyAll; LMTest; LMFlush; LMJoin].

Example c18_trace_reaches_final :
  match run true cfg2 (init cfg2 [] 0) trace_full with
  | Some s => final s = true /\ handed s = [1; 2; 3] /\ launched s = 3 /\ loaded s = [(1, 10); (2, 20); (3, 30)] /\
              calls s = [(0, 1, 10); (1, 2, 20); (0, 3, 30)]
  | None => False
  end.
Proof. vm_compute. repeat split. Qed.

Example c18_final_state_reachable : exists s, reachable true cfg2 [] 0 s /\ final s = true.
Proof.
  destruct (run true cfg2 (init cfg2 [] 0) trace_full) as [s|] eqn:E; [|vm_compute in E; discriminate].
  exists s. split; [eapply run_reachable; [apply reach_init | exact E]|]. vm_compute in E. inversion E. reflexivity.
Qed.

(* the queue: 2 threads, 3 samples *)
Example c18_queue_trace :
  match qrun (qinit 3 2) [QLCheckout 0; QLCheckout 1; QLModel 1; QLCheckout 1; QLModel 0; QLCheckout 0; QLModel 1; QLCheckout 1] with
  | Some q => qfinished q = true /\ qlog q = [(0, 0); (1, 1); (1, 2)]
  | None => False
  end.
Proof. vm_compute. split; reflexivity. Qed.

Print Assumptions c18_at_most_once.
Print Assumptions c18_at_most_once_needs_hcand.
Print Assumptions c18_budget.
Print Assumptions c18_budget_as_coded_partial.
Print Assumptions c18_budget_as_coded_refuted.
Print Assumptions c18_flag_count_sync.
Print Assumptions c18_values_at_right_point.
Print Assumptions c18_no_same_id_concurrency.
Print Assumptions c18_no_stuck_state.
Print Assumptions c18_no_lost_wakeup.
Print Assumptions c18_shutdown_all.
Print Assumptions c18_queue_exactly_once.
