(* C04, the evaluation tree walk of Local Polynomial grids: closed statements about Model/TreeWalk.v
   (computeDAGDown, buildTree, evalBasisSupported, walkTree modes 0 and 1).

   For EVERY point set [pts] (no completeness assumption: holes after removePointsByHierarchicalCoefficient or a partial
   construction are allowed; the positions of the list are the point numbers), every dimension and every order:
   (a) the forest of buildTree contains every point exactly once and each of its edges is an edge of computeDAGDown (all five rules);
   (b) along such an edge the closed supports are nested (four binary rules);
   (c) hence the walk visits exactly the points whose basis is supported at x, each once, in depth-first order, the value it
       records is the dense basis value, evaluate (mode 0) equals the sum over ALL points and the sparse row equals the dense
       row entry by entry (four binary rules; hypotheses: multi-indexes non-negative, set non-empty).
   The order-0 rule pwc (ternary tree) is covered by (a) and by the bounded computations at the end, not by (b)/(c).
   No counterexample to (b) or (c) exists in exact arithmetic: the support test of evalSupport is closed (|xn| <= 1) at the kid
   and at the parent, and the kid's closed support is contained in the parent's. *)
From TV Require Import Common.Prelude Model.IndexSets Model.RuleLocal Model.Selection Model.LocalGrid Model.TreeWalk.
From TV Require Import Proofs.RuleLocalProofs Proofs.TreeWalkProofs.
From Coq Require Import QArith.

(* (a) buildTree: the recursion fuel of the model is never exhausted (the model is the unbounded depth-first loop), every point
   number 0..n-1 occurs exactly once in the forest (as a root or as exactly one tree kid), every parent -> kid pair of the
   forest is an entry of the kids table of computeDAGDown.  All five rules. *)
Theorem treewalk_forest_partition : forall (r : erule) (pts : list idx) (forest : list tree) (ok : bool),
  pts <> [] -> build_forest r pts = (forest, ok) ->
  ok = true /\ Forall (edge_tree (dag_down r pts)) forest /\ NoDup (flat_map nodes forest) /\
  (forall i : nat, In i (flat_map nodes forest) <-> (i < length pts)%nat).
Proof. exact build_forest_spec. Qed.
Print Assumptions treewalk_forest_partition.

(* what an entry c of the kids table of point q means: c is the position of the multi-index of q with ONE coordinate replaced by
   one of its 1-d kids (getKid <> -1), all other coordinates equal *)
Theorem treewalk_dag_edge_meaning : forall (r : erule) (pts : list idx) (q c : nat),
  In (Some c) (nth q (dag_down r pts) []) ->
  (q < length pts)%nat /\ (c < length pts)%nat /\
  exists (dir : nat) (k : Z), (dir < length (nth q pts []))%nat /\ In k (kid_numbers r) /\
     getKid r (nth dir (nth q pts []) 0%Z) k <> (-1)%Z /\
     nth c pts [] = set_nth (nth q pts []) dir (getKid r (nth dir (nth q pts []) 0%Z) k).
Proof. exact dag_edge_meaning. Qed.
Print Assumptions treewalk_dag_edge_meaning.

(* (b) one-dimensional support nesting: isSupported at a kid implies isSupported at the parent; every order, every point
   (including the special points 0..4, the level-zero boundary hats of localpb and the global quadratics of semi-localp) *)
Theorem treewalk_support_nesting_1d : forall (r : erule) (o p k : Z) (x : Q),
  binary_rule r -> (0 <= p)%Z -> (k = 0 \/ k = 1)%Z -> getKid r p k <> (-1)%Z ->
  snd (evalSupport r o (getKid r p k) x) = true -> snd (evalSupport r o p x) = true.
Proof. exact nest1d. Qed.
Print Assumptions treewalk_support_nesting_1d.

(* (b) the same along a DAG edge in any dimension *)
Theorem treewalk_support_nesting_edge : forall (r : erule) (o : Z) (pt : list Z) (dir : nat) (k : Z) (x : list Q),
  binary_rule r -> Forall (fun p => (0 <= p)%Z) pt -> (dir < length pt)%nat -> (k = 0 \/ k = 1)%Z ->
  getKid r (nth dir pt 0%Z) k <> (-1)%Z ->
  supp_all r o (set_nth pt dir (getKid r (nth dir pt 0%Z) k)) x = true -> supp_all r o pt x = true.
Proof. exact nest_edge. Qed.
Print Assumptions treewalk_support_nesting_edge.

(* evalBasisSupported: the flag is "every direction supported", the value is the product of evalRaw (= evalBasisRaw, the dense
   route) when supported, and the dense value of an unsupported point is zero *)
Theorem treewalk_basis_supported_meaning : forall (r : erule) (o : Z) (pt : idx) (x : list Q),
  snd (basis_supported r o pt x) = supp_all r o pt x /\
  (supp_all r o pt x = true -> (fst (basis_supported r o pt x) == basisQ r o pt x)%Q) /\
  (binary_rule r -> supp_all r o pt x = false -> (basisQ r o pt x == 0)%Q).
Proof. exact basis_supported_meaning. Qed.
Print Assumptions treewalk_basis_supported_meaning.

(* (c) MAIN: the walk records every point at most once, records exactly the points of the set that are supported at x, and
   records them in the depth-first order of the forest *)
Theorem treewalk_visits_exactly_supported : forall (r : erule) (o : Z) (pts : list idx) (x : list Q),
  binary_rule r -> nonneg_pts pts -> forall (forest : list tree) (ok : bool), pts <> [] -> build_forest r pts = (forest, ok) ->
  NoDup (map fst (walk r o pts forest x)) /\
  (forall i : nat, In i (map fst (walk r o pts forest x)) <-> (i < length pts)%nat /\ supp_all r o (nth i pts []) x = true) /\
  map fst (walk r o pts forest x) = filter (fun i => supp_all r o (nth i pts []) x) (flat_map nodes forest).
Proof. exact walk_exactly_supported. Qed.
Print Assumptions treewalk_visits_exactly_supported.

(* the value recorded for a visited point is its dense basis value *)
Theorem treewalk_values : forall (r : erule) (o : Z) (pts : list idx) (x : list Q),
  binary_rule r -> nonneg_pts pts -> forall (forest : list tree) (ok : bool), pts <> [] -> build_forest r pts = (forest, ok) ->
  forall (i : nat) (v : Q), In (i, v) (walk r o pts forest x) -> (v == basisQ r o (nth i pts []) x)%Q.
Proof. exact walk_values. Qed.
Print Assumptions treewalk_values.

(* the sparse row (walk output, zero where absent) equals the dense row on every entry *)
Theorem treewalk_sparse_eq_dense : forall (r : erule) (o : Z) (pts : list idx) (x : list Q),
  binary_rule r -> nonneg_pts pts -> forall (forest : list tree) (ok : bool), pts <> [] -> build_forest r pts = (forest, ok) ->
  forall i : nat, (i < length pts)%nat -> (sparse_entry (walk r o pts forest x) i == dense_entry r o pts x i)%Q.
Proof. exact sparse_eq_dense. Qed.
Print Assumptions treewalk_sparse_eq_dense.

(* evaluate through the walk (mode 0) = sum over ALL points of surplus times basis value, for any surpluses *)
Theorem treewalk_evaluate_eq_dense_sum : forall (r : erule) (o : Z) (pts : list idx) (x : list Q),
  binary_rule r -> nonneg_pts pts -> forall (forest : list tree) (ok : bool), pts <> [] -> build_forest r pts = (forest, ok) ->
  forall surp : nat -> Q, (eval_walk r o pts forest surp x == eval_full r o pts surp x)%Q.
Proof. exact eval_walk_eq_full. Qed.
Print Assumptions treewalk_evaluate_eq_dense_sum.

(* ---- non-vacuity and bounded computations (all five rules, including pwc) ---- *)
(* a set with holes: four roots; the forest in C++ (roots, pntr, indx) form *)
Example ex_forest_with_holes :
  forest_arrays 6 (fst (build_forest Localp [[0;0]; [0;3]; [1;0]; [3;0]; [4;1]; [5;1]]%Z))
  = ([0; 1; 4; 5]%nat, [0; 1; 1; 2; 2; 2; 2]%nat, [2; 3]%nat) /\ snd (build_forest Localp [[0;0]; [0;3]; [1;0]; [3;0]; [4;1]; [5;1]]%Z) = true.
Proof. vm_compute. split; reflexivity. Qed.
(* localpb: point (0,2) is a kid of both (0,0) and (0,1); the first visit (from (0,0)) takes it *)
Example ex_two_parents_first_visit :
  fst (build_forest Localpb [[0;0]; [0;1]; [0;2]; [1;2]; [2;0]; [3;2]]%Z) = [Node 0 [Node 4 []; Node 2 []]; Node 1 []; Node 3 []; Node 5 []].
Proof. vm_compute. reflexivity. Qed.
(* x on the closed boundary shared by a kid and its parent: both visited (value 0 at the kid) *)
Example ex_walk_on_boundary :
  map fst (walk Localp 1 [[0]; [1]; [3]; [5]]%Z (fst (build_forest Localp [[0]; [1]; [3]; [5]]%Z)) [(-1 # 2)%Q]) = [0; 1; 2; 3]%nat.
Proof. vm_compute. reflexivity. Qed.
(* 1-d nesting and "unsupported => value 0" on points 0..39, x = -1.25..1.25 step 1/32, all five rules *)
Example ex_nesting_bounded_all_rules :
  forallb (fun r => match tw_nest1 r 1, tw_nest1 r 3, tw_zero1 r 2 with [], [], [] => true | _, _, _ => false end) tw_rules = true.
Proof. vm_compute. reflexivity. Qed.
(* statement (c) decided by computation on complete 2-d grids and on grids with holes, 81 points x (nodes, support boundaries,
   outside the domain), all five rules *)
Example ex_walk_bounded_all_rules :
  forallb (fun r => forallb (tw_check r 1 (tw_grid r 2 9 3)) tw_xs2 && forallb (tw_check r 3 (tw_holes (tw_grid r 2 9 3))) tw_xs2
                    && forallb (tw_check r 2 (tw_holes (tw_holes (tw_grid r 2 17 4)))) tw_xs2) tw_rules = true.
Proof. vm_compute. reflexivity. Qed.
