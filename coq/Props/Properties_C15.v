(* C15 — DREAM sampling is memory-safe, stays in the domain and keeps consistent books.
   Only statements, each closed by [exact] of a lemma from Proofs/DreamProofs.v.
   The model (Model/Dream.v) follows DREAM/tsgDreamSample.hpp with line 449 REPAIRED
   (fixes/C15-kindex.diff; model parameter fixed = true); the line as found (fixed = false) is refuted
   below by [c15_indices_unfixed_refuted]. *)
From TV Require Import Common.Prelude Model.Dream Proofs.DreamProofs.
From Coq Require Import QArith Qround.
Local Close Scope Q_scope.

Section AnyArithmetic.
  (* ANY number type and operations (in particular IEEE binary64), ANY environment type W threaded through
     the impure callbacks (random numbers, differential update, independent update), ANY probability
     density and domain test, both forms *)
  Variables R W : Type.
  Variables (add sub mul div : R -> R -> R) (logf : R -> R) (ofnat : nat -> R) (trunc : R -> Z).
  Variables (gtb geb : R -> R -> bool) (is_zero : R -> bool) (logform : bool).
  Variable pdf : list R -> R.
  Variable inside : list R -> bool.
  Variables (rnd diff : W -> R * W) (upd : W -> list R -> list R * W).
  (* the repaired code *)
  Notation run := (run R W add sub mul div logf ofnat trunc gtb geb is_zero logform true pdf inside rnd diff upd).
  Notation step := (step R W add sub mul div logf ofnat trunc gtb geb is_zero logform true pdf inside rnd diff upd).
  Notation propose_all := (propose_all R W add sub mul ofnat trunc is_zero true inside rnd diff upd).
  Notation accept_all := (accept_all R W sub div logf gtb geb logform pdf inside rnd).
  Notation accept1 := (accept1 R W sub div logf gtb geb logform pdf inside rnd).
  Notation "'n_of' st" := (length (chains R st)) (at level 10).

  (* Never accesses chain data out of range.  Hypothesis: the conversion (size_t)(r * num_chains) of every
     random draw r lies in [0, num_chains] (true for r in [0,1]: c15_floor_meets_hypothesis over Q; for
     binary64 by monotonicity of rounding).  Then all three chain indices handed to getIJKdelta are
     < num_chains (and the raw values are in the range where the conversion is defined). *)
  Theorem c15_indices_in_range : forall nb nc st w, wf R st ->
    (forall w, (0 <= trunc (mul (fst (rnd w)) (ofnat (n_of st))) <= Z.of_nat (n_of st))%Z) ->
    forall i jraw kraw j k, In (EvGet i jraw kraw j k) (snd (run nb nc st w)) ->
      i < n_of st /\ j < n_of st /\ k < n_of st /\
      (0 <= jraw <= Z.of_nat (n_of st))%Z /\ (0 <= kraw <= Z.of_nat (n_of st))%Z.
  Proof. exact (fun nb nc st w => run_indices_in_range R W add sub mul div logf ofnat trunc gtb geb is_zero logform true pdf inside rnd diff upd nb nc st w eq_refl). Qed.

  (* Every batched call of the probability density is non-empty, returns the point-wise values, and is
     made on in-domain proposals only -- except the one call of setPDFvalues() on the whole initial state. *)
  Theorem c15_pdf_only_inside : forall nb nc st w, wf R st ->
    (forall w, (0 <= trunc (mul (fst (rnd w)) (ofnat (n_of st))) <= Z.of_nat (n_of st))%Z) ->
    forall cands vals, In (EvPdf cands vals) (snd (run nb nc st w)) ->
      cands <> [] /\ vals = map pdf cands /\ (Forall (fun x => inside x = true) cands \/ cands = chains R st).
  Proof. exact (fun nb nc st w => run_pdf_batches R W add sub mul div logf ofnat trunc gtb geb is_zero logform true pdf inside rnd diff upd nb nc st w eq_refl). Qed.

  (* Given an initial state inside the domain, every recorded sample (and every chain) is inside. *)
  Theorem c15_history_in_domain : forall nb nc st w, wf R st ->
    Forall (fun x => inside x = true) (chains R st) ->
    let st' := fst (fst (run nb nc st w)) in
    Forall (fun x => inside x = true) (chains R st') /\
    exists new, hist R st' = hist R st ++ new /\ Forall (fun x => inside x = true) new.
  Proof. exact (run_history_in_domain R W add sub mul div logf ofnat trunc gtb geb is_zero logform true pdf inside rnd diff upd). Qed.

  (* Exactly max(num_collect,0) x chains samples and as many probability values are appended (for every
     num_burnup, num_collect, negative ones included); the number of chains never changes. *)
  Theorem c15_history_count : forall nb nc st w, wf R st ->
    let st' := fst (fst (run nb nc st w)) in
    n_of st' = n_of st /\ wf R st' /\
    length (hist R st') = length (hist R st) + Z.to_nat (Z.max nc 0) * n_of st /\
    length (pdfh R st') = length (pdfh R st) + Z.to_nat (Z.max nc 0) * n_of st.
  Proof. exact (run_history_count R W add sub mul div logf ofnat trunc gtb geb is_zero logform true pdf inside rnd diff upd). Qed.

  (* ... in scalars: num_collect x chains x dimensions, when the independent update does not resize *)
  Theorem c15_history_flat_count : forall d, (forall w x, length (fst (upd w x)) = length x) ->
    forall nb nc st w, wf R st -> Forall (fun c => length c = d) (chains R st) ->
    let st' := fst (fst (run nb nc st w)) in
    Forall (fun c => length c = d) (chains R st') /\
    length (concat (hist R st')) = length (concat (hist R st)) + Z.to_nat (Z.max nc 0) * n_of st * d.
  Proof. exact (fun d => run_flat_count R W add sub mul div logf ofnat trunc gtb geb is_zero logform true pdf inside rnd diff upd d eq_refl). Qed.

  (* The recorded probability values are the density at the recorded samples, and the cache is coherent
     (pdf_values[i] = pdf(state[i])) on return -- provided it was coherent or uninitialised on entry. *)
  Theorem c15_pdf_consistent : forall nb nc st w, wf R st ->
    (pdf_ready R st = true -> pdfv R st = map pdf (chains R st)) ->
    let st' := fst (fst (run nb nc st w)) in
    (chains R st <> [] -> pdfv R st' = map pdf (chains R st') /\ pdf_ready R st' = true) /\
    exists new, hist R st' = hist R st ++ new /\ pdfh R st' = pdfh R st ++ map pdf new.
  Proof. exact (run_pdf_consistent R W add sub mul div logf ofnat trunc gtb geb is_zero logform true pdf inside rnd diff upd). Qed.

  (* The accept rule: one iteration (batched evaluation, two running iterators) computes exactly the
     point-wise rule [accept_all] on the proposals: new chains, new cached values, number of accepted
     proposals and the consumption of the random stream. *)
  Theorem c15_accept_rule : forall st w,
    let '(ps, w1, _) := propose_all (chains R st) (n_of st) (seq 0 (n_of st)) w in
    let '(st', k, w2, _) := step st w in
    (chains R st', pdfv R st', k, w2) = accept_all (map fst ps) (chains R st) (pdfv R st) w1.
  Proof. exact (step_accept R W add sub mul div logf ofnat trunc gtb geb is_zero logform true pdf inside rnd diff upd). Qed.

  (* ... and the point-wise rule says: the chain moves to its proposal exactly when the proposal is inside
     the domain and its probability exceeds the current one or the ratio (difference in log form) is at
     least the uniform draw; otherwise it keeps its state and its cached value; the uniform number is
     drawn exactly when the proposal is inside and not better. *)
  Theorem c15_accept_rule_chain : forall p old cur w,
    let '(new, newp, moved, w') := accept1 p old cur w in
    (moved = true <->
       inside p = true /\
       (gtb (pdf p) cur = true \/
        (if logform then geb (sub (pdf p) cur) (logf (fst (rnd w))) else geb (div (pdf p) cur) (fst (rnd w))) = true)) /\
    (moved = true -> new = p /\ newp = pdf p) /\
    (moved = false -> new = old /\ newp = cur) /\
    w' = (if inside p then if gtb (pdf p) cur then w else snd (rnd w) else w).
  Proof. exact (accept1_rule R W sub div logf gtb geb logform pdf inside rnd). Qed.

  (* Two consecutive runs equal one run of the combined length: same state (chains, cached values,
     history, pdf history, acceptance counter), same environment (position in the random stream), and the
     callback sequence of the single run is the concatenation of the two. *)
  Theorem c15_split_runs : forall nb c1 c2 st w, wf R st -> (0 <= c1)%Z -> (0 <= c2)%Z ->
    run nb (c1 + c2) st w =
    let '(st1, w1, e1) := run nb c1 st w in
    let '(st2, w2, e2) := run 0 c2 st1 w1 in (st2, w2, e1 ++ e2).
  Proof. exact (run_split R W add sub mul div logf ofnat trunc gtb geb is_zero logform true pdf inside rnd diff upd). Qed.

  (* ---- histories of runs AND edits on one state object ----
     ops: SampleDREAM runs interleaved with every public operation of TasmanianDREAM that changes the chain
     state or the caches: setState (vector and callback overloads: the cache is marked invalid and the next
     run re-evaluates it), setPDFvalues(vector) (the user asserts the values), setPDFvalues(pdf),
     clearPDFvalues, clearHistory, expandHistory. *)
  Notation run_ops := (run_ops R W add sub mul div logf ofnat trunc gtb geb is_zero logform true pdf inside rnd diff upd).
  Notation coherent := (coherent R pdf).
  Notation honest_ops := (honest_ops R W add sub mul div logf ofnat trunc gtb geb is_zero logform true pdf inside rnd diff upd).
  Notation edits_inside := (edits_inside R W add sub mul div logf ofnat trunc gtb geb is_zero logform true pdf inside rnd diff upd).

  (* The books stay coherent over every history: one cached value per chain, a cache marked valid holds the
     density at the chains, every recorded probability is the density at the recorded sample -- provided each
     setPDFvalues(vector) asserts the true values at the state it is applied to (honest_ops). *)
  Theorem c15_history_coherent : forall ops st w, coherent st -> honest_ops ops st w ->
    coherent (fst (fst (run_ops ops st w))).
  Proof. exact (run_ops_coherent R W add sub mul div logf ofnat trunc gtb geb is_zero logform true pdf inside rnd diff upd). Qed.

  (* ... in particular unconditionally for histories without setPDFvalues(vector) *)
  Theorem c15_history_coherent_no_assert : forall ops st w, coherent st -> Forall (no_assert R) ops ->
    coherent (fst (fst (run_ops ops st w))).
  Proof. exact (run_ops_coherent_no_assert R W add sub mul div logf ofnat trunc gtb geb is_zero logform true pdf inside rnd diff upd). Qed.

  (* Every chain and every recorded sample stays inside the domain over every history whose setState edits put
     the chains inside. *)
  Theorem c15_history_in_domain_ops : forall ops st w, indom R inside st -> edits_inside ops st w ->
    indom R inside (fst (fst (run_ops ops st w))).
  Proof. exact (run_ops_indom R W add sub mul div logf ofnat trunc gtb geb is_zero logform true pdf inside rnd diff upd). Qed.

  (* What each edit does to the cache flag, and what the next run does about it: after an invalidating edit
     the first callback of the next run is the batched pdf of the whole (new) state. *)
  Theorem c15_edits_invalidate : forall st,
    (forall cs, same_shape R st cs = true -> pdf_ready R (set_state R cs st) = false /\ chains R (set_state R cs st) = cs) /\
    (forall cs, same_shape R st cs = false -> set_state R cs st = st) /\
    (forall f, pdf_ready R (set_state_fn R f st) = false /\ chains R (set_state_fn R f st) = mapi R f 0 (chains R st)) /\
    pdf_ready R (clear_pdf R st) = false /\
    (forall vs, length vs = length (chains R st) -> pdf_ready R (set_pdf_values R vs st) = true /\ pdfv R (set_pdf_values R vs st) = vs) /\
    pdf_ready R (clear_hist R st) = pdf_ready R st /\ hist R (clear_hist R st) = [] /\ pdfh R (clear_hist R st) = [] /\ acc R (clear_hist R st) = 0.
  Proof. exact (edits_invalidate R). Qed.

  Theorem c15_run_reevaluates_invalid_cache : forall nb nc st w, chains R st <> [] -> pdf_ready R st = false ->
    exists e, snd (run nb nc st w) = EvPdf (chains R st) (map pdf (chains R st)) :: e.
  Proof. exact (run_after_invalidation R W add sub mul div logf ofnat trunc gtb geb is_zero logform true pdf inside rnd diff upd). Qed.
End AnyArithmetic.

(* ---- exact rationals ---- *)
(* the hypothesis of c15_indices_in_range holds for trunc = floor when the generator returns values in [0,1] *)
Theorem c15_floor_meets_hypothesis : forall (r : Q) (n : nat), (0 <= r)%Q -> (r <= 1)%Q ->
  (0 <= Qfloor (r * inject_Z (Z.of_nat n)) <= Z.of_nat n)%Z.
Proof. exact floor_index_range. Qed.

(* the accept rule as order statements over Q *)
Theorem c15_accept_rule_Q : forall (W : Type) (logf : Q -> Q) (logform : bool) (pdf : list Q -> Q)
    (inside : list Q -> bool) (rnd : W -> Q * W) p old cur w,
  let '(new, newp, moved, _) := accept1 Q W Qminus Qdiv logf qgtb qgeb logform pdf inside rnd p old cur w in
  (moved = true <->
     inside p = true /\
     ((cur < pdf p)%Q \/
      (if logform then (logf (fst (rnd w)) <= pdf p - cur)%Q else (fst (rnd w) <= pdf p / cur)%Q))) /\
  (moved = true -> new = p /\ newp = pdf p) /\ (moved = false -> new = old /\ newp = cur).
Proof. exact accept1_rule_Q. Qed.

(* ---- a concrete instance over Q: W = position in a scripted stream ---- *)
Definition ex_stream (l : list Q) (w : nat) : Q * nat := (nth w l (1 # 2)%Q, S w).
Definition ex_pdf (x : list Q) : Q := match x with [a] => (1 / (1 + a * a))%Q | _ => 1%Q end.
Definition ex_inside (x : list Q) : bool := match x with [a] => qgeb a 0 && qgeb 4 a | _ => false end.
Definition ex_run (fixed : bool) (stream : list Q) (nb nc : Z) (st : dstate Q) (w : nat) :=
  run Q nat Qplus Qminus Qmult Qdiv (fun x => x) (fun n => inject_Z (Z.of_nat n)) Qfloor qgtb qgeb qzero
      false fixed ex_pdf ex_inside (ex_stream stream) (fun w => (1%Q, w)) (fun w x => (x, w)) nb nc st w.
Definition ex_st0 : dstate Q := mkds [[1%Q]; [2%Q]; [3%Q]] [] false [] [] 0.

(* The code as found (line 449 assigns jindex): with the admissible draw r = 1 for k (3 chains, draws 1/2
   then 1 for chain 0), getIJKdelta(0, 2, 3, ..) is called: jindex was overwritten by num_chains - 1 = 2 and
   kindex = num_chains = 3 is out of range.  The hypotheses of c15_indices_in_range hold (all draws are
   in [0,1], trunc = floor), only [fixed] differs. *)
Theorem c15_indices_unfixed_refuted :
  (forall w, 0 <= fst (ex_stream [(1 # 2); 1] w) /\ fst (ex_stream [(1 # 2); 1] w) <= 1)%Q /\
  In (EvGet 0 1 3 2 3) (snd (ex_run false [(1 # 2); 1]%Q 0 1 ex_st0 0)) /\
  length (chains Q ex_st0) = 3.
Proof.
  split; [|split; [vm_compute; tauto|reflexivity]].
  intros w. unfold ex_stream. cbn [fst].
  destruct w as [|[|w]]; cbn; [split; discriminate ..|].
  destruct w; cbn; split; discriminate.
Qed.

(* ... whereas the repaired code clamps it *)
Example c15_example_fixed_clamps :
  In (EvGet 0 1 3 1 2) (snd (ex_run true [(1 # 2); 1]%Q 0 1 ex_st0 0)).
Proof. vm_compute. tauto. Qed.

(* Non-vacuity: a run with burn-up 1 and 2 collected iterations on 3 chains appends 6 samples; both
   outcomes of the accept rule occur (acceptance counter strictly between 0 and 6), the split identity is
   exercised with non-empty halves, proposals leave the domain. *)
Definition ex_s : list Q := [(1#4); (3#4); (9#10); 0; (1#2); (1#10); 1; (1#3); (99#100); (2#3); (1#5); (4#5)]%Q.
Example c15_example_nonvacuous :
  let r := ex_run true ex_s 1 2 ex_st0 0 in
  length (hist Q (fst (fst r))) = 6 /\ length (pdfh Q (fst (fst r))) = 6 /\
  0 < acc Q (fst (fst r)) < 6 /\
  existsb (fun e => match e with EvInside _ false => true | _ => false end) (snd r) = true /\
  (let '(st1, w1, e1) := ex_run true ex_s 1 1 ex_st0 0 in
   let '(st2, w2, e2) := ex_run true ex_s 0 1 st1 w1 in
   e1 <> [] /\ e2 <> [] /\ r = (st2, w2, e1 ++ e2)).
Proof. vm_compute. repeat split; try reflexivity; try lia; discriminate. Qed.

(* The hypothesis of c15_history_coherent is needed: a state whose cache is stale but still marked valid (what a
   setState that forgets `init_values = false` produces: chains moved to 3 and 7/2, cached values those of the
   chains 1 and 2) makes the next run record probabilities that are not the density at the recorded samples. *)
Example c15_example_stale_cache_breaks_books :
  let stale := mkds [[3%Q]; [(7 # 2)%Q]] [ex_pdf [1%Q]; ex_pdf [2%Q]] true [] [] 0 in
  let st' := fst (fst (ex_run true ex_s 0 1 stale 0)) in
  pdfh Q st' <> map ex_pdf (hist Q st') /\
  (* whereas after the faithful edit (cache invalid) the books are right *)
  (let st2 := fst (fst (ex_run true ex_s 0 1 (set_state_fn Q (fun _ _ => [3%Q]) (fst (fst (ex_run true ex_s 0 1 ex_st0 0)))) 0)) in
   pdfh Q st2 = map ex_pdf (hist Q st2) /\ length (hist Q st2) = 6).
Proof. vm_compute. split; [discriminate|split; reflexivity]. Qed.

Print Assumptions c15_indices_in_range.
Print Assumptions c15_pdf_only_inside.
Print Assumptions c15_history_in_domain.
Print Assumptions c15_history_count.
Print Assumptions c15_history_flat_count.
Print Assumptions c15_pdf_consistent.
Print Assumptions c15_accept_rule.
Print Assumptions c15_accept_rule_chain.
Print Assumptions c15_split_runs.
Print Assumptions c15_history_coherent.
Print Assumptions c15_history_coherent_no_assert.
Print Assumptions c15_history_in_domain_ops.
Print Assumptions c15_edits_invalidate.
Print Assumptions c15_run_reevaluates_invalid_cache.
Print Assumptions c15_floor_meets_hypothesis.
Print Assumptions c15_accept_rule_Q.
Print Assumptions c15_indices_unfixed_refuted.
