(* Exactness — the exactness TABLES of the one-dimensional rules (OneDimensionalMeta::getNumPoints / getIExact / getQExact of
   SparseGrids/tsgCoreOneDimensional.cpp), REGENERATED from the current source (gen/ExactnessGen.v by translator/exactness.py, rebuilt
   on every run), are what the library uses as the function m(level) of the combination technique (createPolynomialSpace /
   selectTensors with the ip / qp types).  For EVERY level l >= 0 and the 36 rules of `onedrule` (every enumerator of TypeOneDRule
   that the three switches mention; rule_none, rule_customtabulated, the local polynomial rules and rule_wavelet are outside).
   Integers are unbounded: overflow of int (levels beyond ~30 of the exponential rules) is not modelled.
   Statements only; proofs are in Proofs/ExactnessProofs.v. *)
From TV Require Import Common.Prelude gen.ExactnessGen Proofs.CombinationProofs Proofs.SparseInterpExact Proofs.SparseQuadExact
                       Proofs.ExactnessProofs.
From Coq Require Import QArith Qcanon.
Local Open Scope Z_scope.

(* ---- (a) the number of points: positive (at least level + 1) and strictly increasing ---- *)
Theorem exact_numPoints_pos : forall r l, 0 <= l -> 0 < g_numPoints r l.
Proof. exact numPoints_pos. Qed.
Theorem exact_numPoints_ge_level : forall r l, 0 <= l -> l + 1 <= g_numPoints r l.
Proof. exact numPoints_ge. Qed.
Theorem exact_numPoints_mono : forall r l, 0 <= l -> g_numPoints r l < g_numPoints r (l + 1).
Proof. exact numPoints_mono. Qed.

(* ---- (b) both exactness tables are monotone in the level, for every rule and level, no exception: hypothesis m_mono ---- *)
Theorem exact_iexact_mono : forall r l, 0 <= l -> g_iExact r l <= g_iExact r (l + 1).
Proof. exact iexact_mono. Qed.
Theorem exact_qexact_mono : forall r l, 0 <= l -> g_qExact r l <= g_qExact r (l + 1).
Proof. exact qexact_mono. Qed.
Theorem exact_iexact_strict : forall r l, 0 <= l -> g_iExact r l < g_iExact r (l + 1).
Proof. exact iexact_strict. Qed.
Theorem exact_tables_nonneg : forall r l, 0 <= l -> 0 <= g_iExact r l /\ 0 <= g_qExact r l.
Proof. exact tables_nonneg. Qed.

(* ---- (c) getIExact against n - 1 (interpolation at n distinct nodes reproduces degree n - 1 and nothing more in general) ---- *)
Theorem exact_iexact_vs_points : forall r l, r <> rule_clenshawcurtis0 -> 0 <= l -> g_iExact r l <= g_numPoints r l - 1.
Proof. exact iexact_vs_points. Qed.
(* rule_clenshawcurtis0: n = 2^(l+1) - 1 nodes, listed degree 2^(l+1) + 1 = (n - 1) + 3 at EVERY level.  The rule interpolates in
   (1 - x^2) * P_{n-1} (functions that vanish at -1 and +1), largest degree (n - 1) + 2: the table lists one degree more than that
   (finding iexact-overstated-by-one:clenshaw-curtis-zero of C03). *)
Theorem exact_iexact_vs_points_refuted : forall l, 0 <= l ->
  g_iExact rule_clenshawcurtis0 l = (g_numPoints rule_clenshawcurtis0 l - 1) + 3 /\
  g_iExact rule_clenshawcurtis0 l = ((g_numPoints rule_clenshawcurtis0 l - 1) + 2) + 1.
Proof. exact iexact_vs_points_refuted. Qed.
Theorem exact_cc0_tables : forall l, 0 <= l ->
  g_numPoints rule_clenshawcurtis0 l = 2 ^ (l + 1) - 1 /\ g_iExact rule_clenshawcurtis0 l = 2 ^ (l + 1) + 1.
Proof. exact cc0_tables. Qed.
(* rule_fourier: 3^l nodes; the tables count trigonometric degree k, and the 2 k + 1 exponentials of frequency |j| <= k are exactly as
   many as the nodes; interpolation and quadrature tables coincide *)
Theorem exact_fourier_tables : forall l, 0 <= l ->
  g_numPoints rule_fourier l = 3 ^ l /\ 2 * g_iExact rule_fourier l + 1 = g_numPoints rule_fourier l /\
  g_qExact rule_fourier l = g_iExact rule_fourier l.
Proof. exact fourier_tables. Qed.
(* the rules whose interpolation table is n - 1 at every level: all but rule_clenshawcurtis0 and rule_fourier *)
Theorem exact_interp_tight_correct : forall r,
  is_interp_tight r = true <-> (forall l, 0 <= l -> g_iExact r l = g_numPoints r l - 1).
Proof. exact interp_tight_correct. Qed.
Theorem exact_interp_tight_list :
  filter (fun r => negb (is_interp_tight r)) all_rules = [rule_clenshawcurtis0; rule_fourier].
Proof. exact interp_tight_list. Qed.

(* ---- (d) getQExact against 2 n - 1 (no quadrature with n nodes is exact beyond): every rule, every level, nothing refuted ---- *)
Theorem exact_qexact_vs_points : forall r l, 0 <= l -> g_qExact r l <= 2 * g_numPoints r l - 1.
Proof. exact qexact_vs_points. Qed.
(* the bound is attained at every level exactly by the 14 Gauss rules *)
Theorem exact_gauss_tight_correct : forall r,
  is_gauss_tight r = true <-> (forall l, 0 <= l -> g_qExact r l = 2 * g_numPoints r l - 1).
Proof. exact gauss_tight_correct. Qed.

(* beyond the Gauss rules, Gauss-Patterson and rule_clenshawcurtis0 no entry exceeds what an interpolatory rule with n nodes can
   deliver: degree n - 1, and n when the number of nodes is odd (symmetric nodes) - this fixes the parity in rule_chebyshev *)
Theorem exact_qexact_interpolatory : forall r l, is_beyond_interpolatory r = false -> 0 <= l ->
  g_qExact r l <= g_numPoints r l - 1 + Z.rem (g_numPoints r l) 2.
Proof. exact qexact_interpolatory. Qed.
Theorem exact_qexact_cc0 : forall l, 1 <= l -> g_qExact rule_clenshawcurtis0 l = g_numPoints rule_clenshawcurtis0 l + 2.
Proof. exact qexact_cc0. Qed.

(* ---- (e) the premises of the combination theorems for m := the table (levels as nat) ---- *)
(* m_mono of comb_exact / sparse_interpolation_exact, for the ip types *)
Theorem exact_inst_m_mono : forall r l, (table_m r l <= table_m r (S l))%nat.
Proof. exact inst_m_mono. Qed.
(* m_mono for the qp types *)
Theorem exact_inst_qm_mono : forall r l, (table_qm r l <= table_qm r (S l))%nat.
Proof. exact inst_qm_mono. Qed.
(* nodes_len of sparse_interpolation_exact when the node lists have getNumPoints entries *)
Theorem exact_inst_nodes_len : forall r, is_interp_tight r = true -> forall l, table_n r l = S (table_m r l).
Proof. exact inst_nodes_len. Qed.
(* every rule but rule_clenshawcurtis0: declared degree + 1 <= number of nodes *)
Theorem exact_inst_m_le_nodes : forall r, r <> rule_clenshawcurtis0 -> forall l, (S (table_m r l) <= table_n r l)%nat.
Proof. exact inst_m_le_nodes. Qed.
(* the sparse interpolation theorem with the library's table as m: pairwise distinct nodes, getNumPoints of them per level *)
Theorem exact_sparse_interpolation_table : forall (r : onedrule) (nodes : nat -> nat -> list Qc) (x : nat -> Qc),
  is_interp_tight r = true -> (forall j l, NoDup (nodes j l)) -> (forall j l, length (nodes j l) = table_n r l) ->
  forall d Theta, NoDup Theta -> (forall t, In t Theta -> length t = d) -> lower Theta ->
  forall k s, In s Theta -> length k = d -> Forall2 (fun kj sj => (kj <= table_m r sj)%nat) k s ->
    sumf Qc (Q2Qc 0) Qcplus Theta (fun t => dprod Qc (Q2Qc 1) Qcmult Qcminus (interp_u nodes x) 0 t k)
    = iprod Qc (Q2Qc 1) Qcmult (interp_I x) 0 k.
Proof. exact sparse_interpolation_exact_table. Qed.
(* and the interpolatory sparse quadrature theorem *)
Theorem exact_sparse_quadrature_table : forall (r : onedrule) (nodes : nat -> nat -> list Qc) (mu : nat -> nat -> Qc),
  is_interp_tight r = true -> (forall j l, NoDup (nodes j l)) -> (forall j l, length (nodes j l) = table_n r l) ->
  forall d Theta, NoDup Theta -> (forall t, In t Theta -> length t = d) -> lower Theta ->
  forall k s, In s Theta -> length k = d -> Forall2 (fun kj sj => (kj <= table_m r sj)%nat) k s ->
    sumf Qc (Q2Qc 0) Qcplus Theta (fun t => dprod Qc (Q2Qc 1) Qcmult Qcminus (quad_u nodes mu) 0 t k)
    = iprod Qc (Q2Qc 1) Qcmult (quad_I mu) 0 k.
Proof. exact sparse_interp_quadrature_exact_table. Qed.

(* non-vacuity: the generated functions compute (values of the compiled library) *)
Example exact_ex_cc : map (g_numPoints rule_clenshawcurtis) [0; 1; 2; 3; 4] = [1; 3; 5; 9; 17]
                      /\ map (g_iExact rule_clenshawcurtis) [0; 1; 2; 3] = [0; 2; 4; 8] /\ map (g_qExact rule_clenshawcurtis) [0; 1; 2; 3] = [1; 3; 5; 9].
Proof. vm_compute. auto. Qed.
Example exact_ex_double : map (g_numPoints rule_rlejadouble2) [0; 1; 2; 3; 4; 5; 6; 7] = [1; 3; 5; 7; 9; 13; 17; 25]
                          /\ map (g_numPoints rule_rlejadouble4) [0; 1; 2; 3; 4; 5; 6; 7; 8] = [1; 3; 5; 6; 7; 8; 9; 11; 13].
Proof. vm_compute. auto. Qed.
Example exact_ex_misc : (g_qExact rule_gausspatterson 3, g_qExact rule_chebyshev 4, g_qExact rule_chebyshev 5, g_qExact rule_leja 2, g_iExact rule_fourier 3,
                         g_iExact rule_clenshawcurtis0 2, g_numPoints rule_clenshawcurtis0 2) = (23, 5, 5, 3, 13, 9, 7).
Proof. vm_compute. reflexivity. Qed.
Example exact_ex_table_m : map (table_m rule_clenshawcurtis) [0; 1; 2; 3]%nat = [0; 2; 4; 8]%nat /\ map (table_n rule_clenshawcurtis) [0; 1; 2; 3]%nat = [1; 3; 5; 9]%nat.
Proof. vm_compute. auto. Qed.

Print Assumptions exact_numPoints_pos.
Print Assumptions exact_numPoints_ge_level.
Print Assumptions exact_numPoints_mono.
Print Assumptions exact_iexact_mono.
Print Assumptions exact_qexact_mono.
Print Assumptions exact_iexact_strict.
Print Assumptions exact_tables_nonneg.
Print Assumptions exact_iexact_vs_points.
Print Assumptions exact_iexact_vs_points_refuted.
Print Assumptions exact_cc0_tables.
Print Assumptions exact_fourier_tables.
Print Assumptions exact_interp_tight_correct.
Print Assumptions exact_interp_tight_list.
Print Assumptions exact_qexact_vs_points.
Print Assumptions exact_gauss_tight_correct.
Print Assumptions exact_qexact_interpolatory.
Print Assumptions exact_qexact_cc0.
Print Assumptions exact_inst_m_mono.
Print Assumptions exact_inst_qm_mono.
Print Assumptions exact_inst_nodes_len.
Print Assumptions exact_inst_m_le_nodes.
Print Assumptions exact_sparse_interpolation_table.
Print Assumptions exact_sparse_quadrature_table.
