(* C13 — results do not depend on the number of OpenMP threads.
   Statements only; proofs are in Proofs/OmpPatternsProofs.v (and Proofs/IndexSetsProofs.v for the sorted-set algebra).
   gen/OmpSites.v is REGENERATED from the source on every run (translator/ompsites.py): every `#pragma omp` of SparseGrids/,
   DREAM/ and Addons/ with the pattern class its (syntactic, trusted) matcher assigns; a site that matches no rule makes
   c13_sites_classified fail.

   One theorem per pattern class; each says that the result of the parallel pattern is the result of the sequential
   loop for EVERY execution order (and every partition of the iterations into per-thread chunks where the pattern
   has per-thread partial results).  Values are of an arbitrary type V, so the theorems hold for IEEE doubles: no class
   re-associates a floating-point sum (an iteration's own arithmetic is sequential).  What the theorems do NOT cover:
   the assignment of a source region to a class; OpenMP-only code paths (`#ifdef _OPENMP`) that compute the same
   quantity by a different route than the serial build (equal only up to rounding — compared at run time with a
   tolerance); the C++ memory model (iterations are modelled as atomic jobs; independent jobs share no written slot). *)
From TV Require Import Common.Prelude Model.IndexSets Proofs.IndexSetsProofs Model.OmpPatterns Proofs.OmpPatternsProofs gen.OmpSites.
From Coq Require Import Permutation.

(* per-thread candidate lists appended under `critical` in any order and partition, then the sorting constructor:
   equals the set built from the sequential list (repeatAddIndexes, completeSetToLower, selectFlaggedChildren,
   getRefinementCanidates of Local Polynomial and Wavelet grids) *)
Theorem c13_collect_sort : forall d (seql : list idx) (parts : list (list idx)),
  wf d seql -> Forall (wf d) parts -> (forall x, In x (concat parts) <-> In x seql) ->
  sort_unique (concat parts) = sort_unique seql.
Proof. exact collect_sort. Qed.

(* GENERAL: jobs that pairwise neither write a slot the other reads or writes give the same memory in every order *)
Theorem c13_independent_jobs_any_order : forall (V : Type) (l l' : list (job V)), Permutation l l' ->
  Forall job_ok l -> pairwise_indep l -> forall s, eqm (run_jobs l s) (run_jobs l' s).
Proof. exact jobs_any_order. Qed.

(* a loop whose iteration i writes only the slot it owns (slot injective on the iteration range) from loop-invariant
   data: every execution order gives the memory of the sequential loop, which holds f i in the slot of i (it IS map f) *)
Theorem c13_parfor_disjoint : forall (V : Type) (slot : nat -> nat) (f : nat -> V) (n : nat) (order : list nat) (s : mem V),
  NoDup (map slot (seq 0 n)) -> Permutation order (seq 0 n) ->
  eqm (run_jobs (map (parfor_job slot f) order) s) (run_jobs (map (parfor_job slot f) (seq 0 n)) s) /\
  forall k, run_jobs (map (parfor_job slot f) (seq 0 n)) s k =
            match find (fun i => Nat.eqb (slot i) k) (seq 0 n) with Some i => f i | None => s k end.
Proof.
  intros V slot f n order s Hinj P. split; [apply parfor_any_order; assumption|]. intros k. apply parfor_sequential. exact Hinj.
Qed.

(* updates inside ONE hierarchical level read only strictly lower levels: every order inside the level gives the
   sequential result, in which every point of the level holds the update computed from the memory before the sweep *)
Theorem c13_level_sweep : forall (V : Type) (lev : nat -> nat) (g : nat -> mem V -> V) (L : nat) (pts order : list nat) (s : mem V),
  NoDup pts -> (forall i, In i pts -> lev i = L) ->
  (forall i s t, (forall k, lev k < lev i -> s k = t k) -> g i s = g i t) ->
  Permutation order pts ->
  eqm (run_jobs (map (sweep_job lev g) order) s) (run_jobs (map (sweep_job lev g) pts) s) /\
  forall k, run_jobs (map (sweep_job lev g) pts) s k = if in_dec Nat.eq_dec k pts then g k s else s k.
Proof.
  intros V lev g L pts order s Hn HL Hg P. split; [eapply level_sweep_any_order; eauto|].
  intros k. apply (level_sweep_result V lev g L pts Hg s s Hn HL). reflexivity.
Qed.

(* the jobs of resortIndexes (Kronecker surpluses, tensor weights, 1-D FFTs) own pairwise disjoint lines and touch only
   their line: any order gives the sequential result *)
Theorem c13_lines_independent : forall (V : Type) (lh order : list (list nat * (mem V -> mem V))) (s : mem V),
  pairwise_disjoint (map fst lh) -> Forall (fun p => job_ok (line_job (fst p) (snd p))) lh -> Permutation order lh ->
  eqm (run_jobs (map (fun p => line_job (fst p) (snd p)) order) s) (run_jobs (map (fun p => line_job (fst p) (snd p)) lh) s).
Proof. exact lines_any_order. Qed.

(* per-thread maxima over ANY partition of the iterations, combined under `critical` in ANY arrival order = the
   sequential maximum (exact; also for `min` by symmetry of the proof, and for any commutative associative operation:
   c13_reduce_any_order) *)
Theorem c13_critical_max : forall e (seql : list Z) (chunks : list (list Z)) (arrivals : list Z),
  Permutation (concat chunks) seql -> Permutation arrivals (map (fun c => reduce Z.max e c) chunks) ->
  reduce Z.max e arrivals = reduce Z.max e seql.
Proof. exact critical_max. Qed.

Theorem c13_reduce_any_order : forall (A : Type) (op : A -> A -> A), (forall a b, op a b = op b a) ->
  (forall a b c, op (op a b) c = op a (op b c)) -> forall l l', Permutation l l' -> forall init, reduce op init l = reduce op init l'.
Proof. exact reduce_any_order. Qed.

(* maximum WITH A PAYLOAD (sequence optimizer: `if (thread_max.value > max_result.value) max_result = thread_max`): the
   arrival order does not matter provided candidates of equal value are the same candidate ... *)
Theorem c13_critical_argmax : forall (P : Type) (l l' : list (Z * P)) (init : Z * P), Permutation l l' ->
  (forall x y, In x (init :: l) -> In y (init :: l) -> fst x = fst y -> x = y) ->
  fold_left argmax_step l init = fold_left argmax_step l' init.
Proof. exact critical_argmax. Qed.

(* ... and it DOES matter when two different candidates attain the maximal value: the first arrival wins *)
Theorem c13_critical_argmax_ties_refuted : exists (l l' : list (Z * nat)) (init : Z * nat),
  Permutation l l' /\ fold_left argmax_step l init <> fold_left argmax_step l' init.
Proof.
  exists [(1%Z, 1); (1%Z, 2)], [(1%Z, 2); (1%Z, 1)], (0%Z, 0). split; [apply perm_swap|]. vm_compute. discriminate.
Qed.

(* per-thread integer counters added with `atomic` in any arrival order = the sequential count *)
Theorem c13_atomic_int_sum : forall (seql : list Z) (chunks : list (list Z)) (arrivals : list Z),
  Permutation (concat chunks) seql -> Permutation arrivals (map (fun c => reduce Z.add 0%Z c) chunks) ->
  reduce Z.add 0%Z arrivals = reduce Z.add 0%Z seql.
Proof. exact atomic_int_sum. Qed.

(* the pairwise union tree of unionSets (rounds of S[i] += S[i + stride]) equals the left fold of the merges *)
Theorem c13_union_tree : forall d (sets : list (list idx)), Forall (wf d) sets -> Forall sorted sets ->
  union_tree (length sets) sets = union_fold sets.
Proof. exact union_tree_is_fold. Qed.

(* every OpenMP directive in the current source carries one of the classes above *)
Theorem c13_sites_classified : forallb classified sites = true.
Proof. vm_compute. reflexivity. Qed.

(* non-vacuity *)
Example c13_example_union : union_tree 5 [[[0%Z]]; [[1%Z]; [3%Z]]; [[0%Z]; [2%Z]]; [[4%Z]]; [[1%Z]]] = [[0%Z]; [1%Z]; [2%Z]; [3%Z]; [4%Z]].
Proof. vm_compute. reflexivity. Qed.

Example c13_example_parfor :
  let m := run_jobs (map (parfor_job (fun i => 2 * i) (fun i => i * i)) [3; 0; 2; 1]) (fun _ => 7) in
  map m [0; 1; 2; 3; 4; 5; 6; 7] = [0; 7; 1; 7; 4; 7; 9; 7].
Proof. vm_compute. reflexivity. Qed.

Example c13_example_sites : 100 <= length sites /\ existsb (fun s => match s_class s with CCollectSort => true | _ => false end) sites = true.
Proof. vm_compute. split; [apply Nat.leb_le; reflexivity|reflexivity]. Qed.

Print Assumptions c13_collect_sort.
Print Assumptions c13_independent_jobs_any_order.
Print Assumptions c13_parfor_disjoint.
Print Assumptions c13_level_sweep.
Print Assumptions c13_lines_independent.
Print Assumptions c13_critical_max.
Print Assumptions c13_reduce_any_order.
Print Assumptions c13_critical_argmax.
Print Assumptions c13_critical_argmax_ties_refuted.
Print Assumptions c13_atomic_int_sum.
Print Assumptions c13_union_tree.
Print Assumptions c13_sites_classified.
