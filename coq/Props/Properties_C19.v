(* C19 — GradientDescent returns its best accepted iterate within the iteration cap.
   Only statements, each closed by [exact] of a lemma from Proofs/GradDescProofs.v. *)
From TV Require Import Common.Prelude Model.GradDesc Proofs.GradDescProofs.
From Coq Require Import QArith.
Local Close Scope Q_scope.

Section AnyArithmetic.
  (* ANY number type and operations (in particular IEEE binary64), ANY callbacks *)
  Variable R : Type.
  Variables (zero one two numtol : R) (add sub mul div : R -> R -> R) (sqrt : R -> R) (gtb : R -> R -> bool).
  Variable f : list R -> R.
  Variables (grad proj : list R -> list R) (inc dec tol : R).
  Notation run := (run R zero one two numtol add sub mul div sqrt gtb f grad proj inc dec tol).
  Notation run_const := (run_const R zero one add sub mul sqrt gtb grad tol).

  (* never more than max_iterations steps *)
  Theorem c19_cap : forall maxit xinit step0,
    (Z.of_nat (iters R (fst (run maxit xinit step0))) <= Z.max 0 maxit)%Z.
  Proof. exact (run_iters_le_cap R zero one two numtol add sub mul div sqrt gtb f grad proj inc dec tol). Qed.

  (* ... and never more than max_iterations + 1 objective evaluations *)
  Theorem c19_objective_calls : forall maxit xinit step0,
    (Z.of_nat (count_f R (trace R (fst (run maxit xinit step0)))) <= Z.max 0 maxit + 1)%Z.
  Proof. exact (run_objective_calls R zero one two numtol add sub mul div sqrt gtb f grad proj inc dec tol). Qed.

  (* on return the state holds the last point that passed the descent test (or the start) *)
  Theorem c19_state_is_last_accepted : forall maxit xinit step0,
    cur R (fst (run maxit xinit step0)) = last_or (accepted R (fst (run maxit xinit step0))) xinit.
  Proof. exact (run_state_is_last_accepted R zero one two numtol add sub mul div sqrt gtb f grad proj inc dec tol). Qed.

  (* it is the starting point or a value returned by the projection *)
  Theorem c19_state_origin : forall maxit xinit step0,
    cur R (fst (run maxit xinit step0)) = xinit \/ exists z, cur R (fst (run maxit xinit step0)) = proj z.
  Proof. exact (run_state_origin R zero one two numtol add sub mul div sqrt gtb f grad proj inc dec tol). Qed.

  (* a larger cap only extends the sequence of accepted iterates *)
  Theorem c19_accepted_prefix : forall cap1 cap2 xinit step0, (cap1 <= cap2)%Z ->
    prefix (accepted R (fst (run cap1 xinit step0))) (accepted R (fst (run cap2 xinit step0))).
  Proof. exact (run_accepted_mono R zero one two numtol add sub mul div sqrt gtb f grad proj inc dec tol). Qed.

  (* constant step: exactly min(max_iterations, first step reaching the tolerance) steps *)
  Theorem c19_const_steps : forall stepsize maxit xinit,
    let r := run_const stepsize maxit xinit in
    exists t, citers R r = t /\ (Z.of_nat t <= Z.max 0 maxit)%Z /\
      r = cs_pure R zero add sub mul sqrt grad stepsize t (cs_init R one add grad tol xinit) /\
      (forall u, u < t -> gtb (cres R (cs_pure R zero add sub mul sqrt grad stepsize u (cs_init R one add grad tol xinit))) tol = true) /\
      (Z.of_nat t = Z.max 0 maxit \/
       gtb (cres R (cs_pure R zero add sub mul sqrt grad stepsize t (cs_init R one add grad tol xinit))) tol = false).
  Proof. exact (run_const_steps R zero one add sub mul div sqrt gtb f grad proj tol). Qed.
End AnyArithmetic.

Section ExactArithmetic.
  (* exact rationals; any objective, gradient; any projection obeying the variational inequality *)
  Local Open Scope Q_scope.
  Variable numtol : Q.
  Variable f : list Q -> Q.
  Variables (grad proj : list Q -> list Q) (inc dec tol : Q) (qsqrt : Q -> Q).
  Hypothesis Hinc : 0 < inc.
  Hypothesis Hdec : 0 < dec.
  Hypothesis Hproj : forall x g s, 0 < s ->
    let xs := proj (trial_point Q Qminus Qmult x g s) in lin xs x g + quad xs x g s <= 0.
  Notation runQ := (run Q 0 1 2 numtol Qplus Qminus Qmult Qdiv qsqrt qgtb f grad proj inc dec tol).

  Theorem c19_not_worse_than_start : forall maxit xinit step0, 0 < step0 ->
    let r := fst (runQ maxit xinit step0) in
    f (cur Q r) <= f xinit + inject_Z (Z.of_nat (length (accepted Q r))) * numtol.
  Proof. exact (run_not_worse_than_start numtol f grad proj inc dec tol qsqrt Hinc Hdec Hproj). Qed.

  Theorem c19_monotone_in_cap : forall cap1 cap2 xinit step0, 0 < step0 -> (cap1 <= cap2)%Z ->
    let r1 := fst (runQ cap1 xinit step0) in
    let r2 := fst (runQ cap2 xinit step0) in
    f (cur Q r2) <= f (cur Q r1) + inject_Z (Z.of_nat (length (accepted Q r2) - length (accepted Q r1))) * numtol.
  Proof. exact (run_monotone_in_cap numtol f grad proj inc dec tol qsqrt Hinc Hdec Hproj). Qed.
End ExactArithmetic.

(* Non-vacuity: the identity "projection" meets the hypothesis of the two order theorems ... *)
Theorem c19_identity_meets_hypothesis : forall (x g : list Q) (s : Q), (0 < s)%Q -> length x = length g ->
  let xs := trial_point Q Qminus Qmult x g s in (lin xs x g + quad xs x g s <= 0)%Q.
Proof. exact identity_satisfies_Hproj. Qed.

(* ... and a concrete run (f = 25 x0^2 + x1^2/2, the witness of the repaired defect) accepts iterates
   and returns the last one, with cap 1 and cap 2 *)
Definition ex_f (x : list Q) : Q := match x with [a; b] => 25 * a * a + b * b / 2 | _ => 0 end%Q.
Definition ex_g (x : list Q) : list Q := match x with [a; b] => [50 * a; b] | _ => [] end%Q.
Definition ex_run (cap : Z) := fst (run Q 0 1 2 (1 # 1000000000000) Qplus Qminus Qmult Qdiv (fun x => x) qgtb ex_f ex_g (fun x => x)
                                    4 (3 # 2) (1 # 1000000) cap [1; 1] (1 # 100))%Q.
Example c19_example_nonvacuous :
  length (accepted Q (ex_run 1)) = 1 /\ length (accepted Q (ex_run 2)) = 1 /\ iters Q (ex_run 2) = 2 /\
  cur Q (ex_run 2) = last_or (accepted Q (ex_run 2)) [1; 1]%Q /\ cur Q (ex_run 2) <> [1; 1]%Q.
Proof. vm_compute. repeat split; try reflexivity. discriminate. Qed.

Print Assumptions c19_cap.
Print Assumptions c19_objective_calls.
Print Assumptions c19_state_is_last_accepted.
Print Assumptions c19_state_origin.
Print Assumptions c19_accepted_prefix.
Print Assumptions c19_const_steps.
Print Assumptions c19_not_worse_than_start.
Print Assumptions c19_monotone_in_cap.
Print Assumptions c19_identity_meets_hypothesis.
