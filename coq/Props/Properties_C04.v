(* C04 — all documented routes to the same quantity agree.  Statements only. *)
From TV Require Import Common.Prelude Model.IndexSets Model.RuleLocal Model.Selection Model.Hier Model.LocalGrid.
From TV Require Import Proofs.HierProofs Proofs.LocalGridProofs Proofs.RuleLocalProofs Proofs.LocalComplete.
From Coq Require Import QArith Qabs Qcanon Ring.
Local Open Scope Z_scope.

Section AnyRing.
  Variable R : Type.
  Variables (rO rI : R) (radd rmul rsub : R -> R -> R) (ropp : R -> R).
  Hypothesis Rth : ring_theory rO rI radd rmul rsub ropp eq.
  Variable I : Type.
  Variable B : I -> I -> R.      (* B i j = basis j at node i *)
  Variable v : I -> R.
  Variable nodes : list I.

  (* weights x values: if w solves the transposed system for the right-hand side b (b = basis values at x gives the
     interpolation weights, b = basis integrals gives the quadrature weights, b = basis derivatives the
     differentiation weights) and c reproduces v, then  sum_i w_i v_i = sum_j b_j c_j *)
  Theorem c04_weights_values : forall w c b : I -> R,
    (forall j, In j nodes -> Hier.sum R rO radd I nodes (fun i => rmul (w i) (B i j)) = b j) ->
    (forall i, In i nodes -> Hier.sum R rO radd I nodes (fun j => rmul (B i j) (c j)) = v i) ->
    Hier.sum R rO radd I nodes (fun i => rmul (w i) (v i)) = Hier.sum R rO radd I nodes (fun j => rmul (b j) (c j)).
  Proof. exact (dual_identity R rO rI radd rmul rsub ropp Rth I B v nodes). Qed.
End AnyRing.

(* coefficients are unique: whatever is stored by setHierarchicalCoefficients and reproduces the same values IS the
   coefficient vector returned by get; two grids with the same nodes and values have the same surrogate *)
Theorem c04_coefficients_unique : forall r order pts (vals : list (idx * Qc)), hier_cert r order pts = true ->
  forall c1 c2 : idx -> Qc,
    (forall i, In i (by_level r pts) -> Hier.sum Qc 0%Qc Qcplus idx (by_level r pts) (fun j => (Bc r order i j * c1 j)%Qc) = assoc vals i) ->
    (forall i, In i (by_level r pts) -> Hier.sum Qc 0%Qc Qcplus idx (by_level r pts) (fun j => (Bc r order i j * c2 j)%Qc) = assoc vals i) ->
    forall i, In i (by_level r pts) -> c1 i = c2 i.
Proof. exact localgrid_unique. Qed.

(* ... unbounded: on EVERY well-formed local polynomial grid with a complete hierarchy (every binary rule, order, dimension) the
   hierarchical coefficients are determined by the values: set/get coefficients is a bijection with the value vectors *)
Theorem c04_coefficients_unique_complete_unbounded : forall r order d pts (vals : list (idx * Qc)),
  binary r -> wellformed d pts -> parent_complete r pts = true ->
  forall c1 c2 : idx -> Qc,
  (forall i, In i (by_level r pts) ->
     Hier.sum Qc 0%Qc Qcplus idx (by_level r pts) (fun j => (Bc r order i j * c1 j)%Qc) = assoc vals i) ->
  (forall i, In i (by_level r pts) ->
     Hier.sum Qc 0%Qc Qcplus idx (by_level r pts) (fun j => (Bc r order i j * c2 j)%Qc) = assoc vals i) ->
  forall i, In i (by_level r pts) -> c1 i = c2 i.
Proof. exact localpoly_complete_unique. Qed.

(* every local-polynomial basis function that is evaluated through the scaled coordinate vanishes at every x farther
   from its node than the support radius, for every order (all points of localp except 0, of localp0 and localpb, and
   the points >= 3 of semi-localp) *)
Theorem c04_support_zero : forall r order p x, scaled_point r p ->
  (getSupport r p < Qabs (x - getNode r p))%Q -> (evalRaw r order p x == 0)%Q.
Proof. exact support_zero. Qed.

(* the remaining points: point 0 of localp/semi-localp is the constant (support = whole domain); points 1, 2 of the
   semi-local rule are global quadratics, every x of the canonical domain is within distance 2 of their nodes *)
Theorem c04_semilocalp_quadratics_radius : forall p x, (p = 1 \/ p = 2) -> (-1 <= x <= 1)%Q ->
  (Qabs (x - getNode Semilocalp p) <= 2)%Q.
Proof. exact semilocalp_global_quadratics_radius2. Qed.

(* non-vacuity *)
Example c04_example_support : scaled_point Localp 5 /\ (getSupport Localp 5 == 1 # 4)%Q /\ (getNode Localp 5 == -(3 # 4))%Q /\
  (evalRaw Localp 2 5 (- (1 # 8)) == 0)%Q /\ ~ (evalRaw Localp 2 5 (- (5 # 8)) == 0)%Q.
Proof. split; [cbn; lia|]. split; [vm_compute; reflexivity|]. split; [vm_compute; reflexivity|]. split; [vm_compute; reflexivity|]. vm_compute. discriminate. Qed.

Print Assumptions c04_weights_values.
Print Assumptions c04_coefficients_unique.
Print Assumptions c04_coefficients_unique_complete_unbounded.
Print Assumptions c04_support_zero.
Print Assumptions c04_semilocalp_quadratics_radius.
