(* C20 — ParticleSwarm only evaluates inside the domain and tracks the true best.
   Only statements, each closed by [exact] of a lemma from Proofs/SwarmProofs.v.

   Model: Model/Swarm.v.  [exec repaired h (st, s)] runs the history [h] (ops OInit / OSetPos / OSetVel / OSetBest /
   OClearCache / OClearBest / ORun) from state [st] with the random stream [s]; [repaired = false] is
   clearBestParticles() as in the code under study, [repaired = true] is the code with fixes/C20-clearbest.diff.
   [trace] is the sequence of callback invocations; [fpoints tr] are all points ever passed to the objective.
   Ghost fields: [vis p] = positions of particle p evaluated inside the domain since the caches / bests were last
   cleared, [given p] = best strips evaluated through the user-provided-best-positions branch. *)
From TV Require Import Common.Prelude Model.Swarm Proofs.SwarmProofs.
From Coq Require Import QArith.
Local Close Scope Q_scope.

Section AnyArithmetic.
  (* ANY number type and operations (in particular IEEE binary64), ANY comparison, objective and domain *)
  Variable R : Type.
  Variables (zero two maxval rdef : R) (add sub mul : R -> R -> R) (fabs : R -> R) (ltb : R -> R -> bool).
  Variable f : list R -> R.
  Variable inside : list R -> bool.
  Notation exec := (exec R zero two rdef add sub mul fabs ltb f inside).
  Notation run := (run R zero rdef add sub mul ltb f inside).
  Notation fresh := (fresh R zero maxval).
  Notation supported_h := (supported_h R zero two rdef add sub mul fabs ltb f inside).

  (* every point ever passed to the objective is inside the domain: all histories (with either clearBestParticles),
     all swarm sizes, dimensions, coefficients, streams, iteration counts *)
  Theorem c20_only_inside_evaluated : forall repaired h d np s p,
    In p (fpoints R (trace R (fst (exec repaired h (fresh d np, s))))) -> inside p = true.
  Proof. exact (exec_fresh_only_inside R zero two maxval rdef add sub mul fabs ltb f inside). Qed.

  (* ... also from an arbitrary (even incoherent) state: a point passed to f was passed before or is inside *)
  Theorem c20_only_inside_evaluated_any_state : forall repaired h st s p,
    In p (fpoints R (trace R (fst (exec repaired h (st, s))))) -> In p (fpoints R (trace R st)) \/ inside p = true.
  Proof. exact (exec_only_inside R zero two rdef add sub mul fabs ltb f inside). Qed.

  (* the callbacks come in blocks: inside() on every point of a batch, then ONE call of f on exactly the points of
     the batch that are inside (no call when there is none) *)
  Theorem c20_one_batch_per_evaluation : forall repaired h st s,
    exists ptss, trace R (fst (exec repaired h (st, s))) = trace R st ++ flat_map (block R inside) ptss.
  Proof. exact (exec_trace_structure R zero two rdef add sub mul fabs ltb f inside). Qed.

  (* cache coherence after every supported history of the repaired class: [supported_h] only asks that
     initializeParticlesInsideBox / setParticlePositions / setBestParticlePositions are used while the cache is not
     initialised (before the first run or after clearCache()); run, clearCache, clearBestParticles and
     setParticleVelocities are unrestricted.  NOTE: the class documentation asks for clearCache() only when the
     objective changes; the precondition on the three setters is NOT documented (see the _refuted theorems). *)
  Theorem c20_cache_coherent : forall h d np s, supported_h h (fresh d np, s) ->
    let st := fst (exec true h (fresh d np, s)) in
    (cinit R st = true -> forall p, In p (parts R st) ->
       cin R p = inside (pos R p) /\
       (cin R p = true -> cf R p = f (pos R p) /\ In (pos R p) (fpoints R (trace R st)))) /\
    (forall p, In p (parts R st) -> bin R p = true ->
       inside (bpos R p) = true /\ bf R p = f (bpos R p) /\
       In (bpos R p) (vis R p ++ given R p) /\ In (bpos R p) (fpoints R (trace R st))) /\
    (sbin R st = true ->
       inside (sbpos R st) = true /\ sbf R st = f (sbpos R st) /\ In (sbpos R st) (fpoints R (trace R st)) /\
       In (sbpos R st) (sgiven R st ++ flat_map (seenl R) (parts R st))) /\
    (cinit R st = false -> sbin R st = false /\ forall p, In p (parts R st) -> cin R p = false /\ bin R p = false).
  Proof. exact (exec_fresh_coherent R zero two maxval rdef add sub mul fabs ltb f inside). Qed.

  (* the invariant is inductive: it is preserved from ANY coherent state, not only from a fresh one *)
  Theorem c20_cache_coherent_inductive : forall h x, supported_h h x ->
    Inv R f inside (fst x) -> Inv R f inside (fst (exec true h x)).
  Proof. exact (exec_Inv R zero two rdef add sub mul fabs ltb f inside). Qed.

  Section Irreflexive.
    (* the comparison is irreflexive (true of IEEE binary64 "<", NaN included, and of Q) *)
    Hypothesis ltb_irrefl : forall x, ltb x x = false.

    (* running n then m iterations equals running n+m on the same stream: same state (ghost fields, callback trace
       and number of random draws included), from ANY state.  The second call re-executes update() (a no-op after a
       run) and does not re-evaluate anything because the cache flag is set. *)
    Theorem c20_split : forall n m w c1 c2 st s, (0 <= n)%Z -> (0 <= m)%Z ->
      run (n + m) w c1 c2 st s = run m w c1 c2 (fst (run n w c1 c2 st s)) (snd (run n w c1 c2 st s)).
    Proof. exact (run_split R zero rdef add sub mul fabs ltb f inside ltb_irrefl). Qed.
  End Irreflexive.

  Section WeakOrder.
    (* the comparison is a strict weak order (true of Q, and of binary64 "<" on non-NaN values) *)
    Hypothesis ltb_irrefl : forall x, ltb x x = false.
    Hypothesis ltb_trans : forall x y z, ltb x y = true -> ltb y z = true -> ltb x z = true.
    Hypothesis ltb_negtrans : forall x y z, ltb x y = false -> ltb y z = false -> ltb x z = false.
    Notation supportedN_h := (supportedN_h R zero two rdef add sub mul fabs ltb f inside).
    Notation le := (le R ltb).

    (* class N = supported histories in which no run takes the user-provided-best-positions branch
       (every run starts with cache_initialized or with best_positions_initialized = false).
       There every best position is a position the particle itself visited inside the domain. *)
    Theorem c20_best_visited : forall h d np s, supportedN_h h (fresh d np, s) ->
      let st := fst (exec true h (fresh d np, s)) in
      forall p, In p (parts R st) -> bin R p = true ->
        inside (bpos R p) = true /\ bf R p = f (bpos R p) /\ In (bpos R p) (vis R p).
    Proof. exact (exec_fresh_visited R zero two maxval rdef add sub mul fabs ltb f inside ltb_irrefl ltb_trans ltb_negtrans). Qed.

    (* after a run (on an initialised state) at the end of a class-N history: the swarm best value is below the
       objective at every recorded position of every particle, it is attained at one of them, and the same holds
       for every particle's own best *)
    Theorem c20_swarm_best_is_min : forall h d np s n w c1 c2, supportedN_h h (fresh d np, s) ->
      let x := exec true h (fresh d np, s) in
      (cinit R (fst x) = false -> binit R (fst x) = false) -> pinit R (fst x) && vinit R (fst x) = true ->
      let st := fst (run n w c1 c2 (fst x) (snd x)) in
      (forall p q, In p (parts R st) -> In q (vis R p) -> sbin R st = true /\ le (sbf R st) (f q) = true) /\
      (sbin R st = true -> inside (sbpos R st) = true /\ sbf R st = f (sbpos R st) /\
                           In (sbpos R st) (flat_map (vis R) (parts R st))) /\
      (forall p, In p (parts R st) ->
         (forall q, In q (vis R p) -> bin R p = true /\ le (bf R p) (f q) = true) /\
         (bin R p = true -> inside (bpos R p) = true /\ bf R p = f (bpos R p) /\ In (bpos R p) (vis R p))).
    Proof. exact (exec_fresh_min R zero two maxval rdef add sub mul fabs ltb f inside ltb_irrefl ltb_trans ltb_negtrans). Qed.

    (* ... and the record is complete: without clearCache/clearBestParticles in the history, the swarm best is below
       EVERY in-domain evaluation made so far *)
    Theorem c20_swarm_best_is_min_of_all_evaluations : forall h d np s n w c1 c2,
      no_clear R h -> supportedN_h h (fresh d np, s) ->
      let x := exec true h (fresh d np, s) in
      (cinit R (fst x) = false -> binit R (fst x) = false) -> pinit R (fst x) && vinit R (fst x) = true ->
      let st := fst (run n w c1 c2 (fst x) (snd x)) in
      forall q, In q (fpoints R (trace R st)) -> sbin R st = true /\ le (sbf R st) (f q) = true.
    Proof. exact (exec_fresh_min_all R zero two maxval rdef add sub mul fabs ltb f inside ltb_irrefl ltb_trans ltb_negtrans). Qed.

    (* with clears in the history: the same for every evaluation made since ANY coherent class-N state, e.g. the
       state right after clearBestParticles() or clearCache() *)
    Theorem c20_swarm_best_is_min_since : forall st s h n w c1 c2,
      InvN R ltb f inside st -> no_clear R h -> supportedN_h h (st, s) ->
      let x := exec true h (st, s) in
      (cinit R (fst x) = false -> binit R (fst x) = false) -> pinit R (fst x) && vinit R (fst x) = true ->
      let st' := fst (run n w c1 c2 (fst x) (snd x)) in
      forall q, In q (fpoints R (trace R st')) ->
        In q (fpoints R (trace R st)) \/ (sbin R st' = true /\ le (sbf R st') (f q) = true).
    Proof. exact (min_since R zero two rdef add sub mul fabs ltb f inside ltb_irrefl ltb_trans ltb_negtrans). Qed.

    (* class-N coherence is inductive as well (used with the previous theorem) *)
    Theorem c20_classN_inductive : forall h x, supportedN_h h x ->
      InvN R ltb f inside (fst x) -> InvN R ltb f inside (fst (exec true h x)).
    Proof. exact (exec_InvN R zero two rdef add sub mul fabs ltb f inside ltb_irrefl ltb_trans ltb_negtrans). Qed.

    (* the swarm best never increases during a run on a state with initialised cache, whatever the state *)
    Theorem c20_monotone : forall n w c1 c2 st s, cinit R st = true -> sbin R st = true ->
      sbin R (fst (run n w c1 c2 st s)) = true /\ le (sbf R (fst (run n w c1 c2 st s))) (sbf R st) = true.
    Proof. exact (run_monotone R zero rdef add sub mul ltb f inside ltb_irrefl ltb_trans ltb_negtrans). Qed.
  End WeakOrder.
End AnyArithmetic.

(* the order hypotheses hold for exact rationals *)
Theorem c20_order_hypotheses_hold_for_Q :
  (forall x, qltb x x = false) /\
  (forall x y z, qltb x y = true -> qltb y z = true -> qltb x z = true) /\
  (forall x y z, qltb x y = false -> qltb y z = false -> qltb x z = false).
Proof. exact (conj qltb_irrefl (conj qltb_trans qltb_negtrans)). Qed.

(* ---- refutations: what the faithful model of the code under study does NOT satisfy (integer witnesses:
        one dimension, two particles at 1 and 2, f x = x^2) ---- *)

(* DEFECT (DESIGN section 11, F8): with clearBestParticles() as in the code, the supported history
   run; clearBestParticles(); run 0 iterations   leaves a particle whose reported best position (the origin) was never
   passed to the objective and whose cached best value is not the objective there.  c20_cache_coherent is false of the
   unrepaired class. *)
Theorem c20_clearbest_original_refuted :
  Witness.wsupported Witness.all Witness.h_clearbest /\
  exists p, In p (parts Z (Witness.wexec Witness.all false Witness.h_clearbest)) /\ bin Z p = true /\
            bf Z p <> Witness.wf (bpos Z p) /\
            ~ In (bpos Z p) (fpoints Z (trace Z (Witness.wexec Witness.all false Witness.h_clearbest))).
Proof. exact Witness.clearbest_original_stale. Qed.

(* undocumented stale-cache histories that remain in the repaired class (they are outside [supported_h]) *)
Theorem c20_setpos_after_run_refuted :
  exists p, In p (parts Z (Witness.wexec Witness.all true Witness.h_setpos)) /\ bin Z p = true /\
            bf Z p <> Witness.wf (bpos Z p) /\
            ~ In (bpos Z p) (fpoints Z (trace Z (Witness.wexec Witness.all true Witness.h_setpos))).
Proof. exact Witness.setpos_after_run_stale. Qed.

Theorem c20_setbest_after_run_refuted :
  exists p, In p (parts Z (Witness.wexec Witness.all true Witness.h_setbest)) /\ bin Z p = true /\
            bf Z p <> Witness.wf (bpos Z p) /\
            ~ In (bpos Z p) (fpoints Z (trace Z (Witness.wexec Witness.all true Witness.h_setbest))).
Proof. exact Witness.setbest_after_run_stale. Qed.

(* supported (documented) history run; clearCache(); run 0 with a particle that never was inside the domain: the zero
   strip is evaluated as that particle's best position, a point no particle visited, and the swarm best is then above
   an in-domain evaluation.  c20_best_visited / c20_swarm_best_is_min are false outside class N. *)
Theorem c20_clearcache_unset_best_refuted :
  let st := Witness.wexec Witness.unit_box true Witness.h_clearcache in
  Witness.wsupported Witness.unit_box Witness.h_clearcache /\
  (exists p, In p (parts Z st) /\ bin Z p = true /\ ~ In (bpos Z p) (flat_map (vis Z) (parts Z st))) /\
  (exists q, In q (fpoints Z (trace Z st)) /\ sbin Z st = true /\ Z.ltb (Witness.wf q) (sbf Z st) = true).
Proof. exact Witness.clearcache_unset_best. Qed.

(* user-provided best positions whose swarm slot is not the best of them: the swarm best is not the minimum *)
Theorem c20_userbest_inconsistent_refuted :
  let st := Witness.wexec Witness.all true Witness.h_userbest in
  Witness.wsupported Witness.all Witness.h_userbest /\
  (exists q, In q (fpoints Z (trace Z st)) /\ sbin Z st = true /\ Z.ltb (Witness.wf q) (sbf Z st) = true).
Proof. exact Witness.userbest_inconsistent. Qed.

(* ---- non-vacuity ---- *)
(* the repaired class on the F8 history: the best positions are the visited points 1 and 2, the swarm best is 1 *)
Example c20_example_repaired :
  map (bpos Z) (parts Z (Witness.wexec Witness.all true Witness.h_clearbest)) = [[1]; [2]]%Z /\
  sbpos Z (Witness.wexec Witness.all true Witness.h_clearbest) = [1]%Z.
Proof. exact Witness.clearbest_repaired_example. Qed.

(* a class-N history with runs, clearBestParticles, clearCache and new positions meets the hypotheses of the
   theorems, evaluates the objective, and ends with a swarm best *)
Example c20_example_nonvacuous :
  supportedN_h Z 0%Z 2%Z 0%Z Z.add Z.sub Z.mul Z.abs Z.ltb Witness.wf Witness.all Witness.h_demo
               (fresh Z 0%Z (2 ^ 62)%Z 1 2, ([], O)) /\
  length (fpoints Z (trace Z (Witness.wexec Witness.all true Witness.h_demo))) = 12 /\
  sbin Z (Witness.wexec Witness.all true Witness.h_demo) = true /\
  sbf Z (Witness.wexec Witness.all true Witness.h_demo) = 4%Z /\
  map (bpos Z) (parts Z (Witness.wexec Witness.all true Witness.h_demo)) = [[2]; [2]]%Z /\
  (* a domain that excludes every particle forever: inside() is called 12 times, f never, no best appears *)
  length (trace Z (Witness.wexec Witness.unit_box true Witness.h_demo)) = 12 /\
  fpoints Z (trace Z (Witness.wexec Witness.unit_box true Witness.h_demo)) = [] /\
  sbin Z (Witness.wexec Witness.unit_box true Witness.h_demo) = false.
Proof. vm_compute. repeat split; intros; discriminate. Qed.

Print Assumptions c20_only_inside_evaluated.
Print Assumptions c20_only_inside_evaluated_any_state.
Print Assumptions c20_one_batch_per_evaluation.
Print Assumptions c20_cache_coherent.
Print Assumptions c20_cache_coherent_inductive.
Print Assumptions c20_split.
Print Assumptions c20_best_visited.
Print Assumptions c20_swarm_best_is_min.
Print Assumptions c20_swarm_best_is_min_of_all_evaluations.
Print Assumptions c20_swarm_best_is_min_since.
Print Assumptions c20_classN_inductive.
Print Assumptions c20_monotone.
Print Assumptions c20_order_hypotheses_hold_for_Q.
Print Assumptions c20_clearbest_original_refuted.
Print Assumptions c20_setpos_after_run_refuted.
Print Assumptions c20_setbest_after_run_refuted.
Print Assumptions c20_clearcache_unset_best_refuted.
Print Assumptions c20_userbest_inconsistent_refuted.
