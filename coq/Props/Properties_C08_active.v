(* C08 (active tensors; also serves C01, C02) - the ACTIVE tensors of a Global grid (MultiIndexManipulations::createActiveTensors: the
   tensors with a non-zero weight of computeTensorWeights; GridGlobal sums quadrature / interpolation only over them and
   generateNonNestedPoints walks only their full blocks) DOMINATE the lower tensor set, so
       nested_points n Theta = full_points n (active_tensors Theta (tw_cpp Theta))
   holds WITHOUT the domination hypothesis of c08p_points_of_active_tensors (Props/Properties_C08_points.v).
   Models: Model/NestedPoints.v (nested_points, full_points, active_tensors, active_weights), Model/TensorWeights.v (tw_cpp = the control
   flow of computeTensorWeights, tw_lines, incl_excl).  Both developments use idx = list Z, `lowerZ`, `le_idx`, `nonneg` of
   Proofs/TensorSelectProofs.v: no index conversion is needed.
     maximal Theta t : In t Theta /\ forall j < length t, ~ In (t + e_j) Theta.        le_idx s t : forall j, 0 <= s_j <= t_j.
     tensors_ok d Theta : wf d Theta /\ forall t in Theta, nonneg t.                    sorted : strictly, lexicographic (MultiIndexSet).
   Hypothesis 1 <= d: computeTensorWeights reads map[d][0] / weights.back(); the theorems about tw_cpp are for d >= 1.
   NOT covered: `int` overflow of the weights; a set that is not lower (c02w_example_not_lower: the computed weights are then not the
   inclusion-exclusion values).  The tie of tw_cpp / active_tensors / nested_points to the implementation is props/c02weights.py and
   props/C08.py (points); this file adds no executable tie.
   Statements only; proofs are in Proofs/ActiveTensors.v. *)
From TV Require Import Common.Prelude Model.IndexSets gen.ExactnessGen Model.TensorSelect Model.NestedPoints Model.TensorWeights.
From TV Require Import Proofs.IndexSetsProofs Proofs.ExactnessProofs Proofs.TensorSelectProofs Proofs.NestedPointsProofs.
From TV Require Import Proofs.TensorWeightsProofs Proofs.TensorWeightsCpp Proofs.ActiveTensors.
Local Open Scope Z_scope.

(* (1) a maximal element of a lower set has inclusion-exclusion value 1 (duplicates in the list would not matter: chi is membership) *)
Theorem c08a_maximal_weight_one : forall (Theta : list idx) (t : idx),
  lowerZ Theta -> nonneg t -> maximal Theta t -> incl_excl Theta t = 1.
Proof. exact maximal_weight_one. Qed.

(* (2) every element of a finite set of non-negative indexes (lower or not) is dominated by a maximal element *)
Theorem c08a_dominated_by_maximal : forall (Theta : list idx) (t : idx),
  (forall t, In t Theta -> nonneg t) -> In t Theta -> exists s, maximal Theta s /\ le_idx t s.
Proof. exact dominated_by_maximal. Qed.

(* (3) every tensor of a sorted lower set is dominated by one with a non-zero inclusion-exclusion value, by an active tensor for the
   weights of tw_lines, and by an active tensor for the weights of tw_cpp (the control flow of the C++) *)
Theorem c08a_active_dominate : forall (D : nat) (Theta : list idx),
  sorted Theta -> wf D Theta -> (forall t, In t Theta -> nonneg t) -> lowerZ Theta -> (1 <= D)%nat ->
  forall t, In t Theta ->
    (exists s, In s Theta /\ incl_excl Theta s <> 0 /\ le_idx t s) /\
    (exists s, In s (active_tensors Theta (tw_lines Theta)) /\ le_idx t s) /\
    (exists s, In s (active_tensors Theta (tw_cpp Theta)) /\ le_idx t s).
Proof. exact active_dominate. Qed.

(* (3') the first part needs neither sortedness nor one dimension *)
Theorem c08a_nonzero_weight_dominate : forall (Theta : list idx), (forall t, In t Theta -> nonneg t) -> lowerZ Theta ->
  forall t, In t Theta -> exists s, In s Theta /\ incl_excl Theta s <> 0 /\ le_idx t s.
Proof. exact nonzero_weight_dominate. Qed.

(* (3'') the maximal tensors are active *)
Theorem c08a_maximal_active : forall (D : nat) (Theta : list idx) (s : idx),
  sorted Theta -> wf D Theta -> (forall t, In t Theta -> nonneg t) -> lowerZ Theta -> (1 <= D)%nat -> maximal Theta s ->
  In s (active_tensors Theta (tw_cpp Theta)).
Proof. exact maximal_active_cpp. Qed.

(* (4) c08p_points_of_active_tensors without the domination hypothesis, for the weights the C++-shaped model computes *)
Theorem c08a_points_of_active_tensors_unconditional : forall (n : Z -> Z) (d : nat) (Theta : list idx),
  growth_ok n -> sorted Theta -> tensors_ok d Theta -> lowerZ Theta -> (1 <= d)%nat ->
  nested_points n Theta = full_points n (active_tensors Theta (tw_cpp Theta)).
Proof. exact points_of_active_tensors_unconditional. Qed.

Theorem c08a_points_of_active_tensors_lines : forall (n : Z -> Z) (d : nat) (Theta : list idx),
  growth_ok n -> sorted Theta -> tensors_ok d Theta -> lowerZ Theta -> (1 <= d)%nat ->
  nested_points n Theta = full_points n (active_tensors Theta (tw_lines Theta)).
Proof. exact points_of_active_tensors_lines. Qed.

(* (5) the weight of t depends only on the corner {t + e : e in {0,1}^D} of the set; the active weights sum to 1 *)
Theorem c08a_weight_depends_on_corner : forall (Theta Theta' : list idx) (t : idx),
  (forall e z, In (e, z) (cube (length t)) -> (In (map2 Z.add t e) Theta <-> In (map2 Z.add t e) Theta')) ->
  incl_excl Theta t = incl_excl Theta' t.
Proof. exact incl_excl_corner. Qed.

Theorem c08a_active_weights_sum_to_one : forall (D : nat) (Theta : list idx),
  sorted Theta -> wf D Theta -> (forall t, In t Theta -> nonneg t) -> lowerZ Theta -> (1 <= D)%nat -> Theta <> [] ->
  zsum (active_weights (tw_cpp Theta)) = 1.
Proof. exact active_weights_sum_one. Qed.

(* ---- non-vacuity ---- *)
(* 2-d: Theta = {(0,0),(0,1),(0,2),(1,0),(1,1),(2,0)}: the hypotheses hold; (0,0) is inactive; the non-maximal tensors (0,1), (1,0) are
   active with weight -1; the maximal ones have weight 1 *)
Example c08a_ex_2d_hyps : sorted exA2 /\ wf 2 exA2 /\ (forall t, In t exA2 -> nonneg t) /\ lowerZ exA2 /\ exA2 <> [].
Proof. exact exA2_hyps. Qed.
Example c08a_ex_2d_maximal : maximal exA2 [1; 1] /\ maximal exA2 [0; 2] /\ maximal exA2 [2; 0] /\ ~ maximal exA2 [0; 1].
Proof. exact exA2_maximal. Qed.
Example c08a_ex_2d_active :
  tw_cpp exA2 = [0; -1; 1; -1; 1; 1] /\
  active_tensors exA2 (tw_cpp exA2) = [[0; 1]; [0; 2]; [1; 0]; [1; 1]; [2; 0]] /\
  active_weights (tw_cpp exA2) = [-1; 1; -1; 1; 1] /\
  incl_excl exA2 [0; 1] = -1 /\ incl_excl exA2 [1; 1] = 1 /\ incl_excl exA2 [0; 0] = 0 /\ zsum (active_weights (tw_cpp exA2)) = 1.
Proof. vm_compute. repeat split; reflexivity. Qed.
Example c08a_ex_2d_points :
  nested_points (g_numPoints rule_clenshawcurtis) exA2 = full_points (g_numPoints rule_clenshawcurtis) (active_tensors exA2 (tw_cpp exA2)) /\
  length (nested_points (g_numPoints rule_clenshawcurtis) exA2) = 13%nat /\
  full_points (g_numPoints rule_clenshawcurtis) [[0; 2]; [1; 1]; [2; 0]] = nested_points (g_numPoints rule_clenshawcurtis) exA2.
Proof. vm_compute. repeat split; reflexivity. Qed.
Example c08a_ex_2d_by_theorem :
  nested_points (g_numPoints rule_clenshawcurtis) exA2 = full_points (g_numPoints rule_clenshawcurtis) (active_tensors exA2 (tw_cpp exA2)).
Proof.
  exact (c08a_points_of_active_tensors_unconditional (g_numPoints rule_clenshawcurtis) 2 exA2 (numPoints_growth_ok rule_clenshawcurtis)
           (proj1 exA2_hyps) (conj (proj1 (proj2 exA2_hyps)) (proj1 (proj2 (proj2 exA2_hyps)))) (proj1 (proj2 (proj2 (proj2 exA2_hyps))))
           (le_S _ _ (le_n 1))).
Qed.
(* 3-d: exC_lower = {000,001,010,020,100,101,110,200}: (1,0,0) is not maximal and is active with weight -2; (0,0,0), (0,0,1) inactive *)
Example c08a_ex_3d_active :
  tw_cpp exC_lower = [0; 0; -1; 1; -2; 1; 1; 1] /\
  active_tensors exC_lower (tw_cpp exC_lower) = [[0; 1; 0]; [0; 2; 0]; [1; 0; 0]; [1; 0; 1]; [1; 1; 0]; [2; 0; 0]] /\
  active_weights (tw_cpp exC_lower) = [-1; 1; -2; 1; 1; 1] /\ zsum (active_weights (tw_cpp exC_lower)) = 1.
Proof. vm_compute. repeat split; reflexivity. Qed.
Example c08a_ex_3d_by_theorem :
  nested_points (g_numPoints rule_clenshawcurtis) exC_lower =
  full_points (g_numPoints rule_clenshawcurtis) (active_tensors exC_lower (tw_cpp exC_lower)).
Proof.
  exact (c08a_points_of_active_tensors_unconditional (g_numPoints rule_clenshawcurtis) 3 exC_lower (numPoints_growth_ok rule_clenshawcurtis)
           (proj1 exC_lower_hyps) (conj (proj1 (proj2 exC_lower_hyps)) (proj1 (proj2 (proj2 exC_lower_hyps))))
           (proj1 (proj2 (proj2 (proj2 exC_lower_hyps)))) (le_S _ _ (le_S _ _ (le_n 1)))).
Qed.
Example c08a_ex_3d_by_computation :
  nested_points (g_numPoints rule_clenshawcurtis) exC_lower =
  full_points (g_numPoints rule_clenshawcurtis) (active_tensors exC_lower (tw_cpp exC_lower)) /\
  length (nested_points (g_numPoints rule_clenshawcurtis) exC_lower) = 19%nat.
Proof. vm_compute. split; reflexivity. Qed.
(* the corner: adding (3,0) to the 2-d set does not change the weight of (0,1), whose corner is {(0,1),(0,2),(1,1),(1,2)} *)
Example c08a_ex_corner : incl_excl (exA2 ++ [[3; 0]]) [0; 1] = incl_excl exA2 [0; 1] /\ incl_excl (exA2 ++ [[3; 0]]) [2; 0] = 0.
Proof. vm_compute. split; reflexivity. Qed.
(* without lowerness a maximal element need not have value 1: {(0,0),(1,1)}: (0,0) is maximal in the sense above, its value is 2 *)
Example c08a_ex_lower_needed : incl_excl [[0; 0]; [1; 1]] [0; 0] = 2 /\ maximal [[0; 0]; [1; 1]] [0; 0].
Proof.
  split; [vm_compute; reflexivity|]. split; [left; reflexivity|]. intros j Hj. cbn in Hj.
  destruct j as [|[|j]]; [cbn; intuition discriminate|cbn; intuition discriminate|lia].
Qed.

Print Assumptions c08a_maximal_weight_one.
Print Assumptions c08a_dominated_by_maximal.
Print Assumptions c08a_active_dominate.
Print Assumptions c08a_nonzero_weight_dominate.
Print Assumptions c08a_maximal_active.
Print Assumptions c08a_points_of_active_tensors_unconditional.
Print Assumptions c08a_points_of_active_tensors_lines.
Print Assumptions c08a_weight_depends_on_corner.
Print Assumptions c08a_active_weights_sum_to_one.
