(* C11 - copies are complete, equal to the source and independent of it.
   Statements only (proofs: Proofs/ConstructProofs.v).  What can be stated in a functional model is the algebra of
   copyGrid(source, outputs_begin, outputs_end): the split of strip-organised arrays (values, surpluses / coefficients,
   parked construction samples) and the fact that every output-dependent quantity of the restricted grid is the restriction
   of that quantity of the source (the hierarchical transform acts on each output independently).
   "Shares no state" is NOT expressible here: it is decided at run time (mutation of either side under ASan/UBSan). *)
From TV Require Import Common.Prelude Model.IndexSets Model.Hier Model.Construct.
From TV Require Import Proofs.ConstructProofs.
Local Open Scope nat_scope.

(* spltVector2D / Data2D::splitData / StorageSet::splitValues: entry (i, k) of the result is entry (i, ibegin + k) of the
   source, for every strip i and every k of the range ... *)
Theorem c11_split_nth : forall (T : Type) (x : list T) (stride ibegin iend i k : nat),
  0 < stride -> ibegin <= iend -> iend <= stride -> i < length x / stride -> k < iend - ibegin ->
  nth_error (split2D T x stride ibegin iend) (i * (iend - ibegin) + k) = nth_error x (i * stride + ibegin + k).
Proof. exact split2D_nth. Qed.

(* ... and the result has the same number of strips with the new stride *)
Theorem c11_split_length : forall (T : Type) (x : list T) (stride ibegin iend : nat),
  0 < stride -> ibegin <= iend -> iend <= stride ->
  length (split2D T x stride ibegin iend) = length x / stride * (iend - ibegin).
Proof. exact split2D_length. Qed.

(* restrictData (parked construction samples): same indexes in the same order, every value block cut to the range *)
Theorem c11_construct_data_restrict : forall (T : Type) (data : list (idx * list T)) (ibegin iend : nat),
  map fst (restrict_data T data ibegin iend) = map fst data /\
  (forall p v, In (p, v) data -> In (p, restrict_block T v ibegin iend) (restrict_data T data ibegin iend)) /\
  (forall v k, k < iend - ibegin -> nth_error (restrict_block T v ibegin iend) k = nth_error v (ibegin + k)).
Proof.
  intros T data b e. destruct (restrict_data_spec T data b e) as [H1 H2]. split; [exact H1|]. split; [exact H2|].
  intros v k. apply restrict_block_nth.
Qed.

(* the hierarchical transform (forward pass computing surpluses) commutes with EVERY homomorphism of the coefficient
   algebra: transforming the image data gives the image of the transformed data ... *)
Theorem c11_transform_commutes_with_homomorphisms :
  forall (R1 R2 : Type) (o1 : R1) (add1 mul1 sub1 : R1 -> R1 -> R1) (o2 : R2) (add2 mul2 sub2 : R2 -> R2 -> R2) (h : R1 -> R2),
  h o1 = o2 -> (forall a b, h (add1 a b) = add2 (h a) (h b)) -> (forall a b, h (mul1 a b) = mul2 (h a) (h b)) ->
  (forall a b, h (sub1 a b) = sub2 (h a) (h b)) ->
  forall (I : Type) (ieqb : I -> I -> bool) (B1 : I -> I -> R1) (B2 : I -> I -> R2), (forall i j, h (B1 i j) = B2 i j) ->
  forall (reach : I -> list I) (v1 : I -> R1) (v2 : I -> R2), (forall i, h (v1 i) = v2 i) ->
  forall nodes, coef R2 o2 add2 mul2 sub2 I ieqb B2 reach v2 nodes = hmap R1 R2 h I (coef R1 o1 add1 mul1 sub1 I ieqb B1 reach v1 nodes).
Proof. exact coef_hom. Qed.

(* ... in particular with the restriction of the value blocks (num_outputs = n numbers per point, componentwise operations)
   to the output range [ibegin, iend): the surpluses of the restricted values are the restricted surpluses ... *)
Theorem c11_restrict_commutes : forall (R : Type) (rO : R) (radd rmul rsub : R -> R -> R) (I : Type) (ieqb : I -> I -> bool)
    (B : I -> I -> R) (reach : I -> list I) (v : I -> list R) (nodes : list I) (n ibegin iend : nat),
  ibegin <= iend -> iend <= n ->
  coef (list R) (repeat rO (iend - ibegin)) (map2 radd) (map2 rmul) (map2 rsub) I ieqb (fun i j => repeat (B i j) (iend - ibegin)) reach
       (fun i => restrict_block R (v i) ibegin iend) nodes =
  map (fun p => (fst p, restrict_block R (snd p) ibegin iend))
      (coef (list R) (repeat rO n) (map2 radd) (map2 rmul) (map2 rsub) I ieqb (fun i j => repeat (B i j) n) reach v nodes).
Proof. exact restrict_commutes. Qed.

(* ... and the surrogate of the restricted grid at any point is the restriction of the surrogate of the source *)
Theorem c11_restrict_commutes_evaluate : forall (R : Type) (rO : R) (radd rmul rsub : R -> R -> R) (I : Type) (ieqb : I -> I -> bool)
    (B : I -> I -> R) (reach : I -> list I) (v : I -> list R) (nodes : list I) (phi : I -> R) (n ibegin iend : nat),
  ibegin <= iend -> iend <= n ->
  interp (list R) (repeat rO (iend - ibegin)) (map2 radd) (map2 rmul) (map2 rsub) I ieqb (fun i j => repeat (B i j) (iend - ibegin)) reach
         (fun i => restrict_block R (v i) ibegin iend) nodes (fun j => repeat (phi j) (iend - ibegin)) =
  restrict_block R (interp (list R) (repeat rO n) (map2 radd) (map2 rmul) (map2 rsub) I ieqb (fun i j => repeat (B i j) n) reach v nodes
                           (fun j => repeat (phi j) n)) ibegin iend.
Proof. exact restrict_commutes_eval. Qed.

(* non-vacuity: 3 points x 4 outputs, range [1,3); a 1-d hierarchy with two outputs *)
Example c11_example_split :
  split2D nat [10;11;12;13; 20;21;22;23; 30;31;32;33] 4 1 3 = [11;12; 21;22; 31;32] /\
  split2D nat [10;11;12;13; 20;21;22;23; 30;31;32;33] 4 0 4 = [10;11;12;13; 20;21;22;23; 30;31;32;33] /\
  split2D nat [10;11;12;13; 20;21;22;23; 30;31;32;33] 4 3 4 = [13; 23; 33] /\
  restrict_data nat [([0;1]%Z, [5;6;7]); ([2;0]%Z, [8;9;10])] 1 3 = [([0;1]%Z, [6;7]); ([2;0]%Z, [9;10])].
Proof. vm_compute. repeat split. Qed.

Example c11_example_restrict :
  let B := fun i j : nat => if Nat.eqb i j then 1%Z else if Nat.ltb j i then 1%Z else 0%Z in
  let reach := fun i : nat => seq 0 i in
  let v := fun i : nat => [Z.of_nat (i * i); Z.of_nat (7 * i + 1); 3%Z] in
  let full := coef (list Z) (repeat 0%Z 3) (map2 Z.add) (map2 Z.mul) (map2 Z.sub) nat Nat.eqb (fun i j => repeat (B i j) 3) reach v [0;1;2;3] in
  full = [(3, [5%Z; 7%Z; 0%Z]); (2, [3%Z; 7%Z; 0%Z]); (1, [1%Z; 7%Z; 0%Z]); (0, [0%Z; 1%Z; 3%Z])] /\
  coef (list Z) (repeat 0%Z 1) (map2 Z.add) (map2 Z.mul) (map2 Z.sub) nat Nat.eqb (fun i j => repeat (B i j) 1) reach
       (fun i => restrict_block Z (v i) 1 2) [0;1;2;3] = [(3, [7%Z]); (2, [7%Z]); (1, [7%Z]); (0, [1%Z])].
Proof. vm_compute. repeat split. Qed.

Print Assumptions c11_split_nth.
Print Assumptions c11_split_length.
Print Assumptions c11_construct_data_restrict.
Print Assumptions c11_transform_commutes_with_homomorphisms.
Print Assumptions c11_restrict_commutes.
Print Assumptions c11_restrict_commutes_evaluate.
