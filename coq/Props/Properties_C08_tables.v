(* C08 (tables) - tensor selection with the INTEGER depth types (type_level, type_iptotal, type_qptotal, type_tensor, type_iptensor,
   type_qptensor), anisotropic weights and level limits, for EVERY dimension d >= 1, offset >= 0, weights (none or d weights >= 1),
   limits and EVERY non-decreasing exactness table (`table_ok`), and the declared polynomial space; then the instances for the
   functions the three grid families pass as rule_exactness, built from the tables GENERATED from the source (gen/ExactnessGen.v).
   Model: Model/TensorSelect.v (mirrors MultiIndexManipulations::selectTensors, ProperWeights, generateLevelWeightsCache,
   generateLowerMultiIndexSet, generateFullTensorSet, createPolynomialSpace).  The unbounded C++ loops take a fuel; `adequate` says that the fuel suffices,
   and it does for sel_fuel whenever exact(l) >= l (all generated tables).
   NOT covered: curved / hyperbolic types (floating point), rule_customtabulated, overflow of int, weights <= 0 (total-degree types:
   the cache loop of the C++ never ends - see the Example at the end).
   Statements only; proofs are in Proofs/TensorSelectProofs.v. *)
From TV Require Import Common.Prelude Model.IndexSets gen.ExactnessGen Model.TensorSelect.
From TV Require Import Proofs.IndexSetsProofs Proofs.CombinationProofs Proofs.SparseInterpExact Proofs.ExactnessProofs Proofs.TensorSelectProofs.
From Coq Require Import QArith Qcanon.
Local Open Scope Z_scope.

(* ---- (a) membership: t is selected iff it has d non-negative entries, passes the limit test and
        total-degree types:  sum_j w_j * exactness_cache[t_j] <= offset * (smallest weight)   (exactness_cache[0] = 0, [i] = 1 + exact(i-1))
        full-tensor types :  for all j, t_j = 0 or exact(t_j - 1) < w_j * offset ---- *)
Theorem c08t_total_membership : forall fuel exact weights limits offset d t,
  (0 < d)%nat -> weights_ok d weights -> table_ok exact -> 0 <= offset -> adequate fuel exact (proper_weights d weights) offset ->
  (In t (select_total fuel exact weights limits offset d) <->
   length t = d /\ nonneg t /\ limits_ok limits t = true /\
   wsum exact (proper_weights d weights) t <= offset * min_list (proper_weights d weights)).
Proof. exact select_total_spec. Qed.

Theorem c08t_box_membership : forall fuel exact weights limits offset d t,
  weights_ok d weights -> table_ok exact -> adequate fuel exact (proper_weights d weights) offset ->
  (In t (select_tensor_box fuel exact weights limits offset d) <->
   length t = d /\ nonneg t /\ limits_ok limits t = true /\
   Forall2 (fun wl x => x = 0 \/ exact (x - 1) < wl * offset) (proper_weights d weights) t).
Proof. exact select_box_spec. Qed.

Theorem c08t_select_membership : forall fuel ty exact weights limits offset d,
  (0 < d)%nat -> weights_ok d weights -> table_ok exact -> 0 <= offset -> adequate fuel exact (proper_weights d weights) offset ->
  forall t, In t (select fuel ty exact weights limits offset d) <-> sel_crit ty exact (proper_weights d weights) limits offset d t.
Proof. exact select_spec. Qed.

(* the cache: entry x of a dimension with weight wl is wl * exactness_cache[x] wherever the do-while has written it *)
Theorem c08t_cache_entry : forall exact wl off fuel x, 0 <= x -> x <= Z.of_nat fuel ->
  (forall k, 1 <= k < x -> wl * exactness_at exact k <= off) ->
  nth (Z.to_nat x) (0 :: cache_loop fuel exact wl off 0) 0 = wl * exactness_at exact x.
Proof. exact cache_lookup. Qed.

(* and the walk never reads the cache beyond what was written: even one step above a selected index every coordinate is a cached
   position (the C++ read cache[j][index[j]] is within bounds) *)
Theorem c08t_cache_reads_in_bounds : forall fuel exact weights limits offset d t,
  (0 < d)%nat -> weights_ok d weights -> table_ok exact -> 0 <= offset -> adequate fuel exact (proper_weights d weights) offset ->
  In t (select_total fuel exact weights limits offset d) ->
  Forall2 (fun c x => (Z.to_nat x + 1 < length c)%nat)
          (weights_cache fuel exact (proper_weights d weights) (offset * min_list (proper_weights d weights))) t.
Proof. exact select_total_reads_in_bounds. Qed.

(* ---- (b) lower, sorted, duplicate free ---- *)
Theorem c08t_select_lower : forall fuel ty exact weights limits offset d,
  (0 < d)%nat -> weights_ok d weights -> table_ok exact -> 0 <= offset -> adequate fuel exact (proper_weights d weights) offset ->
  forall t s, In t (select fuel ty exact weights limits offset d) -> Forall2 (fun a b => 0 <= a <= b) s t ->
              In s (select fuel ty exact weights limits offset d).
Proof. exact select_lower. Qed.

(* strictly increasing in the lexicographic order of MultiIndexSet - for ANY table, weights, limits, fuel *)
Theorem c08t_select_sorted : forall fuel ty exact weights limits offset d, sorted (select fuel ty exact weights limits offset d).
Proof. exact select_sorted. Qed.
Theorem c08t_select_nodup : forall fuel ty exact weights limits offset d, NoDup (select fuel ty exact weights limits offset d).
Proof. exact select_nodup. Qed.

(* lower in the sense of this file is `lower` of the combination-technique theorem (CombinationProofs.comb_exact), levels as nat *)
Theorem c08t_lower_is_comb_lower : forall Theta, (forall t, In t Theta -> nonneg t) -> lowerZ Theta -> lower (map to_nat_idx Theta).
Proof. exact lowerZ_lower. Qed.

(* ---- (c) level limits: a coordinate with a non-negative limit does not exceed it; negative limits (-1) restrict nothing ---- *)
Theorem c08t_select_within_limits : forall fuel ty exact weights limits offset d,
  (0 < d)%nat -> weights_ok d weights -> table_ok exact -> 0 <= offset -> adequate fuel exact (proper_weights d weights) offset ->
  forall t j, In t (select fuel ty exact weights limits offset d) -> (j < length limits)%nat -> (j < d)%nat ->
              0 <= nth j limits (-1) -> nth j t 0 <= nth j limits (-1).
Proof. exact select_within_limits_nth. Qed.

Theorem c08t_select_unrestricted : forall fuel ty exact weights limits offset d, Forall (fun l => l < 0) limits ->
  select fuel ty exact weights limits offset d = select fuel ty exact weights [] offset d.
Proof. exact select_unrestricted. Qed.

(* ---- (d) monotone in the offset (depth) ---- *)
Theorem c08t_select_mono_offset : forall fuel fuel' ty exact weights limits offset offset' d,
  (0 < d)%nat -> weights_ok d weights -> table_ok exact -> 0 <= offset <= offset' ->
  adequate fuel exact (proper_weights d weights) offset -> adequate fuel' exact (proper_weights d weights) offset' ->
  incl (select fuel ty exact weights limits offset d) (select fuel' ty exact weights limits offset' d).
Proof. exact select_mono_offset. Qed.

(* ---- (e) createPolynomialSpace: for ANY function `exact` and any set of tensors of equal length ---- *)
Theorem c08t_poly_space_membership : forall exact d Theta, wf d Theta ->
  forall k, In k (poly_space exact Theta) <-> exists t, In t Theta /\ Forall2 (fun kj tj => 0 <= kj <= exact tj) k t.
Proof. exact poly_space_spec. Qed.
Theorem c08t_poly_space_sorted : forall exact d Theta, wf d Theta -> sorted (poly_space exact Theta).
Proof. exact poly_space_sorted. Qed.
Theorem c08t_poly_space_nodup : forall exact d Theta, wf d Theta -> NoDup (poly_space exact Theta).
Proof. exact poly_space_nodup. Qed.
Theorem c08t_poly_space_mono : forall exact d Theta Theta', wf d Theta -> wf d Theta' -> incl Theta Theta' ->
  incl (poly_space exact Theta) (poly_space exact Theta').
Proof. exact poly_space_mono. Qed.
(* GridGlobal lists the space of the ACTIVE tensors: for a non-decreasing table it is the space of all tensors as soon as every
   tensor lies below an active one *)
Theorem c08t_poly_space_dominating : forall exact d A T, table_ok exact -> wf d A -> wf d T -> incl A T ->
  (forall t, In t T -> exists a, In a A /\ le_idx t a) -> poly_space exact A = poly_space exact T.
Proof. exact poly_space_dominating. Qed.
(* GridSequence, interpolation: the points themselves are listed - the space of a lower set under the identity table *)
Theorem c08t_poly_space_id_lower : forall d Theta, wf d Theta -> sorted Theta -> lowerZ Theta -> (forall t, In t Theta -> nonneg t) ->
  poly_space (fun l => l) Theta = Theta.
Proof. exact poly_space_id_lower. Qed.
(* the membership condition is the premise `Forall2 (fun kj sj => kj <= m sj) k s` of comb_exact with m := the table *)
Theorem c08t_poly_space_is_comb_premise : forall exact k t, nonneg t -> Forall2 (fun kj tj => 0 <= kj <= exact tj) k t ->
  Forall2 (fun kj sj => (kj <= Z.to_nat (exact (Z.of_nat sj)))%nat) (to_nat_idx k) (to_nat_idx t).
Proof. exact in_space_nat. Qed.

(* ---- the generated tables: every function a grid family passes as rule_exactness (identity, getIExact(., rule), getQExact(., rule))
        is non-negative, non-decreasing and at least the level, for every rule and depth type; then sel_fuel is enough fuel ---- *)
Theorem c08t_iexact_ge_level : forall r l, 0 <= l -> l <= g_iExact r l.
Proof. exact iexact_ge_level. Qed.
Theorem c08t_qexact_ge_level : forall r l, 0 <= l -> l <= g_qExact r l.
Proof. exact qexact_ge_level. Qed.
Theorem c08t_rule_exactness_tables : forall fam r ty, table_ok (rule_exactness fam r ty) /\ grows (rule_exactness fam r ty).
Proof. exact rule_exactness_ok. Qed.
Theorem c08t_fuel_sufficient : forall exact weights offset d, (0 < d)%nat -> weights_ok d weights -> 0 <= offset -> grows exact ->
  adequate (sel_fuel weights offset d) exact (proper_weights d weights) offset.
Proof. exact sel_fuel_adequate. Qed.

(* ---- corollaries for the tensor set of make{Global,Sequence,Fourier}Grid: every family, rule, integer depth type ---- *)
Theorem c08t_grid_tensors_membership : forall fam r ty weights limits depth d, (0 < d)%nat -> weights_ok d weights -> 0 <= depth ->
  forall t, In t (grid_tensors fam r ty weights limits depth d) <->
            sel_crit ty (rule_exactness fam r ty) (proper_weights d weights) limits depth d t.
Proof. exact grid_tensors_spec. Qed.
Theorem c08t_grid_tensors_lower : forall fam r ty weights limits depth d, (0 < d)%nat -> weights_ok d weights -> 0 <= depth ->
  lowerZ (grid_tensors fam r ty weights limits depth d).
Proof. exact grid_tensors_lower. Qed.
Theorem c08t_grid_tensors_sorted : forall fam r ty weights limits depth d, sorted (grid_tensors fam r ty weights limits depth d).
Proof. exact grid_tensors_sorted. Qed.
Theorem c08t_grid_tensors_nodup : forall fam r ty weights limits depth d, NoDup (grid_tensors fam r ty weights limits depth d).
Proof. exact grid_tensors_nodup. Qed.
Theorem c08t_grid_tensors_within_limits : forall fam r ty weights limits depth d, (0 < d)%nat -> weights_ok d weights -> 0 <= depth ->
  forall t j, In t (grid_tensors fam r ty weights limits depth d) -> (j < length limits)%nat -> (j < d)%nat ->
              0 <= nth j limits (-1) -> nth j t 0 <= nth j limits (-1).
Proof. exact grid_tensors_within_limits. Qed.
Theorem c08t_grid_tensors_unrestricted : forall fam r ty weights limits depth d, Forall (fun l => l < 0) limits ->
  grid_tensors fam r ty weights limits depth d = grid_tensors fam r ty weights [] depth d.
Proof. exact grid_tensors_unrestricted. Qed.
Theorem c08t_grid_tensors_mono_depth : forall fam r ty weights limits depth depth' d, (0 < d)%nat -> weights_ok d weights ->
  0 <= depth <= depth' -> incl (grid_tensors fam r ty weights limits depth d) (grid_tensors fam r ty weights limits depth' d).
Proof. exact grid_tensors_mono_depth. Qed.
Theorem c08t_grid_tensors_zero : forall fam r ty weights limits depth d, (0 < d)%nat -> weights_ok d weights -> 0 <= depth ->
  In (repeat 0 d) (grid_tensors fam r ty weights limits depth d).
Proof. exact grid_tensors_zero. Qed.

(* ---- END TO END (ties C02 / C03 to the selection): for an interpolation-tight rule, the tensor set the library selects for a Global
        grid (any integer type, weights, limits, depth) and EVERY multi-index k of the space getGlobalPolynomialSpace(true) declares
        for it: the combination technique over that set reproduces the monomial x^k exactly ---- *)
Theorem c08t_grid_exact_on_declared_space : forall (r : onedrule) (nodes : nat -> nat -> list Qc) (x : nat -> Qc)
  (ty : depth_type) (weights limits : list Z) (depth : Z) (d : nat),
  is_interp_tight r = true -> (forall j l, NoDup (nodes j l)) -> (forall j l, length (nodes j l) = table_n r l) ->
  (0 < d)%nat -> weights_ok d weights -> 0 <= depth ->
  let Theta := grid_tensors fam_global r ty weights limits depth d in
  forall k, In k (global_poly_space r true Theta) ->
    sumf Qc (Q2Qc 0) Qcplus (map to_nat_idx Theta)
      (fun t => dprod Qc (Q2Qc 1) Qcmult Qcminus (interp_u nodes x) 0 t (to_nat_idx k))
    = iprod Qc (Q2Qc 1) Qcmult (interp_I x) 0 (to_nat_idx k).
Proof. exact grid_exact_on_declared_space. Qed.

(* ---- generateFullTensorSet: the mixed-radix decoding loop of the C++ (full_tensor_decode) lists exactly the nested product the model
        uses (full_tensor), for positive entries; so both uses of it can be read with the loop as written ---- *)
Theorem c08t_full_tensor_is_decoding_loop : forall np, Forall (fun n => 0 < n) np -> full_tensor_decode np = full_tensor np.
Proof. exact full_tensor_decode_eq. Qed.
Theorem c08t_select_box_decode : forall fuel exact weights limits offset d,
  select_tensor_box fuel exact weights limits offset d = full_tensor_decode (tensor_num_points fuel exact weights limits offset d).
Proof. exact select_box_decode. Qed.
Theorem c08t_poly_space_decode : forall exact Theta, table_ok exact -> (forall t, In t Theta -> nonneg t) ->
  poly_space exact Theta = fold_right merge [] (map (fun t => full_tensor_decode (map (fun l => exact l + 1) t)) Theta).
Proof. exact poly_space_decode. Qed.

(* ---- non-vacuity (values of the compiled library, seltabdrv) ---- *)
Example c08t_ex_select :
  grid_tensors fam_global rule_clenshawcurtis ty_qptotal [2; 1] [] 5 2 = [[0; 0]; [0; 1]; [0; 2]; [1; 0]]
  /\ grid_tensors fam_global rule_clenshawcurtis ty_iptensor [1; 2] [] 2 2 = [[0; 0]; [0; 1]; [0; 2]; [1; 0]; [1; 1]; [1; 2]]
  /\ grid_tensors fam_sequence rule_leja ty_level [1; 2] [-1; 0] 4 2 = [[0; 0]; [1; 0]; [2; 0]; [3; 0]; [4; 0]]
  /\ grid_tensors fam_fourier rule_fourier ty_iptotal [] [] 4 2 = [[0; 0]; [0; 1]; [0; 2]; [1; 0]; [1; 1]; [1; 2]; [2; 0]; [2; 1]; [2; 2]]
  /\ weights_cache 10 (g_iExact rule_clenshawcurtis) [1; 2] 5 = [[0; 1; 3; 5; 9]; [0; 2; 6]].
Proof. vm_compute. repeat split. Qed.
Example c08t_ex_poly :
  global_poly_space rule_clenshawcurtis true [[0; 0]; [0; 2]; [1; 0]] = [[0; 0]; [0; 1]; [0; 2]; [0; 3]; [0; 4]; [1; 0]; [2; 0]]
  /\ sequence_poly_space rule_leja false [[0; 0]; [1; 0]; [2; 0]] = [[0; 0]; [0; 1]; [1; 0]; [1; 1]; [2; 0]; [2; 1]; [3; 0]; [3; 1]].
Proof. vm_compute. split; reflexivity. Qed.
Example c08t_ex_decode : full_tensor_decode [2; 3] = [[0; 0]; [0; 1]; [0; 2]; [1; 0]; [1; 1]; [1; 2]].
Proof. vm_compute. reflexivity. Qed.
(* the premise weights >= 1 cannot be dropped for the total-degree types: with a weight 0 the cache loop never reaches the offset -
   whatever the fuel, the model returns more indexes with more fuel (the C++ loop does not end: memory exhaustion) *)
Example c08t_ex_zero_weight_needs_unbounded_fuel :
  select_total 4 (fun l => l) [1; 0] [] 1 2 = [[0; 0]; [0; 1]; [0; 2]; [0; 3]]
  /\ select_total 6 (fun l => l) [1; 0] [] 1 2 = [[0; 0]; [0; 1]; [0; 2]; [0; 3]; [0; 4]; [0; 5]].
Proof. vm_compute. split; reflexivity. Qed.

Print Assumptions c08t_total_membership.
Print Assumptions c08t_box_membership.
Print Assumptions c08t_select_membership.
Print Assumptions c08t_cache_entry.
Print Assumptions c08t_cache_reads_in_bounds.
Print Assumptions c08t_select_lower.
Print Assumptions c08t_select_sorted.
Print Assumptions c08t_select_nodup.
Print Assumptions c08t_lower_is_comb_lower.
Print Assumptions c08t_select_within_limits.
Print Assumptions c08t_select_unrestricted.
Print Assumptions c08t_select_mono_offset.
Print Assumptions c08t_poly_space_membership.
Print Assumptions c08t_poly_space_sorted.
Print Assumptions c08t_poly_space_nodup.
Print Assumptions c08t_poly_space_mono.
Print Assumptions c08t_poly_space_dominating.
Print Assumptions c08t_poly_space_id_lower.
Print Assumptions c08t_poly_space_is_comb_premise.
Print Assumptions c08t_iexact_ge_level.
Print Assumptions c08t_qexact_ge_level.
Print Assumptions c08t_rule_exactness_tables.
Print Assumptions c08t_fuel_sufficient.
Print Assumptions c08t_grid_tensors_membership.
Print Assumptions c08t_grid_tensors_lower.
Print Assumptions c08t_grid_tensors_sorted.
Print Assumptions c08t_grid_tensors_nodup.
Print Assumptions c08t_grid_tensors_within_limits.
Print Assumptions c08t_grid_tensors_unrestricted.
Print Assumptions c08t_grid_tensors_mono_depth.
Print Assumptions c08t_grid_tensors_zero.
Print Assumptions c08t_grid_exact_on_declared_space.
Print Assumptions c08t_full_tensor_is_decoding_loop.
Print Assumptions c08t_select_box_decode.
Print Assumptions c08t_poly_space_decode.
