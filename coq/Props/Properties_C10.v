(* C10 — domain transforms act as an exact change of variables.
   Only statements, each closed by [exact] of a lemma from Proofs/TransformsProofs.v.
   Model: Model/Transforms.v (mapCanonicalToTransformed, mapTransformedToCanonical, diffCanonicalTransform,
   getQuadratureScale, the correction of getHierarchicalSupport, getDomainInside), over exact rationals, for any
   number of dimensions.  sqrt, pow and exp are universally quantified functions; the algebraic laws they must obey
   are explicit hypotheses of each theorem (checked against libm at run time, never assumed as axioms).
   NOT covered by any theorem: the conformal asin map, its Newton inverse and mapConformalWeights. *)
From Coq Require Import QArith Qabs List Bool.
From TV Require Import Model.Transforms Proofs.TransformsProofs.
Import ListNotations.
Local Open Scope Q_scope.

(* forward and inverse maps are mutual inverses, per family and per point, in any dimension *)
Theorem c10_inverse : forall (sqrtq : Q -> Q), (forall b, 0 < b -> sqrtq b * sqrtq b == b) ->
  forall f a b t, valid f a b ->
    inv sqrtq f a b (fwd sqrtq f a b t) == t /\ fwd sqrtq f a b (inv sqrtq f a b t) == t.
Proof. exact inverse_both. Qed.
Print Assumptions c10_inverse.

Theorem c10_inverse_points : forall (sqrtq : Q -> Q), (forall b, 0 < b -> sqrtq b * sqrtq b == b) ->
  forall f ab, valid_all f ab -> forall x, length x = length ab ->
    all2 Qeq (inv_pt sqrtq f ab (fwd_pt sqrtq f ab x)) x /\ all2 Qeq (fwd_pt sqrtq f ab (inv_pt sqrtq f ab x)) x.
Proof. exact inverse_points_both. Qed.
Print Assumptions c10_inverse_points.

(* the pull-back is affine and its slope is exactly what diffCanonicalTransform returns; the forward map has slope 1/jac *)
Theorem c10_jacobian : forall (sqrtq : Q -> Q), (forall b, 0 < b -> sqrtq b * sqrtq b == b) ->
  forall f a b y h, valid f a b ->
    inv sqrtq f a b (y + h) == inv sqrtq f a b y + h * jac sqrtq f a b /\
    fwd sqrtq f a b (y + h) == fwd sqrtq f a b y + h / jac sqrtq f a b.
Proof. exact jacobian_both. Qed.
Print Assumptions c10_jacobian.

Theorem c10_jacobian_points : forall (sqrtq : Q -> Q) f ab, valid_all f ab ->
  forall y h, length y = length ab -> length h = length ab ->
    all2 Qeq (inv_pt sqrtq f ab (zip2 Qplus y h))
             (zip2 Qplus (inv_pt sqrtq f ab y) (zip2 Qmult h (jac_all sqrtq f ab))).
Proof. exact inv_affine_pt. Qed.
Print Assumptions c10_jacobian_points.

(* chain rule: for every polynomial p, h |-> p(inv (y+h)) = p(inv y) + h * (p'(inv y) * jac) + (h jac)^2 * r(h jac)
   with r a polynomial: the derivative of the composed surrogate is the canonical derivative times jac *)
Theorem c10_chain_rule : forall (sqrtq : Q -> Q) f a b p y, valid f a b ->
  exists r : list Q, forall h,
    peval p (inv sqrtq f a b (y + h)) ==
    peval p (inv sqrtq f a b y) + h * (peval (pderiv p) (inv sqrtq f a b y) * jac sqrtq f a b)
    + (h * jac sqrtq f a b) * (h * jac sqrtq f a b) * peval r (h * jac sqrtq f a b).
Proof. exact chain_rule_poly. Qed.
Print Assumptions c10_chain_rule.

(* the same for any function with a first-order expansion *)
Theorem c10_chain_rule_abstract : forall (sqrtq : Q -> Q) f a b (F F' : Q -> Q) (R : Q -> Q -> Q),
  (forall u v, u == v -> F u == F v) -> valid f a b ->
  (forall u k, F (u + k) == F u + k * F' u + k * k * R u k) ->
  forall y h, F (inv sqrtq f a b (y + h)) ==
              F (inv sqrtq f a b y) + h * (F' (inv sqrtq f a b y) * jac sqrtq f a b)
              + h * h * (jac sqrtq f a b * jac sqrtq f a b * R (inv sqrtq f a b y) (h * jac sqrtq f a b)).
Proof. exact chain_rule_abstract'. Qed.
Print Assumptions c10_chain_rule_abstract.

(* supports: a point is farther than s * support_scale from the transformed node iff its pull-back is farther than s
   from the canonical node (support_scale = Jacobian of the forward map = 1/jac) *)
Theorem c10_support_scale : forall (sqrtq : Q -> Q),
  (forall b, 0 < b -> sqrtq b * sqrtq b == b) -> (forall b, 0 < b -> 0 < sqrtq b) ->
  forall f a b n s y, valid f a b ->
    (s * support_scale sqrtq f a b < Qabs (y - fwd sqrtq f a b n) <-> s < Qabs (inv sqrtq f a b y - n)).
Proof. exact support_exact. Qed.
Print Assumptions c10_support_scale.

(* the single formula 0.5 (b - a) used by getHierarchicalSupport is that scale for the [-1,1] families ... *)
Theorem c10_support_code_linear : forall (sqrtq : Q -> Q) a b, a < b ->
  support_scale_code a b == support_scale sqrtq FLinear a b.
Proof. exact support_code_linear. Qed.
Print Assumptions c10_support_code_linear.

(* ... and is NOT the Jacobian for the families with another canonical domain (Fourier shown; Laguerre and Hermite
   do not even depend on a): the statement "getHierarchicalSupport scales by the Jacobian for every family" is
   false of the faithful model *)
Theorem c10_support_code_all_families_refuted : forall (sqrtq : Q -> Q),
  exists f a b, valid f a b /\ ~ support_scale_code a b == support_scale sqrtq f a b.
Proof. exact support_code_refuted. Qed.
Print Assumptions c10_support_code_all_families_refuted.

(* getDomainInside of the transformed grid is the pull-back of the canonical predicate (closed bounds included) *)
Theorem c10_inside : forall (sqrtq : Q -> Q),
  (forall b, 0 < b -> sqrtq b * sqrtq b == b) ->
  forall f ab, valid_all f ab -> forall y, length y = length ab ->
    inside_t f ab y = inside_c f (inv_pt sqrtq f ab y).
Proof. exact inside_pullback. Qed.
Print Assumptions c10_inside.

(* it accepts the image of every canonical point ... *)
Theorem c10_inside_accepts : forall (sqrtq : Q -> Q),
  (forall b, 0 < b -> sqrtq b * sqrtq b == b) ->
  forall f ab, valid_all f ab -> forall x, length x = length ab ->
    inside_c f x = true -> inside_t f ab (fwd_pt sqrtq f ab x) = true.
Proof. exact inside_accepts. Qed.
Print Assumptions c10_inside_accepts.

(* ... and rejects every point that is beyond a bound in some dimension (below a for all bounded-below families,
   above b for the two-sided ones; Gauss-Hermite is unbounded) *)
Theorem c10_inside_rejects : forall f ab y, length y = length ab ->
  (exists j, (nth j y 0 < fst (nth j ab (0, 0)) /\ f <> FHermite \/
              snd (nth j ab (0, 0)) < nth j y 0 /\ (f = FLinear \/ f = FFourier)) /\ (j < length ab)%nat) ->
  inside_t f ab y = false.
Proof. exact inside_t_rejects. Qed.
Print Assumptions c10_inside_rejects.

(* quadrature scale, rules without a weight function: product over the dimensions of (b-a)/2 resp. (b-a), which is
   the Jacobian determinant of the forward map *)
Theorem c10_qscale_linear : forall (sqrtq : Q -> Q) (powq : Q -> Q -> Q) alpha beta ab,
  (valid_all FLinear ab ->
     qscale powq QPlain alpha beta ab == qprod (map (fun p => (snd p - fst p) / 2) ab) /\
     qscale powq QPlain alpha beta ab == qprod (map (fun p => / jac sqrtq FLinear (fst p) (snd p)) ab)) /\
  (valid_all FFourier ab ->
     qscale powq QFourier alpha beta ab == qprod (map (fun p => snd p - fst p) ab) /\
     qscale powq QFourier alpha beta ab == qprod (map (fun p => / jac sqrtq FFourier (fst p) (snd p)) ab)).
Proof. exact qscale_linear_both. Qed.
Print Assumptions c10_qscale_linear.

Section PowLaws.
  (* any sqrt, pow, exp obeying these laws *)
  Variable sqrtq : Q -> Q.
  Variable powq : Q -> Q -> Q.
  Variable expq : Q -> Q.
  Hypothesis sqrt_sq : forall b, 0 < b -> sqrtq b * sqrtq b == b.
  Hypothesis sqrt_pos : forall b, 0 < b -> 0 < sqrtq b.
  Hypothesis pow_proper : forall x x' p p', x == x' -> p == p' -> powq x p == powq x' p'.
  Hypothesis pow_pos : forall x p, 0 < x -> 0 < powq x p.
  Hypothesis pow_one : forall x, 0 < x -> powq x 1 == x.
  Hypothesis pow_add : forall x p q, 0 < x -> powq x (p + q) == powq x p * powq x q.
  Hypothesis pow_mul : forall x y p, 0 < x -> 0 < y -> powq (x * y) p == powq x p * powq y p.
  Hypothesis pow_sqrt : forall b p, 0 < b -> powq (sqrtq b) p == powq b (p * (1 # 2)).
  Hypothesis exp_proper : forall x x', x == x' -> expq x == expq x'.

  (* every rule: the scale is the product over the dimensions of (Jacobian of the forward map) x (rescaling of the
     weight function) *)
  Theorem c10_qscale_factor : forall r alpha beta ab, valid_all (family_of r) ab ->
    qscale powq r alpha beta ab ==
    qprod (map (fun p => / jac sqrtq (family_of r) (fst p) (snd p) * wfactor powq r alpha beta (fst p) (snd p)) ab).
  Proof. exact (qscale_factor sqrtq powq sqrt_pos pow_proper pow_pos pow_one pow_add pow_mul pow_sqrt). Qed.

  (* and that factor is the right change-of-variables constant for the documented weight functions: at every
     canonical point, (transformed weight at the mapped point) x (Jacobian) = factor x (canonical weight) *)
  Theorem c10_qscale_weight_jacobi : forall r alpha beta a b x,
    r = QCheb1 \/ r = QCheb2 \/ r = QGegenbauer \/ r = QJacobi -> a < b -> - (1) < x -> x < 1 ->
    weight_tr powq expq r alpha beta a b (fwd sqrtq FLinear a b x) * / jac sqrtq FLinear a b ==
    qterm powq r alpha beta a b * weight_can powq expq r alpha beta x.
  Proof. exact (weight_jacobi sqrtq powq expq pow_proper pow_one pow_add pow_mul). Qed.

  Theorem c10_qscale_weight_laguerre : forall alpha beta a b x, 0 < b -> 0 < x ->
    weight_tr powq expq QLaguerre alpha beta a b (fwd sqrtq FLaguerre a b x) * / jac sqrtq FLaguerre a b ==
    qterm powq QLaguerre alpha beta a b * weight_can powq expq QLaguerre alpha beta x.
  Proof. exact (weight_laguerre sqrtq powq expq pow_proper pow_pos pow_one pow_add pow_mul exp_proper). Qed.

  Theorem c10_qscale_weight_hermite : forall alpha beta a b x, 0 < b -> ~ x == 0 ->
    weight_tr powq expq QHermite alpha beta a b (fwd sqrtq FHermite a b x) * / jac sqrtq FHermite a b ==
    qterm powq QHermite alpha beta a b * weight_can powq expq QHermite alpha beta x.
  Proof.
    exact (weight_hermite sqrtq powq expq sqrt_sq sqrt_pos pow_proper pow_pos pow_one pow_add pow_mul pow_sqrt exp_proper).
  Qed.
End PowLaws.
Print Assumptions c10_qscale_factor.
Print Assumptions c10_qscale_weight_jacobi.
Print Assumptions c10_qscale_weight_laguerre.
Print Assumptions c10_qscale_weight_hermite.

(* ---- non-vacuity: the definitions compute (exact rationals; sqrt 4 = 2, pow with exponent 1) ---- *)
Definition sq4 (b : Q) : Q := 2.
Definition pow1 (x p : Q) : Q := x.
Example ex_fwd_linear : Qeq_bool (fwd sq4 FLinear 2 6 (1 # 2)) 5 = true.
Proof. vm_compute. reflexivity. Qed.
Example ex_inv_linear : Qeq_bool (inv sq4 FLinear 2 6 5) (1 # 2) = true.
Proof. vm_compute. reflexivity. Qed.
Example ex_fwd_hermite : Qeq_bool (fwd sq4 FHermite 1 4 3) (5 # 2) = true.
Proof. vm_compute. reflexivity. Qed.
Example ex_laguerre_roundtrip : Qeq_bool (inv sq4 FLaguerre 1 (1 # 2) (fwd sq4 FLaguerre 1 (1 # 2) 3)) 3 = true.
Proof. vm_compute. reflexivity. Qed.
Example ex_inside : inside_t FLinear [(2, 6); (0, 1)] [6; 0] = true /\ inside_t FLinear [(2, 6); (0, 1)] [6; 1 + (1 # 1000)] = false
                    /\ inside_t FLaguerre [(1, 1 # 2)] [1000] = true /\ inside_t FLaguerre [(1, 1 # 2)] [3 # 4] = false.
Proof. vm_compute. repeat split. Qed.
Example ex_qscale : Qeq_bool (qscale pow1 QPlain 0 0 [(2, 6); (0, 1)]) 1 = true /\
                    Qeq_bool (qscale pow1 QFourier 0 0 [(2, 6); (0, 1)]) 4 = true.
Proof. vm_compute. split; reflexivity. Qed.
Example ex_support_code_negative : Qeq_bool (support_scale_code 1 (1 # 2)) (- (1 # 4)) = true.
Proof. vm_compute. reflexivity. Qed.
Example ex_chain : peval (pderiv [1; 2; 3]) 2 == 14.
Proof. vm_compute. reflexivity. Qed.
