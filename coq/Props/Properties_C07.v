(* C07 — refinement never loses or mis-associates data and selects what it documents.
   Statements only; proofs are in Proofs/{IndexSets,GridState,Selection}Proofs.v. *)
From TV Require Import Common.Prelude Model.IndexSets Model.GridState Model.RuleLocal Model.Selection.
From TV Require Import Proofs.IndexSetsProofs Proofs.GridStateProofs Proofs.SelectionProofs Proofs.RuleLocalProofs.
Local Open Scope Z_scope.

Section AnyValues.
  Variable V : Type.        (* a block of model values of one point (any number of outputs) *)
  Variable vzero : V.
  Variable d : nat.         (* number of dimensions *)

  (* Across ANY sequence of load / refinement-or-update proposal / clear / merge calls (with value arrays
     of the documented sizes): loaded and needed sets are duplicate-free (strictly sorted), disjoint, and
     there is exactly one value block per loaded point. *)
  Theorem c07_inv_all_histories : forall ops st,
    Inv V d st -> ops_ok V vzero d st ops -> Inv V d (run V vzero st ops).
  Proof. exact (run_inv V vzero d). Qed.

  (* loadNeededValues makes exactly the needed points loaded, removes none, and every value stays attached to the
     index it was supplied for although the internal order of the points changes *)
  Theorem c07_load_exact : forall st vals, Inv V d st -> op_ok V d st (Load vals) -> needed st <> [] ->
    let st' := step V vzero st (Load vals) in
    needed st' = [] /\
    (forall x, In x (points st') <-> In x (points st) \/ In x (needed st)) /\
    (forall p, length p = d ->
       value_at V st' p = match lookup V (needed st) vals p with Some v => Some v | None => value_at V st p end).
  Proof. exact (load_exact V vzero d). Qed.

  (* an overwriting reload keeps the points and stores the new values *)
  Theorem c07_reload_overwrites : forall st vals, needed st = [] ->
    points (step V vzero st (Load vals)) = points st /\ values (step V vzero st (Load vals)) = vals.
  Proof. exact (reload_overwrites V vzero). Qed.

  (* set*Refinement / updateGrid never change loaded points or values; clearRefinement only drops needed points *)
  Theorem c07_propose_preserves : forall st cand,
    points (step V vzero st (Propose cand)) = points st /\ values (step V vzero st (Propose cand)) = values st.
  Proof. exact (propose_preserves V vzero). Qed.

  Theorem c07_clear_only_needed : forall st,
    points (step V vzero st Clear) = points st /\ values (step V vzero st Clear) = values st /\ needed (step V vzero st Clear) = [].
  Proof. exact (clear_only_needed V vzero). Qed.

  (* no history ever removes a loaded point *)
  Theorem c07_loaded_monotone : forall ops st, Inv V d st -> ops_ok V vzero d st ops ->
    forall x, In x (points st) -> In x (points (run V vzero st ops)).
  Proof. exact (loaded_monotone V vzero d). Qed.

  (* the positional value merge associates every value with its index (for disjoint sets, which Inv guarantees) *)
  Theorem c07_addValues_lookup : forall old new vals newvals p,
    wf d old -> wf d new -> sorted old -> sorted new -> length p = d ->
    (forall x, In x old -> ~ In x new) -> length vals = length old -> length newvals = length new ->
    lookup V (merge old new) (addValues V vzero old new vals newvals) p =
      match lookup V new newvals p with Some v => Some v | None => lookup V old vals p end.
  Proof. exact (addValues_lookup V vzero d). Qed.
End AnyValues.

(* set algebra of the sorted multi-index sets *)
Theorem c07_merge_is_union : forall d a b x, wf d a -> wf d b -> (In x (merge a b) <-> In x a \/ In x b).
Proof. intros d a b x Ha Hb. split; [apply merge_In|apply (In_merge d); assumption]. Qed.

Theorem c07_merge_sorted : forall d a b, wf d a -> wf d b -> sorted a -> sorted b -> sorted (merge a b).
Proof. exact merge_sorted. Qed.

Theorem c07_diff_is_difference : forall d a b x, wf d a -> wf d b -> sorted a -> sorted b ->
  (In x (diff a b) <-> In x a /\ ~ In x b).
Proof. exact diff_spec. Qed.

(* classic surplus refinement of Local Polynomial grids: the proposed set is EXACTLY the not-yet-present children,
   within the level limits, of the flagged loaded points *)
Theorem c07_classic_selection : forall d r limits pts (flag : idx -> bool), wf d pts ->
  sorted (classic_candidates r limits pts flag) /\ wf d (classic_candidates r limits pts flag) /\
  forall p, In p (classic_candidates r limits pts flag) <-> is_child r limits pts flag p.
Proof. exact classic_selection_spec. Qed.

Theorem c07_nothing_below_tolerance : forall d r limits pts (flag : idx -> bool), wf d pts ->
  (forall q, In q pts -> flag q = false) -> classic_candidates r limits pts flag = [].
Proof. exact classic_nothing_below_tol. Qed.

Theorem c07_candidates_fresh : forall d r limits pts (flag : idx -> bool) p, wf d pts ->
  In p (classic_candidates r limits pts flag) -> ~ In p pts.
Proof. exact classic_candidates_fresh. Qed.

(* the hierarchy is consistent: the point a child was generated from is its parent or step-parent (all binary local rules) *)
Theorem c07_child_knows_its_parent : forall r p k, binary_rule r -> 0 <= p -> (k = 0 \/ k = 1) ->
  getKid r p k <> -1 -> getParent r (getKid r p k) = p \/ getStepParent r (getKid r p k) = p.
Proof. exact kid_parent. Qed.

(* non-vacuity: a concrete reachable state and a concrete selection *)
Example c07_example_state :
  let st0 := mkgs [] [[0;0];[0;1];[1;0]] ([] : list Z) in
  let st := run Z 0 st0 [Load [10;11;12]; Propose [[0;0];[0;2];[1;1];[2;0]]; Load [20;21;22]] in
  points st = [[0;0];[0;1];[0;2];[1;0];[1;1];[2;0]] /\ values st = [10;11;20;12;21;22] /\ needed st = [].
Proof. vm_compute. repeat split. Qed.

Example c07_example_selection :
  classic_candidates Localp [] [[0];[1];[2]] (fun q => match q with [1] => true | _ => false end) = [[3]] /\
  classic_candidates Localp [1] [[0];[1];[2]] (fun _ => true) = [] /\
  classic_candidates Localp [] [[0];[1];[2]] (fun _ => true) = [[3];[4]].
Proof. vm_compute. repeat split. Qed.

Print Assumptions c07_inv_all_histories.
Print Assumptions c07_load_exact.
Print Assumptions c07_reload_overwrites.
Print Assumptions c07_propose_preserves.
Print Assumptions c07_clear_only_needed.
Print Assumptions c07_loaded_monotone.
Print Assumptions c07_addValues_lookup.
Print Assumptions c07_merge_is_union.
Print Assumptions c07_merge_sorted.
Print Assumptions c07_diff_is_difference.
Print Assumptions c07_classic_selection.
Print Assumptions c07_nothing_below_tolerance.
Print Assumptions c07_candidates_fresh.
Print Assumptions c07_child_knows_its_parent.
