(* C03 — interpolation is exact on the function space spanned by the grid's basis.  Statements only. *)
From TV Require Import Common.Prelude Proofs.CombinationProofs Proofs.LagrangeExact Proofs.SparseInterpExact.
From Coq Require Import QArith Qcanon.
Local Close Scope Qc_scope.
Local Close Scope Q_scope.
From Coq Require Import Ring ZArith.

Section AnyRing.
  Variable R : Type.
  Variables (rO rI : R) (radd rmul rsub : R -> R -> R) (ropp : R -> R).
  Hypothesis Rth : ring_theory rO rI radd rmul rsub ropp eq.
  (* a fixed evaluation point x = (x_0, ..., x_{d-1});  u j l k = the one-dimensional interpolant of level l of the monomial
     t^k, evaluated at x_j;  P j k = x_j^k;  m l = the degree up to which level l interpolates exactly (getIExact) *)
  Variable u : nat -> nat -> nat -> R.
  Variable P : nat -> nat -> R.
  Variable m : nat -> nat.
  Hypothesis m_mono : forall l, m l <= m (S l).
  Hypothesis exact1d : forall j l k, k <= m l -> u j l k = P j k.
  Variable d : nat.
  Variable Theta : list (list nat).
  Hypothesis Theta_nodup : NoDup Theta.
  Hypothesis Theta_len : forall t, In t Theta -> length t = d.
  Hypothesis Theta_lower : lower Theta.

  (* the sparse interpolant of the monomial x^k evaluated at x equals x^k, for every k of the declared space *)
  Theorem c03_combination_exact : forall k s, In s Theta -> length k = d -> Forall2 (fun kj sj => kj <= m sj) k s ->
    sumf R rO radd Theta (fun t => dprod R rI rmul rsub u 0 t k) = iprod R rI rmul P 0 k.
  Proof. exact (comb_exact R rO rI radd rmul rsub ropp Rth u P m m_mono exact1d d Theta Theta_nodup Theta_len Theta_lower). Qed.

  (* the constant 1 is reproduced: the interpolation weights sum to one (given P j 0 = 1) *)
  Hypothesis P0 : forall j, P j 0 = rI.
  Theorem c03_weights_sum_to_one : forall s, In s Theta ->
    sumf R rO radd Theta (fun t => dprod R rI rmul rsub u 0 t (repeat 0 d)) = rI.
  Proof.
    intros s Hs. rewrite (c03_combination_exact (repeat 0 d) s Hs); [|apply repeat_length|].
    - clear - P0 Rth. generalize 0 at 1. induction d as [|n IH]; intros j; cbn; [reflexivity|]. rewrite P0, IH.
      destruct Rth. rewrite Rmul_1_l. reflexivity.
    - rewrite <- (Theta_len s Hs). clear. induction s as [|a s IH]; cbn; constructor; [lia|exact IH].
  Qed.
End AnyRing.

(* UNCONDITIONAL for polynomial interpolation (Global and Sequence grids): the one-dimensional hypothesis is a theorem.  Lagrange
   interpolation at n pairwise distinct nodes reproduces every polynomial of degree < n, hence for EVERY family of one-dimensional
   node sets (nested or not, any dimension-dependent nodes) with m(l) + 1 distinct nodes at level l, EVERY lower set Theta, EVERY
   evaluation point x and EVERY monomial k of the declared space the sparse interpolant of x^k evaluated at x equals x^k. *)
Theorem c03_lagrange_exact_1d : forall nodes : list Qc, NoDup nodes -> forall k, (k < length nodes)%nat ->
  forall x, lagrange nodes (fun t => Qcpower t k) x = Qcpower x k.
Proof. exact lagrange_exact_monomial. Qed.

Theorem c03_sparse_interpolation_exact_unbounded :
  forall (nodes : nat -> nat -> list Qc) (m : nat -> nat),
    (forall j l, NoDup (nodes j l)) -> (forall j l, length (nodes j l) = S (m l)) -> (forall l, m l <= m (S l)) ->
  forall (x : nat -> Qc) d Theta, NoDup Theta -> (forall t, In t Theta -> length t = d) -> lower Theta ->
  forall k s, In s Theta -> length k = d -> Forall2 (fun kj sj => kj <= m sj) k s ->
    sumf Qc (Q2Qc 0) Qcplus Theta (fun t => dprod Qc (Q2Qc 1) Qcmult Qcminus (interp_u nodes x) 0 t k)
    = iprod Qc (Q2Qc 1) Qcmult (interp_I x) 0 k.
Proof. exact sparse_interpolation_exact. Qed.

Print Assumptions c03_combination_exact.
Print Assumptions c03_weights_sum_to_one.
Print Assumptions c03_lagrange_exact_1d.
Print Assumptions c03_sparse_interpolation_exact_unbounded.
