(* C02 / C03 / C01 - bridge between the tensor WEIGHTS form the implementation computes (MultiIndexManipulations::computeTensorWeights,
   GridGlobal::evaluate / getInterpolationWeights / getQuadratureWeights: sum over the tensors of w(t) * tensor rule of level t) and the
   DIFFERENCE form the exactness and interpolation theorems are stated in (comb_exact; Aop of Properties_C01_global).  Statements only;
   proofs in Proofs/TensorWeightsBridge.v.
     zi t = the `list nat` level vector t read as a `list Z` index of Model/TensorWeights.v;
     wN Theta t = incl_excl (map zi Theta) (zi t): the inclusion-exclusion value, which IS the computed weight (c02b_weights_are_computed,
       from c02w_weights_inclusion_exclusion);  inj = the canonical map Z -> R (gen_phiZ);
     prodU fs t = prod_j f_j (t_j), prodD fs t = prod_j (f_j (t_j) - f_j (t_j - 1)) (second term absent at level 0).
   (A) tw_cpp = tw_lines is proved HERE only for D = 1 (c02b_tw_cpp_eq_tw_lines_partial; the full statement for every D is
       c02c_tw_cpp_eq_tw_lines in Props/Properties_C02_cpp.v); for D >= 2 it is checked by computation on every
   sub-list of small boxes (Examples) and on every case of the executable tie (props/c02weights.py). *)
From TV Require Import Common.Prelude Model.IndexSets Model.TensorWeights.
From TV Require Import Proofs.IndexSetsProofs Proofs.CombinationProofs Proofs.TensorSelectProofs Proofs.TensorWeightsProofs.
From TV Require Import Proofs.LagrangeExact Proofs.GlobalNestedInterp Proofs.TensorWeightsBridge.
From Coq Require Import Ring InitialRing QArith Qcanon.

(* ---------- index sets: `list nat` (CombinationProofs) <-> `list Z` (TensorWeights) ---------- *)
Theorem c02b_index_conversion : forall (d : nat) (Theta : list (list nat)), (forall t, In t Theta -> length t = d) ->
  (NoDup Theta <-> NoDup (map zi Theta)) /\ wf d (map zi Theta) /\ (forall t, In t (map zi Theta) -> nonneg t) /\
  (lower Theta <-> lowerZ (map zi Theta)) /\ (forall t, In t Theta <-> In (zi t) (map zi Theta)) /\ (forall t, zn (zi t) = t).
Proof. exact index_conversion. Qed.

(* the integers wN are what the weight computation returns, entry by entry, when the set is in the stored (lexicographic) order *)
Theorem c02b_weights_are_computed : forall (d : nat) (Theta : list (list nat)),
  sorted (map zi Theta) -> (forall t, In t Theta -> length t = d) -> lower Theta -> (1 <= d)%nat -> Theta <> [] ->
  tw_lines (map zi Theta) = map (wN Theta) Theta.
Proof. exact wN_computed. Qed.

(* ---------- (B) weights form = difference form, any commutative ring, any one-dimensional families ---------- *)
Theorem c02b_weights_form_is_difference_form : forall (R : Type) (rO rI : R) (radd rmul rsub : R -> R -> R) (ropp : R -> R),
  ring_theory rO rI radd rmul rsub ropp eq ->
  forall (d : nat) (Theta : list (list nat)) (fs : list (nat -> R)),
  NoDup Theta -> (forall t, In t Theta -> length t = d) -> lower Theta -> length fs = d ->
  sumf R rO radd Theta (fun t => rmul (inj R rO rI radd rmul ropp (wN Theta t)) (prodU R rI rmul fs t))
  = sumf R rO radd Theta (fun t => prodD R rI rmul rsub fs t).
Proof. exact weights_form_R. Qed.

(* the same for the tensor operators of CombinationProofs on the monomial k: uprod = prod_j u j t_j k_j, dprod = prod_j delta j t_j k_j *)
Theorem c02b_weights_form_dprod : forall (R : Type) (rO rI : R) (radd rmul rsub : R -> R -> R) (ropp : R -> R),
  ring_theory rO rI radd rmul rsub ropp eq ->
  forall (u : nat -> nat -> nat -> R) (d : nat) (Theta : list (list nat)) (k : list nat),
  NoDup Theta -> (forall t, In t Theta -> length t = d) -> lower Theta -> length k = d ->
  sumf R rO radd Theta (fun t => rmul (inj R rO rI radd rmul ropp (wN Theta t)) (uprod R rI rmul u 0 t k))
  = sumf R rO radd Theta (fun t => dprod R rI rmul rsub u 0 t k).
Proof. exact weights_form_dprod. Qed.

(* `comb_exact` (c02_combination_exact / c03_combination_exact) for the WEIGHTS form: the quadrature / interpolation the implementation
   assembles, sum_t w(t) * prod_j U^j_{t_j}, is exact on every monomial of the declared polynomial space *)
Theorem c02b_weights_form_exact : forall (R : Type) (rO rI : R) (radd rmul rsub : R -> R -> R) (ropp : R -> R),
  ring_theory rO rI radd rmul rsub ropp eq ->
  forall (u : nat -> nat -> nat -> R) (I : nat -> nat -> R) (m : nat -> nat),
  (forall l, (m l <= m (S l))%nat) -> (forall j l k, (k <= m l)%nat -> u j l k = I j k) ->
  forall (d : nat) (Theta : list (list nat)),
  NoDup Theta -> (forall t, In t Theta -> length t = d) -> lower Theta ->
  forall k s : list nat, In s Theta -> length k = d -> Forall2 (fun kj sj => (kj <= m sj)%nat) k s ->
  sumf R rO radd Theta (fun t => rmul (inj R rO rI radd rmul ropp (wN Theta t)) (uprod R rI rmul u 0 t k)) = iprod R rI rmul I 0 k.
Proof. exact weights_form_exact. Qed.

(* ---------- (C) GridGlobal::evaluate ---------- *)
(* Aw xs n Theta f x = sum_{t in Theta} w(t) * sum_{p in pts n t} f p * prod_j ell (t_j) (p_j) (x_j)  (the weights form) equals the
   difference form Aop of Properties_C01_global at every x of the dimension of the set *)
Theorem c02b_evaluate_weights_form_is_difference_form : forall (xs : nat -> Qc) (n : nat -> nat),
  (forall a b, xs a = xs b -> a = b) -> (1 <= n O)%nat -> (forall l, (n l < n (S l))%nat) ->
  forall (d : nat) (Theta : list (list nat)) (f : list nat -> Qc) (x : list Qc),
  NoDup Theta -> (forall s, In s Theta -> length s = d) -> lower Theta -> length x = d ->
  sumf Qc 0%Qc Qcplus Theta (fun t => Qcmult (inj Qc 0%Qc 1%Qc Qcplus Qcmult Qcopp (wN Theta t))
      (sumf Qc 0%Qc Qcplus (pts n t) (fun p => Qcmult (f p) (Lprod xs n t p x))))
  = Aop xs n Theta f x.
Proof. exact weights_form_Aop. Qed.

(* c01_global_nested_reproduces for the WEIGHTS form: what GridGlobal::evaluate computes with getInterpolationWeights reproduces the
   loaded values at every grid point *)
Theorem c02b_evaluate_weights_form_reproduces : forall (xs : nat -> Qc) (n : nat -> nat),
  (forall a b, xs a = xs b -> a = b) -> (1 <= n O)%nat -> (forall l, (n l < n (S l))%nat) ->
  forall (d : nat) (Theta : list (list nat)) (f : list nat -> Qc) (q : list nat),
  NoDup Theta -> (forall s, In s Theta -> length s = d) -> lower Theta ->
  In (map (minlev n) q) Theta ->
  sumf Qc 0%Qc Qcplus Theta (fun t => Qcmult (inj Qc 0%Qc 1%Qc Qcplus Qcmult Qcopp (wN Theta t))
      (sumf Qc 0%Qc Qcplus (pts n t) (fun p => Qcmult (f p) (Lprod xs n t p (map xs q)))))
  = f q.
Proof. exact evaluate_weights_form_reproduces. Qed.

(* ---------- (A) tw_cpp = tw_lines ---------- *)
(* FULL STATEMENT (not proved):
     forall D s, sorted s -> wf D s -> (forall t, In t s -> nonneg t) -> (1 <= D)%nat -> s <> [] -> tw_cpp s = tw_lines s.
   Proved: the case D = 1.  Missing for D >= 2: that on a sorted duplicate-free set sort_pos with the comparator before_d returns the
   positions ordered by (outkey d, coordinate d), that `runs` cuts this list exactly into the classes of match_outside d (each in the order
   of the set), hence that init_cpp / sweep_dim_cpp (c02w_sweep_by_position per line) are init_lines / sweep_dim read by position. *)
Theorem c02b_tw_cpp_eq_tw_lines_partial : forall s : list idx, dim_of s = 1%nat -> tw_cpp s = tw_lines s.
Proof. exact tw_cpp_one_dim. Qed.

(* a component of the missing part: map[D-1] of resortIndexes is the identity *)
Theorem c02b_map_last_dimension_identity : forall (D : nat) (s : list idx), (1 <= D)%nat -> map_d D (D - 1) s = seq 0 (length s).
Proof. exact map_d_last. Qed.

(* ---------- non-vacuity ---------- *)
(* (A) by computation: tw_cpp = tw_lines on EVERY sub-list (lower or not, the empty one included) of the lexicographically listed boxes
   {0..2}^2 (512 sets), {0..3}x{0..2} (4096), {0,1}^3 (256), {0..2}x{0,1}x{0,1} (4096), {0,1}^4 restricted ... (see bounds in the names) *)
Example c02b_cpp_eq_lines_box_2x2 : cpp_eq_lines_on [2;2]%nat = true /\ length (sublists (boxZ [2;2]%nat)) = 512%nat.
Proof. vm_compute. split; reflexivity. Qed.
Example c02b_cpp_eq_lines_box_3x2 : cpp_eq_lines_on [3;2]%nat = true /\ length (sublists (boxZ [3;2]%nat)) = 4096%nat.
Proof. vm_compute. split; reflexivity. Qed.
Example c02b_cpp_eq_lines_box_1x1x1 : cpp_eq_lines_on [1;1;1]%nat = true /\ length (sublists (boxZ [1;1;1]%nat)) = 256%nat.
Proof. vm_compute. split; reflexivity. Qed.
Example c02b_cpp_eq_lines_box_2x1x1 : cpp_eq_lines_on [2;1;1]%nat = true /\ length (sublists (boxZ [2;1;1]%nat)) = 4096%nat.
Proof. vm_compute. split; reflexivity. Qed.
Example c02b_cpp_eq_lines_box_4 : cpp_eq_lines_on [4]%nat = true.
Proof. vm_compute. reflexivity. Qed.
(* the main theorem restated for tw_cpp, by computation on the non-empty lower sets of these boxes: tw_cpp s = map (incl_excl s) s
   (count_lower counts the empty set too: 35 = C(7,3) lower sets in {0..3}x{0..2}, 50 in {0..2}x{0,1}x{0,1}) *)
Example c02b_cpp_incl_excl_lower_sets : cpp_eq_incl_excl_on [3;2]%nat = true /\ cpp_eq_incl_excl_on [2;1;1]%nat = true
  /\ count_lower [3;2]%nat = 35%nat /\ count_lower [2;1;1]%nat = 50%nat.
Proof. vm_compute. repeat split; reflexivity. Qed.

(* (B) in the ring Z, f_0 l = (l+1)^2, f_1 l = 3l+2, on the 2-d lower set of Properties_C02_weights (as `list nat`) *)
Example c02b_ex_hyps : NoDup exB_Theta /\ (forall s, In s exB_Theta -> length s = 2%nat) /\ lower exB_Theta /\ sorted (map zi exB_Theta).
Proof. split; [exact exB_nodup|]. split; [exact exB_len|]. split; [exact exB_lower|]. unfold exB_Theta. cbn. repeat constructor. Qed.
Example c02b_ex_weights : map (wN exB_Theta) exB_Theta = [0;-1;1;-1;1;1]%Z /\ tw_lines (map zi exB_Theta) = [0;-1;1;-1;1;1]%Z
  /\ tw_cpp (map zi exB_Theta) = [0;-1;1;-1;1;1]%Z.
Proof. vm_compute. repeat split; reflexivity. Qed.
Example c02b_ex_ring_Z :
  sumf Z 0%Z Z.add exB_Theta (fun t => Z.mul (inj Z 0%Z 1%Z Z.add Z.mul Z.opp (wN exB_Theta t)) (prodU Z 1%Z Z.mul exB_fs t)) = 33%Z
  /\ sumf Z 0%Z Z.add exB_Theta (fun t => prodD Z 1%Z Z.mul Z.sub exB_fs t) = 33%Z.
Proof. vm_compute. split; reflexivity. Qed.
Example c02b_ex_by_theorem :
  sumf Z 0%Z Z.add exB_Theta (fun t => Z.mul (inj Z 0%Z 1%Z Z.add Z.mul Z.opp (wN exB_Theta t)) (prodU Z 1%Z Z.mul exB_fs t))
  = sumf Z 0%Z Z.add exB_Theta (fun t => prodD Z 1%Z Z.mul Z.sub exB_fs t).
Proof. exact (c02b_weights_form_is_difference_form Z 0%Z 1%Z Z.add Z.mul Z.sub Z.opp Zth 2 exB_Theta exB_fs exB_nodup exB_len exB_lower eq_refl). Qed.
Example c02b_ex_dprod : 
  sumf Z 0%Z Z.add exB_Theta (fun t => Z.mul (inj Z 0%Z 1%Z Z.add Z.mul Z.opp (wN exB_Theta t)) (uprod Z 1%Z Z.mul exB_u 0 t [2;1]%nat)) = 23%Z
  /\ sumf Z 0%Z Z.add exB_Theta (fun t => dprod Z 1%Z Z.mul Z.sub exB_u 0 t [2;1]%nat) = 23%Z.
Proof. vm_compute. split; reflexivity. Qed.

(* (C) on the instance of Properties_C01_global (nodes 0, 1, -1, 1/2, -1/2, ...; n = 1, 3, 5, ...; 5 tensors, 11 points):
   weights of the 5 tensors, weights form = difference form at the off-grid point (1/3, 1/5), weights form = table at the 11 grid points *)
Example c02b_ex_global_weights : map (wN ex_Theta2) ex_Theta2 = [0; -1; 1; 0; 1]%Z.
Proof. vm_compute. reflexivity. Qed.
Example c02b_ex_global_off_grid :
  Qc_eq_bool (Aw ex_xs ex_n ex_Theta2 ex_f [Q2Qc (1#3); Q2Qc (1#5)]) (Aop ex_xs ex_n ex_Theta2 ex_f [Q2Qc (1#3); Q2Qc (1#5)]) = true
  /\ Qc_eq_bool (Aw ex_xs ex_n ex_Theta2 ex_f [Q2Qc (1#3); Q2Qc (1#5)]) 0%Qc = false.
Proof. vm_compute. split; reflexivity. Qed.
Example c02b_ex_global_grid_points :
  forallb (fun q => Qc_eq_bool (Aw ex_xs ex_n ex_Theta2 ex_f (map ex_xs q)) (ex_f q)) (ex_points ex_Theta2) = true.
Proof. vm_compute. reflexivity. Qed.
Example c02b_ex_global_by_theorem : Aw ex_xs ex_n ex_Theta2 ex_f (map ex_xs [3;0]%nat) = ex_f [3;0]%nat.
Proof.
  apply (c02b_evaluate_weights_form_reproduces ex_xs ex_n ex_xs_inj ex_n_pos ex_n_incr 2 ex_Theta2 ex_f [3;0]%nat
           ex_Theta2_nodup ex_Theta2_len ex_Theta2_lower).
  vm_compute. right; right; left; reflexivity.
Qed.

Print Assumptions c02b_index_conversion.
Print Assumptions c02b_weights_are_computed.
Print Assumptions c02b_weights_form_is_difference_form.
Print Assumptions c02b_weights_form_dprod.
Print Assumptions c02b_weights_form_exact.
Print Assumptions c02b_evaluate_weights_form_is_difference_form.
Print Assumptions c02b_evaluate_weights_form_reproduces.
Print Assumptions c02b_tw_cpp_eq_tw_lines_partial.
Print Assumptions c02b_map_last_dimension_identity.
