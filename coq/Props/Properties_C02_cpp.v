(* C02 / C03 - goal (A) of the tensor-weights bridge: the model tw_cpp that mirrors the control flow of
   MultiIndexManipulations::computeTensorWeights + resortIndexes (SparseGrids/tsgIndexManipulator.cpp: the per-dimension std::sort of the
   positions with the comparator "all coordinates but d, then coordinate d", the run boundaries lines1d cut with match_outside_dim against
   the FIRST index of the current run, the initial pass on the last dimension, the in-place backward sweeps by position for d = D-2 .. 0)
   returns, on EVERY lexicographically sorted (hence duplicate-free) set of multi-indexes of one dimension D >= 1 - lower or not - exactly
   what tw_lines returns (the lines written as sets; the theorems of Properties_C02_weights are about tw_lines).
   Statements only; proofs in Proofs/TensorWeightsCpp.v.  Non-negativity of the indexes is NOT needed for the equality (it is a
   hypothesis of the inclusion-exclusion corollary only).
     adj l x y  = x, y are neighbours in the list l (l = a ++ x :: y :: b);   lastof l x = x is the last element of l.
   Both models are extracted and compared with the implementation on every case of the tie of props/c02weights.py. *)
From TV Require Import Common.Prelude Model.IndexSets Model.TensorWeights.
From TV Require Import Proofs.IndexSetsProofs Proofs.TensorSelectProofs Proofs.TensorWeightsProofs Proofs.TensorWeightsCpp.
From Coq Require Import Sorting.Sorted Permutation.
Local Open Scope Z_scope.

(* ---------- the statement ---------- *)
Theorem c02c_tw_cpp_eq_tw_lines : forall (D : nat) (s : list idx), sorted s -> wf D s -> (1 <= D)%nat -> tw_cpp s = tw_lines s.
Proof. exact tw_cpp_eq_tw_lines. Qed.

(* c02w_weights_inclusion_exclusion for the model of the C++ control flow *)
Theorem c02c_tw_cpp_inclusion_exclusion : forall (D : nat) (s : list idx),
  sorted s -> wf D s -> (forall t, In t s -> nonneg t) -> lowerZ s -> (1 <= D)%nat -> s <> [] -> tw_cpp s = map (incl_excl s) s.
Proof. exact tw_cpp_incl_excl. Qed.

(* ---------- the components ---------- *)
(* (1) the insertion sort standing for std::sort: for a comparator that is transitive and total on the positions it sorts, the result is a
   permutation of the input, strongly sorted (so it does not depend on the sorting algorithm) *)
Theorem c02c_sort_pos_sorted_permutation : forall (lt : nat -> nat -> bool) (P : nat -> Prop),
  (forall a b c, P a -> P b -> P c -> lt a b = true -> lt b c = true -> lt a c = true) ->
  (forall a b, P a -> P b -> a <> b -> lt a b = false -> lt b a = true) ->
  forall l, NoDup l -> Forall P l -> Permutation (sort_pos lt l) l /\ StronglySorted (fun a b => lt a b = true) (sort_pos lt l).
Proof. exact sort_pos_sorted_permutation. Qed.

(* map[d] of resortIndexes on a sorted set: a permutation of the positions, strongly sorted for the comparator of the C++
   (for the last dimension, where the C++ skips the sort, too) *)
Theorem c02c_map_d_sorted_permutation : forall (D : nat) (s : list idx) (d : nat), sorted s -> wf D s -> (d < D)%nat ->
  Permutation (map_d D d s) (seq 0 (length s)) /\
  StronglySorted (fun a b => before_d d (nth a s []) (nth b s []) = true) (map_d D d s).
Proof. exact map_d_sorted_permutation. Qed.

(* (2) lines1d[d]: the runs partition map[d]; the neighbour of x in its run is the FIRST later position (in set order) of the line of x in
   direction d; the last position of a run has no later member of its line *)
Theorem c02c_lines_d_are_the_lines : forall (D : nat) (s : list idx) (d : nat), sorted s -> wf D s -> (d < D)%nat -> D <> 1%nat ->
  concat (lines_d D d s) = map_d D d s /\
  forall ps, In ps (lines_d D d s) ->
    (forall x y, adj ps x y -> (x < y)%nat /\ (y < length s)%nat /\ outkey d (nth x s []) = outkey d (nth y s []) /\
                                forall z, (x < z)%nat -> (z < y)%nat -> outkey d (nth z s []) <> outkey d (nth x s [])) /\
    (forall x, lastof ps x -> forall z, (x < z)%nat -> (z < length s)%nat -> outkey d (nth z s []) <> outkey d (nth x s [])).
Proof. exact lines_d_are_the_lines. Qed.

(* (3) one direction of the C++ loop = sweep_dim read by position, from ANY weight store over the set; the initial pass likewise *)
Theorem c02c_sweep_dim_cpp_is_sweep_dim : forall (D : nat) (s : list idx) (d : nat) (W : wstate),
  sorted s -> wf D s -> (d < D)%nat -> D <> 1%nat -> map fst W = s -> sweep_dim_cpp D d s (map snd W) = map snd (sweep_dim d s W).
Proof. exact sweep_dim_cpp_is_sweep_dim. Qed.

Theorem c02c_init_cpp_is_init_lines : forall (D : nat) (s : list idx), sorted s -> wf D s -> (1 <= D)%nat -> D <> 1%nat ->
  init_cpp D s = map snd (init_lines (D - 1) s).
Proof. exact init_cpp_is_init_lines. Qed.

(* ---------- non-vacuity ---------- *)
(* a 3-d set that is not lower: the hypotheses hold, the position maps are not the identity, the runs have several members,
   the two models agree by the theorem and by computation, and the value is not trivial *)
Example c02c_ex_hyps : sorted exC_set /\ wf 3 exC_set /\ ~ lowerZ exC_set.
Proof. split; [exact exC_sorted|]. split; [exact exC_wf|exact exC_not_lower]. Qed.
Example c02c_ex_maps : map_d 3 0 exC_set = [3;0;4;6;1;5;2;7;8]%nat /\ map_d 3 1 exC_set = [1;2;0;3;5;4;7;6;8]%nat
  /\ map_d 3 2 exC_set = seq 0 9.
Proof. vm_compute. repeat split; reflexivity. Qed.
Example c02c_ex_lines : lines_d 3 0 exC_set = [[3];[0;4;6];[1;5];[2;7];[8]]%nat
  /\ lines_d 3 1 exC_set = [[1];[2];[0];[3;5];[4];[7];[6];[8]]%nat
  /\ lines_d 3 2 exC_set = [[0];[1];[2];[3;4];[5];[6];[7;8]]%nat.
Proof. vm_compute. repeat split; reflexivity. Qed.
Example c02c_ex_by_computation : tw_cpp exC_set = [0;0;1;-1;0;1;1;0;1] /\ tw_lines exC_set = [0;0;1;-1;0;1;1;0;1].
Proof. vm_compute. split; reflexivity. Qed.
Example c02c_ex_by_theorem : tw_cpp exC_set = tw_lines exC_set.
Proof. exact (c02c_tw_cpp_eq_tw_lines 3 exC_set exC_sorted exC_wf (le_S _ _ (le_S _ _ (le_n 1)))). Qed.
(* a 3-d lower set: the corollary, by the theorem and by computation *)
Example c02c_ex_lower_hyps : sorted exC_lower /\ wf 3 exC_lower /\ (forall t, In t exC_lower -> nonneg t) /\ lowerZ exC_lower /\ exC_lower <> [].
Proof. exact exC_lower_hyps. Qed.
Example c02c_ex_lower_by_computation : tw_cpp exC_lower = [0;0;-1;1;-2;1;1;1] /\ map (incl_excl exC_lower) exC_lower = [0;0;-1;1;-2;1;1;1].
Proof. vm_compute. split; reflexivity. Qed.
Example c02c_ex_lower_by_theorem : tw_cpp exC_lower = map (incl_excl exC_lower) exC_lower.
Proof.
  exact (c02c_tw_cpp_inclusion_exclusion 3 exC_lower (proj1 exC_lower_hyps) (proj1 (proj2 exC_lower_hyps)) (proj1 (proj2 (proj2 exC_lower_hyps)))
           (proj1 (proj2 (proj2 (proj2 exC_lower_hyps)))) (le_S _ _ (le_S _ _ (le_n 1))) (proj2 (proj2 (proj2 (proj2 exC_lower_hyps))))).
Qed.

Print Assumptions c02c_tw_cpp_eq_tw_lines.
Print Assumptions c02c_tw_cpp_inclusion_exclusion.
Print Assumptions c02c_sort_pos_sorted_permutation.
Print Assumptions c02c_map_d_sorted_permutation.
Print Assumptions c02c_lines_d_are_the_lines.
Print Assumptions c02c_sweep_dim_cpp_is_sweep_dim.
Print Assumptions c02c_init_cpp_is_init_lines.
