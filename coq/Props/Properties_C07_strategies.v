(* C07 (selection part, all five refinement criteria of Local Polynomial grids).
   Statements only; proofs are in Proofs/SelectionAllProofs.v; the model is Model/SelectionAll.v
   (`candidates r limits pts pmap useParents stable`, pmap = the update map of buildUpdateMap):
     classic, direction_selective : useParents = false, stable = false
     parents_first, fds           : useParents = true,  stable = false
     stable                       : useParents = false, stable = true *)
From TV Require Import Common.Prelude Model.IndexSets Model.RuleLocal Model.Selection Model.SelectionAll.
From TV Require Import Proofs.IndexSetsProofs Proofs.SelectionProofs Proofs.RuleLocalProofs Proofs.SelectionAllProofs.
Local Open Scope Z_scope.

(* (a) non-stable strategies: the proposed set is EXACTLY
       { p | exists loaded q, direction dir flagged by the update map:
             (useParents and p is an existing parent/step-parent of q in dir that is not loaded)  or
             ((not useParents or q has no such missing parent in dir) and p is a not-loaded child of q in dir
              that exists and respects the level limit of dir) }
   and it is a strictly sorted (duplicate free) set of d-dimensional indexes *)
Theorem c07s_selection_spec : forall d r limits pts pmap useParents, wf d pts ->
  sorted (candidates r limits pts pmap useParents false) /\ wf d (candidates r limits pts pmap useParents false) /\
  forall p, In p (candidates r limits pts pmap useParents false) <-> proposed r limits pts pmap useParents p.
Proof. exact candidates_spec. Qed.

(* (b) no proposed point is a loaded point: every strategy, including stable *)
Theorem c07s_fresh : forall d r limits pts pmap useParents stable p, wf d pts ->
  In p (candidates r limits pts pmap useParents stable) -> ~ In p pts.
Proof. exact candidates_fresh. Qed.

(* (c) nothing flagged => nothing proposed (every strategy) *)
Theorem c07s_nothing_flagged : forall r limits pts pmap useParents stable,
  (forall q dir, In q pts -> (dir < length q)%nat -> pmap q dir = false) ->
  candidates r limits pts pmap useParents stable = [].
Proof. exact nothing_flagged_nothing_proposed. Qed.

(* (c) with a direction-independent map (what buildUpdateMap produces for classic) the general model IS the classic
   model of Model/Selection.v *)
Theorem c07s_classic_agrees : forall r limits pts pmap flag,
  (forall q dir, In q pts -> (dir < length q)%nat -> pmap q dir = flag q) ->
  candidates r limits pts pmap false false = classic_candidates r limits pts flag.
Proof. exact candidates_classic. Qed.

(* (c) direction-selective flags propose a subset of the classic proposal for the points flagged in some direction *)
Theorem c07s_direction_subset_classic : forall d r limits pts pmap p, wf d pts ->
  In p (candidates r limits pts pmap false false) ->
  In p (classic_candidates r limits pts (flagged_somewhere pmap)).
Proof. exact children_only_subset_classic. Qed.

(* (d) stable: contains the non-stable proposal, is a sorted set, adds only ancestors *)
Theorem c07s_stable_contains : forall d r limits pts pmap useParents p, wf d pts ->
  In p (candidates r limits pts pmap useParents false) -> In p (candidates r limits pts pmap useParents true).
Proof. exact stable_contains. Qed.

Theorem c07s_stable_sorted : forall d r limits pts pmap useParents, wf d pts ->
  sorted (candidates r limits pts pmap useParents true) /\ wf d (candidates r limits pts pmap useParents true).
Proof. exact stable_sorted_wf. Qed.

Theorem c07s_stable_adds_only_parents : forall d r limits pts pmap useParents p, wf d pts ->
  In p (candidates r limits pts pmap useParents true) ->
  In p (candidates r limits pts pmap useParents false) \/
  exists c, In c (candidates r limits pts pmap useParents true) /\ parent_of r c p.
Proof. exact stable_adds_only_parents. Qed.

(* (d) what completeToLower guarantees: when its loop stopped by itself (lower_closed; the model's fuel
   2 + max total level was not exhausted - evaluated by the runner on every compared case), every existing parent and
   step-parent, in every direction, of every PROPOSED point is loaded or proposed *)
Theorem c07s_stable_parents_present : forall d r limits pts pmap useParents, wf d pts ->
  lower_closed r pts (candidates r limits pts pmap useParents true) = true ->
  forall p p', In p (candidates r limits pts pmap useParents true) -> parent_of r p p' ->
               In p' pts \/ In p' (candidates r limits pts pmap useParents true).
Proof. exact stable_parents_present. Qed.

(* (d) for the four binary rules (localp, semi-localp, localp-zero, localp-boundary; point numbers are non-negative) the model's
   fuel is never exhausted: a parent is at a strictly lower level, every pass lowers the largest total level of a point with a
   missing parent by one.  So the guarantee is unconditional there; for the ternary order-0 rule (pwc) it stays conditional
   and the runner evaluates lower_closed on every compared case. *)
Theorem c07s_stable_fuel_sufficient : forall d r limits pts pmap useParents, binary_rule r -> wf d pts -> nonneg_set pts ->
  lower_closed r pts (candidates r limits pts pmap useParents true) = true.
Proof. exact stable_fuel_sufficient. Qed.

Theorem c07s_stable_parents_present_binary : forall d r limits pts pmap useParents, binary_rule r -> wf d pts -> nonneg_set pts ->
  forall p p', In p (candidates r limits pts pmap useParents true) -> parent_of r p p' ->
               In p' pts \/ In p' (candidates r limits pts pmap useParents true).
Proof. exact stable_parents_present_binary. Qed.

(* hence: a parent-closed loaded set united with a stable proposal is parent-closed *)
Theorem c07s_stable_keeps_closed : forall d r limits pts pmap useParents, wf d pts -> parent_closed r pts ->
  lower_closed r pts (candidates r limits pts pmap useParents true) = true ->
  forall p p', (In p pts \/ In p (candidates r limits pts pmap useParents true)) -> parent_of r p p' ->
               In p' pts \/ In p' (candidates r limits pts pmap useParents true).
Proof. exact stable_keeps_closed. Qed.

(* (d) the natural stronger statement "loaded + stable proposal is always closed under parents" is FALSE: the completion
   looks only at the parents of proposed points, never at the holes of the loaded set.  Witness: 1-d localp, loaded
   {0, 3} (the parent 1 of 3 is missing), nothing flagged: nothing is proposed, the loop stops by itself. *)
Theorem c07s_stable_union_closed_refuted :
  exists r limits pts pmap p p',
    wf 1 pts /\ sorted pts /\
    lower_closed r pts (candidates r limits pts pmap false true) = true /\
    In p pts /\ parent_of r p p' /\
    ~ (In p' pts \/ In p' (candidates r limits pts pmap false true)).
Proof.
  exists Localp, [], [[0]; [3]], (fun _ _ => false), [3], [1].
  split; [repeat constructor|]. split; [repeat constructor|]. split; [vm_compute; reflexivity|].
  split; [right; left; reflexivity|]. split.
  - exists 0%nat, 1. cbn. repeat split; auto; lia.
  - vm_compute. intros [[H|[H|[]]]|[]]; discriminate.
Qed.

(* (e) level limits: every proposed CHILD respects the limit of the direction it was created in; the other
   alternative (only for parents-first / fds) is a missing parent, which is NOT limited *)
Theorem c07s_children_within_limits : forall d r limits pts pmap useParents p, wf d pts -> limits <> [] ->
  In p (candidates r limits pts pmap useParents false) ->
  (useParents = true /\ exists q dir, In q pts /\ (dir < length q)%nat /\ pmap q dir = true /\ is_missing_parent r pts q dir p) \/
  (exists q dir, In q pts /\ (dir < length q)%nat /\ pmap q dir = true /\
                 (forall m, m <> dir -> nth m p 0 = nth m q 0) /\
                 (exists k, In k (kid_numbers r) /\ nth dir p 0 = getKid r (nth dir q 0) k) /\
                 (nth dir limits (-1) = -1 \/ getLevel r (nth dir p 0) <= nth dir limits (-1))).
Proof. exact children_within_limits. Qed.

Print Assumptions c07s_selection_spec.
Print Assumptions c07s_fresh.
Print Assumptions c07s_nothing_flagged.
Print Assumptions c07s_classic_agrees.
Print Assumptions c07s_direction_subset_classic.
Print Assumptions c07s_stable_contains.
Print Assumptions c07s_stable_sorted.
Print Assumptions c07s_stable_adds_only_parents.
Print Assumptions c07s_stable_parents_present.
Print Assumptions c07s_stable_fuel_sufficient.
Print Assumptions c07s_stable_parents_present_binary.
Print Assumptions c07s_stable_keeps_closed.
Print Assumptions c07s_stable_union_closed_refuted.
Print Assumptions c07s_children_within_limits.

(* ---- non-vacuity and the behaviours the statements leave open ---- *)
Definition all_flagged : idx -> nat -> bool := fun _ _ => true.

(* parents are NOT limited: 1-d localp, loaded {0, 3}, limit 0: parents-first proposes the missing parent 1 (level 1 > 0)
   and, because a parent was added, none of the children of 3; the children of 0 are excluded by the limit *)
Example parents_not_limited :
  candidates Localp [0] [[0]; [3]] all_flagged true false = [[1]] /\ getLevel Localp 1 = 1.
Proof. vm_compute. split; reflexivity. Qed.

(* the same input without parents: nothing (every child exceeds the limit); without limits: 1 2 5 6 *)
Example classic_same_input :
  candidates Localp [0] [[0]; [3]] all_flagged false false = [] /\
  candidates Localp [] [[0]; [3]] all_flagged false false = [[1]; [2]; [5]; [6]] /\
  candidates Localp [] [[0]; [3]] all_flagged true false = [[1]; [2]].
Proof. vm_compute. repeat split; reflexivity. Qed.

(* stable completes the proposal downwards, also beyond the limits: 2-d localp, loaded {(0,0),(3,0)}, only (3,0) flagged in
   direction 1 with limits (-1, 1): children (3,1) (3,2); their parents (1,1) (1,2) and grand-parents (0,1) (0,2) are added
   (parents in direction 0), the hole (1,0) of the loaded set is added too because it is a parent of (1,1) *)
Example stable_completion :
  let pm := fun (q : idx) (dir : nat) => match q, dir with [3; 0], 1%nat => true | _, _ => false end in
  candidates Localp [-1; 1] [[0; 0]; [3; 0]] pm false false = [[3; 1]; [3; 2]] /\
  candidates Localp [-1; 1] [[0; 0]; [3; 0]] pm false true = [[0; 1]; [0; 2]; [1; 0]; [1; 1]; [1; 2]; [3; 1]; [3; 2]] /\
  lower_closed Localp [[0; 0]; [3; 0]] (candidates Localp [-1; 1] [[0; 0]; [3; 0]] pm false true) = true.
Proof. vm_compute. repeat split; reflexivity. Qed.

(* semi-local rule: the step-parent 2 of 3 is proposed when only it is missing (and then no children of 3);
   the same input under localp (no step-parents) proposes the children 5 6 of 3 *)
Example step_parent_proposed :
  let pm := fun (q : idx) (dir : nat) => match q with [3] => true | _ => false end in
  candidates Semilocalp [] [[0]; [1]; [3]] pm true false = [[2]] /\
  getParent Semilocalp 3 = 1 /\ getStepParent Semilocalp 3 = 2 /\
  candidates Localp [] [[0]; [1]; [3]] pm true false = [[5]; [6]].
Proof. vm_compute. repeat split; reflexivity. Qed.
