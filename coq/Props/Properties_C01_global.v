(* C01 for Global grids with NESTED one-dimensional rules - the combination-technique surrogate on a lower tensor set reproduces
   the loaded values at every grid point.  Statements only; proofs in Proofs/GlobalNestedInterp.v.

   xs : the nested node sequence (pairwise distinct);  n l : number of points of level l (strictly increasing, n 0 >= 1);
   ell xs n l i : Lagrange cardinal function of node i on the first n l nodes (the zero function when i >= n l);
   Dl xs n l i = ell l i - ell (l-1) i (Dl 0 = ell 0);  pts n s = { p : p_j < n (s_j) };  grid_points n Theta = union of pts n s;
   Aop xs n Theta f x = sum_{s in Theta} sum_{p in pts n s} f p * prod_j Dl (s_j) (p_j) (x_j)
   (GridGlobal::evaluate with the values f stored by loadNeededValues; lower = CombinationProofs.lower).                         *)
From TV Require Import Common.Prelude Proofs.CombinationProofs Proofs.LagrangeExact Proofs.GlobalNestedInterp.
From Coq Require Import QArith Qcanon.
Local Open Scope Qc_scope.

(* ---------- (1) one dimension ---------- *)
(* the differences telescope to the cardinal function of the top level (no hypothesis on xs, n) *)
Theorem c01_global_1d_telescope : forall (xs : nat -> Qc) (n : nat -> nat) (L i : nat) (x : Qc),
  sumf Qc 0 Qcplus (seq O (S L)) (fun l => Dl xs n l i x) = ell xs n L i x.
Proof. exact Dl_telescope. Qed.

(* the cardinal functions are Kronecker deltas on the nodes of their level *)
Theorem c01_global_1d_cardinal : forall (xs : nat -> Qc) (n : nat -> nat),
  (forall a b, xs a = xs b -> a = b) -> (1 <= n O)%nat -> (forall l, (n l < n (S l))%nat) ->
  forall L i q, (q < n L)%nat -> ell xs n L i (xs q) = if (i =? q)%nat then 1 else 0.
Proof. exact ell_at_node. Qed.

(* the difference of level l+1 vanishes at every node of level l *)
Theorem c01_global_1d_difference_vanishes : forall (xs : nat -> Qc) (n : nat -> nat),
  (forall a b, xs a = xs b -> a = b) -> (1 <= n O)%nat -> (forall l, (n l < n (S l))%nat) ->
  forall l i q, (q < n l)%nat -> Dl xs n (S l) i (xs q) = 0.
Proof. exact Dl_vanish. Qed.

(* ---------- (2) MAIN ---------- *)
(* every dimension d, every duplicate-free lower set Theta, every value assignment f, every point multi-index q whose vector of
   minimal levels (minlev n q_j = the least l with q_j < n l) belongs to Theta *)
Theorem c01_global_nested_reproduces : forall (xs : nat -> Qc) (n : nat -> nat),
  (forall a b, xs a = xs b -> a = b) -> (1 <= n O)%nat -> (forall l, (n l < n (S l))%nat) ->
  forall (d : nat) (Theta : list (list nat)) (f : list nat -> Qc) (q : list nat),
  NoDup Theta -> (forall s, In s Theta -> length s = d) -> lower Theta ->
  In (map (minlev n) q) Theta ->
  Aop xs n Theta f (map xs q) = f q.
Proof. exact global_nested_reproduces_minlev. Qed.

(* the same for q in the point set of ANY tensor t of Theta (q_j < n (t_j) for all j; t need not be minimal) *)
Theorem c01_global_nested_reproduces_tensor : forall (xs : nat -> Qc) (n : nat -> nat),
  (forall a b, xs a = xs b -> a = b) -> (1 <= n O)%nat -> (forall l, (n l < n (S l))%nat) ->
  forall (d : nat) (Theta : list (list nat)) (f : list nat -> Qc) (q t : list nat),
  NoDup Theta -> (forall s, In s Theta -> length s = d) -> lower Theta ->
  In t Theta -> Forall2 (fun qj tj => (qj < n tj)%nat) q t ->
  Aop xs n Theta f (map xs q) = f q.
Proof. exact global_nested_reproduces_tensor. Qed.

(* the same for every loaded point: q in the union of the tensor point sets *)
Theorem c01_global_nested_reproduces_loaded : forall (xs : nat -> Qc) (n : nat -> nat),
  (forall a b, xs a = xs b -> a = b) -> (1 <= n O)%nat -> (forall l, (n l < n (S l))%nat) ->
  forall (d : nat) (Theta : list (list nat)) (f : list nat -> Qc) (q : list nat),
  NoDup Theta -> (forall s, In s Theta -> length s = d) -> lower Theta ->
  In q (grid_points n Theta) ->
  Aop xs n Theta f (map xs q) = f q.
Proof. exact global_nested_reproduces. Qed.

(* ---------- (3) the grid points ---------- *)
(* the minimal level is what it says *)
Theorem c01_global_minlev_spec : forall (n : nat -> nat), (1 <= n O)%nat -> (forall l, (n l < n (S l))%nat) ->
  forall qj, (qj < n (minlev n qj))%nat.
Proof. exact minlev_in. Qed.

Theorem c01_global_minlev_least : forall (n : nat -> nat), (1 <= n O)%nat -> (forall l, (n l < n (S l))%nat) ->
  forall qj l, (qj < n l)%nat -> (minlev n qj <= l)%nat.
Proof. exact minlev_least. Qed.

(* membership in the point set of a tensor *)
Theorem c01_global_tensor_points : forall (n : nat -> nat), (1 <= n O)%nat -> (forall l, (n l < n (S l))%nat) ->
  forall q s, In q (pts n s) <-> Forall2 (fun qj sj => (qj < n sj)%nat) q s.
Proof. exact in_pts. Qed.

(* the union of the tensor point sets of a lower set is exactly the set of the point multi-indices whose minimal-level vector is in Theta:
   every loaded point qualifies for the MAIN theorem and conversely *)
Theorem c01_global_grid_points_characterised : forall (n : nat -> nat), (1 <= n O)%nat -> (forall l, (n l < n (S l))%nat) ->
  forall (Theta : list (list nat)) (q : list nat), lower Theta ->
  (In q (grid_points n Theta) <-> In (map (minlev n) q) Theta).
Proof. exact grid_points_minlev. Qed.

(* uniqueness: two value assignments whose surrogates agree at all grid points agree at all grid points *)
Theorem c01_global_values_unique : forall (xs : nat -> Qc) (n : nat -> nat),
  (forall a b, xs a = xs b -> a = b) -> (1 <= n O)%nat -> (forall l, (n l < n (S l))%nat) ->
  forall (d : nat) (Theta : list (list nat)) (f g : list nat -> Qc),
  NoDup Theta -> (forall s, In s Theta -> length s = d) -> lower Theta ->
  (forall q, In q (grid_points n Theta) -> Aop xs n Theta f (map xs q) = Aop xs n Theta g (map xs q)) ->
  forall q, In q (grid_points n Theta) -> f q = g q.
Proof. exact global_nested_values_unique. Qed.

(* the surrogate reads the values only at the grid points (what loadNeededValues supplies) *)
Theorem c01_global_reads_only_grid_points : forall (xs : nat -> Qc) (n : nat -> nat) (Theta : list (list nat)) (f g : list nat -> Qc) (x : list Qc),
  (forall q, In q (grid_points n Theta) -> f q = g q) -> Aop xs n Theta f x = Aop xs n Theta g x.
Proof. exact Aop_reads_grid_points. Qed.

(* ---------- non-vacuity ---------- *)
(* nodes 0, 1, -1, 1/2, -1/2, 5, 6, ... with n = 1, 3, 5, 6, 7, ... satisfy the hypotheses *)
Example c01_global_hyps_inhabited :
  (forall a b, ex_xs a = ex_xs b -> a = b) /\ (1 <= ex_n O)%nat /\ (forall l, (ex_n l < ex_n (S l))%nat).
Proof. exact (conj ex_xs_inj (conj ex_n_pos ex_n_incr)). Qed.

Example c01_global_ex_nodes : map (fun k => this (ex_xs k)) [0;1;2;3;4]%nat = [0#1; 1#1; (-1)#1; 1#2; (-1)#2]%Q.
Proof. vm_compute. reflexivity. Qed.

Example c01_global_ex_counts : map ex_n [0;1;2]%nat = [1;3;5]%nat /\ map (minlev ex_n) [0;1;2;3;4]%nat = [0;1;1;2;2]%nat.
Proof. vm_compute. split; reflexivity. Qed.

(* the 2-d lower set {(0,0),(1,0),(2,0),(0,1),(1,1)} is duplicate-free, 2-dimensional and lower; it has 11 distinct points *)
Example c01_global_ex_Theta_ok : NoDup ex_Theta2 /\ (forall s, In s ex_Theta2 -> length s = 2%nat) /\ lower ex_Theta2.
Proof. exact (conj ex_Theta2_nodup (conj ex_Theta2_len ex_Theta2_lower)). Qed.

Example c01_global_ex_point_count : length (ex_points ex_Theta2) = 11%nat.
Proof. vm_compute. reflexivity. Qed.

(* by computation: the surrogate of the concrete values ex_f equals ex_f at all 11 grid points *)
Example c01_global_ex_by_computation :
  forallb (fun q => Qc_eq_bool (Aop ex_xs ex_n ex_Theta2 ex_f (map ex_xs q)) (ex_f q)) (ex_points ex_Theta2) = true.
Proof. vm_compute. reflexivity. Qed.

(* ... and one of them through the theorem: the point (3,0) = node (1/2, 0), minimal levels (2,0) *)
Example c01_global_ex_by_theorem : Aop ex_xs ex_n ex_Theta2 ex_f (map ex_xs [3;0]%nat) = ex_f [3;0]%nat.
Proof.
  apply (c01_global_nested_reproduces ex_xs ex_n ex_xs_inj ex_n_pos ex_n_incr 2 ex_Theta2 ex_f [3;0]%nat
           ex_Theta2_nodup ex_Theta2_len ex_Theta2_lower).
  vm_compute. right; right; left; reflexivity.
Qed.

(* the values are not trivial: ex_f takes 11 different values on the 11 points, e.g. f(3,0) = 37/4, f(1,2) = -17/2 *)
Example c01_global_ex_values : this (ex_f [3;0]%nat) = (37#4)%Q /\ this (ex_f [1;2]%nat) = ((-17)#2)%Q.
Proof. vm_compute. split; reflexivity. Qed.

(* away from the grid points the surrogate is a genuine interpolant, not the table: at x = (1/3, 1/5) *)
Example c01_global_ex_off_grid : Aop ex_xs ex_n ex_Theta2 ex_f [Q2Qc (1#3); Q2Qc (1#5)] <> 0.
Proof. intro H. apply (f_equal this) in H. vm_compute in H. discriminate H. Qed.

(* ---------- (4) the lower-set hypothesis matters ---------- *)
(* Theta = {(1)} alone (not lower: (0) is missing), f = 1 at point 0: the surrogate is 0 at the node of point 0 *)
Example c01_global_not_lower_refuted :
  NoDup [[1%nat]] /\ (forall s, In s [[1%nat]] -> length s = 1%nat) /\ In [0%nat] (grid_points ex_n [[1%nat]]) /\
  Aop ex_xs ex_n [[1%nat]] (fun p => match p with [O] => 1 | _ => 0 end) (map ex_xs [0%nat]) = 0.
Proof.
  split; [repeat constructor; intros []|]. split; [intros s [<-|[]]; reflexivity|]. split; [vm_compute; left; reflexivity|].
  apply Qc_is_canon. vm_compute. reflexivity.
Qed.

Print Assumptions c01_global_1d_telescope.
Print Assumptions c01_global_1d_cardinal.
Print Assumptions c01_global_1d_difference_vanishes.
Print Assumptions c01_global_nested_reproduces.
Print Assumptions c01_global_nested_reproduces_tensor.
Print Assumptions c01_global_nested_reproduces_loaded.
Print Assumptions c01_global_minlev_spec.
Print Assumptions c01_global_minlev_least.
Print Assumptions c01_global_tensor_points.
Print Assumptions c01_global_grid_points_characterised.
Print Assumptions c01_global_values_unique.
Print Assumptions c01_global_reads_only_grid_points.
