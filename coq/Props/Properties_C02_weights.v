(* C02 / C03 — the tensor weights of the combination technique (MultiIndexManipulations::computeTensorWeights).  Statements only.
   Model: Model/TensorWeights.v.  The theorems are about tw_lines; tw_cpp (the mirror of the C++ control flow: sorted position maps, runs,
   in-place sweeps by position) is compared with tw_lines and with the implementation on every case of the tie (props/c02weights.py);
   tw_cpp = tw_lines is NOT proved. *)
From TV Require Import Common.Prelude Model.IndexSets Model.TensorWeights.
From TV Require Import Proofs.IndexSetsProofs Proofs.TensorSelectProofs Proofs.TensorWeightsProofs.
Local Open Scope Z_scope.

(* (a) the in-place backward sweep  for i = n-1 downto 0: a[i] -= sum_{j>i} a[j]  (later entries already updated) on a line a_0..a_n,
   whatever its length: b_i = a_i - a_{i+1}, b_n = a_n (nth beyond the end is 0) *)
Theorem c02w_sweep_line_differences : forall (a : list Z) (i : nat), (i < length a)%nat ->
  length (sweep_vals a) = length a /\ nth i (sweep_vals a) 0 = nth i a 0 - nth (S i) a 0.
Proof. exact (fun a i H => conj (sweep_vals_length a) (sweep_vals_spec a i H)). Qed.

(* (a, by position) the in-place sweep of tw_cpp over the positions ps of one line (pairwise distinct, inside the weight vector w): the
   values at ps become the swept values of the line, every other entry is unchanged *)
Theorem c02w_sweep_by_position : forall (ps : list nat) (w : list Z), NoDup ps -> (forall p, In p ps -> (p < length w)%nat) ->
  length (sweep_line ps w) = length w /\
  map (fun p => nth p (sweep_line ps w) 0) ps = sweep_vals (map (fun p => nth p w 0) ps) /\
  (forall q, ~ In q ps -> nth q (sweep_line ps w) 0 = nth q w 0).
Proof. exact sweep_line_spec. Qed.

(* (a') all the lines of one direction at once, on ANY duplicate-free set l (lower or not, lines with gaps): after the sweeps of
   direction d the weight of t0 is its old weight minus the old weight of the NEXT member of its line (the first index after t0 in the
   set that agrees with t0 outside d), or its old weight when t0 is the last of its line *)
Theorem c02w_sweep_direction : forall (d : nat) (l pre : list idx) (t0 : idx) (rest : list idx) (W : wstate),
  l = pre ++ t0 :: rest -> NoDup l -> incl l (map fst W) ->
  getw (sweep_dim d l W) t0 = getw W t0 - match filter (match_outside d t0) rest with [] => 0 | s :: _ => getw W s end.
Proof. exact sweep_dim_at. Qed.

(* (b) MAIN: for every dimension D >= 1 and every non-empty LOWER set Theta of multi-indexes with non-negative entries, strictly sorted in
   the lexicographic order (what MultiIndexSet stores), the computed weight of every t is the inclusion-exclusion value
   sum over e in {0,1}^D with t + e in Theta of (-1)^|e| *)
Theorem c02w_weights_inclusion_exclusion : forall (D : nat) (Theta : list idx),
  sorted Theta -> wf D Theta -> (forall t, In t Theta -> nonneg t) -> lowerZ Theta -> (1 <= D)%nat -> Theta <> [] ->
  tw_lines Theta = map (incl_excl Theta) Theta.
Proof. exact tw_lines_incl_excl. Qed.

(* the inclusion-exclusion value is the iterated difference (1 - shift_0) ... (1 - shift_{D-1}) of the indicator of the set *)
Theorem c02w_inclusion_exclusion_iterated_difference : forall (s : list idx) (t : idx),
  incl_excl s t = iter_diff (chi s) (seq 0 (length t)) t.
Proof. exact incl_excl_iter_diff. Qed.

(* (c) inactive tensors: when t + (1,...,1) belongs to the lower set the weight of t is 0 *)
Theorem c02w_inactive_tensor_weight_zero : forall (D : nat) (Theta : list idx),
  sorted Theta -> wf D Theta -> (forall t, In t Theta -> nonneg t) -> lowerZ Theta -> (1 <= D)%nat ->
  forall i, (i < length Theta)%nat -> In (map (fun x => x + 1) (nth i Theta [])) Theta -> nth i (tw_lines Theta) 0 = 0.
Proof. exact tw_lines_inactive. Qed.

(* (c) the weights of a non-empty lower set sum to 1 *)
Theorem c02w_weights_sum_to_one : forall (D : nat) (Theta : list idx),
  sorted Theta -> wf D Theta -> (forall t, In t Theta -> nonneg t) -> lowerZ Theta -> (1 <= D)%nat -> Theta <> [] ->
  zsum (tw_lines Theta) = 1.
Proof. exact weights_sum_one. Qed.

(* (c') the combination technique is the sum of the mixed differences: for EVERY family V of integers indexed by multi-indexes
   (V(t) = the tensor operator U_t applied to a fixed function and evaluated / integrated),
   sum_t w(t) * V(t) = sum_t (mixed backward difference of V)(t), which for V(t) = prod_j u_j(t_j) is sum_t prod_j (u_j(t_j) - u_j(t_j - 1)),
   the form `comb_exact` (c02_combination_exact, c03_combination_exact) is stated in.  (Z-valued families; the specialisation to
   products and to the `list nat` indexes of CombinationProofs is not carried out here.) *)
Theorem c02w_weights_mixed_differences : forall (D : nat) (Theta : list idx),
  sorted Theta -> wf D Theta -> (forall t, In t Theta -> nonneg t) -> lowerZ Theta ->
  forall V : idx -> Z, (1 <= D)%nat -> Theta <> [] ->
  zsum (map2 Z.mul (tw_lines Theta) (map V Theta)) = zsum (map (iter_back V (seq 0 D)) Theta).
Proof. exact weights_mixed_differences. Qed.

(* non-vacuity *)
Definition ex2 : list idx := [[0;0];[0;1];[0;2];[1;0];[1;1];[2;0]].
Definition ex3 : list idx := [[0;0;0];[0;0;1];[0;1;0];[0;1;1];[1;0;0];[1;0;1];[1;1;0];[2;0;0]].
Definition ex_notlower : list idx := [[0;0];[0;2];[1;1];[2;0];[2;2]].
Example c02w_example_2d : tw_lines ex2 = [0;-1;1;-1;1;1] /\ tw_cpp ex2 = [0;-1;1;-1;1;1] /\ map (incl_excl ex2) ex2 = [0;-1;1;-1;1;1].
Proof. vm_compute. repeat split; reflexivity. Qed.
Example c02w_example_3d : tw_lines ex3 = [1;-1;-1;1;-2;1;1;1] /\ tw_cpp ex3 = tw_lines ex3 /\ map (incl_excl ex3) ex3 = tw_lines ex3 /\ zsum (tw_lines ex3) = 1.
Proof. vm_compute. repeat split; reflexivity. Qed.
Example c02w_example_1d : tw_lines [[0];[1];[2]] = [0;0;1] /\ tw_cpp [[0];[1];[2]] = [0;0;1] /\ map (incl_excl [[0];[1];[2]]) [[0];[1];[2]] = [0;0;1].
Proof. vm_compute. repeat split; reflexivity. Qed.
(* a set that is NOT lower (lines with gaps: (0,0),(0,2) are neighbours in their line): the computed values; they are not the
   inclusion-exclusion values *)
Example c02w_example_not_lower : tw_cpp ex_notlower = tw_lines ex_notlower /\ tw_lines ex_notlower = [0;0;1;0;1]
  /\ map (incl_excl ex_notlower) ex_notlower = [2;1;2;1;1].
Proof. vm_compute. repeat split; reflexivity. Qed.
Definition exV (t : idx) : Z := (nth 0 t 0 + 1) * (nth 0 t 0 + 1) * (3 * nth 1 t 0 + 2).
Example c02w_example_mixed : zsum (map2 Z.mul (tw_lines ex2) (map exV ex2)) = 33 /\ zsum (map (iter_back exV (seq 0 2)) ex2) = 33.
Proof. vm_compute. split; reflexivity. Qed.
Example c02w_sweep_example : sweep_vals [5;3;4;1] = [2;-1;3;1].
Proof. reflexivity. Qed.

Print Assumptions c02w_sweep_line_differences.
Print Assumptions c02w_sweep_by_position.
Print Assumptions c02w_sweep_direction.
Print Assumptions c02w_weights_inclusion_exclusion.
Print Assumptions c02w_inclusion_exclusion_iterated_difference.
Print Assumptions c02w_inactive_tensor_weight_zero.
Print Assumptions c02w_weights_sum_to_one.
Print Assumptions c02w_weights_mixed_differences.
