(* RuleLocalGen — the integer hierarchy functions of namespace RuleLocal REGENERATED from the current header
   (gen/RuleLocalGen.v by translator/rulelocal.py, rebuilt on every run) agree with the hand-written model
   Model/RuleLocal.v on every non-negative point / level, so that every theorem about the model (C01, C04, C07, C08) is
   re-checked against what the header says now; and the key hierarchy facts, stated purely over the generated functions.
   Statements only; proofs are in Proofs/RuleLocalGenProofs.v. *)
From TV Require Import Common.Prelude Model.RuleLocal gen.RuleLocalGen Proofs.RuleLocalProofs Proofs.RuleLocalGenProofs.
Local Open Scope Z_scope.

(* ---- the regenerated functions are the model ---- *)
Theorem rlg_intlog2 : forall i, 0 <= i -> g_intlog2 i = intlog2 i.
Proof. exact g_intlog2_eq. Qed.
Theorem rlg_int2log2 : forall i, 0 <= i -> g_int2log2 i = int2log2 i.
Proof. exact g_int2log2_eq. Qed.
Theorem rlg_int3log3 : forall i, 0 <= i -> g_int3log3 i = int3log3 i.
Proof. exact g_int3log3_eq. Qed.
Theorem rlg_getNumPoints : forall r level, 0 <= level -> g_getNumPoints r level = getNumPoints r level.
Proof. exact g_getNumPoints_eq. Qed.
Theorem rlg_getMaxNumKids : forall r, g_getMaxNumKids r = getMaxNumKids r.
Proof. exact g_getMaxNumKids_eq. Qed.
Theorem rlg_getMaxNumParents : forall r, g_getMaxNumParents r = getMaxNumParents r.
Proof. exact g_getMaxNumParents_eq. Qed.
Theorem rlg_getParent : forall r p, 0 <= p -> g_getParent r p = getParent r p.
Proof. exact g_getParent_eq. Qed.
Theorem rlg_getStepParent : forall r p, 0 <= p -> g_getStepParent r p = getStepParent r p.
Proof. exact g_getStepParent_eq. Qed.
Theorem rlg_getKid : forall r p k, 0 <= p -> (k = 0 \/ k = 1 \/ k = 2 \/ k = 3) -> g_getKid r p k = getKid r p k.
Proof. exact g_getKid_eq. Qed.
Theorem rlg_getLevel : forall r p, 0 <= p -> g_getLevel r p = getLevel r p.
Proof. exact g_getLevel_eq. Qed.

(* ---- hierarchy facts over the generated functions only (binary rules: localp, semilocalp, localp0, localpb) ---- *)
(* a kid is exactly one level below the point it was generated from *)
Theorem rlg_kid_level : forall r p k, r <> Pwc -> 0 <= p -> (k = 0 \/ k = 1) ->
  g_getKid r p k <> -1 -> g_getLevel r (g_getKid r p k) = g_getLevel r p + 1.
Proof. exact g_kid_level. Qed.
(* the parent or the step-parent of a kid is the point it was generated from *)
Theorem rlg_kid_parent : forall r p k, r <> Pwc -> 0 <= p -> (k = 0 \/ k = 1) ->
  g_getKid r p k <> -1 -> g_getParent r (g_getKid r p k) = p \/ g_getStepParent r (g_getKid r p k) = p.
Proof. exact g_kid_parent. Qed.
(* every parent / step-parent of a point is a point (>= 0) of a strictly smaller level *)
Theorem rlg_parents_level : forall r p q, r <> Pwc -> 0 <= p -> (q = g_getParent r p \/ q = g_getStepParent r p) -> q <> -1 ->
  0 <= q /\ g_getLevel r q < g_getLevel r p.
Proof. exact g_parents_level. Qed.
Theorem rlg_level_nonneg : forall r p, r <> Pwc -> 0 <= p -> 0 <= g_getLevel r p.
Proof. exact g_level_nonneg. Qed.

(* non-vacuity: the generated functions compute (values of the header: parent of 5 is 3, kids of 3 are 5 and 6, level 3) *)
Example rlg_ex_localp : (g_getParent Localp 5, g_getKid Localp 3 0, g_getKid Localp 3 1, g_getLevel Localp 5, g_getStepParent Semilocalp 3)
                        = (3, 5, 6, 3, 2).
Proof. vm_compute. reflexivity. Qed.
Example rlg_ex_pwc : (g_getNumPoints Pwc 4, g_getLevel Pwc 26, g_getKid Pwc 4 3, g_getStepParent Pwc 14, g_int3log3 26) = (81, 3, 15, 5, 27).
Proof. vm_compute. reflexivity. Qed.

Print Assumptions rlg_intlog2.
Print Assumptions rlg_int2log2.
Print Assumptions rlg_int3log3.
Print Assumptions rlg_getNumPoints.
Print Assumptions rlg_getMaxNumKids.
Print Assumptions rlg_getMaxNumParents.
Print Assumptions rlg_getParent.
Print Assumptions rlg_getStepParent.
Print Assumptions rlg_getKid.
Print Assumptions rlg_getLevel.
Print Assumptions rlg_kid_level.
Print Assumptions rlg_kid_parent.
Print Assumptions rlg_parents_level.
Print Assumptions rlg_level_nonneg.
