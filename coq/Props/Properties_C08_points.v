(* C08 (points; also serves C01, C07) - WHICH POINTS a Global / Fourier grid holds: MultiIndexManipulations::generateNestedPoints
   (the union over the tensors of the delta blocks), createActiveTensors, getMaxIndexes, and "needed = new points minus loaded" of
   GridGlobal / GridFourier proposeUpdatedTensors + acceptUpdatedTensors.  Model: Model/NestedPoints.v.
   For EVERY dimension d, EVERY point count n with n(0) >= 1 and n(l) < n(l+1) for l >= 0 (`growth_ok`; proved for every generated
   table g_numPoints r) and EVERY list Theta of tensors with d non-negative entries (`tensors_ok d Theta`: wf d Theta /\ all nonneg),
   lower or not.   in_delta n p t : forall j, offset(t_j) <= p_j < n(t_j)  with offset(l) = n(l-1) for l > 0 and 0 for l = 0.
                   in_box p np    : forall j, 0 <= p_j < np_j.             le_idx s t : forall j, 0 <= s_j <= t_j.
                   lowerZ Theta   : t in Theta, le_idx s t -> s in Theta.
   NOT covered: overflow of int / size_t, a point count that does not grow (rule_customtabulated is not generated), the non-nested
   rules' generateNonNestedPoints (modelled, `nonnested_points`, no theorem), the values attached to the points.
   Statements only; proofs are in Proofs/NestedPointsProofs.v. *)
From TV Require Import Common.Prelude Model.IndexSets gen.ExactnessGen Model.TensorSelect Model.NestedPoints.
From TV Require Import Proofs.IndexSetsProofs Proofs.ExactnessProofs Proofs.TensorSelectProofs Proofs.NestedPointsProofs.
Local Open Scope Z_scope.

(* ---- the model of one block IS the C++ loop: decoding k = 0 .. num_total-1 in the mixed radix num_points_delta with the offsets
        added lists the nested product in lexicographic order, and the sorting constructor MultiIndexSet(raw_points) moves nothing ---- *)
Theorem c08p_delta_block_is_product : forall n t, growth_ok n -> nonneg t -> delta_block n t = delta_product n t.
Proof. exact delta_block_product. Qed.

Theorem c08p_delta_loop_already_sorted : forall n t, growth_ok n -> nonneg t -> delta_raw n t = delta_block n t.
Proof. exact delta_raw_sorted. Qed.

Theorem c08p_delta_block_membership : forall n t p, In p (delta_product n t) <-> in_delta n p t.
Proof. exact delta_product_spec. Qed.

(* ---- (a) membership ---- *)
Theorem c08p_points_membership : forall n d, growth_ok n -> forall Theta, tensors_ok d Theta ->
  forall p, In p (nested_points n Theta) <-> exists t, In t Theta /\ in_delta n p t.
Proof. exact nested_points_spec. Qed.

(* the minimal level of a 1-d point index: the unique l >= 0 with offset(l) <= x < n(l) *)
Theorem c08p_level_of_point : forall n x, growth_ok n -> 0 <= x -> 0 <= level1 n x /\ offset_of n (level1 n x) <= x < n (level1 n x).
Proof. exact level1_in. Qed.

Theorem c08p_level_unique : forall n x l, growth_ok n -> 0 <= l -> offset_of n l <= x < n l -> l = level1 n x.
Proof. exact level1_unique. Qed.

(* p is a point of the grid iff its vector of minimal levels is one of the tensors *)
Theorem c08p_points_by_level : forall n d, growth_ok n -> forall Theta, tensors_ok d Theta ->
  forall p, In p (nested_points n Theta) <-> nonneg p /\ In (level_of n p) Theta.
Proof. exact nested_points_level. Qed.

(* delta blocks of different tensors are disjoint *)
Theorem c08p_delta_blocks_disjoint : forall n, growth_ok n -> forall s t p, nonneg s -> nonneg t ->
  In p (delta_block n s) -> In p (delta_block n t) -> s = t.
Proof. exact delta_blocks_disjoint. Qed.

(* ---- (b) a LOWER set: the union of the FULL tensor blocks; any dominating subset (the active tensors) gives the same set ---- *)
Theorem c08p_lower_points_are_full_blocks : forall n d, growth_ok n -> forall Theta, tensors_ok d Theta -> lowerZ Theta ->
  forall p, In p (nested_points n Theta) <-> exists t, In t Theta /\ in_box p (map n t).
Proof. exact nested_points_lower_box. Qed.

Theorem c08p_lower_points_eq_full_points : forall n d, growth_ok n -> forall Theta, tensors_ok d Theta -> lowerZ Theta ->
  nested_points n Theta = full_points n Theta.
Proof. exact nested_points_lower_full. Qed.

Theorem c08p_full_points_membership : forall n d S, wf d S -> forall p, In p (full_points n S) <-> exists t, In t S /\ in_box p (map n t).
Proof. exact full_points_spec. Qed.

Theorem c08p_points_of_dominating_subset : forall n d, growth_ok n -> forall Theta S, tensors_ok d Theta -> lowerZ Theta -> incl S Theta ->
  (forall t, In t Theta -> exists s, In s S /\ le_idx t s) -> nested_points n Theta = full_points n S.
Proof. exact nested_points_dominating. Qed.

(* createActiveTensors keeps the tensors with a non-zero weight, in order *)
Theorem c08p_active_tensors_membership : forall T w t, length T = length w ->
  (In t (active_tensors T w) <-> exists k, nth_error T k = Some t /\ exists x, nth_error w k = Some x /\ x <> 0).
Proof. exact active_tensors_spec. Qed.

Theorem c08p_active_tensors_subset : forall T w, incl (active_tensors T w) T.
Proof. exact active_tensors_incl. Qed.

Theorem c08p_active_weights_length : forall T w, length T = length w -> length (active_tensors T w) = length (active_weights w).
Proof. exact active_weights_length. Qed.

(* the domination hypothesis is explicit (for the weights of computeTensorWeights it is the statement "every maximal tensor has weight 1") *)
Theorem c08p_points_of_active_tensors : forall n d Theta w, growth_ok n -> tensors_ok d Theta -> lowerZ Theta ->
  (forall t, In t Theta -> exists s, In s (active_tensors Theta w) /\ le_idx t s) ->
  nested_points n Theta = full_points n (active_tensors Theta w).
Proof. exact nested_points_active. Qed.

(* ---- (c) a MultiIndexSet: entries of length d, strictly sorted, no duplicates; number of points ---- *)
Theorem c08p_points_wf : forall n d, growth_ok n -> forall Theta, tensors_ok d Theta -> wf d (nested_points n Theta).
Proof. exact nested_points_wf. Qed.

Theorem c08p_points_sorted : forall n d, growth_ok n -> forall Theta, tensors_ok d Theta -> sorted (nested_points n Theta).
Proof. exact nested_points_sorted. Qed.

Theorem c08p_points_nodup : forall n d, growth_ok n -> forall Theta, tensors_ok d Theta -> NoDup (nested_points n Theta).
Proof. exact nested_points_nodup. Qed.

(* sum_sizes n Theta = sum over t in Theta of prod_j (n(t_j) - offset(t_j)) *)
Theorem c08p_points_count : forall n d, growth_ok n -> forall Theta, tensors_ok d Theta -> NoDup Theta ->
  Z.of_nat (length (nested_points n Theta)) = sum_sizes n Theta.
Proof. exact nested_points_count. Qed.

(* ---- (d) monotone; needed = points(updated) minus loaded; loaded + needed = points(updated) ---- *)
Theorem c08p_points_monotone : forall n d, growth_ok n -> forall Theta Theta', tensors_ok d Theta -> tensors_ok d Theta' -> incl Theta Theta' ->
  incl (nested_points n Theta) (nested_points n Theta').
Proof. exact nested_points_mono. Qed.

Theorem c08p_needed_is_new_minus_loaded : forall n d, growth_ok n -> forall Theta' loaded, tensors_ok d Theta' -> wf d loaded -> sorted loaded ->
  forall p, In p (needed_points n Theta' loaded) <-> In p (nested_points n Theta') /\ ~ In p loaded.
Proof. exact needed_points_spec. Qed.

Theorem c08p_needed_sorted : forall n d, growth_ok n -> forall Theta' loaded, tensors_ok d Theta' ->
  sorted (needed_points n Theta' loaded) /\ wf d (needed_points n Theta' loaded).
Proof. exact needed_points_sorted. Qed.

Theorem c08p_loaded_plus_needed : forall n d, growth_ok n -> forall Theta Theta', tensors_ok d Theta -> tensors_ok d Theta' -> incl Theta Theta' ->
  accepted_points (nested_points n Theta) (needed_points n Theta' (nested_points n Theta)) = nested_points n Theta'.
Proof. exact accepted_points_eq. Qed.

(* ---- (e) the points of a lower tensor set form a lower set of point indexes ---- *)
Theorem c08p_points_lower : forall n d, growth_ok n -> forall Theta, tensors_ok d Theta -> lowerZ Theta -> lowerZ (nested_points n Theta).
Proof. exact nested_points_lower. Qed.

(* ---- getMaxIndexes bounds every tensor ---- *)
Theorem c08p_max_indexes_bound : forall d Theta t, wf d Theta -> In t Theta -> Forall2 Z.le t (max_indexes d Theta).
Proof. exact max_indexes_bound. Qed.

(* ---- every point count generated from the source (OneDimensionalMeta::getNumPoints) satisfies the hypothesis ---- *)
Theorem c08p_generated_counts_grow : forall r, growth_ok (g_numPoints r).
Proof. exact numPoints_growth_ok. Qed.

(* ---- non-vacuity: n(0) = 1, n(1) = 3, n(2) = 5, n(3) = 9 (clenshaw-curtis) ---- *)
Example c08p_ex_counts : map (g_numPoints rule_clenshawcurtis) [0; 1; 2; 3] = [1; 3; 5; 9].
Proof. vm_compute. reflexivity. Qed.
Example c08p_ex_2d_lower :
  nested_points (g_numPoints rule_clenshawcurtis) [[0; 0]; [0; 1]; [1; 0]] = [[0; 0]; [0; 1]; [0; 2]; [1; 0]; [2; 0]] /\
  nested_points (g_numPoints rule_clenshawcurtis) [[0; 0]; [0; 1]; [1; 0]] = full_points (g_numPoints rule_clenshawcurtis) [[0; 1]; [1; 0]] /\
  active_tensors [[0; 0]; [0; 1]; [1; 0]] [-1; 1; 1] = [[0; 0]; [0; 1]; [1; 0]] /\
  active_tensors [[0; 0]; [0; 1]] [0; 1] = [[0; 1]] /\ active_weights [0; 1] = [1].
Proof. vm_compute. repeat split. Qed.
Example c08p_ex_2d_not_lower :
  nested_points (g_numPoints rule_clenshawcurtis) [[1; 2]] = [[1; 3]; [1; 4]; [2; 3]; [2; 4]] /\
  delta_raw (g_numPoints rule_clenshawcurtis) [1; 2] = [[1; 3]; [1; 4]; [2; 3]; [2; 4]] /\
  level_of (g_numPoints rule_clenshawcurtis) [2; 3] = [1; 2] /\
  sum_sizes (g_numPoints rule_clenshawcurtis) [[1; 2]] = 4.
Proof. vm_compute. repeat split. Qed.
Example c08p_ex_3d :
  nested_points (g_numPoints rule_clenshawcurtis) [[0; 0; 0]; [0; 0; 1]; [0; 1; 0]; [1; 0; 0]; [2; 0; 0]] =
    [[0; 0; 0]; [0; 0; 1]; [0; 0; 2]; [0; 1; 0]; [0; 2; 0]; [1; 0; 0]; [2; 0; 0]; [3; 0; 0]; [4; 0; 0]] /\
  sum_sizes (g_numPoints rule_clenshawcurtis) [[0; 0; 0]; [0; 0; 1]; [0; 1; 0]; [1; 0; 0]; [2; 0; 0]] = 9 /\
  max_indexes 3 [[0; 0; 0]; [0; 0; 1]; [0; 1; 0]; [1; 0; 0]; [2; 0; 0]] = [2; 1; 1] /\
  levels [[0; 0; 0]; [0; 0; 1]; [0; 1; 0]; [1; 0; 0]; [2; 0; 0]] = [0; 1; 1; 1; 2].
Proof. vm_compute. repeat split. Qed.
Example c08p_ex_needed :
  let n := g_numPoints rule_clenshawcurtis in
  let loaded := nested_points n [[0; 0]; [0; 1]; [1; 0]] in
  needed_points n [[0; 0]; [0; 1]; [1; 0]; [1; 1]; [2; 0]] loaded = [[1; 1]; [1; 2]; [2; 1]; [2; 2]; [3; 0]; [4; 0]] /\
  accepted_points loaded (needed_points n [[0; 0]; [0; 1]; [1; 0]; [1; 1]; [2; 0]] loaded) = nested_points n [[0; 0]; [0; 1]; [1; 0]; [1; 1]; [2; 0]].
Proof. vm_compute. repeat split. Qed.
(* a count that does not grow is outside the theorems: the blocks of levels 0 and 1 would overlap / be empty *)
Example c08p_ex_growth_needed : nested_points (fun _ => 1) [[0]; [1]] = [[0]] /\ ~ growth_ok (fun _ => 1).
Proof. split; [vm_compute; reflexivity|]. intros [_ H]. specialize (H 0). lia. Qed.

Print Assumptions c08p_delta_block_is_product.
Print Assumptions c08p_delta_loop_already_sorted.
Print Assumptions c08p_delta_block_membership.
Print Assumptions c08p_points_membership.
Print Assumptions c08p_level_of_point.
Print Assumptions c08p_level_unique.
Print Assumptions c08p_points_by_level.
Print Assumptions c08p_delta_blocks_disjoint.
Print Assumptions c08p_lower_points_are_full_blocks.
Print Assumptions c08p_lower_points_eq_full_points.
Print Assumptions c08p_full_points_membership.
Print Assumptions c08p_points_of_dominating_subset.
Print Assumptions c08p_active_tensors_membership.
Print Assumptions c08p_active_tensors_subset.
Print Assumptions c08p_active_weights_length.
Print Assumptions c08p_points_of_active_tensors.
Print Assumptions c08p_points_wf.
Print Assumptions c08p_points_sorted.
Print Assumptions c08p_points_nodup.
Print Assumptions c08p_points_count.
Print Assumptions c08p_points_monotone.
Print Assumptions c08p_needed_is_new_minus_loaded.
Print Assumptions c08p_needed_sorted.
Print Assumptions c08p_loaded_plus_needed.
Print Assumptions c08p_points_lower.
Print Assumptions c08p_max_indexes_bound.
Print Assumptions c08p_generated_counts_grow.
