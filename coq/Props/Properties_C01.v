(* C01 — the interpolant reproduces the loaded model values at every loaded point.  Statements only. *)
From TV Require Import Common.Prelude Model.IndexSets Model.GridState Model.RuleLocal Model.Selection Model.Hier Model.LocalGrid.
From TV Require Import Model.SequenceGrid Proofs.IndexSetsProofs Proofs.GridStateProofs Proofs.HierProofs Proofs.LocalGridProofs Proofs.SequenceProofs.
From TV Require Import Proofs.LocalComplete Model.StdGrid Proofs.StdGridProofs.
From Coq Require Import QArith Qcanon Ring.
Local Open Scope Z_scope.

Section AnyRing.
  (* any commutative ring, any index type, any basis matrix B and any visiting function reach *)
  Variable R : Type.
  Variables (rO rI : R) (radd rmul rsub : R -> R -> R) (ropp : R -> R).
  Hypothesis Rth : ring_theory rO rI radd rmul rsub ropp eq.
  Variable I : Type.
  Variable ieqb : I -> I -> bool.
  Hypothesis ieqb_spec : forall a b, reflect (a = b) (ieqb a b).
  Variable B : I -> I -> R.
  Variable reach : I -> list I.
  Variable v : I -> R.
  Variable nodes : list I.
  Hypothesis nodes_nodup : NoDup nodes.
  Hypothesis G1 : forall i, In i nodes -> B i i = rI.                                            (* basis i is 1 at its own node *)
  Hypothesis reach_nodup : forall i, In i nodes -> NoDup (reach i).
  Hypothesis reach_in : forall i j, In i nodes -> In j (reach i) -> In j nodes /\ j <> i.
  Hypothesis G2 : forall i j, In i nodes -> In j nodes -> j <> i -> ~ In j (reach i) -> B i j = rO.   (* zero outside the visited ancestors *)
  Hypothesis topo : forall pre i post, nodes = pre ++ i :: post -> forall j, In j (reach i) -> In j pre.  (* ancestors are processed first *)

  (* the surpluses computed by the forward pass reproduce every supplied value *)
  Theorem c01_hier_reproduces : forall i, In i nodes ->
    Hier.sum R rO radd I nodes (fun j => rmul (B i j) (Hier.lookup R rO I ieqb j (coef R rO radd rmul rsub I ieqb B reach v nodes))) = v i.
  Proof. exact (hier_reproduces R rO rI radd rmul rsub ropp Rth I ieqb ieqb_spec B reach v nodes nodes_nodup G1 reach_nodup reach_in G2 topo). Qed.

  Theorem c01_interp_at_node : forall i, In i nodes ->
    interp R rO radd rmul rsub I ieqb B reach v nodes (fun j => B i j) = v i.
  Proof. exact (interp_at_node R rO rI radd rmul rsub ropp Rth I ieqb ieqb_spec B reach v nodes nodes_nodup G1 reach_nodup reach_in G2 topo). Qed.
End AnyRing.

(* Local Polynomial grids (all rules, all orders, all dimensions): every point set that passes the decidable
   certificate reproduces the supplied values exactly at all its nodes.  The certificate is evaluated by the
   extracted model on every grid of the implementation that the check visits. *)
Theorem c01_localpoly_certified : forall r order pts (vals : list (idx * Qc)),
  hier_cert r order pts = true ->
  forall i, In i (by_level r pts) -> evalAt r order pts vals (LocalGrid.node_of r i) = assoc vals i.
Proof. exact localgrid_reproduces. Qed.

(* Local Polynomial grids, UNBOUNDED: for every binary rule (localp, semi-localp, localp-zero, localp-boundary), EVERY order, EVERY
   dimension and EVERY duplicate-free point set that contains the parents of its points (all grids made by makeLocalPolynomialGrid
   and every refinement that keeps the hierarchy complete) the model of updateSurpluses + evaluate returns the supplied value at
   every node.  No certificate, no bound: the certificate is PROVED to hold (Proofs/LocalClosure.v from the one-dimensional tree
   facts of Proofs/LocalTree1D.v: the basis of a point is one at its node and vanishes at every node that is not a descendant). *)
Theorem c01_localpoly_complete_unbounded : forall r order d pts (vals : list (idx * Qc)),
  binary r -> wellformed d pts -> parent_complete r pts = true ->
  forall i, In i pts -> evalAt r order pts vals (LocalGrid.node_of r i) = assoc vals i.
Proof. exact localpoly_complete_reproduces. Qed.

(* ... and the certificate that the runner evaluates on the implementation's grids can only fail on an incomplete hierarchy *)
Theorem c01_certificate_complete : forall r order d pts,
  binary r -> wellformed d pts -> parent_complete r pts = true -> hier_cert r order pts = true.
Proof. exact localpoly_complete_cert. Qed.

(* every grid built by makeLocalPolynomialGrid (all multi-indexes with level sum <= depth; Model/StdGrid.v, compared with the
   implementation's point sets by the check) is well formed and parent complete, for EVERY dimension and depth: it reproduces *)
Theorem c01_standard_grids_unbounded : forall r d depth, binary r -> 0 <= depth ->
  forall order (vals : list (idx * Qc)) i, In i (std_grid r d depth) ->
    evalAt r order (std_grid r d depth) vals (LocalGrid.node_of r i) = assoc vals i.
Proof. exact std_grid_reproduces. Qed.

Theorem c01_standard_grid_points : forall r d, binary r -> forall depth p, 0 <= depth ->
  (In p (std_grid r d depth) <-> length p = d /\ Forall (fun a => 0 <= a) p /\ levelsum r p <= depth).
Proof. exact std_grid_spec. Qed.

(* Sequence grids: for EVERY dimension, EVERY duplicate-free index set (lower or not) and EVERY sequence of pairwise
   distinct one-dimensional nodes the Newton-form interpolant equals the supplied value at every node *)
Theorem c01_sequence : forall (xs : nat -> Qc), (forall a b : nat, a <> b -> xs a <> xs b) ->
  forall (d : nat) (Theta : list mindex), NoDup Theta -> (forall t, In t Theta -> length t = d) ->
  forall (v : mindex -> Qc) i, In i Theta -> seq_interp xs v Theta (SequenceGrid.node_of xs i) = v i.
Proof. exact sequence_reproduces. Qed.

(* the value used at a node is the value supplied for that node, for every load/refine/merge history (from C07) *)
Theorem c01_values_follow_their_points : forall (V : Type) (vzero : V) (d : nat) st vals,
  Inv V d st -> op_ok V d st (Load vals) -> needed st <> [] ->
  forall p, length p = d ->
    value_at V (step V vzero st (Load vals)) p =
      match IndexSets.lookup V (needed st) vals p with Some x => Some x | None => value_at V st p end.
Proof. intros V vzero d st vals Hi Hok Hn. exact (proj2 (proj2 (load_exact V vzero d st vals Hi Hok Hn))). Qed.

(* non-vacuity: a two-dimensional localp grid of depth 2 (13 points) passes the certificate, for orders 1, 2 and -1,
   and the model reproduces a concrete value vector *)
Definition ex_pts : list idx := [[0;0];[0;1];[0;2];[0;3];[0;4];[1;0];[1;1];[1;2];[2;0];[2;1];[2;2];[3;0];[4;0]].
Example c01_example_certificate :
  hier_cert Localp 1 ex_pts = true /\ hier_cert Localp 2 ex_pts = true /\ hier_cert Localp (-1) ex_pts = true /\
  hier_cert Semilocalp 2 ex_pts = true /\ hier_cert Localpb 1 [[0;0];[0;1];[1;0];[1;1];[0;2];[2;0];[1;2];[2;1]] = true.
Proof. vm_compute. repeat split. Qed.

Example c01_example_incomplete_rejected :   (* a point whose parent is missing: the certificate does not apply *)
  hier_cert Localp 1 [[0];[1];[5]] = false /\ parent_complete Localp [[0];[1];[5]] = false.
Proof. vm_compute. split; reflexivity. Qed.

(* bounded complement of the certified theorem: EVERY standard (level-sum) sparse grid of the four binary rules passes the
   certificate, for orders 1, 2, 3 and unlimited, in one dimension up to depth 5 and in two dimensions up to depth 3;
   the bound is part of the statement, the check is a computation inside the kernel lifted by forallb_forall *)
Definition points1d (r : erule) (depth : Z) : list Z := map Z.of_nat (seq 0 (Z.to_nat (getNumPoints r depth))).
Definition standard_grid (r : erule) (d : nat) (depth : Z) : list idx :=
  let p1 := points1d r depth in
  let tensor := match d with
                | 1%nat => map (fun a => [a]) p1
                | _ => flat_map (fun a => map (fun b => [a; b]) p1) p1
                end in
  filter (fun i => levelsum r i <=? depth) tensor.
Definition bounded_configs : list (erule * Z * nat * Z) :=
  flat_map (fun r => flat_map (fun o => map (fun dep => (r, o, 1%nat, dep)) [0; 1; 2; 3; 4; 5] ++ map (fun dep => (r, o, 2%nat, dep)) [0; 1; 2; 3])
                              (match r with Semilocalp => [2; 3; -1] | _ => [1; 2; 3; -1] end))
           [Localp; Semilocalp; Localp0; Localpb].

Theorem c01_certificate_holds_on_standard_grids_bounded : forall r o d dep, In (r, o, d, dep) bounded_configs ->
  hier_cert r o (standard_grid r d dep) = true /\ parent_complete r (standard_grid r d dep) = true.
Proof.
  assert (H : forallb (fun c => match c with (r, o, d, dep) => hier_cert r o (standard_grid r d dep) && parent_complete r (standard_grid r d dep) end)
                      bounded_configs = true) by (vm_compute; reflexivity).
  intros r o d dep Hin. rewrite forallb_forall in H. specialize (H _ Hin). cbn in H. apply andb_true_iff in H. exact H.
Qed.

Print Assumptions c01_hier_reproduces.
Print Assumptions c01_interp_at_node.
Print Assumptions c01_localpoly_certified.
Print Assumptions c01_localpoly_complete_unbounded.
Print Assumptions c01_certificate_complete.
Print Assumptions c01_standard_grids_unbounded.
Print Assumptions c01_standard_grid_points.
Print Assumptions c01_sequence.
Print Assumptions c01_values_follow_their_points.
Print Assumptions c01_certificate_holds_on_standard_grids_bounded.
