(* C02, exotic rules (Addons/tsgExoticQuadrature.hpp) - the linear-algebra fact behind getShiftedExoticQuadrature.  Statements only.
   An exotic rule for the weight rho is: the Gauss rule A of the shifted weight rho + s (moments mu k + s * nu k, nu = the Legendre
   moments) followed by the Gauss-Legendre rule B with weights multiplied by -s, coinciding nodes merged.  If A and B reproduce
   their moments below m, the combined rule reproduces the moments mu of rho below m, for EVERY s (positive, zero, negative);
   without the correction the rule reproduces mu k only where s * nu k = 0.  That A and B are exact to 2n-1 is
   Properties_C02_gauss.c02g_gauss_quad_exact.  SCOPE: Qc (rational nodes), exact equality of nodes in the merge (the code
   merges up to Maths::num_tol and only against the entries of A); the implementation is evaluated directly in props/c02exotic.py. *)
From TV Require Import Proofs.LagrangeExact Proofs.InterpQuadExact Proofs.ExoticShift.
From Coq Require Import List Arith Lia QArith Qcanon.
Import ListNotations.
Local Open Scope Qc_scope.

Theorem c02x_quad_combine : forall (a : rule) (s : Qc) (b : rule) (k : nat),
  quad (exotic_combine a s b) k = quad a k - s * quad b k.
Proof. exact quad_combine. Qed.

Theorem c02x_exotic_shift_exact : forall (mu nu : nat -> Qc) (s : Qc) (m : nat) (a b : rule),
  (forall k, (k < m)%nat -> quad a k = mu k + s * nu k) ->
  (forall k, (k < m)%nat -> quad b k = nu k) ->
  forall k, (k < m)%nat -> quad (exotic_combine a s b) k = mu k.
Proof. exact exotic_shift_exact. Qed.

Theorem c02x_exotic_no_correction_error : forall (mu nu : nat -> Qc) (s : Qc) (m : nat) (a b : rule),
  (forall k, (k < m)%nat -> quad a k = mu k + s * nu k) ->
  forall k, (k < m)%nat -> (quad (exotic_no_correction a s b) k = mu k <-> s * nu k = 0).
Proof. exact exotic_no_correction_error. Qed.

(* non-vacuity: rho = 2 on [-1,1] (mu k = 2 * legendre_mu k), s = -1: the shifted weight is 1, its one-point Gauss rule is (0, 2);
   the correction is the one-point Gauss-Legendre rule (0, 2) times -(-1): the merged rule is the single entry (0, 4) *)
Definition mu2 (k : nat) : Qc := qc 2 1 * legendre_mu k.
Definition ruleA : rule := [(qc 0 1, qc 2 1)].
Definition ruleB : rule := [(qc 0 1, qc 2 1)].

Example c02x_merged_single_entry : length (exotic_combine ruleA (qc (-1) 1) ruleB) = 1%nat.
Proof. vm_compute. reflexivity. Qed.

Example c02x_negative_shift_exact :
  quad (exotic_combine ruleA (qc (-1) 1) ruleB) 0 = mu2 0 /\ quad (exotic_combine ruleA (qc (-1) 1) ruleB) 1 = mu2 1.
Proof. split; apply Qc_is_canon; vm_compute; reflexivity. Qed.

Example c02x_negative_shift_hypotheses :
  (forall k, (k < 2)%nat -> quad ruleA k = mu2 k + qc (-1) 1 * legendre_mu k) /\ (forall k, (k < 2)%nat -> quad ruleB k = legendre_mu k).
Proof.
  split; intros k Hk; (destruct k as [|[|k]]; [apply Qc_is_canon; vm_compute; reflexivity|apply Qc_is_canon; vm_compute; reflexivity|lia]).
Qed.

(* dropping the correction for s < 0 is not exact: the rule returns 2, the integral of rho is 4 *)
Example c02x_negative_shift_without_correction_not_exact :
  quad (exotic_no_correction ruleA (qc (-1) 1) ruleB) 0 = qc 2 1 /\ quad (exotic_no_correction ruleA (qc (-1) 1) ruleB) 0 <> mu2 0.
Proof.
  split; [apply Qc_is_canon; vm_compute; reflexivity|].
  intro H. apply (f_equal this) in H. vm_compute in H. discriminate H.
Qed.

(* a correction node that is NOT in A is appended (two entries), and its weight is -s times the Gauss-Legendre weight *)
Example c02x_append_new_node :
  length (exotic_combine [(qc 1 2, qc 1 1)] (qc 1 1) [(qc 0 1, qc 2 1)]) = 2%nat /\
  map fst (exotic_combine [(qc 1 2, qc 1 1)] (qc 1 1) [(qc 0 1, qc 2 1)]) = [qc 1 2; qc 0 1] /\
  quad (exotic_combine [(qc 1 2, qc 1 1)] (qc 1 1) [(qc 0 1, qc 2 1)]) 0 = qc (-1) 1.
Proof.
  split; [vm_compute; reflexivity|]. split; [|apply Qc_is_canon; vm_compute; reflexivity].
  unfold exotic_combine, scale_rule. cbn [map fold_left fst snd merge1].
  destruct (Qc_eq_dec (qc 1 2) (qc 0 1)) as [E|_]; [apply (f_equal this) in E; vm_compute in E; discriminate E|].
  reflexivity.
Qed.

Print Assumptions c02x_quad_combine.
Print Assumptions c02x_exotic_shift_exact.
Print Assumptions c02x_exotic_no_correction_error.
