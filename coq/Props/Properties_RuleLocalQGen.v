(* RuleLocalQGen — the rational-valued functions getNode / getSupport / scaleDiffX of namespace RuleLocal REGENERATED from the
   current header (gen/RuleLocalQGen.v by translator/rulelocalq.py, rebuilt on every run; a double is read as the exact rational,
   rules Q1-Q4 in the generated file) agree (Qeq) with the hand-written model Model/RuleLocal.v on every point >= 0 of every
   effective rule, so that the theorems about the model's nodes and supports (C01, C04, C05) are re-checked against what the
   header says now; and the facts those theorems use, stated purely over the generated functions.
   gq_getNode r / gq_getSupport r / gq_scaleDiffX r are by definition gen_node_<rule> / gen_support_<rule> / gen_scalediffx_<rule>.
   Statements only; proofs are in Proofs/RuleLocalQGenProofs.v. *)
From Coq Require Import QArith Qabs.
From TV Require Import Common.Prelude Model.RuleLocal gen.RuleLocalGen gen.RuleLocalQGen Proofs.RuleLocalProofs Proofs.RuleLocalQGenProofs.
Local Open Scope Z_scope.

(* ---- the regenerated functions are the model ---- *)
Theorem rlq_getNode : forall r p, 0 <= p -> (gq_getNode r p == getNode r p)%Q.
Proof. exact gq_getNode_eq. Qed.
Theorem rlq_getSupport : forall r p, 0 <= p -> (gq_getSupport r p == getSupport r p)%Q.
Proof. exact gq_getSupport_eq. Qed.
(* scaleDiffX<semilocalp>(0) evaluates int2log2(-1), whose loop does not end in the C++ (rule R5): not in the domain *)
Theorem rlq_scaleDiffX : forall r p, 0 <= p -> (r = Semilocalp -> 1 <= p) -> (gq_scaleDiffX r p == scaleDiffX r p)%Q.
Proof. exact gq_scaleDiffX_eq. Qed.

(* ---- facts over the generated functions only ---- *)
(* the support radius is positive: every rule, every point *)
Theorem rlq_support_pos : forall r p, 0 <= p -> (0 < gq_getSupport r p)%Q.
Proof. exact gq_support_pos. Qed.
(* on every point evaluated through the scaled coordinate (localp p>=1, semilocalp p>=3, localp0, localpb: Proofs.RuleLocalProofs.scaled_point)
   the chain-rule factor is the reciprocal of the support radius, and positive *)
Theorem rlq_scaleDiffX_support : forall r p,
  match r with Pwc => False | Localp => 1 <= p | Semilocalp => 3 <= p | Localp0 => 0 <= p | Localpb => 0 <= p end ->
  (gq_scaleDiffX r p == 1 / gq_getSupport r p)%Q.
Proof. exact gq_scaleDiffX_support. Qed.
Theorem rlq_scaleDiffX_pos : forall r p,
  match r with Pwc => False | Localp => 1 <= p | Semilocalp => 3 <= p | Localp0 => 0 <= p | Localpb => 0 <= p end ->
  (0 < gq_scaleDiffX r p)%Q.
Proof. exact gq_scaleDiffX_pos. Qed.

(* every node lies in the canonical interval [-1, 1]: the four binary rules at every point, rule pwc at every point below 3^42
   (the fuel of the model's / generated int3log3 loop; int points are < 2^31) *)
Theorem rlq_node_range : forall r p, r <> Pwc -> 0 <= p -> (-1 <= gq_getNode r p <= 1)%Q.
Proof. exact gq_node_range. Qed.
Theorem rlq_node_range_pwc : forall p, 0 <= p < 3 ^ 42 -> (-1 <= gq_getNode Pwc p <= 1)%Q.
Proof. exact gq_node_range_pwc. Qed.

(* non-vacuity: the generated functions compute (values of the header) *)
Example rlq_ex_nodes : (Qred (gen_node_localp 5), Qred (gen_node_localp0 4), Qred (gen_node_localpb 3), Qred (gen_node_semilocalp 6), Qred (gen_node_pwc 4))
                       = ((-3 # 4)%Q, (-1 # 4)%Q, (-1 # 2)%Q, (-1 # 4)%Q, (-4 # 9)%Q).
Proof. vm_compute. reflexivity. Qed.
Example rlq_ex_supports : (Qred (gen_support_localp 5), Qred (gen_support_semilocalp 2), Qred (gen_support_localpb 1), Qred (gen_support_pwc 4),
                           Qred (gen_scalediffx_localp0 4), Qred (gen_scalediffx_localpb 1))
                          = ((1 # 4)%Q, 2%Q, 2%Q, (1 # 9)%Q, 4%Q, (1 # 2)%Q).
Proof. vm_compute. reflexivity. Qed.

Print Assumptions rlq_getNode.
Print Assumptions rlq_getSupport.
Print Assumptions rlq_scaleDiffX.
Print Assumptions rlq_support_pos.
Print Assumptions rlq_scaleDiffX_support.
Print Assumptions rlq_scaleDiffX_pos.
Print Assumptions rlq_node_range.
Print Assumptions rlq_node_range_pwc.
