(* C12 — const operations on one grid are safe to call concurrently (acceleration mode accel_none).
   Statements only; proofs are in Proofs/FootprintProofs.v.  gen/ConstFootprint.v is REGENERATED from the source on
   every run (translator/footprint.py, clang AST): a `mutable` member, a const_cast or a non-const call through a pointer
   member that appears on a const path changes that file and breaks c12_footprints.

   What is proved: (1) the commutation argument for read-only calls, for every number of calls and every interleaving;
   (2) over the regenerated footprint data, every const method reachable from the public const API is read-only by syntax,
   EXCEPT for the one lazily rebuilt cache of GridWavelet; (3) the faithful model of that cache has a write/read race
   (refutation of the property for wavelet weight queries); (4) the same query with the test-and-rebuild under a lock
   (fixes/C12-wavelet-matrix-lock.diff) is race free and returns the stand-alone results, for any number of threads.
   What is NOT proved: that the binary has no data race (ThreadSanitizer runs decide that, see props/C12.py); the
   footprint classification is syntactic and trusted. *)
From TV Require Import Common.Prelude Model.Footprint Proofs.FootprintProofs gen.ConstFootprint.
From Coq Require Import String.
Local Open Scope string_scope.

(* ANY finite family of read-only operations, ANY interleaving of their atomic steps (a schedule is an arbitrary list of
   thread numbers): the shared state is unchanged, no call appears or disappears, the result every call is going to
   deliver never changes, and a finished call holds exactly what it returns when it runs alone on the shared state *)
Theorem c12_readers_commute : forall (Sh Lo : Type) (s : Sh) (ths : list (thread Sh Lo)) (sched : list nat),
  Forall read_only_thread ths ->
  fst (run sched (s, ths)) = s /\
  List.length (snd (run sched (s, ths))) = List.length ths /\
  forall i th', nth_error (snd (run sched (s, ths))) i = Some th' ->
    exists th, nth_error ths i = Some th /\ alone s th' = alone s th /\ (finished th' -> scratch th' = alone s th).
Proof. exact readers_commute. Qed.

(* every schedule that names a call at least as often as it has steps finishes that call *)
Theorem c12_readers_finish : forall (Sh Lo : Type) (s : Sh) (ths : list (thread Sh Lo)) (sched : list nat) i th th',
  nth_error ths i = Some th -> nth_error (snd (run sched (s, ths))) i = Some th' ->
  List.length (todo th) <= count_occ Nat.eq_dec sched i -> finished th'.
Proof. exact readers_finish. Qed.

(* the lazily built caches known to be written on const paths (DESIGN section 11, F10) *)
Definition known_lazy_caches : list (String.string * String.string) := [("TasGrid::GridWavelet", "inter_matrix")].

(* over the REGENERATED footprint: every const method reachable from the public const API under accel_none only reads the
   mutable members (or writes them with a lock held), uses no const_cast and calls no non-const method through a pointer
   member — apart from writes of the excused cache *)
Theorem c12_footprints : forallb (read_only_except known_lazy_caches) const_methods = true.
Proof. vm_compute. reflexivity. Qed.

(* ... and strictly read-only by syntax for every listed method that does not touch that cache *)
Theorem c12_footprints_strict_elsewhere : forall m, In m const_methods ->
  (forall c f w g, In (TMutable c f w g) (m_touches m) -> existsb (str_pair_eqb (c, f)) known_lazy_caches = false) ->
  read_only_by_syntax m = true.
Proof. exact (footprints_strict known_lazy_caches const_methods c12_footprints). Qed.

(* the property is FALSE of the faithful model of the wavelet weight queries (test `getNumRows() != num_points`, rebuild,
   solve; no lock): on a freshly loaded grid there is a schedule of two calls after which one thread's next access writes
   inter_matrix while the other thread's next access reads it, and a schedule after which one thread is solving with
   the matrix while the other is about to overwrite it *)
Theorem c12_wavelet_race_refuted : forall (D M X R : Type) (build : D -> M) (solve : M -> X -> R) (dflt : R) (d : D) (x0 x1 : X),
  (exists sched, race D M X R (lazy_access D M X R) (crun D M X R (lazy_step D M X R build solve dflt) sched (fresh D M X R d [x0; x1]))) /\
  (exists sched l0 l1, let c := crun D M X R (lazy_step D M X R build solve dflt) sched (fresh D M X R d [x0; x1]) in
      nth_error (snd c) 0 = Some l0 /\ nth_error (snd c) 1 = Some l1 /\ at_pc l0 = Solve /\ at_pc l1 = Build /\
      race D M X R (lazy_access D M X R) c).
Proof. exact lazy_cache_race. Qed.

(* the repaired query (test-and-rebuild in one critical section): for ANY number of concurrent queries and ANY schedule
   there is no data race, the grid data is unchanged, the cache holds nothing or the matrix of that data, and every
   finished query returns what it returns alone *)
Theorem c12_locked_cache_safe : forall (D M X R : Type) (build : D -> M) (solve : M -> X -> R) (dflt : R) (d : D) (args : list X) (sched : list nat),
  let c := crun D M X R (locked_step D M X R build solve dflt) sched (fresh D M X R d args) in
  ~ race D M X R (locked_access D M X R) c /\ data (fst c) = d /\
  (cache (fst c) = None \/ cache (fst c) = Some (build d)) /\
  forall i l, nth_error (snd c) i = Some l -> at_pc l = Done ->
    exists x, nth_error args i = Some x /\ res l = Some (solve (build d) x).
Proof. exact locked_cache_safe. Qed.

(* non-vacuity: three readers with different numbers of steps under an unfair schedule; the lazily built cache run to
   completion under the lock *)
Example c12_example_readers :
  let rd (k : nat) : step nat nat := fun s l => (s, l + k * s) in
  let ths := [mkThread [rd 1; rd 2] 0; mkThread [rd 5] 1; mkThread [] 7] in
  let c := run [1; 0; 2; 5; 0; 1; 0] (10, ths) in
  fst c = 10 /\ map scratch (snd c) = [30; 51; 7] /\ map (alone 10) ths = [30; 51; 7].
Proof. vm_compute. repeat split. Qed.

Example c12_example_locked :
  let c := crun nat nat nat nat (locked_step nat nat nat nat (fun d => d + 1) (fun m x => m * x) 0) [0; 1; 1; 0; 2; 2]
                (fresh nat nat nat nat 4 [2; 3; 7]) in
  cache (fst c) = Some 5 /\ map res (snd c) = [Some 10; Some 15; Some 35].
Proof. vm_compute. repeat split. Qed.

Print Assumptions c12_readers_commute.
Print Assumptions c12_readers_finish.
Print Assumptions c12_footprints.
Print Assumptions c12_footprints_strict_elsewhere.
Print Assumptions c12_wavelet_race_refuted.
Print Assumptions c12_locked_cache_safe.
