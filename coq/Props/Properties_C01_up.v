(* C01 — Local Polynomial grids with the ancestor links exactly as HierarchyManipulations::computeDAGup builds them
   (nearest PRESENT ancestor of every direction, Model/LocalGridUp.v), which is what updateSurpluses walks on point sets
   with holes (fds / parents-first / classic refinement, dynamic construction).  Statements only. *)
From TV Require Import Common.Prelude Model.IndexSets Model.RuleLocal Model.Selection Model.Hier Model.LocalGrid
  Model.StdGrid Model.LocalGridUp.
From TV Require Import Proofs.LocalComplete Proofs.LocalGridUpProofs.
From Coq Require Import QArith Qcanon.
Local Open Scope Z_scope.

(* ARBITRARY point sets (all five rules, all orders, all dimensions, holes allowed): a set that passes the decidable
   certificate over the links of the code reproduces the supplied values at all its nodes.  The certificate is evaluated
   by the extracted model on every grid of the implementation that the check visits. *)
Theorem c01_up_localpoly_certified : forall r order pts (vals : list (idx * Qc)),
  hier_cert_up r order pts = true ->
  forall i, In i (by_level r pts) -> evalAt_up r order pts vals (LocalGrid.node_of r i) = assoc vals i.
Proof. exact localgrid_reproduces_up. Qed.

(* ... and the surpluses computed over these links are the only coefficients that do *)
Theorem c01_up_localpoly_certified_unique : forall r order pts (vals : list (idx * Qc)),
  hier_cert_up r order pts = true ->
  forall c : idx -> Qc,
  (forall i, In i (by_level r pts) ->
     Hier.sum Qc 0%Qc Qcplus idx (by_level r pts) (fun j => (Bc r order i j * c j)%Qc) = assoc vals i) ->
  forall i, In i (by_level r pts) -> c i = Hier.lookup Qc 0%Qc idx idx_eqb i (surpluses_up r order pts vals).
Proof. exact localgrid_surpluses_up_unique. Qed.

(* complete hierarchies, UNBOUNDED (every binary rule, order, dimension, duplicate-free parent-complete set) *)
Theorem c01_up_localpoly_complete_unbounded : forall r order d pts (vals : list (idx * Qc)),
  binary r -> wellformed d pts -> parent_complete r pts = true ->
  forall i, In i pts -> evalAt_up r order pts vals (LocalGrid.node_of r i) = assoc vals i.
Proof. exact localpoly_complete_reproduces_up. Qed.

Theorem c01_up_localpoly_complete_unique : forall r order d pts (vals : list (idx * Qc)),
  binary r -> wellformed d pts -> parent_complete r pts = true ->
  forall c : idx -> Qc,
  (forall i, In i (by_level r pts) ->
     Hier.sum Qc 0%Qc Qcplus idx (by_level r pts) (fun j => (Bc r order i j * c j)%Qc) = assoc vals i) ->
  forall i, In i (by_level r pts) -> c i = Hier.lookup Qc 0%Qc idx idx_eqb i (surpluses_up r order pts vals).
Proof. exact localpoly_complete_unique_up. Qed.

Theorem c01_up_certificate_complete : forall r order d pts,
  binary r -> wellformed d pts -> parent_complete r pts = true -> hier_cert_up r order pts = true.
Proof. exact localpoly_complete_cert_up. Qed.

(* the grids of makeLocalPolynomialGrid, every dimension and depth *)
Theorem c01_up_standard_grids_unbounded : forall r d depth, binary r -> 0 <= depth ->
  forall order (vals : list (idx * Qc)) i, In i (std_grid r d depth) ->
    evalAt_up r order (std_grid r d depth) vals (LocalGrid.node_of r i) = assoc vals i.
Proof. exact std_grid_reproduces_up. Qed.

(* on parent-complete sets with non-negative coordinates (all five rules) the links of the code ARE the direct parents,
   so the hand-written model of LocalGrid.v and this one are the same function there *)
Theorem c01_up_agrees_on_complete : forall r pts,
  (forall i, In i pts -> Forall (fun p => 0 <= p) i) -> parent_complete r pts = true ->
  (forall i, In i pts -> parents_up r pts i = parents r pts i) /\
  (forall i, In i pts -> reach_up r pts i = reach r pts i) /\
  (forall order vals, surpluses_up r order pts vals = surpluses r order pts vals) /\
  (forall order vals x, evalAt_up r order pts vals x = evalAt r order pts vals x) /\
  (forall order, hier_cert_up r order pts = hier_cert r order pts).
Proof.
  exact up_agrees_on_complete.
Qed.

(* the fuel of the walk of computeDAGup in the model (the point number) is enough: more fuel changes nothing *)
Theorem c01_up_walk_fuel : forall r pts i dir f1 f2 c, 0 <= c -> above0 r c = true ->
  (Z.to_nat c <= f1)%nat -> (Z.to_nat c <= f2)%nat -> walk_up r f1 pts i dir c = walk_up r f2 pts i dir c.
Proof. exact walk_up_fuel. Qed.

(* ... and so is the fuel of the depth-first ancestor walk, on every point set of uniform dimension (holes included) *)
Theorem c01_up_reach_fuel : forall r d pts, (forall i, In i pts -> length i = d) ->
  forall i, In i pts -> forall k,
  closure_up r (S (length pts) * (2 * length i + 2) + k) pts (parents_up r pts i) [] = reach_up r pts i.
Proof. exact reach_up_fuel. Qed.

(* non-vacuity: a set with a hole where the two models differ, and the code's links pass the certificate *)
Example c01_up_hole :
  parents_up Localp hole_pts [5] = [[1]] /\ parents Localp hole_pts [5] = [] /\
  hier_cert_up Localp 1 hole_pts = true /\ hier_cert Localp 1 hole_pts = false.
Proof. vm_compute. repeat split; reflexivity. Qed.

Print Assumptions c01_up_localpoly_certified.
Print Assumptions c01_up_localpoly_certified_unique.
Print Assumptions c01_up_localpoly_complete_unbounded.
Print Assumptions c01_up_localpoly_complete_unique.
Print Assumptions c01_up_certificate_complete.
Print Assumptions c01_up_standard_grids_unbounded.
Print Assumptions c01_up_agrees_on_complete.
Print Assumptions c01_up_walk_fuel.
Print Assumptions c01_up_reach_fuel.
