(* C17 — constructSurrogate checkpoints survive a crash at any instant.
   Only statements, each closed by [exact] of a lemma from Proofs/CheckpointProofs.v.

   Modelling assumptions (NOT proved, listed in the evidence): the kernel executes fopen("wb") / write / fclose on a
   file atomically and in program order, an open with truncation empties the file, a killed write has transferred
   a prefix of its bytes, data that reached the kernel survives the death of the process (process crash, not power
   loss: the code never calls fsync), nobody else writes the two files.
   Hypotheses about the real readers enter as Section hypotheses (H-TORN: round trip and rejection of every strict
   prefix; H-GRID for the abstract grid section); they are CHECKED AT RUN TIME by props/C17.py.                    *)
From TV Require Import Common.Prelude Model.Checkpoint Proofs.CheckpointProofs.
From Coq Require Import NArith.

Section AnyBytes.
  Variable B : Type.     (* any byte type *)

  (* DOCUMENTED procedure (backup written under the backup name): after a crash at any step of a checkpoint, with
     any chunking of both streams and the write in flight torn at any byte, the content of the main file before the
     checkpoint survives intact in the main file or in the backup file *)
  Theorem c17_two_file_invariant :
    forall (f : fs B) (copy_lens : list nat) (new_chunks : list (content B)) (p : list (step B)) (ck_k : content B),
      f Cur = Some ck_k ->
      crash_prefix B (checkpoint_steps B true f copy_lens new_chunks) p ->
      exec B f p Cur = Some ck_k \/ exec B f p Old = Some ck_k.
  Proof. exact (two_file_invariant B). Qed.

  (* sharper: every crash state is  (main = old content)  or  (backup = old content /\ main = prefix of the new) *)
  Theorem c17_crash_states :
    forall (f : fs B) (copy_lens : list nat) (new_chunks : list (content B)) (p : list (step B)) (ck_k : content B),
      f Cur = Some ck_k ->
      crash_prefix B (checkpoint_steps B true f copy_lens new_chunks) p ->
      exec B f p Cur = Some ck_k \/
      (exec B f p Old = Some ck_k /\ exists q, exec B f p Cur = Some q /\ is_prefix B q (concat new_chunks)).
  Proof. exact (documented_crash_states B). Qed.

  (* an uninterrupted checkpoint ends with main = new content, backup = previous content *)
  Theorem c17_checkpoint_completes :
    forall (f : fs B) (copy_lens : list nat) (new_chunks : list (content B)) (ck_k : content B),
      f Cur = Some ck_k ->
      exec B f (checkpoint_steps B true f copy_lens new_chunks) Cur = Some (concat new_chunks) /\
      exec B f (checkpoint_steps B true f copy_lens new_chunks) Old = Some ck_k.
  Proof. exact (checkpoint_completes B). Qed.

  (* unbounded run of checkpoints 1..n after checkpoint 0: wherever the process dies, j checkpoints had completed,
     the crash point lies inside checkpoint j+1 (or the run is over), and checkpoint j is intact in one of the files *)
  Theorem c17_run_invariant :
    forall (news : list (ckpt_io B)) (f : fs B) (ck0 : content B) (p : list (step B)),
      f Cur = Some ck0 ->
      crash_prefix B (run_steps B true f news) p ->
      exists j p', j <= length news /\
        p = run_steps B true f (firstn j news) ++ p' /\
        crash_prefix B (run_steps B true (exec B f (run_steps B true f (firstn j news))) (firstn 1 (skipn j news))) p' /\
        (exec B f p Cur = Some (nth j (ck0 :: map (io_content B) news) ck0) \/
         exec B f p Old = Some (nth j (ck0 :: map (io_content B) news) ck0)).
  Proof. exact (run_invariant B). Qed.

  (* AS CODED (tsgConstructSurrogate.hpp:149 opens the backup stream under the main name): the backup file is never
     written and, from the first step of the checkpoint on, the main file holds only a prefix of the new stream *)
  Theorem c17_as_coded_crash_states :
    forall (f : fs B) (copy_lens : list nat) (new_chunks : list (content B)) (p : list (step B)),
      crash_prefix B (checkpoint_steps B false f copy_lens new_chunks) p ->
      exec B f p Old = f Old /\
      (p = [] \/ exists q, exec B f p Cur = Some q /\ is_prefix B q (concat new_chunks)).
  Proof. exact (as_coded_crash_states B). Qed.

  (* ... so the two-file invariant is FALSE for the code as it stands: witness = the crash right after the first
     open; the main file is empty and there is no backup — no complete checkpoint is left *)
  Theorem c17_as_coded_refuted :
    forall (f : fs B) (copy_lens : list nat) (new_chunks : list (content B)) (ck_k : content B),
      f Cur = Some ck_k -> f Old = None ->
      exists p, crash_prefix B (checkpoint_steps B false f copy_lens new_chunks) p /\
                exec B f p Cur = Some [] /\ exec B f p Old = None.
  Proof. exact (as_coded_refuted B). Qed.

  (* AS CODED, restart: the initial checkpoint (lines 138-142) rewrites the main file in place right after recovering
     from it; a crash there leaves main empty and only the PREVIOUS checkpoint in the backup *)
  Theorem c17_restart_initial_as_coded_refuted :
    forall (f : fs B) (chunks : list (content B)) (ck_k ck_prev : content B),
      f Cur = Some ck_k -> f Old = Some ck_prev ->
      exists p, crash_prefix B (initial_steps B false true chunks) p /\
                exec B f p Cur = Some [] /\ exec B f p Old = Some ck_prev.
  Proof. exact (initial_as_coded_refuted B). Qed.

  (* repaired initial checkpoint: nothing is rewritten when the state came from the main file; otherwise only the
     main file is written, so a backup that was just recovered from stays intact (both variants) *)
  Theorem c17_restart_initial_repaired :
    forall (f : fs B) (chunks : list (content B)) (recovered_main : bool) (p : list (step B)),
      crash_prefix B (initial_steps B true recovered_main chunks) p ->
      exec B f p Old = f Old /\ (recovered_main = true -> exec B f p Cur = f Cur).
  Proof. exact (initial_repaired B). Qed.

  Theorem c17_initial_keeps_backup :
    forall (f : fs B) (skip recovered_main : bool) (chunks : list (content B)) (p : list (step B)),
      crash_prefix B (initial_steps B skip recovered_main chunks) p -> exec B f p Old = f Old.
  Proof. exact (initial_keeps_backup B). Qed.

  Section Recovery.
    Variable St : Type.                         (* checkpoint state: grid + stored samples *)
    Variable reader : content B -> routcome St. (* the real reader of one file *)
    Variable ser : St -> content B.             (* the real writer *)
    Hypothesis H_roundtrip : forall s, reader (ser s) = ROk St s.
    Hypothesis H_torn : forall s q r, ser s = q ++ r -> r <> [] -> forall s', reader q <> ROk St s'.

    (* under H-TORN the recovery as coded (main first, then backup) returns checkpoint k or k+1 after a crash
       anywhere in checkpoint k+1 of the documented procedure *)
    Theorem c17_recovery :
      forall (f : fs B) (copy_lens : list nat) (new_chunks : list (content B)) (p : list (step B)) (s_k s_k1 : St),
        f Cur = Some (ser s_k) -> concat new_chunks = ser s_k1 ->
        crash_prefix B (checkpoint_steps B true f copy_lens new_chunks) p ->
        recover_as_coded B St reader (exec B f p) = (GLoaded St s_k, FromCur) \/
        recover_as_coded B St reader (exec B f p) = (GLoaded St s_k1, FromCur) \/
        recover_as_coded B St reader (exec B f p) = (GLoaded St s_k, FromOld).
    Proof. exact (recovery_after_crash B St reader ser H_roundtrip H_torn). Qed.

    (* as coded, a fresh run killed while writing its first checkpoint can leave a file on which the reader fails
       after having emptied the caller's grid: the restart then continues with an empty grid instead of starting over *)
    Theorem c17_recovery_fresh_as_coded_refuted :
      forall (q r : content B) (s0 : St),
        ser s0 = q ++ r -> reader q = RFailCleared St ->
        exists chunks p, concat chunks = ser s0 /\
          crash_prefix B (initial_steps B false false chunks) p /\
          recover_as_coded B St reader (exec B (fs_empty B) p) = (GCleared St, FromNothing).
    Proof. exact (recover_as_coded_fresh_refuted B St reader ser). Qed.

    (* the repaired recovery never hands an emptied grid on, and agrees with the coded one whenever a file was read *)
    Theorem c17_recovery_repaired_total :
      forall (f : fs B), fst (recover_repaired B St reader f) <> GCleared St.
    Proof. exact (recover_repaired_never_cleared B St reader). Qed.

    Theorem c17_recovery_repaired_agrees :
      forall (f : fs B) g src, recover_as_coded B St reader f = (g, src) -> src <> FromNothing ->
        recover_repaired B St reader f = (g, src).
    Proof. exact (recover_repaired_eq B St reader). Qed.
  End Recovery.

  (* the samples recomputed by a restart from checkpoint j >= k were all obtained after checkpoint k, provided the
     restart never requests a sample its recovered state already holds (checked on the call logs at run time) *)
  Theorem c17_recompute_bound :
    forall (X : Type) (sample : nat -> X) (k j : nat) (redo : list X),
      k <= j -> (forall x, In x redo -> ~ contained X sample j x) ->
      forall x i, In x redo -> 1 <= i -> sample i = x -> k < i.
  Proof. exact recompute_bound. Qed.

  (* the step lists the correspondence function builds from an observed system-call log are instances of the
     modelled procedure, and what it predicts for a killed process is one of its crash states *)
  Theorem c17_follow_crash_state :
    forall (b2o : bool) (f : fs B) (c : content B) (obs : list ostep) (n : nat),
      exists l1 chunks, concat chunks = c /\
        crash_prefix B (checkpoint_steps B b2o f l1 chunks) (firstn n (expect_ckpt B b2o f c obs)).
  Proof. exact (follow_crash_state B). Qed.
End AnyBytes.

(* the model reader of a checkpoint file (abstract grid section, concrete CompleteStorage section) satisfies what
   H-TORN demands of the real one: round trip, and rejection of EVERY strict prefix *)
Section ModelReader.
  Variable G : Type.
  Variable grid_read : list byte -> option (G * list byte).
  Variable genc : G -> list byte.
  Hypothesis G_roundtrip : forall g rest, grid_read (genc g ++ rest) = Some (g, rest).
  Hypothesis G_torn : forall g p r, genc g = p ++ r -> r <> [] -> grid_read p = None.

  Theorem c17_reader_roundtrip :
    forall g s, wf_storage s -> ckpt_read G grid_read (ckpt_enc G genc g s) = Some (g, s).
  Proof. exact (ckpt_read_enc G grid_read genc G_roundtrip). Qed.

  Theorem c17_prefix_rejected :
    forall g s p r, wf_storage s -> ckpt_enc G genc g s = p ++ r -> r <> [] -> ckpt_read G grid_read p = None.
  Proof. exact (ckpt_prefix_rejected G grid_read genc G_roundtrip G_torn). Qed.
End ModelReader.

Theorem c17_storage_roundtrip :
  forall s rest, wf_storage s -> storage_read (enc_storage s ++ rest) = Some (s, rest).
Proof. exact storage_read_enc. Qed.

Theorem c17_storage_prefix_rejected :
  forall s p r, wf_storage s -> enc_storage s = p ++ r -> r <> [] -> storage_read p = None.
Proof. exact storage_prefix_rejected. Qed.

(* ---------- non-vacuity ---------- *)
Definition ex_f : fs nat := upd nat (fs_empty nat) Cur (Some [1; 2; 3]).
Definition ex_new : list (content nat) := [[4; 5]; [6; 7; 8]].

(* documented: crash after the first write of the rewrite phase — the backup holds the old checkpoint *)
Example ex_documented_torn :
  let p := firstn 6 (checkpoint_steps nat true ex_f [2] ex_new) in
  (exec nat ex_f p Cur, exec nat ex_f p Old) = (Some [4; 5], Some [1; 2; 3]).
Proof. vm_compute. reflexivity. Qed.

(* as coded: the same crash point — the old checkpoint is gone *)
Example ex_as_coded_torn :
  let p := firstn 4 (checkpoint_steps nat false ex_f [2] ex_new) in
  (exec nat ex_f p Cur, exec nat ex_f p Old) = (Some [4; 5], None).
Proof. vm_compute. reflexivity. Qed.

Example ex_storage :
  storage_read (enc_storage {| st_points := [1; 2; 3; 4; 5; 6; 7; 8]%N; st_values := [] |} ++ [9]%N)
  = Some ({| st_points := [1; 2; 3; 4; 5; 6; 7; 8]%N; st_values := [] |}, [9]%N).
Proof. vm_compute. reflexivity. Qed.

Example ex_storage_torn :
  storage_read (firstn 23 (enc_storage {| st_points := [1; 2; 3; 4; 5; 6; 7; 8]%N; st_values := [] |})) = None.
Proof. vm_compute. reflexivity. Qed.

(* the correspondence function on a log of the documented procedure, killed inside the rewrite *)
Example ex_follow :
  match follow nat true false ex_f [[4; 5; 6; 7; 8]]
          [OOpenW Old; OWrite Old 3; OClose Old; OOpenW Cur; OWrite Cur 2] 0 with
  | Conforms _ f' d => (f' Cur, f' Old, d) = (Some [4; 5], Some [1; 2; 3], 0)
  | Deviates _ _ => False
  end.
Proof. vm_compute. reflexivity. Qed.

(* ... and the same log does not conform to the procedure as coded *)
Example ex_follow_as_coded :
  follow nat false false ex_f [[4; 5; 6; 7; 8]]
    [OOpenW Old; OWrite Old 3; OClose Old; OOpenW Cur; OWrite Cur 2] 0 = Deviates nat 0.
Proof. vm_compute. reflexivity. Qed.

Print Assumptions c17_two_file_invariant.
Print Assumptions c17_crash_states.
Print Assumptions c17_checkpoint_completes.
Print Assumptions c17_run_invariant.
Print Assumptions c17_as_coded_crash_states.
Print Assumptions c17_as_coded_refuted.
Print Assumptions c17_restart_initial_as_coded_refuted.
Print Assumptions c17_restart_initial_repaired.
Print Assumptions c17_initial_keeps_backup.
Print Assumptions c17_recovery.
Print Assumptions c17_recovery_fresh_as_coded_refuted.
Print Assumptions c17_recovery_repaired_total.
Print Assumptions c17_recovery_repaired_agrees.
Print Assumptions c17_recompute_bound.
Print Assumptions c17_follow_crash_state.
Print Assumptions c17_reader_roundtrip.
Print Assumptions c17_prefix_rejected.
Print Assumptions c17_storage_roundtrip.
Print Assumptions c17_storage_prefix_rejected.
