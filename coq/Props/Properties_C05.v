(* C05 — differentiate() returns the gradient of the surrogate.  Statements only.
   "Derivative" is stated without an analysis library, as an exact Taylor identity over Q with an explicit polynomial
   remainder:  f (x + h) == f x + h * f' x + h * h * rem x h  for ALL x and h (rem is a polynomial in x, h given in
   Model/Diff.v), which determines f' uniquely as the derivative of the polynomial piece.
   Subject: the Local Polynomial family (Model/RuleLocal.v: the executable model of tsgRuleLocalPolynomial.hpp that is
   compared with the C++ on every run).  Sequence / Global / Fourier / Wavelet derivatives are not modelled: for them the
   statement is evaluated on the implementation (props/C05.py). *)
From TV Require Import Common.Prelude Model.RuleLocal Model.Diff Proofs.RuleLocalProofs Proofs.DiffProofs.
From Coq Require Import QArith Qabs.
Local Open Scope Q_scope.

(* order 2: every rule, every point class (boundary linear pieces, interior parabola), no side condition *)
Theorem c05_quadratic : forall r p x h,
  evalPWQuadratic r p (x + h) == evalPWQuadratic r p x + h * diffPWQuadratic r p x + h * h * rem_quadratic r p x h.
Proof. exact quadratic_taylor. Qed.

(* order 3: every rule, every point class (constant, linear, parabola, even / odd cubic), no side condition *)
Theorem c05_cubic : forall r p x h,
  evalPWCubic r p (x + h) == evalPWCubic r p x + h * diffPWCubic r p x + h * h * rem_cubic r p x h.
Proof. exact cubic_taylor. Qed.

(* orders > 3 and -1: the left-products / right-products algorithm of diffPWPower, run on ANY non-empty list of nodes
   (unbounded length, no condition on the nodes), is the derivative of the product evalPWPower forms on that list *)
Theorem c05_power_product_rule : forall ns x h, ns <> [] ->
  power_eval ns (x + h) == power_eval ns x + h * power_diff_alg ns x + h * h * rem_power_nodes ns x h.
Proof. exact power_product_rule. Qed.

(* ... because the algorithm equals the recursively defined formal derivative of  c (1-x)(1+x) prod_j (x - n_j) *)
Theorem c05_power_algorithm_is_formal_derivative : forall ns x, ns <> [] ->
  power_diff_alg ns x == (dprodl x ns * ((1 - x) * (1 + x)) + prodl x ns * (-2) * x) * lagc ns.
Proof. exact power_alg_formal. Qed.

(* the model's evalPWPower / diffPWPower (phantom ancestor nodes of the point), all rules *)
Theorem c05_power : forall r o p x h, (uses_cubic r p = true \/ (1 <= max_ancestors r o p)%Z) ->
  evalPWPower r o p (x + h) == evalPWPower r o p x + h * diffPWPower r o p x + h * h * rem_power r o p x h.
Proof. exact power_taylor. Qed.

(* the side condition of c05_power holds for every point and every order that reaches the generic product *)
Theorem c05_power_admissible : forall r o p, r <> Pwc -> uses_cubic r p = false -> (4 <= o \/ o <= 0)%Z ->
  (1 <= max_ancestors r o p)%Z.
Proof. exact max_ancestors_pos. Qed.

(* chain rule through the scaled coordinate; the factor is the reciprocal of the support radius *)
Theorem c05_chain_scale : forall r p x h, scaled_point r p ->
  scaleX r p (x + h) == scaleX r p x + h * scaleDiffX r p /\ scaleDiffX r p == 1 / getSupport r p.
Proof. intros r p x h Hs. split; [exact (chain_scale r p x h Hs) | exact (scaleDiffX_support r p Hs)]. Qed.

(* the univariate basis function and the value returned by diffSupport (the function called by differentiate), every
   rule, every order (1, 2, 3, > 3, <= 0), every point evaluated through the scaled coordinate; x and x+h inside the
   support, x not the right end point of the domain; for order 1 (hat function) x and x+h on the same side of the node *)
Theorem c05_local_1d : forall r o p x h, scaled_point r p -> order_ok r o -> ~ x == 1 ->
  Qabs_le_1 (scaleX r p x) = true -> Qabs_le_1 (scaleX r p (x + h)) = true ->
  diff_supported x (scaleX r p x) = true ->
  (o = 1%Z -> same_side (scaleX r p x) (scaleX r p (x + h))) ->
  snd (diffSupport r o p x) = true /\
  evalRaw r o p (x + h) == evalRaw r o p x + h * fst (diffSupport r o p x) + h * h * basis_rem r o p x h.
Proof. exact local_1d. Qed.

(* the remaining points: the constant (point 0 of localp / semi-localp) and the two global quadratics of semi-localp *)
Theorem c05_local_1d_special : forall r o p x h,
  ((r = Localp \/ r = Semilocalp) /\ p = 0%Z) \/ (r = Semilocalp /\ (p = 1 \/ p = 2)%Z) ->
  snd (diffSupport r o p x) = true /\
  evalRaw r o p (x + h) == evalRaw r o p x + h * fst (diffSupport r o p x) + h * h * (if (p =? 0)%Z then 0 else 1 # 2).
Proof. exact local_1d_special. Qed.

(* product rule across dimensions (GridLocalPolynomial::diffBasisSupported), any number of dimensions: moving coordinate
   k by h changes factor k only; diff_values[k] is the first-order coefficient of the tensor product *)
Theorem c05_product_rule : forall fs dfs k h fk' ck, length dfs = length fs -> (k < length fs)%nat ->
  fk' == nth k fs 0 + h * nth k dfs 0 + h * h * ck ->
  prodQ (set_nth k fs fk') == prodQ fs + h * nth k (grad_accum fs dfs) 0 + h * h * (ck * prodQ (set_nth k fs 1)).
Proof. exact product_rule. Qed.

Theorem c05_product_rule_entries : forall fs dfs k, length dfs = length fs -> (k < length fs)%nat ->
  nth k (grad_accum fs dfs) 0 == prodQ (set_nth k fs 1) * nth k dfs 0.
Proof. exact grad_accum_nth. Qed.

(* linearity over the hierarchical sum (walkTree: y += basis * surplus; mode 3: y += basis derivative * surplus) *)
Theorem c05_hier_linear : forall (terms : list (Q * (Q * Q * Q * Q))) h,
  Forall (fun t => let '(s, (b, b', d, c)) := t in b' == b + h * d + h * h * c) terms ->
  hsum (map (fun t => let '(s, (b, b', d, c)) := t in (s, b')) terms) ==
  hsum (map (fun t => let '(s, (b, b', d, c)) := t in (s, b)) terms)
  + h * hsum (map (fun t => let '(s, (b, b', d, c)) := t in (s, d)) terms)
  + h * h * hsum (map (fun t => let '(s, (b, b', d, c)) := t in (s, c)) terms).
Proof. exact hier_linear. Qed.

(* chain rule through the affine domain transform  x = y * rate - shift: the Jacobian factor is `rate` *)
Theorem c05_transform_chain : forall (F F' : Q -> Q) (R : Q -> Q -> Q) rate shift,
  (forall u v, u == v -> F u == F v) ->
  (forall u k, F (u + k) == F u + k * F' u + k * k * R u k) ->
  forall y h, F (canon rate shift (y + h)) ==
              F (canon rate shift y) + h * (F' (canon rate shift y) * rate)
              + h * h * (rate * rate * R (canon rate shift y) (h * rate)).
Proof. exact transform_chain. Qed.

(* the factor used by diffCanonicalTransform is the rate of mapTransformedToCanonical ([a,b] -> [-1,1]; Fourier [a,b] -> [0,1]) *)
Theorem c05_transform_factors : forall a b y, ~ b - a == 0 ->
  (linear_jac a b == linear_rate a b /\
   canon (linear_rate a b) (linear_shift a b) a == -1 /\ canon (linear_rate a b) (linear_shift a b) b == 1) /\
  (fourier_canon a b y == canon (fourier_jac a b) (a / (b - a)) y /\ fourier_canon a b a == 0 /\ fourier_canon a b b == 1).
Proof. intros a b y N. split; [exact (linear_transform_facts a b N) | exact (fourier_transform_facts a b y N)]. Qed.

(* from the Taylor identity to the epsilon-delta derivative over Q: when the remainder is bounded for |h| <= 1 (every
   polynomial remainder is), f' is THE derivative of f at x *)
Theorem c05_taylor_is_derivative : forall (f : Q -> Q) (x f' : Q) (rem : Q -> Q),
  bdd rem -> (forall h, f (x + h) == f x + h * f' + h * h * rem h) ->
  forall eps, 0 < eps -> exists delta, 0 < delta /\
    forall h, Qabs h < delta -> Qabs (f (x + h) - f x - h * f') <= eps * Qabs h.
Proof. exact taylor_is_derivative. Qed.

(* instance: every basis piece of order <> 1 (quadratic, cubic, generic product), all rules, all points: diff_scaled is the
   epsilon-delta derivative of eval_scaled at EVERY point of the scaled coordinate *)
Theorem c05_scaled_is_derivative : forall r o p xn, o <> 1%Z ->
  ((o <> 1 /\ o <> 2 /\ o <> 3)%Z -> uses_cubic r p = true \/ (1 <= max_ancestors r o p)%Z) ->
  forall eps, 0 < eps -> exists delta, 0 < delta /\
    forall k, Qabs k < delta ->
      Qabs (eval_scaled r o p (xn + k) - eval_scaled r o p xn - k * diff_scaled r o p xn 1) <= eps * Qabs k.
Proof. exact scaled_is_derivative. Qed.

(* non-vacuity: point 21 of localp with unbounded order has 3 phantom ancestors; the hypotheses of c05_local_1d hold at
   x = -27/64, h = 1/128; the derivative there is not 0 *)
Example c05_example_nodes : power_nodes Localp (-1) 21 = [3; 7; -9] /\ uses_cubic Localp 21 = false.
Proof. vm_compute. split; reflexivity. Qed.

Example c05_example_hyps :
  scaled_point Localp 21 /\ order_ok Localp (-1) /\ ~ (-(27 # 64)) == 1 /\
  Qabs_le_1 (scaleX Localp 21 (-(27 # 64))) = true /\ Qabs_le_1 (scaleX Localp 21 (-(27 # 64) + (1 # 128))) = true /\
  diff_supported (-(27 # 64)) (scaleX Localp 21 (-(27 # 64))) = true /\
  ~ fst (diffSupport Localp (-1) 21 (-(27 # 64))) == 0.
Proof. split; [cbn; lia|]. split; [exact I|]. repeat split; try (vm_compute; reflexivity); vm_compute; discriminate. Qed.

Example c05_example_product : nth 1 (grad_accum [2; 3; 5] [7; 11; 13]) 0 == 2 * 11 * 5.
Proof. vm_compute. reflexivity. Qed.

Print Assumptions c05_quadratic.
Print Assumptions c05_cubic.
Print Assumptions c05_power_product_rule.
Print Assumptions c05_power_algorithm_is_formal_derivative.
Print Assumptions c05_power.
Print Assumptions c05_power_admissible.
Print Assumptions c05_chain_scale.
Print Assumptions c05_local_1d.
Print Assumptions c05_local_1d_special.
Print Assumptions c05_product_rule.
Print Assumptions c05_product_rule_entries.
Print Assumptions c05_hier_linear.
Print Assumptions c05_transform_chain.
Print Assumptions c05_transform_factors.
Print Assumptions c05_taylor_is_derivative.
Print Assumptions c05_scaled_is_derivative.
