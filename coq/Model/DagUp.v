(* The completeness flag of HierarchyManipulations::computeDAGup<effrule>(mset, is_complete) (tsgHierarchyManipulator.cpp), as the code
   computes it.  For every point and every direction j with p[j] above level zero (the test of the branch: p[j] != 0 for the rules with
   one parent, p[j] >= getNumPoints(0) for the rules with two):

       dad[j] = getParent(p[j]); pp = getSlot(dad); if (pp == -1) fail = 1;                 <- the DIRECT parent is missing
       while (dad[j] above level 0 && pp == -1) { current = dad[j]; ... }                     (the walk of Model/LocalGridUp.v, walk_up)
       [two parents only]  sp = getStepParent(current); if (sp != -1 && getSlot(sp) == -1) fail = 1;   <- the step-parent of the LAST current

   is_complete = no fail in any thread.  When the direct parent is present the walk does not move and `current` is p[j] itself, so the
   second test is "the step-parent of the point is missing"; when it is absent fail is already set.  [is_complete_up] mirrors the code
   (with the walk); [Model.LocalGrid.parent_complete] is the mathematical notion (all existing parents and step-parents of every point
   are present).  The runner compares the implementation with both.  No proofs here. *)
From TV Require Import Common.Prelude Model.IndexSets Model.RuleLocal Model.Selection Model.Hier Model.LocalGrid Model.LocalGridUp.
Local Open Scope Z_scope.

Definition dir_fail (r : erule) (pts : list idx) (i : idx) (dir : nat) : bool :=
  let p := nth dir i 0 in
  if above0 r p then
    let first_missing := negb (memb (set_nth i dir (getParent r p)) pts) in
    let (current, dad) := walk_up r (Z.to_nat p) pts i dir p in
    first_missing ||
    (if multi_parent r
     then let sp := getStepParent r current in if sp =? -1 then false else negb (memb (set_nth i dir sp) pts)
     else false)
  else false.

Definition is_complete_up (r : erule) (pts : list idx) : bool :=
  forallb (fun i => forallb (fun dir => negb (dir_fail r pts i dir)) (seq 0 (length i))) pts.

(* computeLevels: the sum of the one-dimensional levels *)
Definition levels_up (r : erule) (pts : list idx) : list Z := map (levelsum r) pts.
