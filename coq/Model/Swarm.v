(* Executable model of DREAM/Optimization/tsgParticleSwarm.{hpp,cpp} (C20): class ParticleSwarmState
   (constructor, setters, clearBestParticles, clearCache, initializeParticlesInsideBox) and ParticleSwarm().

   The model is generic in the number type R and its operations, so that the structural theorems
   (only in-domain points reach the objective, cache coherence, resumability) hold for ANY arithmetic,
   in particular IEEE binary64, which is the instance the extracted runner is executed with (OCaml floats)
   when it is compared bit-for-bit with the C++ code.  The order theorems need the comparison [ltb] to be a
   strict weak order (Proofs/SwarmProofs.v); that is proved to hold for Q.

   Data layout: the C++ class keeps flat vectors of num_particles (+1) strips of num_dimensions numbers; the
   model keeps one record per particle (position, velocity, best position, the four cache entries) and the
   swarm-best slot (strip number num_particles of best_particle_positions / cache_best_particle_fvals/inside) in the
   swarm record.  The setters take the flat vector of the C++ API and cut it into strips.

   Ghost fields (not present in the C++ code, never read by the executable part): per particle [vis] (positions
   of this particle that were evaluated inside the domain since the caches/bests were last cleared) and [given]
   (best-position strips that were evaluated through the "user provided best positions" branch), [sgiven] for
   the swarm slot, and the callback [trace].  No proofs in this file. *)
From TV Require Import Common.Prelude.

Section Swarm.
  Variable R : Type.
  Variables (zero two maxval rdef : R).                (* 0.0, 2.0, DBL_MAX, value of an exhausted stream *)
  Variables (add sub mul : R -> R -> R) (fabs : R -> R).
  Variable ltb : R -> R -> bool.                       (* ltb a b  <->  a < b *)
  Variable f : list R -> R.                            (* objective (one point) *)
  Variable inside : list R -> bool.                    (* domain *)

  (* callback invocations: inside(x) for one point, f(batch) for one batch of points *)
  Inductive call := CallI (x : list R) | CallF (batch : list (list R)).

  Record particle := mkP {
    pos : list R; vel : list R; bpos : list R;         (* particle_positions, particle_velocities, best_particle_positions *)
    cf : R; cin : bool;                                (* cache_particle_fvals[i], cache_particle_inside[i] *)
    bf : R; bin : bool;                                (* cache_best_particle_fvals[i], cache_best_particle_inside[i] *)
    vis : list (list R); given : list (list R)         (* ghost *)
  }.

  Record swarm := mkS {
    nd : nat; parts : list particle;
    sbpos : list R; sbf : R; sbin : bool;              (* slot num_particles of the best_* vectors *)
    sgiven : list (list R);                            (* ghost *)
    pinit : bool; vinit : bool; binit : bool; cinit : bool;   (* the four *_initialized flags *)
    trace : list call                                  (* ghost: callback invocations, in order *)
  }.

  (* the random stream: remaining values and the number of draws made so far *)
  Definition rstream := (list R * nat)%type.
  Definition draw (s : rstream) : R * rstream :=
    match fst s with
    | [] => (rdef, ([], S (snd s)))
    | a :: r => (a, (r, S (snd s)))
    end.
  Fixpoint draw_n (k : nat) (s : rstream) : list R * rstream :=
    match k with
    | O => ([], s)
    | S k' => let (a, s1) := draw s in let (l, s2) := draw_n k' s1 in (a :: l, s2)
    end.

  Definition zeros (n : nat) : list R := repeat zero n.
  Definition zero_like (x : list R) : list R := map (fun _ => zero) x.

  (* ParticleSwarmState(num_dimensions, num_particles) *)
  Definition fresh (d np : nat) : swarm :=
    mkS d (repeat (mkP (zeros d) (zeros d) (zeros d) maxval false maxval false [] []) np)
        (zeros d) maxval false [] false false false false [].

  (* ---- field updates ---- *)
  Definition set_parts (st : swarm) (ps : list particle) : swarm :=
    mkS (nd st) ps (sbpos st) (sbf st) (sbin st) (sgiven st) (pinit st) (vinit st) (binit st) (cinit st) (trace st).
  Definition set_pos (p : particle) (x : list R) : particle :=
    mkP x (vel p) (bpos p) (cf p) (cin p) (bf p) (bin p) (vis p) (given p).
  Definition set_vel (p : particle) (v : list R) : particle :=
    mkP (pos p) v (bpos p) (cf p) (cin p) (bf p) (bin p) (vis p) (given p).
  Definition set_bpos (p : particle) (b : list R) : particle :=
    mkP (pos p) (vel p) b (cf p) (cin p) (bf p) (bin p) (vis p) (given p).

  (* cut a flat vector into k strips of n numbers *)
  Fixpoint chunk (n k : nat) (l : list R) : list (list R) :=
    match k with
    | O => []
    | S k' => firstn n l :: chunk n k' (skipn n l)
    end.

  (* ---- setters (vector overloads: a wrong size throws, the state is unchanged) ---- *)
  Definition set_positions (flat : list R) (st : swarm) : swarm :=
    if length flat =? nd st * length (parts st) then
      mkS (nd st) (map2 set_pos (parts st) (chunk (nd st) (length (parts st)) flat))
          (sbpos st) (sbf st) (sbin st) (sgiven st) true (vinit st) (binit st) (cinit st) (trace st)
    else st.
  Definition set_velocities (flat : list R) (st : swarm) : swarm :=
    if length flat =? nd st * length (parts st) then
      mkS (nd st) (map2 set_vel (parts st) (chunk (nd st) (length (parts st)) flat))
          (sbpos st) (sbf st) (sbin st) (sgiven st) (pinit st) true (binit st) (cinit st) (trace st)
    else st.
  Definition set_bests (flat : list R) (st : swarm) : swarm :=
    if length flat =? nd st * (length (parts st) + 1) then
      mkS (nd st) (map2 set_bpos (parts st) (chunk (nd st) (length (parts st)) flat))
          (firstn (nd st) (skipn (nd st * length (parts st)) flat)) (sbf st) (sbin st) (sgiven st)
          (pinit st) (vinit st) true (cinit st) (trace st)
    else st.

  (* clearCache() *)
  Definition clear_cache_p (p : particle) : particle :=
    mkP (pos p) (vel p) (bpos p) zero false zero false [] [].
  Definition clear_cache (st : swarm) : swarm :=
    mkS (nd st) (map clear_cache_p (parts st)) (sbpos st) zero false []
        (pinit st) (vinit st) (binit st) false (trace st).

  (* clearBestParticles() as it is in the code under study: the best positions are zeroed and the flag is
     reset, cache_best_particle_fvals / cache_best_particle_inside keep their values *)
  Definition clear_best_orig_p (p : particle) : particle :=
    mkP (pos p) (vel p) (zero_like (bpos p)) (cf p) (cin p) (bf p) (bin p) (vis p) (given p).
  Definition clear_best_orig (st : swarm) : swarm :=
    mkS (nd st) (map clear_best_orig_p (parts st)) (zero_like (sbpos st)) (sbf st) (sbin st) (sgiven st)
        (pinit st) (vinit st) false (cinit st) (trace st).

  (* clearBestParticles() after the proposed repair (fixes/C20-clearbest.diff): the two best caches are reset too *)
  Definition clear_best_p (p : particle) : particle :=
    mkP (pos p) (vel p) (zero_like (bpos p)) (cf p) (cin p) zero false (if cin p then [pos p] else []) [].
  Definition clear_best (st : swarm) : swarm :=
    mkS (nd st) (map clear_best_p (parts st)) (zero_like (sbpos st)) zero false []
        (pinit st) (vinit st) false (cinit st) (trace st).

  (* ---- initializeParticlesInsideBox(box_lower, box_upper, get_random01) ---- *)
  Fixpoint init_strip (lo up : list R) (s : rstream) : (list R * list R) * rstream :=
    match lo, up with
    | l :: lo', u :: up' =>
        let range := fabs (sub u l) in
        let (r1, s1) := draw s in
        let (r2, s2) := draw s1 in
        let '((ps, vs), s3) := init_strip lo' up' s2 in
        ((add (mul range r1) l :: ps, sub (mul (mul two range) r2) range :: vs), s3)
    | _, _ => (([], []), s)
    end.
  Fixpoint init_parts (lo up : list R) (ps : list particle) (s : rstream) : list particle * rstream :=
    match ps with
    | [] => ([], s)
    | p :: r =>
        let '((x, v), s1) := init_strip lo up s in
        let (r', s2) := init_parts lo up r s1 in
        (set_vel (set_pos p x) v :: r', s2)
    end.
  Definition init_box (lo up : list R) (st : swarm) (s : rstream) : swarm * rstream :=
    if (length lo =? nd st) && (length up =? nd st) then
      let (ps, s') := init_parts lo up (parts st) s in
      (mkS (nd st) ps (sbpos st) (sbf st) (sbin st) (sgiven st) true true (binit st) (cinit st) (trace st), s')
    else (st, s).

  (* ---- ParticleSwarm() ---- *)
  (* the trace of one call of the lambda f_constrained on the points [pts]: inside() on every point in order,
     then ONE call of f on the batch of the points that are inside (no call when there is none) *)
  Definition block (pts : list (list R)) : list call :=
    map CallI pts ++ match filter inside pts with [] => [] | b => [CallF b] end.

  (* f_constrained(particle_positions, cache_particle_fvals, cache_particle_inside) *)
  Definition eval_pos (p : particle) : particle :=
    if inside (pos p)
    then mkP (pos p) (vel p) (bpos p) (f (pos p)) true (bf p) (bin p) (vis p ++ [pos p]) (given p)
    else mkP (pos p) (vel p) (bpos p) zero false (bf p) (bin p) (vis p) (given p).
  Definition fc_positions (st : swarm) : swarm :=
    mkS (nd st) (map eval_pos (parts st)) (sbpos st) (sbf st) (sbin st) (sgiven st)
        (pinit st) (vinit st) (binit st) (cinit st) (trace st ++ block (map pos (parts st))).

  (* f_constrained(best_particle_positions, cache_best_particle_fvals, cache_best_particle_inside) *)
  Definition eval_best (p : particle) : particle :=
    if inside (bpos p)
    then mkP (pos p) (vel p) (bpos p) (cf p) (cin p) (f (bpos p)) true (vis p) (given p ++ [bpos p])
    else mkP (pos p) (vel p) (bpos p) (cf p) (cin p) zero false (vis p) (given p).
  Definition fc_bests (st : swarm) : swarm :=
    let ins := inside (sbpos st) in
    mkS (nd st) (map eval_best (parts st)) (sbpos st)
        (if ins then f (sbpos st) else zero) ins (if ins then sgiven st ++ [sbpos st] else sgiven st)
        (pinit st) (vinit st) (binit st) (cinit st) (trace st ++ block (map bpos (parts st) ++ [sbpos st])).

  (* the lambda update(): particles in order, the swarm-best slot is threaded through *)
  Definition sbest := (list R * R * bool)%type.
  Definition upd1 (acc : sbest) (p : particle) : particle * sbest :=
    let '(sp, sf, sb) := acc in
    if cin p && (negb (bin p) || ltb (cf p) (bf p)) then
      let p' := mkP (pos p) (vel p) (pos p) (cf p) (cin p) (cf p) true (vis p) (given p) in
      if negb sb || ltb (cf p) sf then (p', (pos p, cf p, true)) else (p', acc)
    else (p, acc).
  Fixpoint upd_all (ps : list particle) (acc : sbest) : list particle * sbest :=
    match ps with
    | [] => ([], acc)
    | p :: r => let (p', a1) := upd1 acc p in let (r', a2) := upd_all r a1 in (p' :: r', a2)
    end.
  Definition update (st : swarm) : swarm :=
    let '(ps, (sp, sf, sb)) := upd_all (parts st) (sbpos st, sbf st, sbin st) in
    mkS (nd st) ps sp sf sb (sgiven st) (pinit st) (vinit st) (binit st) (cinit st) (trace st).

  Definition set_cinit (st : swarm) (b : bool) : swarm :=
    mkS (nd st) (parts st) (sbpos st) (sbf st) (sbin st) (sgiven st) (pinit st) (vinit st) (binit st) b (trace st).
  Definition set_binit (st : swarm) (b : bool) : swarm :=
    mkS (nd st) (parts st) (sbpos st) (sbf st) (sbin st) (sgiven st) (pinit st) (vinit st) b (cinit st) (trace st).

  (* "Set up the cache and best particle positions"; update(); best_positions_initialized = true *)
  Definition setup (st : swarm) : swarm :=
    let st1 := if cinit st then st else
                 let a := fc_positions st in
                 let b := if binit a then fc_bests a else a in
                 set_cinit b true in
    set_binit (update st1) true.

  (* the four velocity formulas, component by component (C++ expression order) *)
  Fixpoint vel_cs (w c1 c2 r1 r2 : R) (v b x sb : list R) : list R :=
    match v, b, x, sb with
    | vj :: v', bj :: b', xj :: x', sj :: sb' =>
        add (add (mul w vj) (mul (mul c1 r1) (sub bj xj))) (mul (mul c2 r2) (sub sj xj))
          :: vel_cs w c1 c2 r1 r2 v' b' x' sb'
    | _, _, _, _ => []
    end.
  Fixpoint vel_s (w c2 r : R) (v x sb : list R) : list R :=
    match v, x, sb with
    | vj :: v', xj :: x', sj :: sb' => add (mul w vj) (mul (mul c2 r) (sub sj xj)) :: vel_s w c2 r v' x' sb'
    | _, _, _ => []
    end.
  Fixpoint vel_c (w c1 r : R) (v b x : list R) : list R :=
    match v, b, x with
    | vj :: v', bj :: b', xj :: x' => add (mul w vj) (mul (mul c1 r) (sub bj xj)) :: vel_c w c1 r v' b' x'
    | _, _, _ => []
    end.
  Definition vel_none (w : R) (x : list R) : list R := map (mul w) x.

  (* swarm best known: particle i uses rng_cache[2i], rng_cache[2i+1] (only rng_cache[2i] without own best) *)
  Fixpoint vels_sw (w c1 c2 : R) (sb : list R) (ps : list particle) (rs : list R) : list particle :=
    match ps with
    | [] => []
    | p :: ps' =>
        let r1 := nth 0 rs rdef in
        let r2 := nth 1 rs rdef in
        set_vel p (if bin p then vel_cs w c1 c2 r1 r2 (vel p) (bpos p) (pos p) sb
                   else vel_s w c2 r1 (vel p) (pos p) sb)
          :: vels_sw w c1 c2 sb ps' (skipn 2 rs)
    end.
  (* no swarm best: particle i uses rng_cache[i]; without own best the velocity is inertia_weight * POSITION *)
  Fixpoint vels_nosw (w c1 : R) (ps : list particle) (rs : list R) : list particle :=
    match ps with
    | [] => []
    | p :: ps' =>
        let r := nth 0 rs rdef in
        set_vel p (if bin p then vel_c w c1 r (vel p) (bpos p) (pos p) else vel_none w (pos p))
          :: vels_nosw w c1 ps' (skipn 1 rs)
    end.
  Definition velocities (w c1 c2 : R) (st : swarm) (s : rstream) : swarm * rstream :=
    if sbin st then
      let (rs, s') := draw_n (2 * length (parts st)) s in
      (set_parts st (vels_sw w c1 c2 (sbpos st) (parts st) rs), s')
    else
      let (rs, s') := draw_n (length (parts st)) s in
      (set_parts st (vels_nosw w c1 (parts st) rs), s').

  Definition move_p (p : particle) : particle := set_pos p (map2 add (pos p) (vel p)).
  Definition move (st : swarm) : swarm := set_parts st (map move_p (parts st)).

  (* one pass of the main loop *)
  Definition step (w c1 c2 : R) (x : swarm * rstream) : swarm * rstream :=
    let (st1, s1) := velocities w c1 c2 (fst x) (snd x) in
    (update (fc_positions (move st1)), s1).
  Fixpoint iterate (w c1 c2 : R) (k : nat) (x : swarm * rstream) : swarm * rstream :=
    match k with
    | O => x
    | S k' => iterate w c1 c2 k' (step w c1 c2 x)
    end.

  (* ParticleSwarm(f, inside, w, c1, c2, num_iterations, state, get_random01); an uninitialised state throws
     (the state and the stream are unchanged) *)
  Definition run (iters : Z) (w c1 c2 : R) (st : swarm) (s : rstream) : swarm * rstream :=
    if pinit st && vinit st then iterate w c1 c2 (Z.to_nat iters) (setup st, s) else (st, s).

  (* ---- histories ---- *)
  Inductive op :=
  | OInit (lo up : list R) | OSetPos (flat : list R) | OSetVel (flat : list R) | OSetBest (flat : list R)
  | OClearCache | OClearBest | ORun (iters : Z) (w c1 c2 : R).

  (* [repaired] selects clearBestParticles() with (true) or without (false) the proposed repair *)
  Definition apply_op (repaired : bool) (o : op) (x : swarm * rstream) : swarm * rstream :=
    match o with
    | OInit lo up => init_box lo up (fst x) (snd x)
    | OSetPos fl => (set_positions fl (fst x), snd x)
    | OSetVel fl => (set_velocities fl (fst x), snd x)
    | OSetBest fl => (set_bests fl (fst x), snd x)
    | OClearCache => (clear_cache (fst x), snd x)
    | OClearBest => ((if repaired then clear_best else clear_best_orig) (fst x), snd x)
    | ORun n w c1 c2 => run n w c1 c2 (fst x) (snd x)
    end.
  Fixpoint exec (repaired : bool) (h : list op) (x : swarm * rstream) : swarm * rstream :=
    match h with
    | [] => x
    | o :: h' => exec repaired h' (apply_op repaired o x)
    end.

  (* ---- observations used by the statements ---- *)
  Fixpoint fpoints (tr : list call) : list (list R) :=      (* all points ever passed to f *)
    match tr with
    | [] => []
    | CallF b :: r => b ++ fpoints r
    | CallI _ :: r => fpoints r
    end.
  Definition seenl (p : particle) : list (list R) := vis p ++ given p.
  Definition le (a b : R) : bool := negb (ltb b a).         (* a <= b  :=  not (b < a) *)
End Swarm.

Arguments mkP {R}. Arguments mkS {R}.
Arguments CallI {R}. Arguments CallF {R}.
Arguments OInit {R}. Arguments OSetPos {R}. Arguments OSetVel {R}. Arguments OSetBest {R}.
Arguments OClearCache {R}. Arguments OClearBest {R}. Arguments ORun {R}.
