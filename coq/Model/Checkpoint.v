(* Model of the checkpoint / restart logic of TasGrid::constructCommon (Addons/tsgConstructSurrogate.hpp:116-156)
   and of the CompleteStorage section of a checkpoint file (Addons/tsgCandidateManager.hpp:236-248).
   Executable definitions only; the proofs are in Proofs/CheckpointProofs.v.

   File system: two names (the checkpoint "name" = Cur and "name_old" = Old), a file is absent or holds a list of
   bytes.  The code reaches the kernel only through  fopen(..., "wb") / write / fclose  (libstdc++ basic_filebuf;
   observed with strace and with the LD_PRELOAD shim), modelled as the atomic steps OpenTrunc / Append / Close.
   A crash stops the process after any prefix of the step list; the write in flight may have transferred any
   prefix of its bytes.  The chunking of a stream into write calls is arbitrary (it depends on the filebuf size).

   Variants of the code (two independent switches):
     backup_to_old = false : AS CODED  (line 149 opens the backup stream under `filename`, i.e. Cur)
     backup_to_old = true  : DOCUMENTED / repaired (backup stream opened under `filename_old`)
     skip_initial  = false : AS CODED  (lines 138-142: the main file is rewritten in place right after recovery)
     skip_initial  = true  : repaired  (no rewrite when the state was recovered from the main file)            *)
From TV Require Import Common.Prelude.
From Coq Require Import NArith.

Section Files.
  Variable B : Type.                      (* byte *)
  Definition content := list B.

  Inductive fname := Cur | Old.
  Definition fname_eqb (a b : fname) : bool :=
    match a, b with Cur, Cur => true | Old, Old => true | _, _ => false end.

  Definition fs := fname -> option content.
  Definition fs_empty : fs := fun _ => None.
  Definition upd (f : fs) (n : fname) (c : option content) : fs :=
    fun m => if fname_eqb m n then c else f m.
  Definition getc (f : fs) (n : fname) : content := match f n with Some c => c | None => [] end.

  Inductive step :=
  | OpenTrunc (n : fname)                 (* fopen(n, "wb"): creates / empties the file *)
  | Append (n : fname) (chunk : content)  (* write(fd, chunk): all of the chunk reaches the file *)
  | Close (n : fname).                    (* fclose: no effect on the content; it is a kill point *)

  Definition exec_step (f : fs) (s : step) : fs :=
    match s with
    | OpenTrunc n => upd f n (Some [])
    | Append n c => upd f n (Some (getc f n ++ c))
    | Close _ => f
    end.
  Definition exec (f : fs) (l : list step) : fs := fold_left exec_step l f.

  (* cut a stream into chunks of the given lengths; whatever is left after the last length is one more chunk;
     nothing is written once the stream is exhausted *)
  Fixpoint split_by (lens : list nat) (c : content) : list content :=
    match lens with
    | [] => match c with [] => [] | _ => [c] end
    | n :: r => match c with [] => [] | _ => firstn n c :: split_by r (skipn n c) end
    end.

  (* writing stream [c] to file [n] through an ofstream: open-truncate, the chunks, close *)
  Definition write_file (n : fname) (chunks : list content) : list step :=
    OpenTrunc n :: map (Append n) chunks ++ [Close n].

  (* --- the checkpoint lambda (lines 145-156) ---------------------------------------------------------
       { std::ifstream current_state(filename);  std::ofstream previous_state(<backup name>);
         previous_state << current_state.rdbuf(); }                 copy phase
       std::ofstream ofs(filename); grid.write(ofs); complete.write(ofs);   rewrite phase
     The copy loop reads the main file only after the backup stream has been opened, so its source is the content
     of Cur in the file system that results from  OpenTrunc <backup name>.                                      *)
  Definition backup_target (backup_to_old : bool) : fname := if backup_to_old then Old else Cur.

  Definition copy_phase (b2o : bool) (f : fs) (copy_lens : list nat) : list step :=
    let tgt := backup_target b2o in
    let src := getc (exec_step f (OpenTrunc tgt)) Cur in
    write_file tgt (split_by copy_lens src).

  Definition checkpoint_steps (b2o : bool) (f : fs) (copy_lens : list nat) (new_chunks : list content) : list step :=
    copy_phase b2o f copy_lens ++ write_file Cur new_chunks.

  (* the initial checkpoint (lines 138-142): plain rewrite of the main file *)
  Definition initial_steps (skip : bool) (recovered_main : bool) (chunks : list content) : list step :=
    if skip && recovered_main then [] else write_file Cur chunks.

  (* crash: a prefix of the step list, possibly followed by a partial transfer of the next write *)
  Fixpoint is_prefixb (eqb : B -> B -> bool) (p c : content) : bool :=
    match p, c with
    | [], _ => true
    | x :: p', y :: c' => eqb x y && is_prefixb eqb p' c'
    | _ :: _, [] => false
    end.

  (* classification of a file against the table of complete checkpoints (index = checkpoint number) *)
  Inductive fclass := CMissing | CEmpty | CComplete (k : nat) | CTorn (k : nat) | COther.
  Fixpoint last_idx (p : content -> bool) (table : list content) (i : nat) (acc : option nat) : option nat :=
    match table with
    | [] => acc
    | c :: r => last_idx p r (S i) (if p c then Some i else acc)
    end.
  Definition classify (eqb : B -> B -> bool) (table : list content) (oc : option content) : fclass :=
    match oc with
    | None => CMissing
    | Some [] => CEmpty
    | Some c =>
        match last_idx (fun t => is_prefixb eqb c t && Nat.eqb (length c) (length t)) table 0 None with
        | Some k => CComplete k
        | None => match last_idx (fun t => is_prefixb eqb c t) table 0 None with
                  | Some k => CTorn k
                  | None => COther
                  end
        end
    end.

  Inductive crash_prefix : list step -> list step -> Prop :=
  | cp_nil : forall l, crash_prefix l []
  | cp_torn : forall n c c' r l, c = c' ++ r -> crash_prefix (Append n c :: l) [Append n c']
  | cp_cons : forall s l p, crash_prefix l p -> crash_prefix (s :: l) (s :: p).

  (* --- a whole process: initial checkpoint, then one checkpoint per element of [news] ------------------- *)
  Record ckpt_io := { io_copy_lens : list nat; io_chunks : list content }.

  Fixpoint run_steps (b2o : bool) (f : fs) (news : list ckpt_io) : list step :=
    match news with
    | [] => []
    | io :: r => let s := checkpoint_steps b2o f (io_copy_lens io) (io_chunks io) in
                 s ++ run_steps b2o (exec f s) r
    end.

  (* --- recovery (lines 119-136) -------------------------------------------------------------------------
     The reader of one file either succeeds with a state, fails before touching the grid (missing file or bad
     magic), or fails after TasmanianSparseGrid::readBinary has already executed clear() (line 1559).        *)
  Variable St : Type.
  Inductive routcome := ROk (s : St) | RFailKeep | RFailCleared.
  Variable reader : content -> routcome.

  Inductive gstate := GInitial | GCleared | GLoaded (s : St).
  Inductive source := FromCur | FromOld | FromNothing.

  Definition attempt (f : fs) (n : fname) (g : gstate) : gstate * bool :=
    match f n with
    | None => (g, false)                                  (* "missing main checkpoint" *)
    | Some c => match reader c with
                | ROk s => (GLoaded s, true)
                | RFailKeep => (g, false)
                | RFailCleared => (GCleared, false)
                end
    end.

  (* as coded: the grid after two failed attempts is whatever the attempts left behind *)
  Definition recover_as_coded (f : fs) : gstate * source :=
    let (g1, ok1) := attempt f Cur GInitial in
    if ok1 then (g1, FromCur) else
    let (g2, ok2) := attempt f Old g1 in
    if ok2 then (g2, FromOld) else (g2, FromNothing).

  (* repaired: when nothing could be recovered the caller's grid is restored *)
  Definition recover_repaired (f : fs) : gstate * source :=
    match recover_as_coded f with
    | (_, FromNothing) => (GInitial, FromNothing)
    | r => r
    end.
End Files.

(* ------------------------------------------------------------------------------------------------------------
   Byte-level model of the checkpoint file:  <grid section> ++ <CompleteStorage section>.
   CompleteStorage::write = two size_t (8 bytes, little endian): number of doubles in `points` and in `values`,
   then the raw doubles.  The model reader CHECKS the lengths (this is what hypothesis H-TORN demands of the real
   one).  The grid section is abstract: its reader is a parameter.                                              *)
Section Bytes.
  Local Open Scope N_scope.
  Definition byte := N.

  Fixpoint enc_le (k : nat) (n : N) : list byte :=
    match k with O => [] | S k' => (n mod 256) :: enc_le k' (n / 256) end.
  Fixpoint dec_le (l : list byte) : N :=
    match l with [] => 0 | b :: r => b + 256 * dec_le r end.

  Record storage := { st_points : list byte; st_values : list byte }.   (* raw doubles, 8 bytes each *)

  Definition enc_storage (s : storage) : list byte :=
    enc_le 8 (N.of_nat (length (st_points s)) / 8) ++ enc_le 8 (N.of_nat (length (st_values s)) / 8)
    ++ st_points s ++ st_values s.

  (* the length test is done on binary numbers: a torn or foreign file may announce an astronomically large count *)
  Definition take_exact (n : N) (l : list byte) : option (list byte * list byte) :=
    if N.leb n (N.of_nat (length l)) then Some (firstn (N.to_nat n) l, skipn (N.to_nat n) l) else None.

  Definition storage_read (c : list byte) : option (storage * list byte) :=
    match take_exact 8 c with None => None | Some (h1, c1) =>
    match take_exact 8 c1 with None => None | Some (h2, c2) =>
    match take_exact (8 * dec_le h1) c2 with None => None | Some (p, c3) =>
    match take_exact (8 * dec_le h2) c3 with None => None | Some (v, c4) =>
      Some ({| st_points := p; st_values := v |}, c4)
    end end end end.

  Variable G : Type.
  Variable grid_read : list byte -> option (G * list byte).

  Definition ckpt_read (c : list byte) : option (G * storage) :=
    match grid_read c with
    | None => None
    | Some (g, rest) => match storage_read rest with
                        | None => None
                        | Some (s, _) => Some (g, s)        (* trailing bytes are not inspected by the code *)
                        end
    end.
End Bytes.

(* ------------------------------------------------------------------------------------------------------------
   Correspondence with the observed system-call log of one process (write side only).                          *)
Section Conformance.
  Variable B : Type.
  Notation fs := (fs B).
  Notation step := (step B).

  Inductive ostep := OOpenW (n : fname) | OWrite (n : fname) (len : nat) | OClose (n : fname).

  Definition shape (s : step) : ostep :=
    match s with
    | OpenTrunc _ n => OOpenW n
    | Append _ n c => OWrite n (length c)
    | Close _ n => OClose n
    end.

  Definition ostep_eqb (a b : ostep) : bool :=
    match a, b with
    | OOpenW n, OOpenW m => fname_eqb n m
    | OWrite n k, OWrite m j => fname_eqb n m && Nat.eqb k j
    | OClose n, OClose m => fname_eqb n m
    | _, _ => false
    end.

  Fixpoint take_writes (obs : list ostep) : list nat * list ostep :=
    match obs with
    | OWrite _ k :: r => let (ls, rest) := take_writes r in (k :: ls, rest)
    | _ => ([], obs)
    end.

  (* the steps the model expects for a stream [c] written to [n], using the chunk lengths found in the log *)
  Definition expect_write (n : fname) (c : content B) (obs : list ostep) : list step * list ostep :=
    let (lens, rest) := take_writes (tl obs) in
    (write_file B n (split_by B lens c), tl rest).

  Definition expect_ckpt (b2o : bool) (f : fs) (newc : content B) (obs : list ostep) : list step :=
    let tgt := backup_target b2o in
    let src := getc B (exec_step B f (OpenTrunc B tgt)) Cur in
    let (s1, obs1) := expect_write tgt src obs in
    let (s2, _) := expect_write Cur newc obs1 in
    s1 ++ s2.

  Fixpoint obs_prefixb (a b : list ostep) : bool :=      (* a is a prefix of b *)
    match a, b with
    | [], _ => true
    | x :: a', y :: b' => ostep_eqb x y && obs_prefixb a' b'
    | _ :: _, [] => false
    end.

  Inductive verdict :=
  | Conforms (final : fs) (completed : nat)      (* the whole log is explained; [completed] streams fully written *)
  | Deviates (at_stream : nat).

  (* follow the log through the streams [cs] (one per checkpoint, the first one being the initial checkpoint when
     [first_is_initial]); a log that ends inside a stream (the process was killed) conforms when it is a prefix of
     the expected shapes                                                                                        *)
  Fixpoint follow (b2o : bool) (first_is_initial : bool) (f : fs) (cs : list (content B)) (obs : list ostep)
           (done : nat) : verdict :=
    match cs with
    | [] => match obs with [] => Conforms f done | _ => Deviates done end
    | c :: r =>
        let steps := if first_is_initial then fst (expect_write Cur c obs) else expect_ckpt b2o f c obs in
        let sh := map shape steps in
        if obs_prefixb sh obs then
          follow b2o false (exec B f steps) r (skipn (length sh) obs) (S done)
        else if obs_prefixb obs sh then Conforms (exec B f (firstn (length obs) steps)) done
        else Deviates done
    end.
End Conformance.
