(* Sequence-grid instance of the generic hierarchical model (M-D / Sequence): Newton polynomials over an abstract
   sequence of pairwise distinct nodes, tensor-product basis, componentwise-smaller indexes as the visited ancestors,
   ordering by the sum of the indexes.  Written after GridSequence::recomputeSurpluses.  No proofs here. *)
From TV Require Import Common.Prelude Model.Hier.
From Coq Require Import QArith Qcanon.
Local Close Scope Qc_scope.
Local Close Scope Q_scope.
Local Open Scope nat_scope.

Section SequenceGrid.
  Variable xs : nat -> Qc.      (* the one-dimensional node sequence *)

  (* product over l < n of (x - x_l) / (x_m - x_l) *)
  Fixpoint newton_aux (n m : nat) (x : Qc) : Qc :=
    match n with
    | O => 1%Qc
    | S n' => (newton_aux n' m x * ((x - xs n') / (xs m - xs n')))%Qc
    end.
  Definition newton (m : nat) (x : Qc) : Qc := newton_aux m m x.

  Definition mindex := list nat.

  Fixpoint basis (j : mindex) (x : list Qc) : Qc :=
    match j, x with
    | m :: j', t :: x' => (newton m t * basis j' x')%Qc
    | _, _ => 1%Qc
    end.
  Definition node_of (i : mindex) : list Qc := map xs i.
  Definition Bseq (i j : mindex) : Qc := basis j (node_of i).

  Fixpoint mi_eqb (a b : mindex) : bool :=
    match a, b with
    | [], [] => true
    | x :: a', y :: b' => Nat.eqb x y && mi_eqb a' b'
    | _, _ => false
    end.
  Fixpoint mi_le (a b : mindex) : bool :=     (* componentwise a <= b, same length *)
    match a, b with
    | [], [] => true
    | x :: a', y :: b' => Nat.leb x y && mi_le a' b'
    | _, _ => false
    end.

  Definition reach_seq (Theta : list mindex) (i : mindex) : list mindex :=
    filter (fun j => mi_le j i && negb (mi_eqb j i)) Theta.

  Definition isum (i : mindex) : nat := fold_right Nat.add 0 i.
  Fixpoint insert_by_sum (x : mindex) (l : list mindex) : list mindex :=
    match l with
    | [] => [x]
    | y :: l' => if Nat.ltb (isum x) (isum y) then x :: l else y :: insert_by_sum x l'
    end.
  Definition by_sum (Theta : list mindex) : list mindex := fold_right insert_by_sum [] Theta.

  Variable v : mindex -> Qc.
  Definition seq_interp (Theta : list mindex) (x : list Qc) : Qc :=
    interp Qc 0%Qc Qcplus Qcmult Qcminus mindex mi_eqb Bseq (reach_seq Theta) v (by_sum Theta) (fun j => basis j x).
  Definition seq_surpluses (Theta : list mindex) : list (mindex * Qc) :=
    coef Qc 0%Qc Qcplus Qcmult Qcminus mindex mi_eqb Bseq (reach_seq Theta) v (by_sum Theta).
End SequenceGrid.
