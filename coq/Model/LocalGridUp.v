(* The ancestor links of HierarchyManipulations::computeDAGup (tsgHierarchyManipulator.cpp) as the code computes them,
   also for point sets with HOLES: in every direction the walk goes up from the point through getParent until it meets
   a PRESENT point or a point on level zero,

       dad[j] = getParent(current); pp = getSlot(dad);
       while (dad[j] is above level 0 && pp == -1) { current = dad[j]; dad[j] = getParent(current); pp = getSlot(dad); }

   and links the point to that nearest present ancestor.  The rules with one parent (localp, localp0) test
   `dad[j] != 0`, the rules with two parents (pwc, semilocalp, localpb) test `dad[j] >= getNumPoints(0)` and add the
   entry getSlot(getStepParent(current)) for the LAST `current` of the walk.  [Model.LocalGrid.parents] lists the
   DIRECT parents only; the two agree on hierarchy-complete sets (Proofs/LocalGridUpProofs.v) and differ on sets with
   holes.  [reach_up], [surpluses_up], [evalAt_up], [hier_cert_up] are [reach], [surpluses], [evalAt], [hier_cert] of
   Model/LocalGrid.v over these links: updateSurpluses walks dagUp depth first with a `used` flag and subtracts
   basis(ancestor at the node) * surplus(ancestor) once for every point it meets, i.e. for the set of points reachable
   through the links, whatever levels the links skip.  No proofs here. *)
From TV Require Import Common.Prelude Model.IndexSets Model.RuleLocal Model.Selection Model.Hier Model.LocalGrid.
From Coq Require Import QArith Qcanon.
Local Open Scope Z_scope.

Section LocalGridUp.
  Variable r : erule.
  Variable order : Z.

  (* which branch of computeDAGup: RuleLocal::getMaxNumParents<effrule>() > 1 *)
  Definition multi_parent : bool := 1 <? getMaxNumParents r.

  (* "q is not on level zero" as the two branches test it: q != 0  /  q >= level0_offset = getNumPoints(0) *)
  Definition above0 (q : Z) : bool :=
    if multi_parent then getNumPoints r 0 <=? q else negb (q =? 0).

  (* getSlot(dad) with dad = i except for direction dir: the entry, dropped when it is -1 *)
  Definition slot_entry (pts : list idx) (i : idx) (dir : nat) (q : Z) : list idx :=
    let pa := set_nth i dir q in if memb pa pts then [pa] else [].

  (* the while loop; returns the last (current, dad[j]).  One unit of fuel per iteration. *)
  Fixpoint walk_up (fuel : nat) (pts : list idx) (i : idx) (dir : nat) (current : Z) : Z * Z :=
    let dad := getParent r current in
    match fuel with
    | O => (current, dad)
    | S f => if above0 dad && negb (memb (set_nth i dir dad) pts)
             then walk_up f pts i dir dad
             else (current, dad)
    end.

  (* the entries of direction dir of the strip of point i: pp[j]  /  pp[2j], pp[2j+1].
     Fuel = the point number: every getParent step decreases it (walk_up_fuel in the proofs). *)
  Definition up_dir (pts : list idx) (i : idx) (dir : nat) : list idx :=
    let p := nth dir i 0 in
    if above0 p then
      let (current, dad) := walk_up (Z.to_nat p) pts i dir p in
      slot_entry pts i dir dad ++
      (if multi_parent
       then let sp := getStepParent r current in if sp =? -1 then [] else slot_entry pts i dir sp
       else [])
    else [].

  (* the strip of point i, direction-major, without the -1 entries *)
  Definition parents_up (pts : list idx) (i : idx) : list idx :=
    flat_map (up_dir pts i) (seq 0 (length i)).

  (* depth-first walk of updateSurpluses over these links (same shape as LocalGrid.closure) *)
  Fixpoint closure_up (fuel : nat) (pts frontier acc : list idx) : list idx :=
    match fuel with
    | O => acc
    | S f => match frontier with
             | [] => acc
             | x :: fr => if memb x acc then closure_up f pts fr acc
                          else closure_up f pts (parents_up pts x ++ fr) (x :: acc)
             end
    end.
  Definition reach_up (pts : list idx) (i : idx) : list idx :=
    closure_up (S (length pts) * (2 * length i + 2)) pts (parents_up pts i) [].

  Definition surpluses_up (pts : list idx) (vals : list (idx * Qc)) : list (idx * Qc) :=
    coef Qc 0%Qc Qcplus Qcmult Qcminus idx idx_eqb (Bc r order) (reach_up pts) (assoc vals) (by_level r pts).

  Definition evalAt_up (pts : list idx) (vals : list (idx * Qc)) (x : list Q) : Qc :=
    interp Qc 0%Qc Qcplus Qcmult Qcminus idx idx_eqb (Bc r order) (reach_up pts) (assoc vals) (by_level r pts)
           (fun j => Q2Qc (basisQ r order j x)).

  (* the decidable certificate of the hypotheses of hier_reproduces / hier_unique, over reach_up *)
  Definition hier_cert_up (pts : list idx) : bool :=
    let nodes := by_level r pts in
    let d := length (hd [] pts) in
    forallb (fun i => Nat.eqb (length i) d) nodes &&
    nodupb nodes &&
    forallb (fun i => Qc_eq_bool (Bc r order i i) 1%Qc) nodes &&
    forallb (fun i => nodupb (reach_up pts i)) nodes &&
    forallb (fun i => forallb (fun j => memb j nodes && negb (idx_eqb j i)) (reach_up pts i)) nodes &&
    forallb (fun i => let ri := reach_up pts i in
                      forallb (fun j => idx_eqb j i || memb j ri || Qc_eq_bool (Bc r order i j) 0%Qc) nodes) nodes &&
    topob (reach_up pts) [] nodes.
End LocalGridUp.
