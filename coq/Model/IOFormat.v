(* IOFormat — byte-level model of the version-5 BINARY file format of TasmanianSparseGrid
   (writeBinary/readBinary in TasmanianSparseGrid.cpp, the per-family write<mode_binary>() and
   GridReaderVersion5<...>::read<mode_binary_type>(), MultiIndexSet/StorageSet/Data2D I/O, the
   construction data of tsgDConstructGridGlobal.{hpp,cpp} and the custom tabulated rule of
   tsgCoreOneDimensional.cpp).

   [gfile] mirrors what the writers EMIT (not the C++ objects): one constructor per family, every optional
   section an [option].  [encode] follows the writers statement by statement, [decode] follows the readers
   statement by statement: every count the reader uses to know how much to read is computed from the fields
   read before, exactly as in the C++.  No proofs in this file.

   Bytes are integers (0..255 at run time; no theorem needs the range).  int = 4 bytes two's complement little
   endian, double = an opaque block of 8 bytes, char / flag = 1 byte. *)
From TV Require Import Common.Prelude.
Local Open Scope Z_scope.

Definition byte := Z.
Definition bytes := list byte.

(* ------------------------------------------------------------------------------------------ primitives *)
Record f64 := F64 { f64_0 : byte; f64_1 : byte; f64_2 : byte; f64_3 : byte; f64_4 : byte; f64_5 : byte; f64_6 : byte; f64_7 : byte }.

Definition enc_f64 (x : f64) : bytes :=
  [f64_0 x; f64_1 x; f64_2 x; f64_3 x; f64_4 x; f64_5 x; f64_6 x; f64_7 x].

Definition i32 (z : Z) : Prop := -2147483648 <= z < 2147483648.

Definition enc_i32 (z : Z) : bytes :=
  let u := z mod 4294967296 in
  [u mod 256; (u / 256) mod 256; (u / 65536) mod 256; (u / 16777216) mod 256].

Definition i32_of_bytes (b0 b1 b2 b3 : byte) : Z :=
  let u := b0 + 256 * b1 + 65536 * b2 + 16777216 * b3 in
  if 2147483648 <=? u then u - 4294967296 else u.

Definition enc_char (c : byte) : bytes := [c].

(* characters used by the format *)
Definition ch_y := 121.  Definition ch_n := 110.  Definition ch_a := 97.   Definition ch_c := 99.
Definition ch_s := 115.  Definition ch_e := 101.  Definition ch_g := 103.  Definition ch_p := 112.
Definition ch_w := 119.  Definition ch_f := 102.
Definition ch_T := 84.   Definition ch_S := 83.   Definition ch_G := 71.   Definition ch_5 := 53.

(* ------------------------------------------------------------------------------------------ parsers *)
Definition parser (A : Type) := bytes -> option (A * bytes).

Definition ret {A} (a : A) : parser A := fun s => Some (a, s).
Definition fail {A} : parser A := fun _ => None.
Definition bind {A B} (p : parser A) (f : A -> parser B) : parser B :=
  fun s => match p s with Some (a, r) => f a r | None => None end.

Definition p_byte : parser byte := fun s => match s with b :: r => Some (b, r) | [] => None end.

Definition p_i32 : parser Z := fun s =>
  match s with b0 :: b1 :: b2 :: b3 :: r => Some (i32_of_bytes b0 b1 b2 b3, r) | _ => None end.

Definition p_f64 : parser f64 := fun s =>
  match s with a :: b :: c :: d :: e :: f :: g :: h :: r => Some (F64 a b c d e f g h, r) | _ => None end.

(* n items one after the other: IO::readVector with a known size *)
Fixpoint p_count {A} (n : nat) (p : parser A) : parser (list A) :=
  match n with
  | O => ret []
  | S k => bind p (fun a => bind (p_count k p) (fun l => ret (a :: l)))
  end.

Definition p_i32s (n : Z) : parser (list Z) := p_count (Z.to_nat n) p_i32.
Definition p_f64s (n : Z) : parser (list f64) := p_count (Z.to_nat n) p_f64.
Definition enc_i32s (l : list Z) : bytes := flat_map enc_i32 l.
Definition enc_f64s (l : list f64) : bytes := flat_map enc_f64 l.
Definition zlen {A} (l : list A) : Z := Z.of_nat (length l).

(* IO::writeFlag / IO::readFlag in binary mode: 'y' / 'n'; the reader takes everything but 'y' as false *)
Definition enc_flag (b : bool) : bytes := enc_char (if b then ch_y else ch_n).
Definition p_flag : parser bool := bind p_byte (fun c => ret (c =? ch_y)).

(* "writeFlag(present); if (present) write(x)"   /   "if (readFlag()) x = read()" *)
Definition enc_opt {A} (enc : A -> bytes) (o : option A) : bytes :=
  match o with Some a => enc_flag true ++ enc a | None => enc_flag false end.
Definition p_opt {A} (p : parser A) : parser (option A) :=
  bind p_flag (fun b => if b then bind p (fun a => ret (Some a)) else ret None).

(* "if (cond) write(x)"   /   "if (cond) x = read()"   with a condition known to both sides *)
Definition enc_when {A} (enc : A -> bytes) (o : option A) : bytes :=
  match o with Some a => enc a | None => [] end.
Definition p_when {A} (c : bool) (p : parser A) : parser (option A) :=
  if c then bind p (fun a => ret (Some a)) else ret None.

(* ------------------------------------------------------------------------------------------ MultiIndexSet *)
Record mset := MSet { ms_nd : Z; ms_ni : Z; ms_idx : list Z }.

(* MultiIndexSet::write: the two counts, the indexes only when there is at least one *)
Definition enc_mset (m : mset) : bytes :=
  enc_i32 (ms_nd m) ++ enc_i32 (ms_ni m) ++ (if 0 <? ms_ni m then enc_i32s (ms_idx m) else []).
(* MultiIndexSet(std::istream&, iomode): num_dimensions, cache_num_indexes, then nd*ni ints *)
Definition p_mset : parser mset :=
  bind p_i32 (fun nd => bind p_i32 (fun ni => bind (p_i32s (nd * ni)) (fun idx => ret (MSet nd ni idx)))).

(* getNumIndexes() of a set that may not have been read (default constructed: 0) *)
Definition npts (o : option mset) : Z := match o with Some m => ms_ni m | None => 0 end.
(* MultiIndexSet::empty() of the same *)
Definition mempty (o : option mset) : bool :=
  match o with Some m => match ms_idx m with [] => true | _ => false end | None => true end.

(* ------------------------------------------------------------------------------------------ StorageSet *)
Record storage := Storage { st_no : Z; st_nv : Z; st_vals : option (list f64) }.

Definition enc_storage (s : storage) : bytes :=
  enc_i32 (st_no s) ++ enc_i32 (st_nv s) ++ enc_opt enc_f64s (st_vals s).
Definition p_storage : parser storage :=
  bind p_i32 (fun no => bind p_i32 (fun nv => bind (p_opt (p_f64s (no * nv))) (fun v => ret (Storage no nv v)))).

(* ------------------------------------------------------------------------------------------ custom tabulated rule *)
Record custom := Custom { cu_desc : bytes; cu_nodes : list Z; cu_prec : list Z; cu_tab : list (list f64 * list f64) }.

Definition enc_table (wx : list f64 * list f64) : bytes := enc_f64s (fst wx) ++ enc_f64s (snd wx).
Definition enc_custom (c : custom) : bytes :=
  enc_i32 (zlen (cu_desc c)) ++ cu_desc c ++ enc_i32 (zlen (cu_nodes c)) ++ enc_i32s (cu_nodes c) ++ enc_i32s (cu_prec c)
  ++ flat_map enc_table (cu_tab c).

(* description = desc.data(): the C string stops at the first NUL *)
Fixpoint until0 (l : bytes) : bytes := match l with [] => [] | b :: r => if b =? 0 then [] else b :: until0 r end.
Fixpoint p_tables (nn : list Z) : parser (list (list f64 * list f64)) :=
  match nn with
  | [] => ret []
  | n :: r => bind (p_f64s n) (fun w => bind (p_f64s n) (fun x => bind (p_tables r) (fun t => ret ((w, x) :: t))))
  end.
Definition p_custom : parser custom :=
  bind p_i32 (fun nd => bind (p_count (Z.to_nat nd) p_byte) (fun desc =>
  bind p_i32 (fun nl => bind (p_i32s nl) (fun nn => bind (p_i32s nl) (fun pr =>
  bind (p_tables nn) (fun tab => ret (Custom (until0 desc) nn pr tab))))))).

Definition rule_customtabulated := 36.     (* position in IO::getIntRuleMap() *)
Definition rule_localp0 := 38.  Definition rule_semilocalp := 39.  Definition rule_localpb := 42.

(* ------------------------------------------------------------------------------------------ updated tensors (Global, Fourier) *)
Record updated := Updated { up_tensors : mset; up_active : mset; up_w : list Z }.
Definition enc_updated (u : updated) : bytes := enc_mset (up_tensors u) ++ enc_mset (up_active u) ++ enc_i32s (up_w u).
Definition p_updated : parser updated :=
  bind p_mset (fun t => bind p_mset (fun a => bind (p_i32s (ms_ni a)) (fun w => ret (Updated t a w)))).

(* ------------------------------------------------------------------------------------------ GridGlobal *)
Record globalg := GlobalG {
  gg_dims : Z; gg_outs : Z; gg_alpha : f64; gg_beta : f64; gg_rule : Z;
  gg_custom : option custom;                (* present iff rule == rule_customtabulated *)
  gg_tensors : mset; gg_active : mset; gg_active_w : list Z;
  gg_points : option mset; gg_needed : option mset;
  gg_max_levels : list Z;
  gg_values : option storage;               (* present iff outs > 0 *)
  gg_updated : option updated }.

Definition enc_global (g : globalg) : bytes :=
  enc_i32 (gg_dims g) ++ enc_i32 (gg_outs g) ++ enc_f64 (gg_alpha g) ++ enc_f64 (gg_beta g) ++ enc_i32 (gg_rule g)
  ++ enc_when enc_custom (gg_custom g)
  ++ enc_mset (gg_tensors g) ++ enc_mset (gg_active g) ++ enc_i32s (gg_active_w g)
  ++ enc_opt enc_mset (gg_points g) ++ enc_opt enc_mset (gg_needed g)
  ++ enc_i32s (gg_max_levels g)
  ++ enc_when enc_storage (gg_values g)
  ++ enc_opt enc_updated (gg_updated g).

Definition p_global : parser globalg :=
  bind p_i32 (fun dims => bind p_i32 (fun outs => bind p_f64 (fun al => bind p_f64 (fun be => bind p_i32 (fun rule =>
  bind (p_when (rule =? rule_customtabulated) p_custom) (fun cu =>
  bind p_mset (fun tens => bind p_mset (fun act => bind (p_i32s (ms_ni act)) (fun aw =>
  bind (p_opt p_mset) (fun pts => bind (p_opt p_mset) (fun nee =>
  bind (p_i32s dims) (fun ml =>
  bind (p_when (0 <? outs) p_storage) (fun vals =>
  bind (p_opt p_updated) (fun upd =>
  ret (GlobalG dims outs al be rule cu tens act aw pts nee ml vals upd))))))))))))))).

(* ------------------------------------------------------------------------------------------ GridSequence *)
Record seqg := SeqG {
  sq_dims : Z; sq_outs : Z; sq_rule : Z;
  sq_points : option mset; sq_needed : option mset;
  sq_surpluses : option (list f64);
  sq_values : option storage }.

Definition enc_seq (g : seqg) : bytes :=
  enc_i32 (sq_dims g) ++ enc_i32 (sq_outs g) ++ enc_i32 (sq_rule g)
  ++ enc_opt enc_mset (sq_points g) ++ enc_opt enc_mset (sq_needed g)
  ++ enc_opt enc_f64s (sq_surpluses g)
  ++ enc_when enc_storage (sq_values g).

Definition p_seq : parser seqg :=
  bind p_i32 (fun dims => bind p_i32 (fun outs => bind p_i32 (fun rule =>
  bind (p_opt p_mset) (fun pts => bind (p_opt p_mset) (fun nee =>
  bind (p_opt (p_f64s (outs * npts pts))) (fun sur =>
  bind (p_when (0 <? outs) p_storage) (fun vals =>
  ret (SeqG dims outs rule pts nee sur vals)))))))).

(* ------------------------------------------------------------------------------------------ GridLocalPolynomial *)
Record localg := LocalG {
  lp_dims : Z; lp_outs : Z; lp_order : Z; lp_top : Z; lp_rule : Z;
  lp_points : option mset; lp_needed : option mset;      (* binary order: needed before surpluses *)
  lp_surpluses : option (list f64);
  lp_parents : option (list Z);
  lp_roots : list Z; lp_pntr : list Z; lp_indx : list Z;
  lp_values : option storage }.

(* RuleLocal::getMaxNumParents(getEffectiveRule(order, rule)) *)
Definition max_parents (order rule : Z) : Z :=
  if order =? 0 then 2 else if (rule =? rule_semilocalp) || (rule =? rule_localpb) then 2 else 1.

(* num_points = points.empty() ? needed.getNumIndexes() : points.getNumIndexes() *)
Definition tree_points (pts nee : option mset) : Z := if mempty pts then npts nee else npts pts.
Definition indx_count (pntr : list Z) : Z := let l := last pntr 0 in if 0 <? l then l else 1.

Definition enc_tree (roots pntr indx : list Z) : bytes :=
  enc_i32 (zlen roots) ++ (match roots with [] => [] | _ => enc_i32s roots ++ enc_i32s pntr ++ enc_i32s indx end).
Definition p_tree (np : Z) : parser (list Z * list Z * list Z) :=
  bind p_i32 (fun nr =>
    if 0 <? nr then
      bind (p_i32s nr) (fun roots => bind (p_i32s (np + 1)) (fun pntr => bind (p_i32s (indx_count pntr)) (fun indx =>
      ret (roots, pntr, indx))))
    else ret ([], [], [])).

Definition enc_local (g : localg) : bytes :=
  enc_i32 (lp_dims g) ++ enc_i32 (lp_outs g) ++ enc_i32 (lp_order g) ++ enc_i32 (lp_top g) ++ enc_i32 (lp_rule g)
  ++ enc_opt enc_mset (lp_points g) ++ enc_opt enc_mset (lp_needed g)
  ++ enc_opt enc_f64s (lp_surpluses g)
  ++ enc_opt enc_i32s (lp_parents g)
  ++ enc_tree (lp_roots g) (lp_pntr g) (lp_indx g)
  ++ enc_when enc_storage (lp_values g).

Definition p_local : parser localg :=
  bind p_i32 (fun dims => bind p_i32 (fun outs => bind p_i32 (fun order => bind p_i32 (fun top => bind p_i32 (fun rule =>
  bind (p_opt p_mset) (fun pts => bind (p_opt p_mset) (fun nee =>
  bind (p_opt (p_f64s (outs * npts pts))) (fun sur =>
  bind (p_opt (p_i32s (max_parents order rule * dims * npts pts))) (fun par =>
  bind (p_tree (tree_points pts nee)) (fun t =>
  bind (p_when (0 <? outs) p_storage) (fun vals =>
  ret (LocalG dims outs order top rule pts nee sur par (fst (fst t)) (snd (fst t)) (snd t) vals)))))))))))).

(* ------------------------------------------------------------------------------------------ GridWavelet *)
Record waveg := WaveG {
  wv_dims : Z; wv_outs : Z; wv_order : Z;
  wv_points : option mset; wv_needed : option mset;
  wv_coefficients : option (list f64);
  wv_values : option storage }.

Definition enc_wave (g : waveg) : bytes :=
  enc_i32 (wv_dims g) ++ enc_i32 (wv_outs g) ++ enc_i32 (wv_order g)
  ++ enc_opt enc_mset (wv_points g) ++ enc_opt enc_mset (wv_needed g)
  ++ enc_opt enc_f64s (wv_coefficients g)
  ++ enc_when enc_storage (wv_values g).

Definition p_wave : parser waveg :=
  bind p_i32 (fun dims => bind p_i32 (fun outs => bind p_i32 (fun order =>
  bind (p_opt p_mset) (fun pts => bind (p_opt p_mset) (fun nee =>
  bind (p_opt (p_f64s (outs * npts pts))) (fun co =>
  bind (p_when (0 <? outs) p_storage) (fun vals =>
  ret (WaveG dims outs order pts nee co vals)))))))).

(* ------------------------------------------------------------------------------------------ GridFourier *)
Record fourierg := FourierG {
  fo_dims : Z; fo_outs : Z;
  fo_tensors : mset; fo_active : mset; fo_active_w : list Z;
  fo_points : option mset; fo_needed : option mset;
  fo_max_levels : list Z;
  fo_values : option (storage * option (list f64));   (* values and Fourier coefficients, present iff outs > 0 *)
  fo_updated : option updated }.

Definition enc_fvals (v : storage * option (list f64)) : bytes := enc_storage (fst v) ++ enc_opt enc_f64s (snd v).
Definition p_fvals (n : Z) : parser (storage * option (list f64)) :=
  bind p_storage (fun s => bind (p_opt (p_f64s n)) (fun c => ret (s, c))).

Definition enc_fourier (g : fourierg) : bytes :=
  enc_i32 (fo_dims g) ++ enc_i32 (fo_outs g)
  ++ enc_mset (fo_tensors g) ++ enc_mset (fo_active g) ++ enc_i32s (fo_active_w g)
  ++ enc_opt enc_mset (fo_points g) ++ enc_opt enc_mset (fo_needed g)
  ++ enc_i32s (fo_max_levels g)
  ++ enc_when enc_fvals (fo_values g)
  ++ enc_opt enc_updated (fo_updated g).

Definition p_fourier : parser fourierg :=
  bind p_i32 (fun dims => bind p_i32 (fun outs =>
  bind p_mset (fun tens => bind p_mset (fun act => bind (p_i32s (ms_ni act)) (fun aw =>
  bind (p_opt p_mset) (fun pts => bind (p_opt p_mset) (fun nee =>
  bind (p_i32s dims) (fun ml =>
  bind (p_when (0 <? outs) (p_fvals (outs * (2 * npts pts)))) (fun vals =>
  bind (p_opt p_updated) (fun upd =>
  ret (FourierG dims outs tens act aw pts nee ml vals upd))))))))))).

(* ------------------------------------------------------------------------------------------ construction data *)
Definition node := (list Z * list f64)%type.        (* NodeData: point, value *)
Definition tensor := (f64 * list Z)%type.           (* TensorData: weight, tensor *)
Inductive cdata :=
| CGlobal (tensors : list tensor) (nodes : list node)      (* DynamicConstructorDataGlobal: Global, Fourier *)
| CSimple (initial : mset) (nodes : list node).            (* SimpleConstructData: Sequence, LocalPolynomial, Wavelet *)

Definition enc_node (n : node) : bytes := enc_i32s (fst n) ++ enc_f64s (snd n).
Definition enc_nodes (l : list node) : bytes := enc_i32 (zlen l) ++ flat_map enc_node l.
Definition enc_tensor (t : tensor) : bytes := enc_f64 (fst t) ++ enc_i32s (snd t).
Definition enc_tensors (l : list tensor) : bytes := enc_i32 (zlen l) ++ flat_map enc_tensor l.

Definition p_node (dims outs : Z) : parser node := bind (p_i32s dims) (fun p => bind (p_f64s outs) (fun v => ret (p, v))).
Definition p_nodes (dims outs : Z) : parser (list node) := bind p_i32 (fun n => p_count (Z.to_nat n) (p_node dims outs)).
Definition p_tensor (dims : Z) : parser tensor := bind p_f64 (fun w => bind (p_i32s dims) (fun t => ret (w, t))).
Definition p_tensors (dims : Z) : parser (list tensor) := bind p_i32 (fun n => p_count (Z.to_nat n) (p_tensor dims)).

Definition enc_cdata (c : cdata) : bytes :=
  match c with
  | CGlobal t n => enc_tensors t ++ enc_nodes n
  | CSimple i n => enc_mset i ++ enc_nodes n
  end.
Definition p_cglobal (dims outs : Z) : parser cdata :=
  bind (p_tensors dims) (fun t => bind (p_nodes dims outs) (fun n => ret (CGlobal t n))).
Definition p_csimple (dims outs : Z) : parser cdata :=
  bind p_mset (fun i => bind (p_nodes dims outs) (fun n => ret (CSimple i n))).

(* ------------------------------------------------------------------------------------------ the whole file *)
Inductive body :=
| BEmpty | BGlobal (g : globalg) | BSequence (g : seqg) | BLocal (g : localg) | BWavelet (g : waveg) | BFourier (g : fourierg).

Record gfile := GFile {
  gf_body : body;
  gf_transform : option (list f64 * list f64);
  gf_conformal : option (list Z);
  gf_limits : option (list Z);
  gf_construction : option cdata }.

Definition body_tag (b : body) : byte :=
  match b with BEmpty => ch_e | BGlobal _ => ch_g | BSequence _ => ch_s | BLocal _ => ch_p | BWavelet _ => ch_w | BFourier _ => ch_f end.
Definition enc_body (b : body) : bytes :=
  match b with
  | BEmpty => [] | BGlobal g => enc_global g | BSequence g => enc_seq g | BLocal g => enc_local g
  | BWavelet g => enc_wave g | BFourier g => enc_fourier g
  end.
(* new_base->getNumDimensions() / getNumOutputs(); an empty grid has no base object *)
Definition body_dims (b : body) : option Z :=
  match b with
  | BEmpty => None | BGlobal g => Some (gg_dims g) | BSequence g => Some (sq_dims g) | BLocal g => Some (lp_dims g)
  | BWavelet g => Some (wv_dims g) | BFourier g => Some (fo_dims g)
  end.
Definition body_outs (b : body) : Z :=
  match b with
  | BEmpty => 0 | BGlobal g => gg_outs g | BSequence g => sq_outs g | BLocal g => lp_outs g
  | BWavelet g => wv_outs g | BFourier g => fo_outs g
  end.
Definition body_global_construction (b : body) : bool :=
  match b with BGlobal _ | BFourier _ => true | _ => false end.

Definition p_body : parser body :=
  bind p_byte (fun t =>
    if t =? ch_g then bind p_global (fun g => ret (BGlobal g))
    else if t =? ch_s then bind p_seq (fun g => ret (BSequence g))
    else if t =? ch_p then bind p_local (fun g => ret (BLocal g))
    else if t =? ch_w then bind p_wave (fun g => ret (BWavelet g))
    else if t =? ch_f then bind p_fourier (fun g => ret (BFourier g))
    else if t =? ch_e then ret BEmpty
    else fail).

Definition enc_pair (ab : list f64 * list f64) : bytes := enc_f64s (fst ab) ++ enc_f64s (snd ab).
(* a section introduced by the character [yes]; [ch_n] when absent *)
Definition enc_sec {A} (yes : byte) (enc : A -> bytes) (o : option A) : bytes :=
  match o with Some a => enc_char yes ++ enc a | None => enc_char ch_n end.
(* the reader needs the base object for the sizes: a section on an empty grid cannot be read *)
Definition p_sec {A} (yes : byte) (dims : option Z) (p : Z -> parser A) : parser (option A) :=
  bind p_byte (fun c =>
    if c =? yes then match dims with Some d => bind (p d) (fun a => ret (Some a)) | None => fail end
    else if c =? ch_n then ret None else fail).

Definition encode (g : gfile) : bytes :=
  [ch_T; ch_S; ch_G; ch_5] ++ enc_char (body_tag (gf_body g)) ++ enc_body (gf_body g)
  ++ enc_sec ch_y enc_pair (gf_transform g)
  ++ enc_sec ch_a enc_i32s (gf_conformal g)
  ++ enc_sec ch_y enc_i32s (gf_limits g)
  ++ (match gf_construction g with Some c => enc_char ch_c ++ enc_cdata c | None => enc_char ch_s end)
  ++ enc_char ch_e.

Definition p_header : parser unit := fun s =>
  match s with
  | a :: b :: c :: d :: r => if (a =? ch_T) && (b =? ch_S) && (c =? ch_G) && (d =? ch_5) then Some (tt, r) else None
  | _ => None
  end.

Definition p_end : parser unit := bind p_byte (fun c => if c =? ch_e then ret tt else fail).

(* construction section: 'c' data 'e' | 's' 'e' | 'e' (files written before the section existed) *)
Definition p_construction (b : body) : parser (option cdata) :=
  bind p_byte (fun c =>
    if c =? ch_c then
      match body_dims b with
      | Some d => bind ((if body_global_construction b then p_cglobal else p_csimple) d (body_outs b)) (fun x =>
                  bind p_end (fun _ => ret (Some x)))
      | None => fail
      end
    else if c =? ch_e then ret None
    else if c =? ch_s then bind p_end (fun _ => ret None)
    else fail).

Definition decode : parser gfile :=
  bind p_header (fun _ => bind p_body (fun b =>
  bind (p_sec ch_y (body_dims b) (fun d => bind (p_f64s d) (fun a => bind (p_f64s d) (fun bb => ret (a, bb))))) (fun tr =>
  bind (p_sec ch_a (body_dims b) p_i32s) (fun cf =>
  bind (p_sec ch_y (body_dims b) p_i32s) (fun ll =>
  bind (p_construction b) (fun cd =>
  ret (GFile b tr cf ll cd))))))).

(* ------------------------------------------------------------------------------------------ well-formedness:
   exactly the size relations the readers use to know how much to read, and the int ranges *)
Definition i32s (l : list Z) : Prop := Forall i32 l.
Definition lenZ {A} (l : list A) (n : Z) : Prop := length l = Z.to_nat n.

Definition wf_mset (m : mset) : Prop :=
  i32 (ms_nd m) /\ i32 (ms_ni m) /\ 0 <= ms_nd m /\ 0 <= ms_ni m /\ lenZ (ms_idx m) (ms_nd m * ms_ni m) /\ i32s (ms_idx m).
Definition wf_omset (o : option mset) : Prop := match o with Some m => wf_mset m | None => True end.

Definition wf_of64s (o : option (list f64)) (n : Z) : Prop := match o with Some l => lenZ l n | None => True end.
Definition wf_oi32s (o : option (list Z)) (n : Z) : Prop := match o with Some l => lenZ l n /\ i32s l | None => True end.

Definition wf_storage (s : storage) : Prop :=
  i32 (st_no s) /\ i32 (st_nv s) /\ wf_of64s (st_vals s) (st_no s * st_nv s).
(* "if (num_outputs > 0) values.write()" *)
Definition wf_values (outs : Z) (o : option storage) : Prop :=
  match o with Some s => 0 < outs /\ wf_storage s | None => outs <= 0 end.

Definition wf_custom (c : custom) : Prop :=
  i32 (zlen (cu_desc c)) /\ Forall (fun b => b <> 0) (cu_desc c) /\
  i32 (zlen (cu_nodes c)) /\ i32s (cu_nodes c) /\ i32s (cu_prec c) /\ length (cu_prec c) = length (cu_nodes c) /\
  Forall2 (fun n wx => lenZ (fst wx) n /\ lenZ (snd wx) n) (cu_nodes c) (cu_tab c).

Definition wf_updated (u : updated) : Prop :=
  wf_mset (up_tensors u) /\ wf_mset (up_active u) /\ lenZ (up_w u) (ms_ni (up_active u)) /\ i32s (up_w u).
Definition wf_oupdated (o : option updated) : Prop := match o with Some u => wf_updated u | None => True end.

Definition wf_global (g : globalg) : Prop :=
  i32 (gg_dims g) /\ i32 (gg_outs g) /\ i32 (gg_rule g) /\
  match gg_custom g with Some c => gg_rule g = rule_customtabulated /\ wf_custom c | None => gg_rule g <> rule_customtabulated end /\
  wf_mset (gg_tensors g) /\ wf_mset (gg_active g) /\ lenZ (gg_active_w g) (ms_ni (gg_active g)) /\ i32s (gg_active_w g) /\
  wf_omset (gg_points g) /\ wf_omset (gg_needed g) /\
  lenZ (gg_max_levels g) (gg_dims g) /\ i32s (gg_max_levels g) /\
  wf_values (gg_outs g) (gg_values g) /\ wf_oupdated (gg_updated g).

Definition wf_seq (g : seqg) : Prop :=
  i32 (sq_dims g) /\ i32 (sq_outs g) /\ i32 (sq_rule g) /\
  wf_omset (sq_points g) /\ wf_omset (sq_needed g) /\
  wf_of64s (sq_surpluses g) (sq_outs g * npts (sq_points g)) /\
  wf_values (sq_outs g) (sq_values g).

Definition wf_tree (np : Z) (roots pntr indx : list Z) : Prop :=
  i32 (zlen roots) /\ i32s roots /\ i32s pntr /\ i32s indx /\
  match roots with
  | [] => pntr = [] /\ indx = []
  | _ => lenZ pntr (np + 1) /\ lenZ indx (indx_count pntr)
  end.

Definition wf_local (g : localg) : Prop :=
  i32 (lp_dims g) /\ i32 (lp_outs g) /\ i32 (lp_order g) /\ i32 (lp_top g) /\ i32 (lp_rule g) /\
  wf_omset (lp_points g) /\ wf_omset (lp_needed g) /\
  wf_of64s (lp_surpluses g) (lp_outs g * npts (lp_points g)) /\
  wf_oi32s (lp_parents g) (max_parents (lp_order g) (lp_rule g) * lp_dims g * npts (lp_points g)) /\
  wf_tree (tree_points (lp_points g) (lp_needed g)) (lp_roots g) (lp_pntr g) (lp_indx g) /\
  wf_values (lp_outs g) (lp_values g).

Definition wf_wave (g : waveg) : Prop :=
  i32 (wv_dims g) /\ i32 (wv_outs g) /\ i32 (wv_order g) /\
  wf_omset (wv_points g) /\ wf_omset (wv_needed g) /\
  wf_of64s (wv_coefficients g) (wv_outs g * npts (wv_points g)) /\
  wf_values (wv_outs g) (wv_values g).

Definition wf_fourier (g : fourierg) : Prop :=
  i32 (fo_dims g) /\ i32 (fo_outs g) /\
  wf_mset (fo_tensors g) /\ wf_mset (fo_active g) /\ lenZ (fo_active_w g) (ms_ni (fo_active g)) /\ i32s (fo_active_w g) /\
  wf_omset (fo_points g) /\ wf_omset (fo_needed g) /\
  lenZ (fo_max_levels g) (fo_dims g) /\ i32s (fo_max_levels g) /\
  match fo_values g with
  | Some v => 0 < fo_outs g /\ wf_storage (fst v) /\ wf_of64s (snd v) (fo_outs g * (2 * npts (fo_points g)))
  | None => fo_outs g <= 0
  end /\
  wf_oupdated (fo_updated g).

Definition wf_node (dims outs : Z) (n : node) : Prop := lenZ (fst n) dims /\ i32s (fst n) /\ lenZ (snd n) outs.
Definition wf_tensor (dims : Z) (t : tensor) : Prop := lenZ (snd t) dims /\ i32s (snd t).
Definition wf_cdata (b : body) (dims : Z) (c : cdata) : Prop :=
  match c with
  | CGlobal t n => body_global_construction b = true /\ i32 (zlen t) /\ Forall (wf_tensor dims) t /\
                   i32 (zlen n) /\ Forall (wf_node dims (body_outs b)) n
  | CSimple i n => body_global_construction b = false /\ wf_mset i /\ i32 (zlen n) /\ Forall (wf_node dims (body_outs b)) n
  end.

Definition wf_body (b : body) : Prop :=
  match b with
  | BEmpty => True | BGlobal g => wf_global g | BSequence g => wf_seq g | BLocal g => wf_local g
  | BWavelet g => wf_wave g | BFourier g => wf_fourier g
  end.

(* sections that need the dimension of the base grid *)
Definition wf_sec {A} (dims : option Z) (P : Z -> A -> Prop) (o : option A) : Prop :=
  match o with Some a => match dims with Some d => P d a | None => False end | None => True end.

Definition wf (g : gfile) : Prop :=
  wf_body (gf_body g) /\
  wf_sec (body_dims (gf_body g)) (fun d ab => lenZ (fst ab) d /\ lenZ (snd ab) d) (gf_transform g) /\
  wf_sec (body_dims (gf_body g)) (fun d l => lenZ l d /\ i32s l) (gf_conformal g) /\
  wf_sec (body_dims (gf_body g)) (fun d l => lenZ l d /\ i32s l) (gf_limits g) /\
  wf_sec (body_dims (gf_body g)) (wf_cdata (gf_body g)) (gf_construction g).
