(* C13 — models of the parallel patterns found in the source.  No proofs here.

   1. the data types of the site table (filled by the REGENERATED gen/OmpSites.v);
   2. jobs with a footprint: a job reads some slots and writes some slots of a shared array (slots are numbered by nat,
      their contents are of any type V: doubles, integers, whole index sets); an execution of a parallel loop is the
      jobs applied in SOME order, one after the other (the work of one iteration is sequential; two iterations that
      are independent in the sense below do not share a written slot, so every real interleaving of their memory
      accesses has the same result as one of the two sequential orders);
   3. the three instances used by the code: a loop that owns its output slots (`parfor`), a sweep inside one level that
      reads strictly lower levels, jobs that own disjoint lines;
   4. reductions: per-thread partial results combined in arrival order (critical max, atomic integer sum, argmax);
   5. the pairwise union tree of MultiIndexManipulations::unionSets. *)
From TV Require Import Common.Prelude Model.IndexSets.
From Coq Require Import String.

(* ------------------------------------------------------------------------------------------------------------ *)
(* 1. site table *)
Inductive omp_kind := KParallel | KParallelFor | KFor | KCritical | KAtomic.
Inductive omp_class :=
| CUnmatched            (* no rule applies: the obligation fails *)
| CRegion               (* `parallel` block that only declares thread-private data and contains classified sites *)
| CParforDisjoint       (* c13_parfor_disjoint *)
| CLevelSweep           (* c13_level_sweep *)
| CLinesIndependent     (* c13_lines_independent *)
| CCollectSort          (* c13_collect_sort *)
| CCriticalMax          (* c13_critical_max *)
| CCriticalArgmax       (* c13_critical_argmax: needs a unique maximal value *)
| CCriticalPureCall     (* serialised evaluation of a callback into a private variable: covered by c13_parfor_disjoint *)
| CAtomicIntSum         (* c13_atomic_int_sum *)
| CUnionTree            (* c13_union_tree *)
| CTestCode.            (* test programs in SparseGrids/gridtest*: not library code *)
Record site := mkSite { s_file : string; s_line : nat; s_func : string; s_kind : omp_kind; s_class : omp_class; s_note : string }.
Definition classified (s : site) : bool := match s_class s with CUnmatched => false | _ => true end.

(* ------------------------------------------------------------------------------------------------------------ *)
(* 2. jobs with footprints *)
Section Jobs.
  Variable V : Type.
  Definition mem := nat -> V.
  Definition eqm (s t : mem) : Prop := forall k, s k = t k.

  Record job := mkJob { writes : nat -> bool; reads : nat -> bool; exec : mem -> mem }.

  (* the job changes only the slots it declares as written, and what it stores there depends only on the slots it
     declares as read *)
  Definition job_ok (j : job) : Prop :=
    (forall s k, writes j k = false -> exec j s k = s k) /\
    (forall s t, (forall k, reads j k = true -> s k = t k) -> forall k, writes j k = true -> exec j s k = exec j t k).

  (* two jobs are independent when neither writes a slot the other reads or writes *)
  Definition indep (a b : job) : Prop :=
    forall k, (writes a k = true -> writes b k = false /\ reads b k = false) /\
              (writes b k = true -> writes a k = false /\ reads a k = false).

  Fixpoint pairwise_indep (l : list job) : Prop :=
    match l with [] => True | a :: r => Forall (indep a) r /\ pairwise_indep r end.

  Definition run_jobs (l : list job) (s : mem) : mem := fold_left (fun m j => exec j m) l s.

  Definition upd (s : mem) (i : nat) (v : V) : mem := fun k => if Nat.eqb k i then v else s k.

  (* --- 3a. a parallel loop whose iteration i writes only slot `slot i` (its own) from loop-invariant data --- *)
  Definition parfor_job (slot : nat -> nat) (f : nat -> V) (i : nat) : job :=
    mkJob (fun k => Nat.eqb k (slot i)) (fun _ => false) (fun s => upd s (slot i) (f i)).

  (* --- 3b. one level of a hierarchical sweep: point i is updated from the points of strictly lower level --- *)
  Definition sweep_job (lev : nat -> nat) (g : nat -> mem -> V) (i : nat) : job :=
    mkJob (fun k => Nat.eqb k i) (fun k => Nat.ltb (lev k) (lev i)) (fun s => upd s i (g i s)).

  (* --- 3c. a job that owns a line (a list of slots): it reads and writes only the slots of its line --- *)
  Definition in_line (line : list nat) (k : nat) : bool := existsb (Nat.eqb k) line.
  Definition line_job (line : list nat) (h : mem -> mem) : job := mkJob (in_line line) (in_line line) h.
End Jobs.
Arguments mkJob {V}. Arguments writes {V}. Arguments reads {V}. Arguments exec {V}.
Arguments eqm {V}. Arguments job_ok {V}. Arguments indep {V}. Arguments pairwise_indep {V}. Arguments run_jobs {V}.
Arguments upd {V}. Arguments parfor_job {V}. Arguments sweep_job {V}. Arguments line_job {V}.

(* ------------------------------------------------------------------------------------------------------------ *)
(* 4. reductions *)
(* the per-thread partial results, in the order in which the threads reach the critical / atomic section *)
Definition reduce {A} (op : A -> A -> A) (init : A) (arrivals : list A) : A := fold_left op arrivals init.

(* maximum with a payload: `if (t.value > g.value) g = t;` — strict, the first arrival wins ties *)
Definition argmax_step {P} (g t : Z * P) : Z * P := if Z.ltb (fst g) (fst t) then t else g.

(* ------------------------------------------------------------------------------------------------------------ *)
(* 5. unionSets: while (n > 1) { stride = ceil(n/2); for i < stride: if (i + stride < n) S[i] += S[i + stride]; n = stride } *)
Definition union_round (sets : list (list idx)) : list (list idx) :=
  let n := List.length sets in
  let stride := Nat.div2 (n + 1) in
  map (fun i => match nth_error sets (i + stride) with
                | Some b => merge (nth i sets []) b
                | None => nth i sets []
                end) (seq 0 stride).
Fixpoint union_tree (fuel : nat) (sets : list (list idx)) : list idx :=
  match fuel with
  | O => nth 0 sets []
  | Datatypes.S f => match sets with
           | [] => []
           | [a] => a
           | _ => union_tree f (union_round sets)
           end
  end.
Definition union_fold (sets : list (list idx)) : list idx := fold_left merge sets [].
