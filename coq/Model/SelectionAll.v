(* Model of the candidate selection of Local Polynomial surplus refinement for ALL five criteria
   (GridLocalPolynomial::getRefinementCanidates, serial branch, tsgGridLocalPolynomial.cpp) given the update map
   produced by buildUpdateMap:
     classic, direction_selective, stable : useParents = false
     parents_first, fds                   : useParents = true
     stable                               : additionally HierarchyManipulations::completeToLower(points, result)
   addParent / addChild / addChildLimited append strips to a Data2D which the sorting constructor of MultiIndexSet
   turns into a set.  No proofs here. *)
From TV Require Import Common.Prelude Model.IndexSets Model.RuleLocal Model.Selection.
Local Open Scope Z_scope.

(* the two 1-d numbers addParent / completeToLower try, in the order of the code: parent, then step-parent *)
Definition parent_numbers (r : erule) (v : Z) : list Z := [getParent r v; getStepParent r v].

(* addParent(point, direction, exclude = points, destination): the strips it appends; it returns `added` = non-empty *)
Definition parents_dir (r : erule) (pts : list idx) (q : idx) (dir : nat) : list idx :=
  flat_map (fun a => if a =? -1 then []
                     else let dad := set_nth q dir a in if mem dad pts then [] else [dad])
           (parent_numbers r (nth dir q 0)).

(* if (!(useParents && addParent(...))) addChild / addChildLimited(...) *)
Definition refine_dir (r : erule) (limits : list Z) (pts : list idx) (useParents : bool) (q : idx) (dir : nat) : list idx :=
  if useParents then
    match parents_dir r pts q dir with
    | [] => children_dir r limits pts q dir
    | ps => ps
    end
  else children_dir r limits pts q dir.

(* the Data2D `refined` before the sorting constructor: for i < num_points, for j < num_dimensions, if map[j] == 1 *)
Definition raw_candidates (r : erule) (limits : list Z) (pts : list idx) (pmap : idx -> nat -> bool) (useParents : bool) : list idx :=
  flat_map (fun q => flat_map (fun dir => if pmap q dir then refine_dir r limits pts useParents q dir else [])
                              (seq 0 (length q)))
           pts.

(* ---- HierarchyManipulations::completeToLower(mset, refined) ---- *)
(* inner loops over the coordinates of one point of `refined`: parent and step-parent that exist and are missing
   from both `refined` and `mset` *)
Definition parents_missing (r : erule) (mset refined : list idx) (p : idx) : list idx :=
  flat_map (fun dir =>
              flat_map (fun a => if a =? -1 then []
                                 else let dad := set_nth p dir a in
                                      if mem dad refined || mem dad mset then [] else [dad])
                       (parent_numbers r (nth dir p 0)))
           (seq 0 (length p)).

(* one pass of the while loop: the Data2D `addons` *)
Definition lower_sweep (r : erule) (mset refined : list idx) : list idx :=
  flat_map (parents_missing r mset refined) refined.

(* while (num_added > 0) { addons = sweep; if (num_added > 0) refined += addons; }   (fuel bounds the number of passes) *)
Fixpoint completeToLower (fuel : nat) (r : erule) (mset refined : list idx) : list idx :=
  match fuel with
  | O => refined
  | S f =>
      match lower_sweep r mset refined with
      | [] => refined
      | addons => completeToLower f r mset (merge refined (sort_unique addons))
      end
  end.

(* the loop has stopped by itself (no pass would add anything) *)
Definition lower_closed (r : erule) (mset refined : list idx) : bool :=
  match lower_sweep r mset refined with [] => true | _ => false end.

(* every pass adds only direct parents, whose total level is smaller: 2 + the largest total level is enough passes *)
Definition total_level (r : erule) (p : idx) : Z := fold_right (fun v acc => getLevel r v + acc) 0 p.
Definition lower_fuel (r : erule) (refined : list idx) : nat :=
  S (S (Z.to_nat (fold_right (fun p acc => Z.max (total_level r p) acc) 0 refined))).

(* MultiIndexSet result(refined); if (criteria == refine_stable) completeToLower(points, result); *)
Definition candidates (r : erule) (limits : list Z) (pts : list idx) (pmap : idx -> nat -> bool)
           (useParents stable : bool) : list idx :=
  let result := sort_unique (raw_candidates r limits pts pmap useParents) in
  if stable then completeToLower (lower_fuel r result) r pts result else result.
