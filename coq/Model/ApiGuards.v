(* C14 — model of the error-handling structure of the TasmanianSparseGrid API.  No proofs in this file.

   Part 1: the data types of the tables regenerated from the source by translator/apiguards.py
           (coq/gen/ApiGuards.v: one statement tree over effects per method; coq/gen/DocThrows.v: the documented clauses).
   Part 2: an executable analysis of those trees: for every point of a method at which an exception can leave the
           method (an explicit throw, a family / constructor / external call that may throw), which data members of the
           object may already have been modified (and whether clear() has already run).  Calls of other methods of
           the class are inlined first (bounded depth).
   Part 3: a small abstract semantics of the statement trees (oracle driven) against which the analysis is proved sound.
   Part 4: the abstract "guards, then body" call and the abstract token-stream reader with a failure at any position. *)
From Coq Require Import String List Bool Arith.
Import ListNotations.
Local Open Scope string_scope.

(* ------------------------------------------------------------------ Part 1: generated data *)
Inductive exc := InvalidArgument | RuntimeError | OtherExc (name : string).

Inductive eff :=
| EThrow (e : exc)                                   (* throw std::X(...) *)
| EMut (field : string)                              (* assignment to / non-const use of a data member of *this *)
| EClear                                             (* this->clear() *)
| ESelf (key : string) (isconst : bool)              (* call of another method of the class *)
| EBase (field callee : string) (isconst : bool)     (* base->f(), get<GridX>()->f(), acceleration->f() *)
| ECtor (what : string)                              (* make_unique<GridX>(...), readGridVersion5<GridX>(...) *)
| EExt (name : string) (isconst : bool).             (* any other call (not a method of a std:: object) *)

Inductive stmt :=
| Skip | Ret
| Do (e : eff)
| Seq (a b : stmt)
| If (cond : string) (t e : stmt)
| Loop (b : stmt)
| Scope (b : stmt)           (* an inlined call / an immediately invoked lambda: Ret leaves the scope only *)
| Try (b h : stmt).          (* try { b } catch (...) { h }: an exception raised in b may be caught (then h runs) or propagate *)

Fixpoint block (l : list stmt) : stmt :=
  match l with
  | [] => Skip
  | [s] => s
  | s :: r => Seq s (block r)
  end.

Inductive access := Public | Protected | Private.
Inductive place := InCpp | InHeader | Defaulted | NoBody.

Record method := {
  m_key : string; m_name : string; m_sig : string;
  m_access : access; m_const : bool; m_static : bool; m_where : place;
  m_body : option stmt }.

Inductive ckind := Tagged | Prose.
Record clause := { c_id : string; c_method : string; c_kind : ckind; c_exc : exc; c_text : string }.

(* ------------------------------------------------------------------ Part 2: analysis *)
Definition mem (x : string) (l : list string) : bool := existsb (String.eqb x) l.
Definition subset (a b : list string) : bool := forallb (fun x => mem x b) a.
Definition add (x : string) (l : list string) : list string := if mem x l then l else l ++ [x].
Definition union (a b : list string) : list string := fold_left (fun acc x => add x acc) b a.

(* the data members that make up the grid (everything clear() resets); the remaining members select the
   acceleration back end and are not part of the grid data *)
Definition state_fields : list string :=
  ["base"; "domain_transform_a"; "domain_transform_b"; "conformal_asin_power"; "llimits"; "using_dynamic_construction"].
Definition non_state_fields : list string := ["acceleration"; "acc_domain"].
(* pseudo field: the content of the family object behind `base` *)
Definition base_content : string := "base*".

(* Assumption A1 (supported by the inventory of throw statements of the family sources, gen/ApiGuards.v
   family_throw_sites): const queries of the family object (base->f() through a pointer to const) do not throw.
   Assumption A2 (checked at run time only): a non-const family call either returns or throws before it has changed
   the family object. *)
(* external calls that cannot throw anything but bad_alloc (which the model ignores) *)
Definition ext_nothrow : list string :=
  ["std::move"; "std::copy"; "std::transform"; "std::count"; "Utils::copyArray"; "Utils::size_mult";
   "OneDimensionalMeta::isTypeCurved"; "OneDimensionalMeta::isGlobal"; "OneDimensionalMeta::isSequence";
   "OneDimensionalMeta::isLocalPolynomial"; "OneDimensionalMeta::isNonNested"; "std::to_string";
   "Utils::make_unique<AccelerationContext>";
   "std::log"; "std::lgamma"; "std::exp"; "std::abs"; "std::sqrt"; "pow"; "log";
   "Utils::Wrapper2D<double>::getStrip"; "Data2D<double>::getStrip"; "x_temp.getStrip"; "x.getStrip"].

Inductive ekind :=
| KThrow                  (* always leaves the method *)
| KPure                   (* no exception, no change of the grid *)
| KMut (f : string)       (* changes a data member, cannot throw *)
| KClear                  (* clear() *)
| KCall (m : option string)  (* may throw BEFORE changing anything; if it returns it may have changed member m *)
| KUnknown.               (* a non-const call of the class that could not be inlined *)

Definition classify (e : eff) : ekind :=
  match e with
  | EThrow _ => KThrow
  | EMut f => if mem f state_fields then KMut f else KPure
  | EClear => KClear
  | ESelf _ true => KCall None
  | ESelf _ false => KUnknown
  | EBase f callee c =>
      if String.eqb f "base" then
        (if c then KPure else KCall (Some base_content))
      else KCall None
  | ECtor _ => KCall None
  | EExt n c => if c || mem n ext_nothrow then KPure else KCall None
  end.

Record astate := { cleared : bool; muts : list string }.
Definition astate_eqb (a b : astate) : bool :=
  Bool.eqb (cleared a) (cleared b) && subset (muts a) (muts b) && subset (muts b) (muts a).
Definition amem (a : astate) (l : list astate) : bool := existsb (astate_eqb a) l.
Definition aadd (a : astate) (l : list astate) : list astate := if amem a l then l else l ++ [a].
Definition aunion (x y : list astate) : list astate := fold_left (fun acc a => aadd a acc) y x.
Definition asubset (x y : list astate) : bool := forallb (fun a => amem a y) x.

Record res := { falls : list astate; rets : list astate; throws : list astate; xthrows : list astate; unk : bool }.
(* throws: every point where an exception can leave (explicit throw or a call that may throw); xthrows: explicit throw statements only *)
Definition res0 : res := {| falls := []; rets := []; throws := []; xthrows := []; unk := false |}.

Definition step_mut (f : string) (a : astate) : astate := {| cleared := cleared a; muts := add f (muts a) |}.
Definition cleared_state : astate := {| cleared := true; muts := [] |}.

Definition run_eff (e : eff) (S : list astate) : res :=
  match classify e with
  | KThrow => {| falls := []; rets := []; throws := S; xthrows := S; unk := false |}
  | KPure => {| falls := S; rets := []; throws := []; xthrows := []; unk := false |}
  | KMut f => {| falls := fold_left (fun acc a => aadd (step_mut f a) acc) S []; rets := []; throws := []; xthrows := []; unk := false |}
  | KClear => {| falls := match S with [] => [] | _ => [cleared_state] end; rets := []; throws := []; xthrows := []; unk := false |}
  | KCall None => {| falls := S; rets := []; throws := S; xthrows := []; unk := false |}
  | KCall (Some f) => {| falls := fold_left (fun acc a => aadd (step_mut f a) acc) S []; rets := []; throws := S; xthrows := []; unk := false |}
  | KUnknown => {| falls := S; rets := []; throws := S; xthrows := []; unk := true |}
  end.

Fixpoint run (s : stmt) (S : list astate) : res :=
  match s with
  | Skip => {| falls := S; rets := []; throws := []; xthrows := []; unk := false |}
  | Ret => {| falls := []; rets := S; throws := []; xthrows := []; unk := false |}
  | Do e => run_eff e S
  | Seq a b =>
      let ra := run a S in
      let rb := run b (falls ra) in
      {| falls := falls rb; rets := aunion (rets ra) (rets rb); throws := aunion (throws ra) (throws rb);
         xthrows := aunion (xthrows ra) (xthrows rb); unk := unk ra || unk rb |}
  | If _ t e =>
      let rt := run t S in
      let re := run e S in
      {| falls := aunion (falls rt) (falls re); rets := aunion (rets rt) (rets re);
         throws := aunion (throws rt) (throws re); xthrows := aunion (xthrows rt) (xthrows re); unk := unk rt || unk re |}
  | Loop b =>
      (* only loops whose body does not change the grid are in the subset: the states after the body must be
         states that were already possible before it *)
      let rb := run b S in
      {| falls := S; rets := rets rb; throws := throws rb; xthrows := xthrows rb;
         unk := unk rb || negb (asubset (falls rb) S) |}
  | Scope b =>
      let rb := run b S in
      {| falls := aunion (falls rb) (rets rb); rets := []; throws := throws rb; xthrows := xthrows rb; unk := unk rb |}
  | Try b h =>
      let rb := run b S in
      let rh := run h (throws rb) in
      {| falls := aunion (falls rb) (falls rh); rets := aunion (rets rb) (rets rh);
         throws := aunion (throws rb) (throws rh); xthrows := aunion (xthrows rb) (xthrows rh); unk := unk rb || unk rh |}
  end.

(* inlining of the calls of other methods of the class *)
Fixpoint inline_s (self : string -> bool -> stmt) (s : stmt) : stmt :=
  match s with
  | Do (ESelf k c) => Scope (self k c)
  | Seq a b => Seq (inline_s self a) (inline_s self b)
  | If c t e => If c (inline_s self t) (inline_s self e)
  | Loop b => Loop (inline_s self b)
  | Scope b => Scope (inline_s self b)
  | Try b h => Try (inline_s self b) (inline_s self h)
  | _ => s
  end.

Definition lookup (tbl : list method) (k : string) : option method :=
  find (fun m => String.eqb (m_key m) k) tbl.

Fixpoint inline (tbl : list method) (fuel : nat) (k : string) (c : bool) : stmt :=
  match fuel with
  | 0 => Do (ESelf k c)
  | S f =>
      match lookup tbl k with
      | Some m =>
          match m_body m with
          | Some b => inline_s (inline tbl f) b
          | None => match m_where m with Defaulted => Skip | _ => Do (ESelf k c) end
          end
      | None => Do (ESelf k c)
      end
  end.

Definition inline_depth : nat := 8.
Definition start : list astate := [{| cleared := false; muts := [] |}].

Definition analyse (tbl : list method) (m : method) : res :=
  run (Scope (inline tbl inline_depth (m_key m) (m_const m))) start.

(* summary of the throw points of a method *)
Record verdict := {
  v_pre : list string;      (* members possibly modified before an exception while clear() has not run *)
  v_clear : bool;           (* an exception is possible after clear() *)
  v_post : list string;     (* members possibly assigned between clear() and such an exception *)
  v_unk : bool }.

Definition verdict_of (r : res) : verdict :=
  {| v_pre := fold_left (fun acc a => if cleared a then acc else union acc (muts a)) (throws r) [];
     v_clear := existsb cleared (throws r);
     v_post := fold_left (fun acc a => if cleared a then union acc (muts a) else acc) (throws r) [];
     v_unk := unk r |}.

Definition unchanged (v : verdict) : bool :=
  match v_pre v, v_post v with [], [] => negb (v_clear v) && negb (v_unk v) | _, _ => false end.

Definition verdict_eqb (a b : verdict) : bool :=
  subset (v_pre a) (v_pre b) && subset (v_pre b) (v_pre a) && Bool.eqb (v_clear a) (v_clear b) &&
  subset (v_post a) (v_post b) && subset (v_post b) (v_post a) && Bool.eqb (v_unk a) (v_unk b).

Definition is_public (m : method) : bool := match m_access m with Public => true | _ => false end.
Definition reachable_api (m : method) : bool :=
  match m_access m with Public | Protected => true | Private => false end.

(* the methods that are not "unchanged", with their verdicts *)
Definition exceptions_of (tbl : list method) : list (string * verdict) :=
  fold_right (fun m acc => if reachable_api m then
                             (let v := verdict_of (analyse tbl m) in if unchanged v then acc else (m_key m, v) :: acc)
                           else acc) [] tbl.

Definition guards_before_mutation (tbl : list method) (expected : list (string * verdict)) (m : method) : bool :=
  negb (reachable_api m) ||
  (let v := verdict_of (analyse tbl m) in
   unchanged v || existsb (fun kv => String.eqb (fst kv) (m_key m) && verdict_eqb (snd kv) v) expected).

(* the documented patterns *)
Definition make_pattern (v : verdict) : bool :=      (* all guards, clear(), then construction that may still throw *)
  match v_pre v with [] => v_clear v && subset (v_post v) ["llimits"] && negb (v_unk v) | _ => false end.
Definition read_pattern (v : verdict) : bool :=      (* header guards, clear(), body into temporaries, commit last *)
  match v_pre v, v_post v with [], [] => v_clear v && negb (v_unk v) | _, _ => false end.
Definition limits_first (v : verdict) : bool :=      (* only the level limits are stored before a later failure *)
  negb (v_clear v) && subset (v_pre v) ["llimits"] && negb (v_unk v) &&
  match v_post v with [] => true | _ => false end.

(* exception types *)
Definition exc_ok (e : exc) : bool := match e with InvalidArgument | RuntimeError => true | OtherExc _ => false end.
Fixpoint stmt_exc_ok (s : stmt) : bool :=
  match s with
  | Do (EThrow e) => exc_ok e
  | Seq a b => stmt_exc_ok a && stmt_exc_ok b
  | If _ t e => stmt_exc_ok t && stmt_exc_ok e
  | Try t e => stmt_exc_ok t && stmt_exc_ok e
  | Loop b | Scope b => stmt_exc_ok b
  | _ => true
  end.
Definition exception_types_ok (m : method) : bool :=
  match m_body m with Some b => stmt_exc_ok b | None => true end.

Fixpoint count_throws (s : stmt) : nat :=
  match s with
  | Do (EThrow _) => 1
  | Seq a b => count_throws a + count_throws b
  | If _ t e => count_throws t + count_throws e
  | Try t e => count_throws t + count_throws e
  | Loop b | Scope b => count_throws b
  | _ => 0
  end.

(* ------------------------------------------------------------------ Part 3: abstract semantics *)
(* The concrete object is a valuation of the member names (plus the pseudo member base_content).  Conditions, the
   values written, and whether a call throws are decided by an oracle stream, so the semantics covers every
   behaviour of the real conditions and callees that respects the classification `classify`. *)
Section Semantics.
  Variable V : Type.
  Definition store := string -> V.
  Variable empty_store : store.

  Definition upd (st : store) (f : string) (v : V) : store := fun g => if String.eqb g f then v else st g.

  Record oracle := { o_bool : bool; o_val : V }.

  Inductive outcome :=
  | Fell (st : store) (os : list oracle)
  | Returned (st : store) (os : list oracle)
  | Threw (st : store)
  | Stuck.                      (* oracle exhausted / loop fuel exhausted / effect outside the model *)

  Definition exec_eff (e : eff) (st : store) (os : list oracle) : outcome :=
    match classify e with
    | KThrow => Threw st
    | KPure => Fell st os
    | KMut f => match os with o :: r => Fell (upd st f (o_val o)) r | [] => Stuck end
    | KClear => Fell empty_store os
    | KCall None => match os with o :: r => if o_bool o then Threw st else Fell st r | [] => Stuck end
    | KCall (Some f) => match os with o :: r => if o_bool o then Threw st else Fell (upd st f (o_val o)) r | [] => Stuck end
    | KUnknown => Stuck
    end.

  (* a loop: the oracle decides before every iteration whether the body runs once more (at most n iterations) *)
  Fixpoint iterate (body : store -> list oracle -> outcome) (n : nat) (st : store) (os : list oracle) : outcome :=
    match n with
    | 0 => Stuck
    | S n' =>
        match os with
        | o :: r =>
            if o_bool o then
              match body st r with
              | Fell st' os' => iterate body n' st' os'
              | x => x
              end
            else Fell st r
        | [] => Stuck
        end
    end.

  Fixpoint exec (fuel : nat) (s : stmt) (st : store) (os : list oracle) : outcome :=
    match s with
    | Skip => Fell st os
    | Ret => Returned st os
    | Do e => exec_eff e st os
    | Seq a b =>
        match exec fuel a st os with
        | Fell st' os' => exec fuel b st' os'
        | r => r
        end
    | If _ t e =>
        match os with
        | o :: r => if o_bool o then exec fuel t st r else exec fuel e st r
        | [] => Stuck
        end
    | Loop b => iterate (exec fuel b) fuel st os
    | Scope b =>
        match exec fuel b st os with
        | Returned st' os' => Fell st' os'
        | r => r
        end
    | Try b h =>
        (* the first oracle decides whether an exception of b is caught; the handler then runs on the rest of the stream *)
        match os with
        | o :: r =>
            match exec fuel b st r with
            | Threw st' => if o_bool o then exec fuel h st' r else Threw st'
            | x => x
            end
        | [] => Stuck
        end
    end.

  (* a concrete store is described by an abstract state relative to the store at entry *)
  Definition describes (st0 : store) (a : astate) (st : store) : Prop :=
    forall f, mem f (muts a) = false -> st f = (if cleared a then empty_store f else st0 f).
End Semantics.

(* ------------------------------------------------------------------ Part 4: abstract calls and the abstract reader *)
Section GuardedCall.
  Variables St Arg : Type.
  Inductive status := Ok | Throw.
  Definition guarded_call (guards : list (St -> Arg -> bool)) (body : St -> Arg -> St) (s : St) (a : Arg) : St * status :=
    if existsb (fun g => g s a) guards then (s, Throw) else (body s a, Ok).
End GuardedCall.

Section Reader.
  (* readAscii / readBinary: header tokens are checked while the object is untouched; then clear(); every body token
     is parsed into a temporary; the object is assigned from the temporary after the last token. *)
  Variables Obj Tmp Tok : Type.
  Variable empty_obj : Obj.
  Variable tmp0 : Tmp.
  Variable header_ok : Tok -> bool.            (* one header token is acceptable *)
  Variable parse : Tmp -> Tok -> option Tmp.   (* None: format error at this token *)
  Variable commit : Tmp -> Obj.

  Fixpoint parse_all (t : Tmp) (toks : list Tok) : option Tmp :=
    match toks with
    | [] => Some t
    | k :: r => match parse t k with Some t' => parse_all t' r | None => None end
    end.

  Inductive rstatus := ROk | RThrow.

  (* the object value after every body token (the trace) together with the final object and status: while tokens are
     being parsed the object is the cleared one; it is assigned once, after the last token *)
  Fixpoint body_run (t : Tmp) (toks : list Tok) : Obj * rstatus * list Obj :=
    match toks with
    | [] => (commit t, ROk, [commit t])
    | k :: r =>
        match parse t k with
        | None => (empty_obj, RThrow, [empty_obj])
        | Some t' => let '(o, s, tr) := body_run t' r in (o, s, empty_obj :: tr)
        end
    end.

  Definition read_model (obj : Obj) (header body : list Tok) : Obj * rstatus * list Obj :=
    if forallb header_ok header then
      let '(o, s, tr) := body_run tmp0 body in (o, s, (map (fun _ => obj) header ++ empty_obj :: tr)%list)
    else (obj, RThrow, map (fun _ => obj) header).

  (* the position of the first token that `parse` rejects, if any *)
  Fixpoint first_failure (t : Tmp) (toks : list Tok) : option nat :=
    match toks with
    | [] => None
    | k :: r => match parse t k with
                | None => Some 0
                | Some t' => match first_failure t' r with Some n => Some (S n) | None => None end
                end
    end.
End Reader.
