(* Hand-written executable model of SparseGrids/tsgRuleLocalPolynomial.hpp (namespace RuleLocal) and
   the integer helpers of tsgMathUtils.hpp.  Integers are Z with the C operators the code uses
   (all arguments are non-negative point numbers, so / and % agree with Z.quot / Z.rem); doubles are
   exact rationals Q.  Tied to the C++ by exhaustive correspondence (harness/unitdrv.cpp `rulelocal`).
   No proofs in this file. *)
From TV Require Import Common.Prelude.
From Coq Require Import QArith Qabs.
Local Open Scope Z_scope.

Inductive erule := Pwc | Localp | Semilocalp | Localp0 | Localpb.

(* ---- tsgMathUtils.hpp ---- *)
Definition intlog2 (i : Z) : Z := if i <=? 0 then 0 else Z.log2 i.           (* while (i >>= 1) result++ *)
Definition int2log2 (i : Z) : Z := if i <=? 0 then 1 else 2 ^ (Z.log2 i).     (* 2^floor(log2 i), 1 for i = 0 *)
Fixpoint int3log3_f (fuel : nat) (i : Z) : Z :=                               (* while (i >= 1) { i /= 3; result *= 3; } *)
  match fuel with
  | O => 1
  | S f => if 1 <=? i then 3 * int3log3_f f (Z.quot i 3) else 1
  end.
Definition int3log3 (i : Z) : Z := int3log3_f 42 i.
Fixpoint pow3_f (fuel : nat) (n : Z) (lvl : Z) : Z :=
  match fuel with O => n | S f => if 0 <? lvl then pow3_f f (n * 3) (lvl - 1) else n end.

(* ---- hierarchy (integers) ---- *)
Definition getNumPoints (r : erule) (level : Z) : Z :=
  match r with
  | Pwc => pow3_f 42 1 level
  | Localp | Semilocalp => if level =? 0 then 1 else 2 ^ level + 1
  | Localp0 => 2 ^ (level + 1) - 1
  | Localpb => 2 ^ level + 1
  end.

Definition getMaxNumKids (r : erule) : Z := match r with Pwc => 4 | _ => 2 end.
Definition getMaxNumParents (r : erule) : Z := match r with Pwc | Semilocalp | Localpb => 2 | _ => 1 end.

Definition getParent (r : erule) (point : Z) : Z :=
  match r with
  | Pwc => if point =? 0 then -1 else Z.quot point 3
  | Localp | Semilocalp => let dad := Z.quot (point + 1) 2 in if point <? 4 then dad - 1 else dad
  | Localp0 => if point =? 0 then -1 else Z.quot (point - 1) 2
  | Localpb => if point <? 2 then -1 else Z.quot (point + 1) 2
  end.

Definition getStepParent (r : erule) (point : Z) : Z :=
  match r with
  | Pwc =>
      let i3l3 := int3log3 point in
      if point =? Z.quot i3l3 3 then -1
      else if point =? i3l3 - 1 then -1
      else let mod3 := Z.rem point 3 in let mod2 := Z.rem point 2 in
           if (mod3 =? 2) && (mod2 =? 0) then Z.quot point 3 + 1
           else if (mod3 =? 0) && (mod2 =? 1) then Z.quot point 3 - 1
           else -1
  | Semilocalp => if point =? 3 then 2 else if point =? 4 then 1 else -1
  | Localpb => if point =? 2 then 0 else -1
  | _ => -1
  end.

Definition getKid (r : erule) (point kid : Z) : Z :=
  match r with
  | Pwc =>
      if point =? 0 then (if kid =? 0 then 1 else if kid =? 1 then 2 else -1)
      else if kid =? 3 then
        let i3l3 := int3log3 point in
        if point =? Z.quot i3l3 3 then -1
        else if point =? i3l3 - 1 then -1
        else if Z.rem point 2 =? 0 then 3 * point + 3 else 3 * point - 1
      else 3 * point + kid
  | Localp | Semilocalp =>
      if kid =? 0 then
        (if point =? 0 then 1 else if point =? 1 then 3 else if point =? 2 then 4 else 2 * point - 1)
      else
        (if point =? 0 then 2 else if (point =? 1) || (point =? 2) then -1 else 2 * point)
  | Localp0 => 2 * point + (if kid =? 0 then 1 else 2)
  | Localpb =>
      if (point =? 0) || (point =? 1) then (if kid =? 0 then 2 else -1)
      else 2 * point - (if kid =? 0 then 1 else 0)
  end.

Fixpoint pwc_level_f (fuel : nat) (point level : Z) : Z :=
  match fuel with O => level | S f => if 1 <=? point then pwc_level_f f (Z.quot point 3) (level + 1) else level end.

Definition getLevel (r : erule) (point : Z) : Z :=
  match r with
  | Pwc => pwc_level_f 42 point 0
  | Localp | Semilocalp => if point =? 0 then 0 else if point =? 1 then 1 else intlog2 (point - 1) + 1
  | Localp0 => intlog2 (point + 1)
  | Localpb => if point <=? 1 then 0 else intlog2 (point - 1) + 1
  end.

(* ---- nodes, supports, basis functions (exact rationals) ---- *)
Local Open Scope Q_scope.
Definition zq (z : Z) : Q := inject_Z z.

Definition getNode (r : erule) (point : Z) : Q :=
  match r with
  | Pwc => -2 + (1 / zq (int3log3 point)) * zq (3 * point + 2 - Z.rem point 2)
  | Localp | Semilocalp =>
      if (point =? 0)%Z then 0 else if (point =? 1)%Z then -1 else if (point =? 2)%Z then 1
      else zq (2 * point - 1) / zq (int2log2 (point - 1)) - 3
  | Localp0 => zq (2 * point + 3) / zq (int2log2 (point + 1)) - 3
  | Localpb =>
      if (point =? 0)%Z then -1 else if (point =? 1)%Z then 1 else if (point =? 2)%Z then 0
      else zq (2 * point - 1) / zq (int2log2 (point - 1)) - 3
  end.

Definition getSupport (r : erule) (point : Z) : Q :=
  match r with
  | Pwc => 1 / zq (int3log3 point)
  | Localp => if (point =? 0)%Z then 1 else 1 / zq (int2log2 (point - 1))
  | Semilocalp => if (point =? 0)%Z then 1 else if (point <=? 2)%Z then 2 else 1 / zq (int2log2 (point - 1))
  | Localp0 => 1 / zq (int2log2 (point + 1))
  | Localpb => if (point <=? 1)%Z then 2 else 1 / zq (int2log2 (point - 1))
  end.

Definition scaleDiffX (r : erule) (point : Z) : Q :=
  match r with
  | Pwc => 0
  | Localp => if (point <=? 2)%Z then 1 else zq (int2log2 (point - 1))
  | Semilocalp => zq (int2log2 (point - 1))
  | Localp0 => if (point =? 0)%Z then 1 else zq (int2log2 (point + 1))
  | Localpb => if (point <=? 1)%Z then 1 # 2 else if (point =? 2)%Z then 1 else zq (int2log2 (point - 1))
  end.

Definition scaleX (r : erule) (point : Z) (x : Q) : Q :=
  match r with
  | Pwc => 0
  | Localp =>
      if (point =? 0)%Z then x else if (point =? 1)%Z then x + 1 else if (point =? 2)%Z then x - 1
      else zq (int2log2 (point - 1)) * (x + 3) + 1 - zq (2 * point)
  | Semilocalp => zq (int2log2 (point - 1)) * (x + 3) + 1 - zq (2 * point)
  | Localp0 => zq (int2log2 (point + 1)) * (x + 3) - 3 - zq (2 * point)
  | Localpb =>
      if (point =? 0)%Z then (x + 1) / 2 else if (point =? 1)%Z then (x - 1) / 2 else if (point =? 2)%Z then x
      else zq (int2log2 (point - 1)) * (x + 3) + 1 - zq (2 * point)
  end.

Definition pw_quadratic_interior (x : Q) : Q := (1 - x) * (1 + x).
Definition pw_cubic_even (x : Q) : Q := (1 - x) * (1 + x) * (3 + x) / 3.
Definition pw_cubic_odd (x : Q) : Q := (1 - x) * (1 + x) * (3 - x) / 3.

Definition evalPWQuadratic (r : erule) (point : Z) (x : Q) : Q :=
  match r with
  | Localp => if (point =? 1)%Z then 1 - x else if (point =? 2)%Z then 1 + x else pw_quadratic_interior x
  | Localpb => if (point =? 0)%Z then 1 - x else if (point =? 1)%Z then 1 + x else pw_quadratic_interior x
  | _ => pw_quadratic_interior x
  end.

Definition cubic_generic (point : Z) (x : Q) : Q :=
  if (Z.rem point 2 =? 0)%Z then pw_cubic_even x else pw_cubic_odd x.

Definition evalPWCubic (r : erule) (point : Z) (x : Q) : Q :=
  match r with
  | Localp =>
      if (point =? 0)%Z then 1 else if (point =? 1)%Z then 1 - x else if (point =? 2)%Z then 1 + x
      else if (point =? 3)%Z || (point =? 4)%Z then pw_quadratic_interior x else cubic_generic point x
  | Localp0 => if (point =? 0)%Z then pw_quadratic_interior x else cubic_generic point x
  | Localpb =>
      if (point =? 0)%Z then 1 - x else if (point =? 1)%Z then 1 + x else if (point =? 2)%Z then pw_quadratic_interior x
      else cubic_generic point x
  | _ => cubic_generic point x
  end.

(* the phantom ancestor nodes visited by evalPWPower / diffPWPower, in visiting order *)
Definition phantom_node (r : erule) (point most_turns : Z) (phantom_distance : Q) : Q :=
  let turns := match r with Localp0 => Z.rem (point + 1) most_turns | _ => Z.rem (point - 1) most_turns end in
  if (turns <? Z.quot most_turns 2)%Z then phantom_distance - 2 * zq turns
  else - phantom_distance + 2 * zq (most_turns - 1 - turns).

Fixpoint phantom_nodes (r : erule) (point : Z) (n : nat) (most_turns : Z) (phantom_distance : Q) : list Q :=
  match n with
  | O => []
  | S n' => let mt := (most_turns * 2)%Z in let pd := 2 * phantom_distance + 1 in
            phantom_node r point mt pd :: phantom_nodes r point n' mt pd
  end.

Definition max_ancestors (r : erule) (max_order point : Z) : Z :=
  let level := getLevel r point in
  let m := match r with Pwc => 0 | Localp => level - 2 | Semilocalp | Localpb => level - 1 | Localp0 => level end%Z in
  if (0 <? max_order)%Z then Z.min m (max_order - 2) else m.

Definition uses_cubic (r : erule) (point : Z) : bool :=
  match r with
  | Localp => (point <=? 8)%Z | Semilocalp | Localpb => (point <=? 4)%Z | Localp0 => (point <=? 2)%Z | Pwc => false
  end.

Definition evalPWPower (r : erule) (max_order point : Z) (x : Q) : Q :=
  if uses_cubic r point then evalPWCubic r point x
  else fold_left (fun value node => value * (- (x - node) / node))
                 (phantom_nodes r point (Z.to_nat (max_ancestors r max_order point)) 1 1)
                 ((1 - x) * (1 + x)).

Definition Qabs_le_1 (x : Q) : bool := Qle_bool (Qabs x) 1.

Definition eval_scaled (r : erule) (max_order point : Z) (xn : Q) : Q :=
  if (max_order =? 1)%Z then 1 - Qabs xn
  else if (max_order =? 2)%Z then evalPWQuadratic r point xn
  else if (max_order =? 3)%Z then evalPWCubic r point xn
  else evalPWPower r max_order point xn.

Definition evalRaw (r : erule) (max_order point : Z) (x : Q) : Q :=
  match r with
  | Pwc => if Qle_bool (Qabs (x - getNode r point)) (getSupport r point) then 1 else 0
  | Localp =>
      if (point =? 0)%Z then 1
      else let xn := scaleX r point x in if Qabs_le_1 xn then eval_scaled r max_order point xn else 0
  | Semilocalp =>
      if (point =? 0)%Z then 1 else if (point =? 1)%Z then (1 # 2) * x * (x - 1) else if (point =? 2)%Z then (1 # 2) * x * (x + 1)
      else let xn := scaleX r point x in if Qabs_le_1 xn then eval_scaled r max_order point xn else 0
  | _ => let xn := scaleX r point x in if Qabs_le_1 xn then eval_scaled r max_order point xn else 0
  end.

(* evalSupport: (value, isSupported) *)
Definition evalSupport (r : erule) (max_order point : Z) (x : Q) : Q * bool :=
  match r with
  | Pwc => let distance := Qabs (x - getNode r point) in let support := getSupport r point in
           ((if Qle_bool distance support then 1 else 0), Qle_bool distance (2 * support))
  | Localp =>
      if (point =? 0)%Z then (1, true)
      else let xn := scaleX r point x in if Qabs_le_1 xn then (eval_scaled r max_order point xn, true) else (0, false)
  | Semilocalp =>
      if (point =? 0)%Z then (1, true) else if (point =? 1)%Z then ((1 # 2) * x * (x - 1), true)
      else if (point =? 2)%Z then ((1 # 2) * x * (x + 1), true)
      else let xn := scaleX r point x in if Qabs_le_1 xn then (eval_scaled r max_order point xn, true) else (0, false)
  | _ => let xn := scaleX r point x in if Qabs_le_1 xn then (eval_scaled r max_order point xn, true) else (0, false)
  end.

(* ---- derivatives ---- *)
Definition diffPWQuadratic (r : erule) (point : Z) (x : Q) : Q :=
  match r with
  | Localp => if (point =? 1)%Z then -1 else if (point =? 2)%Z then 1 else -2 * x
  | Localpb => if (point =? 0)%Z then -1 else if (point =? 1)%Z then 1 else -2 * x
  | _ => -2 * x
  end.

Definition dcubic_generic (point : Z) (x : Q) : Q :=
  if (Z.rem point 2 =? 0)%Z then 1 / 3 - x * (x + 2) else - (1 / 3) + x * (x - 2).

Definition diffPWCubic (r : erule) (point : Z) (x : Q) : Q :=
  match r with
  | Localp =>
      if (point =? 0)%Z then 0 else if (point =? 1)%Z then -1 else if (point =? 2)%Z then 1
      else if (point =? 3)%Z || (point =? 4)%Z then -2 * x else dcubic_generic point x
  | Localpb =>
      if (point =? 0)%Z then -1 else if (point =? 1)%Z then 1 else if (point =? 2)%Z then -2 * x else dcubic_generic point x
  | Localp0 => if (point =? 0)%Z then -2 * x else dcubic_generic point x
  | _ => dcubic_generic point x
  end.

(* diffPWPower: derivative of (1-x)(1+x) * prod_j (-(x - node_j)/node_j), written as the code computes it
   (left products, right products, Lagrange coefficient) *)
Fixpoint left_prods (x : Q) (nodes : list Q) (acc : Q) : list Q :=   (* [1; (x-n0); (x-n0)(x-n1); ...] one entry per node *)
  match nodes with
  | [] => []
  | n :: r => acc :: left_prods x r (acc * (x - n))
  end.

Fixpoint diff_accum (x : Q) (rev_nodes : list Q) (rev_left : list Q) (right_prod derivative : Q) : Q * Q :=
  (* walks j = max_ancestors-2 .. 0: right_prod *= x - node_{j+1}; derivative += right_prod * left_prods[j] *)
  match rev_nodes, rev_left with
  | n :: rn, l :: rl => let rp := right_prod * (x - n) in diff_accum x rn rl rp (derivative + rp * l)
  | _, _ => (right_prod, derivative)
  end.

Definition diffPWPower (r : erule) (max_order point : Z) (x : Q) : Q :=
  if uses_cubic r point then diffPWCubic r point x
  else
    let nodes := phantom_nodes r point (Z.to_nat (max_ancestors r max_order point)) 1 1 in
    match rev nodes with
    | [] => 0    (* max_ancestors <= 0: the C++ indexes left_prods[-1]; never reached for admissible orders *)
    | last_node :: _ =>
        let coeff := fold_left (fun c n => c * (1 / (- n))) nodes 1 in
        let lp := left_prods x nodes 1 in
        let d0 := last lp 1 in
        (* nodes visited backwards: node_{m-1}, ..., node_1 paired with left_prods[m-2..0] *)
        let '(right_prod, derivative) := diff_accum x (removelast (rev nodes)) (tl (rev lp)) 1 d0 in
        let node0 := hd 0 nodes in
        (derivative * (1 - x) * (1 + x) + right_prod * (x - node0) * (-2) * x) * coeff
    end.

Definition diff_scaled (r : erule) (max_order point : Z) (xn an : Q) : Q :=
  if (max_order =? 1)%Z then (if Qle_bool 0 xn then -1 else 1) * an
  else if (max_order =? 2)%Z then an * diffPWQuadratic r point xn
  else if (max_order =? 3)%Z then an * diffPWCubic r point xn
  else an * diffPWPower r max_order point xn.

(* diffSupport: (value, isSupported) *)
Definition diff_supported (x xn : Q) : bool :=
  (Qle_bool (-1) xn && negb (Qle_bool 1 xn)) || (Qeq_bool x 1 && Qeq_bool xn 1).

Definition diffSupport (r : erule) (max_order point : Z) (x : Q) : Q * bool :=
  match r with
  | Pwc => (0, false)
  | Localp =>
      if (point =? 0)%Z then (0, true)
      else let xn := scaleX r point x in
           if diff_supported x xn then
             let an := scaleDiffX r point in
             ((if (max_order =? 1)%Z && Qeq_bool x 1 && (point =? 2)%Z then an else diff_scaled r max_order point xn an), true)
           else (0, false)
  | Semilocalp =>
      if (point =? 0)%Z then (0, true) else if (point =? 1)%Z then (x - (1 # 2), true) else if (point =? 2)%Z then (x + (1 # 2), true)
      else let xn := scaleX r point x in
           if diff_supported x xn then
             let an := scaleDiffX r point in
             ((if (max_order =? 2)%Z then an * diffPWQuadratic r point xn
               else if (max_order =? 3)%Z then an * diffPWCubic r point xn
               else an * diffPWPower r max_order point xn), true)
           else (0, false)
  | Localp0 =>
      let xn := scaleX r point x in
      if diff_supported x xn then
        let an := scaleDiffX r point in
        ((if (max_order =? 1)%Z && Qeq_bool x 1 && (point =? 0)%Z then -1 else diff_scaled r max_order point xn an), true)
      else (0, false)
  | Localpb =>
      let xn := scaleX r point x in
      if diff_supported x xn then (diff_scaled r max_order point xn (scaleDiffX r point), true) else (0, false)
  end.
