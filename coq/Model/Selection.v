(* Model of the classic surplus-refinement candidate selection of Local Polynomial grids:
   GridLocalPolynomial::getRefinementCanidates (criteria classic, every direction of a flagged point is
   refined) with addChild / addChildLimited, followed by the sorting constructor.  No proofs here. *)
From TV Require Import Common.Prelude Model.IndexSets Model.RuleLocal.
Local Open Scope Z_scope.

Fixpoint set_nth (l : idx) (n : nat) (v : Z) : idx :=
  match l, n with
  | [], _ => []
  | _ :: r, O => v :: r
  | x :: r, S n' => x :: set_nth r n' v
  end.

(* level_limits: empty list = no limits; entry -1 = unrestricted dimension *)
Definition limit_ok (r : erule) (limits : list Z) (dir : nat) (kid1d : Z) : bool :=
  match limits with
  | [] => true
  | _ => let l := nth dir limits (-1) in (l =? -1) || (getLevel r kid1d <=? l)
  end.

Definition kid_numbers (r : erule) : list Z := map Z.of_nat (seq 0 (Z.to_nat (getMaxNumKids r))).

(* the children of point q in direction dir that addChild/addChildLimited append *)
Definition children_dir (r : erule) (limits : list Z) (pts : list idx) (q : idx) (dir : nat) : list idx :=
  flat_map (fun k =>
              let c := getKid r (nth dir q 0) k in
              if c =? -1 then []
              else if limit_ok r limits dir c then
                     (let kid := set_nth q dir c in if mem kid pts then [] else [kid])
                   else [])
           (kid_numbers r).

Definition classic_candidates (r : erule) (limits : list Z) (pts : list idx) (flag : idx -> bool) : list idx :=
  sort_unique (flat_map (fun q => if flag q then flat_map (children_dir r limits pts q) (seq 0 (length q)) else []) pts).
