(* Workers — executable interleaving model of the threaded addons (C18).

   Part 1: parallel constructCommon<mode_parallel> of Addons/tsgConstructSurrogate.hpp together with the
           CandidateManager / CompleteStorage of Addons/tsgCandidateManager.hpp.
   Part 2: the work queue of the threaded loadNeededValues (Addons/tsgLoadNeededValues.hpp).

   Threads: one main thread and one worker per thread id.  A state holds the data protected by the mutex
   `access_count_done` (work_flag[], count_done, x[], y[]), the data touched by the main thread only (manager,
   total_num_launched, complete, the grid abstracted to its list of loaded samples), one program counter per thread
   and ghost logs.  One [step] is one atomic action: a critical section of a worker, one iteration of the main
   thread's loops (the main thread's critical section is split into one step per thread id; while its program counter
   is [MCollect _] it owns the mutex and the workers' critical sections are disabled), a condition-variable
   operation, or the entry/exit of a model call.

   Condition variables are modelled with explicit wait sets: a thread that finds its predicate false under the
   mutex moves to [WSleep]/[MSleep]; it leaves that state only through a notify or through an explicit spurious
   wake-up step, and then re-acquires the mutex and re-tests the predicate ([WLock]/[MLock]) exactly like
   `cv.wait(lock, pred)`.

   Points and values are natural numbers (names of grid points / of returned model values).  The grid's candidate
   oracle `candidates(grid)` is the payload of the refresh labels; when [hc = true] a step only accepts payloads
   that satisfy H-CAND (duplicate free, no sample that is already loaded).

   No proofs in this file. *)
From TV Require Import Common.Prelude.

(* ------------------------------------------------------------------------------------------------ *)
(** * small list utilities *)

Fixpoint memb (p : nat) (l : list nat) : bool :=
  match l with [] => false | q :: r => if Nat.eqb p q then true else memb p r end.

Fixpoint nodupb (l : list nat) : bool :=
  match l with [] => true | p :: r => if memb p r then false else nodupb r end.

Fixpoint upd {A} (l : list A) (i : nat) (v : A) : list A :=
  match l, i with
  | [], _ => []
  | _ :: r, 0 => v :: r
  | a :: r, S j => a :: upd r j v
  end.

(* erase the first occurrence (std::forward_list::erase_after of the first match) *)
Fixpoint remove_one (p : nat) (l : list nat) : list nat :=
  match l with [] => [] | q :: r => if Nat.eqb p q then r else q :: remove_one p r end.

Definition remove_all (ps l : list nat) : list nat := fold_left (fun acc p => remove_one p acc) ps l.

(* ------------------------------------------------------------------------------------------------ *)
(** * CandidateManager *)

Inductive cstat := SFree | SRunning | SDone.

Record manager := mkM {
  cands : list nat;        (* candidates, in order of importance *)
  cstatus : list cstat;    (* status[] *)
  rjobs : list nat;        (* running_jobs *)
  nrun : nat;              (* num_running *)
  ndone : nat              (* num_done *)
}.

Definition m_empty : manager := mkM [] [] [] 0 0.

(* operator=(new_candidates): statuses reset to free, the entries matching a running job become running;
   num_running and running_jobs are kept *)
Definition m_assign (m : manager) (c : list nat) : manager :=
  mkM c (map (fun p => if memb p (rjobs m) then SRunning else SFree) c) (rjobs m) (nrun m) 0.

(* the scan of next(): up to [n] free entries, in order; they become running *)
Fixpoint take_free (n : nat) (cs : list nat) (st : list cstat) : list nat * list cstat :=
  match n with
  | 0 => ([], st)
  | S n' =>
    match cs, st with
    | c :: cs', SFree :: st' => let (r, st'') := take_free n' cs' st' in (c :: r, SRunning :: st'')
    | _ :: cs', s0 :: st' => let (r, st'') := take_free n cs' st' in (r, s0 :: st'')
    | _, _ => ([], st)
    end
  end.

(* next(remaining_budget): this_batch = min(remaining_budget, num_batch); the first free entry is taken even when
   this_batch = 0 *)
Definition m_next (batch : nat) (m : manager) (remaining : nat) : list nat * manager :=
  let k := Nat.max 1 (Nat.min remaining batch) in
  let (r, st) := take_free k (cands m) (cstatus m) in
  (r, mkM (cands m) st (rev r ++ rjobs m) (nrun m + length r) (ndone m)).

(* complete(p): counters, status of the entries found := done, one running_jobs entry erased per point *)
Definition m_complete (m : manager) (x : list nat) : manager :=
  mkM (cands m)
      (map2 (fun c s => if memb c x then SDone else s) (cands m) (cstatus m))
      (remove_all x (rjobs m))
      (nrun m - length x)
      (ndone m + length x).

(* double(num_done) / double(num_candidates) > 0.2 (inf for 0 candidates and num_done > 0, NaN for 0/0) *)
Definition rule20 (m : manager) : bool := length (cands m) <? 5 * ndone m.

(* ------------------------------------------------------------------------------------------------ *)
(** * threads and state *)

Inductive flagT := FDone | FComputing | FShutdown.       (* flag_done = 0, flag_computing = 1, flag_shutdown = 2 *)

Inductive wpcT :=
| WIdle       (* std::thread not created (yet) *)
| WModel      (* about to call model(x[id], y[id], id) *)
| WInModel    (* inside the model call *)
| WPost       (* model returned; about to lock and publish flag_done / count_done++ *)
| WNotify     (* lock released; about to until_someone_done.notify_one() *)
| WLock       (* about to lock and test work_flag[id] != flag_done *)
| WSleep      (* in the wait set of until_new_job (mutex released) *)
| WFinished.  (* do_work returned *)

Inductive mpcT :=
| MStart            (* before the first refresh_candidates() *)
| MInit (k : nat)   (* initial launch loop, about to handle id k *)
| MTest             (* evaluating while(manager.getNumRunning() > 0) *)
| MLock             (* about to lock and test count_done > 0 *)
| MSleep            (* in the wait set of until_someone_done *)
| MCollect (k : nat)(* owns the mutex; count_done already reset; collect_finished() is at id k *)
| MNotify           (* mutex released; about to until_new_job.notify_all() *)
| MFlush            (* loop left; about to load_complete() *)
| MJoin             (* joining the workers *)
| MExit.

Record worker := mkW {
  wflag : flagT;        (* work_flag[id] *)
  wpc : wpcT;
  wx : list nat;        (* x[id] : the points of the current job *)
  wy : list nat         (* y[id] : the values returned by the last model call *)
}.

Record config := mkCfg {
  njobs : nat;          (* num_parallel_jobs *)
  batch : nat;          (* max_samples_per_job *)
  maxpts : nat;         (* max_num_points *)
  guarded : bool        (* true: the initial launch loop tests the budget (the proposed repair); false: as coded *)
}.
Definition nj (cfg : config) : nat := Nat.max 1 (njobs cfg).
Definition bsz (cfg : config) : nat := Nat.max 1 (batch cfg).

Record state := mkS {
  ws : list worker;
  count_done : nat;
  mgr : manager;
  launched : nat;                 (* total_num_launched *)
  store : list (nat * nat);       (* CompleteStorage: (point, value) *)
  loaded : list (nat * nat);      (* abstract grid: the samples loaded so far *)
  mpc : mpcT;
  (* ghost *)
  handed : list nat;              (* every point handed to a worker, in order *)
  calls : list (nat * nat * nat)  (* (thread id, point, value) for every value returned by a model call *)
}.

(* work_flag is a zero-initialised std::vector<int>, i.e. every entry starts as flag_done *)
Definition init (cfg : config) (L0 : list (nat * nat)) (n0 : nat) : state :=
  mkS (repeat (mkW FDone WIdle [] []) (nj cfg)) 0 m_empty n0 [] L0 MStart [] [].

Inductive label :=
| LStart (c : list nat)                    (* refresh_candidates() before the launch loop *)
| LInitJob                                 (* one iteration of the launch loop *)
| LInitEnd
| LMTest
| LMLock
| LMSkip                                   (* collect_finished(): work_flag[k] != flag_done *)
| LMCollect (ld : bool) (c1 c2 : list nat) (* collect_finished(): the body for a done id; ld = load_complete() was called *)
| LMCsExit
| LMNotifyAll
| LMFlush
| LMJoin
| LWEnter (id : nat)
| LWExit (id : nat) (vals : list nat)
| LWDone (id : nat)
| LWNotify (id : nat)
| LWLock (id : nat)
| LSpurM
| LSpurW (id : nat).

Definition spurious (l : label) : bool :=
  match l with LSpurM | LSpurW _ => true | _ => false end.

Definition lock_free (s : state) : bool := match mpc s with MCollect _ => false | _ => true end.

Definition pts (l : list (nat * nat)) : list nat := map fst l.

(* H-CAND: what the construction algorithm needs from the grid's candidate oracle *)
Definition cand_okb (ld : list (nat * nat)) (c : list nat) : bool :=
  nodupb c && forallb (fun p => negb (memb p (pts ld))) c.

(* max_num_points - total_num_launched in size_t: wraps to a huge number when launched > max_num_points, and the
   callee takes min(.., num_batch) *)
Definition remaining (cfg : config) (l : nat) : nat :=
  if l <=? maxpts cfg then maxpts cfg - l else bsz cfg.

(* load_complete() *)
Definition do_load (st ld : list (nat * nat)) : list (nat * nat) * list (nat * nat) := ([], ld ++ st).

(* refresh_candidates(): load_complete(); manager = candidates(grid) *)
Definition do_refresh (hc : bool) (m : manager) (st ld : list (nat * nat)) (c : list nat)
  : option (manager * list (nat * nat) * list (nat * nat)) :=
  let (st', ld') := do_load st ld in
  if negb hc || cand_okb ld' c then Some (m_assign m c, st', ld') else None.

Definition set_w (s : state) (id : nat) (w : worker) : list worker := upd (ws s) id w.

(* ---------------- main thread ---------------- *)

Definition step_start (hc : bool) (cfg : config) (s : state) (c : list nat) : option state :=
  match mpc s with
  | MStart =>
    match do_refresh hc (mgr s) (store s) (loaded s) c with
    | Some (m, st, ld) => Some (mkS (ws s) (count_done s) m (launched s) st ld (MInit 0) (handed s) (calls s))
    | None => None
    end
  | _ => None
  end.

Definition step_initjob (cfg : config) (s : state) : option state :=
  match mpc s with
  | MInit k =>
    match nth_error (ws s) k with
    | Some w =>
      let go := if guarded cfg then launched s <? maxpts cfg else true in
      let (x, m) := if go then m_next (bsz cfg) (mgr s) (remaining cfg (launched s)) else ([], mgr s) in
      match x with
      | [] => Some (mkS (set_w s k (mkW FShutdown (wpc w) [] (wy w))) (count_done s) m (launched s) (store s) (loaded s)
                        (MInit (S k)) (handed s) (calls s))
      | _ => Some (mkS (set_w s k (mkW FComputing WModel x (wy w))) (count_done s) m (launched s + length x) (store s) (loaded s)
                       (MInit (S k)) (handed s ++ x) (calls s))
      end
    | None => None
    end
  | _ => None
  end.

Definition step_initend (cfg : config) (s : state) : option state :=
  match mpc s with
  | MInit k => if k =? nj cfg
               then Some (mkS (ws s) (count_done s) (mgr s) (launched s) (store s) (loaded s) MTest (handed s) (calls s))
               else None
  | _ => None
  end.

Definition with_mpc (s : state) (m : mpcT) : state :=
  mkS (ws s) (count_done s) (mgr s) (launched s) (store s) (loaded s) m (handed s) (calls s).

Definition step_mtest (s : state) : option state :=
  match mpc s with
  | MTest => Some (with_mpc s (if 0 <? nrun (mgr s) then MLock else MFlush))
  | _ => None
  end.

Definition step_mlock (s : state) : option state :=
  match mpc s with
  | MLock => if 0 <? count_done s
             then Some (mkS (ws s) 0 (mgr s) (launched s) (store s) (loaded s) (MCollect 0) (handed s) (calls s))
             else Some (with_mpc s MSleep)
  | _ => None
  end.

Definition step_mskip (s : state) : option state :=
  match mpc s with
  | MCollect k =>
    match nth_error (ws s) k with
    | Some w => match wflag w with FDone => None | _ => Some (with_mpc s (MCollect (S k))) end
    | None => None
    end
  | _ => None
  end.

(* the body of collect_finished() for one id with work_flag[id] == flag_done *)
Definition step_mcollect (hc : bool) (cfg : config) (s : state) (ldc : bool) (c1 c2 : list nat) : option state :=
  match mpc s with
  | MCollect k =>
    match nth_error (ws s) k with
    | Some w =>
      match wflag w with
      | FDone =>
        let st1 := store s ++ combine (wx w) (wy w) in              (* complete.add(x[id], y[id]) *)
        let m1 := m_complete (mgr s) (wx w) in                      (* manager.complete(x[id]) *)
        let (st2, ld2) := if ldc then do_load st1 (loaded s) else (st1, loaded s) in
        if launched s <? maxpts cfg then
          match (if rule20 m1 then do_refresh hc m1 st2 ld2 c1 else Some (m1, st2, ld2)) with
          | Some (m2, st3, ld3) =>
            let (x1, m3) := m_next (bsz cfg) m2 (remaining cfg (launched s)) in
            match x1 with
            | [] =>
              match do_refresh hc m3 st3 ld3 c2 with
              | Some (m4, st4, ld4) =>
                let (x2, m5) := m_next (bsz cfg) m4 (remaining cfg (launched s)) in
                match x2 with
                | [] => Some (mkS (set_w s k (mkW FShutdown (wpc w) [] (wy w))) (count_done s) m5 (launched s) st4 ld4
                                  (MCollect (S k)) (handed s) (calls s))
                | _ => Some (mkS (set_w s k (mkW FComputing (wpc w) x2 (wy w))) (count_done s) m5 (launched s + length x2) st4 ld4
                                 (MCollect (S k)) (handed s ++ x2) (calls s))
                end
              | None => None
              end
            | _ => Some (mkS (set_w s k (mkW FComputing (wpc w) x1 (wy w))) (count_done s) m3 (launched s + length x1) st3 ld3
                             (MCollect (S k)) (handed s ++ x1) (calls s))
            end
          | None => None
          end
        else Some (mkS (set_w s k (mkW FShutdown (wpc w) (wx w) (wy w))) (count_done s) m1 (launched s) st2 ld2
                       (MCollect (S k)) (handed s) (calls s))
      | _ => None
      end
    | None => None
    end
  | _ => None
  end.

Definition step_mcsexit (cfg : config) (s : state) : option state :=
  match mpc s with
  | MCollect k => if k =? nj cfg then Some (with_mpc s MNotify) else None
  | _ => None
  end.

Definition wake (w : worker) : worker :=
  match wpc w with WSleep => mkW (wflag w) WLock (wx w) (wy w) | _ => w end.

Definition step_mnotify (s : state) : option state :=
  match mpc s with
  | MNotify => Some (mkS (map wake (ws s)) (count_done s) (mgr s) (launched s) (store s) (loaded s) MTest (handed s) (calls s))
  | _ => None
  end.

Definition step_mflush (s : state) : option state :=
  match mpc s with
  | MFlush => let (st, ld) := do_load (store s) (loaded s) in
              Some (mkS (ws s) (count_done s) (mgr s) (launched s) st ld MJoin (handed s) (calls s))
  | _ => None
  end.

Definition wstopped (w : worker) : bool := match wpc w with WIdle | WFinished => true | _ => false end.

Definition step_mjoin (s : state) : option state :=
  match mpc s with
  | MJoin => if forallb wstopped (ws s) then Some (with_mpc s MExit) else None
  | _ => None
  end.

(* ---------------- workers ---------------- *)

Definition with_w (s : state) (id : nat) (w : worker) : state :=
  mkS (set_w s id w) (count_done s) (mgr s) (launched s) (store s) (loaded s) (mpc s) (handed s) (calls s).

Definition step_wenter (s : state) (id : nat) : option state :=
  match nth_error (ws s) id with
  | Some w => match wpc w with
              | WModel => Some (with_w s id (mkW (wflag w) WInModel (wx w) (wy w)))
              | _ => None
              end
  | None => None
  end.

Definition step_wexit (s : state) (id : nat) (vals : list nat) : option state :=
  match nth_error (ws s) id with
  | Some w => match wpc w with
              | WInModel =>
                if length vals =? length (wx w)
                then Some (mkS (set_w s id (mkW (wflag w) WPost (wx w) vals)) (count_done s) (mgr s) (launched s) (store s)
                               (loaded s) (mpc s) (handed s) (calls s ++ map (fun pv => (id, fst pv, snd pv)) (combine (wx w) vals)))
                else None
              | _ => None
              end
  | None => None
  end.

Definition step_wdone (s : state) (id : nat) : option state :=
  match nth_error (ws s) id with
  | Some w => match wpc w with
              | WPost =>
                if lock_free s
                then Some (mkS (set_w s id (mkW FDone WNotify (wx w) (wy w))) (S (count_done s)) (mgr s) (launched s) (store s)
                               (loaded s) (mpc s) (handed s) (calls s))
                else None
              | _ => None
              end
  | None => None
  end.

Definition step_wnotify (s : state) (id : nat) : option state :=
  match nth_error (ws s) id with
  | Some w => match wpc w with
              | WNotify =>
                Some (mkS (set_w s id (mkW (wflag w) WLock (wx w) (wy w))) (count_done s) (mgr s) (launched s) (store s)
                          (loaded s) (match mpc s with MSleep => MLock | m => m end) (handed s) (calls s))
              | _ => None
              end
  | None => None
  end.

Definition step_wlock (s : state) (id : nat) : option state :=
  match nth_error (ws s) id with
  | Some w => match wpc w with
              | WLock =>
                if lock_free s
                then Some (with_w s id (mkW (wflag w)
                                            (match wflag w with FDone => WSleep | FComputing => WModel | FShutdown => WFinished end)
                                            (wx w) (wy w)))
                else None
              | _ => None
              end
  | None => None
  end.

Definition step_spurw (s : state) (id : nat) : option state :=
  match nth_error (ws s) id with
  | Some w => match wpc w with
              | WSleep => Some (with_w s id (mkW (wflag w) WLock (wx w) (wy w)))
              | _ => None
              end
  | None => None
  end.

Definition step_spurm (s : state) : option state :=
  match mpc s with MSleep => Some (with_mpc s MLock) | _ => None end.

Definition step (hc : bool) (cfg : config) (s : state) (l : label) : option state :=
  match l with
  | LStart c => step_start hc cfg s c
  | LInitJob => step_initjob cfg s
  | LInitEnd => step_initend cfg s
  | LMTest => step_mtest s
  | LMLock => step_mlock s
  | LMSkip => step_mskip s
  | LMCollect ld c1 c2 => step_mcollect hc cfg s ld c1 c2
  | LMCsExit => step_mcsexit cfg s
  | LMNotifyAll => step_mnotify s
  | LMFlush => step_mflush s
  | LMJoin => step_mjoin s
  | LWEnter id => step_wenter s id
  | LWExit id vals => step_wexit s id vals
  | LWDone id => step_wdone s id
  | LWNotify id => step_wnotify s id
  | LWLock id => step_wlock s id
  | LSpurM => step_spurm s
  | LSpurW id => step_spurw s id
  end.

(* run a list of labels *)
Fixpoint run (hc : bool) (cfg : config) (s : state) (ls : list label) : option state :=
  match ls with
  | [] => Some s
  | l :: r => match step hc cfg s l with Some s' => run hc cfg s' r | None => None end
  end.

Inductive reachable (hc : bool) (cfg : config) (L0 : list (nat * nat)) (n0 : nat) : state -> Prop :=
| reach_init : reachable hc cfg L0 n0 (init cfg L0 n0)
| reach_step : forall s l s', reachable hc cfg L0 n0 s -> step hc cfg s l = Some s' -> reachable hc cfg L0 n0 s'.

(* the run is over *)
Definition final (s : state) : bool :=
  match mpc s with MExit => forallb wstopped (ws s) | _ => false end.

(* the launch loop has initialised the ids below [ninit] *)
Definition ninit (cfg : config) (m : mpcT) : nat :=
  match m with MStart => 0 | MInit k => k | _ => nj cfg end.

(* a started worker whose flag_done has not been collected yet *)
Definition wdone (w : worker) : bool :=
  match wflag w, wpc w with FDone, WIdle => false | FDone, _ => true | _, _ => false end.

Fixpoint count_flag_done (l : list worker) : nat :=
  match l with
  | [] => 0
  | w :: r => (if wdone w then 1 else 0) + count_flag_done r
  end.

(* a worker that owns a job: flag computing or done *)
Definition wactive (w : worker) : bool := match wflag w with FShutdown => false | _ => true end.

Fixpoint active_points (l : list worker) : list nat :=
  match l with
  | [] => []
  | w :: r => (if wactive w then wx w else []) ++ active_points r
  end.

(* ------------------------------------------------------------------------------------------------ *)
(** * Part 2: the work queue of the threaded loadNeededValues *)

Inductive qpcT :=
| QLock            (* about to lock and look for the next sample *)
| QModel (i : nat) (* checked out sample i; about to call the model on it *)
| QDone.           (* sample == num_points: thread function returns *)

Record qstate := mkQ {
  checked : list bool;           (* checked_out[] *)
  qthreads : list (nat * qpcT);  (* per thread: its local `sample` cursor and program counter *)
  qlog : list (nat * nat)        (* ghost: (thread, sample) for every checkout, in order *)
}.

Definition qinit (npoints nthreads : nat) : qstate :=
  mkQ (repeat false npoints) (repeat (0, QLock) nthreads) [].

(* while ((sample < num_points) && checked_out[sample]) sample++; *)
Fixpoint qscan (fuel sample : nat) (ch : list bool) : nat :=
  match fuel with
  | 0 => sample
  | S f => match nth_error ch sample with
           | Some true => qscan f (S sample) ch
           | _ => sample
           end
  end.

Inductive qlabel := QLCheckout (t : nat) | QLModel (t : nat).

Definition qstep (q : qstate) (l : qlabel) : option qstate :=
  match l with
  | QLCheckout t =>
    match nth_error (qthreads q) t with
    | Some (sample, QLock) =>
      let n := length (checked q) in
      let s' := qscan n sample (checked q) in
      if s' <? n
      then Some (mkQ (upd (checked q) s' true) (upd (qthreads q) t (s', QModel s')) (qlog q ++ [(t, s')]))
      else Some (mkQ (checked q) (upd (qthreads q) t (s', QDone)) (qlog q))
    | _ => None
    end
  | QLModel t =>
    match nth_error (qthreads q) t with
    | Some (sample, QModel i) => Some (mkQ (checked q) (upd (qthreads q) t (sample, QLock)) (qlog q))
    | _ => None
    end
  end.

Fixpoint qrun (q : qstate) (ls : list qlabel) : option qstate :=
  match ls with
  | [] => Some q
  | l :: r => match qstep q l with Some q' => qrun q' r | None => None end
  end.

Inductive qreachable (npoints nthreads : nat) : qstate -> Prop :=
| qreach_init : qreachable npoints nthreads (qinit npoints nthreads)
| qreach_step : forall q l q', qreachable npoints nthreads q -> qstep q l = Some q' -> qreachable npoints nthreads q'.

Definition qfinished (q : qstate) : bool :=
  forallb (fun t => match snd t with QDone => true | _ => false end) (qthreads q).
