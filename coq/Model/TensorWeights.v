(* Tensor weights of the combination technique: MultiIndexManipulations::computeTensorWeights together with resortIndexes
   (SparseGrids/tsgIndexManipulator.cpp).  Input: a MultiIndexSet = lexicographically sorted duplicate-free list of multi-indexes of one
   length D >= 1, not empty (the C++ reads weights.back() / map[d][0]).  Output: one integer per index, in the order of the set.
   Two executable models, both extracted and both compared with the implementation on every case of the tie:

   tw_cpp    mirrors the C++ control flow: for every dimension the permutation map[d] (std::sort of the positions with the comparator
             "all coordinates but d lexicographically, then coordinate d"; identity for the last dimension), the run boundaries lines1d[d]
             (a new line starts where match_outside_dim against the FIRST index of the current run fails), the special case D = 1, the
             initial pass (last position of every line of the last dimension gets 1), then for d = D-2 down to 0, for every line, the
             in-place backward sweep  for i = end-2 downto start: w[map[i]] -= sum_{j>i in the line} w[map[j]]  on the weight vector
             addressed by POSITION.  Lines are runs of SORTED POSITIONS: on a set that is not lower a line may have gaps in coordinate d.
   tw_lines  the same computation with the lines written as what the sort computes on a sorted duplicate-free set: the line of t in
             direction d = the indexes that agree with t outside d, in the order of the set (which, the set being lexicographically
             sorted, is the order of coordinate d).  The independent lines (omp parallel for in the C++) are interleaved: the indexes are
             visited in reverse order of the set and each one subtracts the (already updated) weights of the later members of its line.
             The theorems (Proofs/TensorWeightsProofs.v) are about tw_lines.
   `int` overflow is not modelled (weights are Z).  No proofs here. *)
From TV Require Import Common.Prelude Model.IndexSets.
Local Open Scope Z_scope.

Definition idx_eqb (a b : idx) : bool := if list_eq_dec Z.eq_dec a b then true else false.

(* the coordinates other than d (what match_outside_dim compares) *)
Definition outkey (d : nat) (a : idx) : idx := firstn d a ++ skipn (S d) a.
Definition match_outside (d : nat) (a b : idx) : bool := idx_eqb (outkey d a) (outkey d b).

(* the in-place backward sweep on the values of one line (first = lowest position of the line): the entry i becomes
   a_i - (sum of the already updated entries behind it); the last entry is not touched *)
Definition zsum (l : list Z) : Z := fold_right Z.add 0 l.
Fixpoint sweep_vals (a : list Z) : list Z :=
  match a with
  | [] => []
  | x :: r => let r' := sweep_vals r in
              match r with [] => [x] | _ => (x - zsum r') :: r' end
  end.

(* ================================================================ tw_cpp: the control flow of the C++ *)
(* the comparator of std::sort in resortIndexes: coordinates j <> d in increasing j, then coordinate d; false on equal keys *)
Definition before_d (d : nat) (a b : idx) : bool :=
  match cmp (outkey d a) (outkey d b) with
  | ABeforeB => true
  | BBeforeA => false
  | ASameB => nth d a 0 <? nth d b 0
  end.

(* std::sort of positions (on a duplicate-free set the comparator is a strict total order: the result does not depend on the algorithm) *)
Fixpoint insert_pos (lt : nat -> nat -> bool) (p : nat) (l : list nat) : list nat :=
  match l with
  | [] => [p]
  | q :: r => if lt q p then q :: insert_pos lt p r else p :: l
  end.
Definition sort_pos (lt : nat -> nat -> bool) (l : list nat) : list nat := fold_right (insert_pos lt) [] l.

Definition map_d (D d : nat) (s : list idx) : list nat :=
  let ids := seq 0 (length s) in
  if (S d =? D)%nat then ids else sort_pos (fun a b => before_d d (nth a s []) (nth b s [])) ids.

(* lines1d[d] as the list of runs of map[d]: a position joins the current run while it matches the FIRST index of the run outside d;
   for D = 1 one run holds everything *)
Fixpoint runs (d : nat) (s : list idx) (cur : list nat) (c_index : idx) (l : list nat) : list (list nat) :=
  match l with
  | [] => [rev cur]
  | p :: r => let t := nth p s [] in
              if match_outside d c_index t then runs d s (p :: cur) c_index r
              else rev cur :: runs d s [p] t r
  end.
Definition lines_d (D d : nat) (s : list idx) : list (list nat) :=
  let m := map_d D d s in
  if (D =? 1)%nat then [m] else
  match m with
  | [] => []
  | p :: r => runs d s [p] (nth p s []) r
  end.

Fixpoint set_pos (w : list Z) (p : nat) (v : Z) : list Z :=
  match w, p with
  | [], _ => []
  | _ :: r, O => v :: r
  | x :: r, S p' => x :: set_pos r p' v
  end.

(* one line, in place: positions ps (in the order of map[d]); i runs from the one before the last down to the first *)
Fixpoint sweep_line (ps : list nat) (w : list Z) : list Z :=
  match ps with
  | [] => w
  | p :: rest => let w' := sweep_line rest w in
                 match rest with
                 | [] => w'
                 | _ => set_pos w' p (nth p w' 0 - zsum (map (fun q => nth q w' 0) rest))
                 end
  end.

Definition sweep_dim_cpp (D d : nat) (s : list idx) (w : list Z) : list Z :=
  fold_left (fun w ps => sweep_line ps w) (lines_d D d s) w.

(* for d = n-1 downto 0 *)
Fixpoint sweep_down_cpp (D : nat) (s : list idx) (n : nat) (w : list Z) : list Z :=
  match n with
  | O => w
  | S d => sweep_down_cpp D s d (sweep_dim_cpp D d s w)
  end.

Definition init_cpp (D : nat) (s : list idx) : list Z :=
  fold_left (fun w ps => match rev ps with [] => w | p :: _ => set_pos w p 1 end)
            (lines_d D (D - 1) s) (repeat 0 (length s)).

Definition dim_of (s : list idx) : nat := match s with [] => 0%nat | t :: _ => length t end.

Definition tw_cpp (s : list idx) : list Z :=
  let D := dim_of s in
  if (D =? 1)%nat then repeat 0 (length s - 1) ++ [1]
  else sweep_down_cpp D s (D - 1) (init_cpp D s).

(* ================================================================ tw_lines: the lines as sets *)
Definition wstate := list (idx * Z).

Fixpoint getw (W : wstate) (t : idx) : Z :=
  match W with
  | [] => 0
  | (s, v) :: W' => if idx_eqb s t then v else getw W' t
  end.
Fixpoint setw (W : wstate) (t : idx) (v : Z) : wstate :=
  match W with
  | [] => []
  | (s, x) :: W' => if idx_eqb s t then (s, v) :: W' else (s, x) :: setw W' t v
  end.
Definition sumw (W : wstate) (l : list idx) : Z := zsum (map (getw W) l).

(* initial pass in direction d: 1 on the last member of every line *)
Fixpoint init_lines (d : nat) (s : list idx) : wstate :=
  match s with
  | [] => []
  | t :: rest => (t, if existsb (match_outside d t) rest then 0 else 1) :: init_lines d rest
  end.

(* all the backward sweeps of direction d; l = the part of the set still to visit (visited from its end) *)
Fixpoint sweep_dim (d : nat) (l : list idx) (W : wstate) : wstate :=
  match l with
  | [] => W
  | t :: rest => let W' := sweep_dim d rest W in
                 setw W' t (getw W' t - sumw W' (filter (match_outside d t) rest))
  end.

Fixpoint sweep_down (s : list idx) (n : nat) (W : wstate) : wstate :=
  match n with
  | O => W
  | S d => sweep_down s d (sweep_dim d s W)
  end.

Definition tw_lines (s : list idx) : list Z :=
  let D := dim_of s in
  if (D =? 1)%nat then repeat 0 (length s - 1) ++ [1]
  else map snd (sweep_down s (D - 1) (init_lines (D - 1) s)).

(* ================================================================ the inclusion-exclusion value *)
(* t + e_d *)
Fixpoint bump (d : nat) (t : idx) : idx :=
  match t, d with
  | [], _ => []
  | x :: r, O => (x + 1) :: r
  | x :: r, S d' => x :: bump d' r
  end.

Definition chi (s : list idx) (t : idx) : Z := if existsb (idx_eqb t) s then 1 else 0.

(* all e in {0,1}^D with their sign (-1)^|e| *)
Fixpoint cube (D : nat) : list (idx * Z) :=
  match D with
  | O => [([], 1)]
  | S D' => flat_map (fun ez => [(0 :: fst ez, snd ez); (1 :: fst ez, - snd ez)]) (cube D')
  end.

(* sum over e in {0,1}^D with t + e in the set of (-1)^|e| *)
Definition incl_excl (s : list idx) (t : idx) : Z :=
  zsum (map (fun ez => snd ez * chi s (map2 Z.add t (fst ez))) (cube (length t))).

(* the same value as an iterated difference: apply (f -> f(t) - f(t + e_d)) for the directions ds *)
Fixpoint iter_diff (f : idx -> Z) (ds : list nat) (t : idx) : Z :=
  match ds with
  | [] => f t
  | d :: r => iter_diff f r t - iter_diff f r (bump d t)
  end.

(* t - e_d (used only where t_d >= 1) *)
Fixpoint unbump (d : nat) (t : idx) : idx :=
  match t, d with
  | [], _ => []
  | x :: r, O => (x - 1) :: r
  | x :: r, S d' => x :: unbump d' r
  end.

(* backward difference in direction k of a family V indexed by multi-indexes: V(t) - V(t - e_k), the second term absent when t_k = 0;
   iterated over the directions ds it is the mixed difference (the tensor of differences Delta_t when V(t) = prod_j u_j(t_j)) *)
Definition back_diff (k : nat) (V : idx -> Z) (t : idx) : Z := V t - (if nth k t 0 =? 0 then 0 else V (unbump k t)).
Fixpoint iter_back (V : idx -> Z) (ds : list nat) : idx -> Z :=
  match ds with [] => V | d :: r => iter_back (back_diff d V) r end.
