(* Executable model of the derivative modes of the evaluation-tree walk of Local Polynomial grids (C05, tree walk anchor):
     GridLocalPolynomial::diffBasisSupported                    (SparseGrids/tsgGridLocalPolynomial.hpp:202-217)
     GridLocalPolynomial::walkTree<3> / walkTree<4>             (SparseGrids/tsgGridLocalPolynomial.hpp:234-309)
     GridLocalPolynomial::differentiate / getDifferentiationWeights (tsgGridLocalPolynomial.cpp)
   The forest (roots, pntr, indx) and the descent rule are those of Model/TreeWalk.v ([build_forest], [walk_tree]); only the
   function that decides isSupported and the recorded payload change.  The one-dimensional pieces are evalSupport / diffSupport
   of Model/RuleLocal.v, the accumulation of the gradient vector is [grad_accum] of Model/Diff.v (first loop: every entry but k
   is multiplied by the value of factor k; second loop: entry k is multiplied by the derivative of factor k).
   NOTE the flag: the C++ starts from isSupported = false and ORs the per-direction flags of BOTH loops
   (`isSupported = isDimSupported or isSupported`), where evalBasisSupported returns false at the FIRST unsupported direction
   (an AND).  The model mirrors the OR.
   No proofs in this file. *)
From TV Require Import Common.Prelude Model.IndexSets Model.RuleLocal Model.Selection Model.LocalGrid Model.TreeWalk Model.Diff.
From Coq Require Import QArith.
Local Open Scope Z_scope.

Section TreeWalkDiff.
  Variable r : erule.
  Variable order : Z.

  (* the (value, isDimSupported) pairs of the two loops, one per direction (the C++ loops run over num_dimensions = the common
     length of point[] and x[]) *)
  Definition eval_dirs (pt : idx) (x : list Q) : list (Q * bool) :=
    map (fun px => evalSupport r order (fst px) (snd px)) (combine pt x).
  Definition diff_dirs (pt : idx) (x : list Q) : list (Q * bool) :=
    map (fun px => diffSupport r order (fst px) (snd px)) (combine pt x).

  (* isSupported = isDimSupported or isSupported, over a loop *)
  Definition or_flags (l : list (Q * bool)) (s : bool) : bool := fold_left (fun s e => snd e || s) l s.

  (* diffBasisSupported: (diff_values, isSupported) *)
  Definition diff_basis_supported (pt : idx) (x : list Q) : list Q * bool :=
    let ev := eval_dirs pt x in
    let dv := diff_dirs pt x in
    (grad_accum (map fst ev) (map fst dv), or_flags dv (or_flags ev false)).

  (* walkTree<4>: (sindx entry, its num_dimensions entries of svals) in visiting order; a point whose flag is false is not
     recorded and not descended into *)
  Fixpoint walk_diff_tree (pts : list idx) (x : list Q) (t : tree) : list (nat * list Q) :=
    match t with
    | Node i ts => let '(g, s) := diff_basis_supported (nth i pts []) x in
                   if s then (i, g) :: flat_map (walk_diff_tree pts x) ts else []
    end.
  Definition walk_diff (pts : list idx) (forest : list tree) (x : list Q) : list (nat * list Q) :=
    flat_map (walk_diff_tree pts x) forest.

  (* walkTree<3>, entry y[k * num_dimensions + d] for one output k with surpluses [surp]:
     y += basis_derivative[d] * s[k] over the visited points, in visiting order *)
  Definition diff_walk (pts : list idx) (forest : list tree) (surp : nat -> Q) (x : list Q) (d : nat) : Q :=
    fold_left (fun y ig => (y + nth d (snd ig) 0 * surp (fst ig))%Q) (walk_diff pts forest x) 0%Q.

  (* the dense route: the gradient of the tensor basis function of one point with NO support test in the accumulation: the
     values are evalRaw (evalBasisRaw, the dense route of Model/TreeWalk.v eval_full), the 1-d derivatives the values
     returned by diffSupport *)
  Definition grad_dense (pt : idx) (x : list Q) : list Q :=
    grad_accum (map (fun px => evalRaw r order (fst px) (snd px)) (combine pt x))
               (map (fun px => fst (diffSupport r order (fst px) (snd px))) (combine pt x)).
  (* sum over ALL points of gradient entry d times surplus *)
  Definition diff_full (pts : list idx) (surp : nat -> Q) (x : list Q) (d : nat) : Q :=
    fold_left (fun y i => (y + nth d (grad_dense (nth i pts []) x) 0 * surp i)%Q) (seq 0 (length pts)) 0%Q.

  (* the whole Jacobian row block of one output, as differentiate() returns it *)
  Definition differentiate_row (pts : list idx) (forest : list tree) (surp : nat -> Q) (x : list Q) : list Q :=
    map (diff_walk pts forest surp x) (seq 0 (length x)).

  (* at least one direction passes the closed support test of evalSupport (what the OR of diffBasisSupported amounts to) *)
  Fixpoint supp_any (pt : idx) (x : list Q) : bool :=
    match pt, x with
    | p :: pt', t :: x' => snd (evalSupport r order p t) || supp_any pt' x'
    | _, _ => false
    end.

  (* entry of the sparse gradient row of getDifferentiationWeights (mode 4), zero vector entry where absent *)
  Definition sparse_grad_entry (w : list (nat * list Q)) (i d : nat) : Q :=
    match find (fun iv => Nat.eqb (fst iv) i) w with Some iv => nth d (snd iv) 0%Q | None => 0%Q end.
End TreeWalkDiff.
