(* Executable model of TasDREAM::SampleDREAM (DREAM/tsgDreamSample.hpp:413-508) and of the parts of
   TasmanianDREAM (DREAM/tsgDreamState.{hpp,cpp}) it uses: setState / setPDFvalues / getIJKdelta /
   getChainState / getPDFvalue / saveStateHistory, and of its public operations that edit the state or the
   caches between runs: both setState overloads, both setPDFvalues overloads, clearPDFvalues, clearHistory,
   expandHistory (C15).

   The model is generic
   - in the number type R and its operations (so every theorem holds for IEEE binary64, the instance
     the extracted runner is executed with when it is compared bit-for-bit with the C++ code);
   - in an environment type W threaded through the IMPURE callbacks: the random number generator
     [rnd], the differential update [diff] and the independent update [upd] are state transformers
     over W (a scripted stream position, a counter, the state of rand(), ...).  The order in which the
     model invokes them is the order of the C++ code, and it matters exactly because they share W;
   - the probability density [pdf] (point-wise; the C++ code evaluates it in batches) and the domain
     test [inside] are pure functions.
   Every function returns the list of callback invocations it made, in order ([event]); [EvGet] records
   the chain indices handed to getIJKdelta (these are the only data-dependent accesses to the chain
   state; all other accesses use the loop counter i < num_chains).

   [fixed] selects line 449 of tsgDreamSample.hpp: [true] is the repaired line
   `if (kindex >= num_chains) kindex = num_chains - 1;`, [false] the line as found
   `if (kindex >= num_chains) jindex = num_chains - 1;` (fixes/C15-kindex.diff).
   No proofs in this file. *)
From TV Require Import Common.Prelude.

Section Dream.
  Variable R : Type.
  Variable W : Type.
  Variables add sub mul div : R -> R -> R.
  Variable logf : R -> R.                              (* log, used by the log-form accept test *)
  Variable ofnat : nat -> R.                           (* (double) num_chains *)
  Variable trunc : R -> Z.                             (* the conversion (size_t) of a double *)
  Variables gtb geb : R -> R -> bool.                  (* a > b, a >= b *)
  Variable is_zero : R -> bool.                        (* w == 0.0 *)
  Variable logform : bool.                             (* template parameter form *)
  Variable fixed : bool.                               (* line 449 repaired? *)
  Variable pdf : list R -> R.                          (* probability_distribution, one candidate *)
  Variable inside : list R -> bool.                    (* domain test *)
  Variable rnd : W -> R * W.                           (* get_random01 *)
  Variable diff : W -> R * W.                          (* differential_update *)
  Variable upd : W -> list R -> list R * W.            (* independent_update *)

  Inductive event :=
  | EvRnd (r : R)
  | EvDiff (w : R)
  | EvGet (i : nat) (jraw kraw : Z) (j k : nat)        (* getIJKdelta(i, j, k, ..): jraw/kraw before clamping *)
  | EvUpd (x x' : list R)
  | EvInside (x : list R) (b : bool)
  | EvPdf (cands : list (list R)) (vals : list R).    (* one batched call *)

  (* TasmanianDREAM: state (num_chains vectors), pdf_values + init_values, history, pdf_history, accepted *)
  Record dstate := mkds {
    chains : list (list R);
    pdfv : list R;
    pdf_ready : bool;
    hist : list (list R);
    pdfh : list R;
    acc : nat
  }.

  (* lines 446-449: the two index draws and their clamping *)
  Definition draw_jk (n : nat) (rj rk : R) : Z * Z * nat * nat :=
    let jz := trunc (mul rj (ofnat n)) in
    let kz := trunc (mul rk (ofnat n)) in
    let j0 := Z.to_nat jz in
    let k0 := Z.to_nat kz in
    let j1 := if n <=? j0 then n - 1 else j0 in
    if fixed then (jz, kz, j1, if n <=? k0 then n - 1 else k0)
    else (jz, kz, (if n <=? k0 then n - 1 else j1), k0).

  Fixpoint map3 (f : R -> R -> R -> R) (a b c : list R) : list R :=
    match a, b, c with
    | x :: a', y :: b', z :: c' => f x y z :: map3 f a' b' c'
    | _, _, _ => []
    end.

  (* TasmanianDREAM::getIJKdelta: x = s_i + w (s_k - s_j), the difference is skipped when w == 0 *)
  Definition ijk_delta (cs : list (list R)) (i j k : nat) (w : R) : list R :=
    let x := nth i cs [] in
    if is_zero w then x
    else map3 (fun xv sk sj => add xv (mul w (sub sk sj))) x (nth k cs []) (nth j cs []).

  (* lines 443-460, one chain *)
  Definition propose1 (cs : list (list R)) (n i : nat) (w : W) : (list R * bool) * W * list event :=
    let (rj, w1) := rnd w in
    let (rk, w2) := rnd w1 in
    let '(jz, kz, j, k) := draw_jk n rj rk in
    let (wd, w3) := diff w2 in
    let p0 := ijk_delta cs i j k wd in
    let (p, w4) := upd w3 p0 in
    let b := inside p in
    ((p, b), w4, [EvRnd rj; EvRnd rk; EvDiff wd; EvGet i jz kz j k; EvUpd p0 p; EvInside p b]).

  Fixpoint propose_all (cs : list (list R)) (n : nat) (idx : list nat) (w : W)
    : list (list R * bool) * W * list event :=
    match idx with
    | [] => ([], w, [])
    | i :: r =>
        let '(pb, w1, e1) := propose1 cs n i w in
        let '(ps, w2, e2) := propose_all cs n r w1 in
        (pb :: ps, w2, e1 ++ e2)
    end.

  (* the vector `candidates`: the proposals that passed the domain test, in chain order *)
  Definition candidates (ps : list (list R * bool)) : list (list R) := map fst (filter snd ps).

  (* lines 462-463: one batched call, skipped when no proposal is inside *)
  Definition eval_batch (cands : list (list R)) : list R * list event :=
    match cands with
    | [] => ([], [])
    | _ => (map pdf cands, [EvPdf cands (map pdf cands)])
    end.

  (* lines 475-484 *)
  Definition accept_test (newv cur : R) (w : W) : bool * W * list event :=
    if gtb newv cur then (true, w, [])
    else let (u, w') := rnd w in
         ((if logform then geb (sub newv cur) (logf u) else geb (div newv cur) u), w', [EvRnd u]).

  (* lines 472-500: the accept/reject loop with the two iterators icand, ival *)
  Fixpoint decide (valid : list bool) (olds : list (list R)) (curs : list R)
                  (cands : list (list R)) (vals : list R) (w : W)
    : list (list R) * list R * nat * W * list event :=
    match valid, olds, curs with
    | b :: valid', o :: olds', c :: curs' =>
        if b then
          match cands, vals with
          | cd :: cands', v :: vals' =>
              let '(keep, w1, e1) := accept_test v c w in
              let '(ns, nv, k, w2, e2) := decide valid' olds' curs' cands' vals' w1 in
              if keep then (cd :: ns, v :: nv, S k, w2, e1 ++ e2)
              else (o :: ns, c :: nv, k, w2, e1 ++ e2)
          | _, _ =>  (* iterator past the end: excluded by the theorem c15_accept_rule *)
              let '(ns, nv, k, w2, e2) := decide valid' olds' curs' cands vals w in
              (o :: ns, c :: nv, k, w2, e2)
          end
        else
          let '(ns, nv, k, w2, e2) := decide valid' olds' curs' cands vals w in
          (o :: ns, c :: nv, k, w2, e2)
    | _, _, _ => ([], [], 0, w, [])
    end.

  (* one pass of the loop over t, up to and including setState / setPDFvalues; returns the new state,
     the number of accepted proposals, the environment and the callback events *)
  Definition step (st : dstate) (w : W) : dstate * nat * W * list event :=
    let n := length (chains st) in
    let '(ps, w1, e1) := propose_all (chains st) n (seq 0 n) w in
    let cands := candidates ps in
    let (vals, e2) := eval_batch cands in
    let '(ns, nv, k, w2, e3) := decide (map snd ps) (chains st) (pdfv st) cands vals w1 in
    (mkds ns nv true (hist st) (pdfh st) (acc st), k, w2, e1 ++ e2 ++ e3).

  (* TasmanianDREAM::saveStateHistory *)
  Definition save (st : dstate) (k : nat) : dstate :=
    mkds (chains st) (pdfv st) (pdf_ready st) (hist st ++ chains st) (pdfh st ++ pdfv st) (acc st + k).

  (* for(int t = 0; t < total_iterations; t++){ ...; if (t >= num_burnup) saveStateHistory(accepted); } *)
  Fixpoint loop (fuel : nat) (t nb : Z) (st : dstate) (w : W) : dstate * W * list event :=
    match fuel with
    | O => (st, w, [])
    | S f =>
        let '(st1, k, w1, e1) := step st w in
        let st2 := if (nb <=? t)%Z then save st1 k else st1 in
        let '(st3, w3, e3) := loop f (t + 1)%Z nb st2 w1 in
        (st3, w3, e1 ++ e3)
    end.

  (* lines 429-430: setPDFvalues(probability_distribution) on the whole state when not initialised *)
  Definition init_pdf (st : dstate) : dstate * list event :=
    if pdf_ready st then (st, [])
    else (mkds (chains st) (map pdf (chains st)) true (hist st) (pdfh st) (acc st),
          [EvPdf (chains st) (map pdf (chains st))]).

  (* SampleDREAM<form>(num_burnup, num_collect, ...) on a state for which setState() has been called *)
  Definition run (nb nc : Z) (st : dstate) (w : W) : dstate * W * list event :=
    match chains st with
    | [] => (st, w, [])                                  (* num_chains == 0: return *)
    | _ :: _ =>
        let (st0, e0) := init_pdf st in
        let '(st1, w1, e1) := loop (Z.to_nat (Z.max nb 0 + Z.max nc 0)) 0%Z nb st0 w in
        (st1, w1, e0 ++ e1)
    end.

  (* ---- the public operations of TasmanianDREAM that edit the chain state or the caches between runs ---- *)
  Definition dim_of (st : dstate) : nat := length (hd [] (chains st)).
  Definition same_shape (st : dstate) (cs : list (list R)) : bool :=
    (length cs =? length (chains st)) && forallb (fun c => length c =? dim_of st) cs.

  (* setState(const std::vector<double>&): size check (else throws, nothing changes), state := new,
     init_values := false (the cached values are stale and must be re-evaluated by the next run) *)
  Definition set_state (cs : list (list R)) (st : dstate) : dstate :=
    if same_shape st cs then mkds cs (pdfv st) false (hist st) (pdfh st) (acc st) else st.

  (* setState(callback overload, a std::function over a pointer to one chain): the callback rewrites every chain
     in place; init_values := false *)
  Fixpoint mapi (f : nat -> list R -> list R) (i : nat) (cs : list (list R)) : list (list R) :=
    match cs with [] => [] | c :: r => f i c :: mapi f (S i) r end.
  (* f i old: what the i-th invocation of the callback leaves in the i-th chain (the callback may be stateful and may
     read the old chain) *)
  Definition set_state_fn (f : nat -> list R -> list R) (st : dstate) : dstate :=
    mkds (mapi f 0 (chains st)) (pdfv st) false (hist st) (pdfh st) (acc st).

  (* setPDFvalues(const std::vector<double>&): size check, the USER asserts the cached values *)
  Definition set_pdf_values (vs : list R) (st : dstate) : dstate :=
    if length vs =? length (chains st) then mkds (chains st) vs true (hist st) (pdfh st) (acc st) else st.

  (* setPDFvalues(probability_distribution): one batched call on the whole state *)
  Definition set_pdf_fn (st : dstate) : dstate * list event :=
    (mkds (chains st) (map pdf (chains st)) true (hist st) (pdfh st) (acc st),
     [EvPdf (chains st) (map pdf (chains st))]).

  (* clearPDFvalues() *)
  Definition clear_pdf (st : dstate) : dstate := mkds (chains st) [] false (hist st) (pdfh st) (acc st).

  (* clearHistory(): also resets the acceptance counter, does not touch the state *)
  Definition clear_hist (st : dstate) : dstate := mkds (chains st) (pdfv st) (pdf_ready st) [] [] 0.

  Inductive op :=
  | OpRun (nb nc : Z)
  | OpSetState (cs : list (list R))
  | OpSetStateFn (f : nat -> list R -> list R)
  | OpSetPdf (vs : list R)
  | OpSetPdfFn
  | OpClearPdf
  | OpClearHist
  | OpExpand (k : Z).                                  (* expandHistory: reserve() only *)

  Definition apply_op (o : op) (st : dstate) (w : W) : dstate * W * list event :=
    match o with
    | OpRun nb nc => run nb nc st w
    | OpSetState cs => (set_state cs st, w, [])
    | OpSetStateFn f => (set_state_fn f st, w, [])
    | OpSetPdf vs => (set_pdf_values vs st, w, [])
    | OpSetPdfFn => let (st', e) := set_pdf_fn st in (st', w, e)
    | OpClearPdf => (clear_pdf st, w, [])
    | OpClearHist => (clear_hist st, w, [])
    | OpExpand _ => (st, w, [])
    end.

  (* a history of runs and edits on one state object *)
  Fixpoint run_ops (ops : list op) (st : dstate) (w : W) : dstate * W * list event :=
    match ops with
    | [] => (st, w, [])
    | o :: r =>
        let '(st1, w1, e1) := apply_op o st w in
        let '(st2, w2, e2) := run_ops r st1 w1 in
        (st2, w2, e1 ++ e2)
    end.

  (* ---- specification of the accept rule (used by the theorem c15_accept_rule; not extracted) ---- *)
  (* chain with proposal p, current state old and cached value cur: result (state, cached value, moved?) *)
  Definition accept1 (p old : list R) (cur : R) (w : W) : list R * R * bool * W :=
    if inside p then
      if gtb (pdf p) cur then (p, pdf p, true, w)
      else let (u, w') := rnd w in
           if (if logform then geb (sub (pdf p) cur) (logf u) else geb (div (pdf p) cur) u)
           then (p, pdf p, true, w') else (old, cur, false, w')
    else (old, cur, false, w).

  Fixpoint accept_all (ps : list (list R)) (olds : list (list R)) (curs : list R) (w : W)
    : list (list R) * list R * nat * W :=
    match ps, olds, curs with
    | p :: ps', o :: olds', c :: curs' =>
        let '(n1, v1, m1, w1) := accept1 p o c w in
        let '(ns, nv, k, w2) := accept_all ps' olds' curs' w1 in
        (n1 :: ns, v1 :: nv, (if m1 then S k else k), w2)
    | _, _, _ => ([], [], 0, w)
    end.

  (* ---- the built-in independent updates (tsgDreamCoreRandom.hpp:67-91), instances of [upd] ---- *)
  Variables (one two mtwo twopi : R) (sqrtf cosf sinf : R -> R).

  Fixpoint uniform_go (mag : R) (x : list R) (w : W) : list R * W :=
    match x with
    | [] => ([], w)
    | v :: r =>
        let (u, w1) := rnd w in
        let (r', w2) := uniform_go mag r w1 in
        (add v (mul mag (sub (mul two u) one)) :: r', w2)
    end.
  (* applyUniformUpdate(x, magnitude, get_random01) *)
  Definition uniform_update (mag : R) (w : W) (x : list R) : list R * W :=
    if is_zero mag then (x, w) else uniform_go mag x w.

  Fixpoint gauss_go (mag : R) (x : list R) (pending : option R) (w : W) : list R * W :=
    match x with
    | [] => ([], w)
    | v :: r =>
        match pending with
        | Some g => let (r', w1) := gauss_go mag r None w in (add v g :: r', w1)
        | None =>
            let (u1, w1) := rnd w in
            let rad := mul mag (sqrtf (mul mtwo (logf u1))) in
            let (u2, w2) := rnd w1 in
            let t := mul twopi u2 in
            let (r', w3) := gauss_go mag r (Some (mul rad (sinf t))) w2 in
            (add v (mul rad (cosf t)) :: r', w3)
        end
    end.
  (* applyGaussianUpdate(x, magnitude, get_random01) (Box-Muller) *)
  Definition gaussian_update (mag : R) (w : W) (x : list R) : list R * W :=
    if is_zero mag then (x, w) else gauss_go mag x None w.
End Dream.

Arguments mkds {R}.
Arguments EvRnd {R}. Arguments EvDiff {R}. Arguments EvGet {R}. Arguments EvUpd {R}.
Arguments EvInside {R}. Arguments EvPdf {R}.
Arguments OpRun {R}. Arguments OpSetState {R}. Arguments OpSetStateFn {R}. Arguments OpSetPdf {R}.
Arguments OpSetPdfFn {R}. Arguments OpClearPdf {R}. Arguments OpClearHist {R}. Arguments OpExpand {R}.
