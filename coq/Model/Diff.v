(* Definitions used by the C05 theorems (differentiate() is the gradient of the surrogate).  No proofs in this file.
   - formal product / derivative / second-order remainder of  prod_j (x - n_j)  (generic Lagrange product of
     RuleLocal::evalPWPower / diffPWPower),
   - diffPWPower's algorithm with the node list abstracted (power_diff_alg: the very same term as in
     Model/RuleLocal.v diffPWPower, which is checked by `reflexivity` in Proofs/DiffProofs.v),
   - the explicit Taylor remainders of every piece,
   - the gradient accumulation of GridLocalPolynomial::diffBasisSupported (tsgGridLocalPolynomial.hpp:202-217),
   - the accumulation over the hierarchical sum of walkTree mode 3 (y[k*d+j] += basis_derivative[j] * s[k]),
   - the affine transformed-to-canonical map with its Jacobian factor (TasmanianSparseGrid.cpp:588-622, 820-843). *)
From TV Require Import Common.Prelude Model.RuleLocal.
From Coq Require Import QArith Qabs.
Local Open Scope Q_scope.

(* ---- generic Lagrange product ---- *)
Fixpoint prodl (x : Q) (ns : list Q) : Q :=
  match ns with [] => 1 | n :: r => (x - n) * prodl x r end.
(* formal derivative of the product: d/dx prod (x - n_j) *)
Fixpoint dprodl (x : Q) (ns : list Q) : Q :=
  match ns with [] => 0 | n :: r => prodl x r + (x - n) * dprodl x r end.
(* second-order remainder: prodl (x+h) = prodl x + h dprodl x + h^2 rprodl x h *)
Fixpoint rprodl (x h : Q) (ns : list Q) : Q :=
  match ns with [] => 0 | n :: r => (x - n) * rprodl x h r + dprodl x r + h * rprodl x h r end.

(* the Lagrange coefficient prod 1/(-n_j), as the code accumulates it *)
Definition lagcoef (ns : list Q) : Q := fold_left (fun c n => c * (1 / (- n))) ns 1.
Fixpoint lagc (ns : list Q) : Q := match ns with [] => 1 | n :: r => (1 / (- n)) * lagc r end.

(* evalPWPower's product over an abstract node list *)
Definition power_eval (ns : list Q) (x : Q) : Q :=
  fold_left (fun value node => value * (- (x - node) / node)) ns ((1 - x) * (1 + x)).

(* diffPWPower's left/right-product algorithm over an abstract node list (same term as in RuleLocal.diffPWPower) *)
Definition power_diff_alg (nodes : list Q) (x : Q) : Q :=
  match rev nodes with
  | [] => 0
  | last_node :: _ =>
      let coeff := fold_left (fun c n => c * (1 / (- n))) nodes 1 in
      let lp := left_prods x nodes 1 in
      let d0 := last lp 1 in
      let '(right_prod, derivative) := diff_accum x (removelast (rev nodes)) (tl (rev lp)) 1 d0 in
      let node0 := hd 0 nodes in
      (derivative * (1 - x) * (1 + x) + right_prod * (x - node0) * (-2) * x) * coeff
  end.

(* the mathematically direct form of the derivative of  c (1-x)(1+x) prod (x - n_j) *)
Definition power_diff_formal (ns : list Q) (x : Q) : Q :=
  (dprodl x ns * ((1 - x) * (1 + x)) + prodl x ns * (-2) * x) * lagc ns.

Definition rem_power_nodes (ns : list Q) (x h : Q) : Q :=
  lagc ns * ((1 - x) * (1 + x) * rprodl x h ns - 2 * x * dprodl x ns - prodl x ns
             - h * (2 * x * rprodl x h ns + dprodl x ns) - h * h * rprodl x h ns).

(* ---- explicit Taylor remainders of the pieces: f (x+h) == f x + h * f' x + h*h * rem x h ---- *)
Definition rem_quadratic (r : erule) (point : Z) (x h : Q) : Q :=
  match r with
  | Localp => if (point =? 1)%Z then 0 else if (point =? 2)%Z then 0 else -1
  | Localpb => if (point =? 0)%Z then 0 else if (point =? 1)%Z then 0 else -1
  | _ => -1
  end.

Definition rem_cubic_generic (point : Z) (x h : Q) : Q :=
  if (Z.rem point 2 =? 0)%Z then (-1 - x) + h * (- (1 / 3)) else (-1 + x) + h * (1 / 3).

Definition rem_cubic (r : erule) (point : Z) (x h : Q) : Q :=
  match r with
  | Localp =>
      if (point =? 0)%Z then 0 else if (point =? 1)%Z then 0 else if (point =? 2)%Z then 0
      else if (point =? 3)%Z || (point =? 4)%Z then -1 else rem_cubic_generic point x h
  | Localpb =>
      if (point =? 0)%Z then 0 else if (point =? 1)%Z then 0 else if (point =? 2)%Z then -1 else rem_cubic_generic point x h
  | Localp0 => if (point =? 0)%Z then -1 else rem_cubic_generic point x h
  | _ => rem_cubic_generic point x h
  end.

Definition power_nodes (r : erule) (max_order point : Z) : list Q :=
  phantom_nodes r point (Z.to_nat (max_ancestors r max_order point)) 1 1.

Definition rem_power (r : erule) (max_order point : Z) (x h : Q) : Q :=
  if uses_cubic r point then rem_cubic r point x h else rem_power_nodes (power_nodes r max_order point) x h.

Definition rem_scaled (r : erule) (max_order point : Z) (x h : Q) : Q :=
  if (max_order =? 1)%Z then 0
  else if (max_order =? 2)%Z then rem_quadratic r point x h
  else if (max_order =? 3)%Z then rem_cubic r point x h
  else rem_power r max_order point x h.

(* remainder of the basis function in the grid coordinate x (chain rule through scaleX) *)
Definition basis_rem (r : erule) (max_order point : Z) (x h : Q) : Q :=
  let an := scaleDiffX r point in an * an * rem_scaled r max_order point (scaleX r point x) (h * an).

(* order 1 is |.|-shaped: the Taylor identity holds when x and x+h are on the same side of the node *)
Definition same_side (xn xn' : Q) : Prop := (0 <= xn /\ 0 <= xn') \/ (xn < 0 /\ xn' <= 0).

(* orders for which diffSupport is defined: the semi-local rule is only instantiated with order <> 1
   (GridLocalPolynomial maps semi-localp with order < 2 to the localp effective rule) *)
Definition order_ok (r : erule) (max_order : Z) : Prop :=
  match r with Semilocalp => max_order <> 1%Z | Pwc => False | _ => True end.

(* ---- gradient of a tensor product: GridLocalPolynomial::diffBasisSupported ---- *)
Fixpoint mul_except (k : nat) (f : Q) (dv : list Q) (j : nat) : list Q :=   (* for j <> k: dv[j] *= f *)
  match dv with
  | [] => []
  | v :: r => (if Nat.eqb j k then v else v * f) :: mul_except k f r (S j)
  end.

Fixpoint grad_pass1 (fs : list Q) (k : nat) (dv : list Q) : list Q :=        (* first loop over k *)
  match fs with
  | [] => dv
  | f :: r => grad_pass1 r (S k) (mul_except k f dv 0)
  end.

(* fs = values of the univariate factors, dfs = their derivatives; result = diff_values *)
Definition grad_accum (fs dfs : list Q) : list Q :=
  map2 Qmult (grad_pass1 fs 0 (repeat 1 (length fs))) dfs.

Fixpoint prodQ (l : list Q) : Q := match l with [] => 1 | a :: r => a * prodQ r end.
Fixpoint set_nth (k : nat) (l : list Q) (v : Q) : list Q :=
  match l, k with
  | [], _ => []
  | _ :: r, O => v :: r
  | a :: r, S k' => a :: set_nth k' r v
  end.

(* ---- hierarchical sum: y += basis * surplus over the visited basis functions ---- *)
Definition hsum (terms : list (Q * Q)) : Q :=          (* (surplus, basis value or basis derivative) *)
  fold_left (fun y sb => y + snd sb * fst sb) terms 0.

(* ---- the affine transformed-to-canonical map  x = y * rate - shift  and the code's Jacobian factor ---- *)
Definition canon (rate shift y : Q) : Q := y * rate - shift.
Definition linear_rate (a b : Q) : Q := 2 / (b - a).                 (* mapTransformedToCanonical, canonical [-1,1] *)
Definition linear_shift (a b : Q) : Q := (b + a) / (b - a).
Definition linear_jac (a b : Q) : Q := 2 / (b - a).                  (* diffCanonicalTransform *)
Definition fourier_canon (a b y : Q) : Q := (y - a) / (b - a).       (* rule_fourier *)
Definition fourier_jac (a b : Q) : Q := 1 / (b - a).

(* a function of the increment h that is bounded on |h| <= 1 (every polynomial remainder is) *)
Definition bdd (g : Q -> Q) : Prop := exists B, 0 <= B /\ forall h, Qabs h <= 1 -> Qabs (g h) <= B.
