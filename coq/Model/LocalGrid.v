(* Local-polynomial instance of the generic hierarchical model (M-D / LocalPoly): tensor-product basis built from the
   RuleLocal model, the ancestor walk of updateSurpluses (through PRESENT parents only), level ordering, exact
   surpluses and evaluation over canonical rationals Qc (Leibniz equality; extracted as Q with Qred), and the
   decidable certificate [hier_cert] of the hypotheses of the generic theorems.  No proofs here. *)
From TV Require Import Common.Prelude Model.IndexSets Model.RuleLocal Model.Selection Model.Hier.
From Coq Require Import QArith Qcanon.
Local Open Scope Z_scope.

Definition idx_eqb (a b : idx) : bool := match cmp a b with ASameB => Nat.eqb (length a) (length b) | _ => false end.

Fixpoint memb (x : idx) (l : list idx) : bool := match l with [] => false | y :: r => idx_eqb x y || memb x r end.
Fixpoint nodupb (l : list idx) : bool := match l with [] => true | x :: r => negb (memb x r) && nodupb r end.

Section LocalGrid.
  Variable r : erule.
  Variable order : Z.

  (* tensor product of the one-dimensional basis functions *)
  Fixpoint basisQ (j : idx) (x : list Q) : Q :=
    match j, x with
    | p :: j', t :: x' => (evalRaw r order p t * basisQ j' x')%Q
    | _, _ => 1%Q
    end.
  Definition node_of (i : idx) : list Q := map (getNode r) i.
  Definition Bc (i j : idx) : Qc := Q2Qc (basisQ j (node_of i)).

  Definition parents1d (p : Z) : list Z :=
    filter (fun q => negb (q =? -1)) [getParent r p; getStepParent r p].

  (* the parents of point i that are present in pts (the rows of computeDAGup) *)
  Definition parents (pts : list idx) (i : idx) : list idx :=
    flat_map (fun dir => flat_map (fun q => let pa := set_nth i dir q in if memb pa pts then [pa] else [])
                                  (parents1d (nth dir i 0)))
             (seq 0 (length i)).

  (* depth-first closure over present parents = the set of points whose surplus is subtracted *)
  Fixpoint closure (fuel : nat) (pts frontier acc : list idx) : list idx :=
    match fuel with
    | O => acc
    | S f => match frontier with
             | [] => acc
             | x :: fr => if memb x acc then closure f pts fr acc
                          else closure f pts (parents pts x ++ fr) (x :: acc)
             end
    end.
  Definition reach (pts : list idx) (i : idx) : list idx :=
    closure (S (length pts) * (2 * length i + 2)) pts (parents pts i) [].

  Definition levelsum (i : idx) : Z := fold_right (fun p a => getLevel r p + a) 0 i.

  Fixpoint insert_by_level (x : idx) (l : list idx) : list idx :=
    match l with
    | [] => [x]
    | y :: l' => if levelsum x <? levelsum y then x :: l else y :: insert_by_level x l'
    end.
  (* stable: points of equal level keep their (lexicographic) order *)
  Definition by_level (pts : list idx) : list idx := fold_right insert_by_level [] pts.

  Fixpoint assoc (vals : list (idx * Qc)) (i : idx) : Qc :=
    match vals with [] => 0%Qc | (j, v) :: rest => if idx_eqb i j then v else assoc rest i end.

  (* hierarchical surpluses of one output; vals = (index, value) association *)
  Definition surpluses (pts : list idx) (vals : list (idx * Qc)) : list (idx * Qc) :=
    coef Qc 0%Qc Qcplus Qcmult Qcminus idx idx_eqb Bc (reach pts) (assoc vals) (by_level pts).

  Definition evalAt (pts : list idx) (vals : list (idx * Qc)) (x : list Q) : Qc :=
    interp Qc 0%Qc Qcplus Qcmult Qcminus idx idx_eqb Bc (reach pts) (assoc vals) (by_level pts)
           (fun j => Q2Qc (basisQ j x)).

  (* every present point has all its (existing) parents present *)
  Definition parent_complete (pts : list idx) : bool :=
    forallb (fun i => forallb (fun dir => forallb (fun q => memb (set_nth i dir q) pts) (parents1d (nth dir i 0)))
                              (seq 0 (length i))) pts.

  (* ---- decidable certificate of the hypotheses of hier_reproduces / hier_unique ---- *)
  Fixpoint topob (reachf : idx -> list idx) (pre rest : list idx) : bool :=
    match rest with
    | [] => true
    | i :: rs => forallb (fun j => memb j pre) (reachf i) && topob reachf (pre ++ [i]) rs
    end.

  Definition hier_cert (pts : list idx) : bool :=
    let nodes := by_level pts in
    let d := length (hd [] pts) in
    forallb (fun i => Nat.eqb (length i) d) nodes &&
    nodupb nodes &&
    forallb (fun i => Qc_eq_bool (Bc i i) 1%Qc) nodes &&
    forallb (fun i => nodupb (reach pts i)) nodes &&
    forallb (fun i => forallb (fun j => memb j nodes && negb (idx_eqb j i)) (reach pts i)) nodes &&
    forallb (fun i => let ri := reach pts i in    (* computed once per row *)
                      forallb (fun j => idx_eqb j i || memb j ri || Qc_eq_bool (Bc i j) 0%Qc) nodes) nodes &&
    topob (reach pts) [] nodes.
End LocalGrid.
