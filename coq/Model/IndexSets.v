(* Executable model of SparseGrids/tsgIndexSets.cpp: MultiIndexSet (lexicographically sorted sets of
   multi-indexes) and StorageSet::addValues (positional merge of value blocks).  No proofs here.
   A multi-index is a [list Z]; all indexes of one set have the same length (num_dimensions). *)
From TV Require Import Common.Prelude.
Local Open Scope Z_scope.

Definition idx := list Z.

Inductive rel := ABeforeB | BBeforeA | ASameB.

(* the `compare` lambdas: lexicographic, over the common length *)
Fixpoint cmp (a b : idx) : rel :=
  match a, b with
  | x :: a', y :: b' => if x <? y then ABeforeB else if y <? x then BBeforeA else cmp a' b'
  | _, _ => ASameB
  end.

(* MultiIndexSet::addSortedIndexes (also operator+=) *)
Fixpoint merge (a : list idx) : list idx -> list idx :=
  fix merge_b (b : list idx) : list idx :=
    match a, b with
    | [], _ => b
    | _, [] => a
    | x :: a', y :: b' =>
        match cmp x y with
        | BBeforeA => y :: merge_b b'
        | ABeforeB => x :: merge a' b
        | ASameB => x :: merge a' b'
        end
    end.

(* MultiIndexSet::operator- *)
Fixpoint diff (a : list idx) : list idx -> list idx :=
  fix diff_b (b : list idx) : list idx :=
    match a, b with
    | [], _ => []
    | _, [] => a
    | x :: a', y :: b' =>
        match cmp x y with
        | ABeforeB => x :: diff a' b
        | BBeforeA => diff_b b'
        | ASameB => diff a' b'
        end
    end.

(* StorageSet::addValues(old_set, new_set, new_vals): one value block (type V) per index.
   On equal keys the OLD block is emitted first (relation is computed as compare(new, old) and only
   `new before old` takes the new block). *)
Section Values.
  Variable V : Type.
  Variable dflt : V.
  Fixpoint addValues (old : list idx) : list idx -> list V -> list V -> list V :=
    fix add_new (new : list idx) (vals newvals : list V) : list V :=
      match old, new with
      | [], _ => newvals
      | _, [] => vals
      | o :: old', n :: new' =>
          match cmp n o with
          | ABeforeB => hd dflt newvals :: add_new new' vals (tl newvals)
          | _ => hd dflt vals :: addValues old' new (tl vals) newvals
          end
      end.

  (* association list view: value stored for index p *)
  Fixpoint lookup (s : list idx) (vals : list V) (p : idx) : option V :=
    match s, vals with
    | q :: s', v :: vals' => match cmp p q with ASameB => Some v | _ => lookup s' vals' p end
    | _, _ => None
    end.
End Values.

(* MultiIndexSet::getSlot: binary search with the code's index arithmetic (C `int` division truncates) *)
Fixpoint slot_loop (fuel : nat) (s : list idx) (p : idx) (sstart send : Z) : Z :=
  match fuel with
  | O => -1
  | S fuel' =>
      if sstart <=? send then
        let current := Z.quot (sstart + send) 2 in
        match cmp (nth (Z.to_nat current) s []) p with
        | ABeforeB => slot_loop fuel' s p (current + 1) send
        | BBeforeA => slot_loop fuel' s p sstart (current - 1)
        | ASameB => current
        end
      else -1
  end.
Definition getSlot (s : list idx) (p : idx) : Z := slot_loop (S (length s)) s p 0 (Z.of_nat (length s) - 1).

(* MultiIndexSet(Data2D): sort + unique (insertion sort is extensionally the same as std::sort+unique) *)
Fixpoint insert (x : idx) (s : list idx) : list idx :=
  match s with
  | [] => [x]
  | y :: s' => match cmp x y with
               | ABeforeB => x :: s
               | ASameB => s
               | BBeforeA => y :: insert x s'
               end
  end.
Definition sort_unique (l : list idx) : list idx := fold_right insert [] l.

(* MultiIndexSet::removeIndex *)
Fixpoint removeIndex (p : idx) (s : list idx) : list idx :=
  match s with
  | [] => []
  | q :: s' => match cmp p q with ASameB => s' | _ => q :: removeIndex p s' end
  end.

Definition mem (p : idx) (s : list idx) : bool :=
  existsb (fun q => match cmp p q with ASameB => true | _ => false end) s.
