(* Lower multi-index sets with level limits (M-E, the part used by C08):
   - the breadth-first generation of MultiIndexManipulations::repeatAddIndexes / generateLowerMultiIndexSet
     (children of the current layer that satisfy the criterion), generic in the criterion
   - the level-type criterion of selectLowerSet with level limits (-1 = unrestricted)
   - the "all admissible indexes are present" test isLimitsBoxFull and the growth loop of setAnisotropicRefinement.
   No proofs here. *)
From TV Require Import Common.Prelude Model.IndexSets Model.Selection.
Local Open Scope Z_scope.

Definition zero_index (d : nat) : idx := repeat 0 d.

(* children of p: p + e_dir for every direction *)
Definition children (p : idx) : list idx :=
  map (fun dir => set_nth p dir (nth dir p 0 + 1)) (seq 0 (length p)).

Definition next_layer (inside : idx -> bool) (layer : list idx) : list idx :=
  sort_unique (filter inside (flat_map children layer)).

Fixpoint layers (fuel : nat) (inside : idx -> bool) (layer : list idx) : list (list idx) :=
  match fuel with
  | O => [layer]
  | S f => match next_layer inside layer with
           | [] => [layer]
           | nl => layer :: layers f inside nl
           end
  end.

(* generateLowerMultiIndexSet: union of the layers starting from the zero index *)
Definition grow (fuel : nat) (d : nat) (inside : idx -> bool) : list idx :=
  fold_right merge [] (layers fuel inside [zero_index d]).

(* level limits: empty = none; entry -1 = unrestricted dimension *)
Fixpoint within_limits (limits : list Z) (t : idx) : bool :=
  match limits, t with
  | l :: ls, x :: xs => ((l =? -1) || (x <=? l)) && within_limits ls xs
  | _, _ => true
  end.

Fixpoint dot (w t : list Z) : Z :=
  match w, t with a :: w', x :: t' => a * x + dot w' t' | _, _ => 0 end.

(* the criterion of selectLowerSet<check_limits> for the contour type_level (weights w, normalized offset off) *)
Definition level_inside (w : list Z) (off : Z) (limits : list Z) (t : idx) : bool :=
  within_limits limits t && (dot w t <=? off).

Definition select_level (d : nat) (w : list Z) (off : Z) (limits : list Z) : list idx :=
  grow (Z.to_nat off + 1) d (level_inside w off limits).

(* isLimitsBoxFull: every dimension limited and every index of the box present *)
Definition box_size (limits : list Z) : Z := fold_right (fun l a => (l + 1) * a) 1 limits.
Definition limits_box_full (limits : list Z) (s : list idx) : bool :=
  match limits with
  | [] => false
  | _ => forallb (fun l => 0 <=? l) limits &&
         (box_size limits <=? Z.of_nat (length (filter (within_limits limits) s)))
  end.

(* the growth loop of setAnisotropicRefinement (after the repair): depth 1, 2, ... until min_growth new indexes are
   found or the limits are exhausted.  [select k] is the tensor/point selection at depth k. *)
Section Growth.
  Variable select : nat -> list idx.
  Variable pts : list idx.
  Variable limits : list Z.
  Variable min_growth : nat.

  Definition needed_at (k : nat) : list idx := diff (select k) pts.

  Fixpoint growth_loop (fuel k : nat) : option (nat * list idx) :=
    match fuel with
    | O => None                      (* the C++ loop would still be running *)
    | S f => let nd := needed_at k in
             if (min_growth <=? length nd)%nat || limits_box_full limits (merge pts nd)
             then Some (k, nd) else growth_loop f (S k)
    end.
End Growth.
