(* Executable model of dynamic construction (M-H `Construct`, C09) and of the output-range split of copies (C11).
   No proofs here.

   Written after
     TasmanianSparseGrid::loadConstructedPoints          (numx == 1 -> single-point entry, else batch entry)
     GridSequence / GridLocalPolynomial ::loadConstructedPoint(x, y), ::loadConstructedPoint(x, numx, y), ::loadConstructedPoints()
     GridWavelet::loadConstructedPoint                   (the single-point entry forwards to the batch entry)
     SimpleConstructData (parking list `data`, extractValues)
     MultiIndexManipulations::getLargestCompletion / isLowerComplete / addExclusiveChildren
     HierarchyManipulations::getLargestConnected / touchAllImmediateRelatives, WaveManipulations::getLargestConnected
     DynamicConstructorDataGlobal (addNewNode, addTensor, clearTesnors, ejectCompleteTensor), GridGlobal / GridFourier
     ::loadConstructedPoint(s), ::loadConstructedTensors, ::getCandidateConstructionPoints
     spltVector2D / Data2D::splitData / StorageSet::splitValues / restrictData.

   The state keeps, per point, ONE value block of type V (all outputs of the point).  The loaded part is an
   association list in loading order (the implementation keeps it sorted by index; the comparison with the
   implementation is on sets of (index, value block)). *)
From TV Require Import Common.Prelude Model.IndexSets Model.RuleLocal Model.Selection Model.Hier Model.LocalGrid.
Local Open Scope Z_scope.

(* ------------------------------------------------------------------------------------------------------------ *)
(* 1. The generic parking / promotion machine                                                                    *)
(* ------------------------------------------------------------------------------------------------------------ *)
Section Construct.
  Variable V : Type.
  (* admissibility of index p with respect to the set S of loaded indexes:
       adm1 = the test of the single-point entry   (isLowerComplete / touchAllImmediateRelatives || level 0)
       admB = the test of one sweep of the batch completion (getLargestCompletion / getLargestConnected) *)
  Variable adm1 admB : list idx -> idx -> bool.

  Definition sample : Type := (idx * V)%type.
  Record cstate := mkcs { loaded : list sample; parked : list sample }.
  Definition keys (l : list sample) : list idx := map fst l.

  (* getLargestCompletion / getLargestConnected + extractValues: sweep the parked samples, move every sample that is
     admissible w.r.t. the current loaded set, repeat until a sweep moves nothing.  fuel = number of parked samples
     (every productive sweep removes at least one). *)
  Fixpoint completion (fuel : nat) (ld pk : list sample) : cstate :=
    match fuel with
    | O => mkcs ld pk
    | S f =>
        match filter (fun s => admB (keys ld) (fst s)) pk with
        | [] => mkcs ld pk
        | mv => completion f (ld ++ mv) (filter (fun s => negb (admB (keys ld) (fst s))) pk)
        end
    end.
  Definition largest_completion (st : cstate) : cstate := completion (length (parked st)) (loaded st) (parked st).

  (* loadConstructedPoint(x, numx, y): push_front every sample, then the completion pass *)
  Definition deliver (st : cstate) (batch : list sample) : cstate :=
    largest_completion (mkcs (loaded st) (rev batch ++ parked st)).

  (* loadConstructedPoint(x, y): admissible -> expandGrid + completion pass over the parked samples; else park *)
  Definition deliver_one (st : cstate) (s : sample) : cstate :=
    if adm1 (keys (loaded st)) (fst s)
    then largest_completion (mkcs (loaded st ++ [s]) (parked st))
    else mkcs (loaded st) (s :: parked st).

  (* TasmanianSparseGrid::loadConstructedPoints: numx == 1 selects the single-point entry *)
  Definition api_deliver (st : cstate) (batch : list sample) : cstate :=
    match batch with
    | [s] => deliver_one st s
    | _ => deliver st batch
    end.
  Definition run (st : cstate) (hist : list (list sample)) : cstate := fold_left api_deliver hist st.

  (* finishConstruction: dynamic_values.reset() - whatever is still parked is discarded *)
  Definition finish (st : cstate) : cstate := mkcs (loaded st) [].

  (* the initial points of a grid that starts construction empty: delivered points are removed from the list *)
  Definition initial_after (init : list idx) (hist : list (list sample)) : list idx :=
    filter (fun p => negb (memb p (keys (concat hist)))) init.
End Construct.

Arguments mkcs {V}. Arguments loaded {V}. Arguments parked {V}. Arguments keys {V}.

(* ------------------------------------------------------------------------------------------------------------ *)
(* 2. Admissibility predicates of the families                                                                   *)
(* ------------------------------------------------------------------------------------------------------------ *)

(* Sequence points, Global / Fourier tensors: isLowerComplete(p, S) - every p - e_dir (p_dir > 0) is in S.
   (For the empty S only the zero index passes, as in getLargestCompletion.) *)
Definition lower_adm (S : list idx) (p : idx) : bool :=
  forallb (fun dir => let x := nth dir p 0 in (x <=? 0) || memb (set_nth p dir (x - 1)) S) (seq 0 (length p)).

(* Local Polynomial / Wavelet: connected to a present relative, or a root.  rel = one-dimensional relatives of a
   point (parent, step-parent, kids), root = "sits on level zero". *)
Section Connected.
  Variable rel : Z -> list Z.
  Variable root : idx -> bool.

  (* touchAllImmediateRelatives(p, points): some relative OF p is present *)
  Definition conn_adm1 (S : list idx) (p : idx) : bool :=
    root p || existsb (fun dir => existsb (fun q => memb (set_nth p dir q) S) (rel (nth dir p 0))) (seq 0 (length p)).

  (* one sweep of getLargestConnected: p is a relative of some present point t *)
  Definition conn_admB (S : list idx) (p : idx) : bool :=
    root p || existsb (fun t => existsb (fun dir => existsb (fun q => idx_eqb (set_nth t dir q) p) (rel (nth dir t 0)))
                                        (seq 0 (length t))) S.
End Connected.

Definition local_rel (r : erule) (k : Z) : list Z :=
  filter (fun q => negb (q =? -1))
         (map (getKid r k) (kid_numbers r) ++ [getParent r k; getStepParent r k]).
Definition local_root (r : erule) (p : idx) : bool := levelsum r p =? 0.

(* RuleWavelet::getChildren / getParent / getNumPoints(0); order is 1 or 3 *)
Definition wave_num0 (order : Z) : Z := if order =? 1 then 3 else 5.
Definition wave_children (order k : Z) : list Z :=
  if order =? 1 then
    (if 3 <=? k then [2 * k - 1; 2 * k] else if k <? 2 then [3; if k =? 0 then 4 else -1] else [4; -1])
  else
    (if 3 <=? k then [2 * k - 1; 2 * k] else if k =? 0 then [6; 7] else if k =? 1 then [5; -1] else [8; -1]).
Definition wave_parent (order k : Z) : Z :=
  if order =? 1 then (if k <=? 2 then -1 else if k <=? 4 then -2 else Z.quot (k + 1) 2)
  else (if k <=? 4 then -1 else if k <=? 8 then -2 else Z.quot (k + 1) 2).
Definition wave_rel (order k : Z) : list Z :=
  filter (fun q => -1 <? q)
         (wave_children order k ++
          (if wave_parent order k =? -2 then map Z.of_nat (seq 0 (Z.to_nat (wave_num0 order))) else [wave_parent order k])).
Definition wave_root (order : Z) (p : idx) : bool := forallb (fun k => k <? wave_num0 order) p.

(* ------------------------------------------------------------------------------------------------------------ *)
(* 3. Candidate generation                                                                                       *)
(* ------------------------------------------------------------------------------------------------------------ *)

(* the level-limit test of addExclusiveChildren<true> for the child coordinate k in direction dir *)
Definition child_limit_ok (limits : list Z) (dir : nat) (k : Z) : bool :=
  match limits with
  | [] => true
  | _ => let l := nth dir limits (-1) in (l =? -1) || (k <=? l)
  end.

(* addExclusiveChildren(tensors = pts, exclude, level_limits) followed by the sorting constructor *)
Definition exclusive_children (pts excl : list idx) (limits : list Z) : list idx :=
  sort_unique
    (flat_map (fun t =>
       flat_map (fun dir =>
                   let k := nth dir t 0 + 1 in
                   let kid := set_nth t dir k in
                   if negb (memb kid excl) && negb (memb kid pts) && lower_adm pts kid && child_limit_ok limits dir k
                   then [kid] else [])
                (seq 0 (length t)))
       pts).

(* GridSequence::getCandidateConstructionPoints as a SET: the remaining initial points and the exclusive children
   of the loaded points (the order - by weight - is not modelled) *)
Definition seq_candidates (pts initial : list idx) (limits : list Z) : list idx :=
  initial ++ exclusive_children pts initial limits.

(* GridLocalPolynomial / GridWavelet::getCandidateConstructionPoints as a SET: remaining initial points and the
   refinement candidates rc (oracle: they depend on the surpluses) that are not initial points *)
Definition local_candidates (rc initial : list idx) : list idx :=
  initial ++ filter (fun p => negb (memb p initial)) rc.

(* ------------------------------------------------------------------------------------------------------------ *)
(* 4. Global / Fourier grids: samples are parked until the surplus points of a whole tensor are present          *)
(* ------------------------------------------------------------------------------------------------------------ *)
Section Tensors.
  Variable V : Type.
  Variable npts : Z -> Z.            (* number of points of the nested 1-D rule up to level l (l >= 0) *)
  Variable maxlevel : nat.
  (* GridGlobal/GridFourier::loadConstructedPoint(x, y) after a tensor_missing result:
       false = the code as it stands (the tensor is registered and nothing else happens)
       true  = the repaired code (registration is followed by loadConstructedTensors) *)
  Variable eject_on_missing : bool.
  (* DynamicConstructorDataGlobal::clearTesnors (called by every candidate request):
       false = the code as it stands (every registered tensor of non-negative weight is dropped, also those that hold samples)
       true  = the repaired code (a tensor that holds delivered samples stays registered) *)
  Variable keep_sampled : bool.

  (* wrapper.getLevels: level of a 1-D point = first l with point < npts l *)
  Fixpoint level1_from (fuel : nat) (l : Z) (k : Z) : Z :=
    match fuel with
    | O => l
    | S f => if k <? npts l then l else level1_from f (l + 1) k
    end.
  Definition tensor_of (p : idx) : idx := map (level1_from maxlevel 0) p.

  (* generateNestedPoints({t}): the surplus (delta) points of tensor t *)
  Definition delta1 (l : Z) : list Z :=
    let lo := if 0 <? l then npts (l - 1) else 0 in
    map (fun i => lo + Z.of_nat i) (seq 0 (Z.to_nat (npts l - lo))).
  Fixpoint tensor_points (t : idx) : list idx :=
    match t with
    | [] => [[]]
    | l :: t' => flat_map (fun k => map (cons k) (tensor_points t')) (delta1 l)
    end.

  Record gstate := mkg {
    gtensors : list idx;              (* GridGlobal::tensors *)
    gpoints : list (idx * V);         (* points + values *)
    gdata : list (idx * V);           (* dynamic_values->data *)
    ginit : list idx;                 (* registered tensors with negative weight (initial grid), not yet ejected *)
    greg : list idx                   (* the other registered tensors *)
  }.

  Definition registered (st : gstate) (t : idx) : bool := memb t (ginit st) || memb t (greg st).
  (* TensorData::loaded all true <-> every surplus point of t is in the parking list *)
  Definition tcomplete (data : list (idx * V)) (t : idx) : bool :=
    forallb (fun p => memb p (map fst data)) (tensor_points t).

  (* ejectCompleteTensor + loadConstructedTensors *)
  Definition eject (st : gstate) : gstate :=
    let cands := filter (tcomplete (gdata st)) (ginit st ++ greg st) in
    let c := largest_completion unit lower_adm
               (mkcs (map (fun t => (t, tt)) (gtensors st)) (map (fun t => (t, tt)) cands)) in
    let newt := skipn (length (gtensors st)) (keys (loaded c)) in
    let moved := fun (s : idx * V) => memb (tensor_of (fst s)) newt in
    mkg (gtensors st ++ newt)
        (gpoints st ++ filter moved (gdata st))
        (filter (fun s => negb (moved s)) (gdata st))
        (filter (fun t => negb (memb t newt)) (ginit st))
        (filter (fun t => negb (memb t newt)) (greg st)).

  (* addNewNode (+ addTensor on tensor_missing); returns the new state and whether THIS node completed a registered tensor *)
  Definition add_node (st : gstate) (s : idx * V) : gstate * bool * bool :=
    let t := tensor_of (fst s) in
    let data' := s :: gdata st in
    if registered st t
    then (mkg (gtensors st) (gpoints st) data' (ginit st) (greg st), tcomplete data' t, false)
    else (mkg (gtensors st) (gpoints st) data' (ginit st) (t :: greg st), false, true).

  Definition g_deliver_one (st : gstate) (s : idx * V) : gstate :=
    match add_node st s with
    | (st', complete, missing) =>
        if complete then eject st'
        else if missing && eject_on_missing then eject st'
        else st'
    end.
  Definition g_deliver (st : gstate) (batch : list (idx * V)) : gstate :=
    eject (fold_left (fun a s => fst (fst (add_node a s))) batch st).
  Definition g_api_deliver (st : gstate) (batch : list (idx * V)) : gstate :=
    match batch with [s] => g_deliver_one st s | _ => g_deliver st batch end.

  (* getCandidateConstructionPoints: clearTesnors (drops the registered tensors of non-negative weight), then registers
     the exclusive children of the loaded tensors (addTensor skips a tensor that is still registered); the candidate points (as a set) are the surplus points, not yet
     delivered, of the registered tensors that are not complete *)
  Definition has_sample (data : list (idx * V)) (t : idx) : bool :=
    existsb (fun p => memb p (map fst data)) (tensor_points t).
  Definition g_candidates_step (st : gstate) (limits : list Z) : gstate :=
    let kept := if keep_sampled then filter (has_sample (gdata st)) (greg st) else [] in
    mkg (gtensors st) (gpoints st) (gdata st) (ginit st)
        (kept ++ filter (fun t => negb (memb t kept)) (exclusive_children (gtensors st) (ginit st) limits)).
  Definition g_candidate_points (st : gstate) : list idx :=
    flat_map (fun t => if tcomplete (gdata st) t then []
                       else filter (fun p => negb (memb p (map fst (gdata st)))) (tensor_points t))
             (ginit st ++ greg st).

  Inductive gop := GDeliver (batch : list (idx * V)) | GCand (limits : list Z).
  Definition g_step (st : gstate) (o : gop) : gstate :=
    match o with GDeliver b => g_api_deliver st b | GCand l => g_candidates_step st l end.
  Definition g_run (st : gstate) (ops : list gop) : gstate := fold_left g_step ops st.
End Tensors.

Arguments mkg {V}. Arguments gtensors {V}. Arguments gpoints {V}. Arguments gdata {V}. Arguments ginit {V}. Arguments greg {V}.
Arguments GDeliver {V}. Arguments GCand {V}.

(* ------------------------------------------------------------------------------------------------------------ *)
(* 5. C11: the output-range split of a strip-organised array (spltVector2D, Data2D::splitData, splitValues)      *)
(* ------------------------------------------------------------------------------------------------------------ *)
Section Split.
  Variable T : Type.
  (* x is organised in strips of length stride; from every strip keep the entries ibegin .. iend-1.
     The number of strips is length x / stride (integer division), as in the code. *)
  Fixpoint split_strips (nstrips : nat) (x : list T) (stride ibegin len : nat) : list T :=
    match nstrips with
    | O => []
    | S n => firstn len (skipn ibegin x) ++ split_strips n (skipn stride x) stride ibegin len
    end.
  Definition split2D (x : list T) (stride ibegin iend : nat) : list T :=
    split_strips (length x / stride) x stride ibegin (iend - ibegin).

  (* restrictData: the value block of every parked sample is cut to the range *)
  Definition restrict_block (v : list T) (ibegin iend : nat) : list T := firstn (iend - ibegin) (skipn ibegin v).
  Definition restrict_data (data : list (idx * list T)) (ibegin iend : nat) : list (idx * list T) :=
    map (fun s => (fst s, restrict_block (snd s) ibegin iend)) data.
End Split.
