(* The point set of makeLocalPolynomialGrid(dims, outs, depth, order, rule) for ANY number of dimensions:
   MultiIndexManipulations::selectTensors (type_level, unit weights) keeps the level vectors with sum <= depth and
   generateNestedPoints takes, for each of them, the points 0 .. getNumPoints(level)-1 in every direction.  The union is
   the set of multi-indexes p with sum_k getLevel(p_k) <= depth, produced here in lexicographic order (the order of the
   sorted MultiIndexSet).  Executable, structurally recursive in the dimension.  No proofs in this file. *)
From TV Require Import Common.Prelude Model.IndexSets Model.RuleLocal Model.LocalGrid.
Local Open Scope Z_scope.

(* the one-dimensional points of the levels 0 .. depth, increasing *)
Definition pts1d (r : erule) (depth : Z) : list Z :=
  map Z.of_nat (seq 0 (Z.to_nat (getNumPoints r depth))).

(* first coordinate a of level <= depth, then the (d-1)-dimensional grid of the remaining budget *)
Fixpoint std_grid (r : erule) (d : nat) (depth : Z) : list idx :=
  match d with
  | O => [[]]
  | S d' => flat_map (fun a => map (cons a) (std_grid r d' (depth - getLevel r a)))
                     (filter (fun a => getLevel r a <=? depth) (pts1d r depth))
  end.
