(* The point set of Global / Fourier grids (C01, C07, C08: which points a grid holds; "needed = new points minus loaded").
   Mirrors SparseGrids/tsgIndexManipulator.cpp
     generateNestedPoints(tensors, getNumPoints): for every tensor t the DELTA block
         { p : offset_j <= p_j < n(t_j) },  offset_j = n(t_j - 1) for t_j > 0 and 0 otherwise,
       listed by decoding k = 0 .. num_total-1 in the mixed radix num_points_delta (last dimension first: t % .., t /= ..),
       made a MultiIndexSet (sort + unique) and joined by unionSets;
     generateNonNestedPoints(tensors, wrapper): the FULL blocks { 0 <= i_j < n(t_j) } mapped through wrapper.getPointIndex;
   tsgIndexManipulator.hpp createActiveTensors / computeActiveTensorsWeights (tensors with a non-zero weight, the non-zero weights),
   getMaxIndexes, computeLevels;  tsgGridGlobal.cpp / tsgGridFourier.cpp  proposeUpdatedTensors:
     needed = generateNestedPoints(updated_tensors) - points.
   unionSets (a pairwise tree of MultiIndexSet +=) is written as a fold of the sorted merge, as Model/TensorSelect.poly_space does
   (merge is associative and commutative on sorted sets: Proofs/IndexSetsProofs.v).
   NOT modelled: overflow of int / size_t; a point count that does not grow makes num_points_delta <= 0: the C++ casts it to size_t
   (a huge loop or a division by zero), the model lists nothing.  No proofs here. *)
From TV Require Import Common.Prelude Model.IndexSets Model.TensorSelect.
Local Open Scope Z_scope.

(* offsets[j]: getNumPoints(p[j]-1) when p[j] > 0, else 0 *)
Definition offset_of (n : Z -> Z) (l : Z) : Z := if 0 <? l then n (l - 1) else 0.
(* num_points_delta[j] *)
Definition delta_count (n : Z -> Z) (l : Z) : Z := n l - offset_of n l.

(* index[j] = offsets[j] + digit_j *)
Definition add_idx (offs p : list Z) : list Z := map2 Z.add offs p.

(* the raw points of one tensor in the order the loop appends them: k = 0 .. num_total-1 decoded in the mixed radix
   num_points_delta (TensorSelect.full_tensor_decode is this loop without the offsets) *)
Definition delta_raw (n : Z -> Z) (t : idx) : list idx :=
  map (add_idx (map (offset_of n) t)) (full_tensor_decode (map (delta_count n) t)).

(* delta_sets[i] = MultiIndexSet(raw_points): sorted, duplicates removed *)
Definition delta_block (n : Z -> Z) (t : idx) : list idx := sort_unique (delta_raw n t).

(* the same block as the nested product (proved equal for a growing n: NestedPointsProofs.delta_block_product) *)
Definition delta_product (n : Z -> Z) (t : idx) : list idx :=
  map (add_idx (map (offset_of n) t)) (full_tensor (map (delta_count n) t)).

(* generateNestedPoints *)
Definition nested_points (n : Z -> Z) (tensors : list idx) : list idx :=
  fold_right merge [] (map (delta_block n) tensors).

(* the union of the FULL tensor blocks { 0 <= p_j < n(t_j) } *)
Definition full_points (n : Z -> Z) (tensors : list idx) : list idx :=
  fold_right merge [] (map (fun t => full_tensor (map n t)) tensors).

(* generateNonNestedPoints: full blocks, index i of level l mapped through the table getPointIndex(l, i); the C++ fills the block
   from the back so that it is in the order of the nested product; MultiIndexSet(raw_points) sorts *)
Definition nonnested_block (n : Z -> Z) (pindex : Z -> Z -> Z) (t : idx) : list idx :=
  sort_unique (map (fun i => map2 pindex t i) (full_tensor (map n t))).
Definition nonnested_points (n : Z -> Z) (pindex : Z -> Z -> Z) (tensors : list idx) : list idx :=
  fold_right merge [] (map (nonnested_block n pindex) tensors).

(* createActiveTensors(mset, weights) and the active_w of computeActiveTensorsWeights *)
Fixpoint active_tensors (tensors : list idx) (weights : list Z) : list idx :=
  match tensors, weights with
  | t :: ts, w :: ws => if w =? 0 then active_tensors ts ws else t :: active_tensors ts ws
  | _, _ => []
  end.
Definition active_weights (weights : list Z) : list Z := filter (fun w => negb (w =? 0)) weights.

(* getMaxIndexes: starts from zeros *)
Definition max_indexes (d : nat) (tensors : list idx) : list Z :=
  fold_left (fun m t => map2 Z.max m t) tensors (repeat 0 d).
(* computeLevels: the sum of the entries of every index *)
Definition levels (tensors : list idx) : list Z := map (fun t => fold_right Z.add 0 t) tensors.

(* the minimal level of a 1-d point index x: the first l with x < n(l).  n(l) >= l + 1 for a strictly growing n with n(0) >= 1, so
   the search started at 0 ends at the latest at l = x *)
Fixpoint level_search (fuel : nat) (n : Z -> Z) (x l : Z) : Z :=
  match fuel with
  | O => l
  | S f => if x <? n l then l else level_search f n x (l + 1)
  end.
Definition level1 (n : Z -> Z) (x : Z) : Z := level_search (Z.to_nat x) n x 0.
Definition level_of (n : Z -> Z) (p : idx) : idx := map (level1 n) p.

(* proposeUpdatedTensors: needed = generateNestedPoints(updated_tensors) - points ; acceptUpdatedTensors: points += needed *)
Definition needed_points (n : Z -> Z) (updated : list idx) (loaded : list idx) : list idx :=
  diff (nested_points n updated) loaded.
Definition accepted_points (loaded needed : list idx) : list idx := merge loaded needed.
