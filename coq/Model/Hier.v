(* Generic hierarchical (triangular) interpolation over a commutative ring (M-D): the forward pass that
   computes hierarchical surpluses, evaluation of the interpolant, written after
   GridLocalPolynomial::updateSurpluses / GridSequence::recomputeSurpluses:
       s_i = v_i - sum_{j in reach i} B i j * s_j      (nodes processed in a topological order)
   The ring operations are parameters so the same code runs over exact rationals.  No proofs here. *)
From TV Require Import Common.Prelude.

Section Hier.
  Variable R : Type.
  Variables (rO rI : R) (radd rmul rsub : R -> R -> R).
  Variable I : Type.                   (* node index type *)
  Variable ieqb : I -> I -> bool.
  Variable B : I -> I -> R.            (* B i j = basis function j evaluated at the node of i *)
  Variable reach : I -> list I.        (* the ancestors the algorithm visits for node i *)
  Variable v : I -> R.                 (* model values *)

  Fixpoint lookup (x : I) (l : list (I * R)) : R :=
    match l with [] => rO | (y, s) :: r => if ieqb x y then s else lookup x r end.
  Fixpoint sum (l : list I) (f : I -> R) : R :=
    match l with [] => rO | x :: r => radd (f x) (sum r f) end.

  Definition surp1 (acc : list (I * R)) (i : I) : R :=
    rsub (v i) (sum (reach i) (fun j => rmul (B i j) (lookup j acc))).
  Fixpoint forward (acc : list (I * R)) (todo : list I) : list (I * R) :=
    match todo with [] => acc | i :: r => forward ((i, surp1 acc i) :: acc) r end.

  Definition coef (nodes : list I) : list (I * R) := forward [] nodes.

  (* value of the interpolant at a point where basis function j takes the value phi j *)
  Definition interp (nodes : list I) (phi : I -> R) : R :=
    let c := coef nodes in    (* computed once *)
    sum nodes (fun j => rmul (phi j) (lookup j c)).
End Hier.
