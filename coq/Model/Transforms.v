(* Model of the linear domain transforms of TasmanianSparseGrid (SparseGrids/TasmanianSparseGrid.cpp:
   mapCanonicalToTransformed, mapTransformedToCanonical, diffCanonicalTransform, getQuadratureScale,
   getHierarchicalSupport's correction, TasmanianSparseGrid.hpp getDomainInside) over exact rationals.
   No proofs here.  sqrt / pow / exp are parameters (Section variables); the algebraic laws they must obey are
   hypotheses of the theorems and are checked against libm at run time.
   NOT modelled: the conformal asin map, its Newton inverse and mapConformalWeights (run-time checks only). *)
From Coq Require Import QArith Qabs List Bool.
Import ListNotations.
Local Open Scope Q_scope.

(* the four branches of the map switch statements: canonical [-1,1], Fourier [0,1], Gauss-Laguerre [0,inf),
   Gauss-Hermite (-inf,inf) *)
Inductive family := FLinear | FFourier | FLaguerre | FHermite.

(* the branches of getQuadratureScale *)
Inductive qrule := QPlain | QFourier | QCheb1 | QCheb2 | QGegenbauer | QJacobi | QLaguerre | QHermite.

Definition family_of (r : qrule) : family :=
  match r with
  | QFourier => FFourier
  | QLaguerre => FLaguerre
  | QHermite => FHermite
  | _ => FLinear
  end.

Fixpoint zip2 {A B C : Type} (f : A -> B -> C) (l1 : list A) (l2 : list B) : list C :=
  match l1, l2 with
  | a :: r1, b :: r2 => f a b :: zip2 f r1 r2
  | _, _ => []
  end.

Section Maps.
  Variable sqrtq : Q -> Q.

  (* mapCanonicalToTransformed, one coordinate *)
  Definition fwd (f : family) (a b x : Q) : Q :=
    match f with
    | FLaguerre => x / b + a
    | FHermite => x / sqrtq b + a
    | FFourier => x * (b - a) + a
    | FLinear => x * ((1 # 2) * (b - a)) + (1 # 2) * (b + a)
    end.

  (* mapTransformedToCanonical, one coordinate *)
  Definition inv (f : family) (a b y : Q) : Q :=
    match f with
    | FLaguerre => (y - a) * b
    | FHermite => (y - a) * sqrtq b
    | FFourier => (y - a) / (b - a)
    | FLinear => y * (2 / (b - a)) - (b + a) / (b - a)
    end.

  (* diffCanonicalTransform: the diagonal of the Jacobian of the transformed-to-canonical map *)
  Definition jac (f : family) (a b : Q) : Q :=
    match f with
    | FLaguerre => b
    | FHermite => sqrtq b
    | FFourier => 1 / (b - a)
    | FLinear => 2 / (b - a)
    end.

  (* what the property asks of the support correction: the Jacobian of the canonical-to-transformed map *)
  Definition support_scale (f : family) (a b : Q) : Q := / jac f a b.

  (* what getHierarchicalSupport() does: one formula, whatever the rule *)
  Definition support_scale_code (a b : Q) : Q := (1 # 2) * (b - a).

  (* getDomainInside, one coordinate; tr = a domain transform is set *)
  Definition inside1 (f : family) (tr : bool) (a b y : Q) : bool :=
    match f with
    | FHermite => true
    | FLaguerre => Qle_bool (if tr then a else 0) y
    | FFourier => Qle_bool (if tr then a else 0) y && Qle_bool y (if tr then b else 1)
    | FLinear => Qle_bool (if tr then a else - (1)) y && Qle_bool y (if tr then b else 1)
    end.

  (* strips: one point = list of coordinates, the transform = list of (a_j, b_j) *)
  Definition fwd_pt (f : family) (ab : list (Q * Q)) (x : list Q) : list Q :=
    zip2 (fun p xi => fwd f (fst p) (snd p) xi) ab x.
  Definition inv_pt (f : family) (ab : list (Q * Q)) (y : list Q) : list Q :=
    zip2 (fun p yi => inv f (fst p) (snd p) yi) ab y.
  Definition jac_all (f : family) (ab : list (Q * Q)) : list Q :=
    map (fun p => jac f (fst p) (snd p)) ab.
  Definition support_all (f : family) (ab : list (Q * Q)) : list Q :=
    map (fun p => support_scale f (fst p) (snd p)) ab.
  Definition support_code_all (ab : list (Q * Q)) : list Q :=
    map (fun p => support_scale_code (fst p) (snd p)) ab.
  Definition fwd_points f ab (pts : list (list Q)) := map (fwd_pt f ab) pts.
  Definition inv_points f ab (pts : list (list Q)) := map (inv_pt f ab) pts.

  (* the predicate of a grid with a transform (loops over the dimensions of the grid) and of a canonical grid *)
  Definition inside_t (f : family) (ab : list (Q * Q)) (y : list Q) : bool :=
    forallb (fun v => v) (zip2 (fun p yi => inside1 f true (fst p) (snd p) yi) ab y).
  Definition inside_c (f : family) (x : list Q) : bool :=
    forallb (inside1 f false 0 0) x.
End Maps.

Section Scale.
  Variable powq : Q -> Q -> Q.

  Definition eff_alpha (r : qrule) (alpha : Q) : Q :=
    match r with QCheb1 => - (1 # 2) | QCheb2 => 1 # 2 | _ => alpha end.
  Definition eff_beta (r : qrule) (alpha beta : Q) : Q :=
    match r with QCheb1 => - (1 # 2) | QCheb2 => 1 # 2 | QGegenbauer => alpha | _ => beta end.

  (* the factor one dimension contributes in getQuadratureScale *)
  Definition qterm (r : qrule) (alpha beta a b : Q) : Q :=
    match r with
    | QCheb1 | QCheb2 | QGegenbauer | QJacobi =>
        powq ((1 # 2) * (b - a)) (eff_alpha r alpha + eff_beta r alpha beta + 1)
    | QLaguerre => powq b (- (1 + alpha))
    | QHermite => powq b (- (1 # 2) * (1 + alpha))
    | QFourier => b - a
    | QPlain => (b - a) / 2
    end.

  (* getQuadratureScale: scale = 1; for j: scale *= term_j *)
  Definition qscale (r : qrule) (alpha beta : Q) (ab : list (Q * Q)) : Q :=
    fold_left (fun s p => s * qterm r alpha beta (fst p) (snd p)) ab 1.

  (* the documented weight functions (tsgEnumerates.hpp) of the canonical and of the transformed rule;
     expq is a parameter, only its compatibility with == is used *)
  Variable expq : Q -> Q.

  Definition weight_can (r : qrule) (alpha beta x : Q) : Q :=
    match r with
    | QCheb1 | QCheb2 | QGegenbauer | QJacobi =>
        powq (1 - x) (eff_alpha r alpha) * powq (1 + x) (eff_beta r alpha beta)
    | QLaguerre => powq x alpha * expq (- x)
    | QHermite => powq (Qabs x) alpha * expq (- (x * x))
    | _ => 1
    end.

  Definition weight_tr (r : qrule) (alpha beta a b y : Q) : Q :=
    match r with
    | QCheb1 | QCheb2 | QGegenbauer | QJacobi =>
        powq (b - y) (eff_alpha r alpha) * powq (y - a) (eff_beta r alpha beta)
    | QLaguerre => powq (y - a) alpha * expq (- (b * (y - a)))
    | QHermite => powq (Qabs (y - a)) alpha * expq (- (b * ((y - a) * (y - a))))
    | _ => 1
    end.
End Scale.

(* product of a list *)
Definition qprod (l : list Q) : Q := fold_right Qmult 1 l.

(* polynomials as coefficient lists (constant term first): value and formal derivative *)
Fixpoint peval (p : list Q) (x : Q) : Q :=
  match p with [] => 0 | c :: r => c + x * peval r x end.
Fixpoint pderiv_aux (p : list Q) (k : Q) : list Q :=
  match p with [] => [] | c :: r => k * c :: pderiv_aux r (k + 1) end.
Definition pderiv (p : list Q) : list Q :=
  match p with [] => [] | _ :: r => pderiv_aux r 1 end.
