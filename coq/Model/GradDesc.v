(* Executable model of DREAM/Optimization/tsgGradientDescent.cpp (C19).

   The model is generic in the number type R and its operations, so that
   - the structural theorems (iteration cap, "state is the last accepted iterate", origin of the
     state, prefix-monotonicity in the cap) hold for ANY arithmetic, in particular for IEEE
     binary64, which is the instance the extracted runner is executed with (OCaml floats) when it
     is compared bit-for-bit with the C++ code;
   - the order theorems (objective not worse than at the start, monotone in the cap) are proved
     for R = Q (Proofs/GradDescProofs.v).
   Callbacks are arbitrary functions.  No proofs in this file. *)
From TV Require Import Common.Prelude.

Section GradDesc.
  Variable R : Type.
  Variables (zero one two numtol : R).
  Variables (add sub mul div : R -> R -> R) (sqrt : R -> R).
  Variable gtb : R -> R -> bool.                       (* gtb a b  <->  a > b *)
  Variable f : list R -> R.                            (* objective *)
  Variables (grad proj : list R -> list R).            (* gradient, projection *)
  Variables (inc dec tol : R).                         (* increase_coeff, decrease_coeff, tolerance *)

  Inductive call := CallF (x : list R) | CallG (x : list R) | CallP (x : list R).

  Record gd := mkgd {
    x0 : list R; fx0 : R; gx0 : list R;               (* the C++ locals x0, fx0, gx0 *)
    cur : list R; fcur : R; gcur : list R;            (* state.x, fx, gx *)
    step : R;                                          (* state.adaptive_stepsize *)
    iters : nat; resid : R;                            (* status *)
    trace : list call;                                 (* callback invocations, in order *)
    accepted : list (list R)                           (* iterates that passed the descent test *)
  }.

  (* computeStationarityResidual *)
  Fixpoint resid_sum (acc lam : R) (x x0 gx gx0 : list R) : R :=
    match x, x0, gx, gx0 with
    | a :: x', b :: x0', c :: gx', d :: gx0' =>
        let s := sub (add (div (sub b a) lam) c) d in
        resid_sum (add acc (mul s s)) lam x' x0' gx' gx0'
    | _, _, _, _ => acc
    end.
  Definition residual (x x0 gx gx0 : list R) (lam : R) : R := sqrt (resid_sum zero lam x x0 gx gx0).

  (* the loop computing lhs and rhs of the descent inequality *)
  Fixpoint descent_sums (lhs rhs : R) (xs x0 gx0 : list R) (s : R) : R * R :=
    match xs, x0, gx0 with
    | a :: xs', b :: x0', g :: gx0' =>
        let delta := sub a b in
        descent_sums (sub lhs (mul g delta)) (add rhs (div (mul delta delta) (mul two s))) xs' x0' gx0' s
    | _, _, _ => (lhs, rhs)
    end.

  Definition trial_point (x0 gx0 : list R) (s : R) : list R := map2 (fun a g => sub a (mul g s)) x0 gx0.

  (* top of the outer while loop: the three swaps and the optimistic step increase *)
  Definition begin_outer (st : gd) : gd :=
    mkgd (cur st) (fcur st) (gcur st) (x0 st) (fx0 st) (gx0 st)
         (mul (step st) inc) (iters st) (resid st) (trace st) (accepted st).

  (* early return from inside the line search: the iterate swapped away at the top of the outer
     loop is swapped back (this is the code after the `fix:` commit) *)
  Definition restore (st : gd) : gd :=
    mkgd (cur st) (fx0 st) (gx0 st) (x0 st) (fcur st) (gcur st)
         (step st) (iters st) (resid st) (trace st) (accepted st).

  (* k = max_iterations - performed_iterations; one recursion step = one pass of the do-while body.
     The boolean is true when the function returned from inside the line search. *)
  Fixpoint attempts (k : nat) (st : gd) : gd * bool :=
    match k with
    | O => (restore st, true)
    | S k' =>
        let z0 := trial_point (x0 st) (gx0 st) (step st) in
        let xs := proj z0 in
        let fxs := f xs in
        let '(lhs, rhs) := descent_sums (add zero (sub fxs (fx0 st))) zero xs (x0 st) (gx0 st) (step st) in
        let step' := div (step st) dec in
        let tr := trace st ++ [CallP z0; CallF xs] in
        if gtb lhs (add rhs numtol) then
          attempts k' (mkgd (x0 st) (fx0 st) (gx0 st) (cur st) (fcur st) (gcur st)
                            step' (S (iters st)) (resid st) tr (accepted st))
        else
          let step2 := mul step' dec in
          let g := grad xs in
          let r := residual xs (x0 st) g (gx0 st) step2 in
          let st2 := mkgd (x0 st) (fx0 st) (gx0 st) xs fxs g step2 (S (iters st)) r
                          (tr ++ [CallG xs]) (accepted st ++ [xs]) in
          if gtb r tol then
            match k' with
            | O => (st2, false)
            | S _ => attempts k' (begin_outer st2)
            end
          else (st2, false)
    end.

  Definition init (xinit : list R) (step0 : R) : gd :=
    mkgd xinit zero (map (fun _ => zero) xinit) xinit (f xinit) (grad xinit)
         (div step0 inc) O (add tol one) [CallF xinit; CallG xinit] [].

  Definition run (max_iterations : Z) (xinit : list R) (step0 : R) : gd * bool :=
    let st0 := init xinit step0 in
    if gtb (resid st0) tol then
      match Z.to_nat max_iterations with
      | O => (st0, false)
      | S k => attempts (S k) (begin_outer st0)
      end
    else (st0, false).

  Definition count_f (tr : list call) : nat :=
    length (filter (fun c => match c with CallF _ => true | _ => false end) tr).

  (* ---- constant step-size variant ---- *)
  Fixpoint sumsq (acc : R) (g : list R) : R :=
    match g with [] => acc | a :: r => sumsq (add acc (mul a a)) r end.
  Definition grad_norm (g : list R) : R := sqrt (sumsq zero g).

  Record cs := mkcs { cx : list R; cg : list R; citers : nat; cres : R; cgrads : list (list R) }.

  Definition cs_step (stepsize : R) (s : cs) : cs :=
    let x' := map2 (fun a g => sub a (mul g stepsize)) (cx s) (cg s) in
    let g' := grad x' in
    mkcs x' g' (S (citers s)) (grad_norm g') (cgrads s ++ [x']).

  Fixpoint cs_loop (stepsize : R) (k : nat) (s : cs) : cs :=
    if gtb (cres s) tol then
      match k with
      | O => s
      | S k' => cs_loop stepsize k' (cs_step stepsize s)
      end
    else s.

  Definition cs_init (xinit : list R) : cs := mkcs xinit (grad xinit) O (add tol one) [xinit].

  Definition run_const (stepsize : R) (max_iterations : Z) (xinit : list R) : cs :=
    cs_loop stepsize (Z.to_nat max_iterations) (cs_init xinit).
End GradDesc.

Arguments mkgd {R}.
Arguments CallF {R}. Arguments CallG {R}. Arguments CallP {R}.
