(* Executable model of the evaluation tree of Local Polynomial grids (C04, "tree walk" anchor):
     HierarchyManipulations::computeDAGDown / computeLevels   (SparseGrids/tsgHierarchyManipulator.cpp)
     GridLocalPolynomial::buildTree                           (SparseGrids/tsgGridLocalPolynomial.cpp)
     GridLocalPolynomial::evalBasisSupported, walkTree<0/1>   (SparseGrids/tsgGridLocalPolynomial.hpp)
   Points are identified by their position (nat) in the multi-index set [pts] (`work` in the C++).
   MultiIndexSet::getSlot is modelled by its specification on a duplicate-free set: the position of the index, -1 (None)
   when absent.  The 2-d `tree` table + monkey_count/monkey_tail stacks of buildTree are modelled by the depth-first
   recursion they implement, producing the forest as rose trees whose children are in the order of the C++ strip
   (direction-major, kid number minor); [forest_arrays] converts to the C++ (roots, pntr, indx).
   No proofs in this file. *)
From TV Require Import Common.Prelude Model.IndexSets Model.RuleLocal Model.Selection Model.LocalGrid.
From Coq Require Import QArith.
Local Open Scope Z_scope.

Inductive tree := Node : nat -> list tree -> tree.
Definition root (t : tree) : nat := match t with Node i _ => i end.
Definition subtrees (t : tree) : list tree := match t with Node _ ts => ts end.
(* points of a tree, in depth-first (first visit) order *)
Fixpoint nodes (t : tree) : list nat := match t with Node i ts => i :: flat_map nodes ts end.
(* (point, its tree kids in C++ order) for every point of the tree *)
Fixpoint table (t : tree) : list (nat * list nat) := match t with Node i ts => (i, map root ts) :: flat_map table ts end.

(* MultiIndexSet::getSlot on a duplicate-free set *)
Fixpoint slot (p : idx) (pts : list idx) : option nat :=
  match pts with
  | [] => None
  | q :: rest => if idx_eqb p q then Some O else match slot p rest with Some i => Some (S i) | None => None end
  end.

(* free[i] = false *)
Fixpoint clear_at (free : list bool) (i : nat) : list bool :=
  match free, i with
  | [], _ => []
  | _ :: f, O => false :: f
  | b :: f, S i' => b :: clear_at f i'
  end.

(* the depth-first descent over the kid strip of one point; [rec] is the descent into a kid (one stack level deeper) *)
Section VisitKids.
  Variable rec : list bool -> nat -> list bool * tree * bool.
  Fixpoint visit_kids (l : list (option nat)) (free : list bool) : list bool * list tree * bool :=
    match l with
    | [] => (free, [], true)                                   (* monkey_count[current] == max_kids: done with all kids here *)
    | None :: l' => visit_kids l' free                         (* kid == -1: keep counting *)
    | Some c :: l' =>
        if nth c free false then                               (* tree[tail][count] = kid; free[kid] = false; descend *)
          let '(free1, t, ok1) := rec (clear_at free c) c in
          let '(free2, ts, ok2) := visit_kids l' free1 in
          (free2, t :: ts, ok1 && ok2)
        else visit_kids l' free                                (* !free[kid]: keep counting *)
    end.
End VisitKids.

(* one stack level of the monkey loop; the flag is false when the fuel ran out (never, see visit_fuel_ok) *)
Fixpoint visit (fuel : nat) (kids : list (list (option nat))) (free : list bool) (node : nat) : list bool * tree * bool :=
  match fuel with
  | O => (free, Node node [], false)
  | S f => let '(free', ts, ok) := visit_kids (visit f kids) (nth node kids []) free in (free', Node node ts, ok)
  end.

(* for(i<num_points) if (free[i] && (level[i] < next_level)){ next_root = i; next_level = level[i]; } *)
Fixpoint scan_root (i : nat) (lv : list Z) (fr : list bool) (next_root : option nat) (next_level : Z) : option nat :=
  match lv, fr with
  | l :: lv', f :: fr' => if f && (l <? next_level) then scan_root (S i) lv' fr' (Some i) l
                          else scan_root (S i) lv' fr' next_root next_level
  | _, _ => next_root
  end.

(* while(next_root != -1){ roots.push_back(next_root); free[next_root] = false; <descent>; <scan> } *)
Fixpoint roots_loop (fuel inner : nat) (kids : list (list (option nat))) (lv : list Z) (top1 : Z)
         (free : list bool) (next_root : nat) : list tree * bool :=
  match fuel with
  | O => ([], false)
  | S f =>
      let '(free1, t, ok) := visit inner kids (clear_at free next_root) next_root in
      match scan_root 0 lv free1 None top1 with
      | None => ([t], ok)
      | Some r' => let '(ts, ok') := roots_loop f inner kids lv top1 free1 r' in (t :: ts, ok && ok')
      end
  end.

Section TreeWalk.
  Variable r : erule.
  Variable order : Z.

  (* computeDAGDown: one strip per point; for each direction j, for each kid number k: the slot of the kid or -1 *)
  Definition kids_row (pts : list idx) (pt : idx) : list (option nat) :=
    flat_map (fun dir => map (fun k => let c := getKid r (nth dir pt 0) k in
                                       if c =? -1 then None else slot (set_nth pt dir c) pts)
                             (kid_numbers r))
             (seq 0 (length pt)).
  Definition dag_down (pts : list idx) : list (list (option nat)) := map (kids_row pts) pts.

  (* computeLevels (sum of the 1-d levels) and top_level = max *)
  Definition levels (pts : list idx) : list Z := map (levelsum r) pts.
  Definition top_level (lv : list Z) : Z := fold_left Z.max lv (hd 0 lv).

  (* buildTree: (forest, fuel-not-exhausted).  The first root is point 0 ("zero is always a root"), the next ones the
     still-free point of the lowest level (first index among equals). *)
  Definition build_forest (pts : list idx) : list tree * bool :=
    match pts with
    | [] => ([], true)                      (* an empty set never reaches buildTree *)
    | _ => let n := length pts in let lv := levels pts in
           roots_loop n n (dag_down pts) lv (top_level lv + 1) (repeat true n) 0
    end.

  (* conversion of the 2-d tree table to (roots, pntr, indx) *)
  Definition tree_kids (forest : list tree) (i : nat) : list nat :=
    match find (fun e => Nat.eqb (fst e) i) (flat_map table forest) with Some e => snd e | None => [] end.
  Fixpoint prefix_sums (acc : nat) (l : list nat) : list nat :=
    match l with [] => [acc] | a :: l' => acc :: prefix_sums (acc + a) l' end.
  Definition forest_arrays (n : nat) (forest : list tree) : list nat * list nat * list nat :=
    let ks := map (tree_kids forest) (seq 0 n) in
    let indx := concat ks in
    (map root forest, prefix_sums 0 (map (@length nat) ks), match indx with [] => [O] | _ => indx end).

  (* evalBasisSupported: f = evalSupport(point[0]); for j>=1: f *= evalSupport(point[j]); return 0.0 at the first
     direction that is not supported *)
  Fixpoint basis_from (f : Q) (pt : idx) (x : list Q) : Q * bool :=
    match pt, x with
    | p :: pt', t :: x' => let '(v, s) := evalSupport r order p t in if s then basis_from (f * v)%Q pt' x' else (0%Q, false)
    | _, _ => (f, true)
    end.
  Definition basis_supported (pt : idx) (x : list Q) : Q * bool :=
    match pt, x with
    | p :: pt', t :: x' => let '(v, s) := evalSupport r order p t in if s then basis_from v pt' x' else (0%Q, false)
    | _, _ => (1%Q, true)                   (* num_dimensions = 0 does not occur *)
    end.

  (* walkTree<1>: (sindx, svals) in visiting order; a point that is not supported is not recorded and not descended into *)
  Fixpoint walk_tree (pts : list idx) (x : list Q) (t : tree) : list (nat * Q) :=
    match t with
    | Node i ts => let '(v, s) := basis_supported (nth i pts []) x in
                   if s then (i, v) :: flat_map (walk_tree pts x) ts else []
    end.
  Definition walk (pts : list idx) (forest : list tree) (x : list Q) : list (nat * Q) :=
    flat_map (walk_tree pts x) forest.

  (* walkTree<0> for one output: y += basis_value * s[k] over the visited points *)
  Definition eval_walk (pts : list idx) (forest : list tree) (surp : nat -> Q) (x : list Q) : Q :=
    fold_left (fun y iv => (y + snd iv * surp (fst iv))%Q) (walk pts forest x) 0%Q.
  (* the dense route: sum over ALL points of basis value (evalBasisRaw = product of evalRaw) times surplus *)
  Definition eval_full (pts : list idx) (surp : nat -> Q) (x : list Q) : Q :=
    fold_left (fun y i => (y + basisQ r order (nth i pts []) x * surp i)%Q) (seq 0 (length pts)) 0%Q.

  (* entry i of the sparse row (zero where absent) and of the dense row *)
  Definition sparse_entry (w : list (nat * Q)) (i : nat) : Q :=
    match find (fun iv => Nat.eqb (fst iv) i) w with Some iv => snd iv | None => 0%Q end.
  Definition dense_entry (pts : list idx) (x : list Q) (i : nat) : Q := basisQ r order (nth i pts []) x.

  (* all directions supported (the isSupported flag of evalBasisSupported) *)
  Fixpoint supp_all (pt : idx) (x : list Q) : bool :=
    match pt, x with
    | p :: pt', t :: x' => snd (evalSupport r order p t) && supp_all pt' x'
    | _, _ => true
    end.
End TreeWalk.
