(* Tensor selection with the INTEGER depth types and the declared polynomial space (C08 tables; ties of C02 / C03).
   Mirrors SparseGrids/tsgIndexManipulator.{hpp,cpp}:
     ProperWeights (contour type_level), generateLevelWeightsCache<int, type_level, false>, getIndexWeight<int, type_level>,
     generateLowerMultiIndexSet (the lexicographic walk), selectLowerSet<check_limits>, the full-tensor special case of
     selectTensors, generateFullTensorSet, createPolynomialSpace,
   and the choice of `rule_exactness` made by GridGlobal::selectTensors, makeSequenceSet (tsgGridSequence.cpp) and
   GridFourier::selectTensors.
   NOT modelled: the curved and hyperbolic contours (type_curved, type_ipcurved, type_qpcurved, type_hyperbolic, type_iphyperbolic,
   type_qphyperbolic: floating-point logarithms / powers, selectGeneralSet), rule_customtabulated (tables read from a file),
   overflow of int.
   The unbounded C++ loops (`do ... while (w <= offset)`, `while (rule_exactness(l) < e) l++`, the walk) take a `fuel`; with too
   little fuel the model stops early where the C++ would go on (for ever, when the table does not grow).  No proofs here. *)
From TV Require Import Common.Prelude Model.IndexSets gen.ExactnessGen.
Local Open Scope Z_scope.

(* the six depth types whose selection uses integer arithmetic only *)
Inductive depth_type : Set := ty_level | ty_iptotal | ty_qptotal | ty_tensor | ty_iptensor | ty_qptensor.

Definition is_tensor_type (ty : depth_type) : bool :=
  match ty with ty_tensor | ty_iptensor | ty_qptensor => true | _ => false end.
(* OneDimensionalMeta::isExactLevel / isExactQuadrature restricted to the six types *)
Definition is_exact_level (ty : depth_type) : bool := match ty with ty_level | ty_tensor => true | _ => false end.
Definition is_exact_quadrature (ty : depth_type) : bool := match ty with ty_qptotal | ty_qptensor => true | _ => false end.

(* ProperWeights::linear for the contour type_level: the weights, or ones when none are given *)
Definition proper_weights (d : nat) (weights : list Z) : list Z :=
  match weights with [] => repeat 1 d | _ => weights end.

(* ProperWeights::minLinear (std::min_element; the vector has num_dimensions >= 1 entries) *)
Definition min_list (l : list Z) : Z := match l with [] => 0 | x :: r => fold_left Z.min r x end.
Definition max_list (l : list Z) : Z := match l with [] => 0 | x :: r => fold_left Z.max r x end.

(* exactness_cache[i]: 0 for i = 0, 1 + rule_exactness(i - 1) afterwards *)
Definition exactness_at (exact : Z -> Z) (i : Z) : Z := if i =? 0 then 0 else 1 + exact (i - 1).

(* the do-while of generateLevelWeightsCache for one dimension, after the initial entry 0 has been pushed and with i the last index
   written: i++ ; w = wl * exactness_cache[i] ; push w ; repeat while ceil(w) <= offset *)
Fixpoint cache_loop (fuel : nat) (exact : Z -> Z) (wl off i : Z) : list Z :=
  match fuel with
  | O => []
  | S f => let i' := i + 1 in
           let w := wl * exactness_at exact i' in
           w :: (if w <=? off then cache_loop f exact wl off i' else [])
  end.

Definition weights_cache (fuel : nat) (exact : Z -> Z) (w : list Z) (off : Z) : list (list Z) :=
  map (fun wl => 0 :: cache_loop fuel exact wl off 0) w.

(* getIndexWeight<int, type_level>: sum of cache[j][index[j]] (a read beyond the cached entries is undefined in C++; here 0 - the
   proofs show that the walk never performs one) *)
Fixpoint index_weight (cache : list (list Z)) (t : idx) : Z :=
  match cache, t with
  | c :: cs, x :: xs => nth (Z.to_nat x) c 0 + index_weight cs xs
  | _, _ => 0
  end.

(* the limit test of selectLowerSet<true>: reject when level_limits[j] > -1 and index[j] > level_limits[j];
   an empty limits vector selects selectLowerSet<false>: no test *)
Fixpoint limits_ok (limits : list Z) (t : idx) : bool :=
  match limits, t with
  | l :: ls, x :: xs => negb ((-1 <? l) && (l <? x)) && limits_ok ls xs
  | _, _ => true
  end.

(* generateLowerMultiIndexSet: the walk  root = 0 ; insert ; root[d-1]++ ; while inside: insert, root[d-1]++ ; when outside: clear the
   coordinates from c on, root[--c]++ ; stop when outside with c = 0.  Written as the nested loops it performs: [scan] is the loop
   over one coordinate x = x0, x0+1, ... (all indexes that start with prefix ++ [x] are listed by [sub], then inside is asked about
   prefix ++ [x+1] padded with zeros), [walk rest prefix] lists the indexes that start with prefix.  The order of the calls of
   `inside` and of the insertions is that of the C++ loop; the zero index is inserted without a test. *)
Section Walk.
  Variable inside : idx -> bool.
  Variable fuel : nat.

  Fixpoint scan (sub : idx -> list idx) (pad : idx -> idx) (n : nat) (prefix : idx) (x : Z) : list idx :=
    match n with
    | O => []
    | S n' => sub (prefix ++ [x]) ++
              (if inside (pad (prefix ++ [x + 1])) then scan sub pad n' prefix (x + 1) else [])
    end.

  Fixpoint walk (rest : nat) (prefix : idx) : list idx :=
    match rest with
    | O => [prefix]
    | S r => scan (walk r) (fun p => p ++ repeat 0 r) fuel prefix 0
    end.
End Walk.

Definition generate_lower (d : nat) (inside : idx -> bool) (fuel : nat) : list idx := walk inside fuel d [].

(* selectLowerSet for the contour type_level (types level, iptotal, qptotal) as called by selectTensors:
   normalized_offset = offset * minLinear *)
Definition total_inside (cache : list (list Z)) (limits : list Z) (noff : Z) (t : idx) : bool :=
  limits_ok limits t && (index_weight cache t <=? noff).

Definition select_total (fuel : nat) (exact : Z -> Z) (weights limits : list Z) (offset : Z) (d : nat) : list idx :=
  let w := proper_weights d weights in
  let noff := offset * min_list w in
  let cache := weights_cache fuel exact w noff in
  generate_lower d (total_inside cache limits noff) fuel.

(* generateFullTensorSet(num_entries): all indexes 0 <= t_j < num_entries[j], the last dimension running fastest
   (the C++ decodes i = num_total-1 .. 0 in the mixed radix num_entries; written here as the nested product it enumerates) *)
Definition zseq (n : Z) : list Z := map Z.of_nat (seq 0 (Z.to_nat n)).

Fixpoint full_tensor (num_entries : list Z) : list idx :=
  match num_entries with
  | [] => [[]]
  | n :: r => flat_map (fun x => map (cons x) (full_tensor r)) (zseq n)
  end.

(* int l = 0; while (rule_exactness(l) < e) l++; *)
Fixpoint first_level (fuel : nat) (exact : Z -> Z) (e l : Z) : Z :=
  match fuel with
  | O => l
  | S f => if exact l <? e then first_level f exact e (l + 1) else l
  end.

(* num_points[j] = min(num_points[j], level_limits[j] + 1) for level_limits[j] >= 0, when limits are given *)
Fixpoint clamp_limits (np limits : list Z) : list Z :=
  match np, limits with
  | n :: np', l :: ls => (if 0 <=? l then Z.min n (l + 1) else n) :: clamp_limits np' ls
  | _, _ => np
  end.

(* the special case of selectTensors for type_tensor / type_iptensor / type_qptensor *)
Definition tensor_num_points (fuel : nat) (exact : Z -> Z) (weights limits : list Z) (offset : Z) (d : nat) : list Z :=
  clamp_limits (map (fun w => first_level fuel exact (w * offset) 0 + 1) (proper_weights d weights)) limits.

Definition select_tensor_box (fuel : nat) (exact : Z -> Z) (weights limits : list Z) (offset : Z) (d : nat) : list idx :=
  full_tensor (tensor_num_points fuel exact weights limits offset d).

(* MultiIndexManipulations::selectTensors for the six integer types *)
Definition select (fuel : nat) (ty : depth_type) (exact : Z -> Z) (weights limits : list Z) (offset : Z) (d : nat) : list idx :=
  if is_tensor_type ty then select_tensor_box fuel exact weights limits offset d
  else select_total fuel exact weights limits offset d.

(* enough fuel for every table with exact l >= l: the loops stop at the latest at level offset * (largest weight) + 1 *)
Definition sel_fuel (weights : list Z) (offset : Z) (d : nat) : nat :=
  Z.to_nat (offset * max_list (proper_weights d weights)) + 2.

(* createPolynomialSpace(tensors, exactness): the union (unionSets: repeated MultiIndexSet +=, the sorted merge) of the full
   tensors with exactness(t_j) + 1 entries in direction j *)
Definition poly_space (exact : Z -> Z) (tensors : list idx) : list idx :=
  fold_right merge [] (map (fun t => full_tensor (map (fun l => exact l + 1) t)) tensors).

(* which function the three grid families pass as rule_exactness:
     GridGlobal::selectTensors      isExactLevel(type) -> l ; isExactQuadrature(type) -> getQExact(l, rule) ; else getIExact(l, rule)
     makeSequenceSet (GridSequence) isExactQuadrature(type) -> getQExact(l, rule) ; else l   (level AND ip types: the index is the degree)
     GridFourier::selectTensors     isExactLevel(type) -> l ; else getIExact(l, rule_fourier) (ip AND qp types) *)
Inductive family : Set := fam_global | fam_sequence | fam_fourier.

Definition rule_exactness (fam : family) (r : onedrule) (ty : depth_type) : Z -> Z :=
  match fam with
  | fam_global => if is_exact_level ty then (fun l => l) else if is_exact_quadrature ty then g_qExact r else g_iExact r
  | fam_sequence => if is_exact_quadrature ty then g_qExact r else (fun l => l)
  | fam_fourier => if is_exact_level ty then (fun l => l) else g_iExact rule_fourier
  end.

(* the tensor set (Global, Fourier) / point set (Sequence) of make<Family>Grid(d, outputs, depth, type, rule, weights, limits) *)
Definition grid_tensors (fam : family) (r : onedrule) (ty : depth_type) (weights limits : list Z) (depth : Z) (d : nat) : list idx :=
  select (sel_fuel weights depth d) ty (rule_exactness fam r ty) weights limits depth d.

(* getGlobalPolynomialSpace(interpolation):
     Global    createPolynomialSpace(active_tensors, interpolation ? getIExact(., rule) : getQExact(., rule))
     Sequence  interpolation ? the points themselves : createPolynomialSpace(points, getQExact(., rule)) *)
Definition global_poly_space (r : onedrule) (interpolation : bool) (tensors : list idx) : list idx :=
  poly_space (if interpolation then g_iExact r else g_qExact r) tensors.
Definition sequence_poly_space (r : onedrule) (interpolation : bool) (points : list idx) : list idx :=
  if interpolation then points else poly_space (g_qExact r) points.

(* generateFullTensorSet as it is written: num_total = product of num_entries; index i = 0 .. num_total-1 is decoded in the mixed radix
   num_entries, the last dimension first (t % *l ; t /= *l over the reversed entries), and stored at position i.  Proved equal to
   [full_tensor] for positive entries (Proofs/TensorSelectProofs.v, full_tensor_decode_eq). *)
Fixpoint decode_rev (rnp : list Z) (t : Z) : list Z :=
  match rnp with
  | [] => []
  | l :: r => Z.rem t l :: decode_rev r (Z.quot t l)
  end.

Definition full_tensor_decode (num_entries : list Z) : list idx :=
  map (fun i => rev (decode_rev (rev num_entries) i)) (zseq (fold_left Z.mul num_entries 1)).
