(* The family-independent points / needed / values state machine (M-B), written after
   loadNeededValues / updateValues / acceptUpdatedTensors, mergeRefinement, clearRefinement and the
   `needed = candidates - points` step of every set*Refinement / updateGrid.  No proofs here. *)
From TV Require Import Common.Prelude Model.IndexSets.

Section GridState.
  Variable V : Type.       (* one block of num_outputs model values *)
  Variable vzero : V.

  Record gstate := mkgs { points : list idx; needed : list idx; values : list V }.

  Inductive op :=
  | Load (vals : list V)          (* loadNeededValues *)
  | Propose (cand : list idx)     (* any refinement / update: needed := cand - points *)
  | Clear                         (* clearRefinement *)
  | Merge.                        (* mergeRefinement *)

  Definition step (st : gstate) (o : op) : gstate :=
    match o with
    | Load vals =>
        match needed st with
        | [] => mkgs (points st) [] vals                               (* overwrite the loaded values *)
        | _ :: _ =>
            match points st with
            | [] => mkgs (needed st) [] vals                           (* initial grid: relabel needed as points *)
            | _ :: _ => mkgs (merge (points st) (needed st)) []
                             (addValues V vzero (points st) (needed st) (values st) vals)
            end
        end
    | Propose cand => mkgs (points st) (diff cand (points st)) (values st)
    | Clear => mkgs (points st) [] (values st)
    | Merge =>
        match needed st with
        | [] => st
        | _ :: _ => mkgs (merge (points st) (needed st)) []
                         (repeat vzero (length (points st) + length (needed st)))
        end
    end.

  Definition run (st : gstate) (ops : list op) : gstate := fold_left step ops st.

  (* value attached to index p, if p is loaded *)
  Definition value_at (st : gstate) (p : idx) : option V := lookup V (points st) (values st) p.
End GridState.

Arguments mkgs {V}. Arguments points {V}. Arguments needed {V}. Arguments values {V}.
Arguments Load {V}. Arguments Propose {V}. Arguments Clear {V}. Arguments Merge {V}.
