(* Executable model of the tasgrid command-line tool (C16): Tasgrid/tasgrid_main.cpp (argument parsing) and
   Tasgrid/tasgridWrapper.cpp (checkSane, checkSanePostRead, executeCommand and its handlers, matrix files).

   The tables (switch string -> command, options, requirements per command, const list ...) come from
   gen/CliTable.v, which translator/clitable.py REGENERATES from the working tree on every run.
   This file gives
     parse      : list string -> option request        the argument loop of main()
     sane       : request -> bool                       checkSane        (table-driven + the pinned rule-dependent tests)
     sane_post  : request -> ginfo -> bool              checkSanePostRead
     plan       : request -> ginfo -> list api          the DOCUMENTED library call sequence of each command
     writeMatrix / readMatrix                           byte-level model of the binary "TSG" matrix file
   [plan] is written from `tasgrid <command> help`, Doxygen/InterfaceCLI.md and the documentation of the library
   methods; it does NOT follow the source where the source deviates from the documentation (those places are the
   findings of the check); it is executed through the public API by harness/clidrv.cpp and compared with the real tool.
   No proofs in this file. *)
From Coq Require Import List String Ascii ZArith Bool.
From TV Require Import gen.CliTable.
Import ListNotations.
Local Open Scope string_scope.
Local Open Scope Z_scope.

(* ------------------------------------------------------------------------------------------------ *)
(* small utilities *)
Fixpoint assoc {B} (k : string) (l : list (string * B)) : option B :=
  match l with
  | [] => None
  | (k', v) :: r => if String.eqb k k' then Some v else assoc k r
  end.

Fixpoint mem_string (s : string) (l : list string) : bool :=
  match l with [] => false | a :: r => String.eqb s a || mem_string s r end.

Fixpoint mem_command (c : command) (l : list command) : bool :=
  match l with [] => false | a :: r => command_beq c a || mem_command c r end.

(* decimal integers as written by the generator and by MATLAB's num2str: optional '-', then digits *)
Definition digit_of (c : ascii) : option Z :=
  let n := Z.of_nat (nat_of_ascii c) in
  if (48 <=? n) && (n <=? 57) then Some (n - 48) else None.

Fixpoint parse_digits (s : string) (acc : Z) : option Z :=
  match s with
  | EmptyString => Some acc
  | String c r => match digit_of c with Some d => parse_digits r (acc * 10 + d) | None => None end
  end.

Definition parse_int (s : string) : option Z :=
  match s with
  | EmptyString => None
  | String "-"%char EmptyString => None
  | String "-"%char r => option_map Z.opp (parse_digits r 0)
  | _ => parse_digits s 0
  end.

(* ------------------------------------------------------------------------------------------------ *)
(* the request = TasgridWrapper's fields after main() has parsed the arguments.
   Options are kept as the list of (setter, value text) in REVERSE order of appearance: the first binding of a
   setter is the last one given on the command line (each setter overwrites its field). *)
Record request := mkRequest { r_cmd : command; r_opts : list (setter * string) }.

Fixpoint get_opt (st : setter) (l : list (setter * string)) : option string :=
  match l with
  | [] => None
  | (s, v) :: r => if setter_beq st s then Some v else get_opt st r
  end.

Definition opt (st : setter) (r : request) : option string := get_opt st (r_opts r).
Definition opt_str (st : setter) (r : request) : string := match opt st r with Some v => v | None => "" end.
Definition opt_int (st : setter) (dflt : Z) (r : request) : Z :=
  match opt st r with Some v => match parse_int v with Some z => z | None => dflt end | None => dflt end.
Definition opt_set (st : setter) (r : request) : bool := match opt st r with Some _ => true | None => false end.
Definition opt_nonempty (st : setter) (r : request) : bool := negb (String.eqb (opt_str st r) "").

(* TasgridWrapper::TasgridWrapper(): num_dimensions 0, num_outputs -1, depth -1, order 1, ref_output -1, min_growth -1 *)
Definition dims (r : request) := opt_int setNumDimensions 0 r.
Definition outs (r : request) := opt_int setNumOutputs (-1) r.
Definition depth (r : request) := opt_int setNumDepth (-1) r.
Definition order (r : request) := opt_int setOrder 1 r.
Definition refout (r : request) := opt_int setRefOutput (-1) r.
Definition mingrowth (r : request) := opt_int setMinGrowth (-1) r.
Definition dtype (r : request) := opt_str setDepthType r.          (* "" = type_none *)
Definition rule (r : request) := opt_str setRule r.                (* "" = rule_none *)
Definition gridfile (r : request) := opt_str setGridFilename r.
Definition outfile (r : request) := opt_str setOutFilename r.
Definition printf (r : request) := opt_set setPrintPoints r.
Definition asciif (r : request) := opt_set setUseASCII r.

(* ------------------------------------------------------------------------------------------------ *)
(* main(): the first argument selects the command (std::map built from an initialiser list: first entry wins),
   then the option loop *)
Definition lookup_switch (s : string) : option command := assoc s switch_table.

Definition is_help (s : string) : bool := mem_string s ["help"; "-help"; "--help"].

(* value checks done by main() before the setter is called (an invalid value makes main return 1) *)
Definition value_ok (k : valkind) (v : string) : bool :=
  match k with
  | VString => true
  | VInt => match parse_int v with Some _ => true | None => false end
  | VFloat32 | VFloat64 => true               (* the text of a floating point number: opaque in the model *)
  | VFlag => true
  | VDepthType => mem_string v depth_type_strings
  | VRule => mem_string v rule_strings && negb (String.eqb v "none")
  | VConformal => String.eqb v "asin"
  | VRefType => mem_string v refinement_strings
  end.

Definition positional_gridfile (c : command) : bool :=
  match c with command_summary | command_using_construct => true | _ => false end.

Fixpoint parse_opts (c : command) (args : list string) (acc : list (setter * string)) : option request :=
  match args with
  | [] => Some (mkRequest c acc)
  | a :: rest =>
    if is_help a then None                        (* prints the help of the command, no grid operation *)
    else match assoc a option_table with
         | Some (st, VFlag) => parse_opts c rest ((st, "true") :: acc)
         | Some (st, k) =>
           match rest with
           | [] => None                           (* "must provide ..." return 1 *)
           | v :: rest' => if value_ok k v then parse_opts c rest' ((st, v) :: acc) else None
           end
         | None =>
           if positional_gridfile c then parse_opts c rest ((setGridFilename, a) :: acc)
           else parse_opts c rest acc             (* WARNING: ignoring unknown option *)
         end
  end.

Definition parse (args : list string) : option request :=
  match args with
  | [] => None
  | c :: rest => match lookup_switch c with Some cmd => parse_opts cmd rest [] | None => None end
  end.

(* ------------------------------------------------------------------------------------------------ *)
(* OneDimensionalMeta::isGlobal / isSequence / isLocalPolynomial / isWavelet / isFourier on rule names *)
Definition rule_is_localp (s : string) := mem_string s ["localp"; "localp-zero"; "semi-localp"; "localp-boundary"].
Definition rule_is_wavelet (s : string) := String.eqb s "wavelet".
Definition rule_is_fourier (s : string) := String.eqb s "fourier".
Definition rule_is_global (s : string) :=
  negb (rule_is_localp s || rule_is_wavelet s || rule_is_fourier s || String.eqb s "" || String.eqb s "none").
Definition rule_is_sequence (s : string) :=
  mem_string s ["leja"; "rleja"; "rleja-shifted"; "max-lebesgue"; "min-lebesgue"; "min-delta"].
Definition rule_needs_alpha (s : string) :=
  mem_string s ["gauss-gegenbauer"; "gauss-laguerre"; "gauss-hermite"; "gauss-gegenbauer-odd"; "gauss-hermite-odd"; "gauss-jacobi"].
Definition rule_needs_beta (s : string) := String.eqb s "gauss-jacobi".
Definition type_is_curved (s : string) := mem_string s ["curved"; "ipcurved"; "qpcurved"].
Definition type_is_ip (s : string) := mem_string s ["iptotal"; "ipcurved"; "iptensor"; "iphyperbolic"].

(* checkSane, table part.  ReqOutputsPositive is the source's `num_outputs < 1`; its own message and the library
   say "could be zero", so the documented requirement is outputs >= 0 (deviation reported by the check). *)
Definition holds (q : req) (r : request) : bool :=
  match q with
  | ReqDimensions => 1 <=? dims r
  | ReqOutputsPositive => 0 <=? outs r
  | ReqOutputs => 0 <=? outs r
  | ReqDepth => 0 <=? depth r
  | ReqDepthType => negb (String.eqb (dtype r) "")
  | ReqRule => negb (String.eqb (rule r) "")
  | ReqSomeOutput => opt_nonempty setGridFilename r || opt_nonempty setOutFilename r || printf r
  | ReqOutfileOrPrint => opt_nonempty setOutFilename r || printf r
  | ReqGridfile => opt_nonempty setGridFilename r
  | ReqXfile => opt_nonempty setXFilename r
  | ReqValsfile => opt_nonempty setValsFilename r
  | ReqConformalType => opt_set setConformalType r
  | ReqConformalFile => opt_nonempty setConformalFilename r
  | ReqShift => opt_set setShift r
  | ReqWeightfile => opt_nonempty setWeightFilename r
  | ReqDescription => opt_nonempty setDescription r
  end.

Definition sane_table (r : request) : bool :=
  forallb (fun qc => negb (mem_command (r_cmd r) (snd qc)) || holds (fst qc) r) required.

Definition cmd_is (c : command) (r : request) : bool := command_beq (r_cmd r) c.

(* checkSane, the conditions pinned textually by the translator (PINNED_SANE, PINNED_SANE_SWITCH) *)
Definition sane_special (r : request) : bool :=
  let c := r_cmd r in
  let mq := cmd_is command_makequadrature r in
  negb ((order r <? -1) && (cmd_is command_makelocalp r || (mq && rule_is_localp (rule r)))) &&
  negb (negb (order r =? 1) && negb (order r =? 3) && (cmd_is command_makewavelet r || (mq && rule_is_wavelet (rule r)))) &&
  negb (String.eqb (dtype r) "" && mq && (rule_is_global (rule r) || rule_is_fourier (rule r))) &&
  (if cmd_is command_makeglobal r || mq then
     negb (negb (opt_set setAlpha r) && rule_needs_alpha (rule r)) &&
     negb (negb (opt_set setBeta r) && rule_needs_beta (rule r)) &&
     negb (negb (opt_nonempty setCustomFilename r) && String.eqb (rule r) "custom-tabulated")
   else true) &&
  negb (negb (opt_nonempty setConformalFilename r) && opt_set setConformalType r) &&
  match c with
  | command_makeglobal => rule_is_global (rule r)
  | command_makesequence => rule_is_sequence (rule r)
  | command_makelocalp => rule_is_localp (rule r)
  | command_getpoly => negb (mem_string (dtype r) ["level"; "curved"; "hyperbolic"])
  | _ => true
  end.

Definition sane (r : request) : bool := sane_table r && sane_special r.

(* ------------------------------------------------------------------------------------------------ *)
(* what the tool learns from the grid file (readGridfile + the queries of checkSanePostRead and of the handlers) *)
Inductive gkind := KGlobal | KSequence | KLocalPoly | KWavelet | KFourier.
Record ginfo := mkGinfo { g_kind : gkind; g_dims : Z; g_outs : Z; g_loaded : bool; g_constr : bool }.

Definition k_localp (g : ginfo) := match g_kind g with KLocalPoly => true | _ => false end.
Definition k_wavelet (g : ginfo) := match g_kind g with KWavelet => true | _ => false end.
Definition k_fourier (g : ginfo) := match g_kind g with KFourier => true | _ => false end.
Definition k_global (g : ginfo) := match g_kind g with KGlobal => true | _ => false end.
Definition k_sequence (g : ginfo) := match g_kind g with KSequence => true | _ => false end.
Definition k_local (g : ginfo) := k_localp g || k_wavelet g.

Definition reads_grid (c : command) : bool :=
  negb (mem_command c make_commands) && negb (command_beq c command_makeexoquad).

(* checkSanePostRead *)
Definition sane_post (r : request) (g : ginfo) : bool :=
  let c := r_cmd r in
  let is_refine := cmd_is command_refine r || cmd_is command_get_candidate_construction r in
  negb (negb (g_loaded g) && mem_command c needs_loaded) &&
  negb ((g_outs g =? 0) && mem_command c needs_outputs) &&
  negb ((g_outs g <=? refout r) && cmd_is command_getanisocoeff r) &&
  negb ((refout r =? -1) && (1 <? g_outs g) && k_global g && cmd_is command_getanisocoeff r) &&
  negb (k_local g && cmd_is command_refine_aniso r) &&
  negb (k_fourier g && cmd_is command_refine_surp r) &&
  (if cmd_is command_refine_aniso r || (is_refine && negb (k_local g))
   then negb (k_local g) && negb (String.eqb (dtype r) "") else true) &&
  (if cmd_is command_refine_surp r || (is_refine && k_local g)
   then opt_set setTolerance r && opt_set setTypeRefinement r else true) &&
  negb (k_local g && cmd_is command_getpoly r).

(* ------------------------------------------------------------------------------------------------ *)
(* library calls *)
Inductive ivec := INone | IRow (file : string) (len : Z).   (* one-row matrix file, entries truncated to int *)
Record sink := mkSink { sk_file : string; sk_ascii : bool; sk_print : bool }.

Inductive api :=
| ReadGrid (f : string)
| MakeGlobal (d o dep : Z) (type rule : string) (aniso : ivec) (alpha beta custom : string) (limits : ivec)
| MakeSequence (d o dep : Z) (type rule : string) (aniso limits : ivec)
| MakeFourier (d o dep : Z) (type : string) (aniso limits : ivec)
| MakeLocalPoly (d o dep ord : Z) (rule : string) (limits : ivec)
| MakeWavelet (d o dep ord : Z) (limits : ivec)
| SetDomainTransform (f : string) (rows : Z)
| SetConformalAsin (f : string) (len : Z)
| UpdateGrid (dep : Z) (type : string) (aniso : ivec)
| OutPoints (s : sink) | OutNeeded (s : sink) | OutQuadrature (s : sink)
| OutPointsIndexes (s : sink) | OutNeededIndexes (s : sink)
| EvaluateBatch (x : string) (s : sink) | Differentiate (x : string) (s : sink)
| InterpolationWeights (x : string) (s : sink) | DifferentiationWeights (x : string) (s : sink)
| HierarchicalDense (x : string) (s : sink) | HierarchicalSparse (x : string) (s : sink)
| Integrate (s : sink) | HierarchicalSupport (s : sink)
| AnisoCoefficients (type : string) (out : Z) (s : sink)
| GetCoefficients (interleave_complex : bool) (s : sink)
| LoadNeededValues (v : string)
| BeginConstruction | FinishConstruction
| LoadConstructedPoints (x v : string)
| SetCoefficients (v : string) (interleaved_complex : bool)
| ClearRefinement | MergeRefinement
| PrintUsingConstruction | PrintStats
| GlobalPolynomialSpace (interpolation : bool) (s : sink)
| AnisoRefine (type : string) (mingrowth out : Z) (limits : ivec)
| SurplusRefine (tol criteria : string) (out : Z) (limits : ivec) (scale : string) (scale_cols : Z)
| CandidatesAnisoWeights (type : string) (weights limits : ivec) (s : sink)
| CandidatesAnisoOutput (type : string) (out : Z) (limits : ivec) (s : sink)
| CandidatesSurplus (tol criteria : string) (out : Z) (limits : ivec) (scale : string) (scale_cols : Z) (s : sink)
| ExoticQuadrature (dep : Z) (shift weightfile description : string) (symmetric : bool) (s : sink)
| WriteGrid (f : string) (ascii : bool).

(* calls that change the grid object *)
Definition mutating (a : api) : bool :=
  match a with
  | MakeGlobal _ _ _ _ _ _ _ _ _ _ | MakeSequence _ _ _ _ _ _ _ | MakeFourier _ _ _ _ _ _
  | MakeLocalPoly _ _ _ _ _ _ | MakeWavelet _ _ _ _ _
  | SetDomainTransform _ _ | SetConformalAsin _ _ | UpdateGrid _ _ _
  | LoadNeededValues _ | BeginConstruction | FinishConstruction | LoadConstructedPoints _ _
  | SetCoefficients _ _ | ClearRefinement | MergeRefinement
  | AnisoRefine _ _ _ _ | SurplusRefine _ _ _ _ _ _
  | CandidatesAnisoWeights _ _ _ _ | CandidatesAnisoOutput _ _ _ _ | CandidatesSurplus _ _ _ _ _ _ _ => true
  | _ => false
  end.

Definition is_write (a : api) : bool := match a with WriteGrid _ _ => true | _ => false end.

(* ------------------------------------------------------------------------------------------------ *)
Definition the_sink (r : request) : sink := mkSink (outfile r) (asciif r) (printf r).
Definition has_sink (r : request) : bool := opt_nonempty setOutFilename r || printf r.

Definition limits_of (r : request) (d : Z) : ivec :=
  if opt_nonempty setLevelLimitsFilename r then IRow (opt_str setLevelLimitsFilename r) d else INone.
Definition aniso_of (r : request) (d : Z) : ivec :=
  if opt_nonempty setAnisoFilename r
  then IRow (opt_str setAnisoFilename r) (if type_is_curved (dtype r) then 2 * d else d) else INone.

Definition float_or (st : setter) (dflt : string) (r : request) : string :=
  match opt st r with Some v => v | None => dflt end.

(* the documented grid family of a make command: by the command, and for -makequadrature by the class of the rule *)
Definition make_call (r : request) : list api :=
  let d := dims r in
  let o := if cmd_is command_makequadrature r then 0 else outs r in
  let lim := limits_of r d in
  let an := aniso_of r d in
  let glob := MakeGlobal d o (depth r) (dtype r) (rule r) an (float_or setAlpha "0" r) (float_or setBeta "0" r)
                         (opt_str setCustomFilename r) lim in
  match r_cmd r with
  | command_makeglobal => [glob]
  | command_makesequence => [MakeSequence d o (depth r) (dtype r) (rule r) an lim]
  | command_makefourier => [MakeFourier d o (depth r) (dtype r) an lim]
  | command_makelocalp => [MakeLocalPoly d o (depth r) (order r) (rule r) lim]
  | command_makewavelet => [MakeWavelet d o (depth r) (order r) lim]
  | command_makequadrature =>
      if rule_is_global (rule r) then [glob]
      else if rule_is_fourier (rule r) then [MakeFourier d o (depth r) (dtype r) an lim]
      else if rule_is_localp (rule r) then [MakeLocalPoly d o (depth r) (order r) (rule r) lim]
      else [MakeWavelet d o (depth r) (order r) lim]
  | _ => []
  end.

Definition transform_calls (r : request) : list api :=
  (if opt_nonempty setTransformFilename r then [SetDomainTransform (opt_str setTransformFilename r) (dims r)] else []).
Definition conformal_calls (r : request) (d : Z) : list api :=
  (if opt_set setConformalType r then [SetConformalAsin (opt_str setConformalFilename r) d] else []).

(* read-only by the documentation: everything that only gets/evaluates/prints *)
Definition doc_readonly (c : command) : bool :=
  match c with
  | command_getquadrature | command_getinterweights | command_getdiffweights | command_getpoints
  | command_getneeded | command_evaluate | command_integrate | command_differentiate | command_getanisocoeff
  | command_getpoly | command_summary | command_getcoefficients | command_evalhierarchical_sparse
  | command_evalhierarchical_dense | command_gethsupport | command_getpointsindex | command_getneededindex
  | command_using_construct => true
  | _ => false
  end.

Definition write_calls (r : request) : list api :=
  if opt_nonempty setGridFilename r then [WriteGrid (gridfile r) (asciif r)] else [].

(* -refine / -refineaniso / -refinesurp *)
Definition refine_calls (r : request) (g : ginfo) : list api :=
  let lim := limits_of r (g_dims g) in
  let use_aniso := match r_cmd r with
                   | command_refine_aniso => true
                   | command_refine => negb (k_local g)      (* Global, Sequence and Fourier (InterfaceCLI.md) *)
                   | _ => false
                   end in
  let out := if k_global g && (refout r =? -1) then 0 else refout r in
  if use_aniso then
    [AnisoRefine (dtype r) (if mingrowth r <? 1 then 1 else mingrowth r) out lim]
  else
    let use_scale := opt_nonempty setValsFilename r && k_local g in
    [SurplusRefine (float_or setTolerance "0" r) (float_or setTypeRefinement "fds" r) out lim
                   (if use_scale then opt_str setValsFilename r else "")
                   (if refout r =? -1 then g_outs g else 1)].

Definition candidate_calls (r : request) (g : ginfo) : list api :=
  let lim := limits_of r (g_dims g) in
  (if g_constr g then [] else [BeginConstruction]) ++
  (if k_local g then
     [CandidatesSurplus (float_or setTolerance "0" r) (float_or setTypeRefinement "fds" r) (refout r) lim
                        (opt_str setValsFilename r) (if refout r =? -1 then g_outs g else 1) (the_sink r)]
   else if opt_nonempty setAnisoFilename r then
     [CandidatesAnisoWeights (dtype r) (aniso_of r (g_dims g)) lim (the_sink r)]
   else
     [CandidatesAnisoOutput (dtype r) (refout r) lim (the_sink r)]).

Definition out_if (r : request) (a : api) : list api := if has_sink r then [a] else [].

(* the body of a command that works on an existing grid (after ReadGrid) *)
Definition body (r : request) (g : ginfo) : list api :=
  let s := the_sink r in
  let x := opt_str setXFilename r in
  let v := opt_str setValsFilename r in
  match r_cmd r with
  | command_update => [UpdateGrid (depth r) (dtype r) (aniso_of r (g_dims g))]
  | command_setconformal => conformal_calls r (g_dims g)
  | command_getquadrature => out_if r (OutQuadrature s)
  | command_getinterweights => [InterpolationWeights x s]
  | command_getdiffweights => [DifferentiationWeights x s]
  | command_getpoints => out_if r (OutPoints s)
  | command_getneeded => out_if r (OutNeeded s)
  | command_loadvalues => [LoadNeededValues v]
  | command_evaluate => [EvaluateBatch x s]
  | command_integrate => [Integrate s]
  | command_differentiate => [Differentiate x s]
  | command_getanisocoeff => [AnisoCoefficients (dtype r) (if k_global g && (refout r =? -1) then 0 else refout r) s]
  | command_refine_surp | command_refine_aniso | command_refine => refine_calls r g ++ out_if r (OutNeeded s)
  | command_refine_clear => ClearRefinement :: (if g_constr g then [FinishConstruction] else [])
  | command_refine_merge => [MergeRefinement]
  | command_using_construct => [PrintUsingConstruction]
  | command_get_candidate_construction => candidate_calls r g
  | command_load_construction => (if g_constr g then [] else [BeginConstruction]) ++ [LoadConstructedPoints x v]
  | command_getpoly => [GlobalPolynomialSpace (type_is_ip (dtype r)) s]
  | command_summary => [PrintStats]
  | command_getcoefficients => [GetCoefficients (k_fourier g) s]
  | command_setcoefficients => [SetCoefficients v (k_fourier g)]
  | command_evalhierarchical_sparse => [HierarchicalSparse x s]
  | command_evalhierarchical_dense => [HierarchicalDense x s]
  | command_gethsupport => [HierarchicalSupport s]
  | command_getpointsindex => [OutPointsIndexes s]
  | command_getneededindex => [OutNeededIndexes s]
  | _ => []
  end.

Definition is_make (c : command) : bool :=
  match c with
  | command_makeglobal | command_makesequence | command_makelocalp | command_makewavelet | command_makefourier
  | command_makequadrature => true
  | _ => false
  end.

(* [g] is ignored by the make commands and by -makeexoquad (they do not read a grid file) *)
Definition plan (r : request) (g : ginfo) : list api :=
  match r_cmd r with
  | command_makeexoquad =>
      [ExoticQuadrature (depth r) (float_or setShift "0" r) (opt_str setWeightFilename r) (opt_str setDescription r)
                        (opt_set setIsSymmetric r) (mkSink (outfile r) true (printf r))]
  | command_makequadrature =>
      make_call r ++ transform_calls r ++ conformal_calls r (dims r) ++ out_if r (OutQuadrature (the_sink r)) ++ write_calls r
  | c =>
      if is_make c then
        make_call r ++ transform_calls r ++ conformal_calls r (dims r) ++ out_if r (OutPoints (the_sink r)) ++ write_calls r
      else
        ReadGrid (gridfile r) :: body r g ++ (if doc_readonly c then [] else write_calls r)
  end.

(* deviations of the regenerated tables from the documentation, computed (reported by the check as findings) *)
Definition const_list_deviations : list command :=
  filter (fun c => xorb (mem_command c const_commands) (doc_readonly c)) all_commands.

Definition ambiguous_switches : list string :=
  map fst (filter (fun sc => match lookup_switch (fst sc) with
                             | Some c => negb (command_beq c (snd sc)) | None => true end) switch_table).

Definition help_row_ok (row : string * option string) : bool :=
  match lookup_switch (fst row) with
  | None => false
  | Some c => match snd row with
              | None => true
              | Some sh => match lookup_switch sh with Some c' => command_beq c c' | None => false end
              end
  end.
Definition help_deviations : list string := map fst (filter (fun row => negb (help_row_ok row)) help_table).

Definition float32_options : list string :=
  map fst (filter (fun o => match snd (snd o) with VFloat32 => true | _ => false end) option_table).

Definition positive_outputs_required : bool :=
  existsb (fun qc => match fst qc with ReqOutputsPositive => true | _ => false end) required.

(* ------------------------------------------------------------------------------------------------ *)
(* binary matrix file (writeMatrix / readMatrix / readMatrixFromOpen<mode_binary>):
     'T' 'S' 'G'  rows:int32-LE  cols:int32-LE  rows*cols doubles (8 bytes each, opaque here)
   a byte is a Z in [0,256) *)
Definition byte := Z.
Record matrix := mkMatrix { m_rows : Z; m_cols : Z; m_data : list (list byte) }.   (* one 8-byte block per entry *)

Definition le32 (z : Z) : list byte :=
  [z mod 256; (z / 256) mod 256; (z / 65536) mod 256; (z / 16777216) mod 256].
Definition de32 (b0 b1 b2 b3 : byte) : Z := b0 + 256 * b1 + 65536 * b2 + 16777216 * b3.

Definition tsg_magic : list byte := [84; 83; 71].

Definition writeMatrix (m : matrix) : list byte :=
  tsg_magic ++ le32 (m_rows m) ++ le32 (m_cols m) ++ List.concat (m_data m).

Fixpoint take_blocks (n : nat) (bs : list byte) : option (list (list byte) * list byte) :=
  match n with
  | O => Some ([], bs)
  | S n' =>
    match bs with
    | a :: b :: c :: d :: e :: f :: g :: h :: rest =>
      match take_blocks n' rest with
      | Some (blocks, tl) => Some ([a; b; c; d; e; f; g; h] :: blocks, tl)
      | None => None
      end
    | _ => None
    end
  end.

(* None: not a binary matrix file (the tool then re-opens it as ASCII) or a truncated one *)
Definition readMatrix (bs : list byte) : option matrix :=
  match bs with
  | 84 :: 83 :: 71 :: r0 :: r1 :: r2 :: r3 :: c0 :: c1 :: c2 :: c3 :: rest =>
    let rows := de32 r0 r1 r2 r3 in
    let cols := de32 c0 c1 c2 c3 in
    match take_blocks (Z.to_nat (rows * cols)) rest with
    | Some (blocks, []) => Some (mkMatrix rows cols blocks)
    | _ => None
    end
  | _ => None
  end.

Definition wf_matrix (m : matrix) : Prop :=
  0 <= m_rows m < 2147483648 /\ 0 <= m_cols m < 2147483648 /\
  Z.of_nat (List.length (m_data m)) = m_rows m * m_cols m /\
  Forall (fun b => List.length b = 8%nat) (m_data m).
